package checks

import (
	"go/ast"
	"go/constant"
	"go/token"
	"go/types"
	"strings"

	"gnoverif/engine"
)

// C42 — secret connection (tm2/pkg/p2p/conn/secret_connection.go).
func init() {
	register("C42", c42)
	meta("C42", Meta{
		Text:      "Decides structural necessary conditions of the secret-connection property: every Seal uses sendAead with sendNonce and is followed on all paths by exactly its incrNonce(sendNonce); every Open uses recvAead with recvNonce, its error is tested, the failing side returns before the plaintext buffer is read and the succeeding side increments recvNonce before that; the four key/nonce fields are written only by the constructor literal (two distinct AEADs from the two derived secrets, two distinct nonce allocations) and each is used by one direction only; deriveSecretAndChallenge assigns opposite key halves on the two sides of locIsLeast and takes the challenge from a third, disjoint range; MakeSecretConnection returns a connection only after the checked errors of the key exchange and DH, with the remote key field written once, after VerifyBytes(challenge, remote signature) held, on the very key that was verified, and signs the same challenge; the received ephemeral key is returned only when hasSmallOrder is false; the declared chunk length is bounded by dataMaxSize before slicing; writer and reader size frames from the same constants; incrNonce panics instead of wrapping. Level 'other': code-shape clauses.",
		Note:      "Not covered: confidentiality/authenticity as cryptographic facts, stream equality under arbitrary chunking as behaviour, partial writes of the underlying conn. Trusts go/types+go/cfg; calls through cipher.AEAD resolve to the interface method.",
		Technique: "CFG dominance / checked-guard analysis, gate facts, who-may-write and who-may-use tables on the four secret fields, constant evaluation of frame sizes and key ranges",
		Ref:       "DESIGN.md §2 C42",
	})
	const F = "tm2/pkg/p2p/conn/secret_connection.go"
	mutants("C42",
		Mutant{"send-nonce-reused", F, "\t\t\tincrNonce(sc.sendNonce)\n", "", "nonce-pairing"},
		Mutant{"recv-nonce-not-advanced", F, "\tincrNonce(sc.recvNonce)\n", "", "nonce-pairing"},
		Mutant{"recv-with-send-nonce", F, "sc.recvAead.Open(frame[:0], sc.recvNonce[:], sealedFrame, nil)", "sc.recvAead.Open(frame[:0], sc.sendNonce[:], sealedFrame, nil)", "key-separation"},
		Mutant{"open-error-ignored", F, "\tif err != nil {\n\t\treturn n, errors.New(\"failed to decrypt SecretConnection\")\n\t}\n", "", "nonce-pairing"},
		Mutant{"same-halves-both-sides", F, "copy(sendSecret[:], res[0:aeadKeySize])\n\t\tcopy(recvSecret[:], res[aeadKeySize:aeadKeySize*2])", "copy(recvSecret[:], res[0:aeadKeySize])\n\t\tcopy(sendSecret[:], res[aeadKeySize:aeadKeySize*2])", "key-derivation"},
		Mutant{"challenge-overlaps-key", F, "copy(challenge[:], res[2*aeadKeySize:2*aeadKeySize+32])", "copy(challenge[:], res[aeadKeySize:aeadKeySize+32])", "key-derivation"},
		Mutant{"verify-weakened", F, "if !remPubKey.VerifyBytes(challenge[:], remSignature) {", "if !remPubKey.VerifyBytes(challenge[:], remSignature) && len(remSignature) > 0 {", "handshake-auth"},
		Mutant{"small-order-accepted", F, "if hasSmallOrder(_remEphPub) {", "if hasSmallOrder(_remEphPub) && _remEphPub[0] == 1 {", "handshake-auth"},
		Mutant{"dh-error-ignored", F, "dhSecret, err := computeDHSecret(remEphPub, locEphPriv)\n\tif err != nil {\n\t\treturn nil, err\n\t}", "dhSecret, _ := computeDHSecret(remEphPub, locEphPriv)", "handshake-auth"},
		Mutant{"early-remote-key", F, "\tremPubKey, remSignature := authSigMsg.Key, authSigMsg.Sig\n", "\tremPubKey, remSignature := authSigMsg.Key, authSigMsg.Sig\n\tsc.remPubKey = authSigMsg.Key\n", "handshake-auth"},
		Mutant{"connection-rebuilt-after-auth", F, "\tsc.remPubKey = remPubKey\n\treturn sc, nil", "\tsc = &SecretConnection{conn: conn, recvNonce: new([aeadNonceSize]byte), sendNonce: new([aeadNonceSize]byte), recvAead: recvAead, sendAead: sendAead}\n\tsc.remPubKey = remPubKey\n\treturn sc, nil", "handshake-auth tm2/pkg/p2p/conn.MakeSecretConnection exactly one SecretConnection constructed"},
		Mutant{"chunk-length-unbounded", F, "if chunkLength > dataMaxSize {", "if chunkLength > totalFrameSize {", "frame-bounds"},
		Mutant{"reader-frame-too-small", F, "sealedFrame := pool.Get(aeadSizeOverhead + totalFrameSize)\n\tdefer pool.Put(sealedFrame)", "sealedFrame := pool.Get(totalFrameSize)\n\tdefer pool.Put(sealedFrame)", "frame-bounds"},
		Mutant{"nonce-wraps", F, "if counter == math.MaxUint64 {", "if counter == math.MaxUint64 && nonce[0] == 1 {", "nonce-wrap"},
	)
}

func c42(c *engine.Ctx) {
	c.Explain = "Decides structural necessary conditions of the secret-connection property: (1) nonce-pairing: Seal(sendAead, sendNonce) is followed on every path by incrNonce(sendNonce) before the function can exit or seal again; Open(recvAead, recvNonce)'s error is tested, the failing side returns, and incrNonce(recvNonce) precedes every read of the plaintext frame; incrNonce has exactly these two call sites; (2) key-separation: sendAead/sendNonce are used only by Write, recvAead/recvNonce only by Read, all four written only in MakeSecretConnection's literal from distinct sources; (3) key-derivation: opposite key halves under locIsLeast, challenge from a disjoint range; (4) handshake-auth: non-nil connection only after checked shareEphPubKey/computeDHSecret/shareAuthSignature errors and VerifyBytes(challenge, remote sig) == true on the key stored into remPubKey; local signature over the same challenge; small-order ephemeral keys rejected; (5) frame-bounds: chunkLength <= dataMaxSize before slicing; identical frame constants on both sides, totalFrameSize = dataMaxSize + dataLenSize, overhead = AEAD overhead, little-endian length on both sides; (6) nonce-wrap: incrNonce stores the counter only when it was not MaxUint64. Not covered: cryptographic strength; stream equality as behaviour."
	p := c.Load("tm2/pkg/p2p/conn")
	if p == nil {
		return
	}
	const P = "tm2/pkg/p2p/conn."
	const SC = P + "(*SecretConnection)."
	fld := func(n string) *types.Var {
		v := p.Field(P + "SecretConnection." + n)
		if v == nil {
			c.Undecided("anchor", P+"SecretConnection."+n, "field not found")
		}
		return v
	}
	fSendA, fRecvA, fSendN, fRecvN, fRem := fld("sendAead"), fld("recvAead"), fld("sendNonce"), fld("recvNonce"), fld("remPubKey")
	if fSendA == nil || fRecvA == nil || fSendN == nil || fRecvN == nil || fRem == nil {
		return
	}
	wr, rd := c.MustFunc(SC+"Write"), c.MustFunc(SC+"Read")
	mk := c.MustFunc(P + "MakeSecretConnection")
	if wr == nil || rd == nil || mk == nil {
		return
	}
	// scope: the anchored function, the private functions of the package it
	// (transitively) calls, and all their literals — sealing/opening may have
	// been extracted into a helper
	scope := func(f *engine.Fn) []*engine.Fn {
		var out []*engine.Fn
		for _, x := range niCalleeClosure(p, f) {
			if x.Pkg != f.Pkg || (x != f && x.Obj != nil && x.Obj.Exported()) {
				continue
			}
			out = append(out, x)
			out = append(out, x.AllLits()...)
		}
		return out
	}
	// the function that performs the Open (Read itself or a helper of it)
	rdF := rd
	for _, x := range scope(rd) {
		if len(x.CallsTo("crypto/cipher.(AEAD).Open")) > 0 {
			rdF = x
			break
		}
	}

	// ---- (1) nonce pairing ----
	nSeal := 0
	for _, f := range scope(wr) {
		info := f.Info()
		g := f.Graph()
		incs := f.CallsTo(P + "incrNonce")
		seals := f.CallsTo("crypto/cipher.(AEAD).Seal")
		for _, s := range seals {
			nSeal++
			okA := niSelField(info, niRecvExpr(s.Call), fSendA)
			okN := len(s.Call.Args) == 4 && niMentionsField(info, s.Call.Args[1], fSendN) && !niMentionsField(info, s.Call.Args[1], fRecvN)
			c.Check("key-separation", wr.Name+" Seal uses sendAead with sendNonce", s.Pos(), okA && okN, "")
			ok, why := false, "no incrNonce(sc.sendNonce) follows the Seal on every path"
			for _, i := range incs {
				if len(i.Call.Args) == 1 && niSelField(info, i.Call.Args[0], fSendN) && g.Dominates(s, i) {
					leak := false
					for _, rb := range g.ReturnBlocks() {
						if niReachAvoiding(g, s, rb, i) {
							leak = true
						}
					}
					// falling off the end of a literal without return
					if !leak {
						ok, why = true, "incrNonce(sendNonce) post-dominates the Seal"
					} else {
						why = "the function can return after Seal without advancing the nonce"
					}
				}
			}
			c.Check("nonce-pairing", wr.Name+" Seal then incrNonce(sendNonce)", s.Pos(), ok, why)
		}
		if len(seals) > 0 || len(incs) > 0 {
			c.Check("nonce-pairing", wr.Name+" one incrNonce per Seal", f.Pos(), len(incs) == len(seals), "")
		}
	}
	c.Floor("nonce-pairing (Seal)", nSeal, 1)

	{
		f := rdF
		info := f.Info()
		g := f.Graph()
		opens := f.CallsTo("crypto/cipher.(AEAD).Open")
		incs := f.CallsTo(P + "incrNonce")
		c.Floor("nonce-pairing (Open)", len(opens), 1)
		nOpenAll, nIncAll := 0, 0
		for _, x := range scope(rd) {
			nOpenAll += len(x.CallsTo("crypto/cipher.(AEAD).Open"))
			nIncAll += len(x.CallsTo(P + "incrNonce"))
		}
		c.Check("nonce-pairing", rd.Name+" one incrNonce per Open", f.Pos(), len(incs) == len(opens) && nOpenAll == len(opens) && nIncAll == len(incs), "")
		for _, o := range opens {
			okA := niSelField(info, niRecvExpr(o.Call), fRecvA)
			okN := len(o.Call.Args) == 4 && niMentionsField(info, o.Call.Args[1], fRecvN) && !niMentionsField(info, o.Call.Args[1], fSendN)
			c.Check("key-separation", rd.Name+" Open uses recvAead with recvNonce", o.Pos(), okA && okN, "")
			// plaintext buffer = base object of arg 0 (frame[:0])
			var frame types.Object
			if len(o.Call.Args) == 4 {
				if se, ok := ast.Unparen(o.Call.Args[0]).(*ast.SliceExpr); ok {
					frame = engine.ObjOf(info, se.X)
				} else {
					frame = engine.ObjOf(info, o.Call.Args[0])
				}
			}
			var inc *engine.Site
			for _, i := range incs {
				if len(i.Call.Args) == 1 && niSelField(info, i.Call.Args[0], fRecvN) {
					inc = i
				}
			}
			ok, why := false, "no incrNonce(sc.recvNonce) on the success side of the Open error test"
			if inc != nil {
				gr := g.CheckedGuard(o, inc)
				switch {
				case !gr.OK:
					why = "Open's error does not gate the nonce increment: " + gr.Why
				case !c39NilTestPasses(gr):
					why = "Open's error is tested by `" + engine.ExprString(gr.Cond) + "`"
				default:
					ok, why = true, "incrNonce(recvNonce) only after Open returned nil"
				}
			}
			c.Check("nonce-pairing", rd.Name+" Open checked then incrNonce(recvNonce)", o.Pos(), ok, why)
			// every read of the plaintext is after the increment (hence after the checked Open)
			nuse := 0
			bad := ""
			if frame != nil && inc != nil {
				engine.InspectBody(f, func(n ast.Node) {
					id, isID := n.(*ast.Ident)
					if !isID || info.ObjectOf(id) != frame || info.Defs[id] != nil {
						return
					}
					if o.Call.Pos() <= id.Pos() && id.End() <= o.Call.End() {
						return
					}
					s := f.SiteOf(id)
					if s == nil {
						return
					}
					// pool.Put(frame) bookkeeping is not a read of plaintext
					if top, isDefer := s.Top.(*ast.DeferStmt); isDefer && strings.HasSuffix(niCallee(info, top.Call), "go-buffer-pool.Put") {
						return
					}
					nuse++
					if !g.Dominates(inc, s) {
						bad = "plaintext buffer read at " + f.Prog.Pos(id.Pos()) + " is not preceded by the checked Open + incrNonce"
					}
				})
			}
			c.Check("nonce-pairing", rd.Name+" plaintext read only after authenticated Open", o.Pos(), bad == "" && nuse >= 1, bad)
		}
	}
	incRefs := p.RefsToFunc(P + "incrNonce")
	incExtra := p.UnexpectedCallers(incRefs, []string{SC + "Write", SC + "Read"})
	c.Check("who-may-call", P+"incrNonce", token.NoPos, len(incExtra) == 0 && len(incRefs) == 2, "callers outside Write/Read and their private helpers: "+join(incExtra))

	// ---- (2) key separation: users and writers of the four fields ----
	cons := c42FindConstruction(p, mk)
	for _, x := range []struct {
		f    *types.Var
		name string
		user string
	}{{fSendA, "sendAead", SC + "Write"}, {fSendN, "sendNonce", SC + "Write"}, {fRecvA, "recvAead", SC + "Read"}, {fRecvN, "recvNonce", SC + "Read"}} {
		extra := p.UnexpectedCallers(p.RefsTo(func(o types.Object) bool { return o == types.Object(x.f) }), []string{x.user, P + "MakeSecretConnection", cons.B.Name})
		c.Check("key-separation", P+"SecretConnection."+x.name+" used by one direction only", token.NoPos, len(extra) == 0, "other users: "+join(extra))
		var nonLit []string
		for _, w := range p.FieldWrites(x.f) {
			if w.Kind != "lit" || w.Fn.Root() != cons.B {
				nonLit = append(nonLit, w.Fn.Root().Name+"("+w.Kind+")")
			}
		}
		c.Check("who-may-write", P+"SecretConnection."+x.name, token.NoPos, len(nonLit) == 0, "writes other than the constructor literal: "+join(nonLit))
	}
	c42Constructor(c, p, mk, cons, fSendA, fRecvA, fSendN, fRecvN, fRem)

	// ---- (3) key derivation ----
	if f := c.MustFunc(P + "deriveSecretAndChallenge"); f != nil {
		c42Derive(c, p, f)
	}

	// ---- small order ----
	if f := c.MustFunc(P + "shareEphPubKey"); f != nil {
		c42SmallOrder(c, p, f)
	}

	// ---- (5) frame bounds ----
	c42Frames(c, p, wr, rd)

	// ---- (6) nonce wrap ----
	if f := c.MustFunc(P + "incrNonce"); f != nil {
		info := f.Info()
		g := f.Graph()
		puts := f.CallsTo("encoding/binary.(littleEndian).PutUint64", "encoding/binary.(bigEndian).PutUint64")
		gets := f.CallsTo("encoding/binary.(littleEndian).Uint64", "encoding/binary.(bigEndian).Uint64")
		c.Floor("nonce-wrap", len(puts), 1)
		for _, s := range puts {
			ok := false
			var ctr types.Object
			if len(s.Call.Args) == 2 {
				ctr = engine.ObjOf(info, s.Call.Args[1])
			}
			for _, ft := range niFacts(g, s) {
				if cmp, isCmp := niAsCmp(ft); isCmp {
					for _, cm := range []niCmp{cmp, cmp.niFlip()} {
						if ctr != nil && engine.ObjOf(info, cm.X) == ctr && (cm.Op == token.NEQ || cm.Op == token.LSS) {
							if tv := info.Types[cm.Y]; tv.Value != nil && constant.Compare(tv.Value, token.EQL, constant.MakeUint64(^uint64(0))) {
								ok = true
							}
						}
					}
				}
			}
			c.Check("nonce-wrap", f.Name+" stores only a counter that was not MaxUint64", s.Pos(), ok, "the store must be on the non-panicking side of `counter == math.MaxUint64`")
			// counter is read from the same bytes and incremented by one
			okRW := false
			if len(gets) == 1 && ctr != nil && len(s.Call.Args) == 2 && len(gets[0].Call.Args) == 1 &&
				engine.ExprString(gets[0].Call.Args[0]) == engine.ExprString(s.Call.Args[0]) &&
				strings.HasPrefix(gets[0].CalleeName(), strings.TrimSuffix(s.CalleeName(), "PutUint64")) {
				incd := 0
				engine.InspectBody(f, func(n ast.Node) {
					switch st := n.(type) {
					case *ast.IncDecStmt:
						if engine.ObjOf(info, st.X) == ctr && st.Tok == token.INC {
							incd++
						} else if engine.ObjOf(info, st.X) == ctr {
							incd = -100
						}
					case *ast.AssignStmt:
						for _, l := range st.Lhs {
							if engine.ObjOf(info, l) == ctr && st.Tok != token.DEFINE {
								incd = -100
							}
						}
					}
				})
				okRW = incd == 1
			}
			c.Check("nonce-wrap", f.Name+" counter = same bytes + 1", s.Pos(), okRW, "read, ++ once, written back to the same nonce bytes with the same byte order")
		}
	}
}

func c42Constructor(c *engine.Ctx, p *engine.Prog, mk *engine.Fn, cons c42Cons, fSendA, fRecvA, fSendN, fRecvN, fRem *types.Var) {
	const P = "tm2/pkg/p2p/conn."
	const rule = "handshake-auth"
	info := mk.Info()
	g := mk.Graph()
	// derive call
	dv, dobjs := niBoundCall(mk, P+"deriveSecretAndChallenge")
	if dv == nil || len(dobjs) != 3 {
		c.Undecided(rule, mk.Name, "deriveSecretAndChallenge call with three bound results not found")
		return
	}
	recvSecret, sendSecret, challenge := dobjs[0], dobjs[1], dobjs[2]
	// the connection is constructed by one composite literal, in mk or in one
	// private constructor helper called exactly once from mk
	c.Check(rule, mk.Name+" exactly one SecretConnection constructed per handshake", mk.Pos(), cons.Why == "", cons.Why)
	lit := cons.Lit
	vals := cons.Vals
	aeadFrom := func(e ast.Expr, secret types.Object) bool {
		if e == nil {
			return false
		}
		o := engine.ObjOf(info, e)
		// o bound from chacha20poly1305.New(secret[:])
		for _, s := range mk.CallsTo("golang.org/x/crypto/chacha20poly1305.New") {
			objs := niAssignedFromCall(mk, s)
			if len(objs) == 2 && objs[0] == o && o != nil && len(s.Call.Args) == 1 && niMentionsObj(info, s.Call.Args[0], secret) {
				// error checked before the literal
				if ls := cons.Site; ls != nil {
					if gr := g.CheckedGuard(s, ls); gr.OK && c39NilTestPasses(gr) {
						return true
					}
				}
			}
		}
		return false
	}
	c.Check("key-separation", mk.Name+" sendAead keyed by the send secret", mk.Pos(), aeadFrom(vals[fSendA], sendSecret), "sendAead must be chacha20poly1305.New(sendSecret) with its error checked")
	c.Check("key-separation", mk.Name+" recvAead keyed by the receive secret", mk.Pos(), aeadFrom(vals[fRecvA], recvSecret), "recvAead must be chacha20poly1305.New(recvSecret) with its error checked")
	isNew := func(e ast.Expr) bool {
		call, ok := ast.Unparen(e).(*ast.CallExpr)
		return ok && engine.IsBuiltinCall(info, call, "new")
	}
	c.Check("key-separation", mk.Name+" two fresh nonces", mk.Pos(), vals[fSendN] != nil && vals[fRecvN] != nil && isNew(vals[fSendN]) && isNew(vals[fRecvN]) && vals[fSendN] != vals[fRecvN], "sendNonce and recvNonce must be two separate zero allocations")

	// success returns
	eph, eobjs := niBoundCall(mk, P+"shareEphPubKey")
	dh, dhobjs := niBoundCall(mk, P+"computeDHSecret")
	gen, gobjs := niBoundCall(mk, P+"genEphKeys")
	if eph == nil || dh == nil || gen == nil || len(eobjs) != 2 || len(dhobjs) != 2 || len(gobjs) != 2 {
		c.Undecided(rule, mk.Name, "key-exchange steps (genEphKeys, shareEphPubKey, computeDHSecret) not found as single bound calls")
		return
	}
	// the authentication step may sit in mk or in a private helper called from it
	auD := mk.DeepCallsTo(2, P+"shareAuthSignature")
	if len(auD) != 1 {
		c.Undecided(rule, mk.Name, "expected exactly one (deep) call of shareAuthSignature")
		return
	}
	A := auD[0].Inner.Fn
	au := auD[0].Inner
	ainfo := A.Info()
	aobjs := niAssignedFromCall(A, au)
	chalA := challenge
	if A != mk {
		chalA = niParamMap(mk, auD[0].Outer.Call, A)[challenge]
	}
	if len(aobjs) != 2 || aobjs[0] == nil || chalA == nil {
		c.Undecided(rule, mk.Name, "shareAuthSignature result not bound / challenge not passed to the authentication helper")
		return
	}
	// data flow of the steps
	c.Check(rule, mk.Name+" shares the generated ephemeral public key", eph.Pos(), len(eph.Call.Args) == 2 && engine.ObjOf(info, eph.Call.Args[1]) == gobjs[0], "")
	c.Check(rule, mk.Name+" DH over (received ephemeral key, own ephemeral private key)", dh.Pos(), len(dh.Call.Args) == 2 && engine.ObjOf(info, dh.Call.Args[0]) == eobjs[0] && engine.ObjOf(info, dh.Call.Args[1]) == gobjs[1], "")
	c.Check(rule, mk.Name+" secrets derived from the DH result", dv.Pos(), len(dv.Call.Args) == 2 && engine.ObjOf(info, dv.Call.Args[0]) == dhobjs[0], "")
	// local signature over the challenge
	okSign := false
	for _, s := range A.CallsTo("tm2/pkg/crypto/ed25519.(PrivKeyEd25519).Sign", "tm2/pkg/crypto.(PrivKey).Sign") {
		objs := niAssignedFromCall(A, s)
		if len(s.Call.Args) == 1 && niMentionsObj(ainfo, s.Call.Args[0], chalA) && len(objs) == 2 && len(au.Call.Args) == 3 && engine.ObjOf(ainfo, au.Call.Args[2]) == objs[0] && objs[0] != nil {
			okSign = true
		}
	}
	c.Check(rule, mk.Name+" own signature is over the derived challenge", au.Pos(), okSign, "locPrivKey.Sign(challenge) must be what shareAuthSignature sends")
	// verified key/signature come from the received message
	msgObj := aobjs[0]
	fromMsg := func(fn *engine.Fn, o types.Object, field string) bool {
		if fn != A {
			return false
		}
		d := niSingleDef(fn, o)
		se, ok := ast.Unparen(d).(*ast.SelectorExpr)
		return d != nil && ok && se.Sel.Name == field && engine.ObjOf(fn.Info(), se.X) == msgObj
	}
	// verification: finds the VerifyBytes fact that holds at a site of mk
	// (directly, or imported from the checked authentication helper) and
	// returns mk's object for the verified key.
	verified := func(at *engine.Site) (bool, string, types.Object) {
		why := "no `remPubKey.VerifyBytes(challenge, remSignature)` fact holds here"
		for _, cf := range niFactsDeep(mk, at, 2) {
			finfo := cf.Info()
			call, isCall := ast.Unparen(cf.Expr).(*ast.CallExpr)
			if !isCall || !strings.HasSuffix(niCallee(finfo, call), ".VerifyBytes") {
				continue
			}
			key := engine.ObjOf(finfo, niRecvExpr(call))
			switch {
			case !cf.Holds:
				why = "reached when verification FAILED"
			case len(niGateFacts(cf.Gate)) != 1:
				why = "verification is combined with another condition: `" + engine.ExprString(cf.Gate.Cond) + "`"
			case len(call.Args) != 2 || !niMentionsObj(finfo, call.Args[0], cf.Loc(challenge)):
				why = "the message verified is not the derived challenge"
			case !fromMsg(cf.Fn, key, "Key") || !fromMsg(cf.Fn, engine.ObjOf(finfo, call.Args[1]), "Sig"):
				why = "key/signature verified are not the ones received in the auth message"
			default:
				return true, "only when the received key verified the received signature over the challenge", cf.Outer(key)
			}
		}
		return false, why, nil
	}
	nret := 0
	for _, r := range niReturns(mk) {
		rs := r.Node.(*ast.ReturnStmt)
		if len(rs.Results) != 2 || isNil(rs.Results[0]) {
			continue
		}
		nret++
		for _, gd := range []struct {
			n string
			s *engine.Site
		}{{"shareEphPubKey", eph}, {"computeDHSecret", dh}} {
			gr := g.CheckedGuard(gd.s, r)
			c.Check(rule, mk.Name+" connection returned only after checked "+gd.n, r.Pos(), gr.OK && c39NilTestPasses(gr), gr.Why)
		}
		okA, whyA := niDeepChecked(mk, auD[0], r)
		c.Check(rule, mk.Name+" connection returned only after checked shareAuthSignature", r.Pos(), okA, whyA)
		okV, whyV, _ := verified(r)
		c.Check(rule, mk.Name+" connection returned only after challenge verification", r.Pos(), okV, whyV)
		c.Check(rule, mk.Name+" returns the constructed connection with nil error", r.Pos(), isNil(rs.Results[1]) && lit != nil && cons.Obj != nil && engine.ObjOf(info, rs.Results[0]) == cons.Obj, "the value returned must be the one object constructed for this handshake")
	}
	// the authentication exchange ran over that very object (its nonces were advanced by the auth frames)
	{
		scA := cons.Obj
		if A != mk && cons.Obj != nil {
			scA = niParamMap(mk, auD[0].Outer.Call, A)[cons.Obj]
		}
		c.Check(rule, mk.Name+" authentication exchange runs over the returned connection", au.Pos(), scA != nil && len(au.Call.Args) == 3 && engine.ObjOf(ainfo, au.Call.Args[0]) == scA, "shareAuthSignature must use the connection object that is returned (a rebuilt connection would restart its nonces)")
	}
	c.Floor(rule, nret, 1)
	// remPubKey: single write, after verification, of the verified key
	ws := p.FieldWrites(fRem)
	var bad []string
	nw := 0
	for _, w := range ws {
		if w.Kind == "lit" {
			bad = append(bad, w.Fn.Root().Name+" (literal)")
			continue
		}
		nw++
		as, ok := w.Node.(*ast.AssignStmt)
		s := w.Fn.SiteOf(w.Node)
		if w.Fn != mk || !ok || len(as.Rhs) != 1 || s == nil {
			bad = append(bad, w.Fn.Root().Name)
			continue
		}
		okV, whyV, vkey := verified(s)
		switch {
		case !okV:
			bad = append(bad, "write not gated by the verification: "+whyV)
		case vkey == nil || engine.ObjOf(info, as.Rhs[0]) != vkey:
			bad = append(bad, "value written is not the verified key")
		}
	}
	c.Check(rule, P+"SecretConnection.remPubKey written once, after verification, with the verified key", token.NoPos, len(bad) == 0 && nw == 1, join(bad))
}

func c42Derive(c *engine.Ctx, p *engine.Prog, f *engine.Fn) {
	const rule = "key-derivation"
	info := f.Info()
	g := f.Graph()
	var res [3]types.Object
	k := 0
	if f.Type.Results != nil {
		for _, fl := range f.Type.Results.List {
			for _, nm := range fl.Names {
				if k < 3 {
					res[k] = info.ObjectOf(nm)
					k++
				}
			}
		}
	}
	least := paramObj(f, 1)
	if k != 3 || least == nil {
		c.Undecided(rule, f.Name, "named results (recvSecret, sendSecret, challenge) / locIsLeast parameter not found")
		return
	}
	type cp struct {
		dst    types.Object
		lo, hi int64
		least  int // 1 holds, 0 not, -1 unconditional
		s      *engine.Site
	}
	var cps []cp
	var src types.Object
	for _, s := range f.CallsTo("builtin.copy") {
		if len(s.Call.Args) != 2 {
			continue
		}
		ds, ok1 := ast.Unparen(s.Call.Args[0]).(*ast.SliceExpr)
		ss, ok2 := ast.Unparen(s.Call.Args[1]).(*ast.SliceExpr)
		if !ok1 || !ok2 || ss.Low == nil || ss.High == nil {
			continue
		}
		lo, okl := niIntVal(f, ss.Low, 0)
		hi, okh := niIntVal(f, ss.High, 0)
		if !okl || !okh {
			continue
		}
		so := engine.ObjOf(info, ss.X)
		if src == nil {
			src = so
		}
		x := cp{dst: engine.ObjOf(info, ds.X), lo: lo, hi: hi, least: -1, s: s}
		if so != src {
			x.dst = nil
		}
		for _, ft := range niFacts(g, s) {
			if engine.ObjOf(info, ft.Expr) == least {
				if ft.Holds {
					x.least = 1
				} else {
					x.least = 0
				}
			}
		}
		cps = append(cps, x)
	}
	find := func(dst types.Object, least int) *cp {
		var out *cp
		for i := range cps {
			if cps[i].dst == dst && cps[i].least == least {
				if out != nil {
					return nil
				}
				out = &cps[i]
			}
		}
		return out
	}
	rL, sL, rN, sN, ch := find(res[0], 1), find(res[1], 1), find(res[0], 0), find(res[1], 0), find(res[2], -1)
	c.Floor(rule, len(cps), 5)
	if rL == nil || sL == nil || rN == nil || sN == nil || ch == nil {
		c.Check(rule, f.Name+" five key-material copies recognised", f.Pos(), false, "expected copy(recv/send) on both sides of locIsLeast and one unconditional challenge copy, all from one buffer")
		return
	}
	disjoint := func(a, b *cp) bool { return a.hi <= b.lo || b.hi <= a.lo }
	same := func(a, b *cp) bool { return a.lo == b.lo && a.hi == b.hi }
	c.Check(rule, f.Name+" send and receive keys are different ranges", f.Pos(), disjoint(rL, sL) && disjoint(rN, sN), "")
	c.Check(rule, f.Name+" the two sides of locIsLeast swap the ranges", f.Pos(), same(rL, sN) && same(sL, rN), "the peer with the smaller ephemeral key must receive with the range the other sends with")
	c.Check(rule, f.Name+" challenge range is disjoint from both keys", f.Pos(), disjoint(ch, rL) && disjoint(ch, sL), "")
	ks := p.Object("tm2/pkg/p2p/conn.aeadKeySize")
	okLen := false
	if kc, ok := ks.(*types.Const); ok {
		if v, ok2 := constant.Int64Val(kc.Val()); ok2 {
			okLen = rL.hi-rL.lo == v && sL.hi-sL.lo == v && ch.hi-ch.lo == 32
		}
	}
	c.Check(rule, f.Name+" full-length keys and 32-byte challenge", f.Pos(), okLen, "")
	// the buffer is filled by io.ReadFull(hkdf, buf[:]) with checked error before the copies
	okFill := false
	for _, s := range f.CallsTo("io.ReadFull") {
		if len(s.Call.Args) == 2 && niMentionsObj(info, s.Call.Args[1], src) && g.Dominates(s, ch.s) {
			if gr := g.CheckedGuard(s, ch.s); gr.OK && c39NilTestPasses(gr) {
				okFill = true
			}
		}
	}
	c.Check(rule, f.Name+" key material fully read (error checked) before use", f.Pos(), okFill, "")
	// the HKDF input is the DH secret
	okIn := false
	for _, s := range f.CallsTo("golang.org/x/crypto/hkdf.New") {
		if len(s.Call.Args) == 4 && niMentionsObj(info, s.Call.Args[1], paramObj(f, 0)) {
			okIn = true
		}
	}
	c.Check(rule, f.Name+" HKDF keyed by the DH secret", f.Pos(), okIn, "")
}

func c42SmallOrder(c *engine.Ctx, p *engine.Prog, f *engine.Fn) {
	const P = "tm2/pkg/p2p/conn."
	const rule = "handshake-auth"
	n := 0
	for _, l := range f.AllLits() {
		info := l.Info()
		g := l.Graph()
		us := l.CallsTo("tm2/pkg/amino.UnmarshalSizedReader")
		if len(us) == 0 {
			continue
		}
		var key types.Object
		if len(us[0].Call.Args) >= 2 {
			if u, ok := ast.Unparen(us[0].Call.Args[1]).(*ast.UnaryExpr); ok && u.Op == token.AND {
				key = engine.ObjOf(info, u.X)
			}
		}
		for _, r := range niReturns(l) {
			rs := r.Node.(*ast.ReturnStmt)
			if len(rs.Results) != 3 || isNil(rs.Results[0]) {
				continue
			}
			n++
			okKey := key != nil && engine.ObjOf(info, rs.Results[0]) == key
			var okSO, okErr bool
			for _, ft := range niFacts(g, r) {
				if call, isCall := ast.Unparen(ft.Expr).(*ast.CallExpr); isCall && niCallee(info, call) == P+"hasSmallOrder" {
					if !ft.Holds && len(niGateFacts(ft.Gate)) == 1 && len(call.Args) == 1 && engine.ObjOf(info, call.Args[0]) == key {
						okSO = true
					}
				}
			}
			if gr := g.CheckedGuard(us[0], r); gr.OK && c39NilTestPasses(gr) {
				okErr = true
			}
			c.Check(rule, f.Name+" received ephemeral key returned only when not of small order", r.Pos(), okKey && okSO, "the key handed to the DH step must have passed !hasSmallOrder(key)")
			c.Check(rule, f.Name+" received ephemeral key returned only after a checked decode", r.Pos(), okErr, "")
		}
	}
	c.Floor(rule+" (small order)", n, 1)
	// shareEphPubKey returns a key only when no task failed
	g := f.Graph()
	info := f.Info()
	for _, r := range niReturns(f) {
		rs := r.Node.(*ast.ReturnStmt)
		if len(rs.Results) != 2 || isNil(rs.Results[0]) {
			continue
		}
		ok := false
		for _, ft := range niFacts(g, r) {
			if cmp, isCmp := niAsCmp(ft); isCmp && cmp.Op == token.EQL && isNil(cmp.Y) {
				if call, isCall := ast.Unparen(cmp.X).(*ast.CallExpr); isCall && strings.HasSuffix(niCallee(info, call), ".FirstError") {
					ok = true
				}
			}
		}
		c.Check(rule, f.Name+" key returned only when no exchange task failed", r.Pos(), ok, "must be on the FirstError() == nil side")
	}
	// hasSmallOrder compares against every blacklist entry
	if h := c.MustFunc(P + "hasSmallOrder"); h != nil {
		bl := p.Object(P + "blacklist")
		ok := false
		engine.InspectBody(h, func(n ast.Node) {
			if rs, isR := n.(*ast.RangeStmt); isR && bl != nil && engine.ObjOf(h.Info(), rs.X) == bl {
				ok = true
			}
		})
		nb := 0
		if v, isVar := bl.(*types.Var); isVar {
			// count literal entries
			for _, pk := range p.Pkgs {
				for _, file := range pk.Syntax {
					ast.Inspect(file, func(n ast.Node) bool {
						if vs, isVS := n.(*ast.ValueSpec); isVS {
							for i, nm := range vs.Names {
								if pk.TypesInfo.Defs[nm] == types.Object(v) && i < len(vs.Values) {
									if cl, isCL := vs.Values[i].(*ast.CompositeLit); isCL {
										nb = len(cl.Elts)
									}
								}
							}
						}
						return true
					})
				}
			}
		}
		c.Check(rule, h.Name+" scans the whole blacklist (7 low-order points)", h.Pos(), ok && nb >= 7, "")
	}
}

func c42Frames(c *engine.Ctx, p *engine.Prog, wr, rd *engine.Fn) {
	const P = "tm2/pkg/p2p/conn."
	const rule = "frame-bounds"
	cv := func(name string) (int64, types.Object, bool) {
		o := p.Object(P + name)
		k, ok := o.(*types.Const)
		if !ok {
			return 0, nil, false
		}
		v, ok := constant.Int64Val(k.Val())
		return v, o, ok
	}
	dMax, dMaxO, ok1 := cv("dataMaxSize")
	dLen, dLenO, ok2 := cv("dataLenSize")
	tot, _, ok3 := cv("totalFrameSize")
	ovh, _, ok4 := cv("aeadSizeOverhead")
	if !ok1 || !ok2 || !ok3 || !ok4 {
		c.Undecided(rule, P+"frame constants", "dataMaxSize/dataLenSize/totalFrameSize/aeadSizeOverhead not found")
		return
	}
	c.Check(rule, P+"totalFrameSize = dataMaxSize + dataLenSize", token.NoPos, tot == dMax+dLen && dLen == 4, "")
	okOv := false
	if o, ok := p.Object("golang.org/x/crypto/chacha20poly1305.Overhead").(*types.Const); ok {
		if v, ok := constant.Int64Val(o.Val()); ok && v == ovh {
			okOv = true
		}
	}
	c.Check(rule, P+"aeadSizeOverhead = chacha20poly1305.Overhead", token.NoPos, okOv, "")
	// buffers
	bufSize := func(f *engine.Fn, o types.Object) (int64, bool) {
		d := niLocalDefCall(f, o)
		if d == nil || !strings.HasSuffix(niCallee(f.Info(), d), "go-buffer-pool.Get") || len(d.Args) != 1 {
			return 0, false
		}
		return niIntVal(f, d.Args[0], 0)
	}
	// writer (closure)
	for _, f := range c42ScopeOf(p, wr) {
		info := f.Info()
		for _, s := range f.CallsTo("crypto/cipher.(AEAD).Seal") {
			var dst, pt types.Object
			if se, ok := ast.Unparen(s.Call.Args[0]).(*ast.SliceExpr); ok {
				dst = engine.ObjOf(info, se.X)
			}
			pt = engine.ObjOf(info, s.Call.Args[2])
			a, oka := bufSize(f, dst)
			b, okb := bufSize(f, pt)
			c.Check(rule, wr.Name+" sealed frame = totalFrameSize + overhead, plaintext frame = totalFrameSize", s.Pos(), oka && okb && a == tot+ovh && b == tot, "")
			// the bytes written are the sealed frame
			okW := false
			for _, w := range f.CallsTo("io.(Writer).Write", "io.(ReadWriteCloser).Write") {
				if len(w.Call.Args) == 1 && engine.ObjOf(info, w.Call.Args[0]) == dst && f.Graph().Dominates(s, w) {
					okW = true
				}
			}
			c.Check(rule, wr.Name+" writes the sealed frame after sealing", s.Pos(), okW, "")
			// length prefix little-endian in frame, chunk at [dataLenSize:], chunk bounded by dataMaxSize
			okLen, okCopy := false, false
			var chunk types.Object
			for _, cs := range f.CallsTo("builtin.copy") {
				if len(cs.Call.Args) == 2 && niSliceOf(f, cs.Call.Args[0], pt, dLen, -1) {
					chunk = engine.ObjOf(info, cs.Call.Args[1])
					okCopy = chunk != nil && f.Graph().Dominates(cs, s)
				}
			}
			for _, ps := range f.CallsTo("encoding/binary.(littleEndian).PutUint32") {
				if len(ps.Call.Args) == 2 && engine.ObjOf(info, ps.Call.Args[0]) == pt && f.Graph().Dominates(ps, s) {
					v := niStripConv(info, ps.Call.Args[1])
					if id, ok := v.(*ast.Ident); ok {
						if d := niSingleDef(f, info.ObjectOf(id)); d != nil {
							v = niStripConv(info, d)
						}
					}
					okLen = niIsLenOfObj(info, v, chunk)
				}
			}
			c.Check(rule, wr.Name+" frame = LE32(len(chunk)) ++ chunk", s.Pos(), okLen && okCopy, "")
			// every definition of chunk is data[:dataMaxSize], or the whole remaining data on the side
			// where len(data) <= dataMaxSize — directly or as the result of a private helper
			okChunk := chunk != nil
			nasg := 0
			var bounded func(fn *engine.Fn, e ast.Expr, at *engine.Site) bool
			bounded = func(fn *engine.Fn, e ast.Expr, at *engine.Site) bool {
				finfo := fn.Info()
				e = ast.Unparen(e)
				if isNil(e) {
					return true
				}
				if se, isS := e.(*ast.SliceExpr); isS {
					v, okv := niIntVal(fn, se.High, 0)
					lo, okl := int64(0), true
					if se.Low != nil {
						lo, okl = niIntVal(fn, se.Low, 0)
					}
					return okv && okl && lo == 0 && v == dMax
				}
				src := engine.ObjOf(finfo, e)
				if src == nil || at == nil {
					return false
				}
				for _, ft := range niFacts(fn.Graph(), at) {
					if cmp, isCmp := niAsCmp(ft); isCmp {
						for _, cm := range []niCmp{cmp, cmp.niFlip()} {
							if niIsLenOfObj(finfo, cm.X, src) && cm.Op == token.LEQ && niIsObj(finfo, cm.Y, dMaxO) {
								return true
							}
						}
					}
				}
				return false
			}
			// objBounded: every definition of obj in fn is bounded; a parameter is bounded when
			// every caller passes a bounded value (the cut may be done by the caller of a helper)
			var objBounded func(fn *engine.Fn, obj types.Object, depth int) bool
			objBounded = func(fn *engine.Fn, obj types.Object, depth int) bool {
				finfo := fn.Info()
				if obj == nil || depth < 0 {
					return false
				}
				root := fn.Root()
				for i := 0; ; i++ {
					po := paramObj(root, i)
					if po == nil {
						break
					}
					if po != obj {
						continue
					}
					sites, complete := c49CallersOf(p, root)
					if !complete || len(sites) == 0 || root.Obj == nil || root.Obj.Exported() {
						return false
					}
					for _, cs := range sites {
						if i >= len(cs.Call.Args) {
							return false
						}
						a := cs.Call.Args[i]
						if bounded(cs.Fn, a, cs) {
							continue
						}
						if !objBounded(cs.Fn, engine.ObjOf(cs.Fn.Info(), a), depth-1) {
							return false
						}
					}
					return true
				}
				ndef := 0
				okAll := true
				engine.InspectBody(fn, func(n ast.Node) {
					as, ok := n.(*ast.AssignStmt)
					if !ok {
						return
					}
					for i, l := range as.Lhs {
						if engine.ObjOf(finfo, l) != obj {
							continue
						}
						ndef++
						st := fn.SiteOf(as)
						if len(as.Lhs) == len(as.Rhs) {
							if !bounded(fn, as.Rhs[i], st) {
								okAll = false
							}
							continue
						}
						// chunk, rest = helper(data)
						var h *engine.Fn
						if call, isCall := ast.Unparen(as.Rhs[0]).(*ast.CallExpr); isCall && len(as.Rhs) == 1 {
							if fo, _ := engine.ObjOf(finfo, call.Fun).(*types.Func); fo != nil {
								h = p.FnOf(fo)
							}
						}
						if h == nil {
							okAll = false
							continue
						}
						nr := 0
						for _, r := range niReturns(h) {
							rs := r.Node.(*ast.ReturnStmt)
							if i >= len(rs.Results) {
								okAll = false // bare return of named results: not recognised
								continue
							}
							nr++
							if !bounded(h, rs.Results[i], r) {
								okAll = false
							}
						}
						if nr == 0 {
							okAll = false
						}
					}
				})
				return okAll && ndef >= 1
			}
			okChunk = okChunk && objBounded(f, chunk, 2)
			nasg = 1
			c.Check(rule, wr.Name+" chunk never exceeds dataMaxSize", s.Pos(), okChunk && nasg >= 1, "")
		}
	}
	// reader
	{
		f := rd
		for _, x := range c42ScopeOf(p, rd) {
			if len(x.CallsTo("crypto/cipher.(AEAD).Open")) > 0 {
				f = x
				break
			}
		}
		info := f.Info()
		g := f.Graph()
		for _, o := range f.CallsTo("crypto/cipher.(AEAD).Open") {
			var dst types.Object
			if se, ok := ast.Unparen(o.Call.Args[0]).(*ast.SliceExpr); ok {
				dst = engine.ObjOf(info, se.X)
			}
			ct := engine.ObjOf(info, o.Call.Args[2])
			a, oka := bufSize(f, ct)
			b, okb := bufSize(f, dst)
			c.Check(rule, rd.Name+" sealed frame = totalFrameSize + overhead, plaintext frame = totalFrameSize", o.Pos(), oka && okb && a == tot+ovh && b == tot, "")
			okFull := false
			for _, s := range f.CallsTo("io.ReadFull") {
				if len(s.Call.Args) == 2 && engine.ObjOf(info, s.Call.Args[1]) == ct {
					if gr := g.CheckedGuard(s, o); gr.OK && c39NilTestPasses(gr) {
						okFull = true
					}
				}
			}
			c.Check(rule, rd.Name+" whole sealed frame read (error checked) before Open", o.Pos(), okFull, "")
			// length: LE32(frame), bounded by dataMaxSize before slicing frame[dataLenSize : dataLenSize+n]
			nsl := 0
			// the slicing may happen in rd or in a private helper that receives the plaintext buffer
			checkSlices := func(fn *engine.Fn, buf types.Object) {
				finfo := fn.Info()
				fg := fn.Graph()
				engine.InspectBody(fn, func(n ast.Node) {
					se, ok := n.(*ast.SliceExpr)
					if !ok || engine.ObjOf(finfo, se.X) != buf || buf == nil || se.High == nil {
						return
					}
					if v, okv := niIntVal(fn, se.High, 0); okv && v == 0 {
						return // frame[:0]
					}
					nsl++
					s := fn.SiteOf(se)
					lo, okLo := niIntVal(fn, se.Low, 0)
					var ln types.Object
					if be, isB := ast.Unparen(se.High).(*ast.BinaryExpr); isB && be.Op == token.ADD {
						x, y := be.X, be.Y
						if niIsObj(finfo, y, dLenO) {
							x, y = y, x
						}
						if niIsObj(finfo, x, dLenO) {
							ln = engine.ObjOf(finfo, y)
						}
					}
					okForm := okLo && lo == dLen && ln != nil
					okSrc := false
					if d := niLocalDefCall(fn, ln); d != nil && niCallee(finfo, d) == "encoding/binary.(littleEndian).Uint32" && len(d.Args) == 1 && engine.ObjOf(finfo, d.Args[0]) == buf {
						okSrc = true
					}
					bounded := false
					if s != nil && ln != nil {
						for _, ft := range niFacts(fg, s) {
							if cmp, isCmp := niAsCmp(ft); isCmp {
								for _, cm := range []niCmp{cmp, cmp.niFlip()} {
									if engine.ObjOf(finfo, cm.X) == ln && cm.Op == token.LEQ && niIsObj(finfo, cm.Y, dMaxO) {
										bounded = true
									}
								}
							}
						}
					}
					c.Check(rule, rd.Name+" chunk = frame[dataLenSize : dataLenSize+LE32(frame)]", se.Pos(), okForm && okSrc, "")
					c.Check(rule, rd.Name+" declared length <= dataMaxSize before slicing", se.Pos(), bounded, "the slice must be on the false side of `chunkLength > dataMaxSize`")
				})
			}
			checkSlices(f, dst)
			for _, cs := range f.Calls() {
				fo, _ := cs.Callee.(*types.Func)
				h := p.FnOf(fo)
				if h == nil || cs.Call == nil {
					continue
				}
				for i, a := range cs.Call.Args {
					if engine.ObjOf(info, a) == dst && dst != nil && g.Dominates(o, cs) {
						checkSlices(h, paramObj(h, i))
					}
				}
			}
			c.Floor(rule+" (reader slice)", nsl, 1)
		}
	}
}

// scopeOf: f, the unexported functions of its package it transitively calls, and their literals.
func c42ScopeOf(p *engine.Prog, f *engine.Fn) []*engine.Fn {
	var out []*engine.Fn
	for _, x := range niCalleeClosure(p, f) {
		if x.Pkg != f.Pkg || (x != f && x.Obj != nil && x.Obj.Exported()) {
			continue
		}
		out = append(out, x)
		out = append(out, x.AllLits()...)
	}
	return out
}

// c42Cons describes how the handshake builds its SecretConnection.
type c42Cons struct {
	B    *engine.Fn              // function holding the composite literal (mk or a private helper)
	Lit  *ast.CompositeLit       // the literal
	Site *engine.Site            // construction site in mk (the literal, or the single call of B)
	Obj  types.Object            // mk's variable holding the constructed connection
	Vals map[*types.Var]ast.Expr // field -> value, helper parameters replaced by mk's argument expressions
	Why  string                  // non-empty: why the construction is not "exactly one per handshake"
}

func c42FindConstruction(p *engine.Prog, mk *engine.Fn) c42Cons {
	const P = "tm2/pkg/p2p/conn."
	out := c42Cons{B: mk, Vals: map[*types.Var]ast.Expr{}}
	type found struct {
		fn  *engine.Fn
		lit *ast.CompositeLit
	}
	var lits []found
	for _, f := range p.FuncsIn("tm2/pkg/p2p/conn") {
		engine.InspectBody(f, func(n ast.Node) {
			if cl, ok := n.(*ast.CompositeLit); ok {
				if t := f.Info().TypeOf(cl); t != nil && engine.TypeName(t) == P+"SecretConnection" {
					lits = append(lits, found{f, cl})
				}
			}
		})
	}
	if len(lits) != 1 {
		out.Why = "expected exactly one SecretConnection composite literal in the package"
		if len(lits) > 0 {
			out.Lit, out.B = lits[0].lit, lits[0].fn.Root()
		}
		return out
	}
	lf, lit := lits[0].fn, lits[0].lit
	out.Lit = lit
	info := mk.Info()
	bindObj := func(node ast.Node) types.Object {
		// mk variable defined from the expression containing node
		var o types.Object
		engine.InspectBody(mk, func(n ast.Node) {
			as, ok := n.(*ast.AssignStmt)
			if !ok || len(as.Lhs) != 1 || len(as.Rhs) != 1 {
				return
			}
			if as.Rhs[0].Pos() <= node.Pos() && node.End() <= as.Rhs[0].End() {
				if d := niSingleDef(mk, engine.ObjOf(info, as.Lhs[0])); d == as.Rhs[0] {
					o = engine.ObjOf(info, as.Lhs[0])
				}
			}
		})
		return o
	}
	for _, el := range lit.Elts {
		if kv, ok := el.(*ast.KeyValueExpr); ok {
			if k, ok := engine.ObjOf(lf.Info(), kv.Key).(*types.Var); ok {
				out.Vals[k] = kv.Value
			}
		}
	}
	if lf == mk {
		out.Site = mk.SiteOf(lit)
		out.Obj = bindObj(lit)
		if len(niEnclosingLoops(mk, lit)) > 0 {
			out.Why = "the connection is constructed inside a loop"
		}
		return out
	}
	B := lf.Root()
	out.B = B
	if lf != B || B.Obj == nil || B.Obj.Exported() {
		out.Why = "the connection literal is in " + lf.Name + ", not in MakeSecretConnection or a private constructor"
		return out
	}
	sites, complete := c49CallersOf(p, B)
	if !complete || len(sites) != 1 || sites[0].Fn != mk {
		out.Why = "the private constructor " + B.Name + " must be called exactly once, from MakeSecretConnection (a second construction restarts the nonces)"
		if len(sites) > 0 && sites[0].Fn == mk {
			out.Site = sites[0]
		}
		return out
	}
	cs := sites[0]
	out.Site = cs
	out.Obj = bindObj(cs.Call)
	if len(niEnclosingLoops(mk, cs.Call)) > 0 {
		out.Why = "the connection is constructed inside a loop"
	}
	// B returns the literal's address
	okRet := false
	for _, r := range niReturns(B) {
		rs := r.Node.(*ast.ReturnStmt)
		if len(rs.Results) == 0 {
			continue
		}
		e := ast.Unparen(rs.Results[0])
		if id, ok := e.(*ast.Ident); ok {
			if d := niSingleDef(B, B.Info().ObjectOf(id)); d != nil {
				e = ast.Unparen(d)
			}
		}
		u, ok := e.(*ast.UnaryExpr)
		okRet = ok && u.Op == token.AND && ast.Unparen(u.X) == ast.Expr(lit)
		if !okRet {
			break
		}
	}
	if !okRet {
		out.Why = B.Name + " does not return the address of its literal"
	}
	// parameters -> mk's argument expressions
	for k, v := range out.Vals {
		if po := engine.ObjOf(B.Info(), v); po != nil {
			for i := range cs.Call.Args {
				if paramObj(B, i) == po {
					out.Vals[k] = cs.Call.Args[i]
				}
			}
		}
	}
	return out
}
