package checks

import (
	"fmt"
	"go/ast"
	"go/constant"
	"go/parser"
	"go/token"
	"go/types"
	"path/filepath"
	"strings"

	"gnoverif/engine"
)

// C05 — floating point is the Go runtime's software implementation and
// nothing else.
func init() {
	register("C05", c05)
	meta("C05", Meta{
		Text:      "Decides structural clauses: (1) every declaration of internal/softfloat/runtime_softfloat64.go is AST-identical to $GOROOT/src/runtime/softfloat64.go of the checking toolchain, except the one documented fpack64/fpack32 patch (save of the normalised mantissa moved below the normalisation loop, gnolang/gno#5806) whose exact shape is re-derived from the upstream AST; (2) every exported softfloat function is a 1:1 wrapper of the intended runtime function (argument order, predicate of the derived comparisons, sign-bit constant); (3) every float case of the VM operator tables (add/sub/mul/quo, ==,<,<=,>,>=, unary -, ++/--) calls exactly the matching softfloat function on (left,right) bit patterns; (4) every (from,to) pair of ConvertTo involving a float calls the frozen softfloat conversion with the matching accessors and only value-preserving Go integer conversions around it; (5) no native Go float arithmetic, comparison or conversion occurs in gnolang / stdlibs natives outside a reasoned exemption table. Level 'other': structure, not bit patterns.",
		Note:      "Not covered: correctness of the Go runtime algorithm itself (trusted oracle, apart from the documented patch); untyped-constant (big.Rat/big.Float) to float conversion; strconv/format paths; trunc/modf helpers. $GOROOT/src/runtime/softfloat64.go must exist (else UNDECIDED).",
		Technique: "AST source identity against the toolchain runtime, wrapper/dispatch tables over resolved callees, typed AST scan for native float operations",
		Ref:       "DESIGN.md §2 C05",
	})
	const rt = "gnovm/pkg/gnolang/internal/softfloat/runtime_softfloat64.go"
	const sf = "gnovm/pkg/gnolang/internal/softfloat/softfloat.go"
	mutants("C05",
		Mutant{"runtime-round-tie", rt, "if mant&1 != 0 && (trunc != 0 || mant&2 != 0) {\n\t\t\tmant++\n\t\t\tif mant >= 4<<mantbits64 {", "if mant&1 != 0 && (trunc != 0 || mant&2 == 0) {\n\t\t\tmant++\n\t\t\tif mant >= 4<<mantbits64 {", "source-identity fpack64"},
		Mutant{"wrapper-swapped-args", sf, "func Fsub32(f, g uint32) uint32 { return fadd32(f, Fneg32(g)) }", "func Fsub32(f, g uint32) uint32 { return fadd32(g, Fneg32(f)) }", "wrapper Fsub32"},
		Mutant{"wrapper-wrong-target", sf, "func Fge32(f, g uint32) bool    { return fge32(f, g) }", "func Fge32(f, g uint32) bool    { return fgt32(f, g) }", "wrapper Fge32"},
		Mutant{"le-predicate", sf, "cmp, nan := fcmp64(f, g)\n\treturn cmp <= 0 && !nan", "cmp, nan := fcmp64(f, g)\n\treturn cmp <= 0 || nan", "wrapper Fle64"},
		Mutant{"neg32-wrong-bit", sf, "return f ^ (1 << (mantbits32 + expbits32))", "return f ^ (1 << (mantbits32 + expbits32 - 1))", "wrapper Fneg32"},
		Mutant{"vm-sub-uses-add", "gnovm/pkg/gnolang/op_binary.go", "lv.SetFloat64(softfloat.Fsub64(lv.GetFloat64(), rv.GetFloat64()))", "lv.SetFloat64(softfloat.Fadd64(lv.GetFloat64(), rv.GetFloat64()))", "vm-float-dispatch subAssign Float64Type"},
		Mutant{"vm-cmp-swapped", "gnovm/pkg/gnolang/op_binary.go", "return softfloat.Flt32(lv.GetFloat32(), rv.GetFloat32())", "return softfloat.Flt32(rv.GetFloat32(), lv.GetFloat32())", "vm-float-dispatch isLss Float32Kind"},
		Mutant{"conv-wrong-width", "gnovm/pkg/gnolang/values_conversions.go", "x := softfloat.Fuint64to64(tv.GetUint64())\n\t\t\ttv.T = t\n\t\t\ttv.SetFloat64(x)", "x := softfloat.Fint64to64(int64(tv.GetUint64()))\n\t\t\ttv.T = t\n\t\t\ttv.SetFloat64(x)", "conv-table Uint64Kind>Float64Kind"},
		Mutant{"native-float-add", "gnovm/pkg/gnolang/op_binary.go", "lv.SetFloat64(softfloat.Fmul64(lv.GetFloat64(), rv.GetFloat64()))", "lv.SetFloat64(math.Float64bits(math.Float64frombits(lv.GetFloat64()) * math.Float64frombits(rv.GetFloat64())))", "native-float"},
	)
}

const c05SF = "gnovm/pkg/gnolang/internal/softfloat"

// upstream declarations that the repository deliberately patches, with the
// transformation that turns the upstream body into the patched one.
var c05Patched = map[string]string{
	"fpack64": "save of (mant,exp,trunc) moved from before to after the left-normalisation loop (gnolang/gno#5806, golang/go#79964): a heavily cancelled sum restored an un-normalised mantissa on the subnormal path",
	"fpack32": "same fix as fpack64",
}

// simple wrappers: exported name -> runtime function called with the
// parameters in order.
var c05Simple = map[string]string{
	"Fadd64": "fadd64", "Fsub64": "fsub64", "Fmul64": "fmul64", "Fdiv64": "fdiv64", "Fneg64": "fneg64",
	"Feq64": "feq64", "Fgt64": "fgt64", "Fge64": "fge64",
	"Fadd32": "fadd32", "Fmul32": "fmul32", "Fdiv32": "fdiv32",
	"Feq32": "feq32", "Fgt32": "fgt32", "Fge32": "fge32",
	"Fcmp64": "fcmp64", "Fintto64": "fintto64", "Fintto32": "fintto32",
	"F32to64": "f32to64", "F32toint32": "f32toint32", "F32toint64": "f32toint64", "F32touint64": "f32touint64",
	"F64to32": "f64to32", "F64toint": "f64toint", "F64toint32": "f64toint32", "F64toint64": "f64toint64", "F64touint64": "f64touint64",
	"Fint32to32": "fint32to32", "Fint32to64": "fint32to64", "Fint64to32": "fint64to32", "Fint64to64": "fint64to64",
	"Fuint64to32": "fuint64to32", "Fuint64to64": "fuint64to64",
	"Funpack32": "funpack32", "Funpack64": "funpack64",
}

// helpers that are outside the property's operation list (accepted, not verified).
var c05Aux = map[string]string{
	"Ftrunc64": "truncation helper, not one of the property's operations",
	"Ftrunc32": "truncation helper, not one of the property's operations",
}

type c05Disp struct {
	fn      string // function holding the switch
	tagKind bool   // switch on Kind constants (else on Type values)
	f32     string // expected softfloat function in the 32-bit case
	f64     string // … 64-bit case
	shape   string // "set2" lv.SetF(op(lv.GetF(), rv.GetF())) | "ret2" return op(lv.GetF(), rv.GetF()) | "set1" xv.SetF(op(xv.GetF())) | "setc" lv.SetF(op(lv.GetF(), Fintto(1)))
	lv, rv  string // parameter / local names of left and right operand
}

var c05Dispatch = []c05Disp{
	{gvaGno + ".addAssign", false, "Fadd32", "Fadd64", "set2", "lv", "rv"},
	{gvaGno + ".subAssign", false, "Fsub32", "Fsub64", "set2", "lv", "rv"},
	{gvaGno + ".mulAssign", false, "Fmul32", "Fmul64", "set2", "lv", "rv"},
	{gvaGno + ".quoAssign", false, "Fdiv32", "Fdiv64", "set2", "lv", "rv"},
	{gvaGno + ".isEql", true, "Feq32", "Feq64", "ret2", "lv", "rv"},
	{gvaGno + ".isLss", true, "Flt32", "Flt64", "ret2", "lv", "rv"},
	{gvaGno + ".isLeq", true, "Fle32", "Fle64", "ret2", "lv", "rv"},
	{gvaGno + ".isGtr", true, "Fgt32", "Fgt64", "ret2", "lv", "rv"},
	{gvaGno + ".isGeq", true, "Fge32", "Fge64", "ret2", "lv", "rv"},
	{gvaGno + ".(*Machine).doOpUneg", false, "Fneg32", "Fneg64", "set1", "xv", ""},
	{gvaGno + ".(*Machine).doOpInc", false, "Fadd32", "Fadd64", "setc", "lv", ""},
	{gvaGno + ".(*Machine).doOpDec", false, "Fsub32", "Fsub64", "setc", "lv", ""},
}

// ConvertTo: "FromKind>ToKind" -> softfloat function performing the conversion.
var c05Conv = map[string]string{
	"IntKind>Float32Kind": "Fintto32", "IntKind>Float64Kind": "Fintto64",
	"Int8Kind>Float32Kind": "Fint32to32", "Int8Kind>Float64Kind": "Fint32to64",
	"Int16Kind>Float32Kind": "Fint32to32", "Int16Kind>Float64Kind": "Fint32to64",
	"Int32Kind>Float32Kind": "Fint32to32", "Int32Kind>Float64Kind": "Fint32to64",
	"Int64Kind>Float32Kind": "Fint64to32", "Int64Kind>Float64Kind": "Fint64to64",
	"UintKind>Float32Kind": "Fuint64to32", "UintKind>Float64Kind": "Fuint64to64",
	"Uint8Kind>Float32Kind": "Fuint64to32", "Uint8Kind>Float64Kind": "Fuint64to64",
	"Uint16Kind>Float32Kind": "Fuint64to32", "Uint16Kind>Float64Kind": "Fuint64to64",
	"Uint32Kind>Float32Kind": "Fuint64to32", "Uint32Kind>Float64Kind": "Fuint64to64",
	"Uint64Kind>Float32Kind": "Fuint64to32", "Uint64Kind>Float64Kind": "Fuint64to64",
	"Float32Kind>IntKind": "F32toint64", "Float32Kind>Int8Kind": "F32toint32", "Float32Kind>Int16Kind": "F32toint32",
	"Float32Kind>Int32Kind": "F32toint32", "Float32Kind>Int64Kind": "F32toint64",
	"Float32Kind>UintKind": "F32touint64", "Float32Kind>Uint8Kind": "F32touint64", "Float32Kind>Uint16Kind": "F32touint64",
	"Float32Kind>Uint32Kind": "F32touint64", "Float32Kind>Uint64Kind": "F32touint64",
	"Float32Kind>Float64Kind": "F32to64",
	"Float64Kind>IntKind":     "F64toint", "Float64Kind>Int8Kind": "F64toint32", "Float64Kind>Int16Kind": "F64toint32",
	"Float64Kind>Int32Kind": "F64toint32", "Float64Kind>Int64Kind": "F64toint64",
	"Float64Kind>UintKind": "F64touint64", "Float64Kind>Uint8Kind": "F64touint64", "Float64Kind>Uint16Kind": "F64touint64",
	"Float64Kind>Uint32Kind": "F64touint64", "Float64Kind>Uint64Kind": "F64touint64",
	"Float64Kind>Float32Kind": "F64to32",
}

var c05KindAcc = map[string]string{
	"IntKind": "Int", "Int8Kind": "Int8", "Int16Kind": "Int16", "Int32Kind": "Int32", "Int64Kind": "Int64",
	"UintKind": "Uint", "Uint8Kind": "Uint8", "Uint16Kind": "Uint16", "Uint32Kind": "Uint32", "Uint64Kind": "Uint64",
	"Float32Kind": "Float32", "Float64Kind": "Float64",
}

// native float operations that are allowed, keyed "function what".
var c05NativeOK = map[string]string{
	gvaGno + ".ConvertUntypedBigintTo convert float32→float64":      "exact widening, only to classify ±Inf of a math/big rounding result",
	gvaGno + ".ConvertUntypedBigintTo binary ==":                    "exact zero test of a math/big rounding result (constant conversion)",
	gvaGno + ".ConvertUntypedBigdecTo convert float32→float64":      "exact widening, only to classify ±Inf of a math/big rounding result",
	gvaGno + ".posZero binary ==":                                   "exact zero test used to drop the sign of a constant zero",
	gvaGno + ".writeProtectedSprint convert float32→float64":        "exact widening for formatting",
	gvaGno + ".(TypedValue).WriteProtected convert float32→float64": "exact widening for formatting",
}

func c05(c *engine.Ctx) {
	c.Explain = "Decides: source identity of the softfloat copy with the toolchain's runtime/softfloat64.go (modulo the documented fpack patch, re-derived structurally); 1:1 wrapper table for the exported softfloat API incl. the predicate of the derived < and <= and the sign bit of Fneg32; the float cases of the VM's operator and conversion tables call the matching softfloat routine with (left,right) operands of the right width; no native Go float arithmetic/comparison/conversion in gnolang and the stdlib natives outside the exemption table. Not covered: the runtime algorithm itself, untyped-constant conversion through math/big, formatting/parsing."
	pats := []string{gvaGno, c05SF, "gnovm/stdlibs/..."}
	p := c.Load(pats...)
	if p == nil {
		return
	}
	c05Identity(c, p)
	c05Wrappers(c, p)
	c05DispatchRule(c, p)
	c05ConvRule(c, p)
	c05Native(c, p)
}

// ---- (1) source identity ----

func c05Identity(c *engine.Ctx, p *engine.Prog) {
	goroot := filepath.Dir(engine.GoBin)
	up := filepath.Join(goroot, "src", "runtime", "softfloat64.go")
	fs := token.NewFileSet()
	uf, err := parser.ParseFile(fs, up, nil, parser.SkipObjectResolution)
	if err != nil {
		c.Undecided("source-identity", "oracle", "cannot parse "+up+": "+err.Error())
		return
	}
	pk := p.Pkg(c05SF)
	if pk == nil {
		c.Undecided("source-identity", "package", "softfloat package not loaded")
		return
	}
	var lf *ast.File
	for _, f := range pk.Syntax {
		if filepath.Base(p.Fset.Position(f.Pos()).Filename) == "runtime_softfloat64.go" {
			lf = f
		}
	}
	if lf == nil {
		c.Undecided("source-identity", "runtime_softfloat64.go", "file not found in package")
		return
	}
	type decl struct {
		node ast.Node
		pos  token.Pos
	}
	collect := func(f *ast.File) map[string]decl {
		m := map[string]decl{}
		for _, d := range f.Decls {
			switch x := d.(type) {
			case *ast.FuncDecl:
				name := x.Name.Name
				if x.Recv != nil {
					name = "method." + name
				}
				cp := *x
				cp.Doc = nil
				m[name] = decl{&cp, x.Pos()}
			case *ast.GenDecl:
				if x.Tok == token.IMPORT {
					m["import"] = decl{x, x.Pos()}
					continue
				}
				for _, s := range x.Specs {
					switch sp := s.(type) {
					case *ast.ValueSpec:
						cp := *sp
						cp.Doc, cp.Comment = nil, nil
						// iota-dependent specs would need their index; none upstream
						m[x.Tok.String()+"."+sp.Names[0].Name] = decl{&cp, sp.Pos()}
					case *ast.TypeSpec:
						cp := *sp
						cp.Doc, cp.Comment = nil, nil
						m["type."+sp.Name.Name] = decl{&cp, sp.Pos()}
					}
				}
			}
		}
		return m
	}
	um, lm := collect(uf), collect(lf)
	n := 0
	for _, name := range engine.SortedKeys(um) {
		ud := um[name]
		ld, ok := lm[name]
		n++
		if !ok {
			c.Check("source-identity", name, token.NoPos, false, "declared in runtime/softfloat64.go but missing from the repository copy")
			continue
		}
		if why, patched := c05Patched[name]; patched {
			fd, _ := ud.node.(*ast.FuncDecl)
			pd, err := c05ApplyPatch(fd)
			if err != "" {
				c.Undecided("source-identity", name, "upstream no longer has the shape the documented patch applies to ("+err+"): the patch table must be re-read")
				continue
			}
			if gvaASTEqual(ud.node, ld.node) == "" {
				c.Check("source-identity", name, ld.pos, true, "identical to upstream (patch no longer applied)")
				continue
			}
			d := gvaASTEqual(pd, ld.node)
			c.Check("source-identity", name, ld.pos, d == "", "must equal upstream with exactly the documented patch ("+why+"); first difference at "+d)
			continue
		}
		d := gvaASTEqual(ud.node, ld.node)
		c.Check("source-identity", name, ld.pos, d == "", "differs from "+up+" at "+d)
	}
	for _, name := range engine.SortedKeys(lm) {
		if _, ok := um[name]; !ok {
			c.Check("source-identity", name, lm[name].pos, false, "declared in the repository copy but not in runtime/softfloat64.go")
		}
	}
	c.Floor("source-identity", n, 40)
}

// c05ApplyPatch returns a copy of the upstream fpack function with the first
// statement (the mant0/exp0/trunc0 save) moved to just after the first for loop.
func c05ApplyPatch(fd *ast.FuncDecl) (*ast.FuncDecl, string) {
	if fd == nil || fd.Body == nil || len(fd.Body.List) < 4 {
		return nil, "no body"
	}
	as, ok := fd.Body.List[0].(*ast.AssignStmt)
	if !ok || as.Tok != token.DEFINE || len(as.Lhs) != 3 {
		return nil, "first statement is not the 3-value save"
	}
	for i, l := range as.Lhs {
		id, ok := l.(*ast.Ident)
		if !ok || id.Name != []string{"mant0", "exp0", "trunc0"}[i] {
			return nil, "first statement does not define mant0, exp0, trunc0"
		}
	}
	idx := -1
	for i, st := range fd.Body.List {
		if _, ok := st.(*ast.ForStmt); ok {
			idx = i
			break
		}
	}
	if idx < 1 {
		return nil, "no normalisation loop"
	}
	var list []ast.Stmt
	list = append(list, fd.Body.List[1:idx+1]...)
	list = append(list, as)
	list = append(list, fd.Body.List[idx+1:]...)
	cp := *fd
	body := *fd.Body
	body.List = list
	cp.Body = &body
	cp.Doc = nil
	return &cp, ""
}

// ---- (2) wrapper table ----

func c05Wrappers(c *engine.Ctx, p *engine.Prog) {
	pk := p.Pkg(c05SF)
	if pk == nil {
		return
	}
	n := 0
	seen := map[string]bool{}
	for _, f := range p.FuncsIn(c05SF) {
		if f.Decl == nil || f.Decl.Recv != nil || !f.Decl.Name.IsExported() {
			continue
		}
		name := f.Decl.Name.Name
		seen[name] = true
		key := name
		n++
		params := c05Params(f)
		switch {
		case c05Simple[name] != "":
			ok, why := c05IsForward(f, c05Simple[name], params)
			c.Check("wrapper", key, f.Pos(), ok, why)
		case c05Aux[name] != "":
			c.Check("wrapper", key, f.Pos(), true, "not verified: "+c05Aux[name])
		case name == "Fsub32":
			// fadd32(f, Fneg32(g))
			ok, why := false, "returned value must be fadd32(f, Fneg32(g))"
			if r := gvaSoleReturn(f); r != nil && len(params) == 2 {
				t := gvaNorm(f, r, nil, gvaNormOpt{}, 0)
				p0, p1 := (&gvaTerm{Kind: "obj", Obj: params[0]}).String(), (&gvaTerm{Kind: "obj", Obj: params[1]}).String()
				if t.Kind == "call" && t.Name == c05SF+".fadd32" && len(t.Args) == 2 && t.Args[0].String() == p0 {
					if ng := t.Args[1]; ng.Kind == "call" && ng.Name == c05SF+".Fneg32" && len(ng.Args) == 1 && ng.Args[0].String() == p1 {
						ok = true
					}
				}
			}
			c.Check("wrapper", key, f.Pos(), ok, why)
		case name == "Fneg32":
			ok, why := false, "returned value must be `f ^ signbit` with signbit == 1<<31"
			if r := gvaSoleReturn(f); r != nil && len(params) == 1 {
				t := gvaNorm(f, r, nil, gvaNormOpt{}, 0)
				p0 := (&gvaTerm{Kind: "obj", Obj: params[0]}).String()
				if t.Kind == "binop" && t.Name == "^" && len(t.Args) == 2 {
					x, y := t.Args[0], t.Args[1]
					if y.String() == p0 {
						x, y = y, x
					}
					if x.String() == p0 && y.Kind == "const" {
						if y.Name == "2147483648" {
							ok = true
						} else {
							why = "sign-bit constant is " + y.Name + ", want 2147483648"
						}
					}
				}
			}
			c.Check("wrapper", key, f.Pos(), ok, why)
		case name == "Flt32" || name == "Fle32" || name == "Flt64" || name == "Fle64":
			ok, why := c05DerivedCmp(f, params, strings.HasSuffix(name, "32"), strings.HasPrefix(name, "Fle"))
			c.Check("wrapper", key, f.Pos(), ok, why)
		default:
			c.Check("wrapper", key, f.Pos(), false, "exported softfloat function is not in the wrapper table (new API must be reviewed and added)")
		}
	}
	for name := range c05Simple {
		if !seen[name] {
			c.Undecided("wrapper", name, "tabled wrapper no longer exists")
		}
	}
	for _, name := range []string{"Fsub32", "Fneg32", "Flt32", "Fle32", "Flt64", "Fle64"} {
		if !seen[name] {
			c.Undecided("wrapper", name, "tabled wrapper no longer exists")
		}
	}
	c.Floor("wrapper", n, 42)
	// exported bit-pattern constants
	for name, want := range map[string]uint64{"Inf32": 0x7f800000, "Inf64": 0x7ff0000000000000, "NegZero32": 0x80000000, "NegZero64": 0x8000000000000000} {
		k, _ := pk.Types.Scope().Lookup(name).(*types.Const)
		if k == nil {
			c.Undecided("const-value", name, "constant not found")
			continue
		}
		v, exact := constant.Uint64Val(constant.ToInt(k.Val()))
		c.Check("const-value", name, k.Pos(), exact && v == want, fmt.Sprintf("value %s, IEEE-754 pattern is %#x", k.Val().ExactString(), want))
	}
}

func c05Params(f *engine.Fn) []types.Object {
	var out []types.Object
	for _, fld := range f.Type.Params.List {
		for _, nm := range fld.Names {
			out = append(out, f.Info().ObjectOf(nm))
		}
	}
	return out
}

func c05IsForward(f *engine.Fn, target string, params []types.Object) (bool, string) {
	r := gvaSoleReturn(f)
	if r == nil {
		return false, "function does not have a single return of one value"
	}
	t := gvaNorm(f, r, nil, gvaNormOpt{}, 0)
	if t.Kind != "call" || t.Name != c05SF+"."+target {
		return false, "must forward to " + target + ", returns `" + t.Kind + " " + t.Name + "`"
	}
	if len(t.Args) != len(params) {
		return false, "argument count differs from parameter count"
	}
	for i, a := range t.Args {
		if a.String() != (&gvaTerm{Kind: "obj", Obj: params[i]}).String() {
			return false, fmt.Sprintf("argument %d is not parameter %d (order changed or expression inserted)", i, i)
		}
	}
	return true, "forwards parameters in order to " + target
}

// c05DerivedCmp: `cmp, nan := fcmp64(F(f), F(g)); return <pred over cmp, nan>`
// where pred holds exactly on the ordered cases: cmp ∈ {-1} (lt) or {-1,0} (le), nan false.
func c05DerivedCmp(f *engine.Fn, params []types.Object, is32, le bool) (bool, string) {
	info := f.Info()
	if len(params) != 2 {
		return false, "expected two parameters"
	}
	// helpers of the wrapper file (not the runtime copy) are looked through:
	// `cmp, nan := fcmp32(f, g)` with fcmp32 returning fcmp64(f32to64(f), f32to64(g))
	opt := gvaNormOpt{Inline: func(h *engine.Fn) bool {
		if engine.Rel(h.Pkg.PkgPath) != c05SF || h.Obj == nil || h.Obj.Exported() {
			return false
		}
		return filepath.Base(h.Prog.Fset.Position(h.Pos()).Filename) != "runtime_softfloat64.go"
	}}
	var as *ast.AssignStmt
	var ct *gvaTerm
	engine.InspectBody(f, func(n ast.Node) {
		if x, ok := n.(*ast.AssignStmt); ok && len(x.Lhs) == 2 && len(x.Rhs) == 1 {
			if t := gvaNorm(f, x.Rhs[0], nil, opt, 0); t.Kind == "call" && t.Name == c05SF+".fcmp64" {
				as, ct = x, t
			}
		}
	})
	if as == nil {
		return false, "no `cmp, nan := fcmp64(…)` binding (directly or through a wrapper-file helper)"
	}
	if len(ct.Args) != 2 {
		return false, "comparison must come from fcmp64(f, g)"
	}
	for i, a := range ct.Args {
		if is32 {
			if a.Kind != "call" || a.Name != c05SF+".f32to64" || len(a.Args) != 1 {
				return false, "32-bit operands must be widened with f32to64"
			}
			a = a.Args[0]
		}
		if a.String() != (&gvaTerm{Kind: "obj", Obj: params[i]}).String() {
			return false, fmt.Sprintf("operand %d of fcmp64 is not parameter %d", i, i)
		}
	}
	cmpO, nanO := engine.ObjOf(info, as.Lhs[0]), engine.ObjOf(info, as.Lhs[1])
	ret := gvaSoleReturn(f)
	if ret == nil {
		return false, "function does not have a single return"
	}
	// evaluate the returned boolean for cmp ∈ {-1,0,1} × nan ∈ {false,true}
	for _, cv := range []int64{-1, 0, 1} {
		for _, nv := range []bool{false, true} {
			got, okEval := c05EvalBool(info, ret, cmpO, nanO, cv, nv)
			if !okEval {
				return false, "return expression is not a boolean formula over cmp and nan that the checker can evaluate"
			}
			want := !nv && (cv == -1 || (le && cv == 0))
			if got != want {
				return false, fmt.Sprintf("returns %v for cmp=%d nan=%v, IEEE ordered comparison gives %v", got, cv, nv, want)
			}
		}
	}
	return true, "predicate true exactly on the ordered cases"
}

func c05EvalBool(info *types.Info, e ast.Expr, cmpO, nanO types.Object, cv int64, nv bool) (val, ok bool) {
	switch x := ast.Unparen(e).(type) {
	case *ast.Ident:
		if info.ObjectOf(x) == nanO && nanO != nil {
			return nv, true
		}
		if tv, has := info.Types[x]; has && tv.Value != nil && tv.Value.Kind() == constant.Bool {
			return constant.BoolVal(tv.Value), true
		}
	case *ast.UnaryExpr:
		if x.Op == token.NOT {
			v, ok := c05EvalBool(info, x.X, cmpO, nanO, cv, nv)
			return !v, ok
		}
	case *ast.BinaryExpr:
		switch x.Op {
		case token.LAND, token.LOR:
			a, ok1 := c05EvalBool(info, x.X, cmpO, nanO, cv, nv)
			b, ok2 := c05EvalBool(info, x.Y, cmpO, nanO, cv, nv)
			if x.Op == token.LAND {
				return a && b, ok1 && ok2
			}
			return a || b, ok1 && ok2
		case token.LSS, token.LEQ, token.GTR, token.GEQ, token.EQL, token.NEQ:
			l, ok1 := c05EvalInt(info, x.X, cmpO, cv)
			r, ok2 := c05EvalInt(info, x.Y, cmpO, cv)
			if !ok1 || !ok2 {
				return false, false
			}
			switch x.Op {
			case token.LSS:
				return l < r, true
			case token.LEQ:
				return l <= r, true
			case token.GTR:
				return l > r, true
			case token.GEQ:
				return l >= r, true
			case token.EQL:
				return l == r, true
			default:
				return l != r, true
			}
		}
	}
	return false, false
}

func c05EvalInt(info *types.Info, e ast.Expr, cmpO types.Object, cv int64) (int64, bool) {
	if tv, has := info.Types[e]; has && tv.Value != nil {
		if v, exact := constant.Int64Val(constant.ToInt(tv.Value)); exact {
			return v, true
		}
	}
	if id, ok := ast.Unparen(e).(*ast.Ident); ok && cmpO != nil && info.ObjectOf(id) == cmpO {
		return cv, true
	}
	return 0, false
}

// ---- (3) VM operator dispatch ----

func c05DispatchRule(c *engine.Ctx, p *engine.Prog) {
	n := 0
	for _, d := range c05Dispatch {
		f := c.MustFunc(d.fn)
		if f == nil {
			continue
		}
		short := d.fn[strings.LastIndexByte(d.fn, '.')+1:]
		sw := gvaMainSwitch(f, nil)
		if sw == nil {
			c.Undecided("vm-float-dispatch", short, "no type/kind switch found")
			continue
		}
		for _, w := range []struct{ width, want string }{{"32", d.f32}, {"64", d.f64}} {
			cname := "Float" + w.width + "Type"
			if d.tagKind {
				cname = "Float" + w.width + "Kind"
			}
			key := short + " " + cname
			cc := sw.Consts[cname]
			n++
			if cc == nil {
				c.Check("vm-float-dispatch", key, sw.Stmt.Pos(), false, "no case for "+cname)
				continue
			}
			ok, why := c05CheckFloatClause(f, cc, d, w.width, w.want)
			c.Check("vm-float-dispatch", key, cc.Pos(), ok, why)
		}
	}
	c.Floor("vm-float-dispatch", n, 24)
}

// c05Inline: unexported gnolang helpers may be looked through (never softfloat itself).
func c05Inline(h *engine.Fn) bool {
	return engine.Rel(h.Pkg.PkgPath) == gvaGno && h.Obj != nil && !h.Obj.Exported()
}

var c05Opt = gvaNormOpt{Inline: c05Inline, ZeroReassig: true}

// c05CheckFloatClause: the value stored into the left operand with SetFloatW
// (or returned, for comparisons) is softfloat.<want> applied to the W-wide bit
// patterns of (left, right). Hoisted locals and single-return helpers are
// looked through; other statements in the case do not matter.
func c05CheckFloatClause(f *engine.Fn, cc *ast.CaseClause, d c05Disp, width, want string) (bool, string) {
	info := f.Info()
	if len(cc.List) != 1 {
		return false, "float case shares its clause with another type"
	}
	left, right := "", ""
	if ps := gvaTVParams(f); len(ps) >= 2 {
		left, right = (&gvaTerm{Kind: "obj", Obj: ps[0]}).String(), (&gvaTerm{Kind: "obj", Obj: ps[1]}).String()
	}
	type res struct {
		val  *gvaTerm
		recv string
	}
	var results []res
	otherSet := ""
	gvaWalkClause(cc, func(n ast.Node) bool {
		switch x := n.(type) {
		case *ast.ReturnStmt:
			if d.shape == "ret2" && len(x.Results) == 1 {
				results = append(results, res{val: gvaNorm(f, x.Results[0], nil, c05Opt, 0)})
			}
		case *ast.CallExpr:
			if name, recv := gvaTVAccessor(info, x); strings.HasPrefix(name, "Set") && len(x.Args) == 1 && d.shape != "ret2" {
				if name != "SetFloat"+width {
					otherSet = name
					return true
				}
				results = append(results, res{val: gvaNorm(f, x.Args[0], nil, c05Opt, 0), recv: gvaNorm(f, recv, nil, c05Opt, 0).String()})
			}
		}
		return true
	})
	if otherSet != "" {
		return false, "float case stores with " + otherSet + ", want SetFloat" + width
	}
	if len(results) == 0 {
		return false, "no value is stored with SetFloat" + width + " / returned in the float case"
	}
	reads := func(t *gvaTerm, who string) string {
		if t == nil || t.Kind != "acc" || t.Name != "GetFloat"+width || len(t.Args) != 1 {
			return "operand is not GetFloat" + width + "() (found " + t.String() + ")"
		}
		if t.Args[0].String() != who {
			return "operand read from the wrong value"
		}
		return ""
	}
	for _, r := range results {
		l := left
		if l == "" {
			l = r.recv
		} else if d.shape != "ret2" && r.recv != l {
			return false, "result stored into something other than the left operand"
		}
		t := r.val
		if t.Kind != "call" || t.Name != c05SF+"."+want {
			return false, "must be softfloat." + want + "(…), found " + t.Kind + " " + t.Name
		}
		switch d.shape {
		case "set2", "ret2":
			if len(t.Args) != 2 {
				return false, "expected two operands"
			}
			if e := reads(t.Args[0], l); e != "" {
				return false, "left " + e
			}
			if e := reads(t.Args[1], right); e != "" {
				return false, "right " + e
			}
		case "set1":
			if len(t.Args) != 1 {
				return false, "expected one operand"
			}
			if e := reads(t.Args[0], l); e != "" {
				return false, e
			}
		case "setc":
			if len(t.Args) != 2 {
				return false, "expected two operands"
			}
			if e := reads(t.Args[0], l); e != "" {
				return false, "left " + e
			}
			one := t.Args[1]
			if one.Kind != "call" || one.Name != c05SF+".Fintto"+width || len(one.Args) != 1 || one.Args[0].Kind != "const" || one.Args[0].Name != "1" {
				return false, "increment must be softfloat.Fintto" + width + "(1)"
			}
		}
	}
	return true, "softfloat." + want + " on (left,right) bit patterns"
}

// ---- (4) conversion table ----

func c05ConvRule(c *engine.Ctx, p *engine.Prog) {
	f := c.MustFunc(gvaGno + ".ConvertTo")
	if f == nil {
		return
	}
	info := f.Info()
	var outer *engine.SwitchInfo
	for _, s := range f.Switches() {
		if s.Consts != nil && s.Consts["Float64Kind"] != nil && s.Consts["Uint16Kind"] != nil && s.Consts["SliceKind"] != nil {
			outer = s
		}
	}
	if outer == nil {
		c.Undecided("conv-table", "ConvertTo", "outer switch over the source kind not found")
		return
	}
	n := 0
	for _, from := range engine.SortedKeys(c05KindAcc) {
		occ := outer.Consts[from]
		if occ == nil {
			c.Check("conv-table", from, outer.Stmt.Pos(), false, "no case for source kind "+from)
			continue
		}
		// inner switch: the one directly in this clause
		var inner *ast.SwitchStmt
		for _, st := range occ.Body {
			if s, ok := st.(*ast.SwitchStmt); ok {
				inner = s
			}
		}
		if inner == nil || len(occ.List) != 1 {
			c.Undecided("conv-table", from, "no inner switch over the target kind")
			continue
		}
		clauses := map[string]*ast.CaseClause{}
		for _, st := range inner.Body.List {
			cc := st.(*ast.CaseClause)
			for _, e := range cc.List {
				if o, ok := engine.ObjOf(info, e).(*types.Const); ok {
					clauses[o.Name()] = cc
				}
			}
		}
		for _, to := range engine.SortedKeys(c05KindAcc) {
			isF := strings.HasPrefix(from, "Float") || strings.HasPrefix(to, "Float")
			if !isF || from == to {
				continue
			}
			key := from + ">" + to
			want := c05Conv[key]
			n++
			cc := clauses[to]
			if cc == nil {
				c.Check("conv-table", key, inner.Pos(), false, "no case for this conversion")
				continue
			}
			if len(cc.List) != 1 {
				c.Check("conv-table", key, cc.Pos(), false, "case shared with another target kind")
				continue
			}
			ok, why := c05CheckConv(f, cc, from, to, want)
			c.Check("conv-table", key, cc.Pos(), ok, why)
		}
	}
	c.Floor("conv-table", n, 42)
}

// c05CheckConv: every value stored in the clause (outside the constant
// validation closure) is stored with Set<To> and is softfloat.<want> applied to
// Get<From> — possibly through value-preserving integer widenings before and an
// integer narrowing after the softfloat call. Locals are looked through.
func c05CheckConv(f *engine.Fn, cc *ast.CaseClause, from, to, want string) (bool, string) {
	info := f.Info()
	nset := 0
	why := ""
	gvaWalkClause(cc, func(n ast.Node) bool {
		call, ok := n.(*ast.CallExpr)
		if !ok {
			return true
		}
		name, _ := gvaTVAccessor(info, call)
		if !strings.HasPrefix(name, "Set") || len(call.Args) != 1 {
			return true
		}
		nset++
		if name != "Set"+c05KindAcc[to] {
			why = "stores with " + name + ", want Set" + c05KindAcc[to]
			return true
		}
		t := gvaNorm(f, call.Args[0], nil, c05Opt, 0)
		for t.Kind == "conv" && len(t.Args) == 1 {
			if _, _, isInt := gvaIntBits(t.Name); !isInt {
				why = "stored value passes through a non-integer conversion to " + t.Name
				return true
			}
			t = t.Args[0]
		}
		if t.Kind != "call" || t.Name != c05SF+"."+want {
			why = "converts with `" + t.Kind + " " + t.Name + "`, table says softfloat." + want
			return true
		}
		if len(t.Args) != 1 {
			why = "softfloat conversion with " + fmt.Sprint(len(t.Args)) + " operands"
			return true
		}
		x := t.Args[0]
		for x.Kind == "conv" && len(x.Args) == 1 {
			if !gvaWideningConv(x.Src, x.Name) {
				why = "softfloat operand passes through a value-changing conversion " + x.Src + "→" + x.Name
				return true
			}
			x = x.Args[0]
		}
		if x.Kind != "acc" || x.Name != "Get"+c05KindAcc[from] {
			why = "softfloat operand is not Get" + c05KindAcc[from] + "() (found " + x.Kind + " " + x.Name + ")"
		}
		return true
	})
	if why != "" {
		return false, why
	}
	if nset == 0 {
		return false, "no Set" + c05KindAcc[to] + " in the case"
	}
	return true, "softfloat." + want + " between Get" + c05KindAcc[from] + " and Set" + c05KindAcc[to]
}

// ---- (5) native float operations ----

func c05IsFloat(t types.Type) bool {
	if t == nil {
		return false
	}
	if tp, ok := t.(*types.TypeParam); ok {
		u, ok := tp.Constraint().Underlying().(*types.Interface)
		if !ok || u.NumEmbeddeds() == 0 {
			return false
		}
		all := true
		for i := 0; i < u.NumEmbeddeds(); i++ {
			un, ok := u.EmbeddedType(i).(*types.Union)
			if !ok {
				all = all && c05IsFloat(u.EmbeddedType(i))
				continue
			}
			for j := 0; j < un.Len(); j++ {
				all = all && c05IsFloat(un.Term(j).Type())
			}
		}
		return all
	}
	b, ok := t.Underlying().(*types.Basic)
	return ok && b.Info()&types.IsFloat != 0
}

func c05Native(c *engine.Ctx, p *engine.Prog) {
	n, scanned := 0, 0
	for _, f := range p.Funcs() {
		rel := engine.Rel(f.Pkg.PkgPath)
		if rel == c05SF {
			continue
		}
		scanned++
		info := f.Info()
		isConst := func(e ast.Expr) bool { tv, ok := info.Types[e]; return ok && tv.Value != nil }
		report := func(pos token.Pos, what string) {
			n++
			key := f.Root().Name + " " + what
			reason, ok := c05NativeOK[key]
			if gvaDump {
				fmt.Printf("NATIVE %q %s\n", key, p.Pos(pos))
			}
			c.Check("native-float", key, pos, ok, "native Go floating-point operation in VM/native code (host-dependent rounding is excluded only for the tabled exact operations) "+reason)
		}
		engine.InspectBody(f, func(nd ast.Node) {
			switch x := nd.(type) {
			case *ast.BinaryExpr:
				if isConst(x) {
					return
				}
				if c05IsFloat(info.TypeOf(x.X)) || c05IsFloat(info.TypeOf(x.Y)) {
					report(x.Pos(), "binary "+x.Op.String())
				}
			case *ast.UnaryExpr:
				if x.Op == token.SUB && !isConst(x) && c05IsFloat(info.TypeOf(x.X)) {
					report(x.Pos(), "unary -")
				}
			case *ast.IncDecStmt:
				if c05IsFloat(info.TypeOf(x.X)) {
					report(x.Pos(), "incdec")
				}
			case *ast.AssignStmt:
				if x.Tok != token.ASSIGN && x.Tok != token.DEFINE && len(x.Lhs) == 1 && c05IsFloat(info.TypeOf(x.Lhs[0])) {
					report(x.Pos(), "assign-op "+x.Tok.String())
				}
			case *ast.CallExpr:
				if len(x.Args) == 1 && info.Types[x.Fun].IsType() && !isConst(x) {
					src, dst := info.TypeOf(x.Args[0]), info.TypeOf(x.Fun)
					if c05IsFloat(src) != c05IsFloat(dst) {
						report(x.Pos(), "convert "+src.Underlying().String()+"→"+dst.Underlying().String())
					} else if c05IsFloat(src) && c05IsFloat(dst) && !types.Identical(src.Underlying(), dst.Underlying()) {
						report(x.Pos(), "convert "+src.Underlying().String()+"→"+dst.Underlying().String())
					}
				}
			}
		})
	}
	c.Floor("native-float(functions scanned)", scanned, 2400)
	c.Floor("native-float", n, 6)
}
