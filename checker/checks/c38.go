package checks

import (
	"go/ast"
	"go/constant"
	"go/token"
	"go/types"

	"gnoverif/engine"
)

// C38 — consensus write-ahead log (tm2/pkg/bft/wal).
func init() {
	register("C38", c38)
	meta("C38", Meta{
		Text:      "Decides structural necessary conditions of the WAL property on tm2/pkg/bft/wal: the writer and the reader use the same base64 codec variable, the same CRC table variable and the same byte order, with the 4-byte CRC first and computed over exactly the bytes that follow it; the reader decodes the payload only after the length test and the CRC equality test; the line written ends in a newline; writer and reader reject on the same strict size comparison and every constructor outside the package receives the same size constant; every error ReadMessage returns for a line it has read is a DataCorruptionError (only the line reader's own I/O error/EOF passes through untyped); SearchForHeight reports 'found' only for a decoded marker equal to the requested height and returns the very reader that consumed that marker. Level 'other': code-shape clauses, no execution.",
		Note:      "Not covered: the index arithmetic of the backwards/binary search over rotated files, autofile rotation, that a meta (height-marker) line carries no CRC (by design, see DESIGN.md §5: a corrupted digit inside a marker is undetectable). Trusts go/types+go/cfg.",
		Technique: "paired writer/reader feature comparison (resolved package variables and callees), CFG gate facts before the decode call, reaching-definition classification of returned errors, constructor-argument table",
		Ref:       "DESIGN.md §2 C38",
	})
	const F = "tm2/pkg/bft/wal/wal.go"
	mutants("C38",
		Mutant{"reader-other-codec", F, "line, err := base64stdnp.DecodeString(string(line64))", "line, err := base64.StdEncoding.DecodeString(string(line64))", "codec-agree"},
		Mutant{"writer-other-crc-table", F, "crc := crc32.Checksum(twmBytes, crc32c)", "crc := crc32.ChecksumIEEE(twmBytes)", "codec-agree"},
		Mutant{"reader-little-endian", F, "crc, twmBytes := binary.BigEndian.Uint32(line[:crcSize]), line[crcSize:]", "crc, twmBytes := binary.LittleEndian.Uint32(line[:crcSize]), line[crcSize:]", "codec-agree"},
		Mutant{"crc-check-weakened", F, "if actualCRC != crc {", "if actualCRC != crc && dec.maxSize > 0 {", "crc-before-decode"},
		Mutant{"crc-over-tail", F, "actualCRC := crc32.Checksum(twmBytes, crc32c)", "actualCRC := crc32.Checksum(twmBytes[1:], crc32c)", "crc-before-decode"},
		Mutant{"untyped-base64-error", F, "return nil, nil, DataCorruptionError{fmt.Errorf(\"failed to decode base64: %w\", err)}", "return nil, nil, fmt.Errorf(\"failed to decode base64: %w\", err)", "corruption-typed tm2/pkg/bft/wal.(*WALReader).ReadMessage returns a value built by fmt.Errorf"},
		Mutant{"meta-error-untyped", F, "return nil, nil, DataCorruptionError{fmt.Errorf(\"failed to decode meta line: %w\", err)}", "return nil, nil, err", "corruption-typed tm2/pkg/bft/wal.(*WALReader).ReadMessage returns error of tm2/pkg/amino.UnmarshalJSON"},
		Mutant{"reader-size-nonstrict", F, "if dec.maxSize < int64(len(twmBytes)) {", "if dec.maxSize <= int64(len(twmBytes)) {", "size-bound"},
		Mutant{"replay-smaller-limit", "tm2/pkg/bft/consensus/replay.go", "dec := walm.NewWALReader(gr, maxMsgSize)", "dec := walm.NewWALReader(gr, maxMsgSize/2)", "size-bound"},
		Mutant{"found-on-later-height", F, "} else if meta.Height == height { // found", "} else if meta.Height == height+1 { // found", "search-found"},
		Mutant{"no-newline", F, "\tline64 += \"\\n\"\n", "", "writer-format"},
		Mutant{"crc-after-payload", F, "binary.BigEndian.PutUint32(line[0:4], crc)\n\tcopy(line[4:], twmBytes)", "copy(line[0:], twmBytes)\n\tbinary.BigEndian.PutUint32(line[len(twmBytes):], crc)", "writer-format"},
	)
}

func c38(c *engine.Ctx) {
	c.Explain = "Decides structural necessary conditions of the WAL property: (1) codec-agree: WALWriter.Write and WALReader.ReadMessage use the same base64 codec variable, the same crc32 table variable and big-endian Uint32/PutUint32; (2) writer-format: the line is base64(CRC(4 bytes, over the amino bytes) + the same amino bytes of the message) and a newline is appended before the single write; (3) crc-before-decode: amino.UnmarshalSized of the payload is reached only when len(line) >= 4 held and the CRC computed over exactly that payload equalled the stored one; (4) size-bound: writer and reader reject on the same strict comparison maxSize < len and all external constructors pass one constant; (5) corruption-typed: every error returned by ReadMessage after a line was read is a DataCorruptionError literal (pass-through allowed only for the line reader's own error); (6) search-found: SearchForHeight returns found=true only with a nil read error, a non-nil marker whose Height equals the requested height, and returns the reader that consumed it. Not covered: search index arithmetic across rotated files; marker lines have no CRC (by design)."
	p := c.Load("tm2/pkg/bft/wal", "tm2/pkg/bft/consensus")
	if p == nil {
		return
	}
	const W = "tm2/pkg/bft/wal."
	wr := c.MustFunc(W + "(*WALWriter).Write")
	rd := c.MustFunc(W + "(*WALReader).ReadMessage")
	codec := p.Object(W + "base64stdnp")
	table := p.Object(W + "crc32c")
	if codec == nil || table == nil {
		c.Undecided("anchor", W+"base64stdnp/crc32c", "package variables not found")
		return
	}
	if wr == nil || rd == nil {
		return
	}
	wi, ri := wr.Info(), rd.Info()
	wg, rg := wr.Graph(), rd.Graph()

	// ---------- writer ----------
	// the encoder: s := codec.EncodeToString(line) or codec.Encode(dst, line)
	var encS *engine.Site
	var L, B, S types.Object
	encs := wr.CallsTo("encoding/base64.(*Encoding).EncodeToString", "encoding/base64.(*Encoding).Encode", "encoding/base64.(*Encoding).AppendEncode")
	if len(encs) != 1 {
		c.Check("writer-format", wr.Name+" one base64 encode call", wr.Pos(), false, "expected exactly one EncodeToString/Encode call")
	} else {
		encS = encs[0]
		var src ast.Expr
		switch encS.CalleeName() {
		case "encoding/base64.(*Encoding).EncodeToString":
			if objs := niAssignedFromCall(wr, encS); len(objs) == 1 {
				S = objs[0]
			}
			if len(encS.Call.Args) == 1 {
				src = encS.Call.Args[0]
			}
		case "encoding/base64.(*Encoding).Encode":
			if len(encS.Call.Args) == 2 {
				d := ast.Unparen(encS.Call.Args[0])
				if se, ok := d.(*ast.SliceExpr); ok {
					d = se.X
				}
				S = engine.ObjOf(wi, d)
				src = encS.Call.Args[1]
			}
		case "encoding/base64.(*Encoding).AppendEncode":
			if objs := niAssignedFromCall(wr, encS); len(objs) == 1 {
				S = objs[0]
			}
			if len(encS.Call.Args) == 2 {
				src = encS.Call.Args[1]
			}
		}
		c.Check("codec-agree", wr.Name+" base64 codec", encS.Pos(), niIsObj(wi, niRecvExpr(encS.Call), codec), "writer must encode with the package codec variable base64stdnp")
		if src != nil {
			L = engine.ObjOf(wi, src)
		}
	}
	puts := wr.CallsTo("encoding/binary.(bigEndian).PutUint32", "encoding/binary.(littleEndian).PutUint32")
	okPut, whyPut := false, "no PutUint32(line[0:4], crc) on the encoded buffer"
	var crcCall *ast.CallExpr
	for _, ps := range puts {
		if ps.CalleeName() != "encoding/binary.(bigEndian).PutUint32" {
			whyPut = "CRC stored with " + ps.CalleeName()
			continue
		}
		if L == nil || len(ps.Call.Args) != 2 || !niSliceOf(wr, ps.Call.Args[0], L, 0, 4) {
			whyPut = "CRC is not stored in bytes [0:4] of the encoded buffer"
			continue
		}
		if encS != nil && !wg.Dominates(ps, encS) {
			whyPut = "CRC store does not precede the encoding"
			continue
		}
		cc := niLocalDefCall(wr, engine.ObjOf(wi, ps.Call.Args[1]))
		if cc == nil {
			if x, ok := ast.Unparen(ps.Call.Args[1]).(*ast.CallExpr); ok {
				cc = x
			}
		}
		crcCall = cc
		okPut, whyPut = true, "big-endian CRC in bytes [0:4]"
	}
	c.Check("writer-format", wr.Name+" CRC first, big-endian", wr.Pos(), okPut, whyPut)
	okTab := crcCall != nil && niCallee(wi, crcCall) == "hash/crc32.Checksum" && len(crcCall.Args) == 2 && niIsObj(wi, crcCall.Args[1], table)
	c.Check("codec-agree", wr.Name+" crc table", wr.Pos(), okTab, "writer must compute crc32.Checksum(payload, crc32c)")
	if okTab {
		B = engine.ObjOf(wi, crcCall.Args[0])
	}
	okCopy, whyCopy := false, "no copy(line[4:], payload) of the bytes the CRC was computed over"
	for _, cs := range wr.CallsTo("builtin.copy") {
		if L != nil && B != nil && len(cs.Call.Args) == 2 && niSliceOf(wr, cs.Call.Args[0], L, 4, -1) && engine.ObjOf(wi, cs.Call.Args[1]) == B && (encS == nil || wg.Dominates(cs, encS)) {
			okCopy, whyCopy = true, "payload copied after the CRC"
		}
	}
	c.Check("writer-format", wr.Name+" payload = checksummed bytes at [4:]", wr.Pos(), okCopy, whyCopy)
	okSrc := false
	if B != nil {
		if d := niLocalDefCall(wr, B); d != nil {
			n := niCallee(wi, d)
			okSrc = (n == "tm2/pkg/amino.MustMarshalSized" || n == "tm2/pkg/amino.MarshalSized") && niCallArgMentions(wi, d, 0, paramObj(wr, 0))
		}
	}
	c.Check("writer-format", wr.Name+" payload = amino sized bytes of the message", wr.Pos(), okSrc, "the checksummed bytes must be amino.MustMarshalSized(v) of the message parameter")
	// single write of the encoded line + newline
	ws := wr.CallsTo("io.(Writer).Write")
	okW, whyW := false, "expected exactly one io.Writer.Write of the encoded line"
	if len(ws) == 1 && S != nil && encS != nil {
		w := ws[0]
		switch {
		case !niCallArgMentions(wi, w.Call, 0, S):
			whyW = "the bytes written are not the encoded line"
		case !wg.Dominates(encS, w):
			whyW = "write not dominated by the encoding"
		default:
			// newline appended to S before the write, or in the argument
			nl := niHasNewlineConst(wi, w.Call.Args[0])
			engine.InspectBody(wr, func(n ast.Node) {
				as, ok := n.(*ast.AssignStmt)
				if !ok || len(as.Lhs) != 1 || len(as.Rhs) != 1 {
					return
				}
				if ix, isIx := ast.Unparen(as.Lhs[0]).(*ast.IndexExpr); isIx {
					// buf[k] = '\n' on the byte buffer that is written
					if engine.ObjOf(wi, ix.X) != S || as.Tok != token.ASSIGN || !niIsNewline(wi, as.Rhs[0]) {
						return
					}
				} else {
					if engine.ObjOf(wi, as.Lhs[0]) != S {
						return
					}
					if !(as.Tok == token.ADD_ASSIGN && niIsNewline(wi, as.Rhs[0])) && !(as.Tok == token.ASSIGN && niIsSuffixNewline(wi, as.Rhs[0], S)) {
						return
					}
				}
				if st := wr.SiteOf(as); st != nil && wg.Dominates(st, w) {
					nl = true
				}
			})
			if nl {
				okW, whyW = true, "encoded line + \"\\n\" written once"
			} else {
				whyW = "no newline is appended to the encoded line before the write"
			}
		}
	}
	c.Check("writer-format", wr.Name+" line terminated by newline", wr.Pos(), okW, whyW)
	c.Floor("writer-format", 4, 4)

	// ---------- reader ----------
	decS, decObjs := niBoundCall(rd, "encoding/base64.(*Encoding).DecodeString")
	var RL types.Object
	if decS == nil {
		c.Check("codec-agree", rd.Name+" base64 codec", rd.Pos(), false, "expected exactly one DecodeString call bound to a variable")
	} else {
		c.Check("codec-agree", rd.Name+" base64 codec", decS.Pos(), niIsObj(ri, niRecvExpr(decS.Call), codec), "reader must decode with the package codec variable base64stdnp")
		if len(decObjs) == 2 {
			RL = decObjs[0]
		}
	}
	us := rd.CallsTo("tm2/pkg/amino.UnmarshalSized", "tm2/pkg/amino.Unmarshal", "tm2/pkg/amino.UnmarshalAny", "tm2/pkg/amino.UnmarshalSizedReader")
	c.Floor("crc-before-decode", len(us), 1)
	var RB types.Object
	for _, u := range us {
		key := rd.Name + " " + u.CalleeName()
		if len(u.Call.Args) < 1 {
			continue
		}
		RB = engine.ObjOf(ri, u.Call.Args[0])
		def := niSingleDef(rd, RB)
		c.Check("crc-before-decode", key+" payload = line[4:]", u.Pos(), def != nil && RL != nil && niSliceOf(rd, def, RL, 4, -1), "the decoded payload must be bytes [4:] of the base64-decoded line")
		var lenOK, crcOK bool
		crcWhy := "no `computed == stored` CRC fact holds at the decode call"
		for _, ft := range niFacts(rg, u) {
			cmp, ok := niAsCmp(ft)
			if !ok {
				continue
			}
			for _, cm := range []niCmp{cmp, cmp.niFlip()} {
				// len(line) >= 4
				if cm.Op == token.GEQ && niIsLenOfObj(ri, niStripConv(ri, cm.X), RL) {
					if v, ok := niIntVal(rd, cm.Y, 0); ok && v == 4 {
						lenOK = true
					}
				}
				if cm.Op == token.EQL {
					a := niLocalDefCall(rd, engine.ObjOf(ri, cm.X))
					s := niSingleDef(rd, engine.ObjOf(ri, cm.Y))
					if a == nil || s == nil {
						continue
					}
					sc, isCall := ast.Unparen(s).(*ast.CallExpr)
					if niCallee(ri, a) != "hash/crc32.Checksum" || !isCall {
						continue
					}
					switch {
					case len(a.Args) != 2 || engine.ObjOf(ri, a.Args[0]) != RB:
						crcWhy = "the CRC is computed over `" + engine.ExprString(a.Args[0]) + "`, not over the payload that is decoded"
					case !niIsObj(ri, a.Args[1], table):
						crcWhy = "reader CRC table differs from crc32c"
					case niCallee(ri, sc) != "encoding/binary.(bigEndian).Uint32":
						crcWhy = "stored CRC read with " + niCallee(ri, sc)
					case len(sc.Args) != 1 || !niSliceOf(rd, sc.Args[0], RL, 0, 4):
						crcWhy = "stored CRC is not bytes [0:4] of the line"
					default:
						crcOK, crcWhy = true, "decode reached only when crc32.Checksum(payload, crc32c) == BigEndian.Uint32(line[:4])"
					}
				}
			}
		}
		c.Check("crc-before-decode", key+" after length test", u.Pos(), lenOK, "decode must be reached only when len(line) >= 4")
		c.Check("crc-before-decode", key+" after CRC equality", u.Pos(), crcOK, crcWhy)
	}
	// table/endianness agreement of the reader even if the gate shape changes
	okRT := false
	for _, s := range rd.CallsTo("hash/crc32.Checksum") {
		if len(s.Call.Args) == 2 && niIsObj(ri, s.Call.Args[1], table) {
			okRT = true
		}
	}
	c.Check("codec-agree", rd.Name+" crc table", rd.Pos(), okRT && len(rd.CallsTo("hash/crc32.*")) == 1, "reader must compute crc32.Checksum(payload, crc32c) and nothing else from hash/crc32")
	c.Check("codec-agree", rd.Name+" byte order", rd.Pos(), len(rd.CallsTo("encoding/binary.(bigEndian).Uint32")) == 1 && len(rd.CallsTo("encoding/binary.(littleEndian).*")) == 0, "stored CRC must be read big-endian, as written")
	c.Floor("codec-agree", 6, 6)

	// ---------- size bound ----------
	c38SizeBound(c, p, wr, rd, B, RB)

	// ---------- typed errors ----------
	c38Typed(c, p, rd)

	// ---------- search ----------
	if f := c.MustFunc(W + "(*baseWAL).SearchForHeight"); f != nil {
		c38Search(c, p, f)
	}
}

func niIsNewline(info *types.Info, e ast.Expr) bool {
	tv, ok := info.Types[e]
	if !ok || tv.Value == nil {
		return false
	}
	// "\n" as a string constant, or '\n' as a rune/byte constant
	return tv.Value.ExactString() == `"\n"` || (tv.Value.Kind() == constant.Int && tv.Value.ExactString() == "10")
}

func niHasNewlineConst(info *types.Info, e ast.Node) bool {
	found := false
	ast.Inspect(e, func(n ast.Node) bool {
		if x, ok := n.(ast.Expr); ok && niIsNewline(info, x) {
			found = true
		}
		return !found
	})
	return found
}

// niIsSuffixNewline: e is `S + "\n"`.
func niIsSuffixNewline(info *types.Info, e ast.Expr, s types.Object) bool {
	b, ok := ast.Unparen(e).(*ast.BinaryExpr)
	return ok && b.Op == token.ADD && engine.ObjOf(info, b.X) == s && niIsNewline(info, b.Y)
}

func c38SizeBound(c *engine.Ctx, p *engine.Prog, wr, rd *engine.Fn, wB, rB types.Object) {
	const W = "tm2/pkg/bft/wal."
	const rule = "size-bound"
	fW := p.Field(W + "WALWriter.maxSize")
	fR := p.Field(W + "WALReader.maxSize")
	fB := p.Field(W + "baseWAL.maxSize")
	if fW == nil || fR == nil || fB == nil {
		c.Undecided(rule, W+"maxSize fields", "field not found")
		return
	}
	// a strict `max < len(payload)` atom whose truth leads to an error return
	strict := func(f *engine.Fn, field *types.Var, payload types.Object, target *engine.Site) (bool, string) {
		if target == nil || payload == nil {
			return false, "payload / guarded call not identified"
		}
		info := f.Info()
		seen := ""
		for _, gt := range f.Graph().Gates(target) {
			if gt.OnTrue {
				continue
			}
			for _, a := range engine.Conjuncts(gt.Cond, token.LAND) {
				be, ok := ast.Unparen(a).(*ast.BinaryExpr)
				if !ok {
					continue
				}
				x, y, op := be.X, be.Y, be.Op
				if niSelField(info, y, field) {
					x, y, op = y, x, engine.Flip(op)
				}
				if !niSelField(info, x, field) {
					continue
				}
				// y is len(payload) possibly through a local and conversions
				yy := niStripConv(info, y)
				if id, ok := yy.(*ast.Ident); ok {
					if d := niSingleDef(f, info.ObjectOf(id)); d != nil {
						yy = niStripConv(info, d)
					}
				}
				if !niIsLenOfObj(info, yy, payload) {
					continue
				}
				if op == token.LSS {
					// remaining conjuncts may only mention the limit itself (0 < max)
					for _, o := range engine.Conjuncts(gt.Cond, token.LAND) {
						if o != a && !(niMentionsField(info, o, field) && !niMentionsObj(info, o, payload)) {
							return false, "size test weakened by conjunct `" + engine.ExprString(o) + "`"
						}
					}
					return true, "rejects exactly when maxSize < len(payload)"
				}
				seen = "size comparison is `" + op.String() + "`, not the strict `<` of its counterpart"
			}
		}
		if seen != "" {
			return false, seen
		}
		return false, "no `maxSize < len(payload)` rejection gates the call"
	}
	var wTarget, rTarget *engine.Site
	if ss := wr.CallsTo("io.(Writer).Write"); len(ss) == 1 {
		wTarget = ss[0]
	}
	if ss := rd.CallsTo("tm2/pkg/amino.UnmarshalSized"); len(ss) == 1 {
		rTarget = ss[0]
	}
	ok, why := strict(wr, fW, wB, wTarget)
	c.Check(rule, wr.Name+" strict size rejection", wr.Pos(), ok, why)
	ok, why = strict(rd, fR, rB, rTarget)
	c.Check(rule, rd.Name+" strict size rejection", rd.Pos(), ok, why)

	// constructors: external callers pass one constant; internal ones forward
	refs := p.RefsToFunc(W+"NewWAL", W+"NewWALReader", W+"NewWALWriter")
	ext := map[types.Object]bool{}
	n := 0
	for _, r := range refs {
		if r.Fn == nil {
			continue
		}
		var call *ast.CallExpr
		for _, s := range r.Fn.Calls() {
			if s.Call != nil && engine.ObjOf(r.Fn.Info(), s.Call.Fun) == r.Fn.Info().Uses[r.Ident] && s.Call.Pos() <= r.Ident.Pos() && r.Ident.End() <= s.Call.End() {
				call = s.Call
			}
		}
		key := r.Fn.Root().Name + " -> " + r.Ident.Name
		if call == nil || len(call.Args) < 2 {
			c.Check(rule, key+" constructor used as a call", r.Ident.Pos(), false, "constructor referenced as a value; size argument unknown")
			continue
		}
		n++
		info := r.Fn.Info()
		arg := call.Args[1]
		if r.Fn.Pkg.PkgPath == engine.ModPrefix+"tm2/pkg/bft/wal" {
			okIn := false
			switch r.Fn.Root().Name {
			case W + "NewWAL":
				okIn = engine.ObjOf(info, arg) == paramObj(r.Fn.Root(), 1)
			default:
				okIn = niSelField(info, arg, fB)
			}
			c.Check(rule, key+" forwards the configured size", call.Pos(), okIn, "inside the package the size must be the NewWAL parameter / baseWAL.maxSize")
			continue
		}
		o := engine.ObjOf(info, arg)
		if k, isConst := o.(*types.Const); isConst {
			ext[k] = true
			c.Check(rule, key+" size is a named constant", call.Pos(), true, k.Name())
		} else {
			c.Check(rule, key+" size is a named constant", call.Pos(), false, "size argument `"+engine.ExprString(arg)+"` is not a plain named constant shared by writer and readers")
		}
	}
	c.Floor(rule, n, 6)
	c.Check(rule, "one size constant for writer and readers", token.NoPos, len(ext) == 1, "distinct size constants passed to the WAL constructors must be exactly one")
	// baseWAL.maxSize is written only in NewWAL's literal from the parameter
	var bad []string
	for _, w := range p.FieldWrites(fB) {
		if w.Fn.Root().Name != W+"NewWAL" {
			bad = append(bad, w.Fn.Root().Name)
			continue
		}
		if kv, ok := w.Node.(*ast.KeyValueExpr); !ok || engine.ObjOf(w.Fn.Info(), kv.Value) != paramObj(w.Fn.Root(), 1) {
			bad = append(bad, w.Fn.Root().Name+" (not the parameter)")
		}
	}
	c.Check("who-may-write", W+"baseWAL.maxSize", token.NoPos, len(bad) == 0, "unexpected writers: "+join(bad))
}

// niReachingDefs returns the assignment sites of obj that may reach `at`
// without being overwritten by another assignment of obj, with the call on
// their right-hand side (nil when the RHS is not a call).
type niDef struct {
	Site *engine.Site
	Call *ast.CallExpr
}

func niReachingDefs(f *engine.Fn, obj types.Object, at *engine.Site) []niDef {
	info := f.Info()
	g := f.Graph()
	var defs []niDef
	engine.InspectBody(f, func(n ast.Node) {
		as, ok := n.(*ast.AssignStmt)
		if !ok {
			return
		}
		for _, l := range as.Lhs {
			if id, ok := l.(*ast.Ident); ok && info.ObjectOf(id) == obj {
				s := f.SiteOf(as)
				if s == nil {
					return
				}
				var call *ast.CallExpr
				if len(as.Rhs) == 1 {
					call, _ = ast.Unparen(as.Rhs[0]).(*ast.CallExpr)
				}
				defs = append(defs, niDef{s, call})
			}
		}
	})
	var out []niDef
	for i, d := range defs {
		var others []*engine.Site
		for j, o := range defs {
			if j != i {
				others = append(others, o.Site)
			}
		}
		reach := false
		if d.Site.Block == at.Block && d.Site.Idx < at.Idx {
			reach = true
			for _, o := range others {
				if o.Block == at.Block && o.Idx > d.Site.Idx && o.Idx < at.Idx {
					reach = false
				}
			}
		} else if d.Site.Block != at.Block {
			// others located in at's block before `at` kill every incoming def
			killed := false
			for _, o := range others {
				if o.Block == at.Block && o.Idx < at.Idx {
					killed = true
				}
			}
			if !killed && niReachAvoiding(g, d.Site, at.Block, others...) {
				reach = true
			}
		}
		if reach {
			out = append(out, d)
		}
	}
	return out
}

func c38Typed(c *engine.Ctx, p *engine.Prog, rd *engine.Fn) {
	const W = "tm2/pkg/bft/wal."
	const rule = "corruption-typed"
	dce := p.Named(W + "DataCorruptionError")
	if dce == nil {
		c.Undecided(rule, W+"DataCorruptionError", "type not found")
		return
	}
	n, typed := 0, 0
	// classify walks the error returns of fn (rd itself, or a private helper
	// whose error rd passes on); keys always name rd and the originating callee.
	var classify func(fn *engine.Fn, depth int, busy map[*engine.Fn]bool)
	classify = func(fn *engine.Fn, depth int, busy map[*engine.Fn]bool) {
		if busy[fn] {
			return
		}
		busy[fn] = true
		info := fn.Info()
		g := fn.Graph()
		for _, r := range niReturns(fn) {
			rs := r.Node.(*ast.ReturnStmt)
			if !niLastResultNonNil(rs) {
				continue
			}
			e := ast.Unparen(rs.Results[len(rs.Results)-1])
			if t := info.TypeOf(e); t != nil && types.Identical(t, dce) {
				n++
				typed++
				continue
			}
			id, isID := e.(*ast.Ident)
			if !isID {
				n++
				what := "an unclassified expression"
				if call, ok := e.(*ast.CallExpr); ok && niCallee(info, call) != "" {
					what = "a value built by " + niCallee(info, call)
				}
				c.Check(rule, rd.Name+" returns "+what, r.Pos(), false, "error value `"+niShort(e)+"` is neither a DataCorruptionError nor a classified variable")
				continue
			}
			obj := info.ObjectOf(id)
			for _, d := range niReachingDefs(fn, obj, r) {
				src := niCallee(info, d.Call)
				if src == "" {
					src = "a non-call expression"
				}
				key := rd.Name + " returns error of " + src
				isNilHere := false
				for _, ft := range niFacts(g, r) {
					cmp, ok := niAsCmp(ft)
					if ok && cmp.Op == token.EQL && engine.ObjOf(info, cmp.X) == obj && isNil(cmp.Y) && g.Dominates(d.Site, &engine.Site{Block: ft.Gate.Block, Idx: len(ft.Gate.Block.Nodes) - 1, Ord: 1 << 30, Node: ft.Gate.Cond}) {
						isNilHere = true
					}
				}
				// error produced by a private helper of the package: judge the helper's own error returns
				var helper *engine.Fn
				if d.Call != nil {
					if fo, _ := engine.ObjOf(info, d.Call.Fun).(*types.Func); fo != nil && !fo.Exported() {
						helper = p.FnOf(fo)
					}
				}
				switch {
				case isNilHere:
					n++
					c.Check(rule, key, r.Pos(), true, "value is nil on this path")
				case src == W+"(*WALReader).readline":
					n++
					c.Check(rule, key, r.Pos(), true, "I/O error or EOF of the line reader itself (no line was read)")
				case helper != nil && depth > 0 && helper.Pkg == rd.Pkg:
					classify(helper, depth-1, busy)
				default:
					n++
					c.Check(rule, key, r.Pos(), false, "a line was read and failed to decode, but the error is returned without the DataCorruptionError wrapper (IsDataCorruptionError is false)")
				}
			}
		}
	}
	classify(rd, 2, map[*engine.Fn]bool{})
	c.Check(rule, rd.Name+" typed corruption returns", rd.Pos(), typed >= 6, "DataCorruptionError returns found")
	c.Floor(rule, n, 8)
}

func niShort(e ast.Expr) string {
	s := engine.ExprString(e)
	if len(s) > 40 {
		s = s[:40] + "…"
	}
	return s
}

func c38Search(c *engine.Ctx, p *engine.Prog, f *engine.Fn) {
	const W = "tm2/pkg/bft/wal."
	const rule = "search-found"
	info := f.Info()
	g := f.Graph()
	fH := p.Field(W + "MetaMessage.Height")
	height := paramObj(f, 0)
	reads := f.CallsTo(W + "(*WALReader).ReadMessage")
	if len(reads) != 1 || fH == nil {
		c.Undecided(rule, f.Name, "expected exactly one ReadMessage call and MetaMessage.Height")
		return
	}
	objs := niAssignedFromCall(f, reads[0])
	if len(objs) != 3 || objs[1] == nil || objs[2] == nil {
		c.Undecided(rule, f.Name, "ReadMessage results are not bound to (_, meta, err)")
		return
	}
	metaObj, errObj := objs[1], objs[2]
	dec := engine.ObjOf(info, niRecvExpr(reads[0].Call))
	n := 0
	for _, r := range niReturns(f) {
		rs := r.Node.(*ast.ReturnStmt)
		if len(rs.Results) != 3 {
			continue
		}
		tv, ok := info.Types[rs.Results[1]]
		if ok && tv.Value != nil && tv.Value.ExactString() == "false" {
			continue
		}
		n++
		key := f.Name + " found-return"
		var eq, le, ge, nonNil, errNil bool
		for _, ft := range niFacts(g, r) {
			cmp, ok := niAsCmp(ft)
			if !ok {
				continue
			}
			for _, cm := range []niCmp{cmp, cmp.niFlip()} {
				if niSelField(info, cm.X, fH) && niMentionsObj(info, cm.X, metaObj) && engine.ObjOf(info, cm.Y) == height {
					switch cm.Op {
					case token.EQL:
						eq = true
					case token.LEQ:
						le = true
					case token.GEQ:
						ge = true
					}
				}
				if engine.ObjOf(info, cm.X) == metaObj && isNil(cm.Y) && cm.Op == token.NEQ {
					nonNil = true
				}
				if engine.ObjOf(info, cm.X) == errObj && isNil(cm.Y) && cm.Op == token.EQL {
					errNil = true
				}
			}
		}
		c.Check(rule, key+" only when marker.Height == height", r.Pos(), eq || (le && ge), "found=true must be gated by meta.Height == height for the marker just read")
		c.Check(rule, key+" only for a non-nil marker", r.Pos(), nonNil, "found=true must be gated by meta != nil")
		c.Check(rule, key+" only after a successful read", r.Pos(), errNil, "found=true must be on the err == nil side of the read-error test")
		c.Check(rule, key+" returns the reader that consumed the marker", r.Pos(), dec != nil && engine.ObjOf(info, rs.Results[0]) == dec && g.ReachableAfter(reads[0], r), "the returned ReadCloser must be the decoder positioned right after the marker")
		c.Check(rule, key+" with nil error", r.Pos(), isNil(rs.Results[2]), "")
	}
	c.Floor(rule, n, 1)
	// the reader is built over the group reader of the probed file with the WAL's size limit
	news := f.CallsTo(W + "NewWALReader")
	c.Check(rule, f.Name+" one decoder per probed file", f.Pos(), len(news) == 1, "expected exactly one NewWALReader call")
}
