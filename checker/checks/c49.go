package checks

import (
	"go/ast"
	"go/token"
	"go/types"
	"strings"

	"gnoverif/engine"
)

// C49 — concurrent list (tm2/pkg/clist/clist.go).
func init() {
	register("C49", c49)
	meta("C49", Meta{
		Text:      "Decides structural necessary conditions of the concurrent-list property: every access to a link/wait/removed field of CElement and to a head/tail/len/wait field of CList happens in a method of that type, on the receiver, with the receiver's mutex held (exclusively for writes), composite-literal initialisation of a fresh element excepted; every WaitGroup.Done on a wait field is paired in the same block with close() of its channel twin and is reached only when the corresponding link (or the list length) was observed nil/zero under the lock, and every re-arm replaces both twins when the link goes from set to nil (len from 1 to 0); the four *Wait loops snapshot link, wait group (and removed) in one read-locked section, return only when the link is set (or the element removed), wait on the snapshot of the matching wait group and loop back; Remove unlinks both neighbours (or moves head/tail) before marking the element removed, all under the list lock; PushBack initialises the new element's prev before publishing it through the old tail's next and wakes list waiters exactly when the list was empty. Level 'other': code-shape clauses, not linearizability.",
		Note:      "Not covered: linearizability / absence of lost wake-ups as a property of all interleavings, memory reclamation via DetachPrev/DetachNext, use of the list by its clients (mempool). Trusts go/types+go/cfg.",
		Technique: "lockset check on field accesses (CFG lock/unlock pairing incl. loops and defer), wake-up pairing via gate facts, ordering by dominance",
		Ref:       "DESIGN.md §2 C49",
	})
	const F = "tm2/pkg/clist/clist.go"
	mutants("C49",
		Mutant{"wait-on-live-field", F, "\t\tnextWg.Wait()\n", "\t\t_ = nextWg\n\t\te.nextWg.Wait()\n", "lock-held"},
		Mutant{"unlocked-next", F, "\te.mtx.RLock()\n\tval := e.next\n\te.mtx.RUnlock()\n\treturn val", "\tval := e.next\n\treturn val", "lock-held"},
		Mutant{"wake-without-done", F, "\t\te.nextWg.Done()\n\t\tclose(e.nextWaitCh)\n\t}\n\te.mtx.Unlock()\n}\n\n// NOTE: This function needs to be safe for\n// concurrent goroutines waiting on prevWg", "\t\tclose(e.nextWaitCh)\n\t}\n\te.mtx.Unlock()\n}\n\n// NOTE: This function needs to be safe for\n// concurrent goroutines waiting on prevWg", "wake-pairing"},
		Mutant{"removed-double-done", F, "\tif e.next == nil {\n\t\te.nextWg.Done()", "\tif e.next != nil {\n\t\te.nextWg.Done()", "wake-pairing"},
		Mutant{"push-wakes-too-often", F, "\tif l.len == 0 {\n\t\tl.wg.Done()", "\tif l.len <= 1 {\n\t\tl.wg.Done()", "wake-pairing"},
		Mutant{"no-rearm-on-empty", F, "\tif l.len == 1 {\n\t\tl.wg = waitGroup1()", "\tif l.len == 0 {\n\t\tl.wg = waitGroup1()", "wake-pairing"},
		Mutant{"removed-never-returns", F, "if next != nil || removed {", "if next != nil || (removed && next != nil) {", "wait-loop"},
		Mutant{"publish-before-init", F, "\t\te.SetPrev(l.tail) // We must init e first.\n\t\tl.tail.SetNext(e) // This will make e accessible.", "\t\tl.tail.SetNext(e) // This will make e accessible.\n\t\te.SetPrev(l.tail) // We must init e first.", "push-order"},
		Mutant{"mark-removed-outside-lock", F, "\te.SetRemoved()\n\n\tl.mtx.Unlock()\n\treturn e.Value", "\tl.mtx.Unlock()\n\te.SetRemoved()\n\treturn e.Value", "remove-order"},
		Mutant{"remove-skips-back-link", F, "\t} else {\n\t\tnext.SetPrev(prev)\n\t}", "\t}", "remove-order"},
	)
}

func c49(c *engine.Ctx) {
	c.Explain = "Decides structural necessary conditions of the concurrent-list property: (1) lock-held: every read/write of CElement.{prev,next,prevWg,nextWg,prevWaitCh,nextWaitCh,removed} and CList.{wg,waitCh,head,tail,len} is on the method receiver with receiver.mtx held (Lock for writes), literal initialisation excepted; (2) wake-pairing: Done() and close() of twin wait fields always together, reached only under an observed nil link / zero length; re-arm writes both twins, only under link set->nil / len == 1; (3) wait-loop: NextWait/PrevWait/FrontWait/BackWait snapshot under one RLock section, return gated by link != nil (|| removed), Wait() on the snapshot of the matching group, then re-check; (4) remove-order: neighbours relinked (or head/tail moved) under prev/next nil tests, then SetRemoved, len-- once, all under the list lock; (5) push-order: SetPrev(old tail) before oldTail.SetNext(e) before tail = e; head and tail set for the first element. Not covered: linearizability over all interleavings."
	p := c.Load("tm2/pkg/clist")
	if p == nil {
		return
	}
	const P = "tm2/pkg/clist."
	eFields := map[string]*types.Var{}
	lFields := map[string]*types.Var{}
	for _, n := range []string{"prev", "next", "prevWg", "nextWg", "prevWaitCh", "nextWaitCh", "removed", "mtx"} {
		eFields[n] = p.Field(P + "CElement." + n)
		if eFields[n] == nil {
			c.Undecided("anchor", P+"CElement."+n, "field not found")
			return
		}
	}
	for _, n := range []string{"wg", "waitCh", "head", "tail", "len", "maxLen", "mtx"} {
		lFields[n] = p.Field(P + "CList." + n)
		if lFields[n] == nil {
			c.Undecided("anchor", P+"CList."+n, "field not found")
			return
		}
	}

	c49LockHeld(c, p, eFields, lFields)
	c49WakePairing(c, p, eFields, lFields)
	c49WaitLoops(c, p, eFields, lFields)
	if f := c.MustFunc(P + "(*CList).Remove"); f != nil {
		c49Remove(c, p, f, lFields)
	}
	if f := c.MustFunc(P + "(*CList).PushBack"); f != nil {
		c49Push(c, p, f, lFields)
	}
	// maxLen is set once, before the list is shared
	ws := engine.WriterSet(p.FieldWrites(lFields["maxLen"]), func(w engine.Write) bool { return w.Kind != "lit" })
	c.Check("who-may-write", P+"CList.maxLen", token.NoPos, len(engine.SetDiff(ws, []string{P + "newWithMax"})) == 0, "writers: "+join(ws))
}

// c49MutexCalls returns lock (and unlock) call sites on base.<mu field>.
type c49Lock struct {
	s     *engine.Site
	write bool
}

func c49MutexSites(f *engine.Fn, base types.Object, mu *types.Var) (locks []c49Lock, unlocks []*engine.Site, deferredUnlock bool) {
	info := f.Info()
	for _, s := range f.Calls() {
		if s.Call == nil {
			continue
		}
		rx := niRecvExpr(s.Call)
		if rx == nil || !niSelField(info, rx, mu) || engine.ObjOf(info, ast.Unparen(rx).(*ast.SelectorExpr).X) != base {
			continue
		}
		switch s.CalleeName() {
		case "sync.(*RWMutex).Lock", "sync.(*Mutex).Lock":
			locks = append(locks, c49Lock{s, true})
		case "sync.(*RWMutex).RLock":
			locks = append(locks, c49Lock{s, false})
		case "sync.(*RWMutex).Unlock", "sync.(*Mutex).Unlock", "sync.(*RWMutex).RUnlock":
			if s.Deferred {
				deferredUnlock = true
			} else {
				unlocks = append(unlocks, s)
			}
		}
	}
	return
}

// c49Held: at site s the mutex base.mu is held (exclusively if needWrite).
func c49Held(f *engine.Fn, base types.Object, mu *types.Var, s *engine.Site, needWrite bool) (bool, string) {
	g := f.Graph()
	locks, unlocks, _ := c49MutexSites(f, base, mu)
	before := func(a, b *engine.Site) bool { // a strictly before b in the same block
		return a.Block == b.Block && (a.Idx < b.Idx || (a.Idx == b.Idx && a.Ord < b.Ord))
	}
	var dom *c49Lock
	for i := range locks {
		if g.Dominates(locks[i].s, s) {
			dom = &locks[i]
		}
	}
	if dom == nil {
		return false, "no " + mu.Name() + ".Lock()/RLock() on the receiver dominates the access"
	}
	if needWrite {
		for i := range locks {
			if g.Dominates(locks[i].s, s) && !locks[i].write {
				// the innermost dominating lock must be exclusive; with one lock per method this is simply "not RLock"
				if locks[i].s == dom.s {
					return false, "field written under RLock (shared), not Lock"
				}
			}
		}
	}
	// no unlock between the last lock and the access on any path
	for _, u := range unlocks {
		if before(u, s) {
			// need a lock between u and s in this block
			relocked := false
			for _, l := range locks {
				if before(u, l.s) && before(l.s, s) {
					relocked = true
				}
			}
			if !relocked {
				return false, "the mutex is released before the access"
			}
			continue
		}
		if u.Block == s.Block {
			// u after s in the same block: reaching s again needs a cycle through a lock
		}
		// can control go from u to s's block without passing a lock that precedes s?
		var av []*engine.Site
		for _, l := range locks {
			if l.s.Block == s.Block && !before(l.s, s) {
				continue
			}
			av = append(av, l.s)
		}
		if u.Block != s.Block && niReachAvoiding(g, u, s.Block, av...) {
			return false, "a path releases the mutex and reaches the access without re-locking"
		}
		if u.Block == s.Block && !before(u, s) {
			// cycle back into the same block
			entersLocked := false
			for _, l := range locks {
				if before(l.s, s) {
					entersLocked = true
				}
			}
			if !entersLocked && niReachAvoiding(g, u, s.Block, av...) {
				return false, "a path releases the mutex and loops back to the access without re-locking"
			}
		}
	}
	return true, "receiver's " + mu.Name() + " held"
}

func c49LockHeld(c *engine.Ctx, p *engine.Prog, eF, lF map[string]*types.Var) {
	const rule = "lock-held"
	type guarded struct {
		mu    *types.Var
		owner string
	}
	prot := map[*types.Var]guarded{}
	for n, v := range eF {
		if n != "mtx" {
			prot[v] = guarded{eF["mtx"], "CElement"}
		}
	}
	for n, v := range lF {
		if n != "mtx" && n != "maxLen" {
			prot[v] = guarded{lF["mtx"], "CList"}
		}
	}
	// composite-literal keys are initialisation of a fresh object
	litKeys := map[*ast.Ident]bool{}
	writeSel := map[*ast.Ident]bool{}
	for _, pk := range p.Pkgs {
		for _, file := range pk.Syntax {
			ast.Inspect(file, func(n ast.Node) bool {
				switch x := n.(type) {
				case *ast.CompositeLit:
					for _, el := range x.Elts {
						if kv, ok := el.(*ast.KeyValueExpr); ok {
							if id, ok := kv.Key.(*ast.Ident); ok {
								litKeys[id] = true
							}
						}
					}
				case *ast.AssignStmt:
					for _, l := range x.Lhs {
						if se, ok := ast.Unparen(l).(*ast.SelectorExpr); ok {
							writeSel[se.Sel] = true
						}
					}
				case *ast.IncDecStmt:
					if se, ok := ast.Unparen(x.X).(*ast.SelectorExpr); ok {
						writeSel[se.Sel] = true
					}
				}
				return true
			})
		}
	}
	n := 0
	for _, r := range p.RefsTo(func(o types.Object) bool {
		v, ok := o.(*types.Var)
		if !ok {
			return false
		}
		_, is := prot[v]
		return is
	}) {
		if litKeys[r.Ident] {
			continue
		}
		n++
		fv := r.Fn
		if fv == nil {
			c.Check(rule, "package-level access to "+r.Ident.Name, r.Ident.Pos(), false, "guarded field used outside any function")
			continue
		}
		info := fv.Info()
		field := info.Uses[r.Ident].(*types.Var)
		gd := prot[field.Origin()]
		key := fv.Root().Name + " " + gd.owner + "." + field.Name()
		if writeSel[r.Ident] {
			key += " (write)"
		}
		// base must be the receiver of a method of the owning type
		recv := niRecv(fv.Root())
		var base types.Object
		// find the selector whose Sel is this ident
		engine.InspectBody(fv, func(x ast.Node) {
			if se, ok := x.(*ast.SelectorExpr); ok && se.Sel == r.Ident {
				base = engine.ObjOf(info, se.X)
			}
		})
		if recv == nil || base != recv || fv != fv.Root() {
			c.Check(rule, key, r.Ident.Pos(), false, "guarded field accessed through `"+r.Ident.Name+"` of something other than the method receiver (or inside a closure)")
			continue
		}
		s := fv.SiteOf(r.Ident)
		if s == nil {
			c.Check(rule, key, r.Ident.Pos(), false, "access not located in the CFG")
			continue
		}
		ok, why := c49HeldDeep(p, fv, recv, gd.mu, s, writeSel[r.Ident], 2)
		c.Check(rule, key, r.Ident.Pos(), ok, why)
	}
	c.Floor(rule, n, 60)
	// every method that locks also unlocks on every return path (deferred, or no return reachable while held)
	for _, f := range p.FuncsIn("tm2/pkg/clist") {
		recv := niRecv(f)
		if recv == nil || f != f.Root() {
			continue
		}
		for _, mu := range []*types.Var{eF["mtx"], lF["mtx"]} {
			locks, unlocks, deferred := c49MutexSites(f, recv, mu)
			if len(locks) == 0 {
				continue
			}
			ok := deferred
			if !deferred {
				ok = true
				g := f.Graph()
				for _, l := range locks {
					for _, rb := range g.ReturnBlocks() {
						if niReachAvoiding(g, l.s, rb, unlocks...) {
							ok = false
						}
					}
				}
			}
			c.Check(rule, f.Name+" releases "+mu.Name()+" on every return", f.Pos(), ok, "a return is reachable with the mutex still held")
		}
	}
}

func c49WakePairing(c *engine.Ctx, p *engine.Prog, eF, lF map[string]*types.Var) {
	const rule = "wake-pairing"
	type pair struct {
		wg, ch, link *types.Var
		name         string
	}
	pairs := []pair{
		{eF["prevWg"], eF["prevWaitCh"], eF["prev"], "CElement.prev"},
		{eF["nextWg"], eF["nextWaitCh"], eF["next"], "CElement.next"},
		{lF["wg"], lF["waitCh"], lF["len"], "CList"},
	}
	nDone, nArm := 0, 0
	for _, f := range p.FuncsIn("tm2/pkg/clist") {
		info := f.Info()
		for _, pr := range pairs {
			// Done sites
			var dones, closes []*engine.Site
			for _, s := range f.CallsTo("sync.(*WaitGroup).Done") {
				if niSelField(info, niRecvExpr(s.Call), pr.wg) {
					dones = append(dones, s)
				}
			}
			for _, s := range f.CallsTo("builtin.close") {
				if len(s.Call.Args) == 1 && niSelField(info, s.Call.Args[0], pr.ch) {
					closes = append(closes, s)
				}
			}
			for _, d := range dones {
				nDone++
				key := f.Root().Name + " " + pr.name + " wake"
				twin := false
				for _, cl := range closes {
					if cl.Block == d.Block {
						twin = true
					}
				}
				c.Check(rule, key+" Done paired with close", d.Pos(), twin, "Done() on the wait group and close() of its channel twin must happen together")
				ok, why := c49LinkFactDeep(p, f, d, pr.link, pr.name == "CList", true, 2)
				c.Check(rule, key+" only when the link was nil", d.Pos(), ok, why)
			}
			for _, cl := range closes {
				twin := false
				for _, d := range dones {
					if cl.Block == d.Block {
						twin = true
					}
				}
				c.Check(rule, f.Root().Name+" "+pr.name+" close paired with Done", cl.Pos(), twin, "closing the wait channel without Done() leaves WaitGroup waiters asleep")
			}
			// re-arm sites (non-literal writes of the wg field)
			for _, w := range p.FieldWrites(pr.wg) {
				if w.Fn != f || w.Kind == "lit" {
					continue
				}
				nArm++
				key := f.Root().Name + " " + pr.name + " re-arm"
				as, isAs := w.Node.(*ast.AssignStmt)
				s := f.SiteOf(w.Node)
				okRHS := false
				if isAs && len(as.Rhs) == 1 {
					if call, ok := ast.Unparen(as.Rhs[0]).(*ast.CallExpr); ok && niCallee(info, call) == "tm2/pkg/clist.waitGroup1" {
						okRHS = true
					}
				}
				twin := false
				for _, w2 := range p.FieldWrites(pr.ch) {
					if w2.Fn != f || w2.Kind == "lit" {
						continue
					}
					if s2 := f.SiteOf(w2.Node); s2 != nil && s != nil && s2.Block == s.Block {
						if as2, ok := w2.Node.(*ast.AssignStmt); ok && len(as2.Rhs) == 1 {
							if call, ok := ast.Unparen(as2.Rhs[0]).(*ast.CallExpr); ok && engine.IsBuiltinCall(info, call, "make") {
								twin = true
							}
						}
					}
				}
				c.Check(rule, key+" replaces both twins with fresh ones", w.Node.Pos(), okRHS && twin, "wg = waitGroup1() together with ch = make(chan struct{})")
				if f.Root().Name == "tm2/pkg/clist.(*CList).Init" {
					continue // initialisation, unconditional
				}
				if s != nil {
					ok, why := c49LinkFactDeep(p, f, s, pr.link, pr.name == "CList", false, 2)
					c.Check(rule, key+" only when the link goes from set to nil", w.Node.Pos(), ok, why)
				}
			}
			// channel writes without wg write
			for _, w2 := range p.FieldWrites(pr.ch) {
				if w2.Fn != f || w2.Kind == "lit" {
					continue
				}
				s2 := f.SiteOf(w2.Node)
				twin := false
				for _, w := range p.FieldWrites(pr.wg) {
					if w.Fn == f && w.Kind != "lit" {
						if s := f.SiteOf(w.Node); s != nil && s2 != nil && s.Block == s2.Block {
							twin = true
						}
					}
				}
				c.Check(rule, f.Root().Name+" "+pr.name+" channel re-armed with its group", w2.Node.Pos(), twin, "")
			}
		}
	}
	c.Floor(rule+" (wake)", nDone, 3)
	c.Floor(rule+" (re-arm)", nArm, 3)
}

// c49LinkFact decides the gating of a wake (wantNil) or re-arm (!wantNil) site.
// Element links: wake needs a fact `<old link> == nil` (old link = the field
// itself or a local read from it before it is overwritten); when the function
// takes a new link value, additionally `<new> != nil`. Re-arm needs
// `<old> != nil` and `<new> == nil`. List: wake needs len == 0, re-arm len == 1.
func c49LinkFact(f *engine.Fn, g *engine.Graph, s *engine.Site, link *types.Var, isList, wake bool) (bool, string) {
	info := f.Info()
	isLink := func(e ast.Expr) bool {
		if niSelField(info, e, link) {
			return true
		}
		if id, ok := ast.Unparen(e).(*ast.Ident); ok {
			if d := niSingleDef(f, info.ObjectOf(id)); d != nil && niSelField(info, d, link) {
				return true
			}
		}
		return false
	}
	newv := paramObj(f, 0)
	var oldNil, oldSet, newNil, newSet, len0, len1 bool
	for _, ft := range niFacts(g, s) {
		cmp, ok := niAsCmp(ft)
		if !ok {
			continue
		}
		for _, cm := range []niCmp{cmp, cmp.niFlip()} {
			if isList {
				if niSelField(info, cm.X, link) && cm.Op == token.EQL && len(niGateFacts(ft.Gate)) == 1 {
					if v, okv := niIntVal(f, cm.Y, 0); okv && v == 0 {
						len0 = true
					} else if okv && v == 1 {
						len1 = true
					}
				}
				continue
			}
			if !isNil(cm.Y) {
				continue
			}
			if isLink(cm.X) {
				oldNil = oldNil || cm.Op == token.EQL
				oldSet = oldSet || cm.Op == token.NEQ
			}
			if newv != nil && engine.ObjOf(info, cm.X) == newv {
				newNil = newNil || cm.Op == token.EQL
				newSet = newSet || cm.Op == token.NEQ
			}
		}
	}
	hasNew := newv != nil && strings.HasPrefix(f.Root().Name, "tm2/pkg/clist.(*CElement).Set") && f.Root().Name != "tm2/pkg/clist.(*CElement).SetRemoved"
	switch {
	case isList && wake:
		return len0, "list waiters must be woken exactly when the list was empty (len == 0)"
	case isList && !wake:
		return len1, "list wait group must be re-armed exactly when the last element is removed (len == 1)"
	case wake && hasNew:
		return oldNil && newSet, "wake must be on old == nil && new != nil"
	case wake:
		return oldNil, "wake must be under an observed nil link (a second Done on an already released group panics)"
	default:
		return oldSet && newNil, "re-arm must be on old != nil && new == nil"
	}
}

func c49WaitLoops(c *engine.Ctx, p *engine.Prog, eF, lF map[string]*types.Var) {
	const P = "tm2/pkg/clist."
	const rule = "wait-loop"
	for _, x := range []struct {
		fn       string
		link, wg *types.Var
		removed  *types.Var
		mu       *types.Var
	}{
		{P + "(*CElement).NextWait", eF["next"], eF["nextWg"], eF["removed"], eF["mtx"]},
		{P + "(*CElement).PrevWait", eF["prev"], eF["prevWg"], eF["removed"], eF["mtx"]},
		{P + "(*CList).FrontWait", lF["head"], lF["wg"], nil, lF["mtx"]},
		{P + "(*CList).BackWait", lF["tail"], lF["wg"], nil, lF["mtx"]},
	} {
		f := c.MustFunc(x.fn)
		if f == nil {
			continue
		}
		info := f.Info()
		g := f.Graph()
		waits := f.CallsTo("sync.(*WaitGroup).Wait")
		if len(waits) != 1 {
			c.Check(rule, f.Name+" one Wait call", f.Pos(), false, "expected exactly one WaitGroup.Wait()")
			continue
		}
		w := waits[0]
		loops := niEnclosingLoops(f, w.Node)
		if len(loops) == 0 {
			c.Check(rule, f.Name+" Wait inside a re-check loop", w.Pos(), false, "Wait() must be followed by re-reading the link")
			continue
		}
		head := niLoopHead(g, loops[len(loops)-1])
		// snapshot locals
		snap := func(field *types.Var) (types.Object, *engine.Site) {
			var o types.Object
			var site *engine.Site
			engine.InspectBody(f, func(n ast.Node) {
				as, ok := n.(*ast.AssignStmt)
				if !ok || len(as.Lhs) != 1 || len(as.Rhs) != 1 || !niSelField(info, as.Rhs[0], field) {
					return
				}
				o, site = engine.ObjOf(info, as.Lhs[0]), f.SiteOf(as)
			})
			return o, site
		}
		linkO, linkS := snap(x.link)
		wgO, wgS := snap(x.wg)
		var remO types.Object
		var remS *engine.Site
		if x.removed != nil {
			remO, remS = snap(x.removed)
		}
		okSnap := linkS != nil && wgS != nil && linkS.Block == wgS.Block && (x.removed == nil || (remS != nil && remS.Block == linkS.Block))
		// no unlock between the snapshot reads
		if okSnap {
			_, unlocks, _ := c49MutexSites(f, niRecv(f), x.mu)
			lo, hi := linkS.Idx, linkS.Idx
			for _, s := range []*engine.Site{wgS, remS} {
				if s != nil {
					lo, hi = min(lo, s.Idx), max(hi, s.Idx)
				}
			}
			for _, u := range unlocks {
				if u.Block == linkS.Block && lo < u.Idx && u.Idx < hi {
					okSnap = false
				}
			}
		}
		c.Check(rule, f.Name+" link, wait group (and removed) read in one locked section", f.Pos(), okSnap, "the snapshot must be consistent: all reads in the same critical section")
		c.Check(rule, f.Name+" waits on the snapshot of the matching wait group", w.Pos(), wgO != nil && engine.ObjOf(info, niRecvExpr(w.Call)) == wgO, "Wait() must be called on the group read together with the link, not on a field re-read after unlocking")
		// after Wait: back to the loop head, no return without re-check
		okBack := head != nil
		if head != nil {
			reach := false
			for _, sc := range w.Block.Succs {
				if g.Reach(sc, head, nil) {
					reach = true
				}
			}
			okBack = reach
			for _, rb := range g.ReturnBlocks() {
				av := map[*niCfgBlock]bool{head: true}
				for _, sc := range w.Block.Succs {
					if sc == rb || g.Reach(sc, rb, av) {
						okBack = false
					}
				}
			}
		}
		c.Check(rule, f.Name+" re-checks after waking", w.Pos(), okBack, "control must return to the loop head after Wait()")
		// Wait only when link == nil (&& !removed); return value = link, gated by link != nil || removed
		var wNil, wNotRem bool
		for _, ft := range niFacts(g, w) {
			if cmp, ok := niAsCmp(ft); ok && engine.ObjOf(info, cmp.X) == linkO && isNil(cmp.Y) && cmp.Op == token.EQL {
				wNil = true
			}
			if remO != nil && engine.ObjOf(info, ft.Expr) == remO && !ft.Holds {
				wNotRem = true
			}
		}
		c.Check(rule, f.Name+" blocks only while the link is nil"+map[bool]string{true: " and the element is not removed", false: ""}[x.removed != nil], w.Pos(), wNil && (x.removed == nil || wNotRem), "the return test must be `link != nil"+map[bool]string{true: " || removed", false: ""}[x.removed != nil]+"`; a removed element's group is already released, so waiting on it spins or blocks forever")
		nret := 0
		for _, r := range niReturns(f) {
			rs := r.Node.(*ast.ReturnStmt)
			if len(rs.Results) != 1 {
				continue
			}
			nret++
			c.Check(rule, f.Name+" returns the snapshot link", r.Pos(), engine.ObjOf(info, rs.Results[0]) == linkO && linkO != nil, "")
		}
		c.Floor(rule+" "+f.Name, nret, 1)
	}
}

func c49Remove(c *engine.Ctx, p *engine.Prog, f *engine.Fn, lF map[string]*types.Var) {
	const P = "tm2/pkg/clist."
	const rule = "remove-order"
	info := f.Info()
	g := f.Graph()
	e := paramObj(f, 0)
	recv := niRecv(f)
	pv, pobjs := niBoundCall(f, P+"(*CElement).Prev")
	nx, nobjs := niBoundCall(f, P+"(*CElement).Next")
	sr := f.CallsTo(P + "(*CElement).SetRemoved")
	sn := f.CallsTo(P + "(*CElement).SetNext")
	sp := f.CallsTo(P + "(*CElement).SetPrev")
	if pv == nil || nx == nil || len(pobjs) != 1 || len(nobjs) != 1 || len(sr) != 1 || len(sn) != 1 || len(sp) != 1 {
		c.Undecided(rule, f.Name, "expected one each of e.Prev(), e.Next(), SetNext, SetPrev, SetRemoved")
		return
	}
	prev, next := pobjs[0], nobjs[0]
	okSrc := engine.ObjOf(info, niRecvExpr(pv.Call)) == e && engine.ObjOf(info, niRecvExpr(nx.Call)) == e
	c.Check(rule, f.Name+" neighbours read from the removed element", f.Pos(), okSrc, "")
	fact := func(s *engine.Site, o types.Object, op token.Token) bool {
		for _, ft := range niFacts(g, s) {
			if cmp, ok := niAsCmp(ft); ok && engine.ObjOf(info, cmp.X) == o && isNil(cmp.Y) && cmp.Op == op && len(niGateFacts(ft.Gate)) == 1 {
				return true
			}
		}
		return false
	}
	okFwd := engine.ObjOf(info, niRecvExpr(sn[0].Call)) == prev && len(sn[0].Call.Args) == 1 && engine.ObjOf(info, sn[0].Call.Args[0]) == next && fact(sn[0], prev, token.NEQ)
	okBwd := engine.ObjOf(info, niRecvExpr(sp[0].Call)) == next && len(sp[0].Call.Args) == 1 && engine.ObjOf(info, sp[0].Call.Args[0]) == prev && fact(sp[0], next, token.NEQ)
	c.Check(rule, f.Name+" prev.SetNext(next) when prev != nil", sn[0].Pos(), okFwd, "the predecessor must skip the removed element")
	c.Check(rule, f.Name+" next.SetPrev(prev) when next != nil", sp[0].Pos(), okBwd, "the successor must skip the removed element")
	var headS, tailS *engine.Site
	for _, x := range []struct {
		fld  *types.Var
		val  types.Object
		cond types.Object
		name string
		out  **engine.Site
	}{{lF["head"], next, prev, "head = next when prev == nil", &headS}, {lF["tail"], prev, next, "tail = prev when next == nil", &tailS}} {
		ok := false
		for _, w := range p.FieldWrites(x.fld) {
			if w.Fn != f || !w.Direct {
				continue
			}
			as, isAs := w.Node.(*ast.AssignStmt)
			s := f.SiteOf(w.Node)
			if isAs && len(as.Rhs) == 1 && engine.ObjOf(info, as.Rhs[0]) == x.val && s != nil && fact(s, x.cond, token.EQL) {
				ok = true
				*x.out = s
			}
		}
		c.Check(rule, f.Name+" "+x.name, f.Pos(), ok, "")
	}
	// SetRemoved on e, after all relinks, under the list lock
	okMark := engine.ObjOf(info, niRecvExpr(sr[0].Call)) == e
	for _, r := range niReturns(f) {
		if !g.MustPass(r, []*engine.Site{sr[0]}) {
			okMark = false // some return skips SetRemoved
		}
	}
	for _, s := range []*engine.Site{sn[0], sp[0], headS, tailS} {
		if s == nil || g.ReachableAfter(sr[0], s) || !g.ReachableAfter(s, sr[0]) {
			okMark = false
		}
	}
	c.Check(rule, f.Name+" element marked removed after it is unlinked", sr[0].Pos(), okMark, "SetRemoved() must follow every relink so that no traversal is handed a removed element as next")
	for _, s := range []*engine.Site{sn[0], sp[0], sr[0]} {
		ok, why := c49Held(f, recv, lF["mtx"], s, true)
		c.Check(rule, f.Name+" "+strings.TrimPrefix(s.CalleeName(), P+"(*CElement).")+" under the list lock", s.Pos(), ok, why)
	}
	// len-- exactly once, unconditionally
	nl := 0
	okLen := true
	for _, w := range p.FieldWrites(lF["len"]) {
		if w.Fn != f {
			continue
		}
		nl++
		inc, ok := w.Node.(*ast.IncDecStmt)
		ws := f.SiteOf(w.Node)
		if !ok || inc.Tok != token.DEC || ws == nil || len(niEnclosingLoops(f, w.Node)) != 0 {
			okLen = false
			continue
		}
		for _, r := range niReturns(f) {
			if !g.MustPass(r, []*engine.Site{ws}) {
				okLen = false
			}
		}
	}
	c.Check(rule, f.Name+" len-- exactly once", f.Pos(), okLen && nl == 1, "")
	c.Floor(rule, 8, 8)
}

func c49Push(c *engine.Ctx, p *engine.Prog, f *engine.Fn, lF map[string]*types.Var) {
	const P = "tm2/pkg/clist."
	const rule = "push-order"
	info := f.Info()
	g := f.Graph()
	recv := niRecv(f)
	// the new element
	var e types.Object
	engine.InspectBody(f, func(n ast.Node) {
		as, ok := n.(*ast.AssignStmt)
		if !ok || len(as.Lhs) != 1 || len(as.Rhs) != 1 {
			return
		}
		if u, ok := ast.Unparen(as.Rhs[0]).(*ast.UnaryExpr); ok && u.Op == token.AND {
			if cl, ok := u.X.(*ast.CompositeLit); ok && engine.TypeName(info.TypeOf(cl)) == P+"CElement" {
				e = engine.ObjOf(info, as.Lhs[0])
			}
		}
	})
	sp := f.CallsTo(P + "(*CElement).SetPrev")
	sn := f.CallsTo(P + "(*CElement).SetNext")
	if e == nil || len(sp) != 1 || len(sn) != 1 {
		c.Undecided(rule, f.Name, "new element literal / SetPrev / SetNext not found")
		return
	}
	okInit := engine.ObjOf(info, niRecvExpr(sp[0].Call)) == e && len(sp[0].Call.Args) == 1 && niSelField(info, sp[0].Call.Args[0], lF["tail"])
	okPub := niSelField(info, niRecvExpr(sn[0].Call), lF["tail"]) && len(sn[0].Call.Args) == 1 && engine.ObjOf(info, sn[0].Call.Args[0]) == e
	c.Check(rule, f.Name+" e.SetPrev(old tail) before oldTail.SetNext(e)", sn[0].Pos(), okInit && okPub && g.Dominates(sp[0], sn[0]), "the new element must be fully linked backwards before forward traversals can reach it")
	// tail = e after publication; head = e and tail = e for the first element
	var tailAfter, headFirst, tailFirst bool
	for _, w := range p.FieldWrites(lF["tail"]) {
		if w.Fn != f || !w.Direct {
			continue
		}
		as, ok := w.Node.(*ast.AssignStmt)
		s := f.SiteOf(w.Node)
		if !ok || len(as.Rhs) != 1 || engine.ObjOf(info, as.Rhs[0]) != e || s == nil {
			continue
		}
		if g.Dominates(sn[0], s) {
			tailAfter = true
		}
		for _, ft := range niFacts(g, s) {
			if cmp, ok := niAsCmp(ft); ok && niSelField(info, cmp.X, lF["tail"]) && isNil(cmp.Y) && cmp.Op == token.EQL {
				tailFirst = true
			}
		}
	}
	for _, w := range p.FieldWrites(lF["head"]) {
		if w.Fn != f || !w.Direct {
			continue
		}
		as, ok := w.Node.(*ast.AssignStmt)
		s := f.SiteOf(w.Node)
		if !ok || len(as.Rhs) != 1 || engine.ObjOf(info, as.Rhs[0]) != e || s == nil {
			continue
		}
		for _, ft := range niFacts(g, s) {
			if cmp, ok := niAsCmp(ft); ok && niSelField(info, cmp.X, lF["tail"]) && isNil(cmp.Y) && cmp.Op == token.EQL {
				headFirst = true
			}
		}
	}
	c.Check(rule, f.Name+" tail = e after publication", f.Pos(), tailAfter, "")
	c.Check(rule, f.Name+" first element becomes head and tail", f.Pos(), headFirst && tailFirst, "")
	// SetNext on a non-nil tail only
	okNN := false
	for _, ft := range niFacts(g, sn[0]) {
		if cmp, ok := niAsCmp(ft); ok && niSelField(info, cmp.X, lF["tail"]) && isNil(cmp.Y) && cmp.Op == token.NEQ {
			okNN = true
		}
	}
	c.Check(rule, f.Name+" appends behind a non-nil tail", sn[0].Pos(), okNN, "")
	// len++ once, after the max-length panic test
	nl := 0
	okLen := true
	for _, w := range p.FieldWrites(lF["len"]) {
		if w.Fn != f {
			continue
		}
		nl++
		inc, ok := w.Node.(*ast.IncDecStmt)
		if !ok || inc.Tok != token.INC {
			okLen = false
		}
	}
	c.Check(rule, f.Name+" len++ exactly once", f.Pos(), okLen && nl == 1, "")
	for _, s := range []*engine.Site{sp[0], sn[0]} {
		ok, why := c49Held(f, recv, lF["mtx"], s, true)
		c.Check(rule, f.Name+" "+strings.TrimPrefix(s.CalleeName(), P+"(*CElement).")+" under the list lock", s.Pos(), ok, why)
	}
	c.Floor(rule, 7, 7)
}

// c49CallersOf lists the call sites of a declared function inside the loaded
// packages; complete=false when it is also referenced other than by a call.
func c49CallersOf(p *engine.Prog, fn *engine.Fn) (sites []*engine.Site, complete bool) {
	complete = true
	if fn.Obj == nil {
		return nil, false
	}
	for _, r := range p.RefsTo(func(o types.Object) bool { return o == types.Object(fn.Obj) }) {
		if r.Fn == nil || !r.IsCall {
			complete = false
			continue
		}
		found := false
		for _, s := range r.Fn.Calls() {
			if s.Call != nil && s.Call.Pos() <= r.Ident.Pos() && r.Ident.End() <= s.Call.End() {
				if fo, _ := s.Callee.(*types.Func); fo != nil && fo.Origin() == fn.Obj.Origin() {
					sites = append(sites, s)
					found = true
				}
			}
		}
		if !found {
			complete = false
		}
	}
	return
}

// c49HeldDeep: the mutex is held at s in fv, or fv is a private helper method
// that never locks itself and every one of its callers calls it on its own
// receiver with the mutex held (helper-transparent lock rule).
func c49HeldDeep(p *engine.Prog, fv *engine.Fn, recv types.Object, mu *types.Var, s *engine.Site, needWrite bool, depth int) (bool, string) {
	ok, why := c49Held(fv, recv, mu, s, needWrite)
	if ok || depth <= 0 || fv.Obj == nil || fv.Obj.Exported() {
		return ok, why
	}
	if locks, _, _ := c49MutexSites(fv, recv, mu); len(locks) > 0 {
		return ok, why // it does its own locking: judged on its own
	}
	sites, complete := c49CallersOf(p, fv)
	if !complete || len(sites) == 0 {
		return false, why
	}
	for _, cs := range sites {
		cf := cs.Fn
		crecv := niRecv(cf.Root())
		if crecv == nil || cf != cf.Root() || engine.ObjOf(cf.Info(), niRecvExpr(cs.Call)) != crecv {
			return false, "private helper " + fv.Name + " is called on something other than the caller's receiver in " + cf.Root().Name
		}
		if ok2, why2 := c49HeldDeep(p, cf, crecv, mu, cs, needWrite, depth-1); !ok2 {
			return false, "caller " + cf.Name + " of private helper: " + why2
		}
	}
	return true, "private helper: every caller holds the receiver's " + mu.Name()
}

// c49LinkFactDeep: the wake / re-arm gating holds at s in f, or f is a private
// helper and it holds at every call site of f (in the caller's own variables).
func c49LinkFactDeep(p *engine.Prog, f *engine.Fn, s *engine.Site, link *types.Var, isList, wake bool, depth int) (bool, string) {
	ok, why := c49LinkFact(f, f.Graph(), s, link, isList, wake)
	if ok || depth <= 0 || f.Obj == nil || f.Obj.Exported() || f != f.Root() {
		return ok, why
	}
	sites, complete := c49CallersOf(p, f)
	if !complete || len(sites) == 0 {
		return false, why
	}
	for _, cs := range sites {
		if ok2, why2 := c49LinkFactDeep(p, cs.Fn, cs, link, isList, wake, depth-1); !ok2 {
			return false, "at the call of " + f.Name + " in " + cs.Fn.Root().Name + ": " + why2
		}
	}
	return true, "gated at every call site of the private helper"
}
