package checks

import (
	"go/ast"
	"go/token"
	"go/types"
	"strings"

	"gnoverif/engine"

	"golang.org/x/tools/go/cfg"
)

// C15 — only correctly signed, fresh transactions take effect.
func init() {
	register("C15", c15)
	meta("C15", Meta{
		Text:      "Decides structural necessary conditions on the auth ante closure, std.Tx and BaseApp.runTx: (1) every SetSequence / SetAccount / SetSessionAccount of the ante handler, and the fall-through to the next signature, is reached only on the branch where `!simulate && !pubKey.VerifyBytes(signBytes, sig)` is false, with no other conjunct; (2) every `continue` that skips a signature requires !opts.VerifyGenesisSignatures; (3) the verified bytes come from tx.GetSignBytes(ChainID(), accNum, accSeq) with accNum/accSeq read only from the signing account whose sequence is then incremented, and Tx.GetSignBytes puts its three parameters and the tx's Fee, Msgs, Memo into every field of SignDoc; (4) a tx-supplied public key is bound to the account: address comparison for a first use by a master account, byte equality otherwise, each alone gating an abort; (5) the new sequence is GetSequence()+1 of that same account and that account is what is persisted; (6) every return of the closure aborts (third result true) except one success return placed after the signature loop; the recover closure sets abort with every result it builds; Tx.ValidateBasic (checked before the loop) rejects a signature count different from the signer count; (7) in runTx the ante handler runs on a cache-wrapped context, `if abort` alone returns, and no MultiWrite/WriteCheckpoint/Write call nor a defer containing one can execute before that return or be registered before the ante call. Level 'other'.",
		Note:      "Not covered: the signature schemes (C44), amino decoding of the tx, that GetSigners lists every account a message debits, session-key limits (C16), replay across chains sharing a chain id. simulate mode skips verification by design and never commits (runTx returns before MultiWrite when mode != Deliver/Check).",
		Technique: "go/cfg checked-guard dominance on the closure, condition-set extraction, AST value-flow on single-assignment locals, struct-field exhaustiveness, reachability of write sites before the abort return",
		Ref:       "DESIGN.md §2 C15",
	})
	const F = "tm2/pkg/sdk/auth/ante.go"
	mutants("C15",
		Mutant{"verify-weakened", F, "if !simulate && !pubKey.VerifyBytes(signBytes, sig.Signature) {", "if !simulate && !isGenesis && !pubKey.VerifyBytes(signBytes, sig.Signature) {", "verify-gates"},
		Mutant{"skip-without-flag", F, "if replay, _ := ctx.Value(GenesisReplayKey{}).(bool); replay {\n\t\t\t\t\tcontinue\n\t\t\t\t}\n\t\t\t}", "}\n\t\t\tif replay, _ := ctx.Value(GenesisReplayKey{}).(bool); replay {\n\t\t\t\tcontinue\n\t\t\t}", "skip-needs-flag"},
		Mutant{"signbytes-wrong-account", F, "accSeq = sigAcc.GetSequence()", "accSeq = signerAccs[0].GetSequence()", "signdoc-flow"},
		Mutant{"address-check-weakened", F, "if pubKey.Address() != sigAcc.GetAddress() {", "if pubKey.Address() != sigAcc.GetAddress() && isGenesis {", "pubkey-bound"},
		Mutant{"pubkey-equality-dropped", F, "if !bytes.Equal(pubKey.Bytes(), sigAcc.GetPubKey().Bytes()) {", "if !bytes.Equal(pubKey.Bytes(), sigAcc.GetPubKey().Bytes()) && simulate {", "pubkey-bound"},
		Mutant{"sequence-not-advanced", F, "sigAcc.SetSequence(sigAcc.GetSequence() + 1)\n\t\t\t\tak.SetAccount(newCtx, signerAccs[i])", "sigAcc.SetSequence(sigAcc.GetSequence() + 0)\n\t\t\t\tak.SetAccount(newCtx, signerAccs[i])", "sequence-plus-one"},
		Mutant{"failure-without-abort", F, "return newCtx, abciResult(std.ErrInvalidPubKey(\"PubKey not found\")), true", "return newCtx, abciResult(std.ErrInvalidPubKey(\"PubKey not found\")), false", "abort-on-failure"},
		Mutant{"signdoc-fields-swapped", "tm2/pkg/std/tx.go", "Sequence:      sequence,", "Sequence:      accountNumber,", "signdoc-fields"},
		Mutant{"sig-count-unchecked", "tm2/pkg/std/tx.go", "if len(stdSigs) != len(tx.GetSigners()) {", "if len(stdSigs) > len(tx.GetSigners()) {", "sig-count"},
		Mutant{"abort-keeps-fee", "tm2/pkg/sdk/baseapp.go", "if abort {\n\t\t\treturn result\n\t\t}", "if abort {\n\t\t\tmsCache.MultiWrite()\n\t\t\treturn result\n\t\t}", "abort-discards"},
		Mutant{"abort-ignored-in-check", "tm2/pkg/sdk/baseapp.go", "if abort {\n\t\t\treturn result\n\t\t}", "if abort && mode != RunTxModeCheck {\n\t\t\treturn result\n\t\t}", "abort-discards"},
	)
}

const (
	c15A      = "tm2/pkg/sdk/auth."
	c15Verify = "tm2/pkg/crypto.(PubKey).VerifyBytes"
)

func c15(c *engine.Ctx) {
	c.Explain = "Decides on NewAnteHandler's closure, std.Tx and BaseApp.runTx: state-changing calls of phase 3 (SetSequence, SetAccount, SetSessionAccount) and the fall-through of the signature loop are gated by the VerifyBytes test whose only other conjunct is !simulate; skipping `continue`s require !VerifyGenesisSignatures; sign bytes = tx.GetSignBytes(ChainID(), accNum, accSeq) with accNum/accSeq from the signing account, SignDoc fully populated from those parameters; tx-supplied pubkeys are bound to the account by address / byte equality; sequence := GetSequence()+1 on the same account, which is the one persisted; all non-success returns abort, the only success return follows the loop; ValidateBasic enforces #signatures == #signers before the loop; runTx returns on abort before any MultiWrite/WriteCheckpoint and before the checkpoint-flush defer is registered, the ante handler runs on a cache wrap. Not covered: signature schemes, decoding, GetSigners completeness, session limits."
	p := c.Load("tm2/pkg/sdk/auth", "tm2/pkg/sdk", "tm2/pkg/std")
	if p == nil {
		return
	}
	outer := c.MustFunc(c15A + "NewAnteHandler")
	if outer == nil {
		return
	}
	// the handler closure: the literal returned by NewAnteHandler
	var f *engine.Fn
	for _, l := range outer.Lits {
		if l.Type.Results != nil && len(l.Type.Results.List) == 3 && l.Type.Params.NumFields() == 3 {
			f = l
		}
	}
	if f == nil {
		c.Undecided("anchor", c15A+"NewAnteHandler closure", "the (ctx, tx, simulate) -> (newCtx, res, abort) literal was not found")
		return
	}
	info := f.Info()
	g := f.Graph()
	simulate := paramObj(f, 2)
	txP := paramObj(f, 1)

	// locate the signature loop: a range statement containing the VerifyBytes call
	verifies := f.CallsTo(c15Verify)
	if len(verifies) != 1 {
		c.Undecided("verify-gates", f.Name, "expected exactly one PubKey.VerifyBytes call in the ante closure, found "+authdItoa(len(verifies)))
		return
	}
	vb := verifies[0]
	var loop *ast.RangeStmt
	engine.InspectBody(f, func(n ast.Node) {
		if rs, ok := n.(*ast.RangeStmt); ok && containsExpr(rs.Body, vb.Call) {
			if loop == nil || containsExpr(loop.Body, rs) {
				loop = rs
			}
		}
	})
	if loop == nil {
		c.Undecided("verify-gates", f.Name, "VerifyBytes is not inside a range loop")
		return
	}
	// the loop ranges over tx.GetSignatures()
	{
		src := loop.X
		if o := engine.ObjOf(info, src); o != nil {
			if d := authdAssignsTo(f, o); len(d) == 1 && d[0] != nil {
				src = d[0]
			}
		}
		call, is := authdCalleeIs(info, src, "tm2/pkg/std.(Tx).GetSignatures")
		ok := false
		if is {
			if se, isSel := ast.Unparen(call.Fun).(*ast.SelectorExpr); isSel && engine.ObjOf(info, se.X) == txP {
				ok = true
			}
		}
		c.Check("verify-gates", f.Name+" loop over tx.GetSignatures()", loop.Pos(), ok, "the verification loop must range over all signatures of the transaction")
	}

	// ---- (1) verify-gates ----
	var targets []*engine.Site
	var tnames []string
	for _, s := range f.CallsTo("tm2/pkg/std.(Account).SetSequence", "tm2/pkg/std.(AccountUnrestricter).SetSequence", ".SetSequence",
		c15A+"(AccountKeeper).SetAccount", c15A+"(AccountKeeper).SetSessionAccount", c15A+"(AccountKeeperI).SetAccount", c15A+"(AccountKeeperI).SetSessionAccount") {
		targets = append(targets, s)
		tnames = append(tnames, authdShort(s.CalleeName()))
	}
	c.Floor("verify-gates", len(targets), 3)
	if n := len(loop.Body.List); n > 0 {
		if st := authdStmtSite(f, loop.Body.List[n-1]); st != nil {
			targets = append(targets, st)
			tnames = append(tnames, "end of loop body")
		} else {
			c.Undecided("verify-gates", f.Name+" end of loop body", "last statement of the signature loop not located in the CFG")
		}
	}
	ord := map[string]int{}
	for i, t := range targets {
		ord[tnames[i]]++
		key := f.Name + " " + tnames[i] + "#" + authdItoa(ord[tnames[i]])
		if !containsExpr(loop.Body, t.Node) {
			c.Check("verify-gates", key, t.Pos(), false, "state-changing account call outside the signature loop")
			continue
		}
		r := g.CheckedGuard(vb, t)
		ok, why := false, r.Why
		if r.OK {
			ok, why = c15VerifyCond(info, r.Cond, r.OnTrue, simulate, vb.Call)
		}
		c.Check("verify-gates", key, t.Pos(), ok, why)
	}

	// ---- (2) skip-needs-flag ----
	nskip := 0
	ast.Inspect(loop.Body, func(n ast.Node) bool {
		if _, isLit := n.(*ast.FuncLit); isLit {
			return false
		}
		// nested loops own their continues
		if inner, isLoop := n.(*ast.RangeStmt); isLoop && inner != loop {
			return false
		}
		if _, isFor := n.(*ast.ForStmt); isFor {
			return false
		}
		br, ok := n.(*ast.BranchStmt)
		if !ok || (br.Tok != token.CONTINUE && br.Tok != token.BREAK && br.Tok != token.GOTO) {
			return true
		}
		nskip++
		flag := false
		wantFlag := func(fn *engine.Fn, fc authdFact) bool {
			se, isSel := ast.Unparen(fc.E).(*ast.SelectorExpr)
			if !isSel || !fc.Neg || se.Sel.Name != "VerifyGenesisSignatures" {
				return false
			}
			v, isVar := fn.Info().ObjectOf(se.Sel).(*types.Var)
			return isVar && v.IsField()
		}
		for _, fc := range authdEnclosingFacts(loop.Body, br) {
			if authdFactImplied(f, fc, wantFlag, 2) {
				flag = true
			}
		}
		c.Check("skip-needs-flag", f.Name+" "+br.Tok.String()+"#"+authdItoa(nskip), br.Pos(), flag,
			"a signature may be skipped only when the operator disabled genesis signature verification (!opts.VerifyGenesisSignatures)")
		return true
	})
	c.Floor("skip-needs-flag", nskip, 1)

	// ---- (3) signdoc-flow ----
	var sigAcc types.Object
	{
		ok, why := false, ""
		var sb ast.Expr
		if len(vb.Call.Args) == 2 {
			sb = vb.Call.Args[0]
		}
		var gsb *ast.CallExpr
		if o := engine.ObjOf(info, sb); o != nil {
			if d := authdAssignsTo(f, o); len(d) == 1 && d[0] != nil {
				gsb, _ = authdCalleeIs(info, d[0], "tm2/pkg/std.(Tx).GetSignBytes")
				if _, is := authdCalleeIs(info, d[0], "tm2/pkg/std.(Tx).GetSignBytes"); !is {
					gsb = nil
				}
			}
		}
		switch {
		case gsb == nil:
			why = "the verified message is not the single result of tx.GetSignBytes(...)"
		case len(gsb.Args) != 3:
			why = "unexpected GetSignBytes arity"
		default:
			ok = true
			if se, isSel := ast.Unparen(gsb.Fun).(*ast.SelectorExpr); !isSel || engine.ObjOf(info, se.X) != txP {
				ok, why = false, "GetSignBytes is not called on the transaction being checked"
			}
			if call, is := ast.Unparen(gsb.Args[0]).(*ast.CallExpr); !is || !strings.HasSuffix(authdCalleeName(info, call), ".ChainID") {
				ok, why = false, "the chain id in the sign bytes is not ctx.ChainID()"
			}
			for i, getter := range []string{"GetAccountNumber", "GetSequence"} {
				o := engine.ObjOf(info, gsb.Args[1+i])
				if o == nil {
					ok, why = false, "sign-bytes argument "+getter+" is not a local variable"
					continue
				}
				defs := authdAssignsTo(f, o)
				n := 0
				for _, d := range defs {
					if d == nil {
						ok, why = false, "sign-bytes argument is modified in place"
						continue
					}
					call, is := ast.Unparen(d).(*ast.CallExpr)
					if !is || !strings.HasSuffix(authdCalleeName(info, call), "."+getter) {
						ok, why = false, "`"+o.Name()+"` is assigned from `"+engine.ExprString(d)+"`, not from the signing account's "+getter+"()"
						continue
					}
					se, _ := ast.Unparen(call.Fun).(*ast.SelectorExpr)
					var recv types.Object
					if se != nil {
						recv = engine.ObjOf(info, se.X)
					}
					if recv == nil || (sigAcc != nil && recv != sigAcc) {
						ok, why = false, "`"+o.Name()+"` is read from `"+engine.ExprString(call.Fun)+"`, a different account than the other sign-doc value"
						continue
					}
					sigAcc = recv
					n++
				}
				if n == 0 && ok {
					ok, why = false, "`"+o.Name()+"` is never read from the account"
				}
			}
			// the pubkey verifying must be tied to the same account: receiver of VerifyBytes is checked in (4)
		}
		if ok {
			why = "VerifyBytes(tx.GetSignBytes(ChainID(), " + sigAcc.Name() + ".GetAccountNumber(), " + sigAcc.Name() + ".GetSequence()), sig)"
		}
		c.Check("signdoc-flow", f.Name, vb.Pos(), ok, why)
		// the signature verified is the loop's element
		okSig := false
		if len(vb.Call.Args) == 2 {
			if se, isSel := ast.Unparen(vb.Call.Args[1]).(*ast.SelectorExpr); isSel && se.Sel.Name == "Signature" && loop.Value != nil && engine.ObjOf(info, se.X) == engine.ObjOf(info, loop.Value) {
				okSig = true
			}
		}
		c.Check("signdoc-flow", f.Name+" signature operand", vb.Pos(), okSig, "the signature verified must be the current element of the signature loop")
	}
	// SignDoc exhaustiveness in Tx.GetSignBytes
	if gs := c.MustFunc("tm2/pkg/std.(Tx).GetSignBytes"); gs != nil {
		gi := gs.Info()
		want := map[string]func(ast.Expr) bool{
			"ChainID":       func(e ast.Expr) bool { return engine.ObjOf(gi, e) == paramObj(gs, 0) },
			"AccountNumber": func(e ast.Expr) bool { return engine.ObjOf(gi, e) == paramObj(gs, 1) },
			"Sequence":      func(e ast.Expr) bool { return engine.ObjOf(gi, e) == paramObj(gs, 2) },
		}
		recv := authdOperands(gs)[0]
		var lit *ast.CompositeLit
		litFn := gs                  // the function the literal lives in
		var ctorCall *ast.CallExpr   // the call of the constructor in gs, when the literal moved there
		isSD := func(fn *engine.Fn, n ast.Node) bool {
			cl, ok := n.(*ast.CompositeLit)
			return ok && authdIsNamed(fn.Info().TypeOf(cl), "tm2/pkg/std.SignDoc")
		}
		if ds := gs.DeepFind(2, isSD); len(ds) == 1 {
			lit = ds[0].Inner.Node.(*ast.CompositeLit)
			litFn = ds[0].Inner.Fn
			if litFn != gs {
				if len(ds[0].Chain) == 1 {
					ctorCall = ds[0].Outer.Call
				} else {
					lit = nil // more than one helper level: not followed
				}
			}
		}
		// role: the object of gs (parameter or receiver) that e denotes
		role := func(e ast.Expr) types.Object {
			if litFn == gs {
				return engine.ObjOf(gi, e)
			}
			if _, isID := ast.Unparen(e).(*ast.Ident); !isID {
				return nil
			}
			o := engine.ObjOf(litFn.Info(), e)
			if o == nil || ctorCall == nil || len(authdAssignsTo(litFn, o)) != 0 {
				return nil
			}
			var args []ast.Expr
			if se, ok := ast.Unparen(ctorCall.Fun).(*ast.SelectorExpr); ok {
				if sel, ok := gi.Selections[se]; ok && sel.Kind() == types.MethodVal {
					args = append(args, se.X)
				}
			}
			args = append(args, ctorCall.Args...)
			for i, q := range authdOperands(litFn) {
				if q == o && i < len(args) {
					return engine.ObjOf(gi, args[i])
				}
			}
			return nil
		}
		want = map[string]func(ast.Expr) bool{
			"ChainID":       func(e ast.Expr) bool { return role(e) == paramObj(gs, 0) && paramObj(gs, 0) != nil },
			"AccountNumber": func(e ast.Expr) bool { return role(e) == paramObj(gs, 1) && paramObj(gs, 1) != nil },
			"Sequence":      func(e ast.Expr) bool { return role(e) == paramObj(gs, 2) && paramObj(gs, 2) != nil },
		}
		sd := p.Named("tm2/pkg/std.SignDoc")
		if lit == nil || sd == nil {
			c.Undecided("signdoc-fields", gs.Name, "SignDoc literal not found")
		} else {
			st := sd.Underlying().(*types.Struct)
			got := map[string]ast.Expr{}
			for _, el := range lit.Elts {
				if kv, ok := el.(*ast.KeyValueExpr); ok {
					got[engine.ExprString(kv.Key)] = kv.Value
				}
			}
			for i := 0; i < st.NumFields(); i++ {
				fn := st.Field(i).Name()
				v, present := got[fn]
				ok, why := present, "field not set: it would not be covered by the signature"
				if present {
					if chk, special := want[fn]; special {
						ok, why = chk(v), "must be the corresponding parameter of GetSignBytes"
					} else {
						se, isSel := ast.Unparen(v).(*ast.SelectorExpr)
						ok = isSel && se.Sel.Name == fn && role(se.X) == recv && recv != nil
						why = "must be the transaction's own " + fn
					}
				}
				c.Check("signdoc-fields", gs.Name+" SignDoc."+fn, lit.Pos(), ok, why)
			}
			c.Floor("signdoc-fields", st.NumFields(), 6)
		}
		// the payload is what is returned
		okRet := false
		for _, rs := range authdReturns(gs) {
			for _, r := range rs.Results {
				if call, is := authdCalleeIs(gi, r, "tm2/pkg/std.GetSignaturePayload"); is && len(call.Args) == 1 && lit != nil {
					arg := authdResolveLocal(gs, call.Args[0])
					if containsExpr(arg, lit) || (ctorCall != nil && ast.Unparen(arg) == ast.Expr(ctorCall)) {
						okRet = true
					}
				}
			}
		}
		c.Check("signdoc-fields", gs.Name+" returns GetSignaturePayload(SignDoc)", gs.Pos(), okRet, "")
	}

	// ---- (4) pubkey-bound ----
	c15PubKeyBound(c, p, f, loop, vb, sigAcc)

	// ---- (5) sequence-plus-one & persisted ----
	{
		seqs := f.CallsTo(".SetSequence")
		c.Floor("sequence-plus-one", len(seqs), 1)
		persistPats := []string{c15A + "(AccountKeeper).SetAccount", c15A + "(AccountKeeper).SetSessionAccount", c15A + "(AccountKeeperI).SetAccount", c15A + "(AccountKeeperI).SetSessionAccount"}
		storesAcc := func(w *engine.Site) bool {
			last := w.Call.Args[len(w.Call.Args)-1]
			if engine.ObjOf(info, last) == sigAcc && sigAcc != nil {
				return true
			}
			for _, d := range authdAssignsTo(f, sigAcc) {
				if d != nil && authdSameExpr(d, last) {
					return true
				}
			}
			return false
		}
		for i, s := range seqs {
			ok, why := false, "the new sequence must be <account>.GetSequence() + 1 on the signing account"
			se, _ := ast.Unparen(s.Call.Fun).(*ast.SelectorExpr)
			if se != nil && len(s.Call.Args) == 1 && engine.ObjOf(info, se.X) == sigAcc && sigAcc != nil {
				arg := authdResolveLocal(f, s.Call.Args[0])
				if be, isB := ast.Unparen(arg).(*ast.BinaryExpr); isB && be.Op == token.ADD {
					x, y := be.X, be.Y
					if _, isC := authdConstInt(info, x); isC {
						x, y = y, x
					}
					k, isK := authdConstInt(info, y)
					x = authdResolveLocal(f, x)
					if call, is := ast.Unparen(x).(*ast.CallExpr); is && isK && k == 1 && strings.HasSuffix(authdCalleeName(info, call), ".GetSequence") {
						if s2, isSel := ast.Unparen(call.Fun).(*ast.SelectorExpr); isSel && engine.ObjOf(info, s2.X) == sigAcc {
							ok, why = true, "GetSequence()+1"
						}
					}
				}
			}
			c.Check("sequence-plus-one", f.Name+" SetSequence#"+authdItoa(i+1), s.Pos(), ok, why)
			// persisted: after the increment the iteration cannot end without a Set*Account of that account
			avoid := map[*cfg.Block]bool{}
			stored := false
			for _, w := range f.CallsTo(persistPats...) {
				if !storesAcc(w) || !g.ReachableAfter(s, w) {
					continue
				}
				if w.Block == s.Block {
					stored = true // straight-line: same block, after the increment
				}
				avoid[w.Block] = true
			}
			if !stored && len(avoid) > 0 {
				stored = true
				seen := map[*cfg.Block]bool{}
				stack := append([]*cfg.Block{}, s.Block.Succs...)
				for len(stack) > 0 {
					b := stack[len(stack)-1]
					stack = stack[:len(stack)-1]
					if seen[b] || avoid[b] || !b.Live {
						continue
					}
					seen[b] = true
					for _, n := range b.Nodes {
						if !containsExpr(loop.Body, n) {
							stored = false // left the iteration without persisting
						}
					}
					stack = append(stack, b.Succs...)
				}
			}
			c.Check("sequence-plus-one", f.Name+" SetSequence#"+authdItoa(i+1)+" persisted", s.Pos(), stored, "after the increment every path to the end of the iteration must write the account back with SetAccount/SetSessionAccount")
		}
		// the keeper call matches the account kind
		for _, w := range f.CallsTo(persistPats...) {
			if !containsExpr(loop.Body, w.Call) {
				continue
			}
			isSess := strings.HasSuffix(w.CalleeName(), "SetSessionAccount")
			ok := false
			for _, gt := range g.Gates(w) {
				for _, fc := range authdFacts(gt) {
					if id, isID := ast.Unparen(fc.E).(*ast.Ident); isID {
						o := info.ObjectOf(id)
						// the flag selecting sigAcc: comma-ok of the session lookup
						flag := false
						engine.InspectBody(f, func(n ast.Node) {
							if as, isAs := n.(*ast.AssignStmt); isAs && len(as.Lhs) == 2 && len(as.Rhs) == 1 && engine.ObjOf(info, as.Lhs[1]) == o {
								if ix, isIx := ast.Unparen(as.Rhs[0]).(*ast.IndexExpr); isIx {
									if _, isMap := info.TypeOf(ix.X).Underlying().(*types.Map); isMap {
										flag = true
									}
								}
							}
						})
						if flag && fc.Neg != isSess {
							ok = true
						}
					}
				}
			}
			c.Check("sequence-plus-one", f.Name+" "+authdShort(w.CalleeName())+" for the matching account kind", w.Pos(), ok, "SetSessionAccount must run exactly for session signers and SetAccount for master signers (session flag of the lookup)")
		}
	}

	// ---- (6) abort-on-failure ----
	{
		rets := authdReturns(f)
		succ := 0
		for i, rs := range rets {
			if len(rs.Results) != 3 {
				c.Check("abort-on-failure", f.Name+" return#"+authdItoa(i+1), rs.Pos(), false, "naked or malformed return in the ante handler")
				continue
			}
			bv, isLit := authdIsBoolLit(info, rs.Results[2])
			if !isLit {
				c.Check("abort-on-failure", f.Name+" return#"+authdItoa(i+1), rs.Pos(), false, "abort is not a literal")
				continue
			}
			if bv {
				continue
			}
			succ++
			// the success return: after the loop, result literal without Error
			st := f.SiteOf(rs)
			loopSite := f.SiteOf(loop.X)
			ok, why := true, "success return after the signature loop"
			if st == nil || loopSite == nil || !g.BlockDominates(loopSite.Block, st.Block) || containsExpr(loop.Body, rs) || rs.Pos() < loop.End() {
				ok, why = false, "a non-aborting return is not placed after the signature loop"
			}
			if cl, isCL := ast.Unparen(rs.Results[1]).(*ast.CompositeLit); !isCL {
				ok, why = false, "a non-aborting return yields a computed result (it may carry an error)"
			} else {
				for _, el := range cl.Elts {
					if kv, isKV := el.(*ast.KeyValueExpr); isKV && engine.ExprString(kv.Key) == "Error" {
						ok, why = false, "success result carries an Error"
					}
				}
			}
			c.Check("abort-on-failure", f.Name+" non-aborting return", rs.Pos(), ok, why)
		}
		c.Check("abort-on-failure", f.Name+" single success return", f.Pos(), succ == 1, "found "+authdItoa(succ)+" returns with abort == false")
		c.Floor("abort-on-failure", len(rets), 15)
		// the recover closure: every assignment to res is accompanied by abort = true in the same clause
		resObj, abortObj := c15Result(f, 1), c15Result(f, 2)
		for _, l := range f.AllLits() {
			li := l.Info()
			ast.Inspect(l.Body, func(n ast.Node) bool {
				cc, ok := n.(*ast.CaseClause)
				if !ok {
					return true
				}
				setsRes, setsAbort := false, false
				for _, st := range cc.Body {
					if as, isAs := st.(*ast.AssignStmt); isAs {
						for i, lh := range as.Lhs {
							if o := engine.ObjOf(li, lh); o != nil {
								if o == resObj {
									if _, isID := ast.Unparen(lh).(*ast.Ident); isID {
										setsRes = true
									}
								}
								if o == abortObj && len(as.Rhs) == len(as.Lhs) {
									if bv, isLit := authdIsBoolLit(li, as.Rhs[i]); isLit && bv {
										setsAbort = true
									}
								}
							}
						}
					}
				}
				if setsRes {
					c.Check("abort-on-failure", l.Name+" recover sets abort", cc.Pos(), setsAbort, "a recovered failure builds a result without setting abort = true")
				}
				return true
			})
		}
	}
	// sig-count: ValidateBasic compares counts, and is checked before the loop
	if vbf := c.MustFunc("tm2/pkg/std.(Tx).ValidateBasic"); vbf != nil {
		vi := vbf.Info()
		vg := vbf.Graph()
		ok, why := false, "no `len(signatures) != len(tx.GetSigners())` test returning an error"
		for _, b := range vg.CFG.Blocks {
			if !b.Live || len(b.Succs) != 2 || len(b.Nodes) == 0 {
				continue
			}
			cond, isE := b.Nodes[len(b.Nodes)-1].(ast.Expr)
			if !isE {
				continue
			}
			x, op, y, isCmp := authdCmp(authdFact{E: cond})
			if !isCmp {
				continue
			}
			isLenSigs := func(e ast.Expr) bool {
				call, is := authdCalleeIs(vi, e, "builtin.len")
				if !is || len(call.Args) != 1 {
					return false
				}
				a := call.Args[0]
				if o := engine.ObjOf(vi, a); o != nil {
					if d := authdAssignsTo(vbf, o); len(d) == 1 && d[0] != nil {
						a = d[0]
					}
				}
				_, isGS := authdCalleeIs(vi, a, "tm2/pkg/std.(Tx).GetSignatures")
				se, isSel := ast.Unparen(a).(*ast.SelectorExpr)
				return isGS || (isSel && se.Sel.Name == "Signatures")
			}
			isLenSigners := func(e ast.Expr) bool {
				call, is := authdCalleeIs(vi, e, "builtin.len")
				if !is || len(call.Args) != 1 {
					return false
				}
				_, isGS := authdCalleeIs(vi, call.Args[0], "tm2/pkg/std.(Tx).GetSigners")
				return isGS
			}
			if !((isLenSigs(x) && isLenSigners(y)) || (isLenSigs(y) && isLenSigners(x))) {
				continue
			}
			if op != token.NEQ {
				why = "signature and signer counts are compared with " + op.String() + " instead of !="
				continue
			}
			// true branch returns a non-nil error
			for _, n := range b.Succs[0].Nodes {
				if rs, isR := n.(*ast.ReturnStmt); isR && len(rs.Results) == 1 && !isNil(rs.Results[0]) {
					ok, why = true, "count mismatch is rejected"
				}
			}
		}
		c.Check("sig-count", vbf.Name, vbf.Pos(), ok, why)
		// checked in the ante before the loop
		okAnte, whyAnte := false, "tx.ValidateBasic() is not checked before the signature loop"
		for _, s := range f.CallsTo("tm2/pkg/std.(Tx).ValidateBasic") {
			if st := f.SiteOf(loop.X); st != nil {
				r := g.CheckedGuard(s, st)
				if r.OK && authdErrNotNil(r.Cond) && !r.OnTrue {
					okAnte, whyAnte = true, "ValidateBasic error aborts before the loop"
				} else if r.OK {
					whyAnte = "ValidateBasic result tested as `" + engine.ExprString(r.Cond) + "`"
				}
			}
		}
		c.Check("sig-count", f.Name+" ValidateBasic before loop", f.Pos(), okAnte, whyAnte)
	}

	// ---- (7) runTx: abort discards ----
	c15RunTx(c, p)
}

func c15Str(e ast.Expr) string {
	if e == nil {
		return "<in-place update>"
	}
	return engine.ExprString(e)
}

// c15Result returns the i-th named result object of a literal.
func c15Result(f *engine.Fn, i int) types.Object {
	k := 0
	if f.Type.Results == nil {
		return nil
	}
	for _, fld := range f.Type.Results.List {
		for _, nm := range fld.Names {
			if k == i {
				return f.Info().ObjectOf(nm)
			}
			k++
		}
	}
	return nil
}

// c15VerifyCond: the gate is exactly `!simulate && !VerifyBytes(...)` (any
// order) and the target lies on its false branch.
func c15VerifyCond(info *types.Info, cond ast.Expr, onTrue bool, simulate types.Object, vcall *ast.CallExpr) (bool, string) {
	if onTrue {
		return false, "the state change is reached when `" + engine.ExprString(cond) + "` holds, i.e. on a failed verification"
	}
	cj := engine.Conjuncts(cond, token.LAND)
	seenV, seenS := false, false
	for _, a := range cj {
		fc := authdStripNot(a, false)
		switch {
		case ast.Unparen(fc.E) == ast.Expr(vcall) && fc.Neg:
			seenV = true
		case engine.ObjOf(info, fc.E) == simulate && simulate != nil && fc.Neg:
			if _, isID := ast.Unparen(fc.E).(*ast.Ident); isID {
				seenS = true
				continue
			}
			return false, "unexpected conjunct `" + engine.ExprString(a) + "`"
		default:
			return false, "verification is additionally conditioned on `" + engine.ExprString(a) + "`: when that is false the signature is not checked"
		}
	}
	if !seenV {
		return false, "the gate does not test !VerifyBytes(...)"
	}
	_ = seenS
	return true, "reached only when !(" + engine.ExprString(cond) + ")"
}

// c15BlockAborts: the block (straight line) ends in a return whose third result is true.
// c15KeyCtx is the function in which the verifying key is resolved: the ante
// closure itself, or a package-local helper it delegates to (roles mapped
// through the call's arguments).
type c15KeyCtx struct {
	f       *engine.Fn
	keys    map[types.Object]bool // variables holding the key to verify with
	acc     types.Object          // the signing account
	sigElem types.Object          // the signature element supplied by the transaction
	aborts  func(b *cfg.Block) bool
	flagOK  func(o types.Object) bool // o is the session flag (comma-ok of the session lookup)
}

func (k *c15KeyCtx) isKey(info *types.Info, e ast.Expr) bool {
	o := engine.ObjOf(info, e)
	_, isID := ast.Unparen(e).(*ast.Ident)
	return isID && o != nil && k.keys[o]
}

// c15PubKeyBound: rule (4), helper transparent.
func c15PubKeyBound(c *engine.Ctx, p *engine.Prog, f *engine.Fn, loop *ast.RangeStmt, vb *engine.Site, sigAcc types.Object) {
	info := f.Info()
	g := f.Graph()
	var pkObj types.Object
	if se, isSel := ast.Unparen(vb.Call.Fun).(*ast.SelectorExpr); isSel {
		pkObj = engine.ObjOf(info, se.X)
	}
	if pkObj == nil || sigAcc == nil {
		c.Undecided("pubkey-bound", f.Name, "receiver of VerifyBytes / signing account not identified")
		return
	}
	var sigElem types.Object
	if loop.Value != nil {
		sigElem = engine.ObjOf(info, loop.Value)
	}
	sessFlag := func(o types.Object) bool {
		okSess := false
		engine.InspectBody(f, func(n ast.Node) {
			if as, isAs := n.(*ast.AssignStmt); isAs && len(as.Lhs) == 2 && len(as.Rhs) == 1 && engine.ObjOf(info, as.Lhs[1]) == o {
				if ix, isIx := ast.Unparen(as.Rhs[0]).(*ast.IndexExpr); isIx {
					if _, isMap := info.TypeOf(ix.X).Underlying().(*types.Map); isMap {
						okSess = true
					}
				}
			}
		})
		return okSess && len(authdAssignsTo(f, o)) == 1
	}
	k := &c15KeyCtx{f: f, keys: map[types.Object]bool{pkObj: true}, acc: sigAcc, sigElem: sigElem,
		aborts: func(b *cfg.Block) bool { return c15BlockAborts(f, b) }, flagOK: sessFlag}

	// delegated to a helper?  pubKey, res := helper(sig, sigAcc, isSession)
	defs := authdAssignsTo(f, pkObj)
	if len(defs) == 1 && defs[0] != nil {
		if call, isCall := ast.Unparen(defs[0]).(*ast.CallExpr); isCall {
			if hs := f.SiteOf(call); hs != nil {
				if fn, _ := hs.Callee.(*types.Func); fn != nil && p.FnOf(fn) != nil {
					h := p.FnOf(fn)
					hk, why := c15HelperCtx(f, h, hs, pkObj, sigAcc, sigElem, sessFlag, vb)
					if hk == nil {
						c.Check("pubkey-bound", f.Name+" key resolution via "+h.Name, hs.Pos(), false, why)
						return
					}
					c.Check("pubkey-bound", f.Name+" key resolution via "+h.Name, hs.Pos(), true, why)
					k = hk
				}
			}
		}
	}
	_ = g
	kf := k.f
	ki := kf.Info()
	kg := kf.Graph()
	// every assignment to the key: from the signature element (tx supplied) or from the account
	nTx := 0
	for ko := range k.keys {
		for _, d := range authdAssignsTo(kf, ko) {
			ok, why := false, "the verifying key is assigned from `"+c15Str(d)+"`: neither the account's stored key nor the signature's key"
			if d != nil {
				if call, is := ast.Unparen(d).(*ast.CallExpr); is && strings.HasSuffix(authdCalleeName(ki, call), ".GetPubKey") {
					if se, isSel := ast.Unparen(call.Fun).(*ast.SelectorExpr); isSel && engine.ObjOf(ki, se.X) == k.acc {
						ok, why = true, "account's stored key"
					}
				}
				if se, isSel := ast.Unparen(d).(*ast.SelectorExpr); isSel && se.Sel.Name == "PubKey" && k.sigElem != nil && engine.ObjOf(ki, se.X) == k.sigElem {
					ok, why = true, "signature's key (bound below)"
					nTx++
				}
				if k.isKey(ki, d) {
					ok, why = true, "copy of the key variable"
				}
			}
			c.Check("pubkey-bound", kf.Name+" key source "+c15Str(d), vb.Pos(), ok, why)
		}
	}
	c.Floor("pubkey-bound sources", nTx, 1)
	// SetPubKey(pubKey): master accounts pass the address comparison
	sets := kf.CallsTo(".SetPubKey")
	c.Floor("pubkey-bound SetPubKey", len(sets), 1)
	for _, sp := range sets {
		ok, why := c15AddressBound(k, sp)
		c.Check("pubkey-bound", kf.Name+" SetPubKey address check", sp.Pos(), ok, why)
		noKey := false
		for _, gt := range kg.Gates(sp) {
			for _, fc := range authdFacts(gt) {
				x, op, y, isCmp := authdCmp(fc)
				if isCmp && isNil(x) {
					x, y = y, x
				}
				if isCmp && op == token.EQL && isNil(y) {
					if call, is := ast.Unparen(x).(*ast.CallExpr); is && strings.HasSuffix(authdCalleeName(ki, call), ".GetPubKey") {
						noKey = true
					}
					// hoisted: stored := acc.GetPubKey(); if stored == nil
					if o := engine.ObjOf(ki, x); o != nil {
						if d := authdAssignsTo(kf, o); len(d) == 1 && d[0] != nil {
							if call, is := ast.Unparen(d[0]).(*ast.CallExpr); is && strings.HasSuffix(authdCalleeName(ki, call), ".GetPubKey") {
								noKey = true
							}
						}
					}
				}
			}
		}
		c.Check("pubkey-bound", kf.Name+" SetPubKey only when unset", sp.Pos(), noKey, "an account's key may be set only when GetPubKey() == nil")
	}
	// both present: bytes.Equal gate alone aborts
	okEq, whyEq := false, "no `!bytes.Equal(pubKey.Bytes(), account.GetPubKey().Bytes())` test aborting the transaction"
	for _, eq := range kf.CallsTo("bytes.Equal", ".Equals") {
		mk := false
		for ko := range k.keys {
			if engine.Mentions(ki, eq.Call, ko) {
				mk = true
			}
		}
		if !mk || !engine.Mentions(ki, eq.Call, k.acc) {
			continue
		}
		for _, b := range kg.CFG.Blocks {
			cond := kg.CondOf(b)
			if cond == nil || !containsExpr(cond, eq.Call) {
				continue
			}
			fc := authdStripNot(cond, false)
			if ast.Unparen(fc.E) != ast.Expr(eq.Call) {
				whyEq = "the key-equality test is combined with another condition: `" + engine.ExprString(cond) + "`"
				continue
			}
			failSucc := b.Succs[1]
			if fc.Neg {
				failSucc = b.Succs[0]
			}
			if k.aborts(failSucc) {
				okEq, whyEq = true, "mismatch aborts"
			} else {
				whyEq = "a key mismatch does not abort"
			}
		}
	}
	c.Check("pubkey-bound", kf.Name+" supplied key equals stored key", vb.Pos(), okEq, whyEq)
}

// c15HelperCtx maps the roles into a helper `key, res := h(sig, acc, flag)`
// and checks that the caller aborts whenever the helper reports failure.
func c15HelperCtx(f, h *engine.Fn, hs *engine.Site, pkObj, sigAcc, sigElem types.Object, sessFlag func(types.Object) bool, vb *engine.Site) (*c15KeyCtx, string) {
	info := f.Info()
	hi := h.Info()
	g := f.Graph()
	lhs := authdLhsObjs(f, hs)
	ki, ri := -1, -1
	for i, o := range lhs {
		if o == pkObj {
			ki = i
		}
	}
	if ki < 0 || len(lhs) != 2 {
		return nil, "the key is not one of two results (key, result) of the helper"
	}
	ri = 1 - ki
	resObj := lhs[ri]
	// caller: VerifyBytes reached only when res.IsOK(); the other branch aborts
	r := g.CheckedGuard(hs, vb)
	if !r.OK {
		return nil, "the helper's result does not gate the verification: " + r.Why
	}
	fc := authdStripNot(r.Cond, false)
	call, isCall := ast.Unparen(fc.E).(*ast.CallExpr)
	okGate := false
	if isCall && strings.HasSuffix(authdCalleeName(info, call), ".IsOK") {
		if se, isSel := ast.Unparen(call.Fun).(*ast.SelectorExpr); isSel && engine.ObjOf(info, se.X) == resObj && resObj != nil {
			// vb reached when IsOK() is true
			okGate = r.OnTrue != fc.Neg
		}
	}
	if !okGate {
		return nil, "verification is not restricted to `" + "helper result IsOK()" + "` (found `" + engine.ExprString(r.Cond) + "`)"
	}
	// the failing branch of that gate aborts
	for _, b := range g.CFG.Blocks {
		if g.CondOf(b) == r.Cond {
			fail := b.Succs[0]
			if r.OnTrue {
				fail = b.Succs[1]
			}
			if !c15BlockAborts(f, fail) {
				return nil, "a failed key resolution does not abort the transaction"
			}
		}
	}
	// map arguments to parameters
	ops := authdOperands(h)
	if h.Decl != nil && h.Decl.Recv != nil {
		return nil, "helper is a method; roles not mapped"
	}
	var acc, sig types.Object
	flagParam := map[types.Object]types.Object{}
	sigIsKeyExpr := false
	for i, a := range hs.Call.Args {
		if i >= len(ops) || ops[i] == nil {
			continue
		}
		ao := engine.ObjOf(info, a)
		switch {
		case ao == sigAcc:
			acc = ops[i]
		case ao == sigElem && sigElem != nil:
			if se, isSel := ast.Unparen(a).(*ast.SelectorExpr); isSel && se.Sel.Name == "PubKey" {
				sigIsKeyExpr = true
			}
			sig = ops[i]
		default:
			if se, isSel := ast.Unparen(a).(*ast.SelectorExpr); isSel && se.Sel.Name == "PubKey" && engine.ObjOf(info, se.X) == sigElem {
				sig, sigIsKeyExpr = ops[i], true
			} else if ao != nil {
				flagParam[ops[i]] = ao
			}
		}
	}
	if acc == nil {
		return nil, "the signing account is not passed to the helper"
	}
	for _, o := range ops {
		if o != nil && len(authdAssignsTo(h, o)) != 0 && o != sig {
			return nil, "helper reassigns parameter " + o.Name()
		}
	}
	k := &c15KeyCtx{f: h, keys: map[types.Object]bool{}, acc: acc, sigElem: sig}
	if sigIsKeyExpr && sig != nil {
		// the key itself was passed: the parameter is a key variable supplied by the transaction
		k.keys[sig] = true
		k.sigElem = nil
	}
	// key variables: what is returned at position ki
	for _, rs := range authdReturns(h) {
		if len(rs.Results) != 2 {
			return nil, "helper has a return without (key, result)"
		}
		e := rs.Results[ki]
		if isNil(e) {
			continue
		}
		o := engine.ObjOf(hi, e)
		if _, isID := ast.Unparen(e).(*ast.Ident); !isID || o == nil {
			return nil, "helper returns a computed key `" + engine.ExprString(e) + "`"
		}
		k.keys[o] = true
	}
	if len(k.keys) == 0 {
		return nil, "helper never returns a key"
	}
	k.aborts = func(b *cfg.Block) bool {
		for _, n := range b.Nodes {
			if rs, ok := n.(*ast.ReturnStmt); ok && len(rs.Results) == 2 {
				e := ast.Unparen(rs.Results[ri])
				if cl, isCL := e.(*ast.CompositeLit); isCL && len(cl.Elts) == 0 {
					return false // empty (OK) result
				}
				if _, isCallE := e.(*ast.CallExpr); isCallE {
					return true // a constructed error result
				}
			}
		}
		return false
	}
	k.flagOK = func(o types.Object) bool {
		co := flagParam[o]
		return co != nil && sessFlag(co)
	}
	return k, "roles mapped into " + h.Name + "; the caller aborts unless the helper's result IsOK()"
}

func c15BlockAborts(f *engine.Fn, b *cfg.Block) bool {
	for _, n := range b.Nodes {
		if rs, ok := n.(*ast.ReturnStmt); ok && len(rs.Results) == 3 {
			if bv, isLit := authdIsBoolLit(f.Info(), rs.Results[2]); isLit && bv {
				return true
			}
		}
	}
	return false
}

// c15AddressBound: SetPubKey(key) is reached, for master accounts, only
// through the matching branch of `key.Address() ==/!= acc.GetAddress()` whose
// mismatch branch aborts; the only way round that test is the session side of
// a lone session-flag condition.
func c15AddressBound(k *c15KeyCtx, sp *engine.Site) (bool, string) {
	f := k.f
	g := f.Graph()
	info := f.Info()
	var addrBlk, matchSucc *cfg.Block
	for _, b := range g.CFG.Blocks {
		cond := g.CondOf(b)
		if cond == nil {
			continue
		}
		x, op, y, isCmp := authdCmp(authdFact{E: cond})
		isAddr := func(e ast.Expr, key bool, m string) bool {
			call, is := ast.Unparen(e).(*ast.CallExpr)
			if !is || !strings.HasSuffix(authdCalleeName(info, call), "."+m) {
				return false
			}
			se, isSel := ast.Unparen(call.Fun).(*ast.SelectorExpr)
			if !isSel {
				return false
			}
			if key {
				return k.isKey(info, se.X)
			}
			return engine.ObjOf(info, se.X) == k.acc
		}
		mentionsKey := false
		for ko := range k.keys {
			if engine.Mentions(info, cond, ko) {
				mentionsKey = true
			}
		}
		if isCmp && ((isAddr(x, true, "Address") && isAddr(y, false, "GetAddress")) || (isAddr(y, true, "Address") && isAddr(x, false, "GetAddress"))) {
			mis, match := b.Succs[0], b.Succs[1]
			switch op {
			case token.NEQ:
			case token.EQL:
				mis, match = match, mis
			default:
				return false, "address test uses " + op.String()
			}
			if !k.aborts(mis) {
				return false, "an address mismatch does not abort"
			}
			addrBlk, matchSucc = b, match
		} else if mentionsKey && strings.Contains(engine.ExprString(cond), ".Address()") && strings.Contains(engine.ExprString(cond), ".GetAddress()") {
			return false, "the address test is combined with another condition: `" + engine.ExprString(cond) + "`"
		}
	}
	if addrBlk == nil {
		return false, "no `pubKey.Address() != account.GetAddress()` test"
	}
	if !(matchSucc == sp.Block || g.Reach(matchSucc, sp.Block, nil)) {
		return false, "SetPubKey is not reached from the matching-address branch"
	}
	avoid := map[*cfg.Block]bool{addrBlk: true}
	if !g.Reach(g.CFG.Blocks[0], sp.Block, avoid) {
		return true, "every path to SetPubKey passes the address test"
	}
	// the innermost condition that dominates both and decides about entering the test
	type cand struct {
		b   *cfg.Block
		idx int
	}
	var cands []cand
	for _, b := range g.CFG.Blocks {
		if g.CondOf(b) == nil || b == addrBlk || !g.BlockDominates(b, addrBlk) || !g.BlockDominates(b, sp.Block) {
			continue
		}
		for i := 0; i < 2; i++ {
			if (b.Succs[i] == addrBlk || g.BlockDominates(b.Succs[i], addrBlk)) && !(b.Succs[1-i] == addrBlk || g.BlockDominates(b.Succs[1-i], addrBlk)) {
				cands = append(cands, cand{b, i})
			}
		}
	}
	for _, cd := range cands {
		inner := true
		for _, o := range cands {
			if o.b != cd.b && g.BlockDominates(cd.b, o.b) {
				inner = false
			}
		}
		if !inner {
			continue
		}
		cond := g.CondOf(cd.b)
		fc := authdStripNot(cond, false)
		id, isID := ast.Unparen(fc.E).(*ast.Ident)
		// value of the flag on the branch that enters the address test
		flagOnTest := (cd.idx == 0) != fc.Neg
		if !isID || flagOnTest {
			return false, "the address test is skipped under `" + engine.ExprString(cond) + "`, not exactly for session accounts"
		}
		if k.flagOK == nil || !k.flagOK(info.ObjectOf(id)) {
			return false, "the flag skipping the address test is not the single comma-ok of the session lookup"
		}
		avoid2 := map[*cfg.Block]bool{addrBlk: true, cd.b: true}
		if g.Reach(g.CFG.Blocks[0], sp.Block, avoid2) {
			return false, "SetPubKey is reachable without the address test by a path not controlled by the session test"
		}
		return true, "master accounts pass the address test; only session accounts (address fixed at creation) skip it"
	}
	return false, "SetPubKey can be reached without the address test"
}

// c15RunTx: rule (7).
func c15RunTx(c *engine.Ctx, p *engine.Prog) {
	const B = "tm2/pkg/sdk.(*BaseApp)."
	f := c.MustFunc(B + "runTx")
	if f == nil {
		return
	}
	info := f.Info()
	g := f.Graph()
	// the ante call: a call through the field anteHandler
	var ante *engine.Site
	for _, s := range f.Calls() {
		if se, ok := ast.Unparen(s.Call.Fun).(*ast.SelectorExpr); ok && se.Sel.Name == "anteHandler" {
			if v, isVar := info.ObjectOf(se.Sel).(*types.Var); isVar && v.IsField() {
				ante = s
			}
		}
	}
	if ante == nil {
		c.Undecided("abort-discards", f.Name, "call of app.anteHandler not found")
		return
	}
	lhs := authdLhsObjs(f, ante)
	if len(lhs) != 3 || lhs[2] == nil {
		c.Undecided("abort-discards", f.Name, "results of app.anteHandler are not bound to three variables")
		return
	}
	abort := lhs[2]
	// (a) runs on a cache wrap
	okCache, whyCache := false, "the ante handler's context is not the one returned by cacheTxContext"
	if len(ante.Call.Args) == 3 {
		if o := engine.ObjOf(info, ante.Call.Args[0]); o != nil {
			for _, s := range f.CallsTo(B + "cacheTxContext") {
				l := authdLhsObjs(f, s)
				if len(l) == 2 && l[0] == o && g.Dominates(s, ante) {
					okCache, whyCache = true, "anteCtx, msCache = cacheTxContext(ctx)"
				}
			}
		}
	}
	c.Check("abort-discards", f.Name+" ante on cache wrap", ante.Pos(), okCache, whyCache)
	// (b) the abort return
	var abortRet *engine.Site
	nAbortRets := 0
	for _, rs := range authdReturns(f) {
		st := f.SiteOf(rs)
		if st == nil {
			continue
		}
		for _, gt := range g.Gates(st) {
			if gt.OnTrue && authdOkPolarity(info, gt.Cond, abort) == +1 {
				abortRet = st
				nAbortRets++
			}
		}
	}
	if abortRet == nil {
		c.Check("abort-discards", f.Name+" `if abort` returns", ante.Pos(), false, "no return gated by the lone condition `abort`: an aborted ante handler may fall through to the commit paths")
		return
	}
	c.Check("abort-discards", f.Name+" `if abort` returns", abortRet.Pos(), nAbortRets == 1, "exactly one return gated by `abort` alone")
	// abort is not reassigned
	c.Check("abort-discards", f.Name+" abort not reassigned", ante.Pos(), len(authdAssignsTo(f, abort)) == 1, "")
	// every other path from the ante call passes the `!abort` side: code after the ante call other than the abort return is gated by abort==false or is the panic checks
	// (c) write sites
	writePats := []string{".MultiWrite", ".WriteCheckpoint", ".Write"}
	isWrite := func(s *engine.Site) bool {
		n := s.CalleeName()
		return strings.HasPrefix(n, "tm2/pkg/store") && engine.MatchName(n, writePats...)
	}
	nw := 0
	isWriteNode := func(fn *engine.Fn, n ast.Node) bool {
		call, ok := n.(*ast.CallExpr)
		if !ok {
			return false
		}
		st := fn.SiteOf(call)
		return st != nil && isWrite(st)
	}
	for _, ds := range f.DeepFind(2, isWriteNode) {
		s := ds.Outer // the write itself, or the call of the private helper that performs it
		if s.Deferred {
			continue
		}
		nw++
		bad := g.ReachableAfter(s, abortRet) || !g.ReachableAfter(ante, s) && g.ReachableAfter(s, ante)
		via := ""
		if ds.Inner != ds.Outer {
			via = " via " + authdShort(ds.Chain[0].Name)
		}
		c.Check("abort-discards", f.Name+" "+authdShort(ds.Inner.CalleeName())+via+"#"+authdItoa(nw)+" not before abort return", s.Pos(), !bad,
			"a store write can execute before the ante handler's abort is honoured: a rejected transaction would leave state (e.g. the fee) behind")
	}
	// defers
	nd := 0
	engine.InspectBody(f, func(n ast.Node) {
		ds, ok := n.(*ast.DeferStmt)
		if !ok {
			return
		}
		var body *engine.Fn
		switch fn := ast.Unparen(ds.Call.Fun).(type) {
		case *ast.FuncLit:
			for _, l := range f.Lits {
				if l.Lit == fn {
					body = l
				}
			}
		case *ast.Ident:
			if d := authdAssignsTo(f, info.ObjectOf(fn)); len(d) == 1 && d[0] != nil {
				if fl, isFL := ast.Unparen(d[0]).(*ast.FuncLit); isFL {
					for _, l := range f.Lits {
						if l.Lit == fl {
							body = l
						}
					}
				}
			}
		}
		nd++
		key := f.Name + " defer#" + authdItoa(nd)
		if body == nil {
			// a direct deferred call
			if cs := f.SiteOf(ds.Call); cs != nil && cs.Call != nil {
				nm := authdCalleeName(info, ds.Call)
				w := strings.HasPrefix(nm, "tm2/pkg/store") && engine.MatchName(nm, writePats...)
				st := f.SiteOf(ds)
				c.Check("abort-discards", key+" no write before abort", ds.Pos(), !w || (st != nil && !g.ReachableAfter(st, abortRet) && !g.ReachableAfter(st, ante)), "deferred store write registered before the ante handler ran")
				return
			}
			c.Undecided("abort-discards", key, "deferred callee not resolved")
			return
		}
		writes := false
		for _, l := range append([]*engine.Fn{body}, body.AllLits()...) {
			if len(l.DeepFind(2, isWriteNode)) > 0 {
				writes = true
			}
		}
		st := f.SiteOf(ds)
		ok2 := !writes || (st != nil && !g.ReachableAfter(st, abortRet) && !g.ReachableAfter(st, ante))
		why := "deferred closure performs no store write"
		if writes {
			why = "deferred closure writes the store; it must be registered only after the abort return (it would flush an aborted or panicking ante handler's writes otherwise)"
		}
		c.Check("abort-discards", key+" no write before abort", ds.Pos(), ok2, why)
	})
	c.Floor("abort-discards writes", nw, 2)
	c.Floor("abort-discards defers", nd, 3)
}
