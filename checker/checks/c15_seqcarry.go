package checks

import (
	"go/ast"
	"strings"

	"gnoverif/engine"
)

// C15 extra — an account's sequence survives every replacement of its account
// object. Replay protection is the stored sequence; code that rebuilds an
// account from an existing one (copying its identity: address / account number)
// must carry the sequence over as well, otherwise old signed transactions become
// valid again. Rule: in the auth/bank/std/gnoland/vm packages, a function that
// reads X.GetAccountNumber() of an existing account X in order to build or
// initialise another account must also read X.GetSequence() and pass it on
// (struct field `Sequence:` or SetSequence). (Added after an independently
// seeded change rebuilt the plain account that replaces a fully vested account
// through the keeper's constructor, dropping the sequence.)
func init() {
	extend("C15", c15SeqCarry)
	mutants("C15",
		Mutant{"vesting-upgrade-drops-sequence", "tm2/pkg/sdk/bank/keeper.go", "		Sequence:      va.GetSequence(),\n", "", "sequence-carried"},
	)
}

func c15SeqCarry(c *engine.Ctx) {
	p := c.Load("tm2/pkg/sdk/auth", "tm2/pkg/sdk/bank", "tm2/pkg/std", "gno.land/pkg/gnoland", "gno.land/pkg/sdk/vm")
	if p == nil {
		return
	}
	n := 0
	for _, f := range p.Funcs() {
		if strings.HasPrefix(f.Root().Name, "tm2/pkg/std.") && f.Decl != nil && f.Decl.Recv != nil {
			continue // the account types' own accessors/String methods
		}
		for _, s := range f.CallsTo("tm2/pkg/std.(Account).GetAccountNumber", "tm2/pkg/std.(*BaseAccount).GetAccountNumber") {
			sel, ok := s.Call.Fun.(*ast.SelectorExpr)
			if !ok {
				continue
			}
			// is the number used to initialise another account? (field AccountNumber: … / SetAccountNumber(…) / NewAccountWith*Number(…))
			feeds := false
			var parent ast.Node
			ast.Inspect(f.Body, func(x ast.Node) bool {
				switch y := x.(type) {
				case *ast.KeyValueExpr:
					if id, ok := y.Key.(*ast.Ident); ok && id.Name == "AccountNumber" && containsExpr(y.Value, s.Node) {
						feeds, parent = true, y
					}
				case *ast.CallExpr:
					if y != s.Call {
						name := ""
						if se, ok := y.Fun.(*ast.SelectorExpr); ok {
							name = se.Sel.Name
						}
						if (name == "SetAccountNumber" || strings.HasPrefix(name, "NewAccountWith")) {
							for _, a := range y.Args {
								if containsExpr(a, s.Node) {
									feeds, parent = true, y
								}
							}
						}
					}
				}
				return true
			})
			if !feeds {
				continue
			}
			_ = parent
			n++
			recv := engine.ExprString(sel.X)
			carried := false
			for _, q := range f.CallsTo("tm2/pkg/std.(Account).GetSequence", "tm2/pkg/std.(*BaseAccount).GetSequence") {
				qs, ok := q.Call.Fun.(*ast.SelectorExpr)
				if !ok || engine.ExprString(qs.X) != recv {
					continue
				}
				ast.Inspect(f.Body, func(x ast.Node) bool {
					switch y := x.(type) {
					case *ast.KeyValueExpr:
						if id, ok := y.Key.(*ast.Ident); ok && id.Name == "Sequence" && containsExpr(y.Value, q.Node) {
							carried = true
						}
					case *ast.CallExpr:
						if se, ok := y.Fun.(*ast.SelectorExpr); ok && se.Sel.Name == "SetSequence" {
							for _, a := range y.Args {
								if containsExpr(a, q.Node) {
									carried = true
								}
							}
						}
					}
					return true
				})
			}
			c.Check("sequence-carried", f.Root().Name+" rebuilds an account from "+recv, s.Pos(), carried,
				"the function copies "+recv+"'s account number into another account object but not its sequence: the replacement restarts at sequence 0 and old signed transactions verify again")
		}
	}
	c.Floor("sequence-carried", n, 1)
}
