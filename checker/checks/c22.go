package checks

import (
	"go/ast"
	"go/token"
	"go/types"
	"strings"

	"gnoverif/engine"
)

// C22 — cache / prefix / cachemulti layers behave like an ordered-map overlay.
func init() {
	register("C22", c22)
	meta("C22", Meta{
		Text:      "Decides structural necessary conditions of the overlay model on the cache, prefix and cachemulti stores: direction and range arguments flow unchanged from Iterator/ReverseIterator to the parent iterator, the dirty-item sort and both sub-iterators; the merge iterator's per-comparison case tables (who advances, whose key/value wins, delete shadowing) and the direction-aware compare; the mem-iterator's end selection; writeLocked applies {deleted→Delete, nil→skip, else→Set} over sorted dirty keys only and then clears; checkpoint restore precedes the flush and cache entries are never mutated in place; who may write the cache maps; lock discipline of cacheStore; prefix.Store prefixes every key/range handed to the parent and strips it on the way back; cachemulti fans Write/Checkpoint out to every sub-store unconditionally. Level 'other': code-shape clauses over all paths of the anchored functions.",
		Note:      "Not covered: equivalence of a whole operation history with the model (iteration interleaved with writes, domain corner cases of IsKeyInDomain/PrefixEndBytes values), gas accounting, tm2/pkg/db/collecting.go read-your-writes (see C27/C29). && and || are treated as one condition by the CFG.",
		Technique: "go/cfg gates + per-case callee tables (sibling agreement), who-may-write tables, lock dominance, local def-use for argument provenance",
		Ref:       "DESIGN.md §2 C22",
	})
	const cs = "tm2/pkg/store/cache/store.go"
	const mi = "tm2/pkg/store/cache/mergeiterator.go"
	const me = "tm2/pkg/store/cache/memiterator.go"
	const ps = "tm2/pkg/store/prefix/store.go"
	mutants("C22",
		Mutant{"reverse-uses-forward-parent", cs, "parent = store.parent.ReverseIterator(nil, start, end)", "parent = store.parent.Iterator(nil, start, end)", "iter-dir"},
		Mutant{"merge-flag-constant", cs, "newCacheMergeIterator(parent, cache, ascending)", "newCacheMergeIterator(parent, cache, true)", "iter-dir"},
		Mutant{"dirty-after-memiter", cs, "store.dirtyItems(start, end)\n\tcache = newMemIterator(start, end, store.sortedCache, ascending)", "cache = newMemIterator(start, end, store.sortedCache, ascending)\n\tstore.dirtyItems(start, end)", "iter-dir"},
		Mutant{"tie-returns-parent-value", mi, "case 0: // parent == cache\n\t\treturn iter.cache.Value()", "case 0: // parent == cache\n\t\treturn iter.parent.Value()", "merge-case"},
		Mutant{"tie-next-skips-cache", mi, "case 0: // parent == cache\n\t\titer.parent.Next()\n\t\titer.cache.Next()\n\tcase 1", "case 0: // parent == cache\n\t\titer.parent.Next()\n\tcase 1", "merge-case"},
		Mutant{"delete-does-not-shadow-parent", mi, "if valueC == nil {\n\t\t\t\titer.parent.Next()\n\t\t\t\titer.cache.Next()\n\t\t\t\tcontinue", "if valueC == nil {\n\t\t\t\titer.cache.Next()\n\t\t\t\tcontinue", "merge-case"},
		Mutant{"compare-not-reversed", mi, "return bytes.Compare(a, b) * -1", "return bytes.Compare(a, b) * 1", "merge-compare"},
		Mutant{"memiter-desc-key-front", me, "return mi.items[len(mi.items)-1].Key", "return mi.items[0].Key", "mem-end"},
		Mutant{"write-skips-delete-of-empty", cs, "\t\t\tif cacheValue.deleted {\n\t\t\t\tstore.parent.Delete(nil, []byte(key))", "\t\t\tif cacheValue.deleted && cacheValue.value != nil {\n\t\t\t\tstore.parent.Delete(nil, []byte(key))", "write-net"},
		Mutant{"write-flushes-clean-entries", cs, "\t\tif dbValue.dirty {\n\t\t\tkeys = append(keys, key)\n\t\t}", "\t\tif dbValue.dirty || dbValue.value != nil {\n\t\t\tkeys = append(keys, key)\n\t\t}", "write-net"},
		Mutant{"delete-not-marked-deleted", cs, "store.setCacheValue(key, nil, true, true)", "store.setCacheValue(key, nil, false, true)", "op-entry"},
		Mutant{"read-miss-marked-dirty", cs, "store.setCacheValue(key, value, false, false)", "store.setCacheValue(key, value, false, true)", "op-entry"},
		Mutant{"checkpoint-restore-after-flush", cs, "\tstore.cache = store.checkpointCache\n\tstore.chargedGas = store.checkpointChargedGas\n\tstore.checkpointCache = nil\n\tstore.checkpointChargedGas = nil\n\tstore.writeLocked()\n}", "\tsaved := store.checkpointCache\n\tstore.writeLocked()\n\tstore.cache = saved\n}", "checkpoint"},
		Mutant{"checkpoint-aliases-live-map", cs, "store.checkpointCache = maps.Clone(store.cache)", "store.checkpointCache = store.cache", "checkpoint"},
		Mutant{"in-place-cvalue-update", cs, "\tif dirty {\n\t\tstore.unsortedCache[string(key)] = struct{}{}\n\t}", "\tif dirty {\n\t\tstore.unsortedCache[string(key)] = struct{}{}\n\t\tstore.cache[string(key)].dirty = true\n\t}", "checkpoint"},
		Mutant{"haschk-unlocked", cs, "func (store *cacheStore) HasCheckpoint() bool {\n\tstore.mtx.Lock()\n\tdefer store.mtx.Unlock()", "func (store *cacheStore) HasCheckpoint() bool {", "holds-lock"},
		Mutant{"prefix-delete-raw-key", ps, "s.parent.Delete(gctx, s.key(key))", "s.parent.Delete(gctx, key)", "prefix-key"},
		Mutant{"prefix-open-end", ps, "\tif end == nil {\n\t\tnewend = cpIncr(s.prefix)\n\t} else {\n\t\tnewend = cloneAppend(s.prefix, end)\n\t}\n\n\titer := s.parent.ReverseIterator", "\tif end != nil {\n\t\tnewend = cloneAppend(s.prefix, end)\n\t}\n\n\titer := s.parent.ReverseIterator", "prefix-range"},
		Mutant{"prefix-key-not-stripped", ps, "key = stripPrefix(key, iter.prefix)", "key = stripPrefix(key, nil)", "prefix-strip"},
		Mutant{"multiwrite-partial", "tm2/pkg/store/cachemulti/store.go", "\tfor _, store := range cms.stores {\n\t\tstore.Write()\n\t}", "\tfor k, store := range cms.stores {\n\t\tif k != nil {\n\t\t\tstore.Write()\n\t\t}\n\t}", "multi-fanout"},
	)
}

const (
	c22Cache  = "tm2/pkg/store/cache"
	c22Prefix = "tm2/pkg/store/prefix"
	c22Multi  = "tm2/pkg/store/cachemulti"
	c22CS     = c22Cache + ".(*cacheStore)."
	c22MI     = c22Cache + ".(*cacheMergeIterator)."
)

func c22(c *engine.Ctx) {
	c.Explain = "Structural clauses of the overlay model (see manifest text): iterator direction/range plumbing, merge-iterator case tables, direction-aware compare, mem-iterator end selection, net-change flush, checkpoint restore order and no in-place cValue mutation, who-may-write cache maps, cacheStore lock discipline, prefix key/range layering and stripping, cachemulti fan-out. Not covered: whole-history model equivalence, gas, IsKeyInDomain/PrefixEndBytes value semantics."
	p := c.Load(c22Cache, c22Prefix, c22Multi)
	if p == nil {
		return
	}
	c22IterDir(c, p)
	c22Merge(c, p)
	c22Mem(c, p)
	c22Write(c, p)
	c22OpEntry(c, p)
	c22Checkpoint(c, p)
	c22Writers(c, p)
	c22Locks(c, p)
	c22PrefixRules(c, p)
	c22MultiRules(c, p)
}

// ---- iterator direction / range plumbing ----

func c22IterDir(c *engine.Ctx, p *engine.Prog) {
	n := 0
	for _, tc := range []struct {
		name string
		asc  string
	}{{"Iterator", "true"}, {"ReverseIterator", "false"}} {
		f := c.MustFunc(c22CS + tc.name)
		if f == nil {
			continue
		}
		calls := f.CallsTo(c22CS + "iterator")
		ok := len(calls) == 1 && len(f.Calls()) == 1
		why := "must consist of exactly one call store.iterator(gctx, start, end, " + tc.asc + ")"
		if ok {
			a := calls[0].Call.Args
			ok = len(a) == 4 && sfIsParam(f, a[0], 0) && sfIsParam(f, a[1], 1) && sfIsParam(f, a[2], 2)
			if ok {
				id, isId := ast.Unparen(a[3]).(*ast.Ident)
				ok = isId && id.Name == tc.asc && f.Info().Uses[id] == types.Universe.Lookup(tc.asc)
			}
		}
		n++
		c.Check("iter-dir", c22CS+tc.name+" passes ascending="+tc.asc, f.Pos(), ok, why)
	}
	f := c.MustFunc(c22CS + "iterator")
	if f == nil {
		c.Floor("iter-dir", n, 9)
		return
	}
	info := f.Info()
	asc := paramObj(f, 3)
	isAsc := func(e ast.Expr) bool { return engine.ObjOf(info, e) == asc }
	g := f.Graph()
	parentField := p.Field(c22Cache + ".cacheStore.parent")
	var parentCalls []*engine.Site
	for _, s := range f.Calls() {
		if s.Call == nil {
			continue
		}
		fld, m := sfMethodOnField(info, s.Call)
		if fld == nil || fld != parentField || (m != "Iterator" && m != "ReverseIterator") {
			continue
		}
		parentCalls = append(parentCalls, s)
		want := m == "Iterator"
		ok := sfHolds(f, s, want, isAsc) && len(g.Gates(s)) == 1
		a := s.Call.Args
		argsOK := len(a) == 3 && sfIsParam(f, a[1], 1) && sfIsParam(f, a[2], 2)
		n++
		c.Check("iter-dir", c22CS+"iterator parent."+m+" iff ascending="+map[bool]string{true: "true", false: "false"}[want], s.Pos(), ok && argsOK,
			"parent."+m+" must run exactly when ascending is "+map[bool]string{true: "true", false: "false"}[want]+" with (start, end) unchanged")
	}
	c.Check("iter-dir", c22CS+"iterator has both parent directions", f.Pos(), len(parentCalls) == 2, "expected one parent.Iterator and one parent.ReverseIterator call")
	n++
	di := f.CallsTo(c22CS + "dirtyItems")
	nm := f.CallsTo(c22Cache + ".newMemIterator")
	mg := f.CallsTo(c22Cache + ".newCacheMergeIterator")
	if len(di) == 1 && len(nm) == 1 && len(mg) == 1 {
		a := di[0].Call.Args
		c.Check("iter-dir", c22CS+"iterator dirtyItems(start,end) before newMemIterator", di[0].Pos(),
			len(a) == 2 && sfIsParam(f, a[0], 1) && sfIsParam(f, a[1], 2) && g.Dominates(di[0], nm[0]) && len(g.Gates(di[0])) == 0,
			"the dirty items of [start,end) must be merged into sortedCache, unconditionally, before the mem iterator copies it")
		b := nm[0].Call.Args
		sorted := p.Field(c22Cache + ".cacheStore.sortedCache")
		c.Check("iter-dir", c22CS+"iterator newMemIterator(start,end,sortedCache,ascending)", nm[0].Pos(),
			len(b) == 4 && sfIsParam(f, b[0], 1) && sfIsParam(f, b[1], 2) && sfFieldSel(info, b[2], sorted) && isAsc(b[3]),
			"mem iterator must receive the same range, the sorted cache and the same direction")
		m := mg[0].Call.Args
		fromParent := func(e ast.Expr) bool {
			cl, ok := ast.Unparen(e).(*ast.CallExpr)
			if !ok {
				return false
			}
			fld, mm := sfMethodOnField(info, cl)
			return fld == parentField && (mm == "Iterator" || mm == "ReverseIterator")
		}
		fromMem := func(e ast.Expr) bool {
			_, ok := sfIsCallTo(info, e, c22Cache+".newMemIterator")
			return ok
		}
		c.Check("iter-dir", c22CS+"iterator newCacheMergeIterator(parent,cache,ascending)", mg[0].Pos(),
			len(m) == 3 && sfDerives(f, m[0], fromParent, 2) && sfDerives(f, m[1], fromMem, 2) && isAsc(m[2]),
			"merge iterator must receive the parent iterator, the mem iterator and the same direction flag")
		n += 3
	} else {
		c.Undecided("iter-dir", c22CS+"iterator", "expected exactly one dirtyItems, newMemIterator and newCacheMergeIterator call")
	}
	// dirtyItems: domain filter + value source + merge switch
	if d := c.MustFunc(c22CS + "dirtyItems"); d != nil {
		dinfo := d.Info()
		unsorted := p.Field(c22Cache + ".cacheStore.unsortedCache")
		found := 0
		for _, s := range d.CallsTo("builtin.append") {
			// append gated by IsKeyInDomain(key, start, end)
			inDom := func(e ast.Expr) bool {
				cl, ok := sfIsCallTo(dinfo, e, "tm2/pkg/db.IsKeyInDomain")
				return ok && len(cl.Args) == 3 && sfIsParam(d, cl.Args[1], 0) && sfIsParam(d, cl.Args[2], 1)
			}
			found++
			c.Check("iter-dir", c22CS+"dirtyItems append gated by IsKeyInDomain(start,end)", s.Pos(),
				sfHolds(d, s, true, inDom) && len(d.Graph().Gates(s)) == 1, "exactly the unsorted keys inside [start,end) are moved to the sorted list")
			// the KVPair value comes from store.cache[key].value
			valOK := false
			ast.Inspect(s.Call, func(n ast.Node) bool {
				if kv, ok := n.(*ast.KeyValueExpr); ok {
					if id, ok := kv.Key.(*ast.Ident); ok && id.Name == "Value" {
						if fld := sfSelField(dinfo, kv.Value); fld != nil && fld.Name() == "value" {
							valOK = true
						}
					}
				}
				return true
			})
			c.Check("iter-dir", c22CS+"dirtyItems item value is the cached value", s.Pos(), valOK, "KVPair.Value must be the cValue.value of the key (nil marks a delete)")
		}
		n += 2 * found
		// range over unsortedCache
		rangeOK := false
		engine.InspectBody(d, func(x ast.Node) {
			if rs, ok := x.(*ast.RangeStmt); ok && sfFieldSel(dinfo, rs.X, unsorted) {
				rangeOK = true
			}
		})
		c.Check("iter-dir", c22CS+"dirtyItems ranges over unsortedCache", d.Pos(), rangeOK && found == 1, "")
		n++
		// merge switch on bytes.Compare(uitem.Key, sitem.Key)
		sws := sfSwitchOn(d, func(e ast.Expr) bool { _, ok := sfIsCallTo(dinfo, e, "bytes.Compare"); return ok })
		if len(sws) != 1 {
			c.Undecided("iter-dir", c22CS+"dirtyItems merge switch", "switch on bytes.Compare not found")
		} else {
			for _, tc := range []struct {
				lit  string
				want string // list method that must be called
				adv  bool   // e = e.Next() present
			}{{"-1", "InsertBefore", false}, {"1", "", true}, {"0", "", true}} {
				cc := sfCaseOf(sws[0], tc.lit)
				ok := cc != nil
				if ok {
					var calls []string
					for _, st := range cc.Body {
						ast.Inspect(st, func(x ast.Node) bool {
							if cl, ok := x.(*ast.CallExpr); ok {
								calls = append(calls, sfCallee(dinfo, cl))
							}
							return true
						})
					}
					hasIns, hasNext := false, false
					for _, nm := range calls {
						if nm == "container/list.(*List).InsertBefore" {
							hasIns = true
						}
						if nm == "container/list.(*Element).Next" {
							hasNext = true
						}
					}
					ok = hasIns == (tc.want == "InsertBefore") && hasNext == tc.adv
					if tc.lit == "0" {
						// replaces the element's value
						repl := false
						for _, st := range cc.Body {
							if as, isAs := st.(*ast.AssignStmt); isAs && len(as.Lhs) == 1 {
								if se, isSel := as.Lhs[0].(*ast.SelectorExpr); isSel && se.Sel.Name == "Value" {
									repl = true
								}
							}
						}
						ok = ok && repl
					}
				}
				n++
				c.Check("iter-dir", c22CS+"dirtyItems merge case "+tc.lit, sws[0].Pos(), ok, "sorted-merge step: -1 inserts before, 1 advances, 0 replaces the element value and advances")
			}
			pb := d.CallsTo("container/list.(*List).PushBack")
			c.Check("iter-dir", c22CS+"dirtyItems appends the remaining items", d.Pos(), len(pb) == 1 && len(d.Graph().Gates(pb[0])) == 0 || (len(pb) == 1 && c22OnlyLoopGates(d, pb[0])), "items greater than every sorted element are pushed back")
			n++
			ss := d.CallsTo("sort.Slice")
			ok := len(ss) == 1
			if ok {
				for _, s := range d.CallsTo("container/list.(*List).InsertBefore", "container/list.(*List).PushBack") {
					ok = ok && d.Graph().Dominates(ss[0], s)
				}
			}
			c.Check("iter-dir", c22CS+"dirtyItems sorts before merging", d.Pos(), ok, "sort.Slice must dominate the list insertions")
			n++
		}
	}
	c.Floor("iter-dir", n, 16)
}

// c22OnlyLoopGates: every gate of s is a range/for loop header (no data condition).
func c22OnlyLoopGates(f *engine.Fn, s *engine.Site) bool {
	for _, g := range f.Graph().Gates(s) {
		isLoop := false
		engine.InspectBody(f, func(n ast.Node) {
			switch l := n.(type) {
			case *ast.ForStmt:
				if l.Cond == g.Cond {
					isLoop = true
				}
			}
		})
		if !isLoop {
			return false
		}
	}
	return true
}

// ---- merge iterator ----

func c22Merge(c *engine.Ctx, p *engine.Prog) {
	n := 0
	parentF := p.Field(c22Cache + ".cacheMergeIterator.parent")
	cacheF := p.Field(c22Cache + ".cacheMergeIterator.cache")
	if parentF == nil || cacheF == nil {
		c.Undecided("merge-case", "cacheMergeIterator fields", "parent/cache fields not found")
		return
	}
	type caseWant struct {
		lit   string
		calls []string // exact set of parent./cache./self. calls in the clause
	}
	tables := map[string][]caseWant{
		"Next":                     {{"-1", []string{"parent.Next"}}, {"0", []string{"cache.Next", "parent.Next"}}, {"1", []string{"cache.Next"}}},
		"Value":                    {{"-1", []string{"parent.Value"}}, {"0", []string{"cache.Value"}}, {"1", []string{"cache.Value"}}},
		"skipUntilExistsOrInvalid": {{"-1", nil}, {"0", []string{"cache.Next", "cache.Value", "parent.Next"}}, {"1", []string{"cache.Value", "self.skipCacheDeletes"}}},
	}
	for _, name := range []string{"Next", "Key", "Value", "skipUntilExistsOrInvalid"} {
		f := c.MustFunc(c22MI + name)
		if f == nil {
			continue
		}
		info := f.Info()
		keyFrom := func(fld *types.Var) func(ast.Expr) bool {
			return func(e ast.Expr) bool {
				cl, ok := ast.Unparen(e).(*ast.CallExpr)
				if !ok {
					return false
				}
				ff, m := sfMethodOnField(info, cl)
				return ff == fld && m == "Key"
			}
		}
		isCmp := func(e ast.Expr) bool {
			cl, ok := sfIsCallTo(info, e, c22MI+"compare")
			return ok && len(cl.Args) == 2 && sfDerives(f, cl.Args[0], keyFrom(parentF), 2) && sfDerives(f, cl.Args[1], keyFrom(cacheF), 2)
		}
		sws := sfSwitchOn(f, isCmp)
		if len(sws) != 1 {
			c.Undecided("merge-case", c22MI+name, "switch on iter.compare(parent key, cache key) not found (argument order matters)")
			continue
		}
		sw := sws[0]
		if name == "Key" {
			for _, tc := range []struct {
				lit string
				fld []*types.Var
			}{{"-1", []*types.Var{parentF}}, {"0", []*types.Var{parentF, cacheF}}, {"1", []*types.Var{cacheF}}} {
				cc := sfCaseOf(sw, tc.lit)
				ok := cc != nil && len(cc.Body) == 1
				if ok {
					r, isR := cc.Body[0].(*ast.ReturnStmt)
					ok = isR && len(r.Results) == 1
					if ok {
						hit := false
						for _, fl := range tc.fld {
							if sfDerives(f, r.Results[0], keyFrom(fl), 2) {
								hit = true
							}
						}
						ok = hit
					}
				}
				n++
				c.Check("merge-case", c22MI+"Key case "+tc.lit, sw.Pos(), ok, "Key must return the smaller key in iteration order (-1: parent, 1: cache, 0: either)")
			}
		} else {
			for _, tc := range tables[name] {
				cc := sfCaseOf(sw, tc.lit)
				var got []string
				if cc != nil {
					for _, st := range cc.Body {
						got = append(got, sfFieldMethodCalls(f, st)...)
					}
					got = sfSorted(got...)
					got = c22Uniq(got)
				}
				n++
				c.Check("merge-case", c22MI+name+" case "+tc.lit, sw.Pos(), cc != nil && sfEq(got, sfSorted(tc.calls...)),
					"calls in this case must be exactly {"+join(tc.calls)+"}, found {"+join(got)+"}")
			}
		}
		if name == "skipUntilExistsOrInvalid" {
			// in case 0 the parent/cache advance only when the cache value is nil (a delete); in case 1 the skip likewise
			for _, lit := range []string{"0", "1"} {
				cc := sfCaseOf(sw, lit)
				ok := cc != nil
				if ok {
					for _, s := range f.Calls() {
						if !sfWithin(cc, s.Node) || s.Call == nil {
							continue
						}
						fld, m := sfMethodOnField(info, s.Call)
						isAdv := (fld != nil && m == "Next") || strings.HasSuffix(s.CalleeName(), ".skipCacheDeletes")
						if !isAdv {
							continue
						}
						isNilVal := func(e ast.Expr) bool {
							a, b, op, isC := sfCmp(e)
							if !isC || op != token.EQL || !isNil(b) {
								return false
							}
							return sfDerives(f, a, func(x ast.Expr) bool {
								cl, ok := ast.Unparen(x).(*ast.CallExpr)
								if !ok {
									return false
								}
								ff, mm := sfMethodOnField(info, cl)
								return ff == cacheF && mm == "Value"
							}, 2)
						}
						if !sfHolds(f, s, true, isNilVal) {
							ok = false
						}
					}
				}
				n++
				c.Check("merge-case", c22MI+"skipUntilExistsOrInvalid case "+lit+" skips only deletes", sw.Pos(), ok, "items are skipped only when the cache value is nil (a delete marker)")
			}
		}
		if name != "skipUntilExistsOrInvalid" {
			// pre-switch: parent invalid -> cache only; cache invalid -> parent only
			for _, tc := range []struct {
				inval, use *types.Var
			}{{parentF, cacheF}, {cacheF, parentF}} {
				ok := false
				engine.InspectBody(f, func(x ast.Node) {
					is, isIf := x.(*ast.IfStmt)
					if !isIf || sfWithin(sw, is) {
						return
					}
					u, isU := ast.Unparen(is.Cond).(*ast.UnaryExpr)
					if !isU || u.Op != token.NOT {
						return
					}
					cl, isC := ast.Unparen(u.X).(*ast.CallExpr)
					if !isC {
						return
					}
					fld, m := sfMethodOnField(info, cl)
					if fld != tc.inval || m != "Valid" {
						return
					}
					calls := sfFieldMethodCalls(f, is.Body)
					good := len(calls) > 0
					for _, cn := range calls {
						if !strings.HasPrefix(cn, tc.use.Name()+".") {
							good = false
						}
					}
					if good {
						ok = true
					}
				})
				n++
				c.Check("merge-case", c22MI+name+" when "+tc.inval.Name()+" is exhausted uses only "+tc.use.Name(), f.Pos(), ok, "")
			}
		}
	}
	c.Floor("merge-case", n, 18)

	// compare: direction aware
	m := 0
	if f := c.MustFunc(c22MI + "compare"); f != nil {
		info := f.Info()
		ascF := p.Field(c22Cache + ".cacheMergeIterator.ascending")
		for _, r := range sfReturns(f) {
			st := f.SiteOf(r)
			if st == nil || len(r.Results) != 1 {
				continue
			}
			flips, found := c22Sign(f, r.Results[0])
			if !found {
				c.Check("merge-compare", c22MI+"compare return", r.Pos(), false, "return value is not a (possibly negated) bytes.Compare(a, b)")
				m++
				continue
			}
			isAsc := func(e ast.Expr) bool { return sfFieldSel(info, e, ascF) }
			asc := sfHolds(f, st, true, isAsc)
			desc := !asc // fallthrough return after `if iter.ascending {return}` : not dominated by a gate; treat as the else branch
			_ = desc
			want := 0
			if !asc {
				want = 1
			}
			m++
			c.Check("merge-compare", c22MI+"compare ascending="+map[bool]string{true: "true", false: "false"}[asc], r.Pos(), flips%2 == want,
				"ascending must order by bytes.Compare(a,b), descending by its negation")
		}
		// exactly one return is gated by ascending
		c.Check("merge-compare", c22MI+"compare has both directions", f.Pos(), m == 2, "expected two returns (ascending / descending)")
		m++
	}
	c.Floor("merge-compare", m, 3)

	// skipCacheDeletes: loop condition
	k := 0
	if f := c.MustFunc(c22MI + "skipCacheDeletes"); f != nil {
		info := f.Info()
		var loop *ast.ForStmt
		engine.InspectBody(f, func(x ast.Node) {
			if l, ok := x.(*ast.ForStmt); ok && loop == nil {
				loop = l
			}
		})
		ok := loop != nil && loop.Cond != nil
		if ok {
			hasValid, hasNilVal, hasBound := false, false, false
			for _, cj := range engine.Conjuncts(loop.Cond, token.LAND) {
				if cl, isC := ast.Unparen(cj).(*ast.CallExpr); isC {
					if fld, mm := sfMethodOnField(info, cl); fld == cacheF && mm == "Valid" {
						hasValid = true
					}
				}
				if a, b, op, isC := sfCmp(cj); isC && op == token.EQL && isNil(b) {
					if cl, isCall := ast.Unparen(a).(*ast.CallExpr); isCall {
						if fld, mm := sfMethodOnField(info, cl); fld == cacheF && mm == "Value" {
							hasNilVal = true
						}
					}
				}
				for _, dj := range engine.Conjuncts(cj, token.LOR) {
					if a, b, op, isC := sfCmp(dj); isC && op == token.LSS && sfIsIntLit(b, "0") {
						if cl, isCall := sfIsCallTo(info, a, c22MI+"compare"); isCall && len(cl.Args) == 2 && sfIsParam(f, cl.Args[1], 0) {
							hasBound = true
						}
					}
				}
			}
			ok = hasValid && hasNilVal && hasBound && sfEq(sfFieldMethodCalls(f, loop.Body), []string{"cache.Next"})
		}
		k++
		c.Check("merge-case", c22MI+"skipCacheDeletes loop", f.Pos(), ok, "loop must advance the cache only while it is valid, a delete marker, and strictly before `until` in iteration order")
	}
	c.Floor("merge-skip", k, 1)
}

func c22Uniq(xs []string) []string {
	var out []string
	for i, x := range xs {
		if i == 0 || x != xs[i-1] {
			out = append(out, x)
		}
	}
	return out
}

// c22Sign counts sign flips around a bytes.Compare(a,b) call where a,b are
// parameters 0,1 of f (swapped arguments count as one flip).
func c22Sign(f *engine.Fn, e ast.Expr) (flips int, ok bool) {
	info := f.Info()
	e = ast.Unparen(e)
	switch x := e.(type) {
	case *ast.CallExpr:
		if _, is := sfIsCallTo(info, x, "bytes.Compare"); is && len(x.Args) == 2 {
			if sfIsParam(f, x.Args[0], 0) && sfIsParam(f, x.Args[1], 1) {
				return 0, true
			}
			if sfIsParam(f, x.Args[0], 1) && sfIsParam(f, x.Args[1], 0) {
				return 1, true
			}
		}
	case *ast.UnaryExpr:
		if x.Op == token.SUB {
			n, ok := c22Sign(f, x.X)
			return n + 1, ok
		}
	case *ast.BinaryExpr:
		if x.Op == token.MUL {
			if sfIsIntLit(x.Y, "-1") {
				n, ok := c22Sign(f, x.X)
				return n + 1, ok
			}
			if sfIsIntLit(x.X, "-1") {
				n, ok := c22Sign(f, x.Y)
				return n + 1, ok
			}
		}
	}
	return 0, false
}

// ---- mem iterator ----

func c22Mem(c *engine.Ctx, p *engine.Prog) {
	const MI = c22Cache + ".(*memIterator)."
	n := 0
	ascF := p.Field(c22Cache + ".memIterator.ascending")
	itemsF := p.Field(c22Cache + ".memIterator.items")
	for _, name := range []string{"Key", "Value", "Next"} {
		f := c.MustFunc(MI + name)
		if f == nil {
			continue
		}
		info := f.Info()
		isAsc := func(e ast.Expr) bool { return sfFieldSel(info, e, ascF) }
		isLenM1 := func(e ast.Expr) bool {
			b, ok := ast.Unparen(e).(*ast.BinaryExpr)
			if !ok || b.Op != token.SUB || !sfIsIntLit(b.Y, "1") {
				return false
			}
			cl, ok := ast.Unparen(b.X).(*ast.CallExpr)
			return ok && engine.IsBuiltinCall(info, cl, "len") && sfFieldSel(info, cl.Args[0], itemsF)
		}
		front, back := 0, 0
		engine.InspectBody(f, func(x ast.Node) {
			var st *engine.Site
			var isFront, isBack bool
			switch e := x.(type) {
			case *ast.IndexExpr:
				if !sfFieldSel(info, e.X, itemsF) {
					return
				}
				isFront, isBack = sfIsIntLit(e.Index, "0"), isLenM1(e.Index)
				st = f.SiteOf(e)
			case *ast.SliceExpr:
				if !sfFieldSel(info, e.X, itemsF) {
					return
				}
				isFront = e.Low != nil && sfIsIntLit(e.Low, "1") && e.High == nil
				isBack = e.Low == nil && e.High != nil && isLenM1(e.High)
				st = f.SiteOf(e)
			default:
				return
			}
			if st == nil {
				return
			}
			asc := sfHolds(f, st, true, isAsc)
			ok := (asc && isFront) || (!asc && isBack)
			if asc {
				front++
			} else {
				back++
			}
			n++
			c.Check("mem-end", MI+name+" ascending="+map[bool]string{true: "true", false: "false"}[asc], st.Pos(), ok,
				"ascending consumes the front of the sorted slice, descending the back")
		})
		c.Check("mem-end", MI+name+" has both directions", f.Pos(), front == 1 && back == 1, "")
		n++
	}
	if f := c.MustFunc(c22Cache + ".newMemIterator"); f != nil {
		info := f.Info()
		for _, s := range f.CallsTo("builtin.append") {
			inDom := func(e ast.Expr) bool {
				cl, ok := sfIsCallTo(info, e, "tm2/pkg/db.IsKeyInDomain")
				return ok && len(cl.Args) == 3 && sfIsParam(f, cl.Args[1], 0) && sfIsParam(f, cl.Args[2], 1)
			}
			n++
			c.Check("mem-end", c22Cache+".newMemIterator keeps exactly the items in [start,end)", s.Pos(), sfHolds(f, s, true, inDom), "append must be gated by IsKeyInDomain(item.Key, start, end)")
		}
	}
	c.Floor("mem-end", n, 10)
}

// ---- writeLocked ----

func c22Write(c *engine.Ctx, p *engine.Prog) {
	f := c.MustFunc(c22CS + "writeLocked")
	n := 0
	if f == nil {
		return
	}
	info := f.Info()
	g := f.Graph()
	delF := p.Field(c22Cache + ".cValue.deleted")
	valF := p.Field(c22Cache + ".cValue.value")
	dirtyF := p.Field(c22Cache + ".cValue.dirty")
	isDeleted := func(e ast.Expr) bool { return sfFieldSel(info, e, delF) }
	isDirty := func(e ast.Expr) bool { return sfFieldSel(info, e, dirtyF) }
	isNilValue := func(e ast.Expr) bool {
		a, b, op, ok := sfCmp(e)
		return ok && op == token.EQL && isNil(b) && sfFieldSel(info, a, valF)
	}
	allowed := func(e ast.Expr) bool {
		for _, a := range engine.Atoms(e) {
			if !(isDeleted(a) || isNilValue(a) || c22IsDbAdapterOK(f, a) || c22IsErrNil(a)) {
				return false
			}
		}
		return true
	}
	dels, sets := 0, 0
	for _, s := range f.Calls() {
		nm := s.CalleeName()
		switch nm {
		case "tm2/pkg/db.(Batch).Delete", "tm2/pkg/store/types.(Store).Delete":
			dels++
			n++
			ok := sfHolds(f, s, true, isDeleted) && len(sfOtherGates(f, s, allowed)) == 0 && c22ExactGates(f, s, 1, isDeleted, isNilValue)
			c.Check("write-net", c22CS+"writeLocked "+nm, s.Pos(), ok, "a dirty key is deleted in the parent exactly when its entry is marked deleted (no other condition)")
		case "tm2/pkg/db.(Batch).Set", "tm2/pkg/store/types.(Store).Set":
			sets++
			n++
			ok := sfHolds(f, s, false, isDeleted) && sfHolds(f, s, false, isNilValue) && len(sfOtherGates(f, s, allowed)) == 0
			// value argument is the entry's value
			va := s.Call.Args[len(s.Call.Args)-1]
			ok = ok && sfFieldSel(info, va, valF)
			c.Check("write-net", c22CS+"writeLocked "+nm, s.Pos(), ok, "a dirty key is set in the parent, with the cached value, exactly when it is not deleted and its value is non-nil")
		}
	}
	c.Check("write-net", c22CS+"writeLocked handles both parent kinds", f.Pos(), dels == 2 && sets == 2, "expected Delete and Set on the batch path and on the plain path")
	n++
	for _, s := range f.CallsTo("builtin.append") {
		n++
		c.Check("write-net", c22CS+"writeLocked collects exactly the dirty keys", s.Pos(),
			sfHolds(f, s, true, isDirty) && len(sfOtherGates(f, s, func(e ast.Expr) bool { return isDirty(ast.Unparen(e)) })) == 0,
			"only entries with dirty==true are flushed (clean read-cache entries are not net changes), and all of them")
	}
	ss := f.CallsTo("sort.Strings")
	ok := len(ss) == 1
	if ok {
		for _, s := range f.Calls() {
			switch s.CalleeName() {
			case "tm2/pkg/db.(Batch).Delete", "tm2/pkg/store/types.(Store).Delete", "tm2/pkg/db.(Batch).Set", "tm2/pkg/store/types.(Store).Set":
				ok = ok && g.Dominates(ss[0], s)
			}
		}
	}
	c.Check("write-net", c22CS+"writeLocked sorts keys first", f.Pos(), ok, "parent writes must happen in sorted key order")
	n++
	bw := f.CallsTo("tm2/pkg/db.(Batch).Write")
	okw := len(bw) == 1
	if okw {
		for _, s := range f.CallsTo("tm2/pkg/db.(Batch).Set", "tm2/pkg/db.(Batch).Delete") {
			okw = okw && g.ReachableAfter(s, bw[0])
		}
		okw = okw && c22ErrPanics(f, bw[0])
	}
	c.Check("write-net", c22CS+"writeLocked batch is written and checked", f.Pos(), okw, "batch.Write() must follow the staged ops and its error must panic")
	n++
	cl := f.CallsTo(c22CS + "clear")
	c.Check("write-net", c22CS+"writeLocked clears the layer afterwards", f.Pos(), len(cl) == 1 && !cl[0].Deferred && len(g.Gates(cl[0])) == 0, "after the flush the layer must be empty on every path")
	n++
	c.Floor("write-net", n, 9)
}

func c22IsErrNil(e ast.Expr) bool {
	a, b, op, ok := sfCmp(e)
	if !ok || (op != token.NEQ && op != token.EQL) || !isNil(b) {
		return false
	}
	id, ok := ast.Unparen(a).(*ast.Ident)
	return ok && id.Name == "err"
}

// c22IsDbAdapterOK: the comma-ok of `store.parent.(dbadapterStore)`.
func c22IsDbAdapterOK(f *engine.Fn, e ast.Expr) bool {
	id, ok := ast.Unparen(e).(*ast.Ident)
	if !ok {
		return false
	}
	obj := f.Info().ObjectOf(id)
	defs, _ := sfDefs(f, obj)
	for _, d := range defs {
		if _, ok := ast.Unparen(d).(*ast.TypeAssertExpr); ok {
			return true
		}
	}
	return false
}

// c22ExactGates: number of data gates (matching any of preds) equals n.
func c22ExactGates(f *engine.Fn, s *engine.Site, n int, preds ...func(ast.Expr) bool) bool {
	k := 0
	for _, g := range f.Graph().Gates(s) {
		for _, a := range engine.Atoms(g.Cond) {
			for _, p := range preds {
				if p(a) {
					k++
				}
			}
		}
	}
	return k == n
}

// c22ErrPanics: the error result of call s is tested and the failing branch never returns normally.
func c22ErrPanics(f *engine.Fn, s *engine.Site) bool {
	return sfErrHandled(f, s.Call, true)
}

// ---- checkpoint ----

func c22Checkpoint(c *engine.Ctx, p *engine.Prog) {
	n := 0
	cacheF := p.Field(c22Cache + ".cacheStore.cache")
	chkF := p.Field(c22Cache + ".cacheStore.checkpointCache")
	if cacheF == nil || chkF == nil {
		c.Undecided("checkpoint", "cacheStore fields", "cache/checkpointCache not found")
		return
	}
	if f := c.MustFunc(c22CS + "WriteCheckpoint"); f != nil {
		info := f.Info()
		g := f.Graph()
		wl := f.CallsTo(c22CS + "writeLocked")
		var restore *engine.Site
		engine.InspectBody(f, func(x ast.Node) {
			as, ok := x.(*ast.AssignStmt)
			if ok && len(as.Lhs) == 1 && len(as.Rhs) == 1 && sfFieldSel(info, as.Lhs[0], cacheF) && sfFieldSel(info, as.Rhs[0], chkF) {
				restore = f.SiteOf(as)
			}
		})
		ok := len(wl) == 1 && restore != nil && g.Dominates(restore, wl[0])
		n++
		c.Check("checkpoint", c22CS+"WriteCheckpoint restores the snapshot before flushing", f.Pos(), ok, "store.cache = store.checkpointCache must dominate writeLocked()")
		isNilChk := func(e ast.Expr) bool {
			a, b, op, isC := sfCmp(e)
			return isC && op == token.EQL && isNil(b) && sfFieldSel(info, a, chkF)
		}
		n++
		c.Check("checkpoint", c22CS+"WriteCheckpoint requires an active checkpoint", f.Pos(), len(wl) == 1 && sfHolds(f, wl[0], false, isNilChk), "flush must be unreachable when checkpointCache == nil")
	}
	if f := c.MustFunc(c22CS + "Checkpoint"); f != nil {
		info := f.Info()
		ok := false
		engine.InspectBody(f, func(x ast.Node) {
			as, isAs := x.(*ast.AssignStmt)
			if !isAs || len(as.Lhs) != 1 || len(as.Rhs) != 1 || !sfFieldSel(info, as.Lhs[0], chkF) {
				return
			}
			if cl, isC := sfIsCallTo(info, as.Rhs[0], "maps.Clone"); isC && len(cl.Args) == 1 && sfFieldSel(info, cl.Args[0], cacheF) {
				ok = true
			}
		})
		n++
		c.Check("checkpoint", c22CS+"Checkpoint clones the cache map", f.Pos(), ok, "the snapshot must be a copy (maps.Clone(store.cache)), not an alias of the live map")
	}
	// cValue entries are immutable once stored: fields are written only in composite literals
	for _, fn := range []string{"value", "deleted", "dirty"} {
		fld := p.Field(c22Cache + ".cValue." + fn)
		ws := p.FieldWrites(fld)
		bad := engine.WriterSet(ws, func(w engine.Write) bool { return w.Kind != "lit" })
		n++
		c.Check("checkpoint", c22Cache+".cValue."+fn+" never mutated in place", token.NoPos, fld != nil && len(bad) == 0 && len(ws) >= 1,
			"the shallow checkpoint clone shares *cValue pointers; in-place writers: "+join(bad))
	}
	// every element stored into cache is a fresh &cValue{...}
	if f := c.MustFunc(c22CS + "setCacheValue"); f != nil {
		info := f.Info()
		ok := false
		engine.InspectBody(f, func(x ast.Node) {
			as, isAs := x.(*ast.AssignStmt)
			if !isAs || len(as.Lhs) != 1 {
				return
			}
			ix, isIx := as.Lhs[0].(*ast.IndexExpr)
			if !isIx || !sfFieldSel(info, ix.X, cacheF) {
				return
			}
			u, isU := ast.Unparen(as.Rhs[0]).(*ast.UnaryExpr)
			if isU && u.Op == token.AND {
				if _, isLit := u.X.(*ast.CompositeLit); isLit {
					ok = true
				}
			}
		})
		n++
		c.Check("checkpoint", c22CS+"setCacheValue stores a fresh entry", f.Pos(), ok, "store.cache[k] must be assigned a new &cValue{…}")
	}
	c.Floor("checkpoint", n, 7)
}

// ---- who may write the cache maps ----

func c22Writers(c *engine.Ctx, p *engine.Prog) {
	n := 0
	type tab struct {
		field           string
		direct, through []string
	}
	for _, t := range []tab{
		{"cache", []string{c22Cache + ".New", c22CS + "clear", c22CS + "WriteCheckpoint"}, []string{c22CS + "setCacheValue"}},
		{"unsortedCache", []string{c22Cache + ".New", c22CS + "clear"}, []string{c22CS + "setCacheValue", c22CS + "dirtyItems"}},
		{"sortedCache", []string{c22Cache + ".New", c22CS + "clear"}, nil},
		{"checkpointCache", []string{c22CS + "clear", c22CS + "WriteCheckpoint", c22CS + "Checkpoint"}, nil},
	} {
		fld := p.Field(c22Cache + ".cacheStore." + t.field)
		if fld == nil {
			c.Undecided("who-may-write", c22Cache+".cacheStore."+t.field, "field not found")
			continue
		}
		ws := p.FieldWrites(fld)
		d := engine.WriterSet(ws, func(w engine.Write) bool { return w.Direct })
		th := engine.WriterSet(ws, func(w engine.Write) bool { return !w.Direct })
		n++
		c.Check("who-may-write", c22Cache+".cacheStore."+t.field, token.NoPos,
			len(engine.SetDiff(d, t.direct)) == 0 && len(engine.SetDiff(th, t.through)) == 0,
			"direct writers: "+join(d)+"; element writers: "+join(th))
	}
	c.Floor("who-may-write", n, 4)
}

// ---- lock discipline ----

func c22Locks(c *engine.Ctx, p *engine.Prog) {
	guarded := map[*types.Var]bool{}
	for _, fn := range []string{"cache", "unsortedCache", "sortedCache", "chargedGas", "checkpointCache", "checkpointChargedGas"} {
		if v := p.Field(c22Cache + ".cacheStore." + fn); v != nil {
			guarded[v] = true
		}
	}
	callerHolds := map[string]bool{c22CS + "writeLocked": true, c22CS + "clear": true, c22CS + "dirtyItems": true, c22CS + "setCacheValue": true}
	exempt := map[string]string{c22CS + "Print": "debug dump, not a store operation"}
	n := 0
	locking := map[string]bool{}
	for _, f := range sfMethodsOf(p, c22Cache, "cacheStore") {
		touches := false
		for _, root := range append([]*engine.Fn{f}, f.AllLits()...) {
			ast.Inspect(root.Body, func(x ast.Node) bool {
				if se, ok := x.(*ast.SelectorExpr); ok {
					if v, ok := f.Info().Uses[se.Sel].(*types.Var); ok && guarded[v.Origin()] {
						touches = true
					}
				}
				return true
			})
		}
		for _, root := range append([]*engine.Fn{f}, f.AllLits()...) {
			for _, s := range root.Calls() {
				if callerHolds[s.CalleeName()] {
					touches = true
				}
			}
		}
		if !touches || exempt[f.Name] != "" {
			continue
		}
		if callerHolds[f.Name] {
			continue
		}
		ok, why := locksFirst(f, "mtx")
		if ok {
			locking[f.Name] = true
		}
		n++
		c.Check("holds-lock", f.Name, f.Pos(), ok, why)
	}
	for name := range callerHolds {
		callers := engine.CallerSet(p.RefsToFunc(name))
		var bad []string
		for _, cl := range callers {
			if !locking[cl] && !callerHolds[cl] {
				bad = append(bad, cl)
			}
		}
		n++
		c.Check("holds-lock", name+" callers hold mtx", token.NoPos, len(bad) == 0 && len(callers) > 0, "callers without the lock: "+join(bad))
	}
	c.Floor("holds-lock", n, 12)
}

// ---- prefix store ----

func c22PrefixRules(c *engine.Ctx, p *engine.Prog) {
	const PS = c22Prefix + ".(Store)."
	parentF := p.Field(c22Prefix + ".Store.parent")
	prefixF := p.Field(c22Prefix + ".Store.prefix")
	n := 0
	for _, name := range []string{"Get", "Has", "Set", "Delete"} {
		f := c.MustFunc(PS + name)
		if f == nil {
			continue
		}
		info := f.Info()
		cnt := 0
		for _, s := range f.Calls() {
			fld, m := sfMethodOnField(info, s.Call)
			if fld != parentF || parentF == nil {
				continue
			}
			cnt++
			ok := m == name && len(s.Call.Args) >= 2
			if ok {
				cl, isC := sfIsCallTo(info, s.Call.Args[1], PS+"key")
				ok = isC && len(cl.Args) == 1 && sfIsParam(f, cl.Args[0], 1)
			}
			if ok && name == "Set" {
				ok = len(s.Call.Args) == 3 && sfIsParam(f, s.Call.Args[2], 2)
			}
			n++
			c.Check("prefix-key", PS+name+" -> parent."+m, s.Pos(), ok, "the parent must be called with the same operation and the key s.key(key) (prefix prepended)")
		}
		c.Check("prefix-key", PS+name+" calls the parent once", f.Pos(), cnt == 1, "")
		n++
	}
	if f := c.MustFunc(PS + "key"); f != nil {
		info := f.Info()
		ok := false
		for _, s := range f.CallsTo(c22Prefix + ".cloneAppend") {
			if len(s.Call.Args) == 2 && sfFieldSel(info, s.Call.Args[0], prefixF) && sfIsParam(f, s.Call.Args[1], 0) {
				if as, isAs := s.Top.(*ast.AssignStmt); isAs && engine.ObjOf(info, as.Lhs[0]) == sfNamedResult(f, 0) {
					ok = true
				}
				if _, isR := s.Top.(*ast.ReturnStmt); isR {
					ok = true
				}
			}
		}
		n++
		c.Check("prefix-key", PS+"key = prefix ++ key", f.Pos(), ok, "key() must return cloneAppend(s.prefix, key)")
	}
	if f := c.MustFunc(c22Prefix + ".cloneAppend"); f != nil {
		info := f.Info()
		res := sfNamedResult(f, 0)
		head, tail := false, false
		for _, s := range f.CallsTo("builtin.copy") {
			a := s.Call.Args
			if engine.ObjOf(info, a[0]) == res && res != nil && sfIsParam(f, a[1], 0) {
				head = true
			}
			if sl, isS := ast.Unparen(a[0]).(*ast.SliceExpr); isS && engine.ObjOf(info, sl.X) == res && sl.High == nil && sl.Low != nil && engine.IsLenOf(info, sl.Low, paramObj(f, 0)) && sfIsParam(f, a[1], 1) {
				tail = true
			}
		}
		n++
		c.Check("prefix-key", c22Prefix+".cloneAppend concatenates", f.Pos(), head && tail, "res must be bz followed by tail (copy(res,bz); copy(res[len(bz):],tail))")
	}
	m := 0
	for _, name := range []string{"Iterator", "ReverseIterator"} {
		f := c.MustFunc(PS + name)
		if f == nil {
			continue
		}
		info := f.Info()
		var pc *engine.Site
		cnt := 0
		for _, s := range f.Calls() {
			if fld, _ := sfMethodOnField(info, s.Call); fld == parentF && parentF != nil {
				pc = s
				cnt++
			}
		}
		if cnt != 1 {
			c.Undecided("prefix-range", PS+name, "expected exactly one parent call")
			continue
		}
		_, mth := sfMethodOnField(info, pc.Call)
		a := pc.Call.Args
		isStart := func(e ast.Expr) bool {
			cl, ok := sfIsCallTo(info, e, c22Prefix+".cloneAppend")
			return ok && sfFieldSel(info, cl.Args[0], prefixF) && sfIsParam(f, cl.Args[1], 1)
		}
		okDir := mth == name && len(a) == 3 && sfIsParam(f, a[0], 0)
		m++
		c.Check("prefix-range", PS+name+" uses parent."+name, pc.Pos(), okDir, "direction must be preserved")
		m++
		c.Check("prefix-range", PS+name+" start = prefix ++ start", pc.Pos(), len(a) == 3 && sfDerives(f, a[1], isStart, 2), "")
		// end: two defs, gated by end == nil
		okEnd := false
		if id, isId := ast.Unparen(a[2]).(*ast.Ident); isId && len(a) == 3 {
			obj := info.ObjectOf(id)
			nilDef, nonNilDef, other := 0, 0, 0
			engine.InspectBody(f, func(x ast.Node) {
				as, isAs := x.(*ast.AssignStmt)
				if !isAs || len(as.Lhs) != 1 || engine.ObjOf(info, as.Lhs[0]) != obj {
					return
				}
				st := f.SiteOf(as)
				if st == nil {
					other++
					return
				}
				endNil := func(e ast.Expr) bool {
					x, y, op, isC := sfCmp(e)
					return isC && op == token.EQL && isNil(y) && sfIsParam(f, x, 2)
				}
				endNotNil := func(e ast.Expr) bool {
					x, y, op, isC := sfCmp(e)
					return isC && op == token.NEQ && isNil(y) && sfIsParam(f, x, 2)
				}
				if cl, isC := sfIsCallTo(info, as.Rhs[0], c22Prefix+".cpIncr"); isC && sfFieldSel(info, cl.Args[0], prefixF) &&
					(sfHolds(f, st, true, endNil) || sfHolds(f, st, false, endNotNil)) {
					nilDef++
				} else if cl, isC := sfIsCallTo(info, as.Rhs[0], c22Prefix+".cloneAppend"); isC && sfFieldSel(info, cl.Args[0], prefixF) && sfIsParam(f, cl.Args[1], 2) &&
					(sfHolds(f, st, false, endNil) || sfHolds(f, st, true, endNotNil)) {
					nonNilDef++
				} else {
					other++
				}
			})
			okEnd = nilDef == 1 && nonNilDef == 1 && other == 0
		}
		m++
		c.Check("prefix-range", PS+name+" end = cpIncr(prefix) | prefix ++ end", pc.Pos(), okEnd, "an open end must become the end of the prefix range, a given end must be prefixed")
		// result wraps with newPrefixIterator(s.prefix, start, end, iter)
		okWrap := false
		for _, s := range f.CallsTo(c22Prefix + ".newPrefixIterator") {
			b := s.Call.Args
			fromParent := func(e ast.Expr) bool { return ast.Unparen(e) == ast.Expr(pc.Call) }
			if len(b) == 4 && sfFieldSel(info, b[0], prefixF) && sfIsParam(f, b[1], 1) && sfIsParam(f, b[2], 2) && sfDerives(f, b[3], fromParent, 2) {
				if _, isR := s.Top.(*ast.ReturnStmt); isR {
					okWrap = true
				}
			}
		}
		m++
		c.Check("prefix-range", PS+name+" returns a prefix-stripping iterator", f.Pos(), okWrap, "")
	}
	if f := c.MustFunc(c22Prefix + ".cpIncr"); f != nil {
		cl := f.CallsTo("tm2/pkg/store/types.PrefixEndBytes")
		m++
		c.Check("prefix-range", c22Prefix+".cpIncr = PrefixEndBytes", f.Pos(), len(cl) == 1 && sfIsParam(f, cl[0].Call.Args[0], 0), "")
	}
	c.Floor("prefix-key", n, 10)
	c.Floor("prefix-range", m, 9)

	// stripping
	k := 0
	const PI = c22Prefix + ".(*prefixIterator)."
	iterF := p.Field(c22Prefix + ".prefixIterator.iter")
	pfxF := p.Field(c22Prefix + ".prefixIterator.prefix")
	validF := p.Field(c22Prefix + ".prefixIterator.valid")
	if f := c.MustFunc(PI + "Key"); f != nil {
		info := f.Info()
		ok := false
		for _, s := range f.CallsTo(c22Prefix + ".stripPrefix") {
			a := s.Call.Args
			fromIter := func(e ast.Expr) bool {
				cl, isC := ast.Unparen(e).(*ast.CallExpr)
				if !isC {
					return false
				}
				fld, mm := sfMethodOnField(info, cl)
				return fld == iterF && mm == "Key"
			}
			// the key variable may be re-assigned from stripPrefix(key, …): accept the named result whose first def is iter.Key()
			d := sfDerives(f, a[0], fromIter, 2)
			if !d {
				if id, isId := ast.Unparen(a[0]).(*ast.Ident); isId {
					defs, _ := sfDefs(f, info.ObjectOf(id))
					for _, df := range defs {
						if fromIter(df) {
							d = true
						}
					}
				}
			}
			if len(a) == 2 && d && sfFieldSel(info, a[1], pfxF) {
				ok = true
			}
		}
		// every return value must come from stripPrefix
		k++
		c.Check("prefix-strip", PI+"Key strips the prefix", f.Pos(), ok, "Key() must return stripPrefix(iter.iter.Key(), iter.prefix)")
	}
	if f := c.MustFunc(c22Prefix + ".stripPrefix"); f != nil {
		info := f.Info()
		ok := false
		for _, r := range sfReturns(f) {
			if len(r.Results) == 1 {
				if sl, isS := ast.Unparen(r.Results[0]).(*ast.SliceExpr); isS && sfIsParam(f, sl.X, 0) && sl.High == nil && sl.Low != nil && engine.IsLenOf(info, sl.Low, paramObj(f, 1)) {
					ok = true
				}
			}
		}
		k++
		c.Check("prefix-strip", c22Prefix+".stripPrefix returns key[len(prefix):]", f.Pos(), ok, "")
	}
	hasPrefixOf := func(f *engine.Fn, e ast.Expr) bool {
		info := f.Info()
		cl, ok := sfIsCallTo(info, e, "bytes.HasPrefix")
		return ok && len(cl.Args) == 2
	}
	if f := c.MustFunc(PI + "Next"); f != nil {
		info := f.Info()
		ok := false
		engine.InspectBody(f, func(x ast.Node) {
			as, isAs := x.(*ast.AssignStmt)
			if !isAs || len(as.Lhs) != 1 || !sfFieldSel(info, as.Lhs[0], validF) {
				return
			}
			st := f.SiteOf(as)
			if st == nil {
				return
			}
			if id, isId := as.Rhs[0].(*ast.Ident); !isId || id.Name != "false" {
				return
			}
			// reached when !HasPrefix(...) (true branch of an || containing it)
			for _, g := range f.Graph().Gates(st) {
				if !g.OnTrue {
					continue
				}
				for _, dj := range engine.Conjuncts(g.Cond, token.LOR) {
					if u, isU := ast.Unparen(dj).(*ast.UnaryExpr); isU && u.Op == token.NOT && hasPrefixOf(f, u.X) {
						ok = true
					}
				}
			}
		})
		nx := 0
		for _, s := range f.Calls() {
			if fld, mm := sfMethodOnField(info, s.Call); fld == iterF && mm == "Next" {
				nx++
			}
		}
		k++
		c.Check("prefix-strip", PI+"Next invalidates on leaving the prefix", f.Pos(), ok && nx == 1, "after advancing, a key without the prefix must end the iteration")
	}
	if f := c.MustFunc(c22Prefix + ".newPrefixIterator"); f != nil {
		ok := false
		ast.Inspect(f.Body, func(x ast.Node) bool {
			kv, isKV := x.(*ast.KeyValueExpr)
			if !isKV {
				return true
			}
			if id, isId := kv.Key.(*ast.Ident); isId && id.Name == "valid" {
				for _, cj := range engine.Conjuncts(kv.Value, token.LAND) {
					if hasPrefixOf(f, cj) {
						ok = true
					}
				}
			}
			return true
		})
		k++
		c.Check("prefix-strip", c22Prefix+".newPrefixIterator starts valid only inside the prefix", f.Pos(), ok, "")
	}
	c.Floor("prefix-strip", k, 4)
}

// ---- cachemulti ----

func c22MultiRules(c *engine.Ctx, p *engine.Prog) {
	const MS = c22Multi + ".(Store)."
	storesF := p.Field(c22Multi + ".Store.stores")
	n := 0
	for _, tc := range []struct{ fn, callee string }{
		{"MultiWrite", "tm2/pkg/store/types.(Store).Write"},
		{"Checkpoint", "tm2/pkg/store/types.(Checkpointable).Checkpoint"},
		{"WriteCheckpoint", "tm2/pkg/store/types.(Checkpointable).WriteCheckpoint"},
	} {
		f := c.MustFunc(MS + tc.fn)
		if f == nil {
			continue
		}
		info := f.Info()
		calls := f.CallsTo(tc.callee)
		ok := len(calls) == 1
		if ok {
			s := calls[0]
			inRange := false
			engine.InspectBody(f, func(x ast.Node) {
				if rs, isR := x.(*ast.RangeStmt); isR && sfFieldSel(info, rs.X, storesF) && sfWithin(rs.Body, s.Node) {
					inRange = true
				}
			})
			ok = inRange && len(f.Graph().Gates(s)) == 0 && !s.Deferred
		}
		n++
		c.Check("multi-fanout", MS+tc.fn, f.Pos(), ok, "must call "+tc.callee+" on every sub-store, unconditionally")
	}
	if f := c.MustFunc(c22Multi + ".NewFromStores"); f != nil {
		calls := f.CallsTo("tm2/pkg/store/types.(Store).CacheWrap")
		ok := len(calls) == 1 && len(f.Graph().Gates(calls[0])) == 0
		n++
		c.Check("multi-fanout", c22Multi+".NewFromStores cache-wraps every store", f.Pos(), ok, "")
	}
	c.Floor("multi-fanout", n, 4)
}

// ---- the cache entry each operation records ----

func c22OpEntry(c *engine.Ctx, p *engine.Prog) {
	n := 0
	lit := func(e ast.Expr, name string) bool {
		id, ok := ast.Unparen(e).(*ast.Ident)
		return ok && id.Name == name
	}
	for _, tc := range []struct {
		fn             string
		valueParam     int // index of the value parameter, -1: nil, -2: fetched from the parent
		deleted, dirty string
	}{
		{"Get", -2, "false", "false"},
		{"Set", 2, "false", "true"},
		{"Delete", -1, "true", "true"},
	} {
		f := c.MustFunc(c22CS + tc.fn)
		if f == nil {
			continue
		}
		info := f.Info()
		ss := f.CallsTo(c22CS + "setCacheValue")
		ok := len(ss) == 1
		why := "expected exactly one setCacheValue call"
		if ok {
			a := ss[0].Call.Args
			ok = len(a) == 4 && sfIsParam(f, a[0], 1) && lit(a[2], tc.deleted) && lit(a[3], tc.dirty)
			why = "entry must be recorded as (key, value, deleted=" + tc.deleted + ", dirty=" + tc.dirty + ")"
			switch {
			case !ok:
			case tc.valueParam >= 0:
				ok = sfIsParam(f, a[1], tc.valueParam)
			case tc.valueParam == -1:
				ok = isNil(a[1])
			default:
				parentF := p.Field(c22Cache + ".cacheStore.parent")
				fromParent := func(e ast.Expr) bool {
					cl, isC := ast.Unparen(e).(*ast.CallExpr)
					if !isC {
						return false
					}
					fld, m := sfMethodOnField(info, cl)
					return fld == parentF && m == "Get" && len(cl.Args) == 2 && sfIsParam(f, cl.Args[1], 1)
				}
				// every definition of the value that can reach the call is parent.Get(key)
				vobj := engine.ObjOf(info, a[1])
				reaching := 0
				ok = vobj != nil
				engine.InspectBody(f, func(x ast.Node) {
					as, isAs := x.(*ast.AssignStmt)
					if !isAs || len(as.Lhs) != 1 || engine.ObjOf(info, as.Lhs[0]) != vobj {
						return
					}
					st := f.SiteOf(as)
					if st == nil || !f.Graph().ReachableAfter(st, ss[0]) {
						return
					}
					reaching++
					if !fromParent(as.Rhs[0]) {
						ok = false
					}
				})
				ok = ok && reaching >= 1
				why = "a read miss must cache exactly what parent.Get(key) returned, as a clean entry"
			}
		}
		n++
		c.Check("op-entry", c22CS+tc.fn, f.Pos(), ok, why)
	}
	// a cache hit answers from the entry
	if f := c.MustFunc(c22CS + "Get"); f != nil {
		info := f.Info()
		valF := p.Field(c22Cache + ".cValue.value")
		cacheF := p.Field(c22Cache + ".cacheStore.cache")
		hit := false
		engine.InspectBody(f, func(x ast.Node) {
			as, ok := x.(*ast.AssignStmt)
			if !ok || len(as.Lhs) != 1 || len(as.Rhs) != 1 || !sfFieldSel(info, as.Rhs[0], valF) {
				return
			}
			if engine.ObjOf(info, as.Lhs[0]) != sfNamedResult(f, 0) {
				return
			}
			st := f.SiteOf(as)
			hit = st != nil && (sfHolds(f, st, true, func(e ast.Expr) bool { return c22IsMapOK(f, e, cacheF) }))
		})
		n++
		c.Check("op-entry", c22CS+"Get answers a hit from the cached entry", f.Pos(), hit, "on a hit (comma-ok of store.cache[key]) the result is the entry's value (nil for a deleted key)")
	}
	c.Floor("op-entry", n, 4)
}

// c22IsMapOK: e is the comma-ok variable of an index into the given map field.
func c22IsMapOK(f *engine.Fn, e ast.Expr, mapField *types.Var) bool {
	id, ok := ast.Unparen(e).(*ast.Ident)
	if !ok {
		return false
	}
	obj := f.Info().ObjectOf(id)
	found := false
	engine.InspectBody(f, func(n ast.Node) {
		as, ok := n.(*ast.AssignStmt)
		if !ok || len(as.Lhs) != 2 || len(as.Rhs) != 1 || engine.ObjOf(f.Info(), as.Lhs[1]) != obj {
			return
		}
		if ix, ok := ast.Unparen(as.Rhs[0]).(*ast.IndexExpr); ok && sfFieldSel(f.Info(), ix.X, mapField) {
			found = true
		}
	})
	return found
}
