package checks

import (
	"go/ast"
	"go/token"
	"go/types"
	"strings"

	"gnoverif/engine"
)

// C22 — cache / prefix / cachemulti layers behave like an ordered-map overlay.
func init() {
	register("C22", c22)
	meta("C22", Meta{
		Text:      "Decides structural necessary conditions of the overlay model on the cache, prefix and cachemulti stores: direction and range arguments flow unchanged from Iterator/ReverseIterator to the parent iterator, the dirty-item sort and both sub-iterators; the merge iterator's per-comparison case tables (who advances, whose key/value wins, delete shadowing) and the direction-aware compare; the mem-iterator's end selection; writeLocked applies {deleted→Delete, nil→skip, else→Set} over sorted dirty keys only and then clears; checkpoint restore precedes the flush and cache entries are never mutated in place; who may write the cache maps; lock discipline of cacheStore; prefix.Store prefixes every key/range handed to the parent and strips it on the way back; cachemulti fans Write/Checkpoint out to every sub-store unconditionally. Level 'other': code-shape clauses over all paths of the anchored functions.",
		Note:      "Not covered: equivalence of a whole operation history with the model (iteration interleaved with writes, domain corner cases of IsKeyInDomain/PrefixEndBytes values), gas accounting, tm2/pkg/db/collecting.go read-your-writes (see C27/C29). && and || are treated as one condition by the CFG.",
		Technique: "go/cfg gates + per-case callee tables (sibling agreement), who-may-write tables, lock dominance, local def-use for argument provenance",
		Ref:       "DESIGN.md §2 C22",
	})
	const cs = "tm2/pkg/store/cache/store.go"
	const mi = "tm2/pkg/store/cache/mergeiterator.go"
	const me = "tm2/pkg/store/cache/memiterator.go"
	const ps = "tm2/pkg/store/prefix/store.go"
	mutants("C22",
		Mutant{"reverse-uses-forward-parent", cs, "parent = store.parent.ReverseIterator(nil, start, end)", "parent = store.parent.Iterator(nil, start, end)", "iter-dir"},
		Mutant{"merge-flag-constant", cs, "newCacheMergeIterator(parent, cache, ascending)", "newCacheMergeIterator(parent, cache, true)", "iter-dir"},
		Mutant{"dirty-after-memiter", cs, "store.dirtyItems(start, end)\n\tcache = newMemIterator(start, end, store.sortedCache, ascending)", "cache = newMemIterator(start, end, store.sortedCache, ascending)\n\tstore.dirtyItems(start, end)", "iter-dir"},
		Mutant{"tie-returns-parent-value", mi, "case 0: // parent == cache\n\t\treturn iter.cache.Value()", "case 0: // parent == cache\n\t\treturn iter.parent.Value()", "merge-case"},
		Mutant{"tie-next-skips-cache", mi, "case 0: // parent == cache\n\t\titer.parent.Next()\n\t\titer.cache.Next()\n\tcase 1", "case 0: // parent == cache\n\t\titer.parent.Next()\n\tcase 1", "merge-case"},
		Mutant{"delete-does-not-shadow-parent", mi, "if valueC == nil {\n\t\t\t\titer.parent.Next()\n\t\t\t\titer.cache.Next()\n\t\t\t\tcontinue", "if valueC == nil {\n\t\t\t\titer.cache.Next()\n\t\t\t\tcontinue", "merge-case"},
		Mutant{"compare-not-reversed", mi, "return bytes.Compare(a, b) * -1", "return bytes.Compare(a, b) * 1", "merge-compare"},
		Mutant{"memiter-desc-key-front", me, "return mi.items[len(mi.items)-1].Key", "return mi.items[0].Key", "mem-end"},
		Mutant{"write-skips-delete-of-empty", cs, "\t\t\tif cacheValue.deleted {\n\t\t\t\tstore.parent.Delete(nil, []byte(key))", "\t\t\tif cacheValue.deleted && cacheValue.value != nil {\n\t\t\t\tstore.parent.Delete(nil, []byte(key))", "write-net"},
		Mutant{"write-flushes-clean-entries", cs, "\t\tif dbValue.dirty {\n\t\t\tkeys = append(keys, key)\n\t\t}", "\t\tif dbValue.dirty || dbValue.value != nil {\n\t\t\tkeys = append(keys, key)\n\t\t}", "write-net"},
		Mutant{"delete-not-marked-deleted", cs, "store.setCacheValue(key, nil, true, true)", "store.setCacheValue(key, nil, false, true)", "op-entry"},
		Mutant{"read-miss-marked-dirty", cs, "store.setCacheValue(key, value, false, false)", "store.setCacheValue(key, value, false, true)", "op-entry"},
		Mutant{"checkpoint-restore-after-flush", cs, "\tstore.cache = store.checkpointCache\n\tstore.chargedGas = store.checkpointChargedGas\n\tstore.checkpointCache = nil\n\tstore.checkpointChargedGas = nil\n\tstore.writeLocked()\n}", "\tsaved := store.checkpointCache\n\tstore.writeLocked()\n\tstore.cache = saved\n}", "checkpoint"},
		Mutant{"checkpoint-aliases-live-map", cs, "store.checkpointCache = maps.Clone(store.cache)", "store.checkpointCache = store.cache", "checkpoint"},
		Mutant{"in-place-cvalue-update", cs, "\tif dirty {\n\t\tstore.unsortedCache[string(key)] = struct{}{}\n\t}", "\tif dirty {\n\t\tstore.unsortedCache[string(key)] = struct{}{}\n\t\tstore.cache[string(key)].dirty = true\n\t}", "checkpoint"},
		Mutant{"haschk-unlocked", cs, "func (store *cacheStore) HasCheckpoint() bool {\n\tstore.mtx.Lock()\n\tdefer store.mtx.Unlock()", "func (store *cacheStore) HasCheckpoint() bool {", "holds-lock"},
		Mutant{"prefix-delete-raw-key", ps, "s.parent.Delete(gctx, s.key(key))", "s.parent.Delete(gctx, key)", "prefix-key"},
		Mutant{"prefix-open-end", ps, "\tif end == nil {\n\t\tnewend = cpIncr(s.prefix)\n\t} else {\n\t\tnewend = cloneAppend(s.prefix, end)\n\t}\n\n\titer := s.parent.ReverseIterator", "\tif end != nil {\n\t\tnewend = cloneAppend(s.prefix, end)\n\t}\n\n\titer := s.parent.ReverseIterator", "prefix-range"},
		Mutant{"prefix-key-not-stripped", ps, "key = stripPrefix(key, iter.prefix)", "key = stripPrefix(key, nil)", "prefix-strip"},
		Mutant{"multiwrite-partial", "tm2/pkg/store/cachemulti/store.go", "\tfor _, store := range cms.stores {\n\t\tstore.Write()\n\t}", "\tfor k, store := range cms.stores {\n\t\tif k != nil {\n\t\t\tstore.Write()\n\t\t}\n\t}", "multi-fanout"},
	)
}

const (
	c22Cache  = "tm2/pkg/store/cache"
	c22Prefix = "tm2/pkg/store/prefix"
	c22Multi  = "tm2/pkg/store/cachemulti"
	c22CS     = c22Cache + ".(*cacheStore)."
	c22MI     = c22Cache + ".(*cacheMergeIterator)."
)

func c22(c *engine.Ctx) {
	c.Explain = "Structural clauses of the overlay model (see manifest text): iterator direction/range plumbing, merge-iterator case tables, direction-aware compare, mem-iterator end selection, net-change flush, checkpoint restore order and no in-place cValue mutation, who-may-write cache maps, cacheStore lock discipline, prefix key/range layering and stripping, cachemulti fan-out. Not covered: whole-history model equivalence, gas, IsKeyInDomain/PrefixEndBytes value semantics."
	p := c.Load(c22Cache, c22Prefix, c22Multi)
	if p == nil {
		return
	}
	c22IterDir(c, p)
	c22Merge(c, p)
	c22Mem(c, p)
	c22Write(c, p)
	c22OpEntry(c, p)
	c22Checkpoint(c, p)
	c22Writers(c, p)
	c22Locks(c, p)
	c22PrefixRules(c, p)
	c22MultiRules(c, p)
}

// All rules below are phrased over *facts that hold at a site* (polarity of the
// dominating conditions, case labels, helper-boolean expansion) and over
// *origins of values* (locals, helper parameters and helper results are
// followed), so that extracting helpers, inverting conditions, renaming
// locals or switching between if-chains and switches does not change a verdict.

func c22Bool(b bool) string {
	if b {
		return "true"
	}
	return "false"
}

// ---- iterator direction / range plumbing ----

func c22IterDir(c *engine.Ctx, p *engine.Prog) {
	n := 0
	for _, tc := range []struct {
		name string
		asc  bool
	}{{"Iterator", true}, {"ReverseIterator", false}} {
		f := c.MustFunc(c22CS + tc.name)
		if f == nil {
			continue
		}
		ds := sfDeepCallsTo(f, 2, c22CS+"iterator")
		ok := len(ds) == 1
		why := "must make exactly one call store.iterator(gctx, start, end, " + c22Bool(tc.asc) + ")"
		if ok {
			d := ds[0]
			ok = len(d.site.Call.Args) == 4 && d.rootParam(0) == 0 && d.rootParam(1) == 1 && d.rootParam(2) == 2 && len(d.facts()) == 0
			if ok {
				v, isC := sfConstBool(d.info(), d.arg(3))
				ok = isC && v == tc.asc
			}
		}
		n++
		c.Check("iter-dir", c22CS+tc.name+" passes ascending="+c22Bool(tc.asc), f.Pos(), ok, why)
	}
	f := c.MustFunc(c22CS + "iterator")
	if f == nil {
		c.Floor("iter-dir", n, 9)
		return
	}
	isAsc := func(cx *sfCtx, e ast.Expr) bool { return sfRootParam(cx, e) == 3 }
	parentField := p.Field(c22Cache + ".cacheStore.parent")
	fwd, rev := 0, 0
	for _, d := range sfDeepFieldCalls(f, 3, parentField, "Iterator", "ReverseIterator") {
		_, m := sfMethodOnField(d.info(), d.site.Call)
		want := m == "Iterator"
		if want {
			fwd++
		} else {
			rev++
		}
		facts := d.facts()
		ok := sfKnown(facts, want, isAsc) && !sfKnown(facts, !want, isAsc)
		argsOK := len(d.site.Call.Args) == 3 && d.rootParam(1) == 1 && d.rootParam(2) == 2
		n++
		c.Check("iter-dir", c22CS+"iterator parent."+m+" iff ascending="+c22Bool(want), d.where(), ok && argsOK,
			"parent."+m+" must run exactly when ascending is "+c22Bool(want)+", with (start, end) unchanged")
	}
	n++
	c.Check("iter-dir", c22CS+"iterator has both parent directions", f.Pos(), fwd >= 1 && rev >= 1, "expected a parent.Iterator and a parent.ReverseIterator call")
	di := sfDeepCallsTo(f, 2, c22CS+"dirtyItems")
	nm := sfDeepCallsTo(f, 2, c22Cache+".newMemIterator")
	mg := sfDeepCallsTo(f, 2, c22Cache+".newCacheMergeIterator")
	if len(di) == 1 && len(nm) == 1 && len(mg) == 1 {
		c.Check("iter-dir", c22CS+"iterator dirtyItems(start,end) before newMemIterator", di[0].where(),
			len(di[0].site.Call.Args) == 2 && di[0].rootParam(0) == 1 && di[0].rootParam(1) == 2 && sfDomDS(di[0], nm[0]) && len(di[0].facts()) == 0,
			"the dirty items of [start,end) must be merged into sortedCache, unconditionally, before the mem iterator copies it")
		sorted := p.Field(c22Cache + ".cacheStore.sortedCache")
		b := nm[0].site.Call.Args
		c.Check("iter-dir", c22CS+"iterator newMemIterator(start,end,sortedCache,ascending)", nm[0].where(),
			len(b) == 4 && nm[0].rootParam(0) == 1 && nm[0].rootParam(1) == 2 && sfFieldSel(nm[0].info(), b[2], sorted) && nm[0].rootParam(3) == 3,
			"mem iterator must receive the same range, the sorted cache and the same direction")
		m := mg[0]
		stopAt := func(cx *sfCtx, cl *ast.CallExpr) bool {
			return sfCallee(cx.fn.Info(), cl) == c22Cache+".newMemIterator"
		}
		okM := len(m.site.Call.Args) == 3 && m.rootParam(2) == 3
		if okM {
			okM = sfAllLeafs(sfLeafs(m.ctx, m.arg(0), m.site, 4, stopAt), func(l sfLeaf) bool {
				return l.e != nil && (sfFieldCallIs(l.ctx, l.e, parentField, "Iterator") || sfFieldCallIs(l.ctx, l.e, parentField, "ReverseIterator"))
			}) && sfAllLeafs(sfLeafs(m.ctx, m.arg(1), m.site, 4, stopAt), func(l sfLeaf) bool {
				if l.e == nil {
					return false
				}
				_, isC := sfIsCallTo(l.ctx.fn.Info(), l.e, c22Cache+".newMemIterator")
				return isC
			})
		}
		c.Check("iter-dir", c22CS+"iterator newCacheMergeIterator(parent,cache,ascending)", m.where(), okM,
			"merge iterator must receive the parent iterator, the mem iterator and the same direction flag")
		n += 3
	} else {
		c.Undecided("iter-dir", c22CS+"iterator", "expected exactly one dirtyItems, newMemIterator and newCacheMergeIterator call (directly or through helpers)")
	}
	// dirtyItems: domain filter + value source + sorted merge
	if d := c.MustFunc(c22CS + "dirtyItems"); d != nil {
		unsorted := p.Field(c22Cache + ".cacheStore.unsortedCache")
		valF := p.Field(c22Cache + ".cValue.value")
		ctxs := sfCtxs(sfRoot(d), 3, nil)
		items, rangeOK := 0, false
		var sws []struct {
			cx *sfCtx
			sw *ast.SwitchStmt
		}
		for _, cx := range ctxs {
			info := cx.fn.Info()
			engine.InspectBody(cx.fn, func(x ast.Node) {
				switch nd := x.(type) {
				case *ast.RangeStmt:
					if sfFieldSel(info, nd.X, unsorted) {
						rangeOK = true
					}
				case *ast.CompositeLit:
					t := info.TypeOf(nd)
					if t == nil || engine.TypeName(t) != "tm2/pkg/std.KVPair" {
						return
					}
					st := cx.fn.SiteOf(nd)
					if st == nil {
						return
					}
					items++
					facts := sfFactsAt(cx, st)
					inDom := sfKnown(facts, true, func(fc *sfCtx, e ast.Expr) bool {
						cl, ok := sfIsCallTo(fc.fn.Info(), e, "tm2/pkg/db.IsKeyInDomain")
						return ok && len(cl.Args) == 3 && sfRootParam(fc, cl.Args[1]) == 0 && sfRootParam(fc, cl.Args[2]) == 1
					})
					n++
					c.Check("iter-dir", c22CS+"dirtyItems item created only for keys in [start,end)", nd.Pos(), inDom, "exactly the unsorted keys inside [start,end) are moved to the sorted list")
					valOK := false
					for _, el := range nd.Elts {
						kv, isKV := el.(*ast.KeyValueExpr)
						if !isKV {
							continue
						}
						if id, isId := kv.Key.(*ast.Ident); isId && id.Name == "Value" {
							valOK = sfAllLeafs(sfLeafs(cx, kv.Value, st, 3, nil), func(l sfLeaf) bool {
								return l.e != nil && sfFieldSel(l.ctx.fn.Info(), l.e, valF)
							})
						}
					}
					n++
					c.Check("iter-dir", c22CS+"dirtyItems item value is the cached value", nd.Pos(), valOK, "KVPair.Value must be the cValue.value of the key (nil marks a delete)")
				case *ast.SwitchStmt:
					if nd.Tag == nil {
						return
					}
					st := cx.fn.SiteOf(nd.Tag)
					isCmp := sfAllLeafs(sfLeafs(cx, nd.Tag, st, 3, nil), func(l sfLeaf) bool {
						if l.e == nil {
							return false
						}
						_, ok := sfIsCallTo(l.ctx.fn.Info(), l.e, "bytes.Compare")
						return ok
					})
					if isCmp {
						sws = append(sws, struct {
							cx *sfCtx
							sw *ast.SwitchStmt
						}{cx, nd})
					}
				}
			})
		}
		n++
		c.Check("iter-dir", c22CS+"dirtyItems ranges over unsortedCache", d.Pos(), rangeOK && items >= 1, "")
		if len(sws) != 1 {
			c.Undecided("iter-dir", c22CS+"dirtyItems merge switch", "sorted-merge switch on bytes.Compare not found in dirtyItems or its helpers")
		} else {
			cx, sw := sws[0].cx, sws[0].sw
			info := cx.fn.Info()
			for _, tc := range []struct {
				k      int64
				insert bool
				adv    bool
			}{{-1, true, false}, {1, false, true}, {0, false, true}} {
				var cc *ast.CaseClause
				for _, cl := range sw.Body.List {
					for _, e := range cl.(*ast.CaseClause).List {
						if v, isC := sfConstInt(info, e); isC && v == tc.k {
							cc = cl.(*ast.CaseClause)
						}
					}
				}
				ok := cc != nil
				if ok {
					hasIns, hasNext, repl := false, false, false
					for _, st := range cc.Body {
						ast.Inspect(st, func(x ast.Node) bool {
							if cl, isC := x.(*ast.CallExpr); isC {
								switch sfCallee(info, cl) {
								case "container/list.(*List).InsertBefore":
									hasIns = true
								case "container/list.(*Element).Next":
									hasNext = true
								}
							}
							if as, isAs := x.(*ast.AssignStmt); isAs && len(as.Lhs) == 1 {
								if fld := sfSelField(info, as.Lhs[0]); fld != nil && fld.Name() == "Value" && fld.Pkg() != nil && fld.Pkg().Path() == "container/list" {
									repl = true
								}
							}
							return true
						})
					}
					ok = hasIns == tc.insert && hasNext == tc.adv && (tc.k != 0 || repl)
				}
				n++
				c.Check("iter-dir", c22CS+"dirtyItems merge case "+c22Itoa(tc.k), sw.Pos(), ok, "sorted-merge step: -1 inserts before, 1 advances, 0 replaces the element value and advances")
			}
			pb := sfDeepCallsTo(d, 3, "container/list.(*List).PushBack")
			okPB := len(pb) >= 1
			for _, x := range pb {
				if len(x.facts()) != 0 && !c22OnlyLoopGates(x.ctx.fn, x.site) {
					okPB = false
				}
			}
			n++
			c.Check("iter-dir", c22CS+"dirtyItems appends the remaining items", d.Pos(), okPB, "items greater than every sorted element are pushed back")
			ss := sfDeepCallsTo(d, 3, "sort.Slice", "sort.Sort", "slices.SortFunc", "sort.SliceStable")
			ok := len(ss) >= 1
			if ok {
				for _, s := range sfDeepCallsTo(d, 3, "container/list.(*List).InsertBefore", "container/list.(*List).PushBack") {
					ok = ok && sfDomDS(ss[0], s)
				}
			}
			n++
			c.Check("iter-dir", c22CS+"dirtyItems sorts before merging", d.Pos(), ok, "the sort must dominate the list insertions")
		}
	}
	c.Floor("iter-dir", n, 16)
}

func c22Itoa(k int64) string {
	switch k {
	case -1:
		return "-1"
	case 0:
		return "0"
	case 1:
		return "1"
	}
	return "?"
}

// c22OnlyLoopGates: every gate of s is a for-loop header (no data condition).
func c22OnlyLoopGates(f *engine.Fn, s *engine.Site) bool {
	for _, g := range f.Graph().Gates(s) {
		isLoop := false
		engine.InspectBody(f, func(n ast.Node) {
			if l, ok := n.(*ast.ForStmt); ok && l.Cond == g.Cond {
				isLoop = true
			}
		})
		if !isLoop {
			return false
		}
	}
	return true
}

// ---- merge iterator: situation tables ----

// The five situations the merge iterator distinguishes.
const (
	c22PI = "parent-exhausted"
	c22CI = "cache-exhausted"
	c22LT = "parent<cache"
	c22EQ = "parent==cache"
	c22GT = "parent>cache"
)

var c22AllSit = []string{c22PI, c22CI, c22LT, c22EQ, c22GT}

type c22MergeEnv struct {
	parentF, cacheF *types.Var
}

// compareSign: e originates from iter.compare(parentKey, cacheKey) (+1) or with swapped operands (-1); 0: not such a call.
func (m c22MergeEnv) compareSign(cx *sfCtx, e ast.Expr) int {
	stopAt := func(c *sfCtx, cl *ast.CallExpr) bool { return sfCallee(c.fn.Info(), cl) == c22MI+"compare" }
	sign := 0
	ok := sfAllLeafs(sfLeafs(cx, e, nil, 4, stopAt), func(l sfLeaf) bool {
		if l.e == nil {
			return false
		}
		cl, isC := sfIsCallTo(l.ctx.fn.Info(), l.e, c22MI+"compare")
		if !isC || len(cl.Args) != 2 {
			return false
		}
		from := func(a ast.Expr, fld *types.Var) bool {
			return sfAllLeafs(sfLeafs(l.ctx, a, nil, 4, nil), func(k sfLeaf) bool { return k.e != nil && sfFieldCallIs(k.ctx, k.e, fld, "Key") })
		}
		s := 0
		switch {
		case from(cl.Args[0], m.parentF) && from(cl.Args[1], m.cacheF):
			s = 1
		case from(cl.Args[0], m.cacheF) && from(cl.Args[1], m.parentF):
			s = -1
		default:
			return false
		}
		if sign != 0 && sign != s {
			return false
		}
		sign = s
		return true
	})
	if !ok {
		return 0
	}
	return sign
}

// situations returns the set of situations compatible with the facts.
func (m c22MergeEnv) situations(facts []sfFact) map[string]bool {
	T := map[string]bool{}
	for _, s := range c22AllSit {
		T[s] = true
	}
	valid := func(fld *types.Var) func(*sfCtx, ast.Expr) bool {
		return func(cx *sfCtx, e ast.Expr) bool { return sfFieldCallIs(cx, e, fld, "Valid") }
	}
	if sfKnown(facts, false, valid(m.parentF)) {
		for _, s := range c22AllSit {
			if s != c22PI {
				delete(T, s)
			}
		}
	}
	if sfKnown(facts, true, valid(m.parentF)) {
		delete(T, c22PI)
	}
	if sfKnown(facts, false, valid(m.cacheF)) {
		delete(T, c22LT)
		delete(T, c22EQ)
		delete(T, c22GT)
	}
	if sfKnown(facts, true, valid(m.cacheF)) {
		delete(T, c22CI)
	}
	for _, f := range facts {
		a, b, op, ok := sfCmp(f.e)
		if !ok {
			continue
		}
		info := f.ctx.fn.Info()
		k, isK := sfConstInt(info, b)
		x := a
		if !isK {
			if k2, isK2 := sfConstInt(info, a); isK2 {
				k, isK, x, op = k2, true, b, engine.Flip(op)
			}
		}
		if !isK {
			continue
		}
		sign := m.compareSign(f.ctx, x)
		if sign == 0 {
			continue
		}
		for v, s := range map[int64]string{-1: c22LT, 0: c22EQ, 1: c22GT} {
			cv := int64(sign) * v
			holds := false
			switch op {
			case token.EQL:
				holds = cv == k
			case token.NEQ:
				holds = cv != k
			case token.LSS:
				holds = cv < k
			case token.LEQ:
				holds = cv <= k
			case token.GTR:
				holds = cv > k
			case token.GEQ:
				holds = cv >= k
			}
			if holds != f.val {
				delete(T, s)
			}
		}
	}
	return T
}

// cacheIsDelete: +1 the current cache value is known nil, -1 known non-nil, 0 unknown.
func (m c22MergeEnv) cacheIsDelete(facts []sfFact) int {
	isVal := func(cx *sfCtx, a ast.Expr) bool {
		return sfAllLeafs(sfLeafs(cx, a, nil, 4, nil), func(l sfLeaf) bool { return l.e != nil && sfFieldCallIs(l.ctx, l.e, m.cacheF, "Value") })
	}
	cmpNil := func(op token.Token) func(*sfCtx, ast.Expr) bool {
		return func(cx *sfCtx, e ast.Expr) bool {
			a, b, o, ok := sfCmp(e)
			return ok && o == op && isNil(b) && isVal(cx, a)
		}
	}
	switch {
	case sfKnown(facts, true, cmpNil(token.EQL)) || sfKnown(facts, false, cmpNil(token.NEQ)):
		return 1
	case sfKnown(facts, false, cmpNil(token.EQL)) || sfKnown(facts, true, cmpNil(token.NEQ)):
		return -1
	}
	return 0
}

func c22SitString(T map[string]bool) string {
	var xs []string
	for _, s := range c22AllSit {
		if T[s] {
			xs = append(xs, s)
		}
	}
	return "{" + strings.Join(xs, ", ") + "}"
}

func c22Subset(T map[string]bool, allowed ...string) bool {
	if len(T) == 0 {
		return false
	}
	for s := range T {
		in := false
		for _, a := range allowed {
			if a == s {
				in = true
			}
		}
		if !in {
			return false
		}
	}
	return true
}

func c22Merge(c *engine.Ctx, p *engine.Prog) {
	n := 0
	env := c22MergeEnv{p.Field(c22Cache + ".cacheMergeIterator.parent"), p.Field(c22Cache + ".cacheMergeIterator.cache")}
	if env.parentF == nil || env.cacheF == nil {
		c.Undecided("merge-case", "cacheMergeIterator fields", "parent/cache fields not found")
		return
	}
	// protocol methods are analysed on their own and never entered as "helpers"
	proto := map[string]bool{}
	for _, m := range []string{"Next", "Key", "Value", "Valid", "skipUntilExistsOrInvalid", "skipCacheDeletes", "assertValid", "compare", "Domain", "Close", "Error"} {
		proto[c22MI+m] = true
	}
	stop := func(name string) bool { return proto[name] }
	fieldCalls := func(f *engine.Fn, fld *types.Var, method string) []sfDS {
		return sfDeepCalls(f, 3, stop, func(cx *sfCtx, s *engine.Site) bool { return sfFieldCallIs(cx, s.Call, fld, method) })
	}
	// rule: every call in `sites` happens only in `allowed` situations (plus extra), and each `required` situation has one
	table := func(fn string, what string, sites []sfDS, allowed, required []string, extra func(d sfDS, T map[string]bool, facts []sfFact) (bool, string)) {
		covered := map[string]bool{}
		for _, d := range sites {
			facts := d.facts()
			T := env.situations(facts)
			ok, why := c22Subset(T, allowed...), what+" runs in "+c22SitString(T)+", allowed only in {"+strings.Join(allowed, ", ")+"}"
			if ok && extra != nil {
				ok, why = extra(d, T, facts)
			}
			if ok {
				for s := range T {
					covered[s] = true
				}
			}
			n++
			c.Check("merge-case", c22MI+fn+" "+what+" situation", d.where(), ok, why)
		}
		var missing []string
		for _, r := range required {
			if !covered[r] {
				missing = append(missing, r)
			}
		}
		n++
		c.Check("merge-case", c22MI+fn+" "+what+" coverage", token.NoPos, len(missing) == 0, what+" is missing when "+strings.Join(missing, ", "))
	}
	if f := c.MustFunc(c22MI + "Next"); f != nil {
		table("Next", "parent.Next", fieldCalls(f, env.parentF, "Next"), []string{c22CI, c22LT, c22EQ}, []string{c22CI, c22LT, c22EQ}, nil)
		table("Next", "cache.Next", fieldCalls(f, env.cacheF, "Next"), []string{c22PI, c22EQ, c22GT}, []string{c22PI, c22EQ, c22GT}, nil)
	}
	// Key / Value: origin of every returned value
	for _, tc := range []struct {
		fn, method           string
		pAllowed, cAllowed   []string
		pRequired, cRequired []string
	}{
		{"Key", "Key", []string{c22CI, c22LT, c22EQ}, []string{c22PI, c22EQ, c22GT}, []string{c22CI, c22LT}, []string{c22PI, c22GT}},
		{"Value", "Value", []string{c22CI, c22LT}, []string{c22PI, c22EQ, c22GT}, []string{c22CI, c22LT}, []string{c22PI, c22EQ, c22GT}},
	} {
		f := c.MustFunc(c22MI + tc.fn)
		if f == nil {
			continue
		}
		root := sfRoot(f)
		covP, covC := map[string]bool{}, map[string]bool{}
		rets := 0
		for _, r := range sfReturns(f) {
			st := f.SiteOf(r)
			if st == nil || len(r.Results) != 1 {
				continue
			}
			base := sfFactsAt(root, st)
			for _, l := range sfLeafs(root, r.Results[0], st, 5, func(cx *sfCtx, cl *ast.CallExpr) bool { return proto[sfCallee(cx.fn.Info(), cl)] }) {
				rets++
				facts := append(append([]sfFact{}, base...), l.facts...)
				T := env.situations(facts)
				ok, why := false, "returned value `"+c22Expr(l.e)+"` is neither parent."+tc.method+"() nor cache."+tc.method+"()"
				switch {
				case l.e != nil && sfFieldCallIs(l.ctx, l.e, env.parentF, tc.method):
					ok, why = c22Subset(T, tc.pAllowed...), "parent."+tc.method+"() returned in "+c22SitString(T)
					if ok {
						for s := range T {
							covP[s] = true
						}
					}
				case l.e != nil && sfFieldCallIs(l.ctx, l.e, env.cacheF, tc.method):
					ok, why = c22Subset(T, tc.cAllowed...), "cache."+tc.method+"() returned in "+c22SitString(T)+" (the cache must shadow the parent only on ties / when it is first)"
					if ok {
						for s := range T {
							covC[s] = true
						}
					}
				}
				n++
				c.Check("merge-case", c22MI+tc.fn+" returned "+tc.method+" origin", r.Pos(), ok, why)
			}
		}
		var missing []string
		for _, s := range tc.pRequired {
			if !covP[s] {
				missing = append(missing, "parent/"+s)
			}
		}
		for _, s := range tc.cRequired {
			if !covC[s] {
				missing = append(missing, "cache/"+s)
			}
		}
		if tc.fn == "Key" && !covP[c22EQ] && !covC[c22EQ] {
			missing = append(missing, "either/"+c22EQ)
		}
		n++
		c.Check("merge-case", c22MI+tc.fn+" coverage", f.Pos(), len(missing) == 0 && rets >= 1, "no return for "+strings.Join(missing, ", "))
	}
	if f := c.MustFunc(c22MI + "skipUntilExistsOrInvalid"); f != nil {
		needDelete := func(d sfDS, T map[string]bool, facts []sfFact) (bool, string) {
			if c22Subset(T, c22PI) {
				return true, ""
			}
			return env.cacheIsDelete(facts) == 1, "items may be skipped only when the cache value is nil (a delete marker)"
		}
		table("skipUntilExistsOrInvalid", "parent.Next", fieldCalls(f, env.parentF, "Next"), []string{c22EQ}, []string{c22EQ}, needDelete)
		table("skipUntilExistsOrInvalid", "cache.Next", fieldCalls(f, env.cacheF, "Next"), []string{c22EQ}, []string{c22EQ}, needDelete)
		skips := sfDeepCalls(f, 3, stop, func(cx *sfCtx, s *engine.Site) bool { return s.CalleeName() == c22MI+"skipCacheDeletes" })
		table("skipUntilExistsOrInvalid", "skipCacheDeletes", skips, []string{c22PI, c22GT}, []string{c22PI, c22GT}, func(d sfDS, T map[string]bool, facts []sfFact) (bool, string) {
			if ok, why := needDelete(d, T, facts); !ok {
				return ok, why
			}
			a := d.arg(0)
			if c22Subset(T, c22PI) {
				return sfAllLeafs(sfLeafs(d.ctx, a, d.site, 3, nil), func(l sfLeaf) bool { return l.e == nil || isNil(l.e) }), "with the parent exhausted all cache deletes are skipped (until == nil)"
			}
			return sfAllLeafs(sfLeafs(d.ctx, a, d.site, 4, nil), func(l sfLeaf) bool { return l.e != nil && sfFieldCallIs(l.ctx, l.e, env.parentF, "Key") }),
				"cache deletes before the parent key are skipped up to the parent key"
		})
		// returns
		root := sfRoot(f)
		rets := 0
		for _, r := range sfReturns(f) {
			st := f.SiteOf(r)
			if st == nil || len(r.Results) != 1 {
				continue
			}
			rets++
			facts := sfFactsAt(root, st)
			T := env.situations(facts)
			ok, why := false, ""
			if v, isC := sfConstBool(f.Info(), r.Results[0]); isC && v {
				switch {
				case c22Subset(T, c22CI, c22LT):
					ok = true
				case c22Subset(T, c22EQ, c22GT):
					ok, why = env.cacheIsDelete(facts) == -1, "the cache item may be reported as existing only when its value is non-nil"
				default:
					why = "`return true` in " + c22SitString(T)
				}
			} else if sfFieldCallIs(root, r.Results[0], env.cacheF, "Valid") {
				ok, why = c22Subset(T, c22PI), "`return cache.Valid()` in "+c22SitString(T)
			} else {
				why = "unrecognised return value"
			}
			n++
			c.Check("merge-case", c22MI+"skipUntilExistsOrInvalid return", r.Pos(), ok, why)
		}
		n++
		c.Check("merge-case", c22MI+"skipUntilExistsOrInvalid has a return per situation", f.Pos(), rets >= 3, "")
	}
	// skipCacheDeletes: what holds when the cache is advanced
	if f := c.MustFunc(c22MI + "skipCacheDeletes"); f != nil {
		adv := fieldCalls(f, env.cacheF, "Next")
		ok := len(adv) >= 1
		for _, d := range adv {
			facts := d.facts()
			valid := sfKnown(facts, true, func(cx *sfCtx, e ast.Expr) bool { return sfFieldCallIs(cx, e, env.cacheF, "Valid") })
			bound := false
			cmpUntil := func(cx *sfCtx, e ast.Expr, op token.Token) bool {
				a, b, o, isC := sfCmp(e)
				if !isC || o != op {
					return false
				}
				if k, isK := sfConstInt(cx.fn.Info(), b); !isK || k != 0 {
					return false
				}
				cl, isCall := sfIsCallTo(cx.fn.Info(), a, c22MI+"compare")
				return isCall && len(cl.Args) == 2 && sfRootParam(cx, cl.Args[1]) == 0 &&
					sfAllLeafs(sfLeafs(cx, cl.Args[0], nil, 3, nil), func(l sfLeaf) bool { return l.e != nil && sfFieldCallIs(l.ctx, l.e, env.cacheF, "Key") })
			}
			untilNil := func(cx *sfCtx, e ast.Expr, op token.Token) bool {
				a, b, o, isC := sfCmp(e)
				return isC && o == op && isNil(b) && sfRootParam(cx, a) == 0
			}
			for _, ft := range facts {
				b, isB := ast.Unparen(ft.e).(*ast.BinaryExpr)
				if !isB {
					continue
				}
				if ft.val && b.Op == token.LOR {
					dj := engine.Conjuncts(b, token.LOR)
					if len(dj) == 2 && ((untilNil(ft.ctx, dj[0], token.EQL) && cmpUntil(ft.ctx, dj[1], token.LSS)) || (untilNil(ft.ctx, dj[1], token.EQL) && cmpUntil(ft.ctx, dj[0], token.LSS))) {
						bound = true
					}
				}
				if !ft.val && b.Op == token.LAND {
					cj := engine.Conjuncts(b, token.LAND)
					if len(cj) == 2 && ((untilNil(ft.ctx, cj[0], token.NEQ) && cmpUntil(ft.ctx, cj[1], token.GEQ)) || (untilNil(ft.ctx, cj[1], token.NEQ) && cmpUntil(ft.ctx, cj[0], token.GEQ))) {
						bound = true
					}
				}
			}
			if !(valid && env.cacheIsDelete(facts) == 1 && bound) {
				ok = false
			}
		}
		n++
		c.Check("merge-case", c22MI+"skipCacheDeletes loop", f.Pos(), ok, "the cache may be advanced only while it is valid, a delete marker, and strictly before `until` in iteration order")
	}
	c.Floor("merge-case", n, 18)

	// compare: direction aware
	m := 0
	if f := c.MustFunc(c22MI + "compare"); f != nil {
		ascF := p.Field(c22Cache + ".cacheMergeIterator.ascending")
		isAsc := func(cx *sfCtx, e ast.Expr) bool { return sfFieldSel(cx.fn.Info(), e, ascF) }
		seenAsc, seenDesc := false, false
		root := sfRoot(f)
		for _, r := range sfReturns(f) {
			st := f.SiteOf(r)
			if st == nil || len(r.Results) != 1 {
				continue
			}
			flips, found := c22Sign(f, r.Results[0])
			facts := sfFactsAt(root, st)
			asc, desc := sfKnown(facts, true, isAsc), sfKnown(facts, false, isAsc)
			m++
			switch {
			case !found:
				c.Check("merge-compare", c22MI+"compare return", r.Pos(), false, "return value is not a (possibly negated) bytes.Compare(a, b)")
			case asc == desc:
				c.Check("merge-compare", c22MI+"compare return", r.Pos(), false, "the direction is not known at this return")
			case asc:
				seenAsc = true
				c.Check("merge-compare", c22MI+"compare ascending=true", r.Pos(), flips%2 == 0, "ascending must order by bytes.Compare(a,b)")
			default:
				seenDesc = true
				c.Check("merge-compare", c22MI+"compare ascending=false", r.Pos(), flips%2 == 1, "descending must order by the negation of bytes.Compare(a,b)")
			}
		}
		m++
		c.Check("merge-compare", c22MI+"compare has both directions", f.Pos(), seenAsc && seenDesc, "expected a return per direction")
	}
	c.Floor("merge-compare", m, 3)
}

func c22Expr(e ast.Expr) string {
	if e == nil {
		return "<zero value>"
	}
	return engine.ExprString(e)
}

// c22Sign counts sign flips around a bytes.Compare(a,b) call where a,b are
// parameters 0,1 of f (swapped arguments count as one flip); single-definition
// locals are followed.
func c22Sign(f *engine.Fn, e ast.Expr) (flips int, ok bool) {
	info := f.Info()
	e = ast.Unparen(e)
	switch x := e.(type) {
	case *ast.Ident:
		if d := sfSingleDef(f, info.ObjectOf(x)); d != nil {
			return c22Sign(f, d)
		}
	case *ast.CallExpr:
		if _, is := sfIsCallTo(info, x, "bytes.Compare"); is && len(x.Args) == 2 {
			if sfIsParam(f, x.Args[0], 0) && sfIsParam(f, x.Args[1], 1) {
				return 0, true
			}
			if sfIsParam(f, x.Args[0], 1) && sfIsParam(f, x.Args[1], 0) {
				return 1, true
			}
		}
	case *ast.UnaryExpr:
		if x.Op == token.SUB {
			n, ok := c22Sign(f, x.X)
			return n + 1, ok
		}
	case *ast.BinaryExpr:
		if x.Op == token.MUL {
			if k, isK := sfConstInt(info, x.Y); isK && k == -1 {
				n, ok := c22Sign(f, x.X)
				return n + 1, ok
			}
			if k, isK := sfConstInt(info, x.X); isK && k == -1 {
				n, ok := c22Sign(f, x.Y)
				return n + 1, ok
			}
		}
	}
	return 0, false
}

// ---- writeLocked ----

func c22Write(c *engine.Ctx, p *engine.Prog) {
	f := c.MustFunc(c22CS + "writeLocked")
	n := 0
	if f == nil {
		return
	}
	delF := p.Field(c22Cache + ".cValue.deleted")
	valF := p.Field(c22Cache + ".cValue.value")
	dirtyF := p.Field(c22Cache + ".cValue.dirty")
	fieldIs := func(fld *types.Var) func(*sfCtx, ast.Expr) bool {
		return func(cx *sfCtx, e ast.Expr) bool { return sfFieldSel(cx.fn.Info(), e, fld) }
	}
	valueCmpNil := func(op token.Token) func(*sfCtx, ast.Expr) bool {
		return func(cx *sfCtx, e ast.Expr) bool {
			a, b, o, ok := sfCmp(e)
			return ok && o == op && isNil(b) && sfOperandIs(cx, a, sfIsField(valF))
		}
	}
	valueIsNil := func(facts []sfFact) int {
		switch {
		case sfKnown(facts, true, valueCmpNil(token.EQL)) || sfKnown(facts, false, valueCmpNil(token.NEQ)):
			return 1
		case sfKnown(facts, false, valueCmpNil(token.EQL)) || sfKnown(facts, true, valueCmpNil(token.NEQ)):
			return -1
		}
		return 0
	}
	// facts that may legitimately surround a parent write
	foreign := func(facts []sfFact, allowValue bool) string {
		for _, ft := range facts {
			e := ast.Unparen(ft.e)
			if b, ok := e.(*ast.BinaryExpr); ok && (b.Op == token.LAND || b.Op == token.LOR) {
				continue
			}
			if u, ok := e.(*ast.UnaryExpr); ok && u.Op == token.NOT {
				continue
			}
			info := ft.ctx.fn.Info()
			switch {
			case sfFieldSel(info, e, delF), sfErrCmp(info, e), c22IsDbAdapterOK(ft.ctx.fn, e):
				continue
			case allowValue && (valueCmpNil(token.EQL)(ft.ctx, e) || valueCmpNil(token.NEQ)(ft.ctx, e)):
				continue
			}
			if _, isLoop := c22LoopCond(ft.ctx.fn, e); isLoop {
				continue
			}
			// a single-definition local that merely names one of the above was expanded already
			if id, ok := e.(*ast.Ident); ok && sfSingleDef(ft.ctx.fn, info.ObjectOf(id)) != nil {
				continue
			}
			if _, isTA := e.(*ast.TypeAssertExpr); isTA {
				continue
			}
			return engine.ExprString(e)
		}
		return ""
	}
	names := []string{"tm2/pkg/db.(Batch).Delete", "tm2/pkg/store/types.(Store).Delete", "tm2/pkg/db.(Batch).Set", "tm2/pkg/store/types.(Store).Set"}
	sites := sfDeepCalls(f, 3, nil, func(cx *sfCtx, s *engine.Site) bool { return engine.MatchName(s.CalleeName(), names...) })
	cnt := map[string]int{}
	for _, d := range sites {
		nm := d.callee()
		cnt[nm]++
		facts := d.facts()
		n++
		if strings.HasSuffix(nm, ".Delete") {
			other := foreign(facts, false)
			ok := sfKnown(facts, true, fieldIs(delF)) && valueIsNil(facts) == 0 && other == ""
			c.Check("write-net", c22CS+"writeLocked "+nm, d.where(), ok, "a dirty key is deleted in the parent exactly when its entry is marked deleted (no other condition"+c22Also(other)+")")
		} else {
			other := foreign(facts, true)
			ok := sfKnown(facts, false, fieldIs(delF)) && valueIsNil(facts) == -1 && other == ""
			va := d.site.Call.Args[len(d.site.Call.Args)-1]
			ok = ok && sfAllLeafs(sfLeafs(d.ctx, va, d.site, 3, nil), func(l sfLeaf) bool { return l.e != nil && sfFieldSel(l.ctx.fn.Info(), l.e, valF) })
			c.Check("write-net", c22CS+"writeLocked "+nm, d.where(), ok, "a dirty key is set in the parent, with the cached value, exactly when it is not deleted and its value is non-nil"+c22Also(other))
		}
	}
	n++
	c.Check("write-net", c22CS+"writeLocked handles both parent kinds", f.Pos(),
		cnt[names[1]] >= 1 && cnt[names[3]] >= 1 && (cnt[names[0]] >= 1) == (cnt[names[2]] >= 1) && cnt[names[0]] >= 1,
		"expected Delete and Set on the batch path and on the plain-store path")
	apps := 0
	for _, d := range sfDeepCallsTo(f, 3, "builtin.append") {
		// the collection of keys to flush: an append whose appended element is a map key of store.cache
		apps++
		facts := d.facts()
		other := ""
		for _, ft := range facts {
			e := ast.Unparen(ft.e)
			if sfFieldSel(ft.ctx.fn.Info(), e, dirtyF) {
				continue
			}
			if id, ok := e.(*ast.Ident); ok && sfSingleDef(ft.ctx.fn, ft.ctx.fn.Info().ObjectOf(id)) != nil {
				continue
			}
			other = engine.ExprString(e)
		}
		n++
		c.Check("write-net", c22CS+"writeLocked collects exactly the dirty keys", d.where(), sfKnown(facts, true, fieldIs(dirtyF)) && other == "",
			"only entries with dirty==true are flushed (clean read-cache entries are not net changes), and all of them"+c22Also(other))
	}
	n++
	c.Check("write-net", c22CS+"writeLocked collects keys", f.Pos(), apps >= 1, "")
	ss := sfDeepCallsTo(f, 3, "sort.Strings", "slices.Sort", "sort.Sort")
	ok := len(ss) >= 1
	if ok {
		for _, d := range sites {
			ok = ok && sfDomDS(ss[0], d)
		}
	}
	n++
	c.Check("write-net", c22CS+"writeLocked sorts keys first", f.Pos(), ok, "parent writes must happen in sorted key order")
	bw := sfDeepCallsTo(f, 3, "tm2/pkg/db.(Batch).Write", "tm2/pkg/db.(Batch).WriteSync")
	okw := len(bw) >= 1
	for _, w := range bw {
		okw = okw && sfErrHandled(w.ctx.fn, w.site.Call, true) && foreign(w.facts(), false) == ""
		for _, d := range sites {
			if strings.HasPrefix(d.callee(), "tm2/pkg/db.(Batch).") && sfSameCtx(d.ctx, w.ctx) {
				okw = okw && w.ctx.fn.Graph().ReachableAfter(d.site, w.site)
			}
		}
	}
	n++
	c.Check("write-net", c22CS+"writeLocked batch is written and checked", f.Pos(), okw, "batch.Write() must follow the staged ops, unconditionally, and its error must panic")
	cl := sfDeepCallsTo(f, 2, c22CS+"clear")
	n++
	c.Check("write-net", c22CS+"writeLocked clears the layer afterwards", f.Pos(), len(cl) >= 1 && !cl[0].outer().Deferred && len(cl[0].facts()) == 0, "after the flush the layer must be empty on every path")
	c.Floor("write-net", n, 9)
}

func c22Also(other string) string {
	if other == "" {
		return ""
	}
	return "; also depends on `" + other + "`"
}

// c22LoopCond: e is the condition of a for statement of f.
func c22LoopCond(f *engine.Fn, e ast.Expr) (*ast.ForStmt, bool) {
	var out *ast.ForStmt
	engine.InspectBody(f, func(n ast.Node) {
		if l, ok := n.(*ast.ForStmt); ok && l.Cond != nil && ast.Unparen(l.Cond) == e {
			out = l
		}
	})
	return out, out != nil
}

func c22IsErrNil(e ast.Expr) bool {
	a, b, op, ok := sfCmp(e)
	if !ok || (op != token.NEQ && op != token.EQL) || !isNil(b) {
		return false
	}
	id, ok := ast.Unparen(a).(*ast.Ident)
	return ok && id.Name == "err"
}

// c22IsDbAdapterOK: the comma-ok of a type assertion.
func c22IsDbAdapterOK(f *engine.Fn, e ast.Expr) bool {
	id, ok := ast.Unparen(e).(*ast.Ident)
	if !ok {
		return false
	}
	obj := f.Info().ObjectOf(id)
	defs, _ := sfDefs(f, obj)
	for _, d := range defs {
		if _, ok := ast.Unparen(d).(*ast.TypeAssertExpr); ok {
			return true
		}
	}
	return false
}

// c22ErrPanics: the error result of call s is tested and the failing branch never returns normally.
func c22ErrPanics(f *engine.Fn, s *engine.Site) bool {
	return sfErrHandled(f, s.Call, true)
}

// ---- the cache entry each operation records ----

func c22OpEntry(c *engine.Ctx, p *engine.Prog) {
	n := 0
	parentF := p.Field(c22Cache + ".cacheStore.parent")
	for _, tc := range []struct {
		fn             string
		valueParam     int // index of the value parameter, -1: nil, -2: fetched from the parent
		deleted, dirty bool
	}{
		{"Get", -2, false, false},
		{"Set", 2, false, true},
		{"Delete", -1, true, true},
	} {
		f := c.MustFunc(c22CS + tc.fn)
		if f == nil {
			continue
		}
		ss := sfDeepCallsTo(f, 2, c22CS+"setCacheValue")
		ok := len(ss) == 1
		why := "expected exactly one setCacheValue call"
		if ok {
			d := ss[0]
			a := d.site.Call.Args
			del, isD := sfConstBool(d.info(), a[2])
			dirty, isY := sfConstBool(d.info(), a[3])
			ok = len(a) == 4 && d.rootParam(0) == 1 && isD && isY && del == tc.deleted && dirty == tc.dirty
			why = "entry must be recorded as (key, value, deleted=" + c22Bool(tc.deleted) + ", dirty=" + c22Bool(tc.dirty) + ")"
			switch {
			case !ok:
			case tc.valueParam >= 0:
				ok = d.rootParam(1) == tc.valueParam
			case tc.valueParam == -1:
				ok = sfAllLeafs(sfLeafs(d.ctx, a[1], d.site, 3, nil), func(l sfLeaf) bool { return l.e != nil && isNil(l.e) })
			default:
				ok = sfAllLeafs(sfLeafs(d.ctx, a[1], d.site, 4, nil), func(l sfLeaf) bool {
					if l.e == nil || !sfFieldCallIs(l.ctx, l.e, parentF, "Get") {
						return false
					}
					cl := ast.Unparen(l.e).(*ast.CallExpr)
					return len(cl.Args) == 2 && sfRootParam(l.ctx, cl.Args[1]) == 1
				})
				why = "a read miss must cache exactly what parent.Get(key) returned, as a clean entry"
			}
		}
		n++
		c.Check("op-entry", c22CS+tc.fn, f.Pos(), ok, why)
	}
	// a cache hit answers from the entry
	if f := c.MustFunc(c22CS + "Get"); f != nil {
		valF := p.Field(c22Cache + ".cValue.value")
		cacheF := p.Field(c22Cache + ".cacheStore.cache")
		root := sfRoot(f)
		hit, all := false, true
		for _, r := range sfReturns(f) {
			st := f.SiteOf(r)
			if st == nil {
				continue
			}
			var res ast.Expr
			if len(r.Results) == 1 {
				res = r.Results[0]
			}
			var leaves []sfLeaf
			if res != nil {
				leaves = sfLeafs(root, res, st, 4, nil)
			} else if nr := sfNamedResult(f, 0); nr != nil {
				sfLeafsVar(root, nr, st, 4, nil, nil, &leaves)
			}
			base := sfFactsAt(root, st)
			for _, l := range leaves {
				switch {
				case l.e != nil && sfFieldCallIs(l.ctx, l.e, parentF, "Get"):
				case l.e != nil && sfFieldSel(l.ctx.fn.Info(), l.e, valF):
					facts := append(append([]sfFact{}, base...), l.facts...)
					if sfKnown(facts, true, func(cx *sfCtx, e ast.Expr) bool { return c22IsMapOK(cx.fn, e, cacheF) }) {
						hit = true
					} else {
						all = false
					}
				default:
					all = false
				}
			}
		}
		n++
		c.Check("op-entry", c22CS+"Get answers a hit from the cached entry", f.Pos(), hit && all, "the result is the entry's value on a hit (comma-ok of store.cache[key]) and parent.Get(key) on a miss, nothing else")
	}
	c.Floor("op-entry", n, 4)
}

// c22IsMapOK: e is the comma-ok variable of an index into the given map field.
func c22IsMapOK(f *engine.Fn, e ast.Expr, mapField *types.Var) bool {
	id, ok := ast.Unparen(e).(*ast.Ident)
	if !ok {
		return false
	}
	obj := f.Info().ObjectOf(id)
	found := false
	engine.InspectBody(f, func(n ast.Node) {
		as, ok := n.(*ast.AssignStmt)
		if !ok || len(as.Lhs) != 2 || len(as.Rhs) != 1 || engine.ObjOf(f.Info(), as.Lhs[1]) != obj {
			return
		}
		if ix, ok := ast.Unparen(as.Rhs[0]).(*ast.IndexExpr); ok && sfFieldSel(f.Info(), ix.X, mapField) {
			found = true
		}
	})
	return found
}

// ---- checkpoint ----

func c22Checkpoint(c *engine.Ctx, p *engine.Prog) {
	n := 0
	cacheF := p.Field(c22Cache + ".cacheStore.cache")
	chkF := p.Field(c22Cache + ".cacheStore.checkpointCache")
	if cacheF == nil || chkF == nil {
		c.Undecided("checkpoint", "cacheStore fields", "cache/checkpointCache not found")
		return
	}
	if f := c.MustFunc(c22CS + "WriteCheckpoint"); f != nil {
		wl := sfDeepCallsTo(f, 2, c22CS+"writeLocked")
		// the restore `store.cache = <checkpointCache>` in f or a helper
		var restore *sfDS
		for _, cx := range sfCtxs(sfRoot(f), 2, func(nm string) bool { return nm == c22CS+"writeLocked" }) {
			info := cx.fn.Info()
			engine.InspectBody(cx.fn, func(x ast.Node) {
				as, ok := x.(*ast.AssignStmt)
				if !ok || len(as.Lhs) != len(as.Rhs) {
					return
				}
				for i, l := range as.Lhs {
					if !sfFieldSel(info, l, cacheF) {
						continue
					}
					st := cx.fn.SiteOf(as)
					if st != nil && sfAllLeafs(sfLeafs(cx, as.Rhs[i], st, 3, nil), func(lf sfLeaf) bool { return lf.e != nil && sfFieldSel(lf.ctx.fn.Info(), lf.e, chkF) }) {
						restore = &sfDS{cx, st}
					}
				}
			})
		}
		ok := len(wl) == 1 && restore != nil && sfDomDS(*restore, wl[0])
		n++
		c.Check("checkpoint", c22CS+"WriteCheckpoint restores the snapshot before flushing", f.Pos(), ok, "store.cache = store.checkpointCache must dominate writeLocked()")
		nilChk := func(op token.Token) func(*sfCtx, ast.Expr) bool {
			return func(cx *sfCtx, e ast.Expr) bool {
				a, b, o, isC := sfCmp(e)
				return isC && o == op && isNil(b) && sfOperandIs(cx, a, sfIsField(chkF))
			}
		}
		okN := len(wl) == 1
		if okN {
			facts := wl[0].facts()
			okN = sfKnown(facts, false, nilChk(token.EQL)) || sfKnown(facts, true, nilChk(token.NEQ))
		}
		n++
		c.Check("checkpoint", c22CS+"WriteCheckpoint requires an active checkpoint", f.Pos(), okN, "flush must be unreachable when checkpointCache == nil")
	}
	if f := c.MustFunc(c22CS + "Checkpoint"); f != nil {
		ok := false
		for _, cx := range sfCtxs(sfRoot(f), 2, nil) {
			info := cx.fn.Info()
			engine.InspectBody(cx.fn, func(x ast.Node) {
				as, isAs := x.(*ast.AssignStmt)
				if !isAs || len(as.Lhs) != len(as.Rhs) {
					return
				}
				for i, l := range as.Lhs {
					if !sfFieldSel(info, l, chkF) {
						continue
					}
					st := cx.fn.SiteOf(as)
					ok = sfAllLeafs(sfLeafs(cx, as.Rhs[i], st, 3, func(c2 *sfCtx, cl *ast.CallExpr) bool { return true }), func(lf sfLeaf) bool {
						if lf.e == nil {
							return false
						}
						cl, isC := sfIsCallTo(lf.ctx.fn.Info(), lf.e, "maps.Clone")
						return isC && len(cl.Args) == 1 && sfFieldSel(lf.ctx.fn.Info(), cl.Args[0], cacheF)
					})
				}
			})
		}
		n++
		c.Check("checkpoint", c22CS+"Checkpoint clones the cache map", f.Pos(), ok, "the snapshot must be a copy (maps.Clone(store.cache)), not an alias of the live map")
	}
	// cValue entries are immutable once stored: fields are written only in composite literals
	for _, fn := range []string{"value", "deleted", "dirty"} {
		fld := p.Field(c22Cache + ".cValue." + fn)
		ws := p.FieldWrites(fld)
		bad := engine.WriterSet(ws, func(w engine.Write) bool { return w.Kind != "lit" })
		n++
		c.Check("checkpoint", c22Cache+".cValue."+fn+" never mutated in place", token.NoPos, fld != nil && len(bad) == 0 && len(ws) >= 1,
			"the shallow checkpoint clone shares *cValue pointers; in-place writers: "+join(bad))
	}
	// every element stored into the cache map is a fresh &cValue{...}
	stores, fresh := 0, 0
	for _, w := range p.FieldWrites(cacheF) {
		if w.Direct || w.Kind != "assign" {
			continue
		}
		as, ok := w.Node.(*ast.AssignStmt)
		if !ok {
			continue
		}
		for i, l := range as.Lhs {
			ix, isIx := ast.Unparen(l).(*ast.IndexExpr)
			if !isIx || !sfFieldSel(w.Fn.Info(), ix.X, cacheF) || len(as.Rhs) != len(as.Lhs) {
				continue
			}
			stores++
			st := w.Fn.SiteOf(as)
			if sfAllLeafs(sfLeafs(sfRoot(w.Fn), as.Rhs[i], st, 3, nil), func(lf sfLeaf) bool {
				if lf.e == nil {
					return false
				}
				u, isU := ast.Unparen(lf.e).(*ast.UnaryExpr)
				if !isU || u.Op != token.AND {
					return false
				}
				_, isLit := ast.Unparen(u.X).(*ast.CompositeLit)
				return isLit
			}) {
				fresh++
			}
		}
	}
	n++
	c.Check("checkpoint", c22Cache+".cacheStore.cache elements are fresh entries", token.NoPos, stores >= 1 && fresh == stores, "every store.cache[k] = … must assign a new &cValue{…}")
	c.Floor("checkpoint", n, 7)
}

// ---- who may write the cache maps ----

func c22Writers(c *engine.Ctx, p *engine.Prog) {
	n := 0
	type tab struct {
		field           string
		direct, through []string
	}
	for _, t := range []tab{
		{"cache", []string{c22Cache + ".New", c22CS + "clear", c22CS + "WriteCheckpoint"}, []string{c22CS + "setCacheValue"}},
		{"unsortedCache", []string{c22Cache + ".New", c22CS + "clear"}, []string{c22CS + "setCacheValue", c22CS + "dirtyItems"}},
		{"sortedCache", []string{c22Cache + ".New", c22CS + "clear"}, nil},
		{"checkpointCache", []string{c22CS + "clear", c22CS + "WriteCheckpoint", c22CS + "Checkpoint"}, nil},
	} {
		fld := p.Field(c22Cache + ".cacheStore." + t.field)
		if fld == nil {
			c.Undecided("who-may-write", c22Cache+".cacheStore."+t.field, "field not found")
			continue
		}
		ws := p.FieldWrites(fld)
		d := engine.WriterSet(ws, func(w engine.Write) bool { return w.Direct })
		th := engine.WriterSet(ws, func(w engine.Write) bool { return !w.Direct })
		// unexported helpers all of whose callers are tabled writers count as part of them
		badD, badT := sfWritersOK(p, d, t.direct), sfWritersOK(p, th, t.through)
		n++
		c.Check("who-may-write", c22Cache+".cacheStore."+t.field, token.NoPos, len(badD) == 0 && len(badT) == 0,
			"direct writers: "+join(d)+"; element writers: "+join(th)+"; not allowed: "+join(append(badD, badT...)))
	}
	c.Floor("who-may-write", n, 4)
}

// ---- lock discipline ----

func c22Locks(c *engine.Ctx, p *engine.Prog) {
	guarded := map[*types.Var]bool{}
	for _, fn := range []string{"cache", "unsortedCache", "sortedCache", "chargedGas", "checkpointCache", "checkpointChargedGas"} {
		if v := p.Field(c22Cache + ".cacheStore." + fn); v != nil {
			guarded[v] = true
		}
	}
	exempt := map[string]string{c22CS + "Print": "debug dump, not a store operation"}
	methods := sfMethodsOf(p, c22Cache, "cacheStore")
	isMethod := map[string]*engine.Fn{}
	for _, f := range methods {
		isMethod[f.Name] = f
	}
	touches := map[string]bool{}
	for _, f := range methods {
		for _, root := range append([]*engine.Fn{f}, f.AllLits()...) {
			ast.Inspect(root.Body, func(x ast.Node) bool {
				if se, ok := x.(*ast.SelectorExpr); ok {
					if v, ok := f.Info().Uses[se.Sel].(*types.Var); ok && guarded[v.Origin()] {
						touches[f.Name] = true
					}
				}
				return true
			})
		}
	}
	// propagate: a method that calls a touching method which does not lock by itself touches, too
	locks := map[string]bool{}
	why := map[string]string{}
	for _, f := range methods {
		ok, w := locksFirst(f, "mtx")
		locks[f.Name], why[f.Name] = ok, w
	}
	for changed := true; changed; {
		changed = false
		for _, f := range methods {
			if touches[f.Name] {
				continue
			}
			for _, root := range append([]*engine.Fn{f}, f.AllLits()...) {
				for _, s := range root.Calls() {
					if cal := s.CalleeName(); touches[cal] && !locks[cal] && isMethod[cal] != nil {
						touches[f.Name] = true
						changed = true
					}
				}
			}
		}
	}
	// safe(M): M locks first, or M is unexported and every caller is safe
	var safe func(name string, depth int) (bool, string)
	safe = func(name string, depth int) (bool, string) {
		if locks[name] {
			return true, why[name]
		}
		f := isMethod[name]
		if f == nil {
			return false, name + " is not a cacheStore method and does not hold mtx"
		}
		if f.Obj.Exported() || depth <= 0 {
			return false, why[name]
		}
		callers := engine.CallerSet(p.RefsToFunc(name))
		if len(callers) == 0 {
			return false, "unexported, never called, does not lock"
		}
		for _, cl := range callers {
			if cl == name {
				continue
			}
			if ok, w := safe(cl, depth-1); !ok {
				return false, "called without the lock from " + cl + " (" + w + ")"
			}
		}
		return true, "caller-holds-lock helper: every caller holds mtx"
	}
	n := 0
	for _, f := range methods {
		if !touches[f.Name] || exempt[f.Name] != "" {
			continue
		}
		ok, w := safe(f.Name, 4)
		n++
		c.Check("holds-lock", f.Name, f.Pos(), ok, w)
	}
	c.Floor("holds-lock", n, 12)
}

// ---- mem iterator ----

func c22Mem(c *engine.Ctx, p *engine.Prog) {
	const MI = c22Cache + ".(*memIterator)."
	n := 0
	ascF := p.Field(c22Cache + ".memIterator.ascending")
	itemsF := p.Field(c22Cache + ".memIterator.items")
	for _, name := range []string{"Key", "Value", "Next"} {
		f := c.MustFunc(MI + name)
		if f == nil {
			continue
		}
		info := f.Info()
		root := sfRoot(f)
		isAsc := func(cx *sfCtx, e ast.Expr) bool { return sfFieldSel(cx.fn.Info(), e, ascF) }
		isLenM1 := func(e ast.Expr) bool {
			return sfDerives(f, e, func(x ast.Expr) bool {
				b, ok := ast.Unparen(x).(*ast.BinaryExpr)
				if !ok || b.Op != token.SUB {
					return false
				}
				if k, isK := sfConstInt(info, b.Y); !isK || k != 1 {
					return false
				}
				cl, ok := ast.Unparen(b.X).(*ast.CallExpr)
				return ok && engine.IsBuiltinCall(info, cl, "len") && sfFieldSel(info, cl.Args[0], itemsF)
			}, 2)
		}
		isConst := func(e ast.Expr, k int64) bool {
			v, ok := sfConstInt(info, e)
			return ok && v == k
		}
		front, back := 0, 0
		engine.InspectBody(f, func(x ast.Node) {
			var st *engine.Site
			var isFront, isBack bool
			switch e := x.(type) {
			case *ast.IndexExpr:
				if !sfFieldSel(info, e.X, itemsF) {
					return
				}
				isFront, isBack = isConst(e.Index, 0), isLenM1(e.Index)
				st = f.SiteOf(e)
			case *ast.SliceExpr:
				if !sfFieldSel(info, e.X, itemsF) {
					return
				}
				isFront = e.Low != nil && isConst(e.Low, 1) && e.High == nil
				isBack = (e.Low == nil || isConst(e.Low, 0)) && e.High != nil && isLenM1(e.High)
				st = f.SiteOf(e)
			default:
				return
			}
			if st == nil {
				return
			}
			facts := sfFactsAt(root, st)
			asc, desc := sfKnown(facts, true, isAsc), sfKnown(facts, false, isAsc)
			ok := asc != desc && ((asc && isFront) || (desc && isBack))
			if asc {
				front++
			} else {
				back++
			}
			n++
			c.Check("mem-end", MI+name+" ascending="+c22Bool(asc), st.Pos(), ok,
				"ascending consumes the front of the sorted slice, descending the back")
		})
		c.Check("mem-end", MI+name+" has both directions", f.Pos(), front >= 1 && back >= 1, "")
		n++
	}
	if f := c.MustFunc(c22Cache + ".newMemIterator"); f != nil {
		k := 0
		for _, d := range sfDeepCallsTo(f, 2, "builtin.append") {
			k++
			inDom := sfKnown(d.facts(), true, func(cx *sfCtx, e ast.Expr) bool {
				cl, ok := sfIsCallTo(cx.fn.Info(), e, "tm2/pkg/db.IsKeyInDomain")
				return ok && len(cl.Args) == 3 && sfRootParam(cx, cl.Args[1]) == 0 && sfRootParam(cx, cl.Args[2]) == 1
			})
			n++
			c.Check("mem-end", c22Cache+".newMemIterator keeps exactly the items in [start,end)", d.where(), inDom, "append must be gated by IsKeyInDomain(item.Key, start, end)")
		}
		if k == 0 {
			c.Undecided("mem-end", c22Cache+".newMemIterator", "no append of in-domain items found")
		}
	}
	c.Floor("mem-end", n, 10)
}

// ---- prefix store ----

func c22PrefixRules(c *engine.Ctx, p *engine.Prog) {
	const PS = c22Prefix + ".(Store)."
	parentF := p.Field(c22Prefix + ".Store.parent")
	prefixF := p.Field(c22Prefix + ".Store.prefix")
	stopCA := func(cx *sfCtx, cl *ast.CallExpr) bool {
		nm := sfCallee(cx.fn.Info(), cl)
		return nm == c22Prefix+".cloneAppend" || nm == c22Prefix+".cpIncr" || nm == "tm2/pkg/store/types.PrefixEndBytes"
	}
	// prefixed(l, i): the value is cloneAppend(<prefix field>, <root parameter i>)
	prefixed := func(l sfLeaf, i int) bool {
		if l.e == nil {
			return false
		}
		cl, ok := sfIsCallTo(l.ctx.fn.Info(), l.e, c22Prefix+".cloneAppend")
		return ok && len(cl.Args) == 2 && sfFieldSel(l.ctx.fn.Info(), cl.Args[0], prefixF) && sfRootParam(l.ctx, cl.Args[1]) == i
	}
	n := 0
	for _, name := range []string{"Get", "Has", "Set", "Delete"} {
		f := c.MustFunc(PS + name)
		if f == nil {
			continue
		}
		cnt := 0
		for _, d := range sfDeepFieldCalls(f, 2, parentF) {
			_, m := sfMethodOnField(d.info(), d.site.Call)
			cnt++
			a := d.site.Call.Args
			ok := m == name && len(a) >= 2 && sfAllLeafs(sfLeafs(d.ctx, a[1], d.site, 4, stopCA), func(l sfLeaf) bool { return prefixed(l, 1) })
			if ok && name == "Set" {
				ok = len(a) == 3 && d.rootParam(2) == 2
			}
			n++
			c.Check("prefix-key", PS+name+" -> parent."+m, d.where(), ok, "the parent must be called with the same operation and the key prefix++key")
		}
		c.Check("prefix-key", PS+name+" calls the parent once", f.Pos(), cnt == 1, "")
		n++
	}
	if f := c.MustFunc(c22Prefix + ".cloneAppend"); f != nil {
		info := f.Info()
		res := sfNamedResult(f, 0)
		head, tail := false, false
		for _, s := range f.CallsTo("builtin.copy") {
			a := s.Call.Args
			dst := engine.ObjOf(info, a[0])
			if dst != nil && sfIsParam(f, a[1], 0) {
				head = true
				if res == nil {
					res = dst
				}
			}
			if sl, isS := ast.Unparen(a[0]).(*ast.SliceExpr); isS && engine.ObjOf(info, sl.X) != nil && sl.High == nil && sl.Low != nil && engine.IsLenOf(info, sl.Low, paramObj(f, 0)) && sfIsParam(f, a[1], 1) {
				tail = true
			}
		}
		n++
		c.Check("prefix-key", c22Prefix+".cloneAppend concatenates", f.Pos(), head && tail, "res must be bz followed by tail (copy(res,bz); copy(res[len(bz):],tail))")
	}
	m := 0
	for _, name := range []string{"Iterator", "ReverseIterator"} {
		f := c.MustFunc(PS + name)
		if f == nil {
			continue
		}
		pcs := sfDeepFieldCalls(f, 2, parentF)
		if len(pcs) != 1 {
			c.Undecided("prefix-range", PS+name, "expected exactly one parent call")
			continue
		}
		pc := pcs[0]
		_, mth := sfMethodOnField(pc.info(), pc.site.Call)
		a := pc.site.Call.Args
		m++
		c.Check("prefix-range", PS+name+" uses parent."+name, pc.where(), mth == name && len(a) == 3 && pc.rootParam(0) == 0, "direction must be preserved")
		m++
		c.Check("prefix-range", PS+name+" start = prefix ++ start", pc.where(),
			len(a) == 3 && sfAllLeafs(sfLeafs(pc.ctx, a[1], pc.site, 5, stopCA), func(l sfLeaf) bool { return prefixed(l, 1) }), "")
		// end: cpIncr(prefix) exactly when end == nil, prefix++end otherwise
		okEnd := len(a) == 3
		nilDef, nonNilDef := 0, 0
		if okEnd {
			endNil := func(op token.Token) func(*sfCtx, ast.Expr) bool {
				return func(cx *sfCtx, e ast.Expr) bool {
					x, y, o, isC := sfCmp(e)
					return isC && o == op && isNil(y) && sfRootParam(cx, x) == 2
				}
			}
			base := pc.facts()
			for _, l := range sfLeafs(pc.ctx, a[2], pc.site, 5, stopCA) {
				facts := append(append([]sfFact{}, base...), l.facts...)
				isNilEnd := sfKnown(facts, true, endNil(token.EQL)) || sfKnown(facts, false, endNil(token.NEQ))
				notNilEnd := sfKnown(facts, false, endNil(token.EQL)) || sfKnown(facts, true, endNil(token.NEQ))
				switch {
				case l.e == nil:
					okEnd = false
				case prefixed(l, 2) && notNilEnd && !isNilEnd:
					nonNilDef++
				default:
					cl, isC := sfIsCallTo(l.ctx.fn.Info(), l.e, c22Prefix+".cpIncr", "tm2/pkg/store/types.PrefixEndBytes")
					if isC && sfFieldSel(l.ctx.fn.Info(), cl.Args[0], prefixF) && isNilEnd && !notNilEnd {
						nilDef++
					} else {
						okEnd = false
					}
				}
			}
		}
		m++
		c.Check("prefix-range", PS+name+" end = cpIncr(prefix) | prefix ++ end", pc.where(), okEnd && nilDef >= 1 && nonNilDef >= 1, "an open end must become the end of the prefix range, a given end must be prefixed")
		// result wraps with newPrefixIterator(s.prefix, start, end, iter)
		okWrap := false
		for _, d := range sfDeepCallsTo(f, 2, c22Prefix+".newPrefixIterator") {
			b := d.site.Call.Args
			if len(b) == 4 && sfFieldSel(d.info(), b[0], prefixF) && d.rootParam(1) == 1 && d.rootParam(2) == 2 &&
				sfAllLeafs(sfLeafs(d.ctx, b[3], d.site, 4, func(cx *sfCtx, cl *ast.CallExpr) bool { return true }), func(l sfLeaf) bool { return l.e != nil && ast.Unparen(l.e) == ast.Expr(pc.site.Call) }) {
				okWrap = true
			}
		}
		// … and that wrapper is what is returned
		retOK := false
		for _, r := range sfReturns(f) {
			if len(r.Results) == 1 {
				retOK = sfAllLeafs(sfLeafs(sfRoot(f), r.Results[0], f.SiteOf(r), 4, func(cx *sfCtx, cl *ast.CallExpr) bool {
					return sfCallee(cx.fn.Info(), cl) == c22Prefix+".newPrefixIterator"
				}), func(l sfLeaf) bool {
					if l.e == nil {
						return false
					}
					_, isC := sfIsCallTo(l.ctx.fn.Info(), l.e, c22Prefix+".newPrefixIterator")
					return isC
				})
			}
		}
		m++
		c.Check("prefix-range", PS+name+" returns a prefix-stripping iterator", f.Pos(), okWrap && retOK, "")
	}
	if f := p.Func(c22Prefix + ".cpIncr"); f != nil {
		cl := f.CallsTo("tm2/pkg/store/types.PrefixEndBytes")
		m++
		c.Check("prefix-range", c22Prefix+".cpIncr = PrefixEndBytes", f.Pos(), len(cl) == 1 && sfIsParam(f, cl[0].Call.Args[0], 0), "")
	}
	c.Floor("prefix-key", n, 9)
	c.Floor("prefix-range", m, 8)

	// stripping
	k := 0
	const PI = c22Prefix + ".(*prefixIterator)."
	iterF := p.Field(c22Prefix + ".prefixIterator.iter")
	pfxF := p.Field(c22Prefix + ".prefixIterator.prefix")
	validF := p.Field(c22Prefix + ".prefixIterator.valid")
	if f := c.MustFunc(PI + "Key"); f != nil {
		root := sfRoot(f)
		stopSP := func(cx *sfCtx, cl *ast.CallExpr) bool { return sfCallee(cx.fn.Info(), cl) == c22Prefix+".stripPrefix" }
		ok, rets := true, 0
		for _, r := range sfReturns(f) {
			st := f.SiteOf(r)
			var leaves []sfLeaf
			if len(r.Results) == 1 {
				leaves = sfLeafs(root, r.Results[0], st, 4, stopSP)
			} else if nr := sfNamedResult(f, 0); nr != nil {
				sfLeafsVar(root, nr, st, 4, stopSP, nil, &leaves)
			}
			rets++
			if !sfAllLeafs(leaves, func(l sfLeaf) bool {
				if l.e == nil {
					return false
				}
				cl, isC := sfIsCallTo(l.ctx.fn.Info(), l.e, c22Prefix+".stripPrefix")
				if !isC || len(cl.Args) != 2 || !sfFieldSel(l.ctx.fn.Info(), cl.Args[1], pfxF) {
					return false
				}
				return sfAllLeafs(sfLeafs(l.ctx, cl.Args[0], l.ctx.fn.SiteOf(cl), 4, stopSP), func(k sfLeaf) bool { return k.e != nil && sfFieldCallIs(k.ctx, k.e, iterF, "Key") })
			}) {
				ok = false
			}
		}
		k++
		c.Check("prefix-strip", PI+"Key strips the prefix", f.Pos(), ok && rets >= 1, "Key() must return stripPrefix(iter.iter.Key(), iter.prefix)")
	}
	if f := c.MustFunc(c22Prefix + ".stripPrefix"); f != nil {
		info := f.Info()
		ok := false
		for _, r := range sfReturns(f) {
			if len(r.Results) == 1 {
				if sl, isS := ast.Unparen(r.Results[0]).(*ast.SliceExpr); isS && sfIsParam(f, sl.X, 0) && sl.High == nil && sl.Low != nil && engine.IsLenOf(info, sl.Low, paramObj(f, 1)) {
					ok = true
				}
			}
		}
		k++
		c.Check("prefix-strip", c22Prefix+".stripPrefix returns key[len(prefix):]", f.Pos(), ok, "")
	}
	hasPrefix := func(cx *sfCtx, e ast.Expr) bool {
		cl, ok := sfIsCallTo(cx.fn.Info(), e, "bytes.HasPrefix")
		return ok && len(cl.Args) == 2
	}
	if f := c.MustFunc(PI + "Next"); f != nil {
		info := f.Info()
		root := sfRoot(f)
		ok := false
		engine.InspectBody(f, func(x ast.Node) {
			as, isAs := x.(*ast.AssignStmt)
			if !isAs || len(as.Lhs) != 1 || !sfFieldSel(info, as.Lhs[0], validF) {
				return
			}
			st := f.SiteOf(as)
			if st == nil {
				return
			}
			if v, isC := sfConstBool(info, as.Rhs[0]); isC && !v {
				// invalidated on a path where "has the prefix" is not known true, and that path exists for !HasPrefix
				for _, ft := range sfFactsAt(root, st) {
					b, isB := ast.Unparen(ft.e).(*ast.BinaryExpr)
					if ft.val && isB && b.Op == token.LOR {
						for _, dj := range engine.Conjuncts(b, token.LOR) {
							if u, isU := ast.Unparen(dj).(*ast.UnaryExpr); isU && u.Op == token.NOT && hasPrefix(ft.ctx, u.X) {
								ok = true
							}
						}
					}
					if !ft.val && hasPrefix(ft.ctx, ft.e) {
						ok = true
					}
					// De Morgan form: !(Valid() && HasPrefix(…)), possibly behind a boolean helper
					if !ft.val && isB && b.Op == token.LAND {
						for _, cj := range engine.Conjuncts(b, token.LAND) {
							if hasPrefix(ft.ctx, cj) {
								ok = true
							}
						}
					}
				}
			} else if sfAllLeafs(sfLeafs(root, as.Rhs[0], st, 3, nil), func(l sfLeaf) bool {
				if l.e == nil {
					return false
				}
				for _, cj := range engine.Conjuncts(l.e, token.LAND) {
					if hasPrefix(l.ctx, cj) {
						return true
					}
				}
				return false
			}) {
				ok = true // valid = iter.Valid() && HasPrefix(…)
			}
		})
		nx := len(sfDeepFieldCalls(f, 2, iterF, "Next"))
		k++
		c.Check("prefix-strip", PI+"Next invalidates on leaving the prefix", f.Pos(), ok && nx == 1, "after advancing, a key without the prefix must end the iteration")
	}
	if f := c.MustFunc(c22Prefix + ".newPrefixIterator"); f != nil {
		ok := false
		root := sfRoot(f)
		ast.Inspect(f.Body, func(x ast.Node) bool {
			kv, isKV := x.(*ast.KeyValueExpr)
			if !isKV {
				return true
			}
			if id, isId := kv.Key.(*ast.Ident); isId && f.Info().Uses[id] == types.Object(validF) {
				ok = sfAllLeafs(sfLeafs(root, kv.Value, f.SiteOf(kv), 3, nil), func(l sfLeaf) bool {
					if l.e == nil {
						return false
					}
					for _, cj := range engine.Conjuncts(l.e, token.LAND) {
						if hasPrefix(l.ctx, cj) {
							return true
						}
					}
					// literal true/false chosen under a HasPrefix test
					if v, isC := sfConstBool(l.ctx.fn.Info(), l.e); isC {
						return !v || sfKnown(sfFactsAt(root, f.SiteOf(kv)), true, hasPrefix)
					}
					return false
				})
			}
			return true
		})
		k++
		c.Check("prefix-strip", c22Prefix+".newPrefixIterator starts valid only inside the prefix", f.Pos(), ok, "")
	}
	c.Floor("prefix-strip", k, 4)
}

// ---- cachemulti ----

func c22MultiRules(c *engine.Ctx, p *engine.Prog) {
	const MS = c22Multi + ".(Store)."
	storesF := p.Field(c22Multi + ".Store.stores")
	n := 0
	for _, tc := range []struct{ fn, callee string }{
		{"MultiWrite", "tm2/pkg/store/types.(Store).Write"},
		{"Checkpoint", "tm2/pkg/store/types.(Checkpointable).Checkpoint"},
		{"WriteCheckpoint", "tm2/pkg/store/types.(Checkpointable).WriteCheckpoint"},
	} {
		f := c.MustFunc(MS + tc.fn)
		if f == nil {
			continue
		}
		calls := sfDeepCallsTo(f, 2, tc.callee)
		ok := len(calls) >= 1
		for _, d := range calls {
			inRange := false
			for x := d.ctx; x != nil; x = x.parent {
				node := ast.Node(d.site.Node)
				if x != d.ctx {
					node = nil
				}
				info := x.fn.Info()
				engine.InspectBody(x.fn, func(y ast.Node) {
					rs, isR := y.(*ast.RangeStmt)
					if !isR || !sfFieldSel(info, rs.X, storesF) {
						return
					}
					if node != nil && sfWithin(rs.Body, node) {
						inRange = true
					}
					if node == nil {
						// the helper is called from inside the range body of an enclosing context
						for z := d.ctx; z.parent != nil; z = z.parent {
							if z.parent == x && sfWithin(rs.Body, z.call) {
								inRange = true
							}
						}
					}
				})
			}
			if !inRange || len(d.facts()) != 0 || d.outer().Deferred {
				ok = false
			}
		}
		n++
		c.Check("multi-fanout", MS+tc.fn, f.Pos(), ok, "must call "+tc.callee+" on every sub-store, unconditionally")
	}
	if f := c.MustFunc(c22Multi + ".NewFromStores"); f != nil {
		calls := sfDeepCallsTo(f, 2, "tm2/pkg/store/types.(Store).CacheWrap")
		ok := len(calls) >= 1
		for _, d := range calls {
			ok = ok && len(d.facts()) == 0
		}
		n++
		c.Check("multi-fanout", c22Multi+".NewFromStores cache-wraps every store", f.Pos(), ok, "")
	}
	c.Floor("multi-fanout", n, 4)
}
