package checks

import (
	"go/ast"
	"go/token"
	"go/types"
	"sort"
	"strings"

	"golang.org/x/tools/go/cfg"

	"gnoverif/engine"
)

// Helpers of the netI checks (C37, C38, C39, C42, C43, C49). All names carry
// the prefix "ni".

// niFact is an atomic condition known to hold (Holds) or to be false
// (!Holds) whenever a gated target executes.
type niFact struct {
	Expr  ast.Expr
	Holds bool
	Gate  engine.Gate
}

// niFacts flattens the gates of a target into atomic facts: on the true
// branch of `a && b` both hold, on the false branch of `a || b` both are
// false; a leading `!` flips. Mixed forms (`a && b` on the false branch) give
// no atomic fact for the parts (only the whole condition is known false).
func niFacts(g *engine.Graph, target *engine.Site) []niFact {
	var out []niFact
	for _, gt := range g.Gates(target) {
		out = append(out, niGateFacts(gt)...)
	}
	return out
}

func niGateFacts(gt engine.Gate) []niFact {
	var out []niFact
	var atoms []ast.Expr
	full := gt.Full()
	if gt.OnTrue {
		atoms = engine.Conjuncts(full, token.LAND)
	} else {
		atoms = engine.Conjuncts(full, token.LOR)
	}
	for _, a := range atoms {
		holds := gt.OnTrue
		a = ast.Unparen(a)
		for {
			u, ok := a.(*ast.UnaryExpr)
			if !ok || u.Op != token.NOT {
				break
			}
			holds = !holds
			a = ast.Unparen(u.X)
		}
		out = append(out, niFact{Expr: a, Holds: holds, Gate: gt})
	}
	return out
}

// niCmp is a normalised comparison X op Y that holds.
type niCmp struct {
	X, Y ast.Expr
	Op   token.Token
}

// niAsCmp renders a fact as a holding comparison (negating the operator when
// the fact is "false"). ok=false when the fact is not a comparison.
func niAsCmp(f niFact) (niCmp, bool) {
	b, ok := ast.Unparen(f.Expr).(*ast.BinaryExpr)
	if !ok {
		return niCmp{}, false
	}
	switch b.Op {
	case token.LSS, token.LEQ, token.GTR, token.GEQ, token.EQL, token.NEQ:
	default:
		return niCmp{}, false
	}
	op := b.Op
	if !f.Holds {
		op = engine.Negate(op)
	}
	return niCmp{X: b.X, Y: b.Y, Op: op}, true
}

// niFlip returns the comparison with operands swapped.
func (c niCmp) niFlip() niCmp { return niCmp{X: c.Y, Y: c.X, Op: engine.Flip(c.Op)} }

// niSelField reports whether e is a selector of the given struct field.
func niSelField(info *types.Info, e ast.Expr, field *types.Var) bool {
	se, ok := ast.Unparen(e).(*ast.SelectorExpr)
	if !ok || field == nil {
		return false
	}
	v, ok := info.Uses[se.Sel].(*types.Var)
	return ok && v.Origin() == field.Origin()
}

// niMentionsField reports whether e contains a selector of the field.
func niMentionsField(info *types.Info, e ast.Node, field *types.Var) bool {
	if e == nil || field == nil {
		return false
	}
	found := false
	ast.Inspect(e, func(n ast.Node) bool {
		if se, ok := n.(*ast.SelectorExpr); ok {
			if v, ok := info.Uses[se.Sel].(*types.Var); ok && v.Origin() == field.Origin() {
				found = true
			}
		}
		return !found
	})
	return found
}

// niMentionsObj: e mentions obj (wrapper with nil-safety).
func niMentionsObj(info *types.Info, e ast.Node, obj types.Object) bool {
	return obj != nil && e != nil && engine.Mentions(info, e, obj)
}

// niIsLenOfField: e is len(x.f) for the given field.
func niIsLenOfField(info *types.Info, e ast.Expr, field *types.Var) bool {
	c, ok := ast.Unparen(e).(*ast.CallExpr)
	if !ok || len(c.Args) != 1 || !engine.IsBuiltinCall(info, c, "len") {
		return false
	}
	return niSelField(info, c.Args[0], field)
}

// niIsLenOfObj: e is len(x) with x resolving to obj.
func niIsLenOfObj(info *types.Info, e ast.Expr, obj types.Object) bool {
	return obj != nil && engine.IsLenOf(info, e, obj)
}

// niCalleeClosure returns f and every function of the loaded packages
// statically reachable from it (including nested literals' calls).
func niCalleeClosure(p *engine.Prog, f *engine.Fn) []*engine.Fn {
	seen := map[*engine.Fn]bool{}
	var out []*engine.Fn
	var visit func(x *engine.Fn)
	visit = func(x *engine.Fn) {
		if x == nil || seen[x] {
			return
		}
		seen[x] = true
		out = append(out, x)
		fns := append([]*engine.Fn{x}, x.AllLits()...)
		for _, y := range fns {
			for _, s := range y.Calls() {
				if fo, ok := s.Callee.(*types.Func); ok {
					visit(p.FnOf(fo))
				}
			}
		}
	}
	visit(f)
	return out
}

// niLastResultNonNil: the return statement's last result is something other
// than the identifier nil (i.e. may carry an error).
func niLastResultNonNil(r *ast.ReturnStmt) bool {
	if len(r.Results) == 0 {
		return false
	}
	return !isNil(r.Results[len(r.Results)-1])
}

// niReturns lists the return statements directly in f's body with their sites.
func niReturns(f *engine.Fn) []*engine.Site {
	var out []*engine.Site
	engine.InspectBody(f, func(n ast.Node) {
		if r, ok := n.(*ast.ReturnStmt); ok {
			if s := f.SiteOf(r); s != nil {
				out = append(out, s)
			}
		}
	})
	return out
}

// niAssignedFromCall returns the objects bound (by := or =) to the results of
// the given call, by result index; nil entries for blanks / non-identifiers.
func niAssignedFromCall(f *engine.Fn, s *engine.Site) []types.Object {
	info := f.Info()
	switch st := s.Top.(type) {
	case *ast.AssignStmt:
		if len(st.Rhs) == 1 && ast.Unparen(st.Rhs[0]) == ast.Expr(s.Call) {
			out := make([]types.Object, len(st.Lhs))
			for i, l := range st.Lhs {
				if id, ok := l.(*ast.Ident); ok && id.Name != "_" {
					out[i] = info.ObjectOf(id)
				}
			}
			return out
		}
	case *ast.DeclStmt:
		// var a, b = call()
		if gd, ok := st.Decl.(*ast.GenDecl); ok {
			for _, sp := range gd.Specs {
				vs, ok := sp.(*ast.ValueSpec)
				if ok && len(vs.Values) == 1 && ast.Unparen(vs.Values[0]) == ast.Expr(s.Call) {
					out := make([]types.Object, len(vs.Names))
					for i, id := range vs.Names {
						if id.Name != "_" {
							out[i] = info.ObjectOf(id)
						}
					}
					return out
				}
			}
		}
	}
	return nil
}

// niSingleDef returns the unique expression assigned to a local variable in f
// (":=" / "=" with matching arity / var spec), or nil if it is assigned zero or
// several times or via a multi-value call.
func niSingleDef(f *engine.Fn, obj types.Object) ast.Expr {
	if obj == nil {
		return nil
	}
	info := f.Info()
	var defs []ast.Expr
	multi := false
	root := f.Root()
	all := append([]*engine.Fn{root}, root.AllLits()...)
	for _, fn := range all {
		engine.InspectBody(fn, func(n ast.Node) {
			switch st := n.(type) {
			case *ast.AssignStmt:
				for i, l := range st.Lhs {
					if id, ok := l.(*ast.Ident); ok && info.ObjectOf(id) == obj {
						if len(st.Lhs) == len(st.Rhs) && (st.Tok == token.ASSIGN || st.Tok == token.DEFINE) {
							defs = append(defs, st.Rhs[i])
						} else {
							multi = true
						}
					}
				}
			case *ast.ValueSpec:
				for i, id := range st.Names {
					if info.ObjectOf(id) == obj {
						if len(st.Values) == len(st.Names) {
							defs = append(defs, st.Values[i])
						} else if len(st.Values) != 0 {
							multi = true
						}
					}
				}
			case *ast.IncDecStmt:
				if id, ok := st.X.(*ast.Ident); ok && info.ObjectOf(id) == obj {
					multi = true
				}
			case *ast.RangeStmt:
				for _, l := range []ast.Expr{st.Key, st.Value} {
					if id, ok := l.(*ast.Ident); ok && info.ObjectOf(id) == obj {
						multi = true
					}
				}
			}
		})
	}
	if multi || len(defs) != 1 {
		return nil
	}
	return defs[0]
}

// niResolveCond replaces a condition that is a plain boolean local with its
// unique defining expression (`overflow := x > max; if overflow {`).
func niResolveCond(f *engine.Fn, e ast.Expr) ast.Expr {
	if id, ok := ast.Unparen(e).(*ast.Ident); ok {
		if v, ok := f.Info().ObjectOf(id).(*types.Var); ok && !v.IsField() {
			if d := niSingleDef(f, v); d != nil {
				return d
			}
		}
	}
	return e
}

// niRecv returns the receiver object of a method body.
func niRecv(f *engine.Fn) types.Object {
	if f.Decl == nil || f.Decl.Recv == nil || len(f.Decl.Recv.List) == 0 || len(f.Decl.Recv.List[0].Names) == 0 {
		return nil
	}
	return f.Info().ObjectOf(f.Decl.Recv.List[0].Names[0])
}

// niEnclosingLoops returns the for/range statements of f enclosing node n,
// outermost first.
func niEnclosingLoops(f *engine.Fn, n ast.Node) []ast.Stmt {
	var out []ast.Stmt
	engine.InspectBody(f, func(x ast.Node) {
		var body *ast.BlockStmt
		switch l := x.(type) {
		case *ast.ForStmt:
			body = l.Body
		case *ast.RangeStmt:
			body = l.Body
		}
		if body != nil && body.Pos() <= n.Pos() && n.End() <= body.End() {
			out = append(out, x.(ast.Stmt))
		}
	})
	return out
}

// niBlocksOf returns the set of CFG blocks holding nodes inside [lo,hi).
func niBlocksIn(g *engine.Graph, lo, hi token.Pos) map[*cfg.Block]bool {
	out := map[*cfg.Block]bool{}
	for _, b := range g.CFG.Blocks {
		for _, n := range b.Nodes {
			if lo <= n.Pos() && n.End() <= hi {
				out[b] = true
			}
		}
	}
	return out
}

// niReachAvoiding: can execution starting right after site `from` reach block
// `to` without executing any of the `avoid` sites' blocks?
func niReachAvoiding(g *engine.Graph, from *engine.Site, to *cfg.Block, avoid ...*engine.Site) bool {
	av := map[*cfg.Block]bool{}
	for _, s := range avoid {
		if s == nil {
			continue
		}
		if s.Block == from.Block {
			if s.Idx > from.Idx || (s.Idx == from.Idx && s.Ord > from.Ord) {
				// the avoid site follows `from` in the same block: everything
				// leaving the block has passed it
				return false
			}
			continue
		}
		av[s.Block] = true
	}
	for _, s := range from.Block.Succs {
		if g.Reach(s, to, av) {
			return true
		}
	}
	return false
}

// niFieldWriters returns the non-literal writes to any of the fields.
func niFieldWrites(p *engine.Prog, fields ...*types.Var) []engine.Write {
	var out []engine.Write
	for _, fl := range fields {
		for _, w := range p.FieldWrites(fl) {
			if w.Kind == "lit" {
				continue
			}
			out = append(out, w)
		}
	}
	return out
}

func niSortedSet(m map[string]bool) []string {
	var out []string
	for k := range m {
		out = append(out, k)
	}
	sort.Strings(out)
	return out
}

func niHasPrefixAny(s string, ps ...string) bool {
	for _, p := range ps {
		if strings.HasPrefix(s, p) {
			return true
		}
	}
	return false
}

// niCallArgMentions: argument i of the call mentions obj.
func niCallArgMentions(info *types.Info, call *ast.CallExpr, i int, obj types.Object) bool {
	return call != nil && i < len(call.Args) && niMentionsObj(info, call.Args[i], obj)
}

// niRecvExpr returns the receiver expression of a method call x.M(...).
func niRecvExpr(call *ast.CallExpr) ast.Expr {
	if sel, ok := ast.Unparen(call.Fun).(*ast.SelectorExpr); ok {
		return sel.X
	}
	return nil
}

// niConstObj: e resolves to the given package-level constant/var object.
func niIsObj(info *types.Info, e ast.Expr, obj types.Object) bool {
	return obj != nil && engine.ObjOf(info, e) == obj
}

// niStmtSite returns the site of a statement node or nil.
func niStmtSite(f *engine.Fn, n ast.Node) *engine.Site { return f.SiteOf(n) }

// niCfgBlock aliases cfg.Block for avoid-sets.
type niCfgBlock = cfg.Block

// niLoopHead returns the CFG block that every new iteration of the loop
// statement passes (range.loop / for.loop, or for.body of a cond-less for).
func niLoopHead(g *engine.Graph, loop ast.Stmt) *cfg.Block {
	var body *cfg.Block
	for _, b := range g.CFG.Blocks {
		if b.Stmt != loop {
			continue
		}
		switch b.Kind {
		case cfg.KindRangeLoop, cfg.KindForLoop:
			return b
		case cfg.KindForBody:
			body = b
		}
	}
	return body
}

// niCallee returns the rendered callee name of a call expression ("" if dynamic).
func niCallee(info *types.Info, call *ast.CallExpr) string {
	if call == nil {
		return ""
	}
	switch o := engine.ObjOf(info, call.Fun).(type) {
	case *types.Func:
		return engine.FuncName(o)
	case *types.Builtin:
		return "builtin." + o.Name()
	case *types.TypeName:
		return "conv." + o.Name()
	}
	return ""
}

// niStripConv strips parentheses and type conversions (T(x)) from e.
func niStripConv(info *types.Info, e ast.Expr) ast.Expr {
	for {
		e = ast.Unparen(e)
		call, ok := e.(*ast.CallExpr)
		if !ok || len(call.Args) != 1 {
			return e
		}
		if tv, ok := info.Types[call.Fun]; ok && tv.IsType() {
			e = call.Args[0]
			continue
		}
		return e
	}
}

// niIntVal evaluates e to an integer constant, looking through conversions
// and locals that are defined exactly once by such a value.
func niIntVal(f *engine.Fn, e ast.Expr, depth int) (int64, bool) {
	info := f.Info()
	if e == nil || depth > 4 {
		return 0, false
	}
	if tv, ok := info.Types[e]; ok && tv.Value != nil {
		if v, err := niParseInt(tv.Value.ExactString()); err {
			return v, true
		}
	}
	e = niStripConv(info, e)
	if tv, ok := info.Types[e]; ok && tv.Value != nil {
		if v, err := niParseInt(tv.Value.ExactString()); err {
			return v, true
		}
	}
	if id, ok := e.(*ast.Ident); ok {
		if v, ok := info.ObjectOf(id).(*types.Var); ok && !v.IsField() {
			if d := niSingleDef(f, v); d != nil {
				return niIntVal(f, d, depth+1)
			}
		}
	}
	return 0, false
}

func niParseInt(s string) (int64, bool) {
	var v int64
	neg := false
	if s == "" {
		return 0, false
	}
	for i, ch := range s {
		if i == 0 && ch == '-' {
			neg = true
			continue
		}
		if ch < '0' || ch > '9' {
			return 0, false
		}
		v = v*10 + int64(ch-'0')
	}
	if neg {
		v = -v
	}
	return v, true
}

// niSliceOf: e is obj[lo:hi] (lo/hi given as constants; -1 = absent or, for
// lo, zero). Returns whether it matches.
func niSliceOf(f *engine.Fn, e ast.Expr, obj types.Object, lo, hi int64) bool {
	info := f.Info()
	se, ok := ast.Unparen(e).(*ast.SliceExpr)
	if !ok || obj == nil || engine.ObjOf(info, se.X) != obj || se.Max != nil {
		return false
	}
	chk := func(x ast.Expr, want int64, zeroOK bool) bool {
		if x == nil {
			return want == -1 || (zeroOK && want == 0)
		}
		v, ok := niIntVal(f, x, 0)
		return ok && v == want
	}
	return chk(se.Low, lo, true) && chk(se.High, hi, false)
}

// niLocalDefCall: obj is a local defined exactly once by a call; returns it.
func niLocalDefCall(f *engine.Fn, obj types.Object) *ast.CallExpr {
	d := niSingleDef(f, obj)
	if d == nil {
		return nil
	}
	c, _ := ast.Unparen(d).(*ast.CallExpr)
	return c
}

// niDefFromCall finds the unique call (by callee name patterns) among f's call
// sites whose results are bound to variables, and returns site + bound objects.
func niBoundCall(f *engine.Fn, pats ...string) (*engine.Site, []types.Object) {
	ss := f.CallsTo(pats...)
	if len(ss) != 1 {
		return nil, nil
	}
	return ss[0], niAssignedFromCall(f, ss[0])
}

// ---------------------------------------------------------------------------
// Helper-transparent facts (robustness against "extract helper" refactors).

// niCtxFact is a fact together with the function whose variables it speaks
// about. For a fact imported from a helper (a checked helper result gates the
// target: `if err := h(a, b); err != nil { return }`), Loc translates an
// object of the analysed function (an argument, the receiver, a variable
// bound to a helper result) to its counterpart inside the helper.
type niCtxFact struct {
	niFact
	Fn       *engine.Fn
	Imported bool
	loc      map[types.Object]types.Object
	args     map[types.Object]ast.Expr // helper parameter -> argument expression at the (outermost) call
	argFn    *engine.Fn                // function whose variables the argument expressions use
}

// ArgOf returns, for an identifier of c.Fn that is a parameter of the helper,
// the argument expression passed for it (in ArgFn's variables); nil otherwise.
func (c niCtxFact) ArgOf(e ast.Expr) (ast.Expr, *engine.Fn) {
	if !c.Imported || c.args == nil {
		return nil, nil
	}
	id, ok := ast.Unparen(e).(*ast.Ident)
	if !ok {
		return nil, nil
	}
	if a := c.args[c.Fn.Info().ObjectOf(id)]; a != nil {
		return a, c.argFn
	}
	return nil, nil
}

// Loc returns the object of c.Fn that stands for the analysed function's
// object o (o itself for a local fact; nil when there is no counterpart).
func (c niCtxFact) Loc(o types.Object) types.Object {
	if o == nil {
		return nil
	}
	if !c.Imported {
		return o
	}
	return c.loc[o]
}

// Outer returns the analysed function's object that corresponds to the
// helper-side object lo (inverse of Loc).
func (c niCtxFact) Outer(lo types.Object) types.Object {
	if !c.Imported {
		return lo
	}
	for k, v := range c.loc {
		if v == lo && lo != nil {
			return k
		}
	}
	return nil
}

func (c niCtxFact) Info() *types.Info { return c.Fn.Info() }

// niSuccessReturns lists the returns of h whose result idx is "good": the nil
// identifier (wantNil) or the boolean constant want.
func niSuccessReturns(h *engine.Fn, idx int, wantNil bool, want bool) []*engine.Site {
	var out []*engine.Site
	for _, r := range niReturns(h) {
		rs := r.Node.(*ast.ReturnStmt)
		if idx >= len(rs.Results) {
			continue
		}
		e := rs.Results[idx]
		if wantNil {
			if isNil(e) {
				out = append(out, r)
			}
			continue
		}
		if tv, ok := h.Info().Types[e]; ok && tv.Value != nil {
			if (tv.Value.ExactString() == "true") == want {
				out = append(out, r)
			}
		} else {
			// non-constant boolean result: the return may produce either value
			out = append(out, r)
		}
	}
	return out
}

// niHelperOf resolves the call that produced the value tested by a fact:
// either the fact's operand is a call of a function of the loaded program, or
// a variable whose only reaching definition at the test is such a call.
// Returned: the call site in f, the helper, and the result index tested.
func niHelperOf(f *engine.Fn, e ast.Expr, at *engine.Site) (*engine.Site, *engine.Fn, int) {
	info := f.Info()
	e = ast.Unparen(e)
	if call, ok := e.(*ast.CallExpr); ok {
		if fo, _ := engine.ObjOf(info, call.Fun).(*types.Func); fo != nil {
			if h := f.Prog.FnOf(fo); h != nil {
				if s := f.SiteOf(call); s != nil {
					return s, h, 0
				}
			}
		}
		return nil, nil, 0
	}
	id, ok := e.(*ast.Ident)
	if !ok || at == nil {
		return nil, nil, 0
	}
	obj := info.ObjectOf(id)
	defs := niReachingDefs(f, obj, at)
	if len(defs) != 1 || defs[0].Call == nil {
		return nil, nil, 0
	}
	fo, _ := engine.ObjOf(info, defs[0].Call.Fun).(*types.Func)
	h := f.Prog.FnOf(fo)
	if h == nil {
		return nil, nil, 0
	}
	idx := 0
	if as, ok := defs[0].Site.Node.(*ast.AssignStmt); ok {
		for i, l := range as.Lhs {
			if lid, ok := l.(*ast.Ident); ok && info.ObjectOf(lid) == obj {
				idx = i
			}
		}
	}
	cs := f.SiteOf(defs[0].Call)
	if cs == nil {
		return nil, nil, 0
	}
	return cs, h, idx
}

// niParamMap maps objects of the caller (plain identifier arguments and the
// receiver) to the helper's parameter objects for one call site.
func niParamMap(f *engine.Fn, call *ast.CallExpr, h *engine.Fn) map[types.Object]types.Object {
	m := map[types.Object]types.Object{}
	info := f.Info()
	for i, a := range call.Args {
		a = ast.Unparen(a)
		if u, ok := a.(*ast.UnaryExpr); ok && u.Op == token.AND {
			a = ast.Unparen(u.X)
		}
		if id, ok := a.(*ast.Ident); ok {
			if po := paramObj(h, i); po != nil && info.ObjectOf(id) != nil {
				m[info.ObjectOf(id)] = po
			}
		}
	}
	if rx := niRecvExpr(call); rx != nil {
		if id, ok := ast.Unparen(rx).(*ast.Ident); ok && niRecv(h) != nil && info.ObjectOf(id) != nil {
			m[info.ObjectOf(id)] = niRecv(h)
		}
	}
	return m
}

// niFactsDeep returns the facts that hold at target in f, including the facts
// that hold at the successful returns of helpers whose checked result gates
// the target (depth-limited).
func niFactsDeep(f *engine.Fn, target *engine.Site, depth int) []niCtxFact {
	g := f.Graph()
	var out []niCtxFact
	for _, ft := range niFacts(g, target) {
		out = append(out, niCtxFact{niFact: ft, Fn: f})
		if depth <= 0 {
			continue
		}
		at := f.SiteOf(ft.Gate.Cond)
		var cs *engine.Site
		var h *engine.Fn
		var idx int
		wantNil, want := false, false
		if cmp, ok := niAsCmp(ft); ok && (cmp.Op == token.EQL) && (isNil(cmp.Y) || isNil(cmp.X)) {
			x := cmp.X
			if isNil(x) {
				x = cmp.Y
			}
			cs, h, idx = niHelperOf(f, x, at)
			wantNil = true
		} else if _, isCmp := ast.Unparen(ft.Expr).(*ast.BinaryExpr); !isCmp {
			cs, h, idx = niHelperOf(f, ft.Expr, at)
			want = ft.Holds
			if h != nil && (h.Type.Results == nil || !niIsBoolResult(h, idx)) {
				h = nil
			}
		}
		if h == nil || cs == nil || h == f {
			continue
		}
		rets := niSuccessReturns(h, idx, wantNil, want)
		if len(rets) == 0 {
			continue
		}
		if wantNil && !niOtherReturnsFail(h, idx, rets) {
			continue // some other return may also yield nil: the facts would not be guaranteed
		}
		pm := niParamMap(f, cs.Call, h)
		argExprs := map[types.Object]ast.Expr{}
		for i, a := range cs.Call.Args {
			if po := paramObj(h, i); po != nil {
				argExprs[po] = a
			}
		}
		bound := niAssignedFromCall(f, cs)
		// facts per return, keyed for intersection
		type keyed struct {
			k string
			c niCtxFact
		}
		var per [][]keyed
		for _, r := range rets {
			var ks []keyed
			loc := map[types.Object]types.Object{}
			for k, v := range pm {
				loc[k] = v
			}
			rs := r.Node.(*ast.ReturnStmt)
			for j, b := range bound {
				if b != nil && j < len(rs.Results) {
					if ro := engine.ObjOf(h.Info(), rs.Results[j]); ro != nil {
						loc[b] = ro
					}
				}
			}
			for _, in := range niFactsDeep(h, r, depth-1) {
				nc := niCtxFact{niFact: in.niFact, Fn: in.Fn, Imported: true, loc: map[types.Object]types.Object{}}
				if !in.Imported {
					nc.args, nc.argFn = argExprs, f
				}
				for k, v := range loc {
					if in.Imported {
						if vv := in.loc[v]; vv != nil {
							nc.loc[k] = vv
						}
					} else {
						nc.loc[k] = v
					}
				}
				ks = append(ks, keyed{engine.ExprString(in.Expr) + map[bool]string{true: "+", false: "-"}[in.Holds] + in.Fn.Name, nc})
			}
			per = append(per, ks)
		}
		for _, k0 := range per[0] {
			inAll := true
			for _, other := range per[1:] {
				found := false
				for _, k1 := range other {
					if k1.k == k0.k {
						found = true
					}
				}
				if !found {
					inAll = false
				}
			}
			if inAll {
				out = append(out, k0.c)
			}
		}
	}
	return out
}

func niIsBoolResult(h *engine.Fn, idx int) bool {
	if h.Obj == nil {
		return false
	}
	sig, _ := h.Obj.Type().(*types.Signature)
	if sig == nil || idx >= sig.Results().Len() {
		return false
	}
	b, ok := sig.Results().At(idx).Type().Underlying().(*types.Basic)
	return ok && b.Kind() == types.Bool
}

// niDeepBefore: every deep call (from f, through in-program helpers) matching
// pb is preceded by a deep call matching pa that dominates it and cannot run
// after it. When both lie inside the same helper call the order is decided
// inside that helper. nB is the number of pb sites found.
func niDeepBefore(f *engine.Fn, depth int, pa, pb []string) (ok bool, nB int) {
	return niDeepBeforeF(f, depth, pa, pb, nil)
}

// niDeepBeforeF is niDeepBefore over the deep sites accepted by keep.
func niDeepBeforeF(f *engine.Fn, depth int, pa, pb []string, keep func(engine.DeepSite) bool) (ok bool, nB int) {
	g := f.Graph()
	filter := func(ds []engine.DeepSite) []engine.DeepSite {
		if keep == nil {
			return ds
		}
		var out []engine.DeepSite
		for _, d := range ds {
			if keep(d) {
				out = append(out, d)
			}
		}
		return out
	}
	A := filter(f.DeepCallsTo(depth, pa...))
	B := filter(f.DeepCallsTo(depth, pb...))
	if len(B) == 0 {
		return false, 0
	}
	for _, b := range B {
		found := false
		for _, a := range A {
			if a.Outer != b.Outer {
				if g.Dominates(a.Outer, b.Outer) && !g.ReachableAfterInIteration(b.Outer, a.Outer) {
					found = true
				}
			} else if len(a.Chain) > 0 && len(b.Chain) > 0 && a.Chain[0] == b.Chain[0] && depth > 0 {
				if ok2, _ := niDeepBeforeF(a.Chain[0], depth-1, pa, pb, keep); ok2 {
					found = true
				}
			}
		}
		if !found {
			return false, len(B)
		}
	}
	return true, len(B)
}

// niDeepChecked: the error result of the (deep) call d gates target in f: the
// outer call's result is nil-tested with the failing side unable to reach the
// target, and (when d lies in a helper) every successful return of each helper
// on the chain is likewise gated by the inner call's nil test.
func niDeepChecked(f *engine.Fn, d engine.DeepSite, target *engine.Site) (bool, string) {
	g := f.Graph()
	gr := g.CheckedGuard(d.Outer, target)
	if !gr.OK {
		return false, gr.Why
	}
	if d.Inner == d.Outer {
		if !c39NilTestPasses(gr) {
			return false, "result tested by `" + engine.ExprString(gr.Cond) + "`"
		}
		return true, "checked"
	}
	// the helper's result must be tested for success
	be, isB := ast.Unparen(gr.Cond).(*ast.BinaryExpr)
	wantNil := isB && isNil(be.Y)
	if wantNil && !c39NilTestPasses(gr) {
		return false, "helper result tested by `" + engine.ExprString(gr.Cond) + "`"
	}
	if len(d.Chain) != 1 {
		return false, "call nested more than one helper deep"
	}
	h := d.Chain[0]
	var rets []*engine.Site
	if wantNil {
		nres := 0
		if h.Type.Results != nil {
			nres = h.Type.Results.NumFields()
		}
		rets = niSuccessReturns(h, nres-1, true, false)
	} else {
		pos := gr.OnTrue != isNot(gr.Cond)
		rets = niSuccessReturns(h, 0, false, pos)
	}
	if len(rets) == 0 {
		return false, "helper " + h.Name + " has no successful return"
	}
	for _, r := range rets {
		ig := h.Graph().CheckedGuard(d.Inner, r)
		if !ig.OK || !c39NilTestPasses(ig) {
			return false, "inside " + h.Name + " the call's error does not gate the successful return"
		}
	}
	return true, "checked (through " + h.Name + ")"
}

// niOtherReturnsFail: every return of h outside rets yields, for result idx, a
// value that is certainly non-nil: a composite literal / &T{}, a call of an
// error constructor (package "errors" of any path, fmt.Errorf), a package-level
// error variable, or a local known to be != nil at that return.
func niOtherReturnsFail(h *engine.Fn, idx int, rets []*engine.Site) bool {
	info := h.Info()
	isSucc := map[*engine.Site]bool{}
	for _, r := range rets {
		isSucc[r] = true
	}
	for _, r := range niReturns(h) {
		skip := false
		for s := range isSucc {
			if s.Node == r.Node {
				skip = true
			}
		}
		if skip {
			continue
		}
		rs := r.Node.(*ast.ReturnStmt)
		if idx >= len(rs.Results) {
			return false
		}
		e := ast.Unparen(rs.Results[idx])
		switch x := e.(type) {
		case *ast.CompositeLit:
			continue
		case *ast.UnaryExpr:
			if x.Op == token.AND {
				continue
			}
			return false
		case *ast.CallExpr:
			n := niCallee(info, x)
			if n == "fmt.Errorf" || strings.Contains(n, "errors.") {
				continue
			}
			return false
		case *ast.Ident:
			o := info.ObjectOf(x)
			if v, ok := o.(*types.Var); ok && v.Parent() == v.Pkg().Scope() {
				continue // package-level sentinel
			}
			nonNil := false
			for _, ft := range niFacts(h.Graph(), r) {
				if cmp, ok := niAsCmp(ft); ok && cmp.Op == token.NEQ && engine.ObjOf(info, cmp.X) == o && isNil(cmp.Y) {
					nonNil = true
				}
			}
			if nonNil {
				continue
			}
			return false
		default:
			return false
		}
	}
	return true
}

// niPrivateCalledOnlyFrom: fn is an unexported function all of whose references
// are calls from functions whose root is in allowed (or, recursively, such helpers).
func niPrivateCalledOnlyFrom(p *engine.Prog, fn *engine.Fn, allowed []string, depth int) bool {
	root := fn.Root()
	for _, a := range allowed {
		if root.Name == a {
			return true
		}
	}
	if depth <= 0 || root.Obj == nil || root.Obj.Exported() {
		return false
	}
	sites, complete := c49CallersOf(p, root)
	if !complete || len(sites) == 0 {
		return false
	}
	for _, cs := range sites {
		if !niPrivateCalledOnlyFrom(p, cs.Fn, allowed, depth-1) {
			return false
		}
	}
	return true
}
