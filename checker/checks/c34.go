package checks

import (
	"go/ast"
	"go/constant"
	"go/token"
	"go/types"
	"sort"
	"strings"

	"gnoverif/engine"
)

// C34 — the file-backed private validator never double-signs: structure of
// SignVote/SignProposal, CheckHRS, Update/save and WriteFileAtomic.
func init() {
	register("C34", c34)
	meta("C34", Meta{
		Text:      "Decides the structural clauses of the double-sign protection: (1) SignVote and SignProposal have the same normal form (sibling agreement): every exit is one of six expected (result, path-condition) pairs — CheckHRS error; identical sign-bytes → stored signature; timestamp-only difference → stored signature and stored timestamp; conflicting data → error; signer error; otherwise the result of state.Update(h, r, step, signBytes, freshSignature) — the signer is called only when CheckHRS succeeded with sameHRS == false, on the message's own sign-bytes, and no nil-error exit is reachable after signing except through Update; (2) CheckHRS' eight exits equal the expected table (regressions error, later H/R/S → (false,nil), equal HRS without sign-bytes errors, (true,nil) only with all three equal and sign-bytes present); (3) Update assigns all five fields from its parameters before save and returns save's result; save returns the errors of validate/marshal/WriteFileAtomic and writes fs.filePath; (4) WriteFileAtomic opens with O_WRONLY|O_CREATE|O_EXCL|O_SYNC in the target's directory, then Write (errors and short writes leave), Close, Rename(temp, target); (5) who-may-call/write tables: Signer.Sign, FileState.Update/save, the FileState fields, PrivValidator.state. Level 'other'.",
		Note:      "Not covered: durability of rename without directory fsync, disk-write failure followed by in-memory reuse (Update mutates memory before save succeeds), the remote signer transport, mock private validators (types.mockPV is test-only and unprotected by design), amino JSON decoding of the state file.",
		Technique: "normal-form (exit, path condition) tables from go/cfg gate facts with resolved-symbol normalisation; dominance ordering; constant evaluation of open flags; who-may-call / who-may-write",
		Ref:       "DESIGN.md §2 C34",
	})
	const P = "tm2/pkg/bft/privval/privval.go"
	const ST = "tm2/pkg/bft/privval/state/state.go"
	const T = "tm2/pkg/os/tempfile.go"
	mutants("C34",
		Mutant{"vote-sign-on-same-hrs", P, "\t\t// If they only differ by timestamp, use last timestamp and signature.\n\t\tif timestamp, ok := pv.state.CheckVotesOnlyDifferByTimestamp(signBytes); ok {\n\t\t\tvote.Signature = pv.state.Signature\n\t\t\tvote.Timestamp = timestamp\n\t\t\treturn nil\n\t\t}\n\n\t\t// Otherwise, something is wrong.\n\t\treturn errSameHRSBadData", "\t\t// If they only differ by timestamp, use last timestamp and signature.\n\t\tif timestamp, ok := pv.state.CheckVotesOnlyDifferByTimestamp(signBytes); ok {\n\t\t\tvote.Signature = pv.state.Signature\n\t\t\tvote.Timestamp = timestamp\n\t\t\treturn nil\n\t\t}", "sign-normal-form"},
		Mutant{"proposal-not-persisted", P, "\tproposal.Signature = signature\n\n\t// Then update the state and persist it.\n\treturn pv.state.Update(height, round, step, signBytes, signature)", "\tproposal.Signature = signature\n\n\t// Then update the state and persist it.\n\tgo pv.state.Update(height, round, step, signBytes, signature)\n\treturn nil", "sign-normal-form"},
		Mutant{"timestamp-path-keeps-new-time", P, "\t\t\tproposal.Signature = pv.state.Signature\n\t\t\tproposal.Timestamp = timestamp\n", "\t\t\tproposal.Signature = pv.state.Signature\n\t\t\t_ = timestamp\n", "sign-normal-form"},
		Mutant{"hrs-error-ignored", P, "\theight, round, step := vote.Height, vote.Round, fstate.VoteTypeToStep(vote.Type)\n\tsameHRS, err := pv.state.CheckHRS(height, round, step)\n\tif err != nil {\n\t\treturn err\n\t}", "\theight, round, step := vote.Height, vote.Round, fstate.VoteTypeToStep(vote.Type)\n\tsameHRS, err := pv.state.CheckHRS(height, round, step)\n\tif err != nil && sameHRS {\n\t\treturn err\n\t}", "sign-normal-form"},
		Mutant{"update-with-wrong-round", P, "\tvote.Signature = signature\n\n\t// Then update the state and persist it.\n\treturn pv.state.Update(height, round, step, signBytes, signature)", "\tvote.Signature = signature\n\n\t// Then update the state and persist it.\n\treturn pv.state.Update(height, 0, step, signBytes, signature)", "sign-normal-form"},
		Mutant{"round-regression-allowed", ST, "\tif round < fs.Round { // Round regression", "\tif round < fs.Round && step < fs.Step { // Round regression", "checkhrs-table"},
		Mutant{"step-equal-is-new", ST, "\tif step > fs.Step { // New step, we can't reuse the signature.", "\tif step >= fs.Step { // New step, we can't reuse the signature.", "checkhrs-table"},
		Mutant{"update-skips-step", ST, "\tfs.Round = round\n\tfs.Step = step\n", "\tfs.Round = round\n", "update-persist"},
		Mutant{"save-error-dropped", ST, "\tif err := osm.WriteFileAtomic(fs.filePath, jsonBytes, 0o600); err != nil {\n\t\treturn err\n\t}", "\tif err := osm.WriteFileAtomic(fs.filePath, jsonBytes, 0o600); err != nil {\n\t\treturn nil\n\t}", "update-persist"},
		Mutant{"no-osync", T, "atomicWriteFileFlag = os.O_WRONLY | os.O_CREATE | os.O_SYNC | os.O_TRUNC | os.O_EXCL", "atomicWriteFileFlag = os.O_WRONLY | os.O_CREATE | os.O_TRUNC | os.O_EXCL", "atomic-write"},
		Mutant{"rename-before-write", T, "\tif n, err := f.Write(data); err != nil {", "\tif err := os.Rename(f.Name(), filename); err != nil {\n\t\treturn err\n\t}\n\tif n, err := f.Write(data); err != nil {", "atomic-write"},
		Mutant{"short-write-accepted", T, "\t} else if n < len(data) {\n\t\treturn io.ErrShortWrite\n\t}", "\t} else if n < len(data) {\n\t\tfmt.Println(io.ErrShortWrite)\n\t}", "atomic-write"},
		Mutant{"second-signer-path", P, "func (pv *PrivValidator) Close() error {\n", "func (pv *PrivValidator) Close() error {\n\tpv.signer.Sign(nil)\n", "who-may"},
	)
}

func c34(c *engine.Ctx) {
	c.Explain = "Decides structural necessary conditions of 'no double signing': SignVote/SignProposal share one normal form of six (exit, path-condition) pairs in which the signer is reached only after a successful CheckHRS with sameHRS==false and success after signing is exactly Update's result; CheckHRS' exits equal the expected eight-row table; Update assigns the five fields then returns save's result; save propagates validate/marshal/WriteFileAtomic errors; WriteFileAtomic = open(O_EXCL|O_SYNC, same dir) → Write (error/short write leave) → Close → Rename; who-may-call/write tables for Signer.Sign, Update, save, FileState fields. Not covered: directory fsync / device durability, in-memory state after a failed save, remote signer transport, mock validators."
	pats := []string{"tm2/pkg/bft/privval", "tm2/pkg/bft/privval/state", "tm2/pkg/os", "tm2/pkg/bft/types"}
	if c.Tier == "thorough" {
		pats = []string{"tm2/...", "gno.land/..."}
	}
	p := c.Load(pats...)
	if p == nil {
		return
	}
	hhUse(p)
	hhSetStops()
	const PV = "tm2/pkg/bft/privval.(*PrivValidator)."
	const FS = "tm2/pkg/bft/privval/state.(*FileState)."

	// ---- (1) SignVote ≡ SignProposal normal form ----
	type variant struct{ fn, step, tsCheck string }
	var forms [][]string
	for _, v := range []variant{
		{"SignVote", "tm2/pkg/bft/privval/state.VoteTypeToStep(msg.Type)", "CheckVotesOnlyDifferByTimestamp"},
		{"SignProposal", "StepPropose", "CheckProposalsOnlyDifferByTimestamp"},
	} {
		f := c.MustFunc(PV + v.fn)
		if f == nil {
			continue
		}
		info := f.Info()
		recv := hhRecv(f)
		chainID, msg := paramObj(f, 0), paramObj(f, 1)
		names := map[types.Object]string{recv: "pv", chainID: "chainID", msg: "msg"}
		// role variables from the three calls (made directly or inside an extracted helper)
		bindCall := func(pat string, roles ...string) *engine.DeepSite {
			ss := hhDeepCalls(f, pat)
			if len(ss) != 1 {
				c.Check("sign-normal-form", f.Name+" exactly one call of "+pat, f.Pos(), false, "found "+hhItoa(len(ss)))
				return nil
			}
			rv := hhResultVars(ss[0].Inner.Fn, ss[0].Inner)
			if len(rv) != len(roles) {
				c.Check("sign-normal-form", f.Name+" results of "+pat+" bound", ss[0].Outer.Pos(), false, "results must be bound to variables")
				return nil
			}
			for i, r := range roles {
				if rv[i] != nil && r != "" {
					names[rv[i]] = r
				}
			}
			return &ss[0]
		}
		chkD := bindCall(FS+"CheckHRS", "sameHRS", "err")
		tsD := bindCall(FS+v.tsCheck, "lastTimestamp", "tsOnly")
		sgD := bindCall("tm2/pkg/bft/types.(Signer).Sign", "signature", "err")
		up := hhDeepCalls(f, FS+"Update")
		if chkD == nil || tsD == nil || sgD == nil {
			continue
		}
		sg := sgD.Outer
		// sameHRS / signature / tsOnly assigned once
		for o, r := range names {
			if r == "sameHRS" || r == "signature" || r == "tsOnly" || r == "lastTimestamp" {
				if len(hhAssignsTo(f, o)) != 1 {
					c.Check("sign-normal-form", f.Name+" "+r+" assigned once", f.Pos(), false, "role variable re-assigned")
				}
			}
		}
		// a helper that hands a role value back (signature, err := pv.signFresh(...)): same role for the caller's variable
		for _, dd := range []*engine.DeepSite{chkD, tsD, sgD} {
			if dd.Inner == dd.Outer || len(dd.Chain) != 1 {
				continue
			}
			h := dd.Chain[0]
			outRv := hhResultVars(f, dd.Outer)
			for _, rb := range h.Graph().ReturnBlocks() {
				ret := rb.Return()
				if ret == nil || len(ret.Results) != len(outRv) {
					continue
				}
				for i, e := range ret.Results {
					if o := engine.ObjOf(h.Info(), e); o != nil && outRv[i] != nil {
						if nm, ok := names[o]; ok {
							names[outRv[i]] = nm
						}
					}
				}
			}
		}
		dedup := func(xs []string) []string {
			sort.Strings(xs)
			var out []string
			for i, x := range xs {
				if i == 0 || x != xs[i-1] || x == "err == nil" {
					out = append(out, x)
				}
			}
			return out
		}
		_ = dedup
		var rows []string
		// exits (an exit that returns an extracted helper's result is that helper's exits)
		for _, ex := range hhExits(f, 2) {
			if len(ex.Results) != 1 {
				rows = append(rows, "exit ?")
				continue
			}
			rows = append(rows, "exit "+hhNorm(f, ex.Results[0], names, 2)+" when "+strings.Join(hhRenderFacts(f, ex.Facts, names, 2), "; "))
		}
		// effects on the message
		for _, a := range hhDeepFieldAssigns(f, msg) {
			rows = append(rows, "set msg."+strings.Join(a.Fields, ".")+" = "+hhNorm(f, a.Rhs, names, 2)+" when "+strings.Join(hhRenderFacts(f, hhDeepFacts(f, a.D), names, 2), "; "))
		}
		// the signer call
		rows = append(rows, "call Sign("+hhNorm(f, hhDeepArg(*sgD, 0), names, 2)+") on "+hhNorm(f, hhDeepRecv(*sgD), names, 0)+" when "+strings.Join(hhRenderFacts(f, hhDeepFacts(f, *sgD), names, 2), "; "))
		rows = append(rows, "call CheckHRS("+hhNorm(f, hhDeepArg(*chkD, 0), names, 2)+", "+hhNorm(f, hhDeepArg(*chkD, 1), names, 2)+", "+hhNorm(f, hhDeepArg(*chkD, 2), names, 2)+") on "+hhNorm(f, hhDeepRecv(*chkD), names, 0))
		rows = append(rows, "call "+v.tsCheck+"("+hhNorm(f, hhDeepArg(*tsD, 0), names, 2)+") on "+hhNorm(f, hhDeepRecv(*tsD), names, 0))
		sort.Strings(rows)

		sb := "msg.SignBytes(chainID)"
		eq := "bytes.Equal(" + sb + ", pv.state.SignBytes)"
		tsOnly := "tsOnly"
		want := []string{
			"call CheckHRS(msg.Height, msg.Round, " + v.step + ") on pv.state",
			"call " + v.tsCheck + "(" + sb + ") on pv.state",
			"call Sign(" + sb + ") on pv.signer when !sameHRS; err == nil",
			"exit err when err != nil",
			"exit nil when " + eq + "; err == nil; sameHRS",
			"exit nil when !" + eq + "; err == nil; sameHRS; " + tsOnly,
			"exit tm2/pkg/bft/privval.errSameHRSBadData when !" + eq + "; !" + tsOnly + "; err == nil; sameHRS",
			"exit err when !sameHRS; err != nil; err == nil",
			"exit pv.state.Update(msg.Height, msg.Round, " + v.step + ", " + sb + ", signature) when !sameHRS; err == nil; err == nil",
			"set msg.Signature = pv.state.Signature when " + eq + "; err == nil; sameHRS",
			"set msg.Signature = pv.state.Signature when !" + eq + "; err == nil; sameHRS; " + tsOnly,
			"set msg.Timestamp = lastTimestamp when !" + eq + "; err == nil; sameHRS; " + tsOnly,
			"set msg.Signature = signature when !sameHRS; err == nil; err == nil",
		}
		canonWhen := func(r string) string {
			j := strings.Index(r, " when ")
			if j < 0 {
				return r
			}
			xs := strings.Split(r[j+6:], "; ")
			sort.Strings(xs)
			var u []string
			for i, x := range xs {
				if i == 0 || x != xs[i-1] {
					u = append(u, x)
				}
			}
			return r[:j] + " when " + strings.Join(u, "; ")
		}
		for i := range want {
			want[i] = canonWhen(want[i])
		}
		for i := range rows {
			rows[i] = canonWhen(rows[i])
		}
		sort.Strings(rows)
		sort.Strings(want)
		have := map[string]bool{}
		for _, r := range rows {
			have[r] = true
		}
		wanted := map[string]bool{}
		for _, w := range want {
			wanted[w] = true
			short := w
			if j := strings.Index(w, " when "); j >= 0 {
				short = w[:j] + " …"
			}
			_ = short
			c.Check("sign-normal-form", f.Name+": "+w, f.Pos(), have[w], "expected element of the signing normal form is missing")
		}
		for _, r := range rows {
			if !wanted[r] {
				c.Check("sign-normal-form", f.Name+" unexpected: "+r, f.Pos(), false, "exit/effect not in the expected normal form")
			}
		}
		c.Floor("sign-normal-form "+v.fn, len(rows), 13)
		// nothing but Update's result may follow the signature
		n := 0
		for _, rb := range f.Graph().ReturnBlocks() {
			ret := rb.Return()
			rs := f.SiteOf(ret)
			if rs == nil || !f.Graph().ReachableAfter(sg, rs) {
				continue
			}
			n++
			_, _, isUpd := hhMethodCall(info, ret.Results[0], "Update")
			rv := hhResultVars(f, sg)
			isErr := len(rv) == 2 && engine.ObjOf(info, ret.Results[0]) == rv[1]
			c.Check("sign-normal-form", f.Name+" exit after Sign: "+hhRender(ret.Results[0]), ret.Pos(), (isUpd && len(up) == 1) || isErr, "after the signer produced a signature the only exits are the signer's error and Update's result")
		}
		c.Floor("sign-normal-form exits after Sign "+v.fn, n, 2)
		// strip the variant-specific parts for the sibling comparison
		var gen []string
		for _, r := range rows {
			r = strings.ReplaceAll(r, v.step, "<step>")
			r = strings.ReplaceAll(r, v.tsCheck, "<tsCheck>")
			gen = append(gen, r)
		}
		forms = append(forms, gen)
	}
	if len(forms) == 2 {
		c.Check("sign-normal-form", "SignVote ≡ SignProposal", token.NoPos, strings.Join(forms[0], "\n") == strings.Join(forms[1], "\n"), "the two signing entry points must have the same normal form up to step / timestamp-check function")
	}

	// ---- (2) CheckHRS table ----
	if f := c.MustFunc(FS + "CheckHRS"); f != nil {
		recv := hhRecv(f)
		names := map[types.Object]string{recv: "fs", paramObj(f, 0): "height", paramObj(f, 1): "round", paramObj(f, 2): "step"}
		var rows []string
		for _, rb := range f.Graph().ReturnBlocks() {
			ret := rb.Return()
			rs := f.SiteOf(ret)
			if rs == nil || len(ret.Results) != 2 {
				rows = append(rows, "?")
				continue
			}
			e := "err"
			if isNil(ret.Results[1]) {
				e = "nil"
			}
			rows = append(rows, "("+hhNorm(f, ret.Results[0], names, 0)+", "+e+") when "+strings.Join(hhCtx(f, rs, names, 0), "; "))
		}
		hEq := "height <= fs.Height; height >= fs.Height"
		rEq := "round <= fs.Round; round >= fs.Round"
		sEq := "step <= fs.Step; step >= fs.Step"
		want := []string{
			"(false, err) when height < fs.Height",
			"(false, nil) when height > fs.Height; height >= fs.Height",
			"(false, err) when " + hEq + "; round < fs.Round",
			"(false, nil) when " + hEq + "; round > fs.Round; round >= fs.Round",
			"(false, err) when " + hEq + "; " + rEq + "; step < fs.Step",
			"(false, nil) when " + hEq + "; " + rEq + "; step > fs.Step; step >= fs.Step",
			"(false, err) when " + hEq + "; " + rEq + "; " + sEq + "; fs.SignBytes == nil",
			"(true, nil) when " + hEq + "; " + rEq + "; " + sEq + "; fs.SignBytes != nil; fs.Signature != nil",
		}
		have := map[string]bool{}
		for _, r := range rows {
			j := strings.Index(r, " when ")
			if j >= 0 {
				r = r[:j] + " when " + hhSortedJoin(r[j+6:])
			}
			have[r] = true
		}
		wanted := map[string]bool{}
		for _, w := range want {
			j := strings.Index(w, " when ")
			w = w[:j] + " when " + hhSortedJoin(w[j+6:])
			wanted[w] = true
			c.Check("checkhrs-table", f.Name+": "+w, f.Pos(), have[w], "expected exit missing")
		}
		for r := range have {
			if !wanted[r] {
				c.Check("checkhrs-table", f.Name+" unexpected: "+r, f.Pos(), false, "exit not in the expected table")
			}
		}
		c.Floor("checkhrs-table", len(rows), 8)
	}
	// step numbering: propose < prevote < precommit, and the vote-type mapping
	{
		ks := p.EnumConsts("tm2/pkg/bft/privval/state.Step")
		vals := map[string]int64{}
		for _, k := range ks {
			if v, ok := constant.Int64Val(k.Val()); ok {
				vals[k.Name()] = v
			}
		}
		ok := vals["StepPropose"] > 0 && vals["StepPropose"] < vals["StepPrevote"] && vals["StepPrevote"] < vals["StepPrecommit"]
		c.Check("checkhrs-table", "Step ordering propose < prevote < precommit", token.NoPos, ok, "step regression test relies on this order")
		if f := c.MustFunc("tm2/pkg/bft/privval/state.VoteTypeToStep"); f != nil {
			info := f.Info()
			good := 0
			for _, si := range f.Switches() {
				for k, want := range map[string]string{"PrevoteType": "StepPrevote", "PrecommitType": "StepPrecommit"} {
					if cc := si.Consts[k]; cc != nil && len(cc.Body) == 1 {
						if r, isR := cc.Body[0].(*ast.ReturnStmt); isR && len(r.Results) == 1 && hhConstName(info, r.Results[0]) == want {
							good++
						}
					}
				}
				c.Check("checkhrs-table", f.Name+" unknown type panics", si.Stmt.Pos(), si.HasDefault && f.ClausePanics(si.Default), "an unknown vote type must not map to a step")
			}
			c.Check("checkhrs-table", f.Name+" mapping", f.Pos(), good == 2, "PrevoteType→StepPrevote, PrecommitType→StepPrecommit")
		}
	}

	// ---- (3) Update / save ----
	if f := c.MustFunc(FS + "Update"); f != nil {
		info := f.Info()
		recv := hhRecv(f)
		g := f.Graph()
		saves := f.CallsTo(FS + "save")
		c.Floor("update-persist save call", len(saves), 1)
		for _, s := range saves {
			got := map[string]bool{}
			for _, a := range hhFieldAssigns(f, recv) {
				if len(a.Fields) == 1 && a.Site != nil && g.Dominates(a.Site, s) {
					// value must be the parameter of the matching position
					want := map[string]int{"Height": 0, "Round": 1, "Step": 2, "SignBytes": 3, "Signature": 4}
					if i, ok := want[a.Fields[0]]; ok && engine.ObjOf(info, a.Rhs) == paramObj(f, i) {
						got[a.Fields[0]] = true
					}
				}
			}
			for _, fld := range []string{"Height", "Round", "Step", "SignBytes", "Signature"} {
				c.Check("update-persist", f.Name+" sets "+fld+" before save", s.Pos(), got[fld], "all five fields of the sign state must be set from the parameters before it is persisted")
			}
			// returned
			ret := false
			for _, rb := range g.ReturnBlocks() {
				r := rb.Return()
				if len(r.Results) == 1 && ast.Unparen(r.Results[0]) == ast.Expr(s.Call) {
					ret = true
				}
			}
			onlyRet := len(g.ReturnBlocks()) == 1
			c.Check("update-persist", f.Name+" returns save()", s.Pos(), ret && onlyRet, "Update must report the result of persisting")
		}
	}
	if f := c.MustFunc(FS + "save"); f != nil {
		info := f.Info()
		recv := hhRecv(f)
		g := f.Graph()
		wr := hhDeepCalls(f, "tm2/pkg/os.WriteFileAtomic")
		c.Floor("update-persist WriteFileAtomic", len(wr), 1)
		for _, wd := range wr {
			wd := wd
			w := wd.Outer
			c.Check("update-persist", f.Name+" writes fs.filePath", w.Pos(), hhIsChain(info, hhDeepArg(wd, 0), recv, "filePath"), "the sign state must be written to its own file path")
			// data is the marshalled receiver (marshalled here or in one private helper that hands the bytes back)
			dataOK := false
			written := engine.ObjOf(info, hhDeepArg(wd, 1))
			marshals := hhDeepCalls(f, "tm2/pkg/amino.MarshalJSONIndent", "tm2/pkg/amino.MarshalJSON")
			for _, md := range marshals {
				md := md
				if engine.ObjOf(info, hhDeepArg(md, 0)) != recv || written == nil {
					continue
				}
				if ok, _ := hhDeepErrGuard(f, md, w); !ok {
					continue
				}
				inRv := hhResultVars(md.Inner.Fn, md.Inner)
				if len(inRv) != 2 || inRv[0] == nil {
					continue
				}
				if md.Inner == md.Outer {
					dataOK = dataOK || inRv[0] == written
					continue
				}
				if len(md.Chain) != 1 {
					continue
				}
				// helper: every success exit returns the marshalled bytes as first result,
				// and the caller writes the helper's first result
				h := md.Chain[0]
				outRv := hhResultVars(f, md.Outer)
				okRet := len(outRv) >= 1 && outRv[0] == written
				nOK := 0
				for _, rb := range h.Graph().ReturnBlocks() {
					r := rb.Return()
					if r == nil || len(r.Results) != 2 {
						okRet = false
						continue
					}
					if isNil(r.Results[1]) {
						nOK++
						if engine.ObjOf(h.Info(), r.Results[0]) != inRv[0] {
							okRet = false
						}
					}
				}
				dataOK = dataOK || (okRet && nOK >= 1)
			}
			c.Check("update-persist", f.Name+" writes the marshalled state", w.Pos(), dataOK, "data must be amino JSON of the receiver, marshal error leaves first")
			vOK := false
			for _, vd := range hhDeepCalls(f, FS+"validate") {
				vd := vd
				if ok, _ := hhDeepErrGuard(f, vd, w); !ok {
					continue
				}
				// validation also precedes (and gates) the marshalling
				for _, md := range marshals {
					if vd.Inner != vd.Outer && md.Inner != md.Outer && vd.Outer == md.Outer && len(vd.Chain) == 1 && len(md.Chain) == 1 {
						if ok, _ := hhErrGuard(vd.Chain[0], vd.Inner, md.Inner); ok {
							vOK = true
						}
					} else if ok, _ := hhDeepErrGuard(f, vd, md.Outer); ok {
						vOK = true
					}
				}
			}
			c.Check("update-persist", f.Name+" validate before write", w.Pos(), vOK, "an invalid sign state must not be persisted")
			// success exits: `return nil` only after a successful write, or `return WriteFileAtomic(...)`
			n := 0
			for _, rb := range g.ReturnBlocks() {
				r := rb.Return()
				if len(r.Results) != 1 {
					continue
				}
				if ast.Unparen(r.Results[0]) == ast.Expr(w.Call) {
					n++
					c.Check("update-persist", f.Name+" returns the write's result", r.Pos(), true, "error propagated; nil only when the write succeeded")
					continue
				}
				if !isNil(r.Results[0]) {
					continue
				}
				n++
				rs := f.SiteOf(r)
				ok, why := false, "unlocated"
				if rs != nil {
					ok, why = hhDeepErrGuard(f, wd, rs)
				}
				c.Check("update-persist", f.Name+" nil result only after successful write", r.Pos(), ok, why)
			}
			c.Floor("update-persist save success exits", n, 1)
		}
	}

	// ---- (4) WriteFileAtomic ----
	if f := c.MustFunc("tm2/pkg/os.WriteFileAtomic"); f != nil {
		info := f.Info()
		g := f.Graph()
		filename, data := paramObj(f, 0), paramObj(f, 1)
		names := map[types.Object]string{filename: "filename", data: "data"}
		opens := hhDeepCalls(f, "os.OpenFile")
		writes := hhDeepCalls(f, "os.(*File).Write")
		renames := hhDeepCalls(f, "os.Rename")
		var closes []*engine.Site
		for _, d := range hhDeepCalls(f, "os.(*File).Close") {
			if !d.Outer.Deferred && !d.Inner.Deferred {
				closes = append(closes, d.Outer)
			}
		}
		ok1 := len(opens) == 1 && len(writes) == 1 && len(renames) == 1 && len(closes) >= 1
		c.Check("atomic-write", f.Name+" one open, one write, a close, one rename", f.Pos(), ok1, "open="+hhItoa(len(opens))+" write="+hhItoa(len(writes))+" close="+hhItoa(len(closes))+" rename="+hhItoa(len(renames)))
		if ok1 {
			od, wd, rd := opens[0], writes[0], renames[0]
			o, w, r := od.Outer, wd.Outer, rd.Outer
			// flags
			flagOK, why := false, "flag argument is not a constant"
			if tv, ok := info.Types[hhArg(od.Inner.Call, 1)]; ok && tv.Value != nil {
				fv, _ := constant.Int64Val(tv.Value)
				need := map[string]int64{}
				if osp := p.ByPath["os"]; osp != nil && osp.Types != nil {
					for _, nm := range []string{"O_WRONLY", "O_CREATE", "O_EXCL", "O_SYNC"} {
						if k, isK := osp.Types.Scope().Lookup(nm).(*types.Const); isK {
							v, _ := constant.Int64Val(k.Val())
							need[nm] = v
						}
					}
				}
				flagOK = len(need) == 4
				why = "all required flags present"
				for nm, v := range need {
					if fv&v != v {
						flagOK, why = false, "open flags lack "+nm+" (temp file must be new and written synchronously)"
					}
				}
			}
			c.Check("atomic-write", f.Name+" open flags O_WRONLY|O_CREATE|O_EXCL|O_SYNC", o.Pos(), flagOK, why)
			// temp file lives in the target's directory
			nm := hhNorm(f, hhDeepArg(od, 0), names, 3)
			c.Check("atomic-write", f.Name+" temp file in the target directory", o.Pos(), strings.HasPrefix(nm, "path/filepath.Join(path/filepath.Dir(filename), "), "rename is atomic only within one directory; temp name is `"+nm+"`")
			// order
			c.Check("atomic-write", f.Name+" open before write", w.Pos(), g.ReachableAfter(o, w) && !g.ReachableAfter(w, o), "the temp file must be opened before, and never after, the write")
			okw, whyw := hhDeepErrGuard(f, wd, r)
			c.Check("atomic-write", f.Name+" rename only after an error-free write", r.Pos(), okw, whyw)
			// short write leaves
			short := false
			rv := hhResultVars(wd.Inner.Fn, wd.Inner)
			if len(rv) == 2 && rv[0] != nil {
				isN := func(e ast.Expr) bool { return engine.ObjOf(info, e) == rv[0] }
				isLen := func(e ast.Expr) bool { return engine.IsLenOf(info, e, data) }
				short = hhHasCmp(hhFacts(f, r), token.GEQ, isN, isLen)
			}
			c.Check("atomic-write", f.Name+" short write leaves before rename", r.Pos(), short, "rename must be reached only when n >= len(data)")
			c.Check("atomic-write", f.Name+" writes the caller's data", w.Pos(), engine.ObjOf(info, hhDeepArg(wd, 0)) == data, "")
			cl := false
			for _, cs := range closes {
				if g.Dominates(w, cs) && g.Dominates(cs, r) {
					cl = true
				}
			}
			c.Check("atomic-write", f.Name+" close between write and rename", r.Pos(), cl, "the file must be closed before it is renamed into place")
			// rename(temp, target) and its result returned
			a0, _, isName := hhMethodCall(info, hhDeepArg(rd, 0), "Name")
			fobj := engine.ObjOf(info, hhDeepRecv(wd))
			c.Check("atomic-write", f.Name+" rename(temp, target)", r.Pos(), isName && engine.ObjOf(info, a0) == fobj && fobj != nil && engine.ObjOf(info, hhDeepArg(rd, 1)) == filename, "the written temp file must be renamed onto the requested file name")
			// success exits: `return <rename call>` or `return nil` behind the rename's error guard
			retOK := false
			for _, rb := range g.ReturnBlocks() {
				rt := rb.Return()
				if len(rt.Results) != 1 {
					continue
				}
				if ast.Unparen(rt.Results[0]) == ast.Expr(r.Call) {
					retOK = true
					continue
				}
				if isNil(rt.Results[0]) {
					rs := f.SiteOf(rt)
					ok, why := false, "unlocated"
					if rs != nil {
						ok, why = hhDeepErrGuard(f, rd, rs)
					}
					if ok {
						retOK = true
					} else {
						c.Check("atomic-write", f.Name+" no success exit without rename", rt.Pos(), false, "`return nil` bypasses the rename: "+why)
					}
				}
			}
			c.Check("atomic-write", f.Name+" returns Rename's result", r.Pos(), retOK, "a failed rename must be reported")
		}
	}

	// ---- (5) who may ----
	{
		inPV := func(xs []string) []string { return hhWithPrefix(xs, "tm2/pkg/bft/privval.") }
		sg := engine.CallerSet(p.RefsToFunc("tm2/pkg/bft/types.(Signer).Sign"))
		c.Check("who-may", "callers of Signer.Sign in privval", token.NoPos, len(hhExtra(inPV(sg), []string{PV + "SignVote", PV + "SignProposal"})) == 0 && len(inPV(sg)) == 2, "callers: "+join(inPV(sg)))
		allowedAll := []string{PV + "SignVote", PV + "SignProposal",
			"tm2/pkg/bft/types.(*mockPV).SignVote", "tm2/pkg/bft/types.(*mockPV).SignProposal",
			"tm2/pkg/bft/privval/signer/remote/server.(*RemoteSignerServer).handle", "tm2/pkg/bft/privval/signer/remote/server.(*RemoteSignerServer).handleRequest",
			"tm2/pkg/bft/privval/signer/remote/server.(*RemoteSignerServer).serve", "tm2/pkg/bft/privval/signer/remote/server.(*RemoteSignerServer).handleConnection",
			"gno.land/pkg/gnoland.SignGenesisTxs"}
		if c.Tier == "thorough" {
			ex := hhExtra(sg, allowedAll)
			c.Check("who-may", "callers of Signer.Sign in the module", token.NoPos, len(ex) == 0, "callers: "+join(sg)+"; not in table: "+join(ex))
		} else {
			ex := hhExtra(sg, allowedAll)
			c.Check("who-may", "callers of Signer.Sign in the loaded packages", token.NoPos, len(ex) == 0, "callers: "+join(sg))
		}
		for _, w := range []struct {
			fn      string
			allowed []string
		}{
			{FS + "Update", []string{PV + "SignVote", PV + "SignProposal"}},
			{FS + "save", []string{FS + "Update", "tm2/pkg/bft/privval/state.GeneratePersistedFileState"}},
			{FS + "CheckHRS", []string{PV + "SignVote", PV + "SignProposal"}},
		} {
			cs := engine.CallerSet(p.RefsToFunc(w.fn))
			c.Check("who-may", "callers of "+w.fn, token.NoPos, len(hhExtra(cs, w.allowed)) == 0 && len(cs) > 0, "callers: "+join(cs))
		}
		for _, fld := range []string{"Height", "Round", "Step", "SignBytes", "Signature"} {
			v := p.Field("tm2/pkg/bft/privval/state.FileState." + fld)
			if v == nil {
				c.Undecided("who-may", "FileState."+fld, "field not found")
				continue
			}
			ws := engine.WriterSet(p.FieldWrites(v), nil)
			allowed := []string{FS + "Update"}
			c.Check("who-may", "writers of FileState."+fld, token.NoPos, len(hhExtra(ws, allowed)) == 0 && len(ws) == 1, "writers: "+join(ws))
		}
		if v := p.Field("tm2/pkg/bft/privval.PrivValidator.state"); v != nil {
			ws := engine.WriterSet(p.FieldWrites(v), func(w engine.Write) bool { return w.Direct })
			c.Check("who-may", "writers of PrivValidator.state", token.NoPos, len(hhExtra(ws, []string{"tm2/pkg/bft/privval.NewPrivValidator"})) == 0 && len(ws) == 1, "writers: "+join(ws))
		} else {
			c.Undecided("who-may", "PrivValidator.state", "field not found")
		}
	}
}
