package checks

import (
	"go/ast"

	"gnoverif/engine"
)

// C18 extra — the set arithmetic never hands back an operand as its result.
// Coins.Add/AddUnsafe/Sub/SubUnsafe must return a set they built (the
// accumulator filled by zero-free appends, or another call's result): returning
// the receiver or the argument itself skips the zero-stripping/merging of the
// loop (so `{} + {0aaa,3bbb}` is no longer zero-free) and makes the result alias
// an operand. (Added after an independently seeded change gave AddUnsafe a
// "one side is empty" fast path returning the other operand.)
func init() {
	extend("C18", c18Returns)
	mutants("C18",
		Mutant{"empty-operand-fast-path", "tm2/pkg/std/coin.go", "	lenA, lenB := len(coins), len(coinsB)\n", "	lenA, lenB := len(coins), len(coinsB)\n\tif lenA == 0 {\n\t\treturn coinsB\n\t}\n", "result-not-operand"},
	)
}

func c18Returns(c *engine.Ctx) {
	p := progWith(c, "tm2/pkg/std")
	if p == nil {
		return
	}
	n := 0
	for _, name := range []string{"Add", "AddUnsafe", "Sub", "SubUnsafe"} {
		f := c.MustFunc("tm2/pkg/std.(Coins)." + name)
		if f == nil {
			continue
		}
		info := f.Info()
		operands := map[string]bool{}
		if f.Decl.Recv != nil {
			for _, nm := range f.Decl.Recv.List[0].Names {
				operands[nm.Name] = true
			}
		}
		for _, fld := range f.Type.Params.List {
			for _, nm := range fld.Names {
				operands[nm.Name] = true
			}
		}
		engine.InspectBody(f, func(x ast.Node) {
			r, ok := x.(*ast.ReturnStmt)
			if !ok {
				return
			}
			for _, e := range r.Results {
				n++
				bad := ""
				// a bare operand, or a re-slice of one
				root := ast.Unparen(e)
				for {
					if se, ok := root.(*ast.SliceExpr); ok {
						root = ast.Unparen(se.X)
						continue
					}
					break
				}
				if id, ok := root.(*ast.Ident); ok && operands[id.Name] {
					if obj := info.ObjectOf(id); obj != nil {
						// still the parameter object (not shadowed)
						bad = id.Name
					}
				}
				c.Check("result-not-operand", f.Name+" return "+engine.ExprString(e), r.Pos(), bad == "",
					"returns its operand `"+bad+"` itself: the result skips zero-stripping/merging and aliases the operand")
			}
		})
	}
	c.Floor("result-not-operand", n, 4)
}
