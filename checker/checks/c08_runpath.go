package checks

import (
	"go/ast"

	"gnoverif/engine"
)

// C08 extra — MsgRun executes as the signer's own ephemeral realm: in
// VMKeeper.Run the package path that the code runs under (and whose derived
// address a realm-send banker may spend from) is unconditionally overwritten
// with "<chainDomain>/e/<msg.Caller>/run" before anything is executed, so a
// path supplied in the message can never name another account. (Added after an
// independently seeded pair of edits relaxed MsgRun.ValidateBasic and made the
// overwrite conditional on an empty path.)
func init() {
	extend("C08", c08RunPath)
	mutants("C08",
		Mutant{"run-path-from-message", "gno.land/pkg/sdk/vm/keeper.go", "	memPkg.Path = chainDomain + \"/e/\" + msg.Caller.String() + \"/run\"\n", "	if memPkg.Path == \"\" {\n\t\tmemPkg.Path = chainDomain + \"/e/\" + msg.Caller.String() + \"/run\"\n\t}\n", "run-path-bound"},
		Mutant{"run-path-from-creator-arg", "gno.land/pkg/sdk/vm/keeper.go", "	memPkg.Path = chainDomain + \"/e/\" + msg.Caller.String() + \"/run\"\n", "	memPkg.Path = chainDomain + \"/e/\" + memPkg.Name + \"/run\"\n", "run-path-bound"},
	)
}

func c08RunPath(c *engine.Ctx) {
	p := progWith(c, "gno.land/pkg/sdk/vm")
	if p == nil {
		return
	}
	f := c.MustFunc("gno.land/pkg/sdk/vm.(*VMKeeper).Run")
	if f == nil {
		return
	}
	g := f.Graph()
	msgObj := paramObj(f, 1)
	// assignments <x>.Path = … where the RHS mentions msg.Caller
	var bound []*engine.Site
	var target ast.Expr
	engine.InspectBody(f, func(n ast.Node) {
		as, ok := n.(*ast.AssignStmt)
		if !ok || len(as.Lhs) != 1 || len(as.Rhs) != 1 {
			return
		}
		se, ok := as.Lhs[0].(*ast.SelectorExpr)
		if !ok || se.Sel.Name != "Path" {
			return
		}
		callerUsed := false
		ast.Inspect(as.Rhs[0], func(m ast.Node) bool {
			if s2, ok := m.(*ast.SelectorExpr); ok && s2.Sel.Name == "Caller" && engine.ObjOf(f.Info(), s2.X) == msgObj {
				callerUsed = true
			}
			return true
		})
		if !callerUsed {
			return
		}
		if st := f.SiteOf(as); st != nil {
			bound = append(bound, st)
			target = se.X
		}
	})
	c.Floor("run-path-bound", len(bound), 1)
	if len(bound) == 0 {
		c.Check("run-path-bound", f.Name+" path := <domain>/e/<msg.Caller>/run", f.Pos(), false, "Run must overwrite the mem package path with the signer's run path")
		return
	}
	for _, b := range bound {
		// unconditional: no gate except sanity gates whose other branch returns an error before executing anything
		uncond := true
		why := ""
		for _, gt := range g.Gates(b) {
			other := gt.Block.Succs[0]
			if gt.OnTrue {
				other = gt.Block.Succs[1]
			}
			// allowed: the other branch leaves the function (return/panic) without running code
			leaves := len(other.Succs) == 0
			if !leaves {
				uncond = false
				why = "the overwrite is conditional on `" + engine.ExprString(gt.Cond) + "`: a path carried in the message survives"
			}
		}
		c.Check("run-path-bound", f.Name+" overwrite is unconditional", b.Pos(), uncond, why)
	}
	// it precedes every execution of the package (in Run and its closures)
	runs := f.CallsToDeep("gnovm/pkg/gnolang.(*Machine).RunMemPackage", "gnovm/pkg/gnolang.(*Machine).RunMemPackageWithOverrides")
	c.Floor("run-path-bound executions", len(runs), 1)
	for _, r := range runs {
		if r.Fn != f {
			// inside a closure of Run: the closure literal is created after the overwrite
			lit := r.Fn
			for lit.Parent != nil && lit.Parent != f {
				lit = lit.Parent
			}
			st := f.SiteOf(lit.Lit)
			ok := st != nil && g.MustPass(st, bound)
			c.Check("run-path-bound", f.Name+" overwrite precedes execution (closure)", r.Pos(), ok, "the package must not be executed before its path was bound to the signer")
			continue
		}
		c.Check("run-path-bound", f.Name+" overwrite precedes execution", r.Pos(), g.MustPass(r, bound), "the package must not be executed before its path was bound to the signer")
	}
	// no later write to the same Path field
	engine.InspectBody(f, func(n ast.Node) {
		as, ok := n.(*ast.AssignStmt)
		if !ok {
			return
		}
		for _, l := range as.Lhs {
			if se, ok := l.(*ast.SelectorExpr); ok && se.Sel.Name == "Path" && target != nil && engine.ExprString(se.X) == engine.ExprString(target) {
				st := f.SiteOf(as)
				isBound := false
				for _, b := range bound {
					if b.Node == ast.Node(as) {
						isBound = true
					}
				}
				if !isBound && st != nil {
					for _, b := range bound {
						c.Check("run-path-bound", f.Name+" no other write of the path", as.Pos(), !g.ReachableAfter(b, st), "the bound path is overwritten again later")
					}
				}
			}
		}
	})
}
