package checks

import (
	"go/ast"
	"go/token"
	"go/types"
	"strconv"
	"strings"

	"gnoverif/engine"
)

// C17 — block gas price adjustment rule: no panic sites, mirrored
// increase/decrease branches with minimum step and initial-price floor,
// stay-put guards, value flow of UpdateGasPrice.
func init() {
	register("C17", c17)
	meta("C17", Meta{
		Text:      "Decides structural necessary conditions of the gas-price rule in tm2/pkg/sdk/auth: (1) R-PANIC — calcBlockGasPrice and its local callees contain no explicit panic, every big.Int division has a divisor that is a non-zero constant, a Params field that Params.Validate forces > 0, or a value proved non-zero by a dominating Sign()/Cmp test, and Int64() is dominated by IsInt64(); (2) no native integer arithmetic on prices/gas inside the computation; (3) the branch taken when gasUsed > target ends in lastPrice + maxBig(·, 1), the other in lastPrice − maxBig(·, 1) followed by maxBig(·, initialPrice), and that value is what is stored into the returned price; maxBig returns the larger argument; (4) the three stay-put conditions (price 0, TargetGasRatio 0, used == target) return the unmodified argument; (5) UpdateGasPrice feeds calcBlockGasPrice with (LastGasPrice, BlockGasMeter.GasConsumed, ConsensusParams.Block.MaxGas, ctx Params) in that order and stores exactly its result; SetGasPrice has no other callers than UpdateGasPrice and InitChainer; the Params type assertion is fed by gnoland.EndBlocker under the same nil-test. Level 'other'.",
		Note:      "Not covered: the numeric values of the rule (proportional term, rounding), gas metering that produces gasUsed. Assumes stored auth Params passed Params.Validate (SetParams / WillSetParam validate) — that is what discharges the compressor divisor.",
		Technique: "may-panic site enumeration with guard recognition (R-PANIC), typed operator filter (R-ARITH), mirrored-branch comparison (R-SIB), go/cfg gates, who-may-call",
		Ref:       "DESIGN.md §2 C17",
	})
	const F = "tm2/pkg/sdk/auth/keeper.go"
	mutants("C17",
		Mutant{"decrease-floor-dropped", F, "diff := maxBig(num, bigOne)\n\t\tnum.Sub(lastPriceInt, diff)", "diff := num\n\t\tnum.Sub(lastPriceInt, diff)", "min-step tm2/pkg/sdk/auth.(GasPriceKeeper).calcBlockGasPrice decrease"},
		Mutant{"init-floor-dropped", F, "num = maxBig(num, initPriceInt)", "_ = maxBig(num, initPriceInt)", "init-floor"},
		Mutant{"increase-subtracts", F, "num.Add(lastPriceInt, diff)", "num.Sub(lastPriceInt, diff)", "direction tm2/pkg/sdk/auth.(GasPriceKeeper).calcBlockGasPrice increase"},
		Mutant{"maxbig-is-min", F, "if x.Cmp(y) < 0 {\n\t\treturn y", "if x.Cmp(y) > 0 {\n\t\treturn y", "maxbig-is-max"},
		Mutant{"args-swapped", F, "gk.calcBlockGasPrice(lgp, gasUsed, maxBlockGas, params)", "gk.calcBlockGasPrice(lgp, maxBlockGas, gasUsed, params)", "update-flow"},
		Mutant{"on-target-moves", F, "if targetGasInt.Cmp(gasUsedInt) == 0 {\n\t\treturn lastGasPrice\n\t}", "if targetGasInt.Cmp(gasUsedInt) == 0 && gasUsed > 0 {\n\t\treturn lastGasPrice\n\t}", "stay-put tm2/pkg/sdk/auth.(GasPriceKeeper).calcBlockGasPrice used==target"},
		Mutant{"compressor-unvalidated", "tm2/pkg/sdk/auth/params.go", "if p.GasPricesChangeCompressor <= 0 {", "if p.GasPricesChangeCompressor < 0 {", "Div by big.(*Int).SetInt64(c)#1"},
		Mutant{"int64-unguarded", F, "if !num.IsInt64() {", "if !num.IsInt64() && c > 1 {", "int64-guarded"},
		Mutant{"native-arith", F, "lastPriceInt := big.NewInt(lastGasPrice.Price.Amount)", "lastPriceInt := big.NewInt(lastGasPrice.Price.Amount * 1)", "no-native-arith"},
		Mutant{"zero-target-guard-removed", F, "num.Mul(num, lastPriceInt)\n\t\tif targetGasInt.Sign() != 0 {\n\t\t\tnum.Div(num, targetGasInt)\n\t\t\tnum.Div(num, denom.SetInt64(c))\n\t\t} else {\n\t\t\t// A zero target", "num.Mul(num, lastPriceInt)\n\t\tif gasUsedInt.Sign() != 0 {\n\t\t\tnum.Div(num, targetGasInt)\n\t\t\tnum.Div(num, denom.SetInt64(c))\n\t\t} else {\n\t\t\t// A zero target", "Div by targetGasInt#1"},
		Mutant{"second-writer", "tm2/pkg/sdk/auth/abci.go", "gk.UpdateGasPrice(ctx)", "gk.UpdateGasPrice(ctx)\n\tgk.SetGasPrice(ctx, std.GasPrice{Gas: 1})", "who-sets-price"},
	)
}

const c17Big = "math/big.(*Int)."

func c17(c *engine.Ctx) {
	c.Explain = "Decides on tm2/pkg/sdk/auth (and gnoland.EndBlocker): calcBlockGasPrice (+ local callees) has no explicit panic, every big.Int division has a provably non-zero divisor (non-zero constant, Params field validated > 0, or dominating Sign/Cmp test), Int64() is guarded by IsInt64(), no native integer arithmetic; the used>target branch ends in lastPrice + maxBig(x,1), the other in lastPrice − maxBig(x,1) then maxBig(·, initPrice), and that big.Int is what is stored in the returned price; maxBig is max; the three stay-put guards return the argument unmodified; UpdateGasPrice passes (LastGasPrice, GasConsumed, Block.MaxGas, Params) in order and stores the result; SetGasPrice callers are a frozen set; the Params assertion is fed by EndBlocker. Not covered: numeric values of the formula."
	pats := []string{"tm2/pkg/sdk/auth", "gno.land/pkg/gnoland"}
	if c.Tier == "thorough" {
		pats = []string{"tm2/...", "gno.land/..."}
	}
	p := c.Load(pats...)
	if p == nil {
		return
	}
	const A = "tm2/pkg/sdk/auth."
	calc := c.MustFunc(A + "(GasPriceKeeper).calcBlockGasPrice")
	upd := c.MustFunc(A + "(GasPriceKeeper).UpdateGasPrice")
	if calc == nil || upd == nil {
		return
	}
	info := calc.Info()
	var scope []*engine.Fn
	for _, f := range authdClosure(p, calc) {
		if f.Pkg.PkgPath == engine.ModPrefix+"tm2/pkg/sdk/auth" {
			scope = append(scope, f)
		}
	}

	// ---- (1) R-PANIC ----
	for _, f := range scope {
		ps := f.CallsToDeep("builtin.panic")
		c.Check("no-explicit-panic", f.Name, f.Pos(), len(ps) == 0, "") // summary instance
		_ = ps
	}
	// Replace the summary with one obligation per site so each is visible.
	c.Obs = c17DropRule(c.Obs, "no-explicit-panic")
	nfun := 0
	for _, f := range scope {
		nfun++
		ps := f.CallsToDeep("builtin.panic")
		if len(ps) == 0 {
			c.Check("no-explicit-panic", f.Name, f.Pos(), true, "no panic call")
		}
		for _, s := range ps {
			c.Check("no-explicit-panic", f.Name+" panic["+c17GateCallees(s)+"]", s.Pos(), false,
				"explicit panic reachable in the price computation (the property: the computation never overflows or panics); it runs in EndBlock")
		}
	}
	c.Floor("no-explicit-panic", nfun, 2)

	ndiv := 0
	nconv := 0
	for _, f := range scope {
		fi := f.Info()
		g := f.Graph()
		ord := map[string]int{}
		for _, s := range f.Calls() {
			n := s.CalleeName()
			if !strings.HasPrefix(n, c17Big) {
				continue
			}
			m := strings.TrimPrefix(n, c17Big)
			switch m {
			case "Div", "Quo", "Mod", "Rem", "DivMod", "QuoRem":
				ndiv++
				if len(s.Call.Args) < 2 {
					continue
				}
				d := s.Call.Args[1]
				base := c17DivisorName(fi, d)
				ord[base]++
				key := f.Name + " " + m + " by " + base + "#" + strconv.Itoa(ord[base])
				ok, why := c17DivisorNonZero(c, p, f, g, s, d)
				c.Check("bigint-divisor", key, s.Pos(), ok, why)
			case "Int64", "Uint64":
				nconv++
				se, _ := ast.Unparen(s.Call.Fun).(*ast.SelectorExpr)
				ok, why := false, "no dominating "+strings.Replace(m, "Int64", "IsInt64", 1)+"() test on the same value"
				if se != nil {
					recv := engine.ObjOf(fi, se.X)
					for _, gt := range g.Gates(s) {
						for _, fc := range authdFacts(gt) {
							if fc.Neg {
								continue
							}
							if call, is := authdCalleeIs(fi, fc.E, c17Big+"Is"+m); is {
								if s2, isSel := ast.Unparen(call.Fun).(*ast.SelectorExpr); isSel && recv != nil && engine.ObjOf(fi, s2.X) == recv {
									ok, why = true, "guarded by Is"+m+"()"
								}
							}
						}
					}
				}
				c.Check("int64-guarded", f.Name+" "+m, s.Pos(), ok, why)
			}
		}
	}
	c.Floor("bigint-divisor", ndiv, 3)
	c.Floor("int64-guarded", nconv, 1)

	// ---- (2) no native integer arithmetic ----
	for _, f := range scope {
		fi := f.Info()
		bad := ""
		ast.Inspect(f.Body, func(n ast.Node) bool {
			var e ast.Expr
			switch x := n.(type) {
			case *ast.BinaryExpr:
				switch x.Op {
				case token.ADD, token.SUB, token.MUL, token.QUO, token.REM, token.SHL, token.SHR:
					e = x
				}
			case *ast.UnaryExpr:
				if x.Op == token.SUB {
					e = x
				}
			case *ast.AssignStmt:
				switch x.Tok {
				case token.ASSIGN, token.DEFINE:
				default:
					bad = "compound assignment " + x.Tok.String()
				}
			case *ast.IncDecStmt:
				bad = "native ++/--"
			}
			if e != nil {
				tv := fi.Types[e]
				if tv.Value == nil {
					if b, ok := tv.Type.Underlying().(*types.Basic); ok && b.Info()&types.IsInteger != 0 {
						bad = "native integer arithmetic `" + engine.ExprString(e) + "`"
					}
				}
			}
			return true
		})
		c.Check("no-native-arith", f.Name, f.Pos(), bad == "", bad)
	}

	// ---- (3) mirrored branches ----
	lastPrice := paramObj(calc, 0)
	gasUsedP := paramObj(calc, 1)
	paramsP := paramObj(calc, 3)
	amountF := p.Field("tm2/pkg/std.Coin.Amount")
	// locals defined from big.NewInt(<expr>)
	newIntOf := func(o types.Object) ast.Expr {
		defs := authdAssignsTo(calc, o)
		if len(defs) != 1 || defs[0] == nil {
			return nil
		}
		if call, ok := authdCalleeIs(info, defs[0], "math/big.NewInt"); ok && len(call.Args) == 1 {
			return call.Args[0]
		}
		return nil
	}
	isUsedVar := func(e ast.Expr) bool {
		o := engine.ObjOf(info, e)
		if o == nil {
			return false
		}
		a := newIntOf(o)
		return a != nil && engine.ObjOf(info, a) == gasUsedP && gasUsedP != nil
	}
	isLastPriceVar := func(e ast.Expr) bool {
		o := engine.ObjOf(info, e)
		if o == nil {
			return false
		}
		a := newIntOf(o)
		return a != nil && authdIsField(info, a, amountF) && engine.Mentions(info, a, lastPrice) && !engine.MentionsName(a, "InitialGasPrice")
	}
	isInitVar := func(e ast.Expr) bool {
		o := engine.ObjOf(info, e)
		if o == nil {
			return false
		}
		a := newIntOf(o)
		return a != nil && authdIsField(info, a, amountF) && engine.Mentions(info, a, paramsP) && engine.MentionsName(a, "InitialGasPrice")
	}
	// the direction test
	var incr, decr *ast.BlockStmt
	var targetObj types.Object
	// relOf: how `gasUsed` relates to the target when `a.Cmp(b) op k` holds ("" = not such a comparison)
	relOf := func(cmp ast.Expr, op token.Token, kexp ast.Expr) string {
		call, isCall := authdCalleeIs(info, cmp, c17Big+"Cmp")
		k, isK := authdConstInt(info, kexp)
		if !isCall || !isK || len(call.Args) != 1 {
			return ""
		}
		se, _ := ast.Unparen(call.Fun).(*ast.SelectorExpr)
		if se == nil {
			return ""
		}
		a, b := se.X, call.Args[0]
		rel := c17Rel(op, k)
		switch {
		case isUsedVar(a) && !isUsedVar(b):
			targetObj = engine.ObjOf(info, b)
			return rel
		case isUsedVar(b) && !isUsedVar(a):
			targetObj = engine.ObjOf(info, a)
			return map[string]string{"<": ">", ">": "<", "<=": ">=", ">=": "<=", "==": "==", "!=": "!="}[rel]
		}
		return ""
	}
	blockOf := func(list []ast.Stmt) *ast.BlockStmt {
		if len(list) == 0 {
			return nil
		}
		return &ast.BlockStmt{Lbrace: list[0].Pos(), List: list, Rbrace: list[len(list)-1].End()}
	}
	engine.InspectBody(calc, func(n ast.Node) {
		if incr != nil {
			return
		}
		switch st := n.(type) {
		case *ast.IfStmt:
			x, op, y, isCmp := authdCmp(authdFact{E: st.Cond})
			if !isCmp {
				return
			}
			rel := relOf(x, op, y)
			els, _ := st.Else.(*ast.BlockStmt)
			if els == nil {
				return
			}
			switch rel {
			case ">":
				incr, decr = st.Body, els
			case "<":
				incr, decr = els, st.Body
			case "<=": // used <= target, with equality handled before
				incr, decr = els, st.Body
			case ">=":
				incr, decr = st.Body, els
			}
		case *ast.SwitchStmt:
			// switch used.Cmp(target) { case 0: … case 1: … default: … }  or the tagless form
			var gt, lt, def *ast.BlockStmt
			covered := map[string]bool{}
			for _, cl := range st.Body.List {
				cc := cl.(*ast.CaseClause)
				if cc.List == nil {
					def = blockOf(cc.Body)
					continue
				}
				if len(cc.List) != 1 {
					return
				}
				var rel string
				if st.Tag != nil {
					rel = relOf(st.Tag, token.EQL, cc.List[0])
				} else if x, op, y, isCmp := authdCmp(authdFact{E: cc.List[0]}); isCmp {
					rel = relOf(x, op, y)
				}
				if rel == "" {
					return
				}
				covered[rel] = true
				switch rel {
				case ">":
					gt = blockOf(cc.Body)
				case "<":
					lt = blockOf(cc.Body)
				}
			}
			if gt == nil && def != nil && covered["<"] && covered["=="] {
				gt = def
			}
			if lt == nil && def != nil && covered[">"] && covered["=="] {
				lt = def
			}
			if gt != nil && lt != nil {
				incr, decr = gt, lt
			}
		}
	})
	if incr == nil || decr == nil {
		c.Undecided("direction", calc.Name, "the `gasUsed.Cmp(target) == 1 / else` split was not recognised")
	} else {
		var finalRecv types.Object
		for _, br := range []struct {
			name string
			blk  *ast.BlockStmt
			want string
		}{{"increase", incr, "Add"}, {"decrease", decr, "Sub"}} {
			// last Add/Sub whose first operand is the last-price value
			var last *ast.CallExpr
			var lastM string
			ast.Inspect(br.blk, func(n ast.Node) bool {
				call, ok := n.(*ast.CallExpr)
				if !ok {
					return true
				}
				nm := authdCalleeName(info, call)
				if (nm == c17Big+"Add" || nm == c17Big+"Sub") && len(call.Args) == 2 && (isLastPriceVar(call.Args[0]) || isLastPriceVar(call.Args[1])) {
					last, lastM = call, strings.TrimPrefix(nm, c17Big)
				}
				return true
			})
			key := calc.Name + " " + br.name
			if last == nil {
				c.Check("direction", key, br.blk.Pos(), false, "no big.Int Add/Sub on the last price in this branch")
				c.Check("min-step", key, br.blk.Pos(), false, "no step applied")
				continue
			}
			okDir := lastM == br.want && isLastPriceVar(last.Args[0])
			c.Check("direction", key, last.Pos(), okDir, "the "+br.name+" branch must compute lastPrice "+map[string]string{"Add": "+", "Sub": "-"}[br.want]+" step; found "+lastM)
			// step = maxBig(_, 1), possibly computed by a helper all of whose returns are such
			okStep, why := false, "the step `"+engine.ExprString(last.Args[1])+"` is not the result of maxBig(·, 1): a small difference rounds to 0 and the price does not move"
			stepE := last.Args[1]
			if o := engine.ObjOf(info, stepE); o != nil {
				if defs := authdAssignsTo(calc, o); len(defs) == 1 && defs[0] != nil {
					stepE = defs[0]
				} else if len(defs) > 1 {
					// the variable may be declared per branch with the same name; pick the definition inside this branch
					for _, d := range defs {
						if d != nil && containsExpr(br.blk, d) {
							stepE = d
						}
					}
				}
			}
			if c17IsMinStep(p, calc, stepE, 3) {
				okStep, why = true, "step is maxBig(·, 1)"
			}
			c.Check("min-step", key, last.Pos(), okStep, why)
			// receiver and what happens to it afterwards
			se, _ := ast.Unparen(last.Fun).(*ast.SelectorExpr)
			var recv types.Object
			if se != nil {
				recv = engine.ObjOf(info, se.X)
			}
			if recv == nil {
				c.Undecided("init-floor", key, "receiver of the final Add/Sub is not a variable")
				continue
			}
			if finalRecv == nil {
				finalRecv = recv
			} else if finalRecv != recv {
				c.Check("result-stored", calc.Name+" same accumulator", last.Pos(), false, "the two branches leave their result in different variables")
			}
			// later mutations of recv inside the branch
			var floorOK bool
			var laterBad string
			ast.Inspect(br.blk, func(n ast.Node) bool {
				switch x := n.(type) {
				case *ast.AssignStmt:
					if x.Pos() <= last.End() {
						return true
					}
					for i, l := range x.Lhs {
						if engine.ObjOf(info, l) != recv {
							continue
						}
						var r ast.Expr
						if len(x.Rhs) == len(x.Lhs) {
							r = x.Rhs[i]
						}
						if call, is := authdCalleeIs(info, r, A+"maxBig"); is && len(call.Args) == 2 && br.name == "decrease" &&
							((engine.ObjOf(info, call.Args[0]) == recv && isInitVar(call.Args[1])) || (engine.ObjOf(info, call.Args[1]) == recv && isInitVar(call.Args[0]))) {
							floorOK = true
						} else {
							laterBad = "the result is overwritten by `" + engine.ExprString(x.Lhs[i]) + " = …` after the step"
						}
					}
				case *ast.CallExpr:
					if x.Pos() <= last.Pos() {
						return true
					}
					if s2, ok := ast.Unparen(x.Fun).(*ast.SelectorExpr); ok && engine.ObjOf(info, s2.X) == recv {
						nm := authdCalleeName(info, x)
						if strings.HasPrefix(nm, c17Big) && !c17BigPure[strings.TrimPrefix(nm, c17Big)] {
							laterBad = "the result is modified by " + nm + " after the step"
						}
					}
				}
				return true
			})
			if br.name == "decrease" {
				c.Check("init-floor", key, last.Pos(), floorOK && laterBad == "", c17Or(laterBad, "after the decrease the price must be floored with maxBig(·, initialPrice) assigned back to the result"))
			} else {
				c.Check("result-stored", key+" not overwritten", last.Pos(), laterBad == "", laterBad)
			}
		}
		// the accumulator is what is stored into the returned price
		writes := 0
		engine.InspectBody(calc, func(n ast.Node) {
			as, ok := n.(*ast.AssignStmt)
			if !ok || len(as.Lhs) != 1 || len(as.Rhs) != 1 {
				return
			}
			if !authdIsField(info, as.Lhs[0], amountF) || !engine.Mentions(info, as.Lhs[0], lastPrice) {
				return
			}
			writes++
			ok2 := false
			if call, is := authdCalleeIs(info, as.Rhs[0], c17Big+"Int64"); is {
				if se, isSel := ast.Unparen(call.Fun).(*ast.SelectorExpr); isSel && engine.ObjOf(info, se.X) == finalRecv && finalRecv != nil {
					ok2 = true
				}
			}
			if v, isC := authdConstInt(info, as.Rhs[0]); isC && v == 9223372036854775807 {
				ok2 = true // saturation at MaxInt64 on the !IsInt64 branch
			}
			c.Check("result-stored", calc.Name+" price := accumulator", as.Pos(), ok2, "the new price must be the Int64() of the branch result")
		})
		c.Floor("result-stored", writes, 1)
	}

	// maxBig is max
	if mb := c.MustFunc(A + "maxBig"); mb != nil {
		mi := mb.Info()
		g := mb.Graph()
		x, y := paramObj(mb, 0), paramObj(mb, 1)
		good, why := true, "returns the larger argument"
		rets := authdReturns(mb)
		if len(rets) < 2 {
			good, why = false, "expected a return per argument"
		}
		for _, rs := range rets {
			if len(rs.Results) != 1 {
				good = false
				continue
			}
			po := engine.ObjOf(mi, rs.Results[0])
			var other types.Object
			switch po {
			case x:
				other = y
			case y:
				other = x
			default:
				good, why = false, "returns something other than an argument"
				continue
			}
			st := mb.SiteOf(rs)
			proved := false
			if st != nil {
				for _, gt := range g.Gates(st) {
					for _, fc := range authdFacts(gt) {
						l, op, r, isCmp := authdCmp(fc)
						if !isCmp {
							continue
						}
						call, isCall := authdCalleeIs(mi, l, c17Big+"Cmp")
						k, isK := authdConstInt(mi, r)
						if !isCall || !isK || len(call.Args) != 1 {
							continue
						}
						se, _ := ast.Unparen(call.Fun).(*ast.SelectorExpr)
						if se == nil {
							continue
						}
						a, b := engine.ObjOf(mi, se.X), engine.ObjOf(mi, call.Args[0])
						rel := c17Rel(op, k)
						if a == po && b == other && (rel == ">" || rel == ">=" || rel == "==") {
							proved = true
						}
						if a == other && b == po && (rel == "<" || rel == "<=" || rel == "==") {
							proved = true
						}
					}
				}
			}
			if !proved {
				good, why = false, "`return "+engine.ExprString(rs.Results[0])+"` is not restricted to the case where it is the larger argument"
			}
		}
		c.Check("maxbig-is-max", mb.Name, mb.Pos(), good, why)
	}

	// ---- (4) stay-put guards ----
	{
		g := calc.Graph()
		found := map[string]bool{}
		var writes []*engine.Site
		engine.InspectBody(calc, func(n ast.Node) {
			if as, ok := n.(*ast.AssignStmt); ok {
				for _, l := range as.Lhs {
					if engine.Mentions(info, l, lastPrice) {
						if s := calc.SiteOf(as); s != nil {
							writes = append(writes, s)
						}
					}
				}
			}
		})
		for _, rs := range authdReturns(calc) {
			if len(rs.Results) != 1 || engine.ObjOf(info, rs.Results[0]) != lastPrice {
				continue
			}
			st := calc.SiteOf(rs)
			if st == nil {
				continue
			}
			modified := false
			for _, w := range writes {
				if g.ReachableAfter(w, st) {
					modified = true
				}
			}
			if modified {
				continue // returns the modified price
			}
			gates := g.Gates(st)
			// the innermost gate: the one not dominating any other gate of this return
			for _, gt := range gates {
				if !gt.OnTrue || len(engine.Conjuncts(gt.Full(), token.LAND)) != 1 || len(engine.Conjuncts(gt.Full(), token.LOR)) != 1 {
					continue
				}
				inner := true
				for _, o := range gates {
					if o.Block != gt.Block && g.BlockDominates(gt.Block, o.Block) {
						inner = false
					}
				}
				if !inner {
					continue
				}
				// a predicate helper `if disabled(lastGasPrice, params) { return lastGasPrice }`
				if call, isCall := ast.Unparen(gt.Full()).(*ast.CallExpr); isCall {
					for _, kind := range c17PredicateKinds(calc, call, lastPrice, paramsP, amountF) {
						found[kind] = true
					}
					continue
				}
				l, op, r, isCmp := authdCmp(authdFact{E: gt.Full()})
				if !isCmp || op != token.EQL {
					continue
				}
				k, isK := authdConstInt(info, r)
				if !isK || k != 0 {
					continue
				}
				switch {
				case authdIsField(info, l, amountF) && engine.Mentions(info, l, lastPrice):
					found["price==0"] = true
				case engine.MentionsName(l, "TargetGasRatio") && engine.Mentions(info, l, paramsP):
					found["ratio==0"] = true
				default:
					if call, is := authdCalleeIs(info, l, c17Big+"Cmp"); is && len(call.Args) == 1 {
						se, _ := ast.Unparen(call.Fun).(*ast.SelectorExpr)
						if se != nil && targetObj != nil {
							a, b := se.X, call.Args[0]
							if (isUsedVar(a) && engine.ObjOf(info, b) == targetObj) || (isUsedVar(b) && engine.ObjOf(info, a) == targetObj) {
								found["used==target"] = true
							}
						}
					}
				}
			}
		}
		for _, k := range []string{"price==0", "ratio==0", "used==target"} {
			c.Check("stay-put", calc.Name+" "+k, calc.Pos(), found[k], "a guard `"+k+"` alone must return the unmodified last price")
		}
		c.Floor("stay-put", 3, 3)
	}

	// ---- (5) UpdateGasPrice value flow, writers ----
	{
		ui := upd.Info()
		calls := upd.CallsTo(calc.Name)
		c.Floor("update-flow", len(calls), 1)
		for _, s := range calls {
			ok, why := len(s.Call.Args) == 4, "unexpected arity"
			src := func(e ast.Expr) ast.Expr {
				o := engine.ObjOf(ui, e)
				if o == nil {
					return e
				}
				if d := authdAssignsTo(upd, o); len(d) == 1 && d[0] != nil {
					return d[0]
				}
				return e
			}
			if ok {
				a0, a1, a2, a3 := src(s.Call.Args[0]), src(s.Call.Args[1]), src(s.Call.Args[2]), src(s.Call.Args[3])
				if _, is := authdCalleeIs(ui, a0, A+"(GasPriceKeeper).LastGasPrice"); !is {
					ok, why = false, "argument 1 is not LastGasPrice(ctx)"
				}
				if call, is := ast.Unparen(a1).(*ast.CallExpr); !is || !strings.HasSuffix(authdCalleeName(ui, call), ".GasConsumed") || !engine.MentionsName(a1, "BlockGasMeter") {
					ok, why = false, "argument 2 (gasUsed) is not BlockGasMeter().GasConsumed()"
				}
				if se, is := ast.Unparen(a2).(*ast.SelectorExpr); !is || se.Sel.Name != "MaxGas" || !engine.MentionsName(a2, "ConsensusParams") {
					ok, why = false, "argument 3 (maxGas) is not ConsensusParams().Block.MaxGas"
				}
				if ta, is := ast.Unparen(a3).(*ast.TypeAssertExpr); !is || !engine.MentionsName(ta.X, "AuthParamsContextKey") {
					ok, why = false, "argument 4 is not the auth Params of the context"
				}
			}
			// the result is what SetGasPrice stores
			lhs := authdLhsObjs(upd, s)
			sets := upd.CallsTo(A+"(GasPriceKeeper).SetGasPrice", A+"(GasPriceKeeperI).SetGasPrice")
			if len(lhs) != 1 || lhs[0] == nil || len(sets) != 1 || len(sets[0].Call.Args) != 2 || engine.ObjOf(ui, sets[0].Call.Args[1]) != lhs[0] {
				ok, why = false, "the stored price is not the result of calcBlockGasPrice"
			} else if len(authdAssignsTo(upd, lhs[0])) != 1 {
				ok, why = false, "the computed price is reassigned before being stored"
			}
			if ok {
				why = "calcBlockGasPrice(LastGasPrice, GasConsumed, MaxGas, Params) -> SetGasPrice"
			}
			c.Check("update-flow", upd.Name, s.Pos(), ok, why)
		}
		allowed := []string{A + "(GasPriceKeeper).UpdateGasPrice", A + "InitChainer"}
		setRefs := p.RefsToFunc(A+"(GasPriceKeeper).SetGasPrice", A+"(GasPriceKeeperI).SetGasPrice")
		extra := p.UnexpectedCallers(setRefs, allowed)
		c.Check("who-sets-price", A+"SetGasPrice", token.NoPos, len(extra) == 0 && len(setRefs) >= 1, "callers: "+join(engine.CallerSet(setRefs))+"; neither in the frozen table nor private helpers of its members: "+join(extra))
		// the store key
		keyRefs := p.RefsTo(func(o types.Object) bool {
			k, ok := o.(*types.Const)
			return ok && k.Pkg() != nil && engine.Rel(k.Pkg().Path()) == "tm2/pkg/sdk/auth" && k.Name() == "GasPriceKey"
		})
		extraK := p.UnexpectedCallers(keyRefs, []string{A + "(GasPriceKeeper).SetGasPrice", A + "(GasPriceKeeper).LastGasPrice"})
		c.Check("who-sets-price", A+"GasPriceKey", token.NoPos, len(extraK) == 0 && len(keyRefs) >= 1, "functions using the store key: "+join(engine.CallerSet(keyRefs)))
	}

	// the Params type assertion is fed by gnoland.EndBlocker
	c17ParamsFed(c, p, upd)
}

var c17BigPure = map[string]bool{"Cmp": true, "CmpAbs": true, "Sign": true, "IsInt64": true, "IsUint64": true, "Int64": true, "Uint64": true, "String": true, "BitLen": true, "Text": true, "Bytes": true}

func c17Or(a, b string) string {
	if a != "" {
		return a
	}
	return b
}

func c17DropRule(obs []engine.Obligation, rule string) []engine.Obligation {
	out := obs[:0:0]
	for _, o := range obs {
		if o.Rule != rule {
			out = append(out, o)
		}
	}
	return out
}

// c17Rel renders `a.Cmp(b) op k` as a relation between a and b ("" when it is not one).
func c17Rel(op token.Token, k int64) string {
	switch {
	case k == 0:
		switch op {
		case token.LSS:
			return "<"
		case token.LEQ:
			return "<="
		case token.GTR:
			return ">"
		case token.GEQ:
			return ">="
		case token.EQL:
			return "=="
		case token.NEQ:
			return "!="
		}
	case k == 1 && op == token.EQL, k == 1 && op == token.GEQ:
		return ">"
	case k == -1 && op == token.EQL, k == -1 && op == token.LEQ:
		return "<"
	case k == 1 && op == token.LSS, k == 1 && op == token.NEQ:
		return "<="
	case k == -1 && op == token.GTR, k == -1 && op == token.NEQ:
		return ">="
	}
	return ""
}

// c17GateCallees names the methods called in the innermost condition gating a site.
func c17GateCallees(s *engine.Site) string {
	g := s.Fn.Graph()
	gates := g.Gates(s)
	var names []string
	for _, gt := range gates {
		inner := true
		for _, o := range gates {
			if o.Block != gt.Block && g.BlockDominates(gt.Block, o.Block) {
				inner = false
			}
		}
		if !inner {
			continue
		}
		ast.Inspect(gt.Full(), func(n ast.Node) bool {
			if call, ok := n.(*ast.CallExpr); ok {
				if nm := authdCalleeName(s.Fn.Info(), call); nm != "" {
					names = append(names, authdShort(nm))
				}
			}
			return true
		})
	}
	if len(names) == 0 {
		return "unconditional"
	}
	return strings.Join(names, ",")
}

func c17DivisorName(info *types.Info, d ast.Expr) string {
	d = ast.Unparen(d)
	if o := engine.ObjOf(info, d); o != nil {
		if _, isCall := d.(*ast.CallExpr); !isCall {
			return o.Name()
		}
	}
	if call, ok := d.(*ast.CallExpr); ok {
		nm := authdShort(authdCalleeName(info, call))
		if len(call.Args) == 1 {
			if o := engine.ObjOf(info, call.Args[0]); o != nil {
				return nm + "(" + o.Name() + ")"
			}
			if v, isC := authdConstInt(info, call.Args[0]); isC {
				return nm + "(" + strconv.FormatInt(v, 10) + ")"
			}
		}
		return nm
	}
	return "expr"
}

// c17DivisorNonZero discharges one big.Int division.
func c17DivisorNonZero(c *engine.Ctx, p *engine.Prog, f *engine.Fn, g *engine.Graph, s *engine.Site, d ast.Expr) (bool, string) {
	info := f.Info()
	d = ast.Unparen(d)
	// (a) big.NewInt(K) / X.SetInt64(K), K constant != 0 ; (b) ... of a validated Params field
	if call, ok := d.(*ast.CallExpr); ok && len(call.Args) == 1 {
		nm := authdCalleeName(info, call)
		if nm == "math/big.NewInt" || nm == c17Big+"SetInt64" || nm == c17Big+"SetUint64" {
			a := call.Args[0]
			for {
				if conv, isConv := ast.Unparen(a).(*ast.CallExpr); isConv && len(conv.Args) == 1 {
					if tv, ok := info.Types[conv.Fun]; ok && tv.IsType() {
						a = conv.Args[0]
						continue
					}
				}
				break
			}
			if v, isC := authdConstInt(info, a); isC {
				return v != 0, "constant divisor " + strconv.FormatInt(v, 10)
			}
			if ok, why := c17PositiveSource(p, f, a, 3); ok {
				return true, why
			} else if why != "" {
				return false, why
			}
			return false, "divisor `" + engine.ExprString(d) + "` is neither a non-zero constant nor a validated parameter"
		}
	}
	// (c) a *big.Int variable proved non-zero by a dominating test and never mutated
	o := engine.ObjOf(info, d)
	if o == nil {
		return false, "divisor `" + engine.ExprString(d) + "` is not recognised"
	}
	// never used as the receiver of a mutating big.Int method, single definition
	_, isParam := c44IsParam(f, o)
	if defs := authdAssignsTo(f, o); !(len(defs) == 1 && !isParam) && !(len(defs) == 0 && isParam) {
		return false, "divisor variable " + o.Name() + " is assigned more than once"
	}
	var muts []*engine.Site
	for _, cs := range f.Calls() {
		if se, ok := ast.Unparen(cs.Call.Fun).(*ast.SelectorExpr); ok && engine.ObjOf(info, se.X) == o {
			nm := cs.CalleeName()
			if strings.HasPrefix(nm, c17Big) && !c17BigPure[strings.TrimPrefix(nm, c17Big)] {
				muts = append(muts, cs)
			}
		}
	}
	// the division must not write into its own divisor
	if se, ok := ast.Unparen(s.Call.Fun).(*ast.SelectorExpr); ok && engine.ObjOf(info, se.X) == o {
		return false, "the division overwrites its own divisor " + o.Name()
	}
	for _, gt := range g.Gates(s) {
		for _, fc := range authdFacts(gt) {
			l, op, r, isCmp := authdCmp(fc)
			if !isCmp {
				continue
			}
			k, isK := authdConstInt(info, r)
			call, isSign := authdCalleeIs(info, l, c17Big+"Sign")
			if !isK || !isSign || k != 0 {
				continue
			}
			if se, ok := ast.Unparen(call.Fun).(*ast.SelectorExpr); ok && engine.ObjOf(info, se.X) == o {
				if op == token.GTR || op == token.LSS || op == token.NEQ {
					// the value must not change between the test and the division
					test := f.SiteOf(call)
					for _, m := range muts {
						if test == nil || g.ReachableAfter(test, m) {
							return false, "divisor variable " + o.Name() + " is modified in place after its non-zero test"
						}
					}
					return true, "dominated by a " + o.Name() + ".Sign() " + op.String() + " 0 test"
				}
			}
		}
	}
	return false, "no dominating test establishes " + o.Name() + " != 0 (it is 0 when Block.MaxGas*TargetGasRatio < 100, e.g. MaxGas 0): big.Int division by zero panics in EndBlock"
}

// c17ValidatedPositive: the Validate method of the struct owning fld returns a
// non-nil error whenever fld <= 0.
func c17ValidatedPositive(p *engine.Prog, fld *types.Var) (bool, string) {
	v := p.Func("tm2/pkg/sdk/auth.(Params).Validate")
	if v == nil {
		return false, "has no Params.Validate to bound it"
	}
	info := v.Info()
	g := v.Graph()
	// Validate() == nil must imply fld > 0: every `return nil` carries the fact fld > 0.
	nilReturns := 0
	for _, rs := range authdReturns(v) {
		if len(rs.Results) != 1 {
			return false, "Params.Validate has an unrecognised return"
		}
		if !isNil(rs.Results[0]) {
			if _, isCall := ast.Unparen(rs.Results[0]).(*ast.CallExpr); isCall {
				continue // constructs an error
			}
			return false, "Params.Validate returns a value the checker cannot classify"
		}
		nilReturns++
		st := v.SiteOf(rs)
		if st == nil {
			return false, "return not in CFG"
		}
		proved := false
		for _, gt := range g.Gates(st) {
			for _, fc := range authdFacts(gt) {
				l, op, r, isCmp := authdCmp(fc)
				if !isCmp || !authdIsField(info, l, fld) {
					continue
				}
				k, isK := authdConstInt(info, r)
				if isK && ((op == token.GTR && k >= 0) || (op == token.GEQ && k >= 1)) {
					proved = true
				}
			}
		}
		if !proved {
			return false, "is not forced > 0 by Params.Validate (a nil return is reachable with it <= 0)"
		}
	}
	if nilReturns > 0 {
		return true, "rejected by Params.Validate when <= 0"
	}
	return false, "is not forced > 0 by Params.Validate"
}

// c17ParamsFed: every call of auth.EndBlocker in gnoland is preceded, under the
// same conditions, by ctx = ctx.WithValue(auth.AuthParamsContextKey{}, …).
func c17ParamsFed(c *engine.Ctx, p *engine.Prog, upd *engine.Fn) {
	const A = "tm2/pkg/sdk/auth."
	// the assertion exists and is unchecked?
	unchecked := 0
	engine.InspectBody(upd, func(n ast.Node) {
		if ta, ok := n.(*ast.TypeAssertExpr); ok && ta.Type != nil {
			unchecked++
		}
	})
	commaOK := 0
	engine.InspectBody(upd, func(n ast.Node) {
		if as, ok := n.(*ast.AssignStmt); ok && len(as.Lhs) == 2 && len(as.Rhs) == 1 {
			if _, is := ast.Unparen(as.Rhs[0]).(*ast.TypeAssertExpr); is {
				commaOK++
			}
		}
	})
	if unchecked-commaOK == 0 {
		c.Check("params-fed", upd.Name+" assertion", upd.Pos(), true, "no unchecked type assertion")
		return
	}
	n := 0
	for _, f := range p.Funcs() {
		if !strings.HasPrefix(f.Name, "gno.land/") && !strings.HasPrefix(f.Name, "tm2/") {
			continue
		}
		for _, s := range f.CallsTo(A + "EndBlocker") {
			n++
			info := f.Info()
			g := f.Graph()
			ok, why := false, "no ctx.WithValue(auth.AuthParamsContextKey{}, …) precedes auth.EndBlocker under the same conditions: the unchecked .(Params) assertion in UpdateGasPrice would panic"
			var ctxObj types.Object
			if len(s.Call.Args) > 0 {
				ctxObj = engine.ObjOf(info, s.Call.Args[0])
			}
			tf := map[string]bool{}
			for _, gt := range g.Gates(s) {
				for _, fc := range authdFacts(gt) {
					tf[engine.ExprString(fc.E)+"/"+authdBoolStr(fc.Neg)] = true
				}
			}
			for _, w := range f.CallsTo(".WithValue") {
				if len(w.Call.Args) != 2 {
					continue
				}
				cl, isCL := ast.Unparen(w.Call.Args[0]).(*ast.CompositeLit)
				if !isCL || !authdIsNamed(info.TypeOf(cl), A+"AuthParamsContextKey") {
					continue
				}
				lhs := authdLhsObjs(f, w)
				if len(lhs) != 1 || lhs[0] != ctxObj || ctxObj == nil {
					continue
				}
				if g.Dominates(w, s) {
					ok, why = true, "WithValue dominates the call"
					continue
				}
				sub := true
				for _, gt := range g.Gates(w) {
					if !g.BlockDominates(gt.Block, s.Block) {
						sub = false
					}
					for _, fc := range authdFacts(gt) {
						if !tf[engine.ExprString(fc.E)+"/"+authdBoolStr(fc.Neg)] {
							sub = false
						}
						// the tested variables are never reassigned
						ast.Inspect(fc.E, func(n ast.Node) bool {
							if id, isID := n.(*ast.Ident); isID {
								if o, isVar := info.ObjectOf(id).(*types.Var); isVar {
									for _, ff := range append([]*engine.Fn{f.Root()}, f.Root().AllLits()...) {
										if len(authdAssignsTo(ff, o)) > 0 {
											sub = false // only never-assigned variables (parameters) are accepted
										}
									}
								}
							}
							return true
						})
					}
				}
				if sub && g.ReachableAfter(w, s) {
					ok, why = true, "WithValue executes under conditions implied by those of the call"
				}
			}
			c.Check("params-fed", f.Name+" -> auth.EndBlocker", s.Pos(), ok, why)
		}
	}
	c.Floor("params-fed", n, 1)
}

// c17IsOne: e is big.NewInt(1) or a single-definition local holding it.
func c17IsOne(f *engine.Fn, e ast.Expr) bool {
	info := f.Info()
	e = authdResolveLocal(f, e)
	if call, ok := authdCalleeIs(info, e, "math/big.NewInt"); ok && len(call.Args) == 1 {
		v, isC := authdConstInt(info, call.Args[0])
		return isC && v == 1
	}
	return false
}

// c17IsMinStep: e evaluates to maxBig(x, 1) — directly, or through a
// package-local helper every return of which does.
func c17IsMinStep(p *engine.Prog, f *engine.Fn, e ast.Expr, depth int) bool {
	info := f.Info()
	e = authdResolveLocal(f, e)
	call, ok := ast.Unparen(e).(*ast.CallExpr)
	if !ok {
		return false
	}
	nm := authdCalleeName(info, call)
	if nm == "tm2/pkg/sdk/auth.maxBig" && len(call.Args) == 2 {
		return c17IsOne(f, call.Args[0]) || c17IsOne(f, call.Args[1])
	}
	if depth <= 0 {
		return false
	}
	st := f.SiteOf(call)
	if st == nil {
		return false
	}
	fn, _ := st.Callee.(*types.Func)
	h := p.FnOf(fn)
	if h == nil {
		return false
	}
	rets := authdReturns(h)
	if len(rets) == 0 {
		return false
	}
	for _, rs := range rets {
		if len(rs.Results) != 1 || !c17IsMinStep(p, h, rs.Results[0], depth-1) {
			return false
		}
	}
	return true
}

// c17ArgSources resolves parameter o of f to the argument expressions (with the
// function they live in) at every call site of f in the loaded program.
type c17Src struct {
	f *engine.Fn
	e ast.Expr
}

func c17ArgSources(p *engine.Prog, f *engine.Fn, o types.Object) []c17Src {
	idx := -1
	for i, q := range authdOperands(f) {
		if q == o {
			idx = i
		}
	}
	if idx < 0 || f.Obj == nil {
		return nil
	}
	if f.Decl.Recv != nil {
		idx--
	}
	var out []c17Src
	for _, r := range p.RefsToFunc(f.Name) {
		if !r.IsCall || r.Fn == nil {
			return nil
		}
		var site *engine.Site
		for _, s := range r.Fn.Calls() {
			if fn, ok := s.Callee.(*types.Func); ok && engine.FuncName(fn) == f.Name && containsExpr(s.Call, r.Ident) {
				site = s
			}
		}
		if site == nil || idx < 0 || idx >= len(site.Call.Args) {
			return nil
		}
		out = append(out, c17Src{r.Fn, site.Call.Args[idx]})
	}
	return out
}

// c17PositiveSource: the int64 expression e is a Params field that
// Params.Validate forces > 0 — directly, through a single-definition local, or
// (when e is a parameter of a helper) at every call site.
func c17PositiveSource(p *engine.Prog, f *engine.Fn, e ast.Expr, depth int) (bool, string) {
	info := f.Info()
	e = ast.Unparen(e)
	if se, isSel := e.(*ast.SelectorExpr); isSel {
		if fld, isF := info.ObjectOf(se.Sel).(*types.Var); isF && fld.IsField() {
			if ok, why := c17ValidatedPositive(p, fld); ok {
				return true, "divisor is Params." + fld.Name() + ", " + why
			} else {
				return false, "divisor is field " + fld.Name() + " which " + why
			}
		}
	}
	o := engine.ObjOf(info, e)
	if _, isID := e.(*ast.Ident); !isID || o == nil || depth <= 0 {
		return false, ""
	}
	if _, isParam := c44IsParam(f, o); isParam {
		if len(authdAssignsTo(f, o)) != 0 {
			return false, "divisor parameter " + o.Name() + " is reassigned"
		}
		srcs := c17ArgSources(p, f, o)
		if len(srcs) == 0 {
			return false, "divisor is parameter " + o.Name() + " of " + f.Name + " whose callers cannot be enumerated"
		}
		why := ""
		for _, sr := range srcs {
			ok, w := c17PositiveSource(p, sr.f, sr.e, depth-1)
			if !ok {
				if w == "" {
					w = "argument `" + engine.ExprString(sr.e) + "` in " + sr.f.Name + " is neither a non-zero constant nor a validated parameter"
				}
				return false, w
			}
			why = w
		}
		return true, why + " (through parameter " + o.Name() + ")"
	}
	defs := authdAssignsTo(f, o)
	if len(defs) != 1 || defs[0] == nil {
		return false, "divisor variable " + o.Name() + " has no single definition"
	}
	return c17PositiveSource(p, f, defs[0], depth-1)
}

// c17StayKind classifies a lone comparison `x == 0` as one of the stay-put
// conditions, last/params being the price / Params objects of fn.
func c17StayKind(fn *engine.Fn, cond ast.Expr, last, params types.Object, amountF *types.Var) string {
	info := fn.Info()
	if len(engine.Conjuncts(cond, token.LAND)) != 1 || len(engine.Conjuncts(cond, token.LOR)) != 1 {
		return ""
	}
	l, op, r, isCmp := authdCmp(authdFact{E: cond})
	if !isCmp || op != token.EQL {
		return ""
	}
	if _, isC := authdConstInt(info, l); isC {
		l, r = r, l
	}
	if k, isK := authdConstInt(info, r); !isK || k != 0 {
		return ""
	}
	switch {
	case authdIsField(info, l, amountF) && last != nil && engine.Mentions(info, l, last) && !engine.MentionsName(l, "InitialGasPrice"):
		return "price==0"
	case engine.MentionsName(l, "TargetGasRatio") && params != nil && engine.Mentions(info, l, params):
		return "ratio==0"
	}
	return ""
}

// c17PredicateKinds: call is a package-local boolean predicate applied to the
// last price and/or the params; returns the stay-put kinds of its true-returns
// (nil when some true-return is not a recognised stay-put condition).
func c17PredicateKinds(f *engine.Fn, call *ast.CallExpr, last, params types.Object, amountF *types.Var) []string {
	st := f.SiteOf(call)
	if st == nil {
		return nil
	}
	fn, _ := st.Callee.(*types.Func)
	h := f.Prog.FnOf(fn)
	if h == nil || h == f {
		return nil
	}
	info := f.Info()
	var hl, hp types.Object
	hops := authdOperands(h)
	var args []ast.Expr
	if se, ok := ast.Unparen(call.Fun).(*ast.SelectorExpr); ok {
		if sel, ok := info.Selections[se]; ok && sel.Kind() == types.MethodVal {
			args = append(args, se.X)
		}
	}
	args = append(args, call.Args...)
	for i, a := range args {
		if i >= len(hops) || hops[i] == nil || len(authdAssignsTo(h, hops[i])) != 0 {
			continue
		}
		switch engine.ObjOf(info, a) {
		case last:
			hl = hops[i]
		case params:
			hp = hops[i]
		}
	}
	var kinds []string
	hg := h.Graph()
	for _, rs := range authdReturns(h) {
		if len(rs.Results) != 1 {
			return nil
		}
		bv, isLit := authdIsBoolLit(h.Info(), rs.Results[0])
		if isLit && !bv {
			continue
		}
		var conds []ast.Expr
		if isLit {
			rst := h.SiteOf(rs)
			if rst == nil {
				return nil
			}
			gates := hg.Gates(rst)
			for _, gt := range gates {
				inner := true
				for _, o := range gates {
					if o.Block != gt.Block && hg.BlockDominates(gt.Block, o.Block) {
						inner = false
					}
				}
				if inner && gt.OnTrue {
					conds = append(conds, engine.Conjuncts(gt.Full(), token.LOR)...)
				}
			}
		} else {
			conds = engine.Conjuncts(rs.Results[0], token.LOR)
		}
		if len(conds) == 0 {
			return nil
		}
		for _, cd := range conds {
			k := c17StayKind(h, cd, hl, hp, amountF)
			if k == "" {
				return nil
			}
			kinds = append(kinds, k)
		}
	}
	return kinds
}
