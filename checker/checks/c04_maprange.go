package checks

import (
	"go/ast"

	"gnoverif/engine"
)

// C04 extra — deleting the entry being visited does not end a map range. Go
// guarantees that a `for k := range m` whose body deletes the current entry
// still visits the remaining ones. GnoVM's map range keeps a pointer to the
// current MapListItem and advances through its Next link after the body ran;
// that only works because MapList.Remove unlinks an item from its neighbours
// without touching the removed item's own links. Rule: Remove (and any other
// function of the package) never assigns the Prev/Next of the item it removes.
// (Added after an independently seeded change nil-ed the removed item's links
// "for hygiene".)
func init() {
	extend("C04", c04MapRange)
	mutants("C04",
		Mutant{"removed-item-links-cleared", "gnovm/pkg/gnolang/values.go", "		next.Prev = prev\n\t}\n\tml.Size--\n", "		next.Prev = prev\n\t}\n\tmli.Prev, mli.Next = nil, nil\n\tml.Size--\n", "range-delete-safe"},
	)
}

func c04MapRange(c *engine.Ctx) {
	p := progWith(c, "gnovm/pkg/gnolang")
	if p == nil {
		return
	}
	f := c.MustFunc("gnovm/pkg/gnolang.(*MapList).Remove")
	if f == nil {
		return
	}
	info := f.Info()
	removed := paramObj(f, 0)
	bad := ""
	n := 0
	engine.InspectBody(f, func(x ast.Node) {
		as, ok := x.(*ast.AssignStmt)
		if !ok {
			return
		}
		for _, l := range as.Lhs {
			se, ok := ast.Unparen(l).(*ast.SelectorExpr)
			if !ok || (se.Sel.Name != "Next" && se.Sel.Name != "Prev") {
				continue
			}
			n++
			if engine.ObjOf(info, se.X) == removed {
				bad = engine.ExprString(l)
			}
		}
	})
	c.Check("range-delete-safe", f.Name+" leaves the removed item's links intact", f.Pos(), bad == "",
		"Remove assigns `"+bad+"` of the removed item: a map range whose body deletes the entry being visited advances through that item's Next link afterwards and would stop early")
	c.Floor("range-delete-safe", n, 2)
	// the range loop advances through the current item's Next link
	adv := 0
	for _, fn := range p.FuncsIn("gnovm/pkg/gnolang") {
		engine.InspectBody(fn, func(x ast.Node) {
			if se, ok := x.(*ast.SelectorExpr); ok && se.Sel.Name == "Next" {
				if in, ok := se.X.(*ast.SelectorExpr); ok && in.Sel.Name == "NextItem" {
					adv++
				}
			}
		})
	}
	c.Check("range-delete-safe", "map range advances via NextItem.Next", f.Pos(), adv >= 1, "the reviewed map range implementation advances through the current list item's Next link; if that changed this rule must be revisited")
}
