package checks

import (
	"go/ast"
	"go/token"
	"go/types"

	"gnoverif/engine"
)

// c23Iter — iterator range rules for tm2/pkg/bptree (added after seed C23b, which made
// seekLast give up when the exclusive end bound was the first key of the landed leaf).
//
// iter-invalidate-reason: a leaf running out (index < 0 or >= numKeys, bound found at
// slot 0) is never a reason to end the range — the range continues in the neighbouring
// leaf. So every `it.valid = false` must sit under one of the reasons that do end a
// range: a failed load (`err != nil`), a bound comparison (bytes.Compare against
// it.start / it.end), an absent root (`root == nil`), an unknown node type (type-switch
// default), or unconditionally in nextLeaf / prevLeaf (stack exhausted) and Close.
//
// iter-leaf-exhaustion-continues: seekFirst, seekLast and Next move to the neighbouring
// leaf (nextLeaf / prevLeaf) under a test of it.leafIdx.
func c23Iter(c *engine.Ctx, p *engine.Prog) {
	const P = "tm2/pkg/bptree."
	fld := p.Field(P + "Iterator.valid")
	startF, endF, idxF := p.Field(P+"Iterator.start"), p.Field(P+"Iterator.end"), p.Field(P+"Iterator.leafIdx")
	if fld == nil || startF == nil || endF == nil || idxF == nil {
		c.Undecided("anchor", P+"Iterator.{valid,start,end,leafIdx}", "field not found")
		return
	}
	unconditional := map[string]bool{P + "(*Iterator).nextLeaf": true, P + "(*Iterator).prevLeaf": true, P + "(*Iterator).Close": true}
	n := 0
	seen := map[string]int{}
	for _, w := range p.FieldWrites(fld) {
		if w.Kind == "lit" {
			continue
		}
		as, ok := w.Node.(*ast.AssignStmt)
		if !ok || !w.Direct || len(as.Lhs) != len(as.Rhs) {
			c.Check("iter-invalidate-reason", w.Fn.Name+" indirect write of valid", w.Node.Pos(), false, "Iterator.valid must be assigned directly (`it.valid = true|false`) so that the reason can be read off the guard")
			continue
		}
		info := w.Fn.Info()
		var rhs ast.Expr
		for i, l := range as.Lhs {
			if tgSelField(info, l) == fld.Origin() {
				rhs = as.Rhs[i]
			}
		}
		id, _ := ast.Unparen(rhs).(*ast.Ident)
		if id == nil || (id.Name != "true" && id.Name != "false") || info.Uses[id] == nil || info.Uses[id].Parent() != types.Universe {
			c.Check("iter-invalidate-reason", w.Fn.Name+" computed valid", as.Pos(), false, "Iterator.valid is assigned `"+engine.ExprString(rhs)+"`; the reason for ending the range cannot be classified")
			continue
		}
		if id.Name == "true" {
			continue
		}
		reason, conds := c23InvalidateReason(w.Fn, as, info, startF, endF)
		if reason == "" && len(conds) == 0 && unconditional[w.Fn.Name] {
			reason = "unconditional (stack exhausted / closed)"
		}
		n++
		k := w.Fn.Name + " valid=false: " + reason
		if reason == "" {
			k = w.Fn.Name + " valid=false under " + conds
			if conds == "" {
				k = w.Fn.Name + " valid=false unconditionally"
			}
		}
		seen[k]++
		if seen[k] > 1 {
			k += " #" + string(rune('0'+seen[k]))
		}
		c.Check("iter-invalidate-reason", k, as.Pos(), reason != "", "a range ends only on a failed load, a bound comparison, an absent root, an unknown node type, or the stack running out; a leaf running out (or the bound sitting at a leaf's edge) continues in the neighbouring leaf via nextLeaf/prevLeaf")
	}
	c.Floor("iter-invalidate-reason", n, 17)

	// the leaf-edge branches hand over to the neighbouring leaf
	m := 0
	for _, want := range [][2]string{{"seekFirst", "nextLeaf"}, {"seekLast", "prevLeaf"}, {"Next", "nextLeaf"}, {"Next", "prevLeaf"}} {
		f := p.Func(P + "(*Iterator)." + want[0])
		callee := p.Func(P + "(*Iterator)." + want[1])
		if f == nil || callee == nil {
			c.Undecided("anchor", P+"(*Iterator)."+want[0]+"/"+want[1], "function not found")
			continue
		}
		found := false
		var stack []ast.Node
		ast.Inspect(f.Body, func(x ast.Node) bool {
			if x == nil {
				stack = stack[:len(stack)-1]
				return true
			}
			stack = append(stack, x)
			if call, ok := x.(*ast.CallExpr); ok {
				if sel, ok := call.Fun.(*ast.SelectorExpr); ok && f.Info().Uses[sel.Sel] == callee.Obj {
					// nearest enclosing if must test leafIdx
					for i := len(stack) - 2; i >= 0; i-- {
						if is, ok := stack[i].(*ast.IfStmt); ok {
							if tgMentionsField(f.Info(), is.Cond, idxF) {
								found = true
							}
							break
						}
					}
				}
			}
			return true
		})
		m++
		c.Check("iter-leaf-exhaustion-continues", f.Name+" -> "+want[1], f.Pos(), found, "when the position runs off the leaf (a test of it.leafIdx) the iterator must continue with "+want[1]+"()")
	}
	c.Floor("iter-leaf-exhaustion-continues", m, 4)
}

// c23InvalidateReason walks from the assignment outwards and returns the first accepted
// reason; conds lists the guards met on the way (for the report).
func c23InvalidateReason(f *engine.Fn, target ast.Stmt, info *types.Info, startF, endF *types.Var) (reason, conds string) {
	var stack, path []ast.Node
	ast.Inspect(f.Body, func(x ast.Node) bool {
		if x == nil {
			stack = stack[:len(stack)-1]
			return true
		}
		if path != nil {
			return false
		}
		stack = append(stack, x)
		if x == ast.Node(target) {
			path = append([]ast.Node(nil), stack...)
			return false
		}
		return true
	})
	for i := len(path) - 2; i >= 0; i-- {
		switch s := path[i].(type) {
		case *ast.CaseClause:
			if i > 0 {
				if b, ok := path[i-1].(*ast.BlockStmt); ok && i > 1 {
					if _, ok := path[i-2].(*ast.TypeSwitchStmt); ok && s.List == nil {
						_ = b
						return "unknown node type (type-switch default)", conds
					}
				}
			}
		case *ast.IfStmt:
			if path[i+1] != ast.Node(s.Body) {
				conds += tgIf(conds != "", "; ") + "else of `" + engine.ExprString(s.Cond) + "`"
				continue
			}
			defs := c23LocalDefs(f, info)
			if r := c23CondReason(info, s.Cond, startF, endF, defs, 0); r != "" {
				return r, conds
			}
			if s.Init != nil {
				if r := c23CondReason(info, s.Init, startF, endF, defs, 0); r != "" {
					return r, conds
				}
			}
			conds += tgIf(conds != "", "; ") + "`" + engine.ExprString(s.Cond) + "`"
		case *ast.ForStmt, *ast.RangeStmt:
			conds += tgIf(conds != "", "; ") + "loop"
		}
	}
	return "", conds
}

// c23LocalDefs maps each local variable of f to the right-hand sides assigned to it, so
// that `c := bytes.Compare(k, it.end); if c >= 0 {…}` is read like the inlined form.
func c23LocalDefs(f *engine.Fn, info *types.Info) map[types.Object][]ast.Expr {
	defs := map[types.Object][]ast.Expr{}
	ast.Inspect(f.Body, func(x ast.Node) bool {
		if as, ok := x.(*ast.AssignStmt); ok {
			for i, l := range as.Lhs {
				id, ok := l.(*ast.Ident)
				if !ok {
					continue
				}
				o := info.ObjectOf(id)
				if o == nil {
					continue
				}
				if len(as.Lhs) == len(as.Rhs) {
					defs[o] = append(defs[o], as.Rhs[i])
				}
			}
		}
		return true
	})
	return defs
}

func c23CondReason(info *types.Info, cond ast.Node, startF, endF *types.Var, defs map[types.Object][]ast.Expr, depth int) string {
	reason := ""
	ast.Inspect(cond, func(x ast.Node) bool {
		switch e := x.(type) {
		case *ast.Ident:
			if depth < 3 {
				if o := info.Uses[e]; o != nil {
					for _, r := range defs[o] {
						if rr := c23CondReason(info, r, startF, endF, defs, depth+1); rr != "" {
							reason = rr
						}
					}
				}
			}
		case *ast.BinaryExpr:
			if e.Op == token.LAND || e.Op == token.LOR {
				return true
			}
			nilSide := func(a, b ast.Expr) types.Type {
				if id, ok := ast.Unparen(b).(*ast.Ident); ok && id.Name == "nil" {
					if tv, ok := info.Types[a]; ok {
						return tv.Type
					}
				}
				return nil
			}
			t := nilSide(e.X, e.Y)
			if t == nil {
				t = nilSide(e.Y, e.X)
			}
			if t != nil {
				if e.Op == token.NEQ && types.Identical(t, types.Universe.Lookup("error").Type()) {
					reason = "failed load (err != nil)"
				}
				if n, ok := t.(*types.Named); ok && e.Op == token.EQL && n.Obj().Name() == "Node" && types.IsInterface(t) {
					reason = "absent root (== nil)"
				}
			}
		case *ast.CallExpr:
			if sel, ok := e.Fun.(*ast.SelectorExpr); ok {
				if fn, ok := info.Uses[sel.Sel].(*types.Func); ok && fn.FullName() == "bytes.Compare" {
					for _, a := range e.Args {
						if v := tgSelField(info, a); v != nil && (v == startF.Origin() || v == endF.Origin()) {
							reason = "bound comparison (bytes.Compare with " + v.Name() + ")"
						}
					}
				}
			}
		}
		return reason == ""
	})
	return reason
}
