package checks

import (
	"go/ast"
	"go/token"
	"go/types"
	"strings"

	"golang.org/x/tools/go/cfg"

	"gnoverif/engine"
)

// C24 — bptree hashes depend only on the operation history: what is hashed is
// a function of node content only, the cached mini-merkle is refreshed after
// every content write, the persisted form round-trips field by field, the
// export stream carries exactly what import consumes, nothing in the package
// iterates a map.
func init() {
	register("C24", c24)
	meta("C24", Meta{
		Text:      "Decides structural necessary conditions of 'the root hash is a function of the history only': (1) read-set — the functions that compute hashes (Hash, RebuildMiniMerkle, MiniMerkle.Build/SetSlot/Root, HashInner, HashLeafSlot*) read, transitively, only the content fields numKeys/childHashes (inner) and numKeys/keys/valueHashes (leaf) plus the cached miniTree, never nodeKey/ndb/childNodes/children/valueKeys/options/cache, and call nothing but sha256/binary/hash.Hash; (2) cache coherence — in every function of the package a write to one of those hash-input fields of a node is followed, on every non-failing path to the function's exit, by a refresh of that node's miniTree (RebuildMiniMerkle/SetSlot), except for the listed helpers that leave a parameter or result stale, whose callers are checked to refresh it (fixUnderflow chain → innerRemove; splitLeaf/splitInner → leafInsert/innerInsert); (3) Serialize and readInnerNode/readLeafNode touch the same fields in the same order with matching encoders/decoders, every struct field is either persisted or in the in-memory table, and the reader ends with RebuildMiniMerkle; (4) the ExportNode fields produced by the exporter, consumed by Importer.Add and declared by the struct are the same set; (5) no range over a map in the package; (6) SaveVersion records the hash of the root after saveNode; (7) MiniMerkle.tree is written only by SetSlot/Build/Clear and the two RebuildMiniMerkle, and saveNode calls the full RebuildMiniMerkle of both node kinds before persisting. Level 'other'.",
		Note:      "Not covered: equality of hashes across reopen/cache sizes/pruning schedules as behaviour, separator keys and childSizes are outside the hash by design (documented in import.go), value bytes vs valueHash agreement (Set computes sha256 of the value it stores: C26/C23 territory), DB backends.",
		Technique: "call-closure field read-set, go/cfg must-pass-after with a caller-refreshes contract table, ordered field/callee sequence comparison (sibling rule), struct-field exhaustiveness",
		Ref:       "DESIGN.md §2 C24",
	})
	const nd = "tm2/pkg/bptree/node.go"
	const rm = "tm2/pkg/bptree/remove.go"
	const ins = "tm2/pkg/bptree/insert.go"
	mutants("C24",
		Mutant{"hash-reads-nodekey", nd, "func (n *InnerNode) Hash() Hash { return n.miniTree.Root() }", "func (n *InnerNode) Hash() Hash {\n\tif n.nodeKey != nil && n.nodeKey.Nonce == 0 {\n\t\treturn Hash{}\n\t}\n\treturn n.miniTree.Root()\n}", "hash-readset"},
		Mutant{"rebuild-reads-childsizes", nd, "\t\tif i < n.NumChildren() {\n\t\t\tn.miniTree.tree[B+i] = n.childHashes[i]", "\t\tif i < n.NumChildren() && n.childSizes[i] >= 0 {\n\t\t\tn.miniTree.tree[B+i] = n.childHashes[i]", "hash-readset"},
		Mutant{"update-skips-setslot", ins, "\t\tleaf.valueKeys[pos] = valueKey\n\t\tleaf.miniTree.SetSlot(pos, HashLeafSlotFromValueHash(key, valueHash))\n", "\t\tleaf.valueKeys[pos] = valueKey\n", "hash-refresh"},
		Mutant{"remove-skips-rebuild", rm, "\tleaf.numKeys--\n\tleaf.RebuildMiniMerkle()\n\n\treturn removeResult{found: true", "\tleaf.numKeys--\n\n\treturn removeResult{found: true", "hash-refresh"},
		Mutant{"underflow-parent-not-rebuilt", rm, "\tif err != nil {\n\t\treturn removeResult{}, err\n\t}\n\tinner.RebuildMiniMerkle()\n", "\tif err != nil {\n\t\treturn removeResult{}, err\n\t}\n", "hash-refresh"},
		Mutant{"split-right-not-rebuilt", ins, "\tleaf.RebuildMiniMerkle()\n\tsr.right.(*LeafNode).RebuildMiniMerkle()\n", "\tleaf.RebuildMiniMerkle()\n", "hash-refresh"},
		Mutant{"reader-swaps-fields", nd, "\tfor i := 0; i < int(n.numKeys); i++ {\n\t\tif _, err := io.ReadFull(r, n.valueHashes[i][:]); err != nil {\n\t\t\treturn nil, fmt.Errorf(\"reading value hash %d: %w\", i, err)\n\t\t}\n\t}\n\tfor i := 0; i < int(n.numKeys); i++ {\n\t\tn.valueKeys[i] = make([]byte, NodeKeySize)\n\t\tif _, err := io.ReadFull(r, n.valueKeys[i]); err != nil {\n\t\t\treturn nil, fmt.Errorf(\"reading value key %d: %w\", i, err)\n\t\t}\n\t}\n", "\tfor i := 0; i < int(n.numKeys); i++ {\n\t\tn.valueKeys[i] = make([]byte, NodeKeySize)\n\t\tif _, err := io.ReadFull(r, n.valueKeys[i]); err != nil {\n\t\t\treturn nil, fmt.Errorf(\"reading value key %d: %w\", i, err)\n\t\t}\n\t}\n\tfor i := 0; i < int(n.numKeys); i++ {\n\t\tif _, err := io.ReadFull(r, n.valueHashes[i][:]); err != nil {\n\t\t\treturn nil, fmt.Errorf(\"reading value hash %d: %w\", i, err)\n\t\t}\n\t}\n", "codec-fields"},
		Mutant{"writer-changes-encoding", nd, "\t\tif err := writeVarint(w, n.childSizes[i]); err != nil {", "\t\tif err := writeUvarint(w, uint64(n.childSizes[i])); err != nil {", "codec-calls"},
		Mutant{"reader-skips-rebuild", nd, "\t\t\treturn nil, fmt.Errorf(\"reading child hash %d: %w\", i, err)\n\t\t}\n\t}\n\n\tn.RebuildMiniMerkle()\n\treturn n, nil", "\t\t\treturn nil, fmt.Errorf(\"reading child hash %d: %w\", i, err)\n\t\t}\n\t}\n\n\treturn n, nil", "hash-refresh"},
		Mutant{"export-drops-field", "tm2/pkg/bptree/export.go", "\t\t\tHeight:        int8(n.height),\n\t\t\tNumKeys:       n.numKeys,\n\t\t\tSeparatorKeys: sepKeys,", "\t\t\tHeight:  int8(n.height),\n\t\t\tNumKeys: n.numKeys,", "export-import-fields"},
		Mutant{"map-range-added", "tm2/pkg/bptree/prune.go", "\tfor i := 0; i < oldInner.NumChildren(); i++ {\n\t\tif oldInner.children[i] == nil {", "\tfor k := range newChildRefs {\n\t\t_ = k\n\t}\n\tfor i := 0; i < oldInner.NumChildren(); i++ {\n\t\tif oldInner.children[i] == nil {", "no-map-range"},
	)
}

// tgFailureReturn: the function's last result is an error and this return
// passes something other than nil for it.
func tgFailureReturn(f *engine.Fn, r *ast.ReturnStmt) bool {
	res := f.Type.Results
	if res == nil || len(res.List) == 0 {
		return false
	}
	t := f.Info().TypeOf(res.List[len(res.List)-1].Type)
	if t == nil || t.String() != "error" {
		return false
	}
	if len(r.Results) == 0 {
		return false
	}
	return !isNil(r.Results[len(r.Results)-1])
}

// tgMustPassToExit: every path from `from` to a non-failing exit of f (a
// return that is not a failure return, or falling off the end) passes one of
// the `via` sites. Returns a description of the escaping exit otherwise.
func tgMustPassToExit(f *engine.Fn, from *engine.Site, via []*engine.Site) (bool, string) {
	viaIn := func(b *cfg.Block, afterIdx, afterOrd int) bool {
		for _, s := range via {
			if s.Deferred || s.InGo || s.Block != b {
				continue
			}
			if s.Idx > afterIdx || (s.Idx == afterIdx && s.Ord > afterOrd) {
				return true
			}
		}
		return false
	}
	if viaIn(from.Block, from.Idx, from.Ord) {
		return true, ""
	}
	seen := map[*cfg.Block]bool{}
	bad := ""
	var walk func(b *cfg.Block, first bool)
	walk = func(b *cfg.Block, first bool) {
		if bad != "" {
			return
		}
		if !first {
			if seen[b] {
				return
			}
			seen[b] = true
			if viaIn(b, -1, -1) {
				return
			}
		}
		if r := b.Return(); r != nil {
			if !tgFailureReturn(f, r) {
				bad = "`" + tgRetKey(r) + "`"
			}
			return
		}
		if len(b.Succs) == 0 {
			// falls off the end, unless the block ends in a no-return call
			if len(b.Nodes) > 0 {
				if es, ok := b.Nodes[len(b.Nodes)-1].(*ast.ExprStmt); ok {
					if call, ok := es.X.(*ast.CallExpr); ok && !f.Prog.MayReturn(f.Info(), call) {
						return
					}
				}
			}
			bad = "end of function"
			return
		}
		for _, s := range b.Succs {
			walk(s, false)
		}
	}
	walk(from.Block, true)
	return bad == "", bad
}

type tgHashWrite struct {
	site  *engine.Site
	obj   types.Object
	field string // "InnerNode.childHashes"
}

func c24(c *engine.Ctx) {
	c.Explain = "Decides (plus: closed writer set of MiniMerkle.tree; saveNode persists only after the full RebuildMiniMerkle): hash functions read only content fields (numKeys, childHashes / keys, valueHashes) and the cached miniTree, and call only sha256/binary/hash.Hash; every write to a hash-input field is followed by a miniTree refresh of the same node on all non-failing paths (caller-refreshes contracts for the underflow helpers and the split constructors are checked at their callers); Serialize and readInnerNode/readLeafNode agree on field order and encodings and cover every persisted struct field; ExportNode is produced and consumed field for field; no map iteration in the package; SaveVersion hashes the root after saveNode. Not covered: hash equality across reopen/prune as behaviour; separator keys and childSizes are outside the hash by design."
	p := c.Load("tm2/pkg/bptree")
	if p == nil {
		return
	}
	// ---- mini-merkle array: closed writer set + canonical rebuild before persisting (seed C24b)
	if tf := p.Field("tm2/pkg/bptree.MiniMerkle.tree"); tf == nil {
		c.Undecided("anchor", "tm2/pkg/bptree.MiniMerkle.tree", "field not found")
	} else {
		tgTableWriters(c, p, "minitree-writers", "tm2/pkg/bptree.MiniMerkle.tree", p.FieldWrites(tf), nil, []string{
			"tm2/pkg/bptree.(*MiniMerkle).SetSlot", "tm2/pkg/bptree.(*MiniMerkle).Build", "tm2/pkg/bptree.(*MiniMerkle).Clear",
			"tm2/pkg/bptree.(*InnerNode).RebuildMiniMerkle", "tm2/pkg/bptree.(*LeafNode).RebuildMiniMerkle"})
	}
	if sn := c.MustFunc("tm2/pkg/bptree.(*MutableTree).saveNode"); sn != nil {
		for _, callee := range []string{"tm2/pkg/bptree.(*InnerNode).RebuildMiniMerkle", "tm2/pkg/bptree.(*LeafNode).RebuildMiniMerkle"} {
			c.Check("saved-hash-canonical", sn.Name+" -> "+callee, sn.Pos(), len(sn.CallsTo(callee)) > 0, "a node is persisted with the hash of a full rebuild over all B slots (unused slots = sentinel), so that a reloaded, reopened or imported node — whose reader rebuilds from content — hashes the same")
		}
	}
	const P = "tm2/pkg/bptree."
	inner, leaf := p.Named(P+"InnerNode"), p.Named(P+"LeafNode")
	if inner == nil || leaf == nil {
		c.Undecided("anchor", P+"InnerNode/LeafNode", "type not found")
		return
	}
	fieldOwner := func(v *types.Var) string {
		for _, t := range []*types.Named{inner, leaf} {
			st := t.Underlying().(*types.Struct)
			for i := 0; i < st.NumFields(); i++ {
				if st.Field(i) == v.Origin() {
					return t.Obj().Name()
				}
			}
		}
		return ""
	}
	hashInput := map[string]bool{
		"InnerNode.numKeys": true, "InnerNode.childHashes": true,
		"LeafNode.numKeys": true, "LeafNode.keys": true, "LeafNode.valueHashes": true,
	}

	// ---- (1) read-set of the hashing closure
	roots := []string{
		P + "(*InnerNode).Hash", P + "(*LeafNode).Hash", P + "(*InnerNode).RebuildMiniMerkle", P + "(*LeafNode).RebuildMiniMerkle",
		P + "(*MiniMerkle).Root", P + "(*MiniMerkle).Build", P + "(*MiniMerkle).SetSlot", P + "HashInner", P + "HashLeafSlot", P + "HashLeafSlotFromValueHash",
	}
	{
		seenFn := map[*engine.Fn]bool{}
		ext := map[string]bool{}
		var visit func(f *engine.Fn)
		visit = func(f *engine.Fn) {
			if f == nil || seenFn[f] {
				return
			}
			seenFn[f] = true
			for _, x := range append([]*engine.Fn{f}, f.AllLits()...) {
				for _, s := range x.Calls() {
					if o, ok := s.Callee.(*types.Func); ok {
						if g := p.FnOf(o); g != nil {
							visit(g)
							continue
						}
					}
					if n := s.CalleeName(); n != "" {
						ext[n] = true
					} else if tv, ok := x.Info().Types[s.Call.Fun]; ok && tv.IsType() {
						// conversion
					} else {
						ext["<dynamic call in "+x.Name+">"] = true
					}
				}
			}
		}
		for _, r := range roots {
			visit(c.MustFunc(r))
		}
		reads := map[string]bool{}
		globals := map[string]bool{}
		for f := range seenFn {
			info := f.Info()
			ast.Inspect(f.Body, func(n ast.Node) bool {
				id, ok := n.(*ast.Ident)
				if !ok {
					return true
				}
				v, ok := info.Uses[id].(*types.Var)
				if !ok {
					return true
				}
				if v.IsField() {
					if ow := fieldOwner(v); ow != "" {
						reads[ow+"."+v.Name()] = true
					}
				} else if v.Parent() == v.Pkg().Scope() {
					globals[v.Name()] = true
				}
				return true
			})
		}
		allowed := map[string]bool{"InnerNode.miniTree": true, "LeafNode.miniTree": true}
		for k := range hashInput {
			allowed[k] = true
		}
		var bad []string
		for _, r := range engine.SortedKeys(reads) {
			if !allowed[r] {
				bad = append(bad, r)
			}
		}
		c.Check("hash-readset", "node fields read by the hashing closure", token.NoPos, len(bad) == 0 && len(reads) >= 7, "reads: "+join(engine.SortedKeys(reads))+"; not content: "+join(bad))
		var badG []string
		for _, g := range engine.SortedKeys(globals) {
			if g != "sentinelHash" {
				badG = append(badG, g)
			}
		}
		c.Check("hash-readset", "package variables read by the hashing closure", token.NoPos, len(badG) == 0, "globals: "+join(engine.SortedKeys(globals)))
		var badE []string
		for _, e := range engine.SortedKeys(ext) {
			switch {
			case strings.HasPrefix(e, "crypto/sha256."), strings.HasPrefix(e, "encoding/binary."), strings.HasPrefix(e, "builtin."), strings.HasPrefix(e, "conv."),
				e == "hash.(Hash).Sum", e == "hash.(Hash).Write", e == "io.(Writer).Write":
			default:
				badE = append(badE, e)
			}
		}
		c.Check("hash-readset", "external callees of the hashing closure", token.NoPos, len(badE) == 0, "callees: "+join(engine.SortedKeys(ext))+"; unexpected: "+join(badE))
		c.Floor("hash-readset functions", len(seenFn), 10)
	}

	// ---- (2) cache coherence
	// helpers that leave an argument stale for the caller to refresh
	staleParam := map[string]int{P + "redistributeRight": 0, P + "redistributeLeft": 0, P + "merge": 0, P + "fixUnderflow": 0}
	staleResult := map[string]bool{P + "splitLeaf": true, P + "splitInner": true}
	isRefresh := func(f *engine.Fn, s *engine.Site, o types.Object) bool {
		n := s.CalleeName()
		se, ok := ast.Unparen(s.Call.Fun).(*ast.SelectorExpr)
		if !ok {
			return false
		}
		info := f.Info()
		switch n {
		case P + "(*InnerNode).RebuildMiniMerkle", P + "(*LeafNode).RebuildMiniMerkle":
			return engine.ObjOf(info, se.X) == o
		case P + "(*MiniMerkle).SetSlot", P + "(*MiniMerkle).Build":
			if in, ok := ast.Unparen(se.X).(*ast.SelectorExpr); ok && in.Sel.Name == "miniTree" {
				return engine.ObjOf(info, in.X) == o
			}
		}
		return false
	}
	nW := 0
	for _, f := range p.FuncsIn("tm2/pkg/bptree") {
		info := f.Info()
		var ws []tgHashWrite
		record := func(target ast.Expr, at ast.Node) {
			e := ast.Unparen(target)
			for {
				switch x := e.(type) {
				case *ast.IndexExpr:
					e = ast.Unparen(x.X)
					continue
				case *ast.SliceExpr:
					e = ast.Unparen(x.X)
					continue
				}
				break
			}
			se, ok := e.(*ast.SelectorExpr)
			if !ok {
				return
			}
			v, ok := info.Uses[se.Sel].(*types.Var)
			if !ok || !v.IsField() {
				return
			}
			ow := fieldOwner(v)
			if ow == "" || !hashInput[ow+"."+v.Name()] {
				return
			}
			o := engine.ObjOf(info, se.X)
			if _, isVar := o.(*types.Var); !isVar {
				o = nil
			}
			if s := f.SiteOf(at); s != nil {
				ws = append(ws, tgHashWrite{site: s, obj: o, field: ow + "." + v.Name()})
			}
		}
		engine.InspectBody(f, func(n ast.Node) {
			switch x := n.(type) {
			case *ast.AssignStmt:
				for _, l := range x.Lhs {
					record(l, x)
				}
			case *ast.IncDecStmt:
				record(x.X, x)
			case *ast.CallExpr:
				// copy(dst[:], …) and io.ReadFull(r, dst[:]) write through a slice of the field
				wi := -1
				if engine.IsBuiltinCall(info, x, "copy") {
					wi = 0
				} else if s := f.SiteOf(x); s != nil && s.CalleeName() == "io.ReadFull" {
					wi = 1
				}
				if wi >= 0 && wi < len(x.Args) {
					record(x.Args[wi], x)
				}
			}
		})
		if len(ws) == 0 {
			continue
		}
		type key struct {
			o types.Object
			f string
		}
		done := map[key]bool{}
		for _, w := range ws {
			k := key{w.obj, w.field}
			label := f.Name + " writes " + w.field
			if w.obj != nil {
				label += " of " + w.obj.Name()
			}
			if w.obj == nil {
				if !done[k] {
					done[k] = true
					nW++
					c.Check("hash-refresh", label, w.site.Pos(), false, "hash-input field written through an expression that is not a local variable; refresh cannot be matched")
				}
				continue
			}
			// exemptions: stale parameter / stale result helpers
			if pi, ok := staleParam[f.Name]; ok && paramObj(f, pi) == w.obj {
				if !done[k] {
					done[k] = true
					nW++
					c.Check("hash-refresh", label, w.site.Pos(), true, "left stale by contract: every caller is checked to refresh it (rule hash-refresh-caller)")
				}
				continue
			}
			if staleResult[f.Name] && tgReturnMentions(f, w.obj) {
				if !done[k] {
					done[k] = true
					nW++
					c.Check("hash-refresh", label, w.site.Pos(), true, "constructor result returned un-hashed by contract: the callers are checked to refresh it (rule hash-refresh-caller)")
				}
				continue
			}
			var via []*engine.Site
			for _, s := range f.Calls() {
				if s.Call != nil && isRefresh(f, s, w.obj) {
					via = append(via, s)
				}
			}
			ok, esc := tgMustPassToExit(f, w.site, via)
			if done[k] && ok {
				continue
			}
			if !done[k] {
				nW++
			}
			done[k] = true
			why := "every non-failing exit after the write passes a miniTree refresh of " + w.obj.Name()
			if !ok {
				why = "after this write " + esc + " is reachable without " + w.obj.Name() + ".RebuildMiniMerkle()/miniTree.SetSlot: the cached hash would not reflect the content"
			}
			c.Check("hash-refresh", label, w.site.Pos(), ok, why)
		}
	}
	c.Floor("hash-refresh", nW, 30)
	// callers of the stale-parameter helpers
	nC := 0
	for name, pi := range staleParam {
		g := c.MustFunc(name)
		if g == nil {
			continue
		}
		for _, ref := range p.RefsToFunc(name) {
			f := ref.Fn
			if f == nil || !ref.IsCall {
				c.Check("hash-refresh-caller", name+" referenced as a value", token.NoPos, false, "stale-parameter helper must only be called directly")
				continue
			}
			for _, s := range f.CallsTo(name) {
				nC++
				if pi >= len(s.Call.Args) {
					continue
				}
				o := engine.ObjOf(f.Info(), s.Call.Args[pi])
				label := f.Name + " -> " + name
				if cpi, ok := staleParam[f.Name]; ok && o != nil && paramObj(f, cpi) == o {
					c.Check("hash-refresh-caller", label, s.Pos(), true, "passes on its own stale parameter (its callers are checked)")
					continue
				}
				var via []*engine.Site
				for _, x := range f.Calls() {
					if x.Call != nil && o != nil && isRefresh(f, x, o) {
						via = append(via, x)
					}
				}
				ok, esc := tgMustPassToExit(f, s, via)
				why := "caller refreshes the stale node on every non-failing exit"
				if !ok {
					why = "after the call " + esc + " is reachable without refreshing the node whose childHashes/numKeys the helper changed"
				}
				c.Check("hash-refresh-caller", label, s.Pos(), ok && o != nil, why)
			}
		}
	}
	for name := range staleResult {
		for _, ref := range p.RefsToFunc(name) {
			f := ref.Fn
			if f == nil || !ref.IsCall {
				continue
			}
			for _, s := range f.CallsTo(name) {
				nC++
				// both halves must be rebuilt: two RebuildMiniMerkle calls with different receivers dominate every non-failing exit
				g := f.Graph()
				recv := map[string]bool{}
				var rb []*engine.Site
				for _, x := range f.CallsTo(P+"(*InnerNode).RebuildMiniMerkle", P+"(*LeafNode).RebuildMiniMerkle") {
					if g.Dominates(s, x) {
						rb = append(rb, x)
						if se, ok := ast.Unparen(x.Call.Fun).(*ast.SelectorExpr); ok {
							recv[engine.ExprString(se.X)] = true
						}
					}
				}
				okAll := len(recv) >= 2
				for _, r := range tgReturnSites(f) {
					if tgFailureReturn(f, r.Node.(*ast.ReturnStmt)) || !g.ReachableAfter(s, r) {
						continue
					}
					n := map[string]bool{}
					for _, x := range rb {
						if g.Dominates(x, r) {
							if se, ok := ast.Unparen(x.Call.Fun).(*ast.SelectorExpr); ok {
								n[engine.ExprString(se.X)] = true
							}
						}
					}
					if len(n) < 2 {
						okAll = false
					}
				}
				c.Check("hash-refresh-caller", f.Name+" -> "+name, s.Pos(), okAll, "both halves of a split must be re-hashed (two RebuildMiniMerkle calls on different nodes dominating every non-failing return)")
			}
		}
	}
	c.Floor("hash-refresh-caller", nC, 6)

	// ---- (3) codec sibling rule
	inMemory := map[string]string{
		"InnerNode.nodeKey": "record identity (the DB key)", "InnerNode.childNodes": "in-memory child pointers", "InnerNode.miniTree": "derived cache, rebuilt on read", "InnerNode.ndb": "loader handle",
		"LeafNode.nodeKey": "record identity (the DB key)", "LeafNode.miniTree": "derived cache, rebuilt on read",
	}
	encDec := map[string]string{
		P + "writeUvarint": "encoding/binary.ReadUvarint", P + "writeVarint": "encoding/binary.ReadVarint", P + "writeBytes": P + "readBytes", "io.(Writer).Write": "io.ReadFull",
	}
	for _, tn := range []struct {
		t  *types.Named
		rd string
	}{{inner, "readInnerNode"}, {leaf, "readLeafNode"}} {
		name := tn.t.Obj().Name()
		ser := c.MustFunc(P + "(*" + name + ").Serialize")
		rd := c.MustFunc(P + tn.rd)
		if ser == nil || rd == nil {
			continue
		}
		seq := func(f *engine.Fn) []string {
			var out []string
			seen := map[string]bool{}
			info := f.Info()
			ast.Inspect(f.Body, func(n ast.Node) bool {
				if kv, ok := n.(*ast.KeyValueExpr); ok {
					// skip composite-literal keys (construction of the fresh node)
					ast.Inspect(kv.Value, func(ast.Node) bool { return true })
					return false
				}
				se, ok := n.(*ast.SelectorExpr)
				if !ok {
					return true
				}
				v, ok := info.Uses[se.Sel].(*types.Var)
				if !ok || !v.IsField() || fieldOwner(v) != name {
					return true
				}
				k := name + "." + v.Name()
				if _, mem := inMemory[k]; mem {
					return true
				}
				if !seen[k] {
					seen[k] = true
					out = append(out, k)
				}
				return true
			})
			return out
		}
		a, b := seq(ser), seq(rd)
		c.Check("codec-fields", name+" Serialize/"+tn.rd+" field order", ser.Pos(), strings.Join(a, ",") == strings.Join(b, ",") && len(a) >= 4, "written: "+join(a)+" | read: "+join(b))
		// exhaustiveness over the struct
		st := tn.t.Underlying().(*types.Struct)
		var missing []string
		for i := 0; i < st.NumFields(); i++ {
			k := name + "." + st.Field(i).Name()
			if _, mem := inMemory[k]; mem {
				continue
			}
			found := false
			for _, x := range a {
				if x == k {
					found = true
				}
			}
			if !found {
				missing = append(missing, k)
			}
		}
		c.Check("codec-fields", name+" every field persisted or listed in-memory", ser.Pos(), len(missing) == 0, "fields neither serialized nor in the in-memory table: "+join(missing))
		// encoder/decoder call sequence (source order), dropping the type byte
		calls := func(f *engine.Fn, names map[string]bool) []string {
			var ss []*engine.Site
			for _, s := range f.Calls() {
				if names[s.CalleeName()] {
					ss = append(ss, s)
				}
			}
			for i := range ss {
				for j := i + 1; j < len(ss); j++ {
					if ss[j].Pos() < ss[i].Pos() {
						ss[i], ss[j] = ss[j], ss[i]
					}
				}
			}
			var out []string
			for _, s := range ss {
				out = append(out, s.CalleeName())
			}
			return out
		}
		encs, decs := map[string]bool{}, map[string]bool{}
		for e, d := range encDec {
			encs[e], decs[d] = true, true
		}
		es, ds := calls(ser, encs), calls(rd, decs)
		if len(es) > 0 && es[0] == "io.(Writer).Write" {
			es = es[1:] // the node-type byte is consumed by ReadNode
		}
		var mapped []string
		for _, e := range es {
			mapped = append(mapped, encDec[e])
		}
		c.Check("codec-calls", name+" encoders match decoders in order", ser.Pos(), strings.Join(mapped, ",") == strings.Join(ds, ",") && len(ds) >= 4, "decoders expected from Serialize: "+join(mapped)+" | found in "+tn.rd+": "+join(ds))
	}
	if f := c.MustFunc(P + "ReadNode"); f != nil {
		// type byte dispatch covers both node types and rejects trailing bytes
		ri, rl := f.CallsTo(P+"readInnerNode"), f.CallsTo(P+"readLeafNode")
		okTrail := false
		for _, r := range tgSuccessReturns(f) {
			if gt, ok := tgGateOn(f, r, func(e ast.Expr) bool {
				b, isB := ast.Unparen(e).(*ast.BinaryExpr)
				return isB && b.Op == token.NEQ && engine.MentionsName(b.X, "Len")
			}); ok && !gt.OnTrue {
				okTrail = true
			}
		}
		c.Check("codec-calls", f.Name+" dispatches both node types and rejects trailing bytes", f.Pos(), len(ri) == 1 && len(rl) == 1 && okTrail, "ReadNode must decode both types and fail on unconsumed bytes")
	}

	// ---- (4) export/import
	if en := p.Named(P + "ExportNode"); en != nil {
		st := en.Underlying().(*types.Struct)
		all := map[string]bool{}
		for i := 0; i < st.NumFields(); i++ {
			all[st.Field(i).Name()] = true
		}
		produced, consumed := map[string]bool{}, map[string]bool{}
		if f := c.MustFunc(P + "(*Exporter).exportNode"); f != nil {
			info := f.Info()
			ast.Inspect(f.Body, func(n ast.Node) bool {
				cl, ok := n.(*ast.CompositeLit)
				if !ok {
					return true
				}
				if t, ok := types.Unalias(info.TypeOf(cl)).(*types.Named); !ok || t.Obj() != en.Obj() {
					return true
				}
				for _, el := range cl.Elts {
					if kv, ok := el.(*ast.KeyValueExpr); ok {
						if id, ok := kv.Key.(*ast.Ident); ok {
							produced[id.Name] = true
						}
					}
				}
				return true
			})
		}
		if f := c.MustFunc(P + "(*Importer).Add"); f != nil {
			info := f.Info()
			np := paramObj(f, 0)
			ast.Inspect(f.Body, func(n ast.Node) bool {
				se, ok := n.(*ast.SelectorExpr)
				if ok && engine.ObjOf(info, se.X) == np {
					if v, ok := info.Uses[se.Sel].(*types.Var); ok && v.IsField() {
						consumed[v.Name()] = true
					}
				}
				return true
			})
		}
		a, pr, co := engine.SortedKeys(all), engine.SortedKeys(produced), engine.SortedKeys(consumed)
		c.Check("export-import-fields", P+"ExportNode produced == consumed == declared", token.NoPos, strings.Join(a, ",") == strings.Join(pr, ",") && strings.Join(a, ",") == strings.Join(co, ",") && len(a) >= 5,
			"declared: "+join(a)+" | set by exportNode: "+join(pr)+" | read by Importer.Add: "+join(co))
	} else {
		c.Undecided("anchor", P+"ExportNode", "type not found")
	}

	// ---- (5) no map iteration
	{
		nRange := 0
		var bad []string
		for _, f := range p.FuncsIn("tm2/pkg/bptree") {
			info := f.Info()
			engine.InspectBody(f, func(n ast.Node) {
				rs, ok := n.(*ast.RangeStmt)
				if !ok {
					return
				}
				nRange++
				if t := info.TypeOf(rs.X); t != nil {
					if _, isMap := t.Underlying().(*types.Map); isMap {
						bad = append(bad, f.Name)
					}
				}
			})
		}
		c.Check("no-map-range", "tm2/pkg/bptree range statements", token.NoPos, len(bad) == 0, "range statements examined: "+tgItoa(nRange)+"; over a map in: "+join(tgUniq(bad)))
		c.Floor("no-map-range examined", nRange, 20)
	}

	// ---- (6) SaveVersion hashes the saved root
	if f := c.MustFunc(P + "(*MutableTree).SaveVersion"); f != nil {
		g := f.Graph()
		info := f.Info()
		sn := f.CallsTo(P + "(*MutableTree).saveNode")
		n := 0
		for _, sr := range f.CallsTo(P + "(*nodeDB).SaveRoot") {
			if len(sr.Call.Args) != 3 || isNil(sr.Call.Args[1]) {
				continue
			}
			n++
			// the hash is taken from t.root after saveNode ran (saveNode never runs after it) and feeds SaveRoot
			okDom := len(sn) == 1
			okHash := false
			ho := engine.ObjOf(info, sr.Call.Args[2])
			for _, h := range f.CallsTo(P + "(Node).Hash") {
				if len(sn) == 1 && g.Dominates(h, sr) && engine.MentionsName(h.Call.Fun, "root") && g.ReachableAfter(sn[0], h) && !g.ReachableAfter(h, sn[0]) {
					okHash = ho != nil
				}
			}
			c.Check("saved-hash", f.Name+" SaveRoot records the hash of the root after saveNode", sr.Pos(), okDom && okHash, "the persisted root hash must be t.root.Hash() taken after the dirty nodes were re-hashed and saved")
		}
		c.Floor("saved-hash", n, 1)
	}
	tgDebug(c)
}

// tgReturnMentions: some return statement of f mentions o (directly or inside
// a composite literal it returns).
func tgReturnMentions(f *engine.Fn, o types.Object) bool {
	found := false
	engine.InspectBody(f, func(n ast.Node) {
		if r, ok := n.(*ast.ReturnStmt); ok {
			for _, e := range r.Results {
				if engine.Mentions(f.Info(), e, o) {
					found = true
				}
			}
		}
	})
	return found
}

func tgItoa(n int) string {
	if n == 0 {
		return "0"
	}
	s := ""
	for n > 0 {
		s = string(rune('0'+n%10)) + s
		n /= 10
	}
	return s
}
