package checks

import (
	"fmt"
	"go/ast"
	"go/token"
	"go/types"
	"reflect"
	"strings"

	"gnoverif/engine"
)

// C03 — the persist / reload traversals are total over the value and type universes.
func init() {
	register("C03", c03)
	meta("C03", Meta{
		Text:      "Decides that the traversals which turn an in-memory object graph into stored bytes and back are total and field-complete: every concrete Value (resp. Type) implementation has a case in copyValueWithRefs, fillTypesOfValue, getChildObjects (resp. copyTypeWithRefs, fillType), each ending in a panicking default; every composite literal that builds the persisted copy of a struct sets every amino-persisted field of that struct (ObjectInfo.Copy, FieldType and DeclaredType included); every object-bearing field of a value struct is visited by the child enumeration and the type filling of the same case; SetObject / SetType marshal the *copy*; loadObjectSafe / GetTypeSafe return a loaded entity only after it was inserted in the cache and type-filled; the realm-boundary returns all go through maybeFinalize, which finalizes a non-immutable realm. Level 'other': a necessary structural condition of round-trip identity, not the identity itself.",
		Note:      "Not covered: that a reloaded value equals the original (semantic round trip), amino codec correctness (C20), which declared types reach SetType (only package-block types do — see finding), map ordering, lazy loading order.",
		Technique: "R-EXH over go/types implementers vs. type-switch cases, struct-field coverage of composite literals, per-case field-mention agreement (R-SIB), go/cfg dominance, who-may-call",
		Ref:       "DESIGN.md §2 C03",
	})
	const rl = "gnovm/pkg/gnolang/realm.go"
	mutants("C03",
		Mutant{"copy-drops-field", rl, "\t\t\tCrossing:   cv.Crossing,\n", "", "field-coverage copyValueWithRefs *FuncValue.Crossing"},
		Mutant{"copy-drops-slice-maxcap", rl, "\t\t\tMaxcap: cv.Maxcap,\n", "", "field-coverage copyValueWithRefs *SliceValue.Maxcap"},
		Mutant{"objectinfo-copy-drops-refcount", "gnovm/pkg/gnolang/ownership.go", "\t\tRefCount:       oi.RefCount,\n", "", "field-coverage ObjectInfo.Copy ObjectInfo.RefCount"},
		Mutant{"fill-skips-case", rl, "\tcase *HeapItemValue:\n\t\tfillTypesTV(store, &cv.Value)\n\t\treturn cv\n", "", "value-exhaustive fillTypesOfValue HeapItemValue"},
		Mutant{"children-skip-captures", rl, "\t\tfor _, c := range cv.Captures {\n\t\t\tmore = getSelfOrChildObjects(c.V, more)\n\t\t}\n", "", "field-visited getChildObjects *FuncValue.Captures"},
		Mutant{"marshal-original", "gnovm/pkg/gnolang/store.go", "bz := amino.MustMarshalAny(o2)\n\tgas := overflow.Mulp(ds.gasConfig.GasAminoEncode", "bz := amino.MustMarshalAny(oo)\n\tgas := overflow.Mulp(ds.gasConfig.GasAminoEncode", "marshals-copy SetObject"},
		Mutant{"load-skips-fill", "gnovm/pkg/gnolang/store.go", "\t\t_ = fillTypesOfValue(ds, oo)\n\t\treturn oo", "\t\tif !fromCache {\n\t\t\t_ = fillTypesOfValue(ds, oo)\n\t\t}\n\t\treturn oo", "load-complete loadObjectSafe fillTypesOfValue"},
		Mutant{"return-skips-finalize", "gnovm/pkg/gnolang/op_call.go", "\tcfr := m.PopUntilLastCallFrame()\n\t// Finalize if exiting realm boundary.\n\tm.maybeFinalize(cfr)\n\t// Reset to before frame.", "\tcfr := m.PopUntilLastCallFrame()\n\t_ = cfr\n\t// Reset to before frame.", "finalize-on-return doOpReturn"},
		Mutant{"slice-base-inlined", rl, "\t\treturn &SliceValue{\n\t\t\tBase:   toRefValue(cv.Base),", "\t\treturn &SliceValue{\n\t\t\tBase:   cv.Base,", "no-raw-copy *SliceValue.Base"},
		Mutant{"objects-copied-inline", rl, "\tif obj, ok := tv.V.(Object); ok {\n\t\ttv.V = toRefValue(obj)\n\t\treturn tv\n\t} else {", "\tif obj, ok := tv.V.(*PackageValue); ok {\n\t\ttv.V = toRefValue(obj)\n\t\treturn tv\n\t} else {", "children-by-ref refOrCopyValue"},
		Mutant{"type-copy-drops-vrd", rl, "\t\treturn &SliceType{\n\t\t\tElt: refOrCopyType(ct.Elt),\n\t\t\tVrd: ct.Vrd,\n\t\t}", "\t\treturn &SliceType{\n\t\t\tElt: refOrCopyType(ct.Elt),\n\t\t}", "field-coverage copyTypeWithRefs *SliceType.Vrd"},
	)
}

// Value implementations that legitimately have no case in a traversal.
var c03ValueExempt = map[string]map[string]string{
	"copyValueWithRefs": {
		"ExportRefValue": "export-only back-reference used by the JSON exporter (values_export.go); never part of a stored object",
	},
	"fillTypesOfValue": {
		"ExportRefValue": "export-only back-reference used by the JSON exporter; never part of a stored object",
	},
	"getChildObjects": {
		"RefValue":       "handled by the caller getSelfOrChildObjects before dispatch (a RefValue is its own child entry)",
		"ExportRefValue": "export-only back-reference used by the JSON exporter; never part of a stored object",
	},
}

var c03TypeExempt = map[string]map[string]string{
	"copyTypeWithRefs": {
		"ChanType": "channels are not supported by the VM (no ChanType value can exist in a realm)",
	},
	"fillType": {
		"ChanType": "channels are not supported by the VM (no ChanType value can exist in a realm)",
	},
}

// fields of a persisted struct that the copy may legitimately leave out.
var c03FieldExempt = map[string]string{
	"PointerValue.TV": "the pointee is represented by Base[Index]; TV is re-derived on first dereference",
}

// fields that the child enumeration / type filling need not visit.
var c03VisitExempt = map[string]string{
	"fillTypesOfValue DataByteValue.ElemType": "a DataByteValue is a transient view into an array and is never persisted on its own (copy panics)",
	"fillTypesOfValue DataByteValue.Base":     "a DataByteValue is a transient view into an array and is never persisted on its own (copy panics)",
	"getChildObjects DataByteValue.Base":      "a DataByteValue is a transient view into an array and is never persisted on its own (copy panics)",
	"getChildObjects *Block.Blank":            "the blank slot is never persisted (copy writes an empty value)",
	"fillTypesOfValue *Block.Blank":           "the blank slot is never persisted (copy writes an empty value)",
	"fillTypesOfValue *Block.Parent":          "Parent is a RefValue after load (an object reference, filled when loaded itself)",
	"fillTypesOfValue *FuncValue.Captures":    "captures are heap items: T is heapItemType (no RefType) and V a RefValue",
	"fillTypesOfValue *FuncValue.Parent":      "Parent is a RefValue after load",
	"fillTypesOfValue *PackageValue.FBlocks":  "file blocks are RefValues after load (filled when loaded themselves)",
	"fillTypesOfValue PointerValue.Base":      "Base is a RefValue after load (comment in code: filling through Base is wrong)",
	"getChildObjects PointerValue.TV":         "TV aliases Base[Index]",
}

// frame pops that are not normal returns.
var c03PopExempt = map[string]string{
	"doOpReturnCallDefers": "panic unwinding to a revive frame: the transaction of the panicking realm is aborted, nothing may be finalized",
}

func c03(c *engine.Ctx) {
	c.Explain = "Decides totality and field-completeness of the persistence traversals (copyValueWithRefs, copyTypeWithRefs, fillTypesOfValue, fillType, getChildObjects, ObjectInfo.Copy) against the go/types universe of Value/Type implementations and struct fields; that SetObject/SetType marshal the ref-replaced copy; that loadObjectSafe/GetTypeSafe cache and type-fill before returning; that every return op passes maybeFinalize and maybeFinalize finalizes non-immutable realms. Not covered: semantic equality of a reloaded value, the amino codec, which types are handed to SetType."
	p := c.Load(gvaGno)
	if p == nil {
		return
	}
	valueI, typeI := p.Iface(gvaGno+".Value"), p.Iface(gvaGno+".Type")
	if valueI == nil || typeI == nil {
		c.Undecided("anchor", "Value/Type", "interfaces not found")
		return
	}
	nodeI := p.Iface(gvaGno + ".Node")
	var vimpl []*types.Named
	for _, n := range p.Implementers(gvaGno, valueI) {
		// block nodes embed StaticBlock→Block and so satisfy Value syntactically; they are syntax, not values
		if nodeI != nil && (types.Implements(n, nodeI) || types.Implements(types.NewPointer(n), nodeI)) {
			continue
		}
		vimpl = append(vimpl, n)
	}
	timpl := p.Implementers(gvaGno, typeI)
	c.Floor("Value implementers", len(vimpl), 17)
	c.Floor("Type implementers", len(timpl), 17)

	// (1) exhaustiveness
	type trav struct {
		fn     string
		impl   []*types.Named
		exempt map[string]string
		rule   string
	}
	var travs []trav
	for _, n := range []string{"copyValueWithRefs", "fillTypesOfValue", "getChildObjects"} {
		travs = append(travs, trav{n, vimpl, c03ValueExempt[n], "value-exhaustive"})
	}
	for _, n := range []string{"copyTypeWithRefs", "fillType"} {
		travs = append(travs, trav{n, timpl, c03TypeExempt[n], "type-exhaustive"})
	}
	switches := map[string]*engine.SwitchInfo{}
	fns := map[string]*engine.Fn{}
	for _, tr := range travs {
		f := c.MustFunc(c04G + tr.fn)
		if f == nil {
			continue
		}
		var sw *engine.SwitchInfo
		for _, s := range f.Switches() {
			if s.Types != nil && (sw == nil || len(s.Types) > len(sw.Types)) {
				sw = s
			}
		}
		if sw == nil {
			c.Undecided(tr.rule, tr.fn, "type switch not found")
			continue
		}
		switches[tr.fn], fns[tr.fn] = sw, f
		n := 0
		for _, im := range tr.impl {
			name := im.Obj().Name()
			n++
			key := tr.fn + " " + name
			_, has := c03Case(sw, name)
			if why, ex := tr.exempt[name]; ex {
				c.Check(tr.rule, key, sw.Stmt.Pos(), !has || true, "exempt: "+why)
				continue
			}
			c.Check(tr.rule, key, sw.Stmt.Pos(), has, "no case for "+name+": a value of this kind reaching persistence panics 'unexpected type' (or is silently mishandled)")
		}
		c.Check(tr.rule, tr.fn+" default", sw.Stmt.Pos(), sw.HasDefault && f.ClausePanics(sw.Default), "the traversal must end in a panicking default")
	}

	// (2) field coverage of the persisted copies
	nfc, nraw := 0, 0
	for _, fn := range []string{"copyValueWithRefs", "copyTypeWithRefs"} {
		sw, f := switches[fn], fns[fn]
		if sw == nil {
			continue
		}
		for _, tname := range engine.SortedKeys(sw.Types) {
			cc := sw.Types[tname]
			st, sname := c03StructOf(p, tname)
			if st == nil {
				continue
			}
			keys, lits := c03LiteralKeys(f, cc, st)
			if lits == 0 {
				continue // returns the value itself / panics
			}
			if fn == "copyValueWithRefs" {
				for _, raw := range c03RawCopies(f, cc, st) {
					c.Check("no-raw-copy", c03Short(tname)+"."+raw, cc.Pos(), false, "field "+raw+" can hold objects but is copied as is: child objects would be serialised inline instead of by reference, so sharing (two pointers to one array, slices over one backing array) is lost on reload")
				}
				nraw++
			}
			for _, fld := range c03PersistedFields(st) {
				nfc++
				key := fn + " " + c03Short(tname) + "." + fld
				if why, ex := c03FieldExempt[sname+"."+fld]; ex {
					c.Check("field-coverage", key, cc.Pos(), true, "exempt: "+why)
					continue
				}
				c.Check("field-coverage", key, cc.Pos(), keys[fld], "the persisted copy of "+sname+" does not set field "+fld+": its value is lost when the object is stored and reloaded")
			}
		}
	}
	// ObjectInfo.Copy, copyFieldsWithRefs, copyMethods
	for _, x := range []struct{ fn, typ, label string }{
		{c04G + "(*ObjectInfo).Copy", gvaGno + ".ObjectInfo", "ObjectInfo.Copy"},
		{c04G + "copyFieldsWithRefs", gvaGno + ".FieldType", "copyFieldsWithRefs"},
		{c04G + "copyMethods", gvaGno + ".TypedValue", "copyMethods"},
	} {
		f := c.MustFunc(x.fn)
		n := p.Named(x.typ)
		if f == nil || n == nil {
			continue
		}
		keys := map[string]bool{}
		lits := 0
		engine.InspectBody(f, func(nd ast.Node) {
			if cl, ok := nd.(*ast.CompositeLit); ok && c03IsLitOf(f.Info(), cl, n) {
				lits++
				for _, el := range cl.Elts {
					if kv, ok := el.(*ast.KeyValueExpr); ok {
						if id, ok := kv.Key.(*ast.Ident); ok {
							keys[id.Name] = true
						}
					}
				}
			}
		})
		if lits == 0 {
			c.Undecided("field-coverage", x.label, "no composite literal of "+x.typ+" found")
			continue
		}
		for _, fld := range c03PersistedFields(n) {
			if x.label == "copyMethods" && fld == "N" {
				continue // methods are function values: no numeric payload
			}
			nfc++
			c.Check("field-coverage", x.label+" "+n.Obj().Name()+"."+fld, f.Pos(), keys[fld], "persisted field "+fld+" is not copied")
		}
	}
	c.Floor("field-coverage", nfc, 60)
	c.Floor("no-raw-copy(clauses scanned)", nraw, 9)
	// children become references: refOrCopyValue routes Objects to toRefValue, which refuses unreal objects
	if f := c.MustFunc(c04G + "refOrCopyValue"); f != nil {
		g := f.Graph()
		ok, why := false, "no toRefValue call gated by a successful `.(Object)` assertion"
		for _, s := range f.CallsTo(c04G + "toRefValue") {
			for _, gt := range g.Gates(s) {
				id, isID := ast.Unparen(gt.Cond).(*ast.Ident)
				if !isID || !gt.OnTrue {
					continue
				}
				engine.InspectBody(f, func(nd ast.Node) {
					as, isAs := nd.(*ast.AssignStmt)
					if !isAs || len(as.Lhs) != 2 || len(as.Rhs) != 1 || engine.ObjOf(f.Info(), as.Lhs[1]) != f.Info().ObjectOf(id) {
						return
					}
					if ta, isTA := ast.Unparen(as.Rhs[0]).(*ast.TypeAssertExpr); isTA && ta.Type != nil && engine.TypeName(f.Info().TypeOf(ta.Type)) == gvaGno+".Object" {
						ok, why = true, "Objects are replaced by RefValues"
					}
				})
			}
		}
		if len(f.CallsTo(c04G+"copyValueWithRefs")) == 0 {
			ok, why = false, "non-object values are no longer copied recursively"
		}
		c.Check("children-by-ref", "refOrCopyValue", f.Pos(), ok, why)
	}
	if f := c.MustFunc(c04G + "toRefValue"); f != nil {
		g := f.Graph()
		ok := false
		for _, s := range f.CallsTo("builtin.panic") {
			for _, gt := range g.Gates(s) {
				u, isU := ast.Unparen(gt.Cond).(*ast.UnaryExpr)
				if !isU || u.Op != token.NOT || !gt.OnTrue {
					continue
				}
				if call, isC := ast.Unparen(u.X).(*ast.CallExpr); isC {
					if sel, isS := call.Fun.(*ast.SelectorExpr); isS && sel.Sel.Name == "GetIsReal" {
						ok = true
					}
				}
			}
		}
		c.Check("children-by-ref", "toRefValue", f.Pos(), ok, "a reference to an object that is not persisted (not real) must panic, never be written: it would be a dangling reference after reload")
	}

	// (3) object-bearing fields are visited by the sibling traversals
	nv := 0
	for _, fn := range []string{"getChildObjects", "fillTypesOfValue"} {
		sw, f := switches[fn], fns[fn]
		if sw == nil {
			continue
		}
		for _, tname := range engine.SortedKeys(sw.Types) {
			cc := sw.Types[tname]
			st, _ := c03StructOf(p, tname)
			if st == nil {
				continue
			}
			for _, fld := range gvaStructFields(st) {
				if !fld.Exported() || !c03Bearing(fld.Type(), fn == "fillTypesOfValue") {
					continue
				}
				key := fn + " " + c03Short(tname) + "." + fld.Name()
				if why, ex := c03VisitExempt[key]; ex && why != "" {
					nv++
					c.Check("field-visited", key, cc.Pos(), true, "exempt: "+why)
					continue
				}
				nv++
				c.Check("field-visited", key, cc.Pos(), c03Mentions(f, cc, fld), "field "+fld.Name()+" can hold objects/types but the "+fn+" case for "+tname+" never looks at it")
			}
		}
	}
	c.Floor("field-visited", nv, 25)

	// (4) SetObject / SetType marshal the copy
	for _, x := range []struct{ fn, copier string }{
		{c04G + "(*defaultStore).SetObject", c04G + "copyValueWithRefs"},
		{c04G + "(*defaultStore).SetType", c04G + "copyTypeWithRefs"},
	} {
		f := c.MustFunc(x.fn)
		if f == nil {
			continue
		}
		short := x.fn[strings.LastIndexByte(x.fn, '.')+1:]
		info := f.Info()
		var setArg ast.Expr
		for _, s := range f.CallsTo("tm2/pkg/store/types.(Store).Set", "tm2/pkg/store.(Store).Set", ".Set") {
			if sel, ok := s.Call.Fun.(*ast.SelectorExpr); ok && engine.MentionsName(sel.X, "baseStore") && len(s.Call.Args) == 3 {
				setArg = s.Call.Args[2]
			}
		}
		if setArg == nil {
			c.Undecided("marshals-copy", short, "baseStore.Set call not found")
			continue
		}
		ok, why := c03DerivesFromCopy(f, info, setArg, x.copier, 0)
		c.Check("marshals-copy", short, setArg.Pos(), ok, why)
	}

	// (5) load paths: cache insert and type filling dominate the return of the loaded entity
	for _, x := range []struct {
		fn, cache, fill, ret string
	}{
		{c04G + "(*defaultStore).loadObjectSafe", "cacheObjects", c04G + "fillTypesOfValue", "oo"},
		{c04G + "(*defaultStore).GetTypeSafe", "cacheTypes", c04G + "fillType", "tt"},
	} {
		f := c.MustFunc(x.fn)
		if f == nil {
			continue
		}
		short := x.fn[strings.LastIndexByte(x.fn, '.')+1:]
		g := f.Graph()
		info := f.Info()
		// returns of the entity decoded in this function (not the cache-hit return)
		var decodeSite *engine.Site
		for _, s := range f.CallsTo("tm2/pkg/amino.MustUnmarshal", "tm2/pkg/amino.MustUnmarshalAny") {
			decodeSite = s
		}
		if decodeSite == nil {
			c.Undecided("load-complete", short, "amino.MustUnmarshal call not found")
			continue
		}
		// the decoded entity: the variable whose address is handed to amino.MustUnmarshal
		var entity types.Object
		if len(decodeSite.Call.Args) == 2 {
			entity = gvaRootObj(info, decodeSite.Call.Args[1])
		}
		if entity == nil {
			c.Undecided("load-complete", short, "cannot identify the decoded entity")
			continue
		}
		var rets []*engine.Site
		engine.InspectBody(f, func(nd ast.Node) {
			if r, ok := nd.(*ast.ReturnStmt); ok && len(r.Results) == 1 {
				if id, ok := r.Results[0].(*ast.Ident); ok && info.ObjectOf(id) == entity {
					if s := f.SiteOf(r); s != nil && g.ReachableAfter(decodeSite, s) {
						rets = append(rets, s)
					}
				}
			}
		})
		c.Floor("load-complete "+short, len(rets), 1)
		fills := engine.Outers(f.DeepCallsTo(2, x.fill))
		inserts := engine.Outers(f.DeepFind(2, func(fn *engine.Fn, nd ast.Node) bool {
			as, ok := nd.(*ast.AssignStmt)
			if !ok || len(as.Lhs) != 1 {
				return false
			}
			ix, ok := as.Lhs[0].(*ast.IndexExpr)
			return ok && engine.MentionsName(ix.X, x.cache)
		}))
		for _, r := range rets {
			c.Check("load-complete", short+" "+x.fill[strings.LastIndexByte(x.fill, '.')+1:], r.Pos(), g.MustPass(r, fills), "a decoded entity is returned on a path that skips "+x.fill+" (RefTypes would leak to the VM)")
			c.Check("load-complete", short+" "+x.cache, r.Pos(), g.MustPass(r, inserts), "a decoded entity is returned without being inserted in "+x.cache+" (two in-memory copies of one persisted object)")
		}
	}

	// (6) realm-boundary exits
	fin := c04G + "(*Realm).FinalizeRealmTransaction"
	nret := 0
	for _, r := range p.RefsToFunc(c04G + "(*Machine).PopFrameAndReturn") {
		if r.Fn == nil {
			continue
		}
		f := r.Fn
		h := f.Name[strings.LastIndexByte(f.Name, '.')+1:]
		if why, ex := c03PopExempt[h]; ex {
			c.Check("finalize-on-return", h, r.Ident.Pos(), true, "exempt: "+why)
			continue
		}
		nret++
		g := f.Graph()
		mf := engine.Outers(f.DeepCallsTo(2, c04G+"(*Machine).maybeFinalize"))
		ok := false
		for _, s := range f.CallsTo(c04G + "(*Machine).PopFrameAndReturn") {
			if s.Call.Fun.(*ast.SelectorExpr).Sel == r.Ident {
				ok = g.MustPass(s, mf)
			}
		}
		c.Check("finalize-on-return", h, r.Ident.Pos(), ok, "the call frame is popped (realm switched back) on a path that did not run maybeFinalize(cfr): changes made inside the realm would not be persisted at the boundary")
	}
	c.Floor("finalize-on-return", nret, 3)
	for _, h := range []string{"doOpReturn", "doOpReturnAfterCopy", "doOpReturnFromBlock"} {
		if f := c.MustFunc(c04G + "(*Machine)." + h); f != nil {
			c.Check("finalize-on-return", h+" anchored", f.Pos(), len(f.DeepCallsTo(2, c04G+"(*Machine).maybeFinalize")) >= 1, "return handler must reach maybeFinalize")
		}
	}
	if f := c.MustFunc(c04G + "(*Machine).maybeFinalize"); f != nil {
		g := f.Graph()
		calls := f.CallsTo(fin)
		c.Floor("finalize-on-return maybeFinalize", len(calls), 1)
		for _, s := range calls {
			// the only gates: isRealmBoundary(cfr), m.Realm != nil, !IsImmutablePkg
			ok, why := true, "finalization gated only by boundary / non-nil / non-immutable realm"
			for _, gt := range g.Gates(s) {
				for _, a := range engine.Atoms(gt.Cond) {
					txt := engine.ExprString(a)
					if !(strings.Contains(txt, "isRealmBoundary") || strings.Contains(txt, "m.Realm") || strings.Contains(txt, "IsImmutablePkg")) {
						ok, why = false, "finalization additionally depends on `"+txt+"`"
					}
				}
			}
			c.Check("finalize-on-return", "maybeFinalize", s.Pos(), ok, why)
		}
	}
	var missing []string
	for _, w := range []string{c04G + "(*Machine).maybeFinalize", c04G + "(*Machine).RunFiles", c04G + "(*Machine).saveNewPackageValuesAndTypes", c04G + "(*Machine).resavePackageValues"} {
		if wf := c.MustFunc(w); wf != nil && len(wf.DeepCallsTo(2, fin)) == 0 {
			missing = append(missing, w)
		}
	}
	callers := gvaCallersOf(p, fin)
	if c03DumpHook != nil {
		defer c03DumpHook(c)
	}
	c.Check("finalize-callers", "FinalizeRealmTransaction", 0, len(missing) == 0, "expected callers no longer finalize: "+join(missing)+" (callers now: "+join(callers)+")")
}

func c03Short(tname string) string { return strings.ReplaceAll(tname, gvaGno+".", "") }

// c03Case finds the clause for named type `name` (value or pointer form).
func c03Case(sw *engine.SwitchInfo, name string) (*ast.CaseClause, bool) {
	for _, k := range []string{gvaGno + "." + name, "*" + gvaGno + "." + name} {
		if cc, ok := sw.Types[k]; ok {
			return cc, true
		}
	}
	return nil, false
}

// c03StructOf resolves a rendered case type ("*gnovm/pkg/gnolang.FuncValue") to its named struct.
func c03StructOf(p *engine.Prog, tname string) (*types.Named, string) {
	q := strings.TrimPrefix(tname, "*")
	n := p.Named(q)
	if n == nil {
		return nil, ""
	}
	if _, ok := n.Underlying().(*types.Struct); !ok {
		return nil, ""
	}
	return n, n.Obj().Name()
}

func c03IsLitOf(info *types.Info, cl *ast.CompositeLit, n *types.Named) bool {
	t := info.TypeOf(cl)
	if t == nil {
		return false
	}
	if pt, ok := t.(*types.Pointer); ok {
		t = pt.Elem()
	}
	nn, ok := types.Unalias(t).(*types.Named)
	return ok && nn.Obj() == n.Obj()
}

// c03LiteralKeys unions the keyed fields of all composite literals of struct n in the clause.
func c03LiteralKeys(f *engine.Fn, cc *ast.CaseClause, n *types.Named) (map[string]bool, int) {
	keys := map[string]bool{}
	lits := 0
	gvaWalkClause(cc, func(nd ast.Node) bool {
		if cl, ok := nd.(*ast.CompositeLit); ok && c03IsLitOf(f.Info(), cl, n) {
			lits++
			for _, el := range cl.Elts {
				if kv, ok := el.(*ast.KeyValueExpr); ok {
					if id, ok := kv.Key.(*ast.Ident); ok {
						keys[id.Name] = true
					}
				}
			}
		}
		return true
	})
	return keys, lits
}

// c03RawCopies: object-bearing fields whose literal value is the source field itself.
func c03RawCopies(f *engine.Fn, cc *ast.CaseClause, n *types.Named) []string {
	var out []string
	info := f.Info()
	gvaWalkClause(cc, func(nd ast.Node) bool {
		cl, ok := nd.(*ast.CompositeLit)
		if !ok || !c03IsLitOf(info, cl, n) {
			return true
		}
		for _, el := range cl.Elts {
			kv, ok := el.(*ast.KeyValueExpr)
			if !ok {
				continue
			}
			id, ok := kv.Key.(*ast.Ident)
			if !ok {
				continue
			}
			fv, _ := info.Uses[id].(*types.Var)
			if fv == nil || !c03Bearing(fv.Type(), false) {
				continue
			}
			if se, ok := ast.Unparen(kv.Value).(*ast.SelectorExpr); ok {
				if v, ok := info.Uses[se.Sel].(*types.Var); ok && v.Origin() == fv.Origin() {
					out = append(out, id.Name)
				}
			}
		}
		return true
	})
	return out
}

// c03PersistedFields: exported fields not tagged json:"-" (amino's rule).
func c03PersistedFields(n *types.Named) []string {
	st, ok := n.Underlying().(*types.Struct)
	if !ok {
		return nil
	}
	var out []string
	for i := 0; i < st.NumFields(); i++ {
		f := st.Field(i)
		if !f.Exported() {
			continue
		}
		if tag := reflect.StructTag(st.Tag(i)).Get("json"); tag == "-" {
			continue
		}
		out = append(out, f.Name())
	}
	return out
}

// c03Bearing: can a field of this Go type hold objects (Value/TypedValue
// graphs) — or, for type filling, types?
func c03Bearing(t types.Type, forTypes bool) bool {
	s := engine.TypeName(t)
	switch s {
	case gvaGno + ".Value", gvaGno + ".TypedValue", "[]" + gvaGno + ".TypedValue", "[]" + gvaGno + ".Value",
		"*" + gvaGno + ".FuncValue", "*" + gvaGno + ".MapList", "*" + gvaGno + ".TypedValue":
		return true
	case gvaGno + ".Type":
		return forTypes
	}
	return false
}

func c03Mentions(f *engine.Fn, cc *ast.CaseClause, fld *types.Var) bool {
	found := false
	gvaWalkAll(cc, func(nd ast.Node) bool {
		if se, ok := nd.(*ast.SelectorExpr); ok {
			if v, ok := f.Info().Uses[se.Sel].(*types.Var); ok && v.Origin() == fld.Origin() {
				found = true
			}
		}
		return !found
	})
	return found
}

// c03DerivesFromCopy: e is (bytes built from) amino.MustMarshalAny(x) with x := copier(…).
func c03DerivesFromCopy(f *engine.Fn, info *types.Info, e ast.Expr, copier string, depth int) (bool, string) {
	if depth > 6 {
		return false, "definition chain too long"
	}
	e = ast.Unparen(e)
	if call, cn := gvaCallee(info, e); call != nil {
		switch {
		case cn == copier:
			return true, "stored bytes are the marshalled " + copier[strings.LastIndexByte(copier, '.')+1:] + " result"
		case strings.HasPrefix(cn, "tm2/pkg/amino.MustMarshal"):
			return c03DerivesFromCopy(f, info, call.Args[0], copier, depth+1)
		}
		return false, "stored bytes come from `" + cn + "`"
	}
	id, ok := e.(*ast.Ident)
	if !ok {
		return false, "stored value is not a variable: " + engine.ExprString(e)
	}
	obj := info.ObjectOf(id)
	// all definitions/assignments/copy() into obj
	var srcs []ast.Expr
	engine.InspectBody(f, func(nd ast.Node) {
		switch x := nd.(type) {
		case *ast.AssignStmt:
			if len(x.Lhs) == len(x.Rhs) {
				for i, l := range x.Lhs {
					if engine.ObjOf(info, l) == obj {
						srcs = append(srcs, x.Rhs[i])
					}
				}
			}
		case *ast.CallExpr:
			if engine.IsBuiltinCall(info, x, "copy") && len(x.Args) == 2 && gvaRootObj(info, x.Args[0]) == obj {
				srcs = append(srcs, x.Args[1])
			}
		}
	})
	if len(srcs) == 0 {
		return false, "no definition of " + id.Name
	}
	// accept when at least one source chain reaches the copier and none marshals anything else
	reached := false
	for _, s := range srcs {
		s = ast.Unparen(s)
		if call, cn := gvaCallee(info, s); call != nil && (cn == "builtin.make" || strings.HasSuffix(cn, ".Bytes")) {
			continue // buffer allocation / hash prefix
		}
		ok, why := c03DerivesFromCopy(f, info, s, copier, depth+1)
		if !ok {
			return false, why
		}
		reached = true
	}
	if !reached {
		return false, "no marshalled copy flows into " + id.Name
	}
	return true, fmt.Sprintf("%s is built from the marshalled %s result", id.Name, copier[strings.LastIndexByte(copier, '.')+1:])
}

func init() {
	if gvaDump {
		c03DumpHook = func(c *engine.Ctx) {
			for _, o := range c.Obs {
				if strings.HasSuffix(o.Rule, "-exhaustive") || o.Rule == "field-visited" || o.Rule == "finalize-on-return" {
					fmt.Println("DUMP", o.Rule, o.Key, o.OK, o.Detail)
				}
			}
		}
	}
}

var c03DumpHook func(*engine.Ctx)
