package checks

import (
	"fmt"
	"go/ast"
	"go/token"
	"go/types"
	"reflect"
	"strings"

	"gnoverif/engine"
)

// C53 — genesis application: the in-memory and the streaming path are the same
// procedure over two representations.
func init() {
	register("C53", c53)
	meta("C53", Meta{
		Text:      "Decides that applyStreamingAppState is the same procedure as applyInMemoryAppState over another representation: (same-effects) the ordered sequence of state-affecting steps (calls through the InitChainerConfig receiver, its keepers and the replay report) is identical; (same-validation) every validator the in-memory path runs before its first state-affecting step, with an error return, is also run — before the first state-affecting step and with an error return — by the streaming path, and every parameter the in-memory path tests before mutating is tested by the streaming path too; (field-coverage) every field of GnoGenesisState the in-memory path reads is read by the streaming path through the matching iterator or through the small-field key equal to the field's JSON name; (representation-blind) any type test on the genesis AppState in the package handles both representations; (deterministic) the InitChainer call tree contains no map iteration and uses the wall clock only for log output. Level 'other': sibling agreement of code shape is a necessary condition of representation independence.",
		Note:      "Not covered: equality of the decoded values (amino JSON round trip of balances/txs/small fields), determinism of the VM and keepers (C01), the cache writer that splits the genesis file. Known finding on today's tree: the streaming path skips validateSignerInfo and the InitialHeight check, validates gas_replay_mode only after mutating state, and shouldAssertValoperCoverage ignores a streamed genesis (confirmed by running both modes).",
		Technique: "R-SIB ordered callee sequence with a difference table (decoding steps), dominance of validators over the first effect, struct-field/JSON-key coverage, type-switch exhaustiveness, R-DET site scan",
		Ref:       "DESIGN.md §2 C53",
	})
	mutants("C53",
		Mutant{"streaming-skips-supply-seed", "gno.land/pkg/gnoland/app.go", "\t\tcfg.applyBalance(ctx, bal)\n\t}\n\tcfg.seedSupply(ctx)\n\tcfg.acck.InitGenesis(ctx, authState)", "\t\tcfg.applyBalance(ctx, bal)\n\t}\n\tcfg.acck.InitGenesis(ctx, authState)", "same-effects gno.land/pkg/gnoland.(InitChainerConfig).seedSupply"},
		Mutant{"streaming-reorders-auth-vm", "gno.land/pkg/gnoland/app.go", "\tcfg.acck.InitGenesis(ctx, authState)\n\tcfg.applyUnrestrictedAddrs(ctx, authState.Params.UnrestrictedAddrs)\n\tcfg.vmk.InitGenesis(ctx, vmState)", "\tcfg.vmk.InitGenesis(ctx, vmState)\n\tcfg.acck.InitGenesis(ctx, authState)\n\tcfg.applyUnrestrictedAddrs(ctx, authState.Params.UnrestrictedAddrs)", "same-effects order"},
		Mutant{"streaming-wrong-small-field-key", "gno.land/pkg/gnoland/app.go", "ref.SmallField(\"past_chain_ids\")", "ref.SmallField(\"past_chainids\")", "field-coverage gno.land/pkg/gnoland.GnoGenesisState.PastChainIDs"},
		Mutant{"streaming-drops-strict-replay", "gno.land/pkg/gnoland/app.go", "\t\tresp, _ := cfg.deliverGenesisTx(ctx, txIdx, tx, pastChainIDs, gasReplayMode, report)\n\t\ttxResponses = append(txResponses, resp)\n\t\ttxIdx++\n\t}\n\n\treport.emit(ctx.Logger())\n\n\tif cfg.StrictReplay {", "\t\tresp, _ := cfg.deliverGenesisTx(ctx, txIdx, tx, pastChainIDs, gasReplayMode, report)\n\t\ttxResponses = append(txResponses, resp)\n\t\ttxIdx++\n\t}\n\n\treport.emit(ctx.Logger())\n\n\tif false {", "same-effects gno.land/pkg/gnoland.(*replayReport).FailedCount"},
		Mutant{"inmemory-gains-unmirrored-validation", "gno.land/pkg/gnoland/app.go", "\tif err := validateSignerInfo(state); err != nil {\n\t\treturn nil, err\n\t}\n\n\tif len(state.PastChainIDs) > 0 {", "\tif err := validateSignerInfo(state); err != nil {\n\t\treturn nil, err\n\t}\n\tif err := ValidateGenState(state); err != nil {\n\t\treturn nil, err\n\t}\n\n\tif len(state.PastChainIDs) > 0 {", "same-validation gno.land/pkg/gnoland.ValidateGenState"},
		Mutant{"map-iteration-in-genesis", "gno.land/pkg/gnoland/app.go", "\tfor _, addr := range addrs {\n\t\tacc := cfg.acck.GetAccount(ctx, addr)", "\tseen := map[crypto.Address]bool{}\n\tfor _, addr := range addrs {\n\t\tseen[addr] = true\n\t}\n\tfor addr := range seen {\n\t\tacc := cfg.acck.GetAccount(ctx, addr)", "deterministic gno.land/pkg/gnoland.(InitChainerConfig).applyUnrestrictedAddrs"},
		Mutant{"loadappstate-drops-streaming-case", "gno.land/pkg/gnoland/app.go", "\tcase *GenesisStateRef:\n\t\treturn cfg.applyStreamingAppState(ctx, state)\n", "", "representation-blind gno.land/pkg/gnoland.(InitChainerConfig).loadAppState"},
	)
}

const c53Pkg = "gno.land/pkg/gnoland"

// c53KeyParam: a decoding helper of the streaming path is a package function that
// reads a small field of the genesis envelope under a key its caller supplies
// (decodeSmallField and any similar helper). It returns the index of that key
// parameter, or -1. Such helpers are decoding steps, not validators of the content.
func c53KeyParam(p *engine.Prog, fo *types.Func, depth int) int {
	fn := p.FnOf(fo)
	if fn == nil || fn.Decl == nil || depth < 0 {
		return -1
	}
	info := fn.Info()
	for _, s := range fn.Calls() {
		ki := -1
		if s.CalleeName() == c53Pkg+".(*GenesisStateRef).SmallField" {
			ki = 0
		} else if g, ok := s.Callee.(*types.Func); ok && g != fo && g.Pkg() == fo.Pkg() {
			ki = c53KeyParam(p, g, depth-1)
		}
		if ki < 0 || ki >= len(s.Call.Args) {
			continue
		}
		ko := engine.ObjOf(info, s.Call.Args[ki])
		for i := 0; ; i++ {
			po := paramObj(fn, i)
			if po == nil {
				break
			}
			if po == ko {
				return i
			}
		}
	}
	return -1
}

// streaming-side functions that are the counterpart of an in-memory function
var c53Twins = map[string]string{
	c53Pkg + ".validateSignerInfoStreaming": c53Pkg + ".validateSignerInfo",
}

func c53Twin(n string) string {
	if t, ok := c53Twins[n]; ok {
		return t
	}
	return n
}

type c53Step struct {
	name string
	site *engine.Site
}

// c53Effects lists, in source order, the state-affecting steps of f: calls whose
// receiver expression is rooted at the InitChainerConfig receiver, calls on the
// replay report, and the report constructor. Consecutive repeats are kept once.
func c53Effects(f *engine.Fn) []c53Step {
	info := f.Info()
	recv := ceRecvObj(f)
	var out []c53Step
	sites := append([]*engine.Site{}, f.Calls()...)
	// source order
	for i := 1; i < len(sites); i++ {
		for j := i; j > 0 && sites[j].Pos() < sites[j-1].Pos(); j-- {
			sites[j], sites[j-1] = sites[j-1], sites[j]
		}
	}
	for _, s := range sites {
		name := s.CalleeName()
		isEffect := false
		if se, ok := ast.Unparen(s.Call.Fun).(*ast.SelectorExpr); ok {
			root := se.X
			for {
				if x, ok := ast.Unparen(root).(*ast.SelectorExpr); ok {
					root = x.X
					continue
				}
				break
			}
			if id, ok := ast.Unparen(root).(*ast.Ident); ok && recv != nil && info.ObjectOf(id) == recv {
				isEffect = true
			}
			if strings.HasPrefix(name, c53Pkg+".(*replayReport).") {
				isEffect = true
			}
		}
		if name == c53Pkg+".newReplayReport" {
			isEffect = true
		}
		if !isEffect || name == "" {
			continue
		}
		if len(out) > 0 && out[len(out)-1].name == name {
			continue
		}
		out = append(out, c53Step{name, s})
	}
	return out
}

// c53Validators lists calls to package-level functions of gnoland whose only
// result is error (content validators), excluding the decoding helpers.
func c53Validators(f *engine.Fn) []c53Step {
	var out []c53Step
	for _, s := range f.Calls() {
		fo, ok := s.Callee.(*types.Func)
		if !ok || fo.Pkg() == nil || engine.Rel(fo.Pkg().Path()) != c53Pkg {
			continue
		}
		sig := fo.Type().(*types.Signature)
		if sig.Recv() != nil || sig.Results().Len() != 1 || sig.Results().At(0).Type().String() != "error" {
			continue
		}
		if c53KeyParam(f.Prog, fo, 2) >= 0 {
			continue // decoding helper (reads an envelope key given by the caller)
		}
		out = append(out, c53Step{s.CalleeName(), s})
	}
	return out
}

// c53Checked: the validator's error is tested and the failing branch leaves the function.
func c53Checked(f *engine.Fn, v, target *engine.Site) (bool, string) {
	g := f.Graph()
	if !g.Dominates(v, target) {
		return false, "does not run before the first state-affecting step on every path"
	}
	r := g.CheckedGuard(v, target)
	if !r.OK {
		return false, "its error result does not stop genesis application before the first state-affecting step"
	}
	return true, "runs and is checked before the first state-affecting step"
}

func c53(c *engine.Ctx) {
	c.Explain = "R-SIB between gnoland's applyInMemoryAppState and applyStreamingAppState: identical ordered sequence of state-affecting steps; every validator and every parameter test the in-memory path performs before its first state-affecting step is performed, checked and placed before the first state-affecting step in the streaming path; every GnoGenesisState field read in memory is read from the stream under the field's JSON key; every type test on the genesis AppState handles both representations; no map iteration and no wall-clock value outside log arguments in the InitChainer call tree. Not covered: value equality of decoded elements, VM/keeper determinism, the cache writer."
	p := c.Load(c53Pkg)
	if p == nil {
		return
	}
	const M = c53Pkg + ".(InitChainerConfig)."
	A := c.MustFunc(M + "applyInMemoryAppState")
	B := c.MustFunc(M + "applyStreamingAppState")
	if A == nil || B == nil {
		return
	}

	// ---- same-effects ----
	ea, eb := c53Effects(A), c53Effects(B)
	c.Floor("same-effects", len(ea), 11)
	inB := map[string]bool{}
	for _, s := range eb {
		inB[s.name] = true
	}
	inA := map[string]bool{}
	for _, s := range ea {
		inA[s.name] = true
		c.Check("same-effects", s.name, s.site.Pos(), inB[s.name], "step of the in-memory path is missing from the streaming path")
	}
	for _, s := range eb {
		if !inA[s.name] {
			c.Check("same-effects", s.name+" (streaming only)", s.site.Pos(), false, "step of the streaming path has no in-memory counterpart")
		}
	}
	seq := func(xs []c53Step) string {
		var ns []string
		for _, x := range xs {
			ns = append(ns, x.name[strings.LastIndexByte(x.name, '.')+1:])
		}
		return strings.Join(ns, " → ")
	}
	sameOrder := len(ea) == len(eb)
	if sameOrder {
		for i := range ea {
			if ea[i].name != eb[i].name {
				sameOrder = false
			}
		}
	}
	c.Check("same-effects", "order", B.Pos(), sameOrder, "in-memory: "+seq(ea)+" | streaming: "+seq(eb))
	// the gates around each shared effect step must test the same cfg fields (e.g. StrictReplay)
	gateFields := func(f *engine.Fn, s *engine.Site) []string {
		m := map[string]bool{}
		recv := ceRecvObj(f)
		for _, gt := range f.Graph().Gates(s) {
			for k := range ceDirectFields(f.Info(), gt.Cond, recv) {
				m[fmt.Sprintf("%s(%v)", k, gt.OnTrue)] = true
			}
		}
		return ceKeys(m)
	}
	byNameB := map[string]*engine.Site{}
	for _, s := range eb {
		byNameB[s.name] = s.site
	}
	for _, s := range ea {
		if sb := byNameB[s.name]; sb != nil {
			ga, gb := gateFields(A, s.site), gateFields(B, sb)
			if len(ga) > 0 || len(gb) > 0 {
				c.Check("same-effects", s.name+" config gates", sb.Pos(), join(ga) == join(gb), "in-memory step gated by config "+join(ga)+"; streaming by "+join(gb))
			}
		}
	}

	// ---- same-validation ----
	if len(ea) > 0 && len(eb) > 0 {
		firstA, firstB := ea[0].site, eb[0].site
		va, vb := c53Validators(A), c53Validators(B)
		nPre := 0
		vbBy := map[string]*engine.Site{}
		for _, v := range vb {
			vbBy[c53Twin(v.name)] = v.site
		}
		vaBy := map[string]bool{}
		for _, v := range va {
			vaBy[v.name] = true
			okA, _ := c53Checked(A, v.site, firstA)
			if !okA {
				continue // not a preflight validator of the in-memory path
			}
			nPre++
			sb := vbBy[v.name]
			if sb == nil {
				c.Check("same-validation", v.name, v.site.Pos(), false, "the in-memory path rejects a genesis failing this validation before touching state; the streaming path never runs it")
				continue
			}
			ok, why := c53Checked(B, sb, firstB)
			c.Check("same-validation", v.name, sb.Pos(), ok, "streaming path: "+why)
		}
		for _, v := range vb {
			if !vaBy[c53Twin(v.name)] {
				c.Check("same-validation", v.name+" (streaming only)", v.site.Pos(), false, "validation has no in-memory counterpart")
			}
		}
		c.Floor("same-validation", nPre, 2)
		// parameter tests before the first effect (e.g. reqInitialHeight)
		nParam := 0
		for i := 2; ; i++ { // 0: ctx, 1: the genesis representation itself
			pa := paramObj(A, i)
			if pa == nil {
				break
			}
			tested := false
			for _, gt := range A.Graph().Gates(firstA) {
				if engine.Mentions(A.Info(), gt.Cond, pa) {
					tested = true
				}
			}
			if !tested {
				continue
			}
			nParam++
			ok, why := false, "the streaming path has no parameter `"+pa.Name()+"`, so it cannot perform the in-memory path's pre-mutation test on it"
			for j := 0; ; j++ {
				pb := paramObj(B, j)
				if pb == nil {
					break
				}
				if pb.Name() == pa.Name() && types.Identical(pb.Type(), pa.Type()) {
					why = "the streaming path never tests `" + pb.Name() + "` before its first state-affecting step"
					for _, gt := range B.Graph().Gates(firstB) {
						if engine.Mentions(B.Info(), gt.Cond, pb) {
							ok, why = true, "tested before the first state-affecting step in both paths"
						}
					}
				}
			}
			c.Check("same-validation", "parameter "+pa.Name(), firstB.Pos(), ok, why)
		}
		c.Floor("same-validation(parameter)", nParam, 1)
	}

	// ---- field-coverage ----
	if gs := p.Named(c53Pkg + ".GnoGenesisState"); gs == nil {
		c.Undecided("anchor", c53Pkg+".GnoGenesisState", "type not found")
	} else {
		st := gs.Underlying().(*types.Struct)
		stateObj := paramObj(A, 1)
		read := ceDirectFields(A.Info(), A.Body, stateObj)
		// keys the streaming path reads: SmallField(key) directly, or through a decoding
		// helper that receives the key (constants evaluated, literal or named)
		keys := map[string]bool{}
		for _, l := range append([]*engine.Fn{B}, B.AllLits()...) {
			for _, s := range l.Calls() {
				ki := -1
				if s.CalleeName() == c53Pkg+".(*GenesisStateRef).SmallField" {
					ki = 0
				} else if g, ok := s.Callee.(*types.Func); ok && g.Pkg() != nil && engine.Rel(g.Pkg().Path()) == c53Pkg {
					ki = c53KeyParam(p, g, 2)
				}
				if ki >= 0 && ki < len(s.Call.Args) {
					if tv, ok := l.Info().Types[s.Call.Args[ki]]; ok && tv.Value != nil {
						keys[strings.Trim(tv.Value.ExactString(), `"`)] = true
					}
				}
			}
		}
		if len(B.DeepCallsTo(2, c53Pkg+".(*GenesisStateRef).IterBalances")) > 0 {
			keys["balances"] = true
		}
		if len(B.DeepCallsTo(2, c53Pkg+".(*GenesisStateRef).IterTxs")) > 0 {
			keys["txs"] = true
		}
		n := 0
		for i := 0; i < st.NumFields(); i++ {
			f := st.Field(i)
			if !read[f.Name()] {
				continue
			}
			n++
			tag := strings.Split(reflect.StructTag(st.Tag(i)).Get("json"), ",")[0]
			if tag == "" {
				tag = f.Name()
			}
			c.Check("field-coverage", c53Pkg+".GnoGenesisState."+f.Name(), f.Pos(), keys[tag],
				"the in-memory path reads this field; the streaming path never reads app_state."+tag+" (keys read: "+join(ceKeys(keys))+")")
		}
		c.Floor("field-coverage", n, 8)
	}

	// ---- representation-blind ----
	{
		gs := p.Named(c53Pkg + ".GnoGenesisState")
		ref := p.Named(c53Pkg + ".GenesisStateRef")
		n := 0
		isGS := func(t types.Type) bool { return gs != nil && types.Identical(t, gs) }
		isRef := func(t types.Type) bool {
			pt, ok := t.(*types.Pointer)
			return ok && ref != nil && types.Identical(pt.Elem(), ref)
		}
		for _, f := range p.FuncsIn(c53Pkg) {
			info := f.Info()
			engine.InspectBody(f, func(nd ast.Node) {
				switch x := nd.(type) {
				case *ast.TypeSwitchStmt:
					hasGS, hasRef := false, false
					for _, cl := range x.Body.List {
						for _, e := range cl.(*ast.CaseClause).List {
							if t := info.TypeOf(e); t != nil {
								hasGS = hasGS || isGS(t)
								hasRef = hasRef || isRef(t)
							}
						}
					}
					if hasGS || hasRef {
						n++
						c.Check("representation-blind", f.Root().Name, x.Pos(), hasGS && hasRef, "type switch on the genesis AppState must handle both GnoGenesisState and *GenesisStateRef")
					}
				case *ast.TypeAssertExpr:
					if x.Type == nil {
						return
					}
					t := info.TypeOf(x.Type)
					if t == nil || !(isGS(t) || isRef(t)) {
						return
					}
					// asserting one representation out of an `any`: the other one is ignored
					if _, isIface := info.TypeOf(x.X).Underlying().(*types.Interface); isIface {
						n++
						other := "*GenesisStateRef"
						if isRef(t) {
							other = "GnoGenesisState"
						}
						c.Check("representation-blind", f.Root().Name, x.Pos(), false, "single-type assertion on the genesis AppState: a genesis delivered as "+other+" takes the other branch")
					}
				}
			})
		}
		c.Floor("representation-blind", n, 2)
	}

	// ---- deterministic ----
	tree := []string{
		M + "InitChainer", M + "loadStdlibs", M + "loadAppState", M + "applyInMemoryAppState", M + "applyStreamingAppState",
		M + "applyBalance", M + "seedSupply", M + "applyUnrestrictedAddrs", M + "installAuthParams", M + "deliverGenesisTx",
		c53Pkg + ".decodeSmallField", c53Pkg + ".validateSignerInfo", c53Pkg + ".assertGenesisValopersConsistent",
		c53Pkg + ".shouldAssertValoperCoverage", c53Pkg + ".validateGasReplayMode",
	}
	if f := p.Func(c53Pkg + ".validateSignerInfoStreaming"); f != nil {
		tree = append(tree, f.Name)
	}
	nDet := 0
	for _, name := range tree {
		f := c.MustFunc(name)
		if f == nil {
			continue
		}
		nDet++
		why := ""
		for _, l := range append([]*engine.Fn{f}, f.AllLits()...) {
			info := l.Info()
			engine.InspectBody(l, func(nd ast.Node) {
				if rs, ok := nd.(*ast.RangeStmt); ok {
					if _, isMap := info.TypeOf(rs.X).Underlying().(*types.Map); isMap {
						why = "iterates a map (`range " + engine.ExprString(rs.X) + "`): iteration order differs between runs"
					}
				}
			})
			for _, s := range l.Calls() {
				switch n := s.CalleeName(); {
				case n == "time.Now":
					// allowed only as `v := time.Now()` with v used solely by time.Since
					as, ok := s.Top.(*ast.AssignStmt)
					good := ok && len(as.Lhs) == 1
					if good {
						v := engine.ObjOf(info, as.Lhs[0])
						ast.Inspect(l.Body, func(x ast.Node) bool {
							id, ok := x.(*ast.Ident)
							if !ok || info.Uses[id] != v {
								return true
							}
							// must be the sole argument of time.Since
							okUse := false
							for _, t := range l.Calls() {
								if t.CalleeName() == "time.Since" && len(t.Call.Args) == 1 && t.Call.Args[0] == ast.Expr(id) {
									okUse = true
								}
							}
							if !okUse {
								good = false
							}
							return true
						})
					}
					if !good {
						why = "wall-clock time flows somewhere other than time.Since"
					}
				case n == "time.Since":
					// must be an argument of a logger call
					inLog := false
					for _, t := range l.Calls() {
						if strings.HasPrefix(t.CalleeName(), "log/slog.(*Logger).") {
							for _, a := range t.Call.Args {
								if a == ast.Expr(s.Call) {
									inLog = true
								}
							}
						}
					}
					if !inLog {
						why = "elapsed wall-clock time is used outside a log call"
					}
				case strings.HasPrefix(n, "math/rand") || strings.HasPrefix(n, "crypto/rand"):
					why = "uses a random source (" + n + ")"
				}
			}
		}
		c.Check("deterministic", name, f.Pos(), why == "", why)
	}
	c.Floor("deterministic", nDet, 15)
	_ = token.NoPos
}
