package checks

import (
	"fmt"
	"go/ast"
	"go/constant"
	"go/token"
	"go/types"
	"strings"

	"gnoverif/engine"
)

// C06 — single-writer and ordering structure of the persisted object graph.
func init() {
	register("C06", c06)
	meta("C06", Meta{
		Text:      "Decides the single-writer and ordering structure on which the persisted-graph invariants rest: the ownership fields of ObjectInfo (RefCount, OwnerID/owner, IsEscaped, isDeleted, Hash) are written only by their one setter, and each setter is called only from the frozen set of realm-finalization functions; reference-count transitions drive the marks through the exact comparisons (escape when count > 1, delete when count == 0, demote when count <= 1, adopt an owner when count == 1, escaped objects lose their owner) on the gated branch; an owner's object id is assigned before it is recorded in a child; FinalizeRealmTransaction runs created → deleted → escaped → dirty-ancestors → save → remove → clear, each exactly once and unconditionally, and clearMarks resets every mark slice; objects are written/deleted in the backend only by SetObject/DelObject, called only by saveObject/removeDeletedObjects; the stored bytes are HashBytes(bz) ‖ bz of one and the same bz, the recorded hash is that hash, loadObjectSafe splits at the same offset, and every backend key namespace has one writer. Level 'other': necessary structure; the counts themselves need the heap.",
		Note:      "Not covered: that RefCount equals the number of persisted references, reachability from a package, absence of dangling references (all behavioural, need the object graph), cross-realm storage accounting (C09).",
		Technique: "who-may-write (syntactic field writes) + who-may-call tables, go/cfg gate-form analysis on refcount comparisons, dominance ordering, value-origin chain for the stored bytes",
		Ref:       "DESIGN.md §2 C06",
	})
	const rl = "gnovm/pkg/gnolang/realm.go"
	mutants("C06",
		Mutant{"escape-threshold", rl, "\t\t\tco.IncRefCount()\n\t\t\tif co.GetRefCount() > 1 {", "\t\t\tco.IncRefCount()\n\t\t\tif co.GetRefCount() > 2 {", "refcount-gate DidUpdate MarkNewEscaped"},
		Mutant{"delete-threshold", rl, "\t\t\txo.DecRefCount()\n\t\t\tif xo.GetRefCount() == 0 {", "\t\t\txo.DecRefCount()\n\t\t\tif xo.GetRefCount() <= 1 {", "refcount-gate DidUpdate MarkNewDeleted"},
		Mutant{"extra-refcount-writer", rl, "\too.SetIsNewEscaped(true)\n\t// append to .newEscaped.", "\too.SetIsNewEscaped(true)\n\too.GetObjectInfo().RefCount++\n\t// append to .newEscaped.", "who-may-write ObjectInfo.RefCount"},
		Mutant{"extra-dec-caller", rl, "\t\trlm.MarkDirty(po)\n\t\t\t\t// next case", "\t\tpo.DecRefCount()\n\t\t\t\trlm.MarkDirty(po)\n\t\t\t\t// next case", "who-may-call DecRefCount"},
		Mutant{"finalize-reordered", rl, "\trlm.processNewCreatedMarks(store, 0)\n\t// decrement recursively for deleted descendants.\n\trlm.processNewDeletedMarks(store)", "\trlm.processNewDeletedMarks(store)\n\t// decrement recursively for deleted descendants.\n\trlm.processNewCreatedMarks(store, 0)", "finalize-order"},
		Mutant{"remove-conditional", rl, "\t// delete all deleted objects.\n\trlm.removeDeletedObjects(store)", "\t// delete all deleted objects.\n\tif rlm.Time > startTime {\n\t\trlm.removeDeletedObjects(store)\n\t}", "finalize-order"},
		Mutant{"clearmarks-forgets", rl, "\trlm.deleted = nil\n\trlm.escaped = nil", "\trlm.escaped = nil", "clear-marks Realm.deleted"},
		Mutant{"hash-of-other-bytes", "gnovm/pkg/gnolang/store.go", "hash := HashBytes(bz) // XXX objectHash(bz)???", "hash := HashBytes(bz[:len(bz)/2]) // XXX objectHash(bz)???", "hash-prefix SetObject hash"},
		Mutant{"hash-not-prefixed", "gnovm/pkg/gnolang/store.go", "copy(hashbz[HashSize:], bz)", "copy(hashbz[HashSize-1:], bz)", "hash-prefix SetObject layout"},
		Mutant{"owner-before-id", rl, "\trlm.assignNewObjectID(store, oo)\n\trlm.created = append(rlm.created, oo)\n\t// RECURSE GUARD END", "\trlm.created = append(rlm.created, oo)\n\t// RECURSE GUARD END", "owner-id-assigned"},
		Mutant{"escaped-keeps-owner", rl, "\t\t\t\t// escaped has no owner.\n\t\t\t\teo.SetOwner(nil)\n", "\t\t\t\t// escaped has no owner.\n", "escaped-no-owner"},
	)
}

// who may write a field of ObjectInfo directly (besides composite literals in Copy).
var c06FieldWriters = map[string][]string{
	"RefCount":  {"(*ObjectInfo).IncRefCount", "(*ObjectInfo).DecRefCount", "(*ObjectInfo).Copy", c06Decoder},
	"OwnerID":   {"(*ObjectInfo).SetOwner", "(*ObjectInfo).Copy", c06Decoder},
	"owner":     {"(*ObjectInfo).SetOwner"},
	"IsEscaped": {"(*ObjectInfo).SetIsEscaped", "(*ObjectInfo).Copy", c06Decoder},
	"isDeleted": {"(*ObjectInfo).SetIsDeleted", "(*ObjectInfo).Copy"},
	// SetIsDirty(true) zeroes the hash: a dirty object has no valid hash until it is saved again
	"Hash": {"(*ObjectInfo).SetHash", "(*ObjectInfo).SetIsDirty", "(*ObjectInfo).Copy", c06Decoder},
}

// the generated amino decoder fills a freshly allocated ObjectInfo from stored bytes.
const c06Decoder = "(*ObjectInfo).UnmarshalBinary2"

// who may call a setter (by bare method name; interface and concrete forms are merged).
var c06Callers = map[string][]string{
	"IncRefCount":  {"(*Realm).DidUpdate", "(*Realm).incRefCreatedDescendants", "(*PackageNode).NewPackage"},
	"DecRefCount":  {"(*Realm).DidUpdate", "(*Realm).decRefDeletedDescendants"},
	"SetOwner":     {"(*Realm).DidUpdate", "(*Realm).incRefCreatedDescendants", "(*Realm).processNewEscapedMarks", "getOwner", "(*PackageValue).AddFileBlock"},
	"SetIsEscaped": {"(*Realm).saveObject"},
	"SetIsDeleted": {"(*Realm).decRefDeletedDescendants"},
	"SetHash":      {"(*defaultStore).SetObject", "(*defaultStore).loadObjectSafe"},
	"SetObject":    {"(*Realm).saveObject"},
	"DelObject":    {"(*Realm).removeDeletedObjects"},
}

func c06(c *engine.Ctx) {
	c.Explain = "Decides who-may-write for the ownership fields of ObjectInfo and who-may-call for their setters and for SetObject/DelObject (tables closed under private helpers); the exact refcount comparisons that gate escape/delete/demote/adopt transitions (facts at the site, followed through helpers); that an owner has its object id before a child records it and that escaped objects drop their owner; the fixed, unconditional phase order of FinalizeRealmTransaction and the completeness of clearMarks; the hash‖bytes layout written by SetObject and read by loadObjectSafe; one writer per backend key namespace. Not covered: equality of counts with the number of references, reachability, dangling references."
	p := c.Load(gvaGno)
	if p == nil {
		return
	}
	// (A) who may write
	for _, fld := range engine.SortedKeys(c06FieldWriters) {
		v := p.Field(gvaGno + ".ObjectInfo." + fld)
		if v == nil {
			c.Undecided("who-may-write", "ObjectInfo."+fld, "field not found")
			continue
		}
		ws := p.FieldWrites(v)
		var allowed []string
		for _, a := range c06FieldWriters[fld] {
			allowed = append(allowed, c04G+a)
		}
		var refs []engine.Ref
		for _, w := range ws {
			refs = append(refs, engine.Ref{Fn: w.Fn})
		}
		extra := p.UnexpectedCallers(refs, allowed)
		c.Check("who-may-write", "ObjectInfo."+fld, v.Pos(), len(extra) == 0, "written outside its setter by: "+join(extra))
		c.Floor("who-may-write ObjectInfo."+fld, len(ws), 1)
	}
	// (B) who may call
	for _, m := range engine.SortedKeys(c06Callers) {
		refs := p.RefsTo(func(o types.Object) bool {
			f, ok := o.(*types.Func)
			if !ok || f.Name() != m || f.Pkg() == nil || engine.Rel(f.Pkg().Path()) != gvaGno {
				return false
			}
			sig := f.Type().(*types.Signature)
			return sig.Recv() != nil
		})
		var allowed []string
		for _, a := range c06Callers[m] {
			allowed = append(allowed, c04G+a)
		}
		extra := p.UnexpectedCallers(refs, allowed)
		c.Check("who-may-call", m, token.NoPos, len(extra) == 0, "called outside the frozen set (not through a private helper of it) by: "+join(extra))
		c.Floor("who-may-call "+m, len(refs), 1)
	}

	// (C) refcount gates: role = whose reference count must satisfy the comparison
	// (-1: the receiver of the target call, i ≥ 0: its i-th argument)
	type gate struct {
		fn, target string
		role       int
		nilArg     bool // only calls whose first argument is nil
		op         token.Token
		k          int64
	}
	gates := []gate{
		{"(*Realm).DidUpdate", "MarkNewEscaped", 0, false, token.GTR, 1},
		{"(*Realm).DidUpdate", "MarkNewDeleted", 0, false, token.EQL, 0},
		{"(*Realm).incRefCreatedDescendants", "MarkNewEscaped", 0, false, token.GTR, 1},
		{"(*Realm).incRefCreatedDescendants", "SetOwner", -1, false, token.EQL, 1},
		{"(*Realm).processNewCreatedMarks", "incRefCreatedDescendants", 1, false, token.NEQ, 0},
		{"(*Realm).processNewDeletedMarks", "decRefDeletedDescendants", 1, false, token.LEQ, 0},
		{"(*Realm).decRefDeletedDescendants", "decRefDeletedDescendants", 1, false, token.EQL, 0},
		{"(*Realm).processNewEscapedMarks", "SetOwner", -1, true, token.GTR, 1},
	}
	for _, gt := range gates {
		f := c.MustFunc(c04G + gt.fn)
		if f == nil {
			continue
		}
		short := gt.fn[strings.LastIndexByte(gt.fn, '.')+1:]
		key := short + " " + gt.target
		ds := c06DeepCalls(f, gt.target, gt.nilArg)
		if len(ds) == 0 {
			c.Undecided("refcount-gate", key, "no call to "+gt.target+" (directly or through helpers)")
			continue
		}
		for _, d := range ds {
			ok, why := c06DeepRefFact(d, gt.role, gt.op, gt.k)
			c.Check("refcount-gate", key, d.Inner.Pos(), ok, why)
		}
	}
	// IsEscaped is set only when the object was marked new-escaped
	if f := c.MustFunc(c04G + "(*Realm).saveObject"); f != nil {
		ds := c06DeepCalls(f, "SetIsEscaped", false)
		if len(ds) == 0 {
			c.Undecided("refcount-gate", "saveObject SetIsEscaped", "no call to SetIsEscaped")
		}
		for _, d := range ds {
			h := d.Inner.Fn
			recv := gvaNorm(h, d.Inner.Call.Fun.(*ast.SelectorExpr).X, nil, gvaNormOpt{}, 0).String()
			ok := false
			for _, g := range h.Graph().Gates(d.Inner) {
				for _, atom := range c06Atoms(g) {
					t := gvaNorm(h, atom, nil, gvaNormOpt{}, 0)
					pos := g.OnTrue
					for t.Kind == "unop" && t.Name == "!" {
						pos = !pos
						t = t.Args[0]
					}
					if pos && t.Kind == "call" && strings.HasSuffix(t.Name, ".GetIsNewEscaped") && len(t.Args) == 1 && t.Args[0].String() == recv {
						ok = true
					}
				}
			}
			arg := gvaNorm(h, d.Inner.Call.Args[0], nil, gvaNormOpt{}, 0)
			c.Check("refcount-gate", "saveObject SetIsEscaped", d.Inner.Pos(), ok && arg.Kind == "const" && arg.Name == "true", "IsEscaped must be set to true exactly under GetIsNewEscaped() of the same object")
		}
	}

	// (D) owner id assigned before recorded; escaped objects lose their owner
	if f := c.MustFunc(c04G + "(*Realm).incRefCreatedDescendants"); f != nil {
		g := f.Graph()
		assign := engine.Outers(f.DeepCallsTo(2, c04G+"(*Realm).assignNewObjectID"))
		var owner types.Object
		for i := 0; ; i++ {
			po := paramObj(f, i)
			if po == nil {
				break
			}
			if engine.TypeName(po.Type()) == gvaGno+".Object" {
				owner = po
			}
		}
		n := 0
		ok := len(assign) > 0 && owner != nil
		for _, d := range c06DeepCalls(f, "SetOwner", false) {
			n++
			if !g.MustPass(d.Outer, assign) {
				ok = false
			}
			if d.Inner == d.Outer {
				if o := gvaRootObj(f.Info(), d.Inner.Call.Args[0]); o != owner {
					ok = false
				}
			}
		}
		c.Check("owner-id-assigned", "incRefCreatedDescendants", f.Pos(), ok && n >= 1, "child.SetOwner(oo) copies oo's object id into the child: assignNewObjectID(oo) must have run on every path before it")
	}
	if f := c.MustFunc(c04G + "(*Realm).processNewEscapedMarks"); f != nil {
		c.Check("escaped-no-owner", "processNewEscapedMarks", f.Pos(), len(c06DeepCalls(f, "SetOwner", true)) > 0, "an object that stays escaped must drop its owner (SetOwner(nil)): owner is recorded exactly for singly referenced, never escaped objects")
	}

	// (E) finalize order
	if f := c.MustFunc(c04G + "(*Realm).FinalizeRealmTransaction"); f != nil {
		phases := []string{"processNewCreatedMarks", "processNewDeletedMarks", "processNewEscapedMarks", "markDirtyAncestors", "saveUnsavedObjects", "removeDeletedObjects", "clearMarks"}
		prev := ""
		for _, ph := range phases {
			ds := f.DeepCallsTo(2, c04G+"(*Realm)."+ph)
			// a phase function may call itself or be reached twice through the same outer call; count distinct inner sites
			if len(ds) != 1 {
				c.Check("finalize-order", ph, f.Pos(), false, fmt.Sprintf("%d (deep) calls, expected exactly one", len(ds)))
				prev = ""
				continue
			}
			d := ds[0]
			ok, why := true, "runs once, unconditionally, after the previous phase"
			if gs := d.DeepGates(); len(gs) > 0 {
				ok, why = false, "phase is conditional on `"+engine.ExprString(gs[0].Cond)+"`"
			}
			if d.Outer.Deferred || d.Inner.Deferred {
				ok, why = false, "phase is deferred"
			}
			if prev != "" {
				if okb, whyb := c06Before(f, c04G+"(*Realm)."+prev, c04G+"(*Realm)."+ph, 3); !okb {
					ok, why = false, whyb
				}
			}
			g := f.Graph()
			for _, rb := range g.ReturnBlocks() {
				if rs := f.SiteOf(rb.Return()); rs != nil && !g.MustPass(rs, []*engine.Site{d.Outer}) {
					ok, why = false, "a return path skips the phase"
				}
			}
			c.Check("finalize-order", ph, d.Inner.Pos(), ok, why)
			prev = ph
		}
	}
	// (F) clearMarks
	if f := c.MustFunc(c04G + "(*Realm).clearMarks"); f != nil {
		rn := p.Named(gvaGno + ".Realm")
		n := 0
		if rn != nil {
			for _, fld := range gvaStructFields(rn) {
				if engine.TypeName(fld.Type()) != "[]"+gvaGno+".Object" {
					continue
				}
				n++
				fld := fld
				ds := f.DeepFind(2, func(fn *engine.Fn, nd ast.Node) bool {
					as, ok := nd.(*ast.AssignStmt)
					if !ok || len(as.Lhs) != len(as.Rhs) {
						return false
					}
					for i, l := range as.Lhs {
						if se, ok := ast.Unparen(l).(*ast.SelectorExpr); ok {
							if v, ok := fn.Info().Uses[se.Sel].(*types.Var); ok && v.Origin() == fld.Origin() && isNil(as.Rhs[i]) {
								return true
							}
						}
					}
					return false
				})
				reset := false
				for _, d := range ds {
					if len(d.DeepGates()) == 0 {
						reset = true
					}
				}
				c.Check("clear-marks", "Realm."+fld.Name(), fld.Pos(), reset, "mark slice is not reset to nil unconditionally in clearMarks: stale marks would leak into the next transaction")
			}
		}
		c.Floor("clear-marks", n, 7)
	}

	// (G) hash ‖ bytes
	c06HashPrefix(c, p)

	// (H) key namespaces
	c06Keys(c, p)
}

// c06Atoms splits a gate's condition into the atoms that individually hold
// (true side: conjuncts) or individually fail (false side: disjuncts).
func c06Atoms(g engine.Gate) []ast.Expr {
	if g.OnTrue {
		return engine.Conjuncts(g.Cond, token.LAND)
	}
	return engine.Conjuncts(g.Cond, token.LOR)
}

// c06DeepCalls finds the calls of a method/function with the given bare name
// reached from f directly or through helpers (depth 2).
func c06DeepCalls(f *engine.Fn, name string, nilArg bool) []engine.DeepSite {
	return f.DeepFind(2, func(fn *engine.Fn, nd ast.Node) bool {
		call, ok := nd.(*ast.CallExpr)
		if !ok {
			return false
		}
		fo, ok := gvaCalleeFunc(fn.Info(), call)
		if !ok || fo.Name() != name || fo.Pkg() == nil || engine.Rel(fo.Pkg().Path()) != gvaGno {
			return false
		}
		if nilArg && (len(call.Args) != 1 || !isNil(call.Args[0])) {
			return false
		}
		return true
	})
}

// c06Before: phase a completes before phase b starts on every path of f
// (both reached exactly once; when both sit behind the same helper call, the
// order is decided inside that helper).
func c06Before(f *engine.Fn, a, b string, depth int) (bool, string) {
	da, db := f.DeepCallsTo(depth, a), f.DeepCallsTo(depth, b)
	if len(da) != 1 || len(db) != 1 {
		return false, "phase not reached exactly once"
	}
	if da[0].Outer == db[0].Outer {
		if da[0].Inner == da[0].Outer || len(da[0].Chain) == 0 || depth <= 0 {
			return false, "two phases in one call"
		}
		return c06Before(da[0].Chain[0], a, b, depth-1)
	}
	g := f.Graph()
	if !g.Dominates(da[0].Outer, db[0].Outer) {
		return false, "does not run after the preceding phase on every path"
	}
	if g.ReachableAfter(db[0].Outer, da[0].Outer) {
		return false, "the preceding phase can run again after it"
	}
	return true, ""
}

// c06DeepRefFact: at the (deep) call site the fact refcount(role object) `op` k
// holds, established by a dominating branch in the function containing the call
// or in a caller on the chain (the object followed through parameters).
func c06DeepRefFact(d engine.DeepSite, role int, op token.Token, k int64) (bool, string) {
	fns := append([]*engine.Fn{d.Outer.Fn}, d.Chain...)
	sites := make([]*engine.Site, len(fns))
	sites[len(fns)-1] = d.Inner
	if len(fns) > 1 {
		sites[0] = d.Outer
	}
	for i := 1; i < len(fns)-1; i++ {
		for _, s := range fns[i].Calls() {
			if fo, _ := s.Callee.(*types.Func); fo != nil && fns[i].Prog.FnOf(fo) == fns[i+1] {
				sites[i] = s
				break
			}
		}
	}
	last := len(fns) - 1
	in := d.Inner
	var roleExpr ast.Expr
	if role < 0 {
		if sel, ok := ast.Unparen(in.Call.Fun).(*ast.SelectorExpr); ok {
			roleExpr = sel.X
		}
	} else if role < len(in.Call.Args) {
		roleExpr = in.Call.Args[role]
	}
	if roleExpr == nil {
		return false, "cannot identify the object whose reference count matters"
	}
	want := fmt.Sprintf("refcount %s %d", op, k)
	var seen []string
	for i := last; i >= 0 && roleExpr != nil && sites[i] != nil; i-- {
		who := gvaNorm(fns[i], roleExpr, nil, gvaNormOpt{}, 0).String()
		ok, s := c06RefGate(fns[i], sites[i], who, op, k)
		if ok {
			return true, "reached only when " + want
		}
		seen = append(seen, s...)
		if i == 0 {
			break
		}
		// follow the object to the caller: it must be a parameter / receiver of fns[i]
		obj := engine.ObjOf(fns[i].Info(), roleExpr)
		call := sites[i-1].Call
		var next ast.Expr
		for j := 0; obj != nil; j++ {
			po := paramObj(fns[i], j)
			if po == nil {
				break
			}
			if po == obj && call != nil && j < len(call.Args) {
				next = call.Args[j]
			}
		}
		if next == nil && obj != nil && fns[i].Decl != nil && fns[i].Decl.Recv != nil && call != nil {
			for _, fld := range fns[i].Decl.Recv.List {
				for _, nm := range fld.Names {
					if fns[i].Info().ObjectOf(nm) == obj {
						if sel, ok := ast.Unparen(call.Fun).(*ast.SelectorExpr); ok {
							next = sel.X
						}
					}
				}
			}
		}
		roleExpr = next
	}
	if len(seen) == 0 {
		return false, "no comparison of the object's reference count gates the call (want " + want + ")"
	}
	return false, "gated by refcount " + strings.Join(seen, ", ") + " — not " + want
}

// c06RefGate: the site is reached only when refcount(obj) `op` k holds.
func c06RefGate(f *engine.Fn, s *engine.Site, who string, op token.Token, k int64) (bool, []string) {
	g := f.Graph()
	var seen []string
	for _, gt := range g.Gates(s) {
		for _, a := range c06Atoms(gt) {
			b, ok := ast.Unparen(a).(*ast.BinaryExpr)
			if !ok {
				continue
			}
			xt, yt := gvaNorm(f, b.X, nil, gvaNormOpt{}, 0), gvaNorm(f, b.Y, nil, gvaNormOpt{}, 0)
			bop := b.Op
			if !c06IsRefCount(xt, who) {
				if c06IsRefCount(yt, who) {
					xt, yt, bop = yt, xt, engine.Flip(bop)
				} else {
					continue
				}
			}
			if yt.Kind != "const" {
				continue
			}
			kv, exact := constant.Int64Val(constant.ToInt(constant.MakeFromLiteral(yt.Name, token.INT, 0)))
			if !exact {
				continue
			}
			if !gt.OnTrue {
				bop = engine.Negate(bop)
			}
			seen = append(seen, fmt.Sprintf("%s %d", bop, kv))
			if c06Implies(bop, kv, op, k) {
				return true, nil
			}
		}
	}
	return false, seen
}

func c06IsRefCount(t *gvaTerm, who string) bool {
	t = gvaStripConv(t)
	return t != nil && t.Kind == "call" && strings.HasSuffix(t.Name, ".GetRefCount") && len(t.Args) == 1 && t.Args[0].String() == who
}

// c06Implies: (rc bop kv) is the same integer predicate as (rc op k).
func c06Implies(bop token.Token, kv int64, op token.Token, k int64) bool {
	norm := func(o token.Token, v int64) (token.Token, int64) {
		switch o {
		case token.GEQ: // rc >= v  ==  rc > v-1
			return token.GTR, v - 1
		case token.LSS: // rc < v == rc <= v-1
			return token.LEQ, v - 1
		}
		return o, v
	}
	a, av := norm(bop, kv)
	b, bv := norm(op, k)
	return a == b && av == bv
}

// c06Layout analyses how the byte slice `v` is built in fn: it must be
// make([]byte, len(H)+len(B)) filled by copy(v, H[.Bytes()]) and
// copy(v[HashSize:], B). It returns the objects H and B and which of the three
// facts were found.
func c06Layout(fn *engine.Fn, v types.Object, hashSize types.Object) (hashO, bzO types.Object, okMake, prefixCopy, bodyCopy bool) {
	info := fn.Info()
	isHashSize := func(e ast.Expr) bool {
		if e == nil {
			return false
		}
		if hashSize != nil && engine.ObjOf(info, e) == hashSize {
			return true
		}
		return hashO != nil && engine.IsLenOf(info, e, hashO)
	}
	var bodyLow []ast.Expr
	for _, s := range fn.CallsTo("builtin.copy") {
		dst, src := ast.Unparen(s.Call.Args[0]), ast.Unparen(s.Call.Args[1])
		if gvaRootObj(info, dst) != v {
			continue
		}
		srcObj := engine.ObjOf(info, src)
		if bc, bn := gvaCallee(info, src); bc != nil && strings.HasSuffix(bn, ".Bytes") {
			srcObj = gvaRootObj(info, bc.Fun.(*ast.SelectorExpr).X)
		}
		switch d := dst.(type) {
		case *ast.Ident:
			hashO, prefixCopy = srcObj, srcObj != nil
		case *ast.SliceExpr:
			if d.Low == nil {
				hashO, prefixCopy = srcObj, srcObj != nil
			} else if d.High == nil {
				bzO = srcObj
				bodyLow = append(bodyLow, d.Low)
			}
		}
	}
	for _, low := range bodyLow {
		if isHashSize(low) {
			bodyCopy = true
		}
	}
	if def := gvaSingleDef(fn, v, false); def != nil {
		if mk, mn := gvaCallee(info, def); mn == "builtin.make" && len(mk.Args) == 2 {
			if b, ok := ast.Unparen(mk.Args[1]).(*ast.BinaryExpr); ok && b.Op == token.ADD {
				isB := func(e ast.Expr) bool { return bzO != nil && engine.IsLenOf(info, e, bzO) }
				okMake = (isHashSize(b.X) && isB(b.Y)) || (isB(b.X) && isHashSize(b.Y))
			}
		}
	}
	return
}

func c06HashPrefix(c *engine.Ctx, p *engine.Prog) {
	f := c.MustFunc(c04G + "(*defaultStore).SetObject")
	if f == nil {
		return
	}
	info := f.Info()
	hashSize := p.Object(gvaGno + ".HashSize")
	// the value written to the backend
	var hbO types.Object
	for _, s := range f.CallsTo(".Set") {
		if sel, ok := s.Call.Fun.(*ast.SelectorExpr); ok && engine.MentionsName(sel.X, "baseStore") && len(s.Call.Args) == 3 {
			hbO = engine.ObjOf(info, s.Call.Args[2])
		}
	}
	if hbO == nil {
		c.Undecided("hash-prefix", "SetObject", "baseStore.Set(key, value) with a variable value not found")
		return
	}
	c.Check("hash-prefix", "SetObject stores", f.Pos(), true, "baseStore.Set stores "+hbO.Name())
	// the layout is built either here or in one package-local helper whose
	// result is the stored value (`v := joinHashed(hash, bytes)`)
	var hashO, bzO types.Object
	okMake, prefixCopy, bodyCopy := false, false, false
	if def := gvaSingleDef(f, hbO, false); def != nil {
		if call, isCall := ast.Unparen(def).(*ast.CallExpr); isCall {
			if fo, isF := gvaCalleeFunc(info, call); isF {
				if h := p.FnOf(fo); h != nil && engine.Rel(h.Pkg.PkgPath) == gvaGno && !fo.Exported() {
					if ret := gvaSoleReturn(h); ret != nil {
						if ro := engine.ObjOf(h.Info(), ret); ro != nil {
							hp, bp, m, pc, bc := c06Layout(h, ro, hashSize)
							okMake, prefixCopy, bodyCopy = m, pc, bc
							// map the helper's parameters back to SetObject's arguments
							for i := 0; i < len(call.Args); i++ {
								po := paramObj(h, i)
								if po != nil && po == hp {
									hashO = gvaRootObj(info, call.Args[i])
								}
								if po != nil && po == bp {
									bzO = gvaRootObj(info, call.Args[i])
								}
							}
						}
					}
				}
			}
		}
	}
	if hashO == nil && bzO == nil {
		hashO, bzO, okMake, prefixCopy, bodyCopy = c06Layout(f, hbO, hashSize)
	}
	c.Check("hash-prefix", "SetObject layout", f.Pos(), okMake && prefixCopy && bodyCopy && hashO != nil && bzO != nil, fmt.Sprintf("stored value must be hash ‖ bytes: make(len(hash)+len(bytes))=%v, copy(v, hash)=%v, copy(v[HashSize:], bytes)=%v", okMake, prefixCopy, bodyCopy))
	if hashO == nil || bzO == nil {
		return
	}
	// bytes := amino.MustMarshalAny(<copy>), hash := HashBytes(bytes), both single-assignment
	bzDef, hashDef := gvaSingleDef(f, bzO, false), gvaSingleDef(f, hashO, false)
	c.Check("hash-prefix", "SetObject single-assignment", f.Pos(), bzDef != nil && hashDef != nil, "the stored bytes / their hash are modified after being computed")
	if bzDef == nil || hashDef == nil {
		return
	}
	_, cn := gvaCallee(info, bzDef)
	c.Check("hash-prefix", "SetObject bz", bzDef.Pos(), strings.HasPrefix(cn, "tm2/pkg/amino.MustMarshal"), "the stored bytes must be the amino encoding of the object copy")
	call, cn := gvaCallee(info, hashDef)
	okH := cn == c04G+"HashBytes" && len(call.Args) == 1 && engine.ObjOf(info, call.Args[0]) == bzO
	c.Check("hash-prefix", "SetObject hash", hashDef.Pos(), okH, "hash must be HashBytes(bytes) of exactly the stored bytes")
	// the object records that hash
	sethash := false
	oo := paramObj(f, 0)
	for _, s := range f.Calls() {
		if fo, ok := s.Callee.(*types.Func); ok && fo.Name() == "SetHash" && gvaRootObj(info, s.Call.Fun.(*ast.SelectorExpr).X) == oo && oo != nil {
			if strings.Contains(gvaNorm(f, s.Call.Args[0], nil, gvaNormOpt{}, 0).String(), gvaNorm(f, hashDef, nil, gvaNormOpt{}, 0).String()) {
				sethash = true
			}
		}
	}
	c.Check("hash-prefix", "SetObject records", f.Pos(), sethash, "the object must record exactly the hash that prefixes its stored bytes (oo.SetHash(ValueHash{hash}))")
	// iavl entry for escaped objects carries the same hash
	iavl := false
	hs := gvaNorm(f, hashDef, nil, gvaNormOpt{}, 0).String()
	for _, s := range f.CallsTo(".Set") {
		if sel, ok := s.Call.Fun.(*ast.SelectorExpr); ok && engine.MentionsName(sel.X, "iavlStore") && len(s.Call.Args) == 3 {
			v := s.Call.Args[2]
			if o := engine.ObjOf(info, v); o != nil {
				// `var key, value []byte; value = hash.Bytes()`: follow the plain assignment
				engine.InspectBody(f, func(n ast.Node) {
					if as, ok := n.(*ast.AssignStmt); ok && len(as.Lhs) == len(as.Rhs) {
						for i, l := range as.Lhs {
							if engine.ObjOf(info, l) == o && strings.Contains(gvaNorm(f, as.Rhs[i], nil, gvaNormOpt{}, 0).String(), hs) {
								iavl = true
							}
						}
					}
				})
			}
			if strings.Contains(gvaNorm(f, v, nil, gvaNormOpt{}, 0).String(), hs) {
				iavl = true
			}
		}
	}
	c.Check("hash-prefix", "SetObject iavl", f.Pos(), iavl, "the escaped-object index must store the same hash")

	// reader side: the loaded value is split at HashSize — here or in one
	// package-local helper returning (v[:HashSize], v[HashSize:]) — and the tail is what gets decoded
	if lf := c.MustFunc(c04G + "(*defaultStore).loadObjectSafe"); lf != nil {
		li := lf.Info()
		isHS := func(info *types.Info, e ast.Expr) bool {
			return e != nil && hashSize != nil && engine.ObjOf(info, e) == hashSize
		}
		isTail := func(info *types.Info, e ast.Expr) (types.Object, bool) {
			se, ok := ast.Unparen(e).(*ast.SliceExpr)
			if ok && se.High == nil && isHS(info, se.Low) {
				return gvaRootObj(info, se.X), true
			}
			return nil, false
		}
		isHead := func(info *types.Info, e ast.Expr) (types.Object, bool) {
			se, ok := ast.Unparen(e).(*ast.SliceExpr)
			if ok && se.Low == nil && isHS(info, se.High) {
				return gvaRootObj(info, se.X), true
			}
			return nil, false
		}
		split, decodesTail := false, false
		for _, s := range lf.CallsTo("tm2/pkg/amino.MustUnmarshal", "tm2/pkg/amino.MustUnmarshalAny") {
			arg := s.Call.Args[0]
			if _, ok := isTail(li, arg); ok {
				decodesTail = true
			}
			o := engine.ObjOf(li, arg)
			if o == nil {
				continue
			}
			// (a) bz := v[HashSize:] with a v[:HashSize] of the same v in this function
			if def := gvaSingleDef(lf, o, false); def != nil {
				if src, ok := isTail(li, def); ok {
					decodesTail = true
					engine.InspectBody(lf, func(n ast.Node) {
						if e, isE := n.(ast.Expr); isE {
							if hsrc, okh := isHead(li, e); okh && hsrc == src && src != nil {
								split = true
							}
						}
					})
				}
			}
			// (b) hash, bz := split(v): helper whose sole return is (p[:HashSize], p[HashSize:])
			engine.InspectBody(lf, func(n ast.Node) {
				as, ok := n.(*ast.AssignStmt)
				if !ok || len(as.Lhs) != 2 || len(as.Rhs) != 1 || engine.ObjOf(li, as.Lhs[1]) != o {
					return
				}
				call, ok := ast.Unparen(as.Rhs[0]).(*ast.CallExpr)
				if !ok {
					return
				}
				fo, ok := gvaCalleeFunc(li, call)
				if !ok || fo.Exported() {
					return
				}
				h := p.FnOf(fo)
				if h == nil || engine.Rel(h.Pkg.PkgPath) != gvaGno {
					return
				}
				var rets []*ast.ReturnStmt
				engine.InspectBody(h, func(x ast.Node) {
					if r, isR := x.(*ast.ReturnStmt); isR {
						rets = append(rets, r)
					}
				})
				if len(rets) != 1 || len(rets[0].Results) != 2 {
					return
				}
				hsrc, okh := isHead(h.Info(), rets[0].Results[0])
				tsrc, okt := isTail(h.Info(), rets[0].Results[1])
				if okh && okt && hsrc != nil && hsrc == tsrc {
					split, decodesTail = true, true
				}
			})
		}
		c.Check("hash-prefix", "loadObjectSafe split", lf.Pos(), split && decodesTail, "the reader must split the stored value at HashSize (hash = v[:HashSize]) and decode v[HashSize:]")
	}
}

// backend key namespaces: builder -> the only functions that may write under it.
var c06KeyWriters = map[string][]string{
	"backendObjectKey": {"(*defaultStore).SetObject", "(*defaultStore).DelObject"},
	"backendRealmKey":  {"(*defaultStore).SetPackageRealm"},
	"backendTypeKey":   {"(*defaultStore).SetType"},
}

func c06Keys(c *engine.Ctx, p *engine.Prog) {
	writesBackend := func(f *engine.Fn) bool {
		return len(f.Root().DeepFind(2, func(fn *engine.Fn, nd ast.Node) bool {
			call, ok := nd.(*ast.CallExpr)
			if !ok {
				return false
			}
			sel, ok := call.Fun.(*ast.SelectorExpr)
			return ok && (sel.Sel.Name == "Set" || sel.Sel.Name == "Delete") && engine.MentionsName(sel.X, "baseStore")
		})) > 0
	}
	for _, b := range engine.SortedKeys(c06KeyWriters) {
		var allowed []string
		for _, a := range c06KeyWriters[b] {
			allowed = append(allowed, c04G+a)
		}
		var writers []engine.Ref
		for _, r := range p.RefsToFunc(c04G + b) {
			if r.Fn != nil && writesBackend(r.Fn) {
				writers = append(writers, r)
			}
		}
		extra := p.UnexpectedCallers(writers, allowed)
		c.Check("key-namespace", b, token.NoPos, len(extra) == 0 && len(writers) > 0, fmt.Sprintf("%d writing users of this key builder; unexpected: %s", len(writers), join(extra)))
	}
}
