package checks

import (
	"fmt"
	"go/ast"
	"go/constant"
	"go/token"
	"go/types"
	"strings"

	"gnoverif/engine"
)

// C06 — single-writer and ordering structure of the persisted object graph.
func init() {
	register("C06", c06)
	meta("C06", Meta{
		Text:      "Decides the single-writer and ordering structure on which the persisted-graph invariants rest: the ownership fields of ObjectInfo (RefCount, OwnerID/owner, IsEscaped, isDeleted, Hash) are written only by their one setter, and each setter is called only from the frozen set of realm-finalization functions; reference-count transitions drive the marks through the exact comparisons (escape when count > 1, delete when count == 0, demote when count <= 1, adopt an owner when count == 1, escaped objects lose their owner) on the gated branch; an owner's object id is assigned before it is recorded in a child; FinalizeRealmTransaction runs created → deleted → escaped → dirty-ancestors → save → remove → clear, each exactly once and unconditionally, and clearMarks resets every mark slice; objects are written/deleted in the backend only by SetObject/DelObject, called only by saveObject/removeDeletedObjects; the stored bytes are HashBytes(bz) ‖ bz of one and the same bz, the recorded hash is that hash, loadObjectSafe splits at the same offset, and every backend key namespace has one writer. Level 'other': necessary structure; the counts themselves need the heap.",
		Note:      "Not covered: that RefCount equals the number of persisted references, reachability from a package, absence of dangling references (all behavioural, need the object graph), cross-realm storage accounting (C09).",
		Technique: "who-may-write (syntactic field writes) + who-may-call tables, go/cfg gate-form analysis on refcount comparisons, dominance ordering, value-origin chain for the stored bytes",
		Ref:       "DESIGN.md §2 C06",
	})
	const rl = "gnovm/pkg/gnolang/realm.go"
	mutants("C06",
		Mutant{"escape-threshold", rl, "\t\t\tco.IncRefCount()\n\t\t\tif co.GetRefCount() > 1 {", "\t\t\tco.IncRefCount()\n\t\t\tif co.GetRefCount() > 2 {", "refcount-gate DidUpdate MarkNewEscaped"},
		Mutant{"delete-threshold", rl, "\t\t\txo.DecRefCount()\n\t\t\tif xo.GetRefCount() == 0 {", "\t\t\txo.DecRefCount()\n\t\t\tif xo.GetRefCount() <= 1 {", "refcount-gate DidUpdate MarkNewDeleted"},
		Mutant{"extra-refcount-writer", rl, "\too.SetIsNewEscaped(true)\n\t// append to .newEscaped.", "\too.SetIsNewEscaped(true)\n\too.GetObjectInfo().RefCount++\n\t// append to .newEscaped.", "who-may-write ObjectInfo.RefCount"},
		Mutant{"extra-dec-caller", rl, "\t\trlm.MarkDirty(po)\n\t\t\t\t// next case", "\t\tpo.DecRefCount()\n\t\t\t\trlm.MarkDirty(po)\n\t\t\t\t// next case", "who-may-call DecRefCount"},
		Mutant{"finalize-reordered", rl, "\trlm.processNewCreatedMarks(store, 0)\n\t// decrement recursively for deleted descendants.\n\trlm.processNewDeletedMarks(store)", "\trlm.processNewDeletedMarks(store)\n\t// decrement recursively for deleted descendants.\n\trlm.processNewCreatedMarks(store, 0)", "finalize-order"},
		Mutant{"remove-conditional", rl, "\t// delete all deleted objects.\n\trlm.removeDeletedObjects(store)", "\t// delete all deleted objects.\n\tif rlm.Time > startTime {\n\t\trlm.removeDeletedObjects(store)\n\t}", "finalize-order"},
		Mutant{"clearmarks-forgets", rl, "\trlm.deleted = nil\n\trlm.escaped = nil", "\trlm.escaped = nil", "clear-marks Realm.deleted"},
		Mutant{"hash-of-other-bytes", "gnovm/pkg/gnolang/store.go", "hash := HashBytes(bz) // XXX objectHash(bz)???", "hash := HashBytes(bz[:len(bz)/2]) // XXX objectHash(bz)???", "hash-prefix SetObject hash"},
		Mutant{"hash-not-prefixed", "gnovm/pkg/gnolang/store.go", "copy(hashbz[HashSize:], bz)", "copy(hashbz[HashSize-1:], bz)", "hash-prefix SetObject layout"},
		Mutant{"owner-before-id", rl, "\trlm.assignNewObjectID(store, oo)\n\trlm.created = append(rlm.created, oo)\n\t// RECURSE GUARD END", "\trlm.created = append(rlm.created, oo)\n\t// RECURSE GUARD END", "owner-id-assigned"},
		Mutant{"escaped-keeps-owner", rl, "\t\t\t\t// escaped has no owner.\n\t\t\t\teo.SetOwner(nil)\n", "\t\t\t\t// escaped has no owner.\n", "escaped-no-owner"},
	)
}

// who may write a field of ObjectInfo directly (besides composite literals in Copy).
var c06FieldWriters = map[string][]string{
	"RefCount":  {"(*ObjectInfo).IncRefCount", "(*ObjectInfo).DecRefCount", "(*ObjectInfo).Copy", c06Decoder},
	"OwnerID":   {"(*ObjectInfo).SetOwner", "(*ObjectInfo).Copy", c06Decoder},
	"owner":     {"(*ObjectInfo).SetOwner"},
	"IsEscaped": {"(*ObjectInfo).SetIsEscaped", "(*ObjectInfo).Copy", c06Decoder},
	"isDeleted": {"(*ObjectInfo).SetIsDeleted", "(*ObjectInfo).Copy"},
	// SetIsDirty(true) zeroes the hash: a dirty object has no valid hash until it is saved again
	"Hash": {"(*ObjectInfo).SetHash", "(*ObjectInfo).SetIsDirty", "(*ObjectInfo).Copy", c06Decoder},
}

// the generated amino decoder fills a freshly allocated ObjectInfo from stored bytes.
const c06Decoder = "(*ObjectInfo).UnmarshalBinary2"

// who may call a setter (by bare method name; interface and concrete forms are merged).
var c06Callers = map[string][]string{
	"IncRefCount":  {"(*Realm).DidUpdate", "(*Realm).incRefCreatedDescendants", "(*PackageNode).NewPackage"},
	"DecRefCount":  {"(*Realm).DidUpdate", "(*Realm).decRefDeletedDescendants"},
	"SetOwner":     {"(*Realm).DidUpdate", "(*Realm).incRefCreatedDescendants", "(*Realm).processNewEscapedMarks", "getOwner", "(*PackageValue).AddFileBlock"},
	"SetIsEscaped": {"(*Realm).saveObject"},
	"SetIsDeleted": {"(*Realm).decRefDeletedDescendants"},
	"SetHash":      {"(*defaultStore).SetObject", "(*defaultStore).loadObjectSafe"},
	"SetObject":    {"(*Realm).saveObject"},
	"DelObject":    {"(*Realm).removeDeletedObjects"},
}

func c06(c *engine.Ctx) {
	c.Explain = "Decides who-may-write for the ownership fields of ObjectInfo and who-may-call for their setters and for SetObject/DelObject; the exact refcount comparisons that gate escape/delete/demote/adopt transitions; that an owner has its object id before a child records it and that escaped objects drop their owner; the fixed, unconditional phase order of FinalizeRealmTransaction and the completeness of clearMarks; the hash‖bytes layout written by SetObject and read by loadObjectSafe; one writer per backend key namespace. Not covered: equality of counts with the number of references, reachability, dangling references."
	p := c.Load(gvaGno)
	if p == nil {
		return
	}
	// (A) who may write
	for _, fld := range engine.SortedKeys(c06FieldWriters) {
		v := p.Field(gvaGno + ".ObjectInfo." + fld)
		if v == nil {
			c.Undecided("who-may-write", "ObjectInfo."+fld, "field not found")
			continue
		}
		ws := p.FieldWrites(v)
		var allowed []string
		for _, a := range c06FieldWriters[fld] {
			allowed = append(allowed, c04G+a)
		}
		got := engine.WriterSet(ws, nil)
		extra := engine.SetDiff(got, allowed)
		c.Check("who-may-write", "ObjectInfo."+fld, v.Pos(), len(extra) == 0, "written outside its setter by: "+join(extra))
		c.Floor("who-may-write ObjectInfo."+fld, len(ws), 1)
	}
	// (B) who may call
	for _, m := range engine.SortedKeys(c06Callers) {
		refs := p.RefsTo(func(o types.Object) bool {
			f, ok := o.(*types.Func)
			if !ok || f.Name() != m || f.Pkg() == nil || engine.Rel(f.Pkg().Path()) != gvaGno {
				return false
			}
			sig := f.Type().(*types.Signature)
			return sig.Recv() != nil
		})
		got := engine.CallerSet(refs)
		var allowed []string
		for _, a := range c06Callers[m] {
			allowed = append(allowed, c04G+a)
		}
		extra := engine.SetDiff(got, allowed)
		c.Check("who-may-call", m, token.NoPos, len(extra) == 0, "called outside the frozen set by: "+join(extra))
		c.Floor("who-may-call "+m, len(refs), 1)
	}

	// (C) refcount gates
	type gate struct {
		fn, target, who string // who: name of the object variable whose refcount is compared
		op              token.Token
		k               int64
		occ             int // which occurrence (0 = all must satisfy)
	}
	gates := []gate{
		{"(*Realm).DidUpdate", "MarkNewEscaped", "co", token.GTR, 1, 0},
		{"(*Realm).DidUpdate", "MarkNewDeleted", "xo", token.EQL, 0, 0},
		{"(*Realm).incRefCreatedDescendants", "MarkNewEscaped", "child", token.GTR, 1, 0},
		{"(*Realm).incRefCreatedDescendants", "SetOwner", "child", token.EQL, 1, 0},
		{"(*Realm).processNewCreatedMarks", "incRefCreatedDescendants", "oo", token.NEQ, 0, 0},
		{"(*Realm).processNewDeletedMarks", "decRefDeletedDescendants", "oo", token.LEQ, 0, 0},
		{"(*Realm).decRefDeletedDescendants", "decRefDeletedDescendants", "child", token.EQL, 0, 0},
		{"(*Realm).processNewEscapedMarks", "SetOwner", "eo", token.GTR, 1, 0},
	}
	for _, gt := range gates {
		f := c.MustFunc(c04G + gt.fn)
		if f == nil {
			continue
		}
		short := gt.fn[strings.LastIndexByte(gt.fn, '.')+1:]
		key := short + " " + gt.target
		var sites []*engine.Site
		for _, s := range f.Calls() {
			if fo, ok := s.Callee.(*types.Func); ok && fo.Name() == gt.target {
				sites = append(sites, s)
			}
		}
		if len(sites) == 0 {
			c.Undecided("refcount-gate", key, "no call to "+gt.target)
			continue
		}
		for _, s := range sites {
			ok, why := c06RefGate(f, s, gt.who, gt.op, gt.k)
			c.Check("refcount-gate", key, s.Pos(), ok, why)
		}
	}
	// IsEscaped is set only when the object was marked new-escaped
	if f := c.MustFunc(c04G + "(*Realm).saveObject"); f != nil {
		g := f.Graph()
		for _, s := range f.Calls() {
			if fo, ok := s.Callee.(*types.Func); ok && fo.Name() == "SetIsEscaped" {
				ok := false
				for _, gt := range g.Gates(s) {
					if call, _ := gvaCallee(f.Info(), gt.Cond); call != nil && gt.OnTrue {
						if sel, isSel := call.Fun.(*ast.SelectorExpr); isSel && sel.Sel.Name == "GetIsNewEscaped" {
							ok = true
						}
					}
				}
				arg := f.Info().Types[s.Call.Args[0]]
				c.Check("refcount-gate", "saveObject SetIsEscaped", s.Pos(), ok && arg.Value != nil && constant.BoolVal(arg.Value), "IsEscaped must be set to true exactly under GetIsNewEscaped()")
			}
		}
	}

	// (D) owner id assigned before recorded; escaped objects lose their owner
	if f := c.MustFunc(c04G + "(*Realm).incRefCreatedDescendants"); f != nil {
		g := f.Graph()
		assign := f.CallsTo(c04G + "(*Realm).assignNewObjectID")
		n := 0
		ok := len(assign) > 0
		for _, s := range f.Calls() {
			if fo, isF := s.Callee.(*types.Func); isF && fo.Name() == "SetOwner" {
				n++
				if !g.MustPass(s, assign) {
					ok = false
				}
				if o := gvaRootObj(f.Info(), s.Call.Args[0]); o == nil || o.Name() != "oo" {
					ok = false
				}
			}
		}
		c.Check("owner-id-assigned", "incRefCreatedDescendants", f.Pos(), ok && n >= 2, "child.SetOwner(oo) copies oo's object id into the child: assignNewObjectID(oo) must have run on every path before it")
	}
	if f := c.MustFunc(c04G + "(*Realm).processNewEscapedMarks"); f != nil {
		// an object appended to `escaped` with an owner gets SetOwner(nil)
		found := false
		for _, s := range f.Calls() {
			if fo, isF := s.Callee.(*types.Func); isF && fo.Name() == "SetOwner" && isNil(s.Call.Args[0]) {
				if o := gvaRootObj(f.Info(), s.Call.Fun.(*ast.SelectorExpr).X); o != nil && o.Name() == "eo" {
					found = true
				}
			}
		}
		c.Check("escaped-no-owner", "processNewEscapedMarks", f.Pos(), found, "an object that stays escaped must drop its owner (eo.SetOwner(nil)): owner is recorded exactly for singly referenced, never escaped objects")
	}

	// (E) finalize order
	if f := c.MustFunc(c04G + "(*Realm).FinalizeRealmTransaction"); f != nil {
		g := f.Graph()
		phases := []string{"processNewCreatedMarks", "processNewDeletedMarks", "processNewEscapedMarks", "markDirtyAncestors", "saveUnsavedObjects", "removeDeletedObjects", "clearMarks"}
		var prev *engine.Site
		for _, ph := range phases {
			ss := f.CallsTo(c04G + "(*Realm)." + ph)
			if len(ss) != 1 {
				c.Check("finalize-order", ph, f.Pos(), false, fmt.Sprintf("%d calls, expected exactly one", len(ss)))
				prev = nil
				continue
			}
			s := ss[0]
			ok, why := true, "runs once, unconditionally, after the previous phase"
			if gs := g.Gates(s); len(gs) > 0 {
				ok, why = false, "phase is conditional on `"+engine.ExprString(gs[0].Cond)+"`"
			}
			if s.Deferred {
				ok, why = false, "phase is deferred"
			}
			if prev != nil && !g.Dominates(prev, s) {
				ok, why = false, "does not run after the preceding phase on every path"
			}
			if prev != nil && g.ReachableAfter(s, prev) {
				ok, why = false, "the preceding phase can run again after it"
			}
			// every return is preceded by it
			for _, rb := range g.ReturnBlocks() {
				if rs := f.SiteOf(rb.Return()); rs != nil && !g.MustPass(rs, ss) {
					ok, why = false, "a return path skips the phase"
				}
			}
			c.Check("finalize-order", ph, s.Pos(), ok, why)
			prev = s
		}
	}
	// (F) clearMarks
	if f := c.MustFunc(c04G + "(*Realm).clearMarks"); f != nil {
		rn := p.Named(gvaGno + ".Realm")
		n := 0
		if rn != nil {
			for _, fld := range gvaStructFields(rn) {
				if engine.TypeName(fld.Type()) != "[]"+gvaGno+".Object" {
					continue
				}
				n++
				reset := false
				for _, w := range p.FieldWrites(fld) {
					if w.Fn == f && w.Direct {
						if as, ok := w.Node.(*ast.AssignStmt); ok && len(as.Rhs) == 1 && isNil(as.Rhs[0]) {
							if st := f.SiteOf(as); st != nil && len(f.Graph().Gates(st)) == 0 {
								reset = true
							}
						}
					}
				}
				c.Check("clear-marks", "Realm."+fld.Name(), fld.Pos(), reset, "mark slice is not reset to nil unconditionally in clearMarks: stale marks would leak into the next transaction")
			}
		}
		c.Floor("clear-marks", n, 7)
	}

	// (G) hash ‖ bytes
	c06HashPrefix(c, p)

	// (H) key namespaces
	c06Keys(c, p)
}

// c06RefGate: the site is reached only when refcount(who) `op` k holds.
func c06RefGate(f *engine.Fn, s *engine.Site, who string, op token.Token, k int64) (bool, string) {
	info := f.Info()
	g := f.Graph()
	want := fmt.Sprintf("%s.GetRefCount() %s %d", who, op, k)
	var seen []string
	for _, gt := range g.Gates(s) {
		conj := token.LAND
		if !gt.OnTrue {
			conj = token.LOR
		}
		for _, a := range engine.Conjuncts(gt.Cond, conj) {
			b, ok := ast.Unparen(a).(*ast.BinaryExpr)
			if !ok {
				continue
			}
			x, y, bop := b.X, b.Y, b.Op
			if !c06IsRefCountOf(f, x, who) {
				if c06IsRefCountOf(f, y, who) {
					x, y, bop = y, x, engine.Flip(bop)
				} else {
					continue
				}
			}
			tv := info.Types[y]
			if tv.Value == nil {
				continue
			}
			kv, exact := constant.Int64Val(constant.ToInt(tv.Value))
			if !exact {
				continue
			}
			if !gt.OnTrue {
				bop = engine.Negate(bop)
			}
			seen = append(seen, fmt.Sprintf("%s %d", bop, kv))
			if c06Implies(bop, kv, op, k) {
				return true, "reached only when " + want
			}
		}
	}
	if len(seen) == 0 {
		return false, "no comparison of " + who + "'s reference count gates the call (want " + want + ")"
	}
	return false, "gated by refcount " + strings.Join(seen, ", ") + " — not " + want
}

// c06Implies: (rc bop kv) is the same integer predicate as (rc op k).
func c06Implies(bop token.Token, kv int64, op token.Token, k int64) bool {
	norm := func(o token.Token, v int64) (token.Token, int64) {
		switch o {
		case token.GEQ: // rc >= v  ==  rc > v-1
			return token.GTR, v - 1
		case token.LSS: // rc < v == rc <= v-1
			return token.LEQ, v - 1
		}
		return o, v
	}
	a, av := norm(bop, kv)
	b, bv := norm(op, k)
	if a == b && av == bv {
		return true
	}
	// refcounts reaching these gates are never negative after the preceding
	// increment/decrement guard, but we do not assume it: only exact matches.
	return false
}

// c06IsRefCountOf: e is who.GetRefCount() or a local defined from it.
func c06IsRefCountOf(f *engine.Fn, e ast.Expr, who string) bool {
	info := f.Info()
	e = ast.Unparen(e)
	if call, ok := e.(*ast.CallExpr); ok {
		sel, ok := call.Fun.(*ast.SelectorExpr)
		if !ok || sel.Sel.Name != "GetRefCount" {
			return false
		}
		o := gvaRootObj(info, sel.X)
		return o != nil && o.Name() == who
	}
	id, ok := e.(*ast.Ident)
	if !ok {
		return false
	}
	obj := info.ObjectOf(id)
	found := false
	engine.InspectBody(f, func(n ast.Node) {
		if as, ok := n.(*ast.AssignStmt); ok && len(as.Lhs) == len(as.Rhs) {
			for i, l := range as.Lhs {
				if engine.ObjOf(info, l) == obj && c06IsRefCountOf(f, as.Rhs[i], who) {
					found = true
				}
			}
		}
	})
	return found
}

func c06HashPrefix(c *engine.Ctx, p *engine.Prog) {
	f := c.MustFunc(c04G + "(*defaultStore).SetObject")
	if f == nil {
		return
	}
	info := f.Info()
	def := func(name string) (types.Object, ast.Expr) {
		var o types.Object
		var rhs ast.Expr
		engine.InspectBody(f, func(n ast.Node) {
			if as, ok := n.(*ast.AssignStmt); ok && as.Tok == token.DEFINE && len(as.Lhs) == len(as.Rhs) {
				for i, l := range as.Lhs {
					if id, ok := l.(*ast.Ident); ok && id.Name == name && o == nil {
						o, rhs = info.Defs[id], as.Rhs[i]
					}
				}
			}
		})
		return o, rhs
	}
	bzO, bzRhs := def("bz")
	hashO, hashRhs := def("hash")
	hbO, hbRhs := def("hashbz")
	if bzO == nil || hashO == nil || hbO == nil {
		c.Undecided("hash-prefix", "SetObject", "expected locals bz, hash, hashbz not found")
		return
	}
	// bz := amino.MustMarshalAny(<copy>)
	_, cn := gvaCallee(info, bzRhs)
	c.Check("hash-prefix", "SetObject bz", bzRhs.Pos(), strings.HasPrefix(cn, "tm2/pkg/amino.MustMarshal"), "bz must be the amino encoding of the object copy")
	// bz is never reassigned or sliced-into
	reassigned := false
	engine.InspectBody(f, func(n ast.Node) {
		if as, ok := n.(*ast.AssignStmt); ok && as.Tok != token.DEFINE {
			for _, l := range as.Lhs {
				if gvaRootObj(info, l) == bzO || gvaRootObj(info, l) == hashO {
					reassigned = true
				}
			}
		}
	})
	c.Check("hash-prefix", "SetObject single-assignment", f.Pos(), !reassigned, "bz / hash are modified after being computed")
	// hash := HashBytes(bz)
	call, cn := gvaCallee(info, hashRhs)
	okH := cn == c04G+"HashBytes" && len(call.Args) == 1 && engine.ObjOf(info, call.Args[0]) == bzO
	c.Check("hash-prefix", "SetObject hash", hashRhs.Pos(), okH, "hash must be HashBytes(bz) of exactly the stored bytes")
	// hashbz := make([]byte, len(hash)+len(bz)); copy(hashbz, hash.Bytes()); copy(hashbz[HashSize:], bz)
	okMake := false
	if mk, mn := gvaCallee(info, hbRhs); mn == "builtin.make" && len(mk.Args) == 2 {
		if b, ok := ast.Unparen(mk.Args[1]).(*ast.BinaryExpr); ok && b.Op == token.ADD {
			l1 := engine.IsLenOf(info, b.X, hashO) && engine.IsLenOf(info, b.Y, bzO)
			l2 := engine.IsLenOf(info, b.X, bzO) && engine.IsLenOf(info, b.Y, hashO)
			okMake = l1 || l2
		}
	}
	hashSize := p.Object(gvaGno + ".HashSize")
	prefixCopy, bodyCopy := false, false
	for _, s := range f.CallsTo("builtin.copy") {
		dst, src := ast.Unparen(s.Call.Args[0]), ast.Unparen(s.Call.Args[1])
		switch d := dst.(type) {
		case *ast.Ident:
			if info.ObjectOf(d) == hbO {
				if bc, bn := gvaCallee(info, src); bc != nil && strings.HasSuffix(bn, ".Bytes") && gvaRootObj(info, bc.Fun.(*ast.SelectorExpr).X) == hashO {
					prefixCopy = true
				}
			}
		case *ast.SliceExpr:
			if gvaRootObj(info, d.X) == hbO && d.High == nil && d.Low != nil && engine.ObjOf(info, d.Low) == hashSize && hashSize != nil && engine.ObjOf(info, src) == bzO {
				bodyCopy = true
			}
		}
	}
	c.Check("hash-prefix", "SetObject layout", f.Pos(), okMake && prefixCopy && bodyCopy, fmt.Sprintf("stored value must be hash ‖ bz: make(len(hash)+len(bz))=%v, copy(hashbz, hash.Bytes())=%v, copy(hashbz[HashSize:], bz)=%v", okMake, prefixCopy, bodyCopy))
	// the Set stores hashbz under backendObjectKey(oid); oo.SetHash(ValueHash{hash})
	stored := false
	for _, s := range f.CallsTo(".Set") {
		if sel, ok := s.Call.Fun.(*ast.SelectorExpr); ok && engine.MentionsName(sel.X, "baseStore") && len(s.Call.Args) == 3 && engine.ObjOf(info, s.Call.Args[2]) == hbO {
			stored = true
		}
	}
	c.Check("hash-prefix", "SetObject stores", f.Pos(), stored, "baseStore.Set must store hashbz")
	sethash := false
	for _, s := range f.Calls() {
		if fo, ok := s.Callee.(*types.Func); ok && fo.Name() == "SetHash" && gvaRootObj(info, s.Call.Fun.(*ast.SelectorExpr).X) != nil && gvaRootObj(info, s.Call.Fun.(*ast.SelectorExpr).X).Name() == "oo" {
			if cl, ok := ast.Unparen(s.Call.Args[0]).(*ast.CompositeLit); ok && len(cl.Elts) == 1 && engine.ObjOf(info, cl.Elts[0]) == hashO {
				sethash = true
			}
		}
	}
	c.Check("hash-prefix", "SetObject records", f.Pos(), sethash, "the object must record exactly the hash that prefixes its stored bytes (oo.SetHash(ValueHash{hash}))")
	// iavl entry for escaped objects carries the same hash
	iavl := false
	for _, s := range f.CallsTo(".Set") {
		if sel, ok := s.Call.Fun.(*ast.SelectorExpr); ok && engine.MentionsName(sel.X, "iavlStore") && len(s.Call.Args) == 3 {
			if v := engine.ObjOf(info, s.Call.Args[2]); v != nil {
				engine.InspectBody(f, func(n ast.Node) {
					if as, ok := n.(*ast.AssignStmt); ok && len(as.Lhs) == 1 && len(as.Rhs) == 1 && engine.ObjOf(info, as.Lhs[0]) == v {
						if bc, bn := gvaCallee(info, as.Rhs[0]); bc != nil && strings.HasSuffix(bn, ".Bytes") && gvaRootObj(info, bc.Fun.(*ast.SelectorExpr).X) == hashO {
							iavl = true
						}
					}
				})
			}
		}
	}
	c.Check("hash-prefix", "SetObject iavl", f.Pos(), iavl, "the escaped-object index must store the same hash")

	// reader side
	if lf := c.MustFunc(c04G + "(*defaultStore).loadObjectSafe"); lf != nil {
		li := lf.Info()
		var hashOK, bzOK bool
		engine.InspectBody(lf, func(n ast.Node) {
			as, ok := n.(*ast.AssignStmt)
			if !ok || len(as.Lhs) != 1 || len(as.Rhs) != 1 {
				return
			}
			se, ok := ast.Unparen(as.Rhs[0]).(*ast.SliceExpr)
			if !ok {
				return
			}
			id, _ := as.Lhs[0].(*ast.Ident)
			if id == nil {
				return
			}
			if id.Name == "hash" && se.Low == nil && se.High != nil && engine.ObjOf(li, se.High) == hashSize {
				hashOK = true
			}
			if id.Name == "bz" && se.High == nil && se.Low != nil && engine.ObjOf(li, se.Low) == hashSize {
				bzOK = true
			}
		})
		c.Check("hash-prefix", "loadObjectSafe split", lf.Pos(), hashOK && bzOK && hashSize != nil, "the reader must split the stored value at HashSize (hash = v[:HashSize], bz = v[HashSize:])")
	}
}

// backend key namespaces: builder -> the only functions that may write under it.
var c06KeyWriters = map[string][]string{
	"backendObjectKey": {"(*defaultStore).SetObject", "(*defaultStore).DelObject"},
	"backendRealmKey":  {"(*defaultStore).SetPackageRealm"},
	"backendTypeKey":   {"(*defaultStore).SetType"},
}

func c06Keys(c *engine.Ctx, p *engine.Prog) {
	// every function that writes to baseStore and mentions a key builder
	writers := map[string]map[string]bool{}
	n := 0
	for _, f := range p.FuncsIn(gvaGno) {
		writes := false
		for _, s := range f.CallsTo(".Set", ".Delete") {
			if sel, ok := s.Call.Fun.(*ast.SelectorExpr); ok && engine.MentionsName(sel.X, "baseStore") {
				writes = true
			}
		}
		if !writes {
			continue
		}
		n++
		for _, s := range f.Calls() {
			if fo, ok := s.Callee.(*types.Func); ok && strings.HasPrefix(fo.Name(), "backend") && strings.HasSuffix(fo.Name(), "Key") {
				if writers[fo.Name()] == nil {
					writers[fo.Name()] = map[string]bool{}
				}
				writers[fo.Name()][f.Root().Name] = true
			}
		}
	}
	c.Floor("key-namespace writers", n, 6)
	for _, b := range engine.SortedKeys(c06KeyWriters) {
		var allowed []string
		for _, a := range c06KeyWriters[b] {
			allowed = append(allowed, c04G+a)
		}
		got := gvaSorted(writers[b])
		extra := engine.SetDiff(got, allowed)
		missing := engine.SetDiff(allowed, got)
		c.Check("key-namespace", b, token.NoPos, len(extra) == 0 && len(missing) == 0, "writers under this key: "+join(got)+"; unexpected: "+join(extra)+"; missing: "+join(missing))
	}
}
