package checks

import (
	"fmt"
	"go/ast"
	"go/token"
	"go/types"
	"strings"

	"gnoverif/engine"
)

// C44 — signature verification incl. multisig is exact and never panics.
func init() {
	register("C44", c44)
	meta("C44", Meta{
		Text:      "Decides structural necessary conditions on the verification code path (multisig.PubKeyMultisigThreshold.VerifyBytes, bitarray.CompactBitArray.{Size,GetIndex,NumTrueBitsBefore}, auth.DefaultSigVerificationGasConsumer, auth.consumeMultisignatureVerificationGas, ed25519/secp256k1 VerifyBytes and signatureFromBytes): (1) R-PANIC — every may-panic site in these functions (index and slice expressions, explicit panic, Must* helpers, unchecked type assertions, integer division) is enumerated and must be discharged by a recognised guard: index is the key of a range over the same slice or over an int proved equal to its length, a dominating `index < len(slice)` test with a non-negative index, a full/constant slice of an array, or constant bounds covered by a length test at every caller; field reads through the decoded *CompactBitArray are nil-guarded; (2) multisig acceptance: every `return true` follows the signature loop and is gated by a nil decode error, len(PubKeys) == BitArray.Size() and NumTrueBitsBefore(size) >= K of the receiver; inside the loop each marked position i verifies PubKeys[i] over the message parameter with Sigs[counter], its failure alone returns false, nothing else conditions it, and the counter advances in the same marked branch; (3) the simple keys pass (receiver key, message[, hashed], signature) to the library verifier and return its verdict, after a signature-length gate. Level 'other'.",
		Note:      "Not covered: the cryptographic primitives themselves (crypto/ed25519, btcec, dcrd), sign/verify round trip, amino decoding internals (amino.Unmarshal is assumed to return an error rather than panic), out-of-gas panics of the gas meter (by design, recovered by the ante handler). The libsecp256k1 (cgo) build variant is not loaded.",
		Technique: "may-panic site enumeration with dominating-comparison recogniser (R-PANIC), go/cfg gates and syntactic enclosing conditions (R-DOM), who-may-call for callee-side slice bounds",
		Ref:       "DESIGN.md §2 C44",
	})
	const T = "tm2/pkg/crypto/multisig/threshold_pubkey.go"
	const BA = "tm2/pkg/crypto/multisig/bitarray/compact_bit_array.go"
	mutants("C44",
		Mutant{"threshold-off-by-one", T, "if sig.BitArray.NumTrueBitsBefore(size) < int(pk.K) {", "if sig.BitArray.NumTrueBitsBefore(size) < int(pk.K)-1 {", "accept-threshold"},
		Mutant{"size-check-dropped", T, "if len(pk.PubKeys) != size {", "if len(pk.PubKeys) < size {", "accept-size"},
		Mutant{"marked-verify-conditional", T, "if !pk.PubKeys[i].VerifyBytes(msg, sig.Sigs[sigIndex]) {", "if i < int(pk.K) && !pk.PubKeys[i].VerifyBytes(msg, sig.Sigs[sigIndex]) {", "marked-verified"},
		Mutant{"counter-not-advanced", T, "\t\t\tsigIndex++\n", "\t\t\t_ = sigIndex\n", "marked-verified"},
		Mutant{"decode-error-ignored", T, "err := amino.Unmarshal(marshalledSig, &sig)\n\tif err != nil {", "err := amino.Unmarshal(marshalledSig, &sig)\n\tif err != nil && len(msg) == 0 {", "accept-decoded"},
		Mutant{"getindex-nil-unguarded", BA, "func (bA *CompactBitArray) GetIndex(i int) bool {\n\tif bA == nil {\n\t\treturn false\n\t}", "func (bA *CompactBitArray) GetIndex(i int) bool {", "nil-safe tm2/pkg/crypto/multisig/bitarray.(*CompactBitArray).GetIndex"},
		Mutant{"ed25519-length-gate-dropped", "tm2/pkg/crypto/ed25519/ed25519.go", "if len(sig) != SignatureSize {\n\t\treturn false\n\t}\n\treturn ed25519.Verify(pubKey[:], msg, sig)", "if len(sig) > SignatureSize {\n\t\treturn false\n\t}\n\treturn ed25519.Verify(pubKey[:], msg, sig)", "simple-verify tm2/pkg/crypto/ed25519"},
		Mutant{"secp-length-gate-weakened", "tm2/pkg/crypto/secp256k1/secp256k1_nocgo.go", "if len(sigStr) != 64 {", "if len(sigStr) > 64 {", "tm2/pkg/crypto/secp256k1.signatureFromBytes slice sigStr"},
		Mutant{"marks-bound-weakened", T, "if sigIndex >= len(sig.Sigs) {\n\t\t\t\treturn false\n\t\t\t}\n\t\t\tif !pk.PubKeys[i]", "if sigIndex > len(sig.Sigs) {\n\t\t\t\treturn false\n\t\t\t}\n\t\t\tif !pk.PubKeys[i]", "(PubKeyMultisigThreshold).VerifyBytes index sig.Sigs"},
		Mutant{"getindex-byte-bound-removed", BA, "if i < 0 || i >= bA.Size() || i>>3 >= len(bA.Elems) {\n\t\treturn false\n\t}\n\treturn bA.Elems", "if i < 0 || i >= bA.Size() {\n\t\treturn false\n\t}\n\treturn bA.Elems", "(*CompactBitArray).GetIndex index bA.Elems"},
		Mutant{"gas-consumer-must-unmarshal", "tm2/pkg/sdk/auth/ante.go", "if err := amino.Unmarshal(sig, &multisignature); err != nil {\n\t\t\treturn abciResult(std.ErrUnauthorized(\"invalid multisignature encoding\"))\n\t\t}", "amino.MustUnmarshal(sig, &multisignature)", "must-call tm2/pkg/amino.MustUnmarshal"},
		Mutant{"gas-consumer-size-check-weakened", "tm2/pkg/sdk/auth/ante.go", "if len(pubkey.PubKeys) != size {", "if len(pubkey.PubKeys) > size {", "consumeMultisignatureVerificationGas index pubkey.PubKeys"},
		Mutant{"popcount-counts-all-positions", BA, "for i := range index {\n\t\tif bA.GetIndex(i) {\n\t\t\tnumTrueValues++", "for i := range bA.Size() {\n\t\tif bA.GetIndex(i) {\n\t\t\tnumTrueValues++", "popcount-exact"},
		Mutant{"secp-verifies-other-message", "tm2/pkg/crypto/secp256k1/secp256k1_nocgo.go", "return psig.Verify(crypto.Sha256(msg), pub)", "return psig.Verify(crypto.Sha256(sigStr), pub)", "simple-verify tm2/pkg/crypto/secp256k1"},
	)
}

func c44(c *engine.Ctx) {
	c.Explain = "Decides on the signature-verification path: (1) every index/slice expression, explicit panic, Must* call, unchecked type assertion and integer division in multisig VerifyBytes, CompactBitArray.{Size,GetIndex,NumTrueBitsBefore}, the ante gas consumers and the ed25519/secp256k1 verifiers is enumerated and must be discharged by a recognised bound/nil guard (table in the check); (2) multisig VerifyBytes returns true only after the loop, under nil decode error, len(PubKeys)==Size() and popcount>=K, each marked position verifying PubKeys[i] on (msg, Sigs[counter]) with its failure alone returning false and the counter advancing; (3) simple keys hand (key, msg, sig) to the library verifier behind a length gate and return its verdict. Not covered: the primitives, amino decoding internals, gas-meter panics."
	p := c.Load("tm2/pkg/crypto/multisig", "tm2/pkg/crypto/multisig/bitarray", "tm2/pkg/crypto/ed25519", "tm2/pkg/crypto/secp256k1", "tm2/pkg/sdk/auth")
	if p == nil {
		return
	}
	const M = "tm2/pkg/crypto/multisig.(PubKeyMultisigThreshold).VerifyBytes"
	const B = "tm2/pkg/crypto/multisig/bitarray.(*CompactBitArray)."
	names := []string{
		M, B + "Size", B + "GetIndex", B + "NumTrueBitsBefore",
		"tm2/pkg/sdk/auth.DefaultSigVerificationGasConsumer", "tm2/pkg/sdk/auth.consumeMultisignatureVerificationGas",
		"tm2/pkg/crypto/ed25519.(PubKeyEd25519).VerifyBytes", "tm2/pkg/crypto/secp256k1.(PubKeySecp256k1).VerifyBytes", "tm2/pkg/crypto/secp256k1.signatureFromBytes",
	}
	var set []*engine.Fn
	for _, n := range names {
		if f := c.MustFunc(n); f != nil {
			set = append(set, f)
		}
	}

	// ---- (1) R-PANIC ----
	nsites := 0
	for _, f := range set {
		nsites += c44MayPanic(c, p, f)
	}
	c.Floor("may-panic", nsites, 5)
	// nil-safe receivers of the bit array methods
	for _, n := range []string{"Size", "GetIndex", "NumTrueBitsBefore"} {
		f := p.Func(B + n)
		if f == nil {
			continue
		}
		info := f.Info()
		g := f.Graph()
		recv := authdOperands(f)[0]
		bad := ""
		engine.InspectBody(f, func(nd ast.Node) {
			se, ok := nd.(*ast.SelectorExpr)
			if !ok || engine.ObjOf(info, se.X) != recv {
				return
			}
			if v, isVar := info.ObjectOf(se.Sel).(*types.Var); !isVar || !v.IsField() {
				return // method call on the receiver: the callee has its own obligation
			}
			st := f.SiteOf(se)
			guarded := false
			if st != nil {
				for _, gt := range g.Gates(st) {
					for _, fc := range authdFacts(gt) {
						x, op, y, isCmp := authdCmp(fc)
						if isCmp && op == token.NEQ && engine.ObjOf(info, x) == recv && isNil(y) {
							guarded = true
						}
					}
				}
			}
			if !guarded {
				bad = "field read `" + engine.ExprString(se) + "` is not dominated by a `" + recv.Name() + " == nil` return: a decoded multisignature without bit array dereferences nil"
			}
		})
		c.Check("nil-safe", f.Name, f.Pos(), bad == "", bad)
	}

	// popcount-exact: the count compared with K must count only marked positions
	// below the requested index: NumTrueBitsBefore reads bits exclusively through
	// GetIndex(i) with i < index and returns a counter that only ever grows by one
	// under such a test (a byte-wise popcount would also count padding bits).
	if f := p.Func(B + "NumTrueBitsBefore"); f != nil {
		ok, why := c44PopcountExact(f)
		c.Check("popcount-exact", f.Name, f.Pos(), ok, why)
	}

	// ---- (2) multisig acceptance ----
	if f := p.Func(M); f != nil {
		c44Accept(c, f)
	}

	// ---- (3) simple keys ----
	if f := p.Func("tm2/pkg/crypto/ed25519.(PubKeyEd25519).VerifyBytes"); f != nil {
		info := f.Info()
		g := f.Graph()
		recv, msg, sig := authdOperands(f)[0], paramObj(f, 0), paramObj(f, 1)
		ok, why := false, "does not return crypto/ed25519.Verify(key[:], msg, sig)"
		for _, rs := range authdReturns(f) {
			if len(rs.Results) != 1 {
				continue
			}
			if bv, isLit := authdIsBoolLit(info, rs.Results[0]); isLit {
				if bv {
					ok, why = false, "returns true without verifying"
					break
				}
				continue
			}
			call, is := authdCalleeIs(info, rs.Results[0], "crypto/ed25519.Verify", "golang.org/x/crypto/ed25519.Verify")
			if !is || len(call.Args) != 3 {
				ok, why = false, "a return yields something other than the library verdict"
				break
			}
			sl, isSl := ast.Unparen(call.Args[0]).(*ast.SliceExpr)
			if !isSl || engine.ObjOf(info, sl.X) != recv || engine.ObjOf(info, call.Args[1]) != msg || engine.ObjOf(info, call.Args[2]) != sig {
				ok, why = false, "library verifier is not applied to (receiver key, msg, sig)"
				break
			}
			// length gate
			st := f.SiteOf(rs)
			lenOK := false
			if st != nil {
				for _, gt := range g.Gates(st) {
					for _, fc := range authdFacts(gt) {
						x, op, _, isCmp := authdCmp(fc)
						if isCmp && op == token.EQL && engine.IsLenOf(info, x, sig) {
							lenOK = true
						}
					}
				}
			}
			if !lenOK {
				ok, why = false, "the library verifier is reached without the exact signature-length test"
				break
			}
			ok, why = true, "ed25519.Verify(key[:], msg, sig) behind len(sig) == SignatureSize"
		}
		c.Check("simple-verify", "tm2/pkg/crypto/ed25519 VerifyBytes", f.Pos(), ok, why)
	}
	if f := p.Func("tm2/pkg/crypto/secp256k1.(PubKeySecp256k1).VerifyBytes"); f != nil {
		info := f.Info()
		g := f.Graph()
		recv, msg, sig := authdOperands(f)[0], paramObj(f, 0), paramObj(f, 1)
		ok, why := false, "does not return signature.Verify(Sha256(msg), parsed key)"
		for _, rs := range authdReturns(f) {
			if len(rs.Results) != 1 {
				continue
			}
			if bv, isLit := authdIsBoolLit(info, rs.Results[0]); isLit {
				if bv {
					ok, why = false, "returns true without verifying"
					break
				}
				continue
			}
			call, is := ast.Unparen(rs.Results[0]).(*ast.CallExpr)
			if !is || !strings.HasSuffix(authdCalleeName(info, call), ".Verify") || len(call.Args) != 2 {
				ok, why = false, "a return yields something other than the library verdict"
				break
			}
			// signature object from signatureFromBytes(sig) with ok gate
			se, _ := ast.Unparen(call.Fun).(*ast.SelectorExpr)
			good := se != nil
			var sfb, ppk *engine.Site
			for _, s := range f.CallsTo("tm2/pkg/crypto/secp256k1.signatureFromBytes") {
				sfb = s
			}
			for _, s := range f.CallsTo(".ParsePubKey") {
				ppk = s
			}
			st := f.SiteOf(rs)
			if good && sfb != nil && ppk != nil && st != nil {
				l1, l2 := authdLhsObjs(f, sfb), authdLhsObjs(f, ppk)
				good = len(l1) == 2 && len(l2) == 2 && engine.ObjOf(info, se.X) == l1[0] && engine.ObjOf(info, call.Args[1]) == l2[0] &&
					len(sfb.Call.Args) == 1 && engine.ObjOf(info, sfb.Call.Args[0]) == sig
				if good {
					r1 := g.CheckedGuard(sfb, st)
					r2 := g.CheckedGuard(ppk, st)
					good = r1.OK && authdOkPolarity(info, r1.Cond, l1[1]) != 0 && (authdOkPolarity(info, r1.Cond, l1[1]) == +1) == r1.OnTrue &&
						r2.OK && authdErrNotNil(r2.Cond) && !r2.OnTrue
				}
				if sl, isSl := ast.Unparen(ppk.Call.Args[0]).(*ast.SliceExpr); !isSl || engine.ObjOf(info, sl.X) != recv {
					good = false
				}
			} else {
				good = false
			}
			h, isH := authdCalleeIs(info, call.Args[0], "tm2/pkg/crypto.Sha256")
			if !isH || len(h.Args) != 1 || engine.ObjOf(info, h.Args[0]) != msg {
				ok, why = false, "the verified digest is not Sha256 of the message parameter"
				break
			}
			if !good {
				ok, why = false, "the verdict is not computed from (parsed receiver key, parsed signature parameter) behind their error gates"
				break
			}
			ok, why = true, "sig.Verify(Sha256(msg), key) behind parse gates"
		}
		c.Check("simple-verify", "tm2/pkg/crypto/secp256k1 VerifyBytes", f.Pos(), ok, why)
	}
}

// c44MayPanic enumerates the may-panic sites of f and checks each.
func c44MayPanic(c *engine.Ctx, p *engine.Prog, f *engine.Fn) int {
	info := f.Info()
	n := 0
	ord := map[string]int{}
	emit := func(kind, what string, pos token.Pos, ok bool, why string) {
		n++
		k := f.Name + " " + kind + " " + what
		ord[k]++
		if ord[k] > 1 {
			k += "#" + authdItoa(ord[k])
		}
		c.Check("may-panic", k, pos, ok, why)
	}
	checkedAsserts := map[*ast.TypeAssertExpr]bool{}
	engine.InspectBody(f, func(nd ast.Node) {
		switch x := nd.(type) {
		case *ast.AssignStmt:
			if len(x.Lhs) == 2 && len(x.Rhs) == 1 {
				if ta, ok := ast.Unparen(x.Rhs[0]).(*ast.TypeAssertExpr); ok {
					checkedAsserts[ta] = true
				}
			}
		case *ast.ValueSpec:
			if len(x.Names) == 2 && len(x.Values) == 1 {
				if ta, ok := ast.Unparen(x.Values[0]).(*ast.TypeAssertExpr); ok {
					checkedAsserts[ta] = true
				}
			}
		}
	})
	engine.InspectBody(f, func(nd ast.Node) {
		switch x := nd.(type) {
		case *ast.IndexExpr:
			t := info.TypeOf(x.X)
			if t == nil {
				return
			}
			if tv, ok := info.Types[x.X]; ok && !tv.IsValue() {
				return // generic instantiation
			}
			switch u := t.Underlying().(type) {
			case *types.Map, *types.Signature:
				return
			case *types.Array:
				if v, isC := authdConstInt(info, x.Index); isC && v >= 0 && v < u.Len() {
					return
				}
			}
			ok, why := c44IndexSafe(f, x, x.X, x.Index)
			emit("index", engine.ExprString(x.X), x.Pos(), ok, why)
		case *ast.SliceExpr:
			t := info.TypeOf(x.X)
			if t == nil {
				return
			}
			if x.Low == nil && x.High == nil && x.Max == nil {
				return // x[:] never panics (nil pointer to array aside, not used here)
			}
			ok, why := c44SliceSafe(p, f, x)
			emit("slice", engine.ExprString(x.X), x.Pos(), ok, why)
		case *ast.TypeAssertExpr:
			if x.Type == nil || checkedAsserts[x] {
				return
			}
			emit("assert", engine.ExprString(x.X), x.Pos(), false, "unchecked type assertion panics on a mismatching dynamic type")
		case *ast.BinaryExpr:
			if x.Op == token.QUO || x.Op == token.REM {
				if tv, ok := info.Types[x.Y]; ok && tv.Value == nil {
					if b, isB := tv.Type.Underlying().(*types.Basic); isB && b.Info()&types.IsInteger != 0 {
						emit("division", engine.ExprString(x.Y), x.Pos(), false, "integer division by a non-constant")
					}
				}
			}
		case *ast.CallExpr:
			nm := authdCalleeName(info, x)
			if nm == "builtin.panic" {
				emit("panic", "explicit", x.Pos(), false, "explicit panic on the verification path")
				return
			}
			base := nm
			if i := strings.LastIndexByte(base, '.'); i >= 0 {
				base = base[i+1:]
			}
			if strings.HasPrefix(base, "Must") {
				emit("must-call", nm, x.Pos(), false, nm+" panics on malformed input; the bytes come from the transaction's signature field (use the error-returning variant and report failure)")
			}
		}
	})
	return n
}

// c44NonNeg: e is provably >= 0 at site st.
func c44NonNeg(f *engine.Fn, st *engine.Site, e ast.Expr) bool {
	info := f.Info()
	e = ast.Unparen(e)
	if v, isC := authdConstInt(info, e); isC {
		return v >= 0
	}
	if t := info.TypeOf(e); t != nil {
		if b, ok := t.Underlying().(*types.Basic); ok && b.Info()&types.IsUnsigned != 0 {
			return true
		}
	}
	switch x := e.(type) {
	case *ast.BinaryExpr:
		switch x.Op {
		case token.SHR, token.QUO, token.REM, token.ADD, token.MUL, token.AND:
			return c44NonNeg(f, st, x.X) && (x.Op == token.SHR || c44NonNeg(f, st, x.Y))
		}
	case *ast.Ident:
		o := info.ObjectOf(x)
		if o == nil {
			return false
		}
		// range key
		isRange := false
		engine.InspectBody(f, func(n ast.Node) {
			if rs, ok := n.(*ast.RangeStmt); ok && rs.Key != nil && engine.ObjOf(info, rs.Key) == o && rs.Tok == token.DEFINE {
				isRange = true
			}
		})
		if isRange {
			return true
		}
		// counter: only non-negative constants and ++
		defs := 0
		counter := true
		engine.InspectBody(f, func(n ast.Node) {
			switch s := n.(type) {
			case *ast.AssignStmt:
				for i, l := range s.Lhs {
					if engine.ObjOf(info, l) != o {
						continue
					}
					if _, isID := ast.Unparen(l).(*ast.Ident); !isID {
						continue
					}
					defs++
					if (s.Tok != token.ASSIGN && s.Tok != token.DEFINE) || len(s.Rhs) != len(s.Lhs) {
						counter = false
						continue
					}
					if v, isC := authdConstInt(info, s.Rhs[i]); !isC || v < 0 {
						counter = false
					}
				}
			case *ast.IncDecStmt:
				if engine.ObjOf(info, s.X) == o && s.Tok != token.INC {
					counter = false
				}
			}
		})
		if _, isParam := c44IsParam(f, o); !isParam && defs > 0 && counter {
			return true
		}
		// a dominating fact id >= 0 / id > k
		if st != nil {
			for _, gt := range f.Graph().Gates(st) {
				for _, fc := range authdFacts(gt) {
					l, op, r, isCmp := authdCmp(fc)
					if !isCmp {
						continue
					}
					if engine.ObjOf(info, r) == o {
						l, r, op = r, l, engine.Flip(op)
					}
					if engine.ObjOf(info, l) != o {
						continue
					}
					if k, isK := authdConstInt(info, r); isK && ((op == token.GEQ && k >= 0) || (op == token.GTR && k >= -1)) {
						return true
					}
				}
			}
		}
	}
	return false
}

func c44IsParam(f *engine.Fn, o types.Object) (int, bool) {
	for i, q := range authdOperands(f) {
		if q == o {
			return i, true
		}
	}
	return -1, false
}

// c44IndexSafe decides X[idx].
func c44IndexSafe(f *engine.Fn, site ast.Node, X, idx ast.Expr) (bool, string) {
	info := f.Info()
	_ = f.Graph()
	st := f.SiteOf(site)
	io := engine.ObjOf(info, idx)
	// D1: idx is the key of a range over X, or over an int proved equal to / not above len(X)
	var rng *ast.RangeStmt
	if _, isID := ast.Unparen(idx).(*ast.Ident); isID && io != nil {
		engine.InspectBody(f, func(n ast.Node) {
			if rs, ok := n.(*ast.RangeStmt); ok && rs.Key != nil && rs.Tok == token.DEFINE && engine.ObjOf(info, rs.Key) == io && containsExpr(rs.Body, site) {
				rng = rs
			}
		})
	}
	if rng != nil && len(authdAssignsTo(f, io)) == 1 {
		if authdSameExpr(rng.X, X) {
			return true, "index is the key of a range over the same slice"
		}
		if call, is := authdCalleeIs(info, rng.X, "builtin.len"); is && len(call.Args) == 1 && authdSameExpr(call.Args[0], X) {
			return true, "index ranges over len of the same slice"
		}
		if t := info.TypeOf(rng.X); t != nil {
			if b, isB := t.Underlying().(*types.Basic); isB && b.Info()&types.IsInteger != 0 && st != nil {
				no := engine.ObjOf(info, rng.X)
				xp := c44Path(f, nil, X)
				if no != nil && len(authdAssignsTo(f, no)) <= 1 && xp != "" {
					for _, fc := range c44FactsAt(f, st, 2) {
						l, op, r, isCmp := authdCmp(fc.authdFact)
						if !isCmp {
							continue
						}
						if fc.obj(l) == no {
							l, r, op = r, l, engine.Flip(op)
						}
						// now: len(X) op N
						if fc.lenPath(l) == xp && fc.obj(authdResolveLocal(fc.fn, r)) == no || fc.lenPath(l) == xp && fc.obj(r) == no {
							if op == token.EQL || op == token.GEQ {
								return true, "index ranges over " + no.Name() + " and a dominating test establishes len(" + engine.ExprString(X) + ") " + op.String() + " " + no.Name()
							}
						}
					}
				}
			}
		}
	}
	// D2: a dominating idx < len(X) with idx >= 0 (len possibly hoisted into a local)
	if st != nil {
		xp := c44Path(f, nil, X)
		for _, fc := range c44FactsAt(f, st, 1) {
			if fc.fn != f {
				continue
			}
			l, op, r, isCmp := authdCmp(fc.authdFact)
			if !isCmp {
				continue
			}
			if fc.lenPath(l) != "" && fc.lenPath(r) == "" {
				l, r, op = r, l, engine.Flip(op)
			}
			lp := fc.lenPath(r)
			sameLen := lp != "" && lp == xp
			if !sameLen {
				if call, is := authdCalleeIs(info, authdResolveLocal(f, r), "builtin.len"); is && len(call.Args) == 1 && authdSameExpr(call.Args[0], X) {
					sameLen = true
				}
			}
			if !sameLen || !authdSameExpr(l, idx) || op != token.LSS {
				continue
			}
			if c44NonNeg(f, st, idx) {
				return true, "dominated by `" + engine.ExprString(idx) + " < len(" + engine.ExprString(X) + ")` with a non-negative index"
			}
			return false, "upper bound is tested but the index `" + engine.ExprString(idx) + "` may be negative"
		}
	}
	return false, "no recognised guard bounds `" + engine.ExprString(idx) + "` by len(" + engine.ExprString(X) + "): a crafted (amino-decoded) value makes this index run out of range"
}

// c44SliceSafe decides X[lo:hi] with constant bounds on a parameter: every
// caller must have tested the argument's length.
func c44SliceSafe(p *engine.Prog, f *engine.Fn, x *ast.SliceExpr) (bool, string) {
	info := f.Info()
	if t, isArr := info.TypeOf(x.X).Underlying().(*types.Array); isArr {
		hi := t.Len()
		ok := true
		for _, b := range []ast.Expr{x.Low, x.High} {
			if b == nil {
				continue
			}
			if v, isC := authdConstInt(info, b); !isC || v < 0 || v > hi {
				ok = false
			}
		}
		if ok {
			return true, "constant bounds inside the array"
		}
	}
	need := int64(0)
	for _, b := range []ast.Expr{x.Low, x.High, x.Max} {
		if b == nil {
			continue
		}
		v, isC := authdConstInt(info, b)
		if !isC || v < 0 {
			return false, "non-constant slice bound `" + engine.ExprString(b) + "`"
		}
		if v > need {
			need = v
		}
	}
	o := engine.ObjOf(info, x.X)
	pi, isParam := c44IsParam(f, o)
	if !isParam || f.Obj == nil || len(authdAssignsTo(f, o)) != 0 {
		return false, "sliced value is not an unmodified parameter"
	}
	if f.Decl.Recv != nil {
		pi-- // argument index
	}
	refs := p.RefsToFunc(f.Name)
	if len(refs) == 0 {
		return false, "no caller found"
	}
	for _, r := range refs {
		if !r.IsCall || r.Fn == nil {
			return false, f.Name + " is used as a value; callers cannot be enumerated"
		}
		cf := r.Fn
		ci := cf.Info()
		var call *engine.Site
		for _, s := range cf.Calls() {
			if fn, ok := s.Callee.(*types.Func); ok && engine.FuncName(fn) == f.Name && containsExpr(s.Call, r.Ident) {
				call = s
			}
		}
		if call == nil || pi < 0 || pi >= len(call.Call.Args) {
			return false, "call site not located in " + cf.Name
		}
		arg := call.Call.Args[pi]
		ao := engine.ObjOf(ci, arg)
		ok := false
		for _, gt := range cf.Graph().Gates(call) {
			for _, fc := range authdFacts(gt) {
				l, op, rr, isCmp := authdCmp(fc)
				if !isCmp || ao == nil || !engine.IsLenOf(ci, l, ao) {
					continue
				}
				k, isK := authdConstInt(ci, rr)
				if isK && ((op == token.EQL && k >= need) || (op == token.GEQ && k >= need)) {
					ok = true
				}
			}
		}
		if !ok {
			return false, "caller " + cf.Name + " does not establish len(" + engine.ExprString(arg) + ") >= " + authdItoa(int(need)) + " before the call"
		}
	}
	return true, "every caller tests the argument's length (>= " + authdItoa(int(need)) + ")"
}

// c44Accept: rule (2) on the multisig VerifyBytes.
func c44Accept(c *engine.Ctx, f *engine.Fn) {
	info := f.Info()
	g := f.Graph()
	recv, msg, raw := authdOperands(f)[0], paramObj(f, 0), paramObj(f, 1)
	// decoded signature variable
	var sigObj types.Object
	var dec *engine.Site
	for _, s := range f.CallsTo("tm2/pkg/amino.Unmarshal") {
		if len(s.Call.Args) == 2 && engine.ObjOf(info, s.Call.Args[0]) == raw {
			if u, ok := ast.Unparen(s.Call.Args[1]).(*ast.UnaryExpr); ok && u.Op == token.AND {
				sigObj = engine.ObjOf(info, u.X)
				dec = s
			}
		}
	}
	if dec == nil || sigObj == nil {
		c.Undecided("accept-decoded", f.Name, "amino.Unmarshal(sigBytes, &sig) not found")
		return
	}
	// the loop: range over an int variable (size)
	var loop *ast.RangeStmt
	var inner *engine.Site
	for _, s := range f.CallsTo("tm2/pkg/crypto.(PubKey).VerifyBytes") {
		inner = s
	}
	engine.InspectBody(f, func(n ast.Node) {
		if rs, ok := n.(*ast.RangeStmt); ok && inner != nil && containsExpr(rs.Body, inner.Call) {
			loop = rs
		}
	})
	if loop == nil || inner == nil {
		c.Undecided("marked-verified", f.Name, "loop verifying the constituent keys not found")
		return
	}
	sizeObj := engine.ObjOf(info, loop.X)
	sizeOK := false
	if sizeObj != nil {
		if d := authdAssignsTo(f, sizeObj); len(d) == 1 && d[0] != nil {
			if call, is := authdCalleeIs(info, d[0], "tm2/pkg/crypto/multisig/bitarray.(*CompactBitArray).Size"); is {
				if engine.Mentions(info, call.Fun, sigObj) {
					sizeOK = true
				}
			}
		}
	}
	c.Check("marked-verified", f.Name+" loop over BitArray.Size()", loop.Pos(), sizeOK, "the loop must visit every position of the decoded bit array")

	// returns
	ntrue := 0
	for _, rs := range authdReturns(f) {
		if len(rs.Results) != 1 {
			continue
		}
		bv, isLit := authdIsBoolLit(info, rs.Results[0])
		if !isLit {
			c.Check("accept-threshold", f.Name+" computed return", rs.Pos(), false, "a return yields a computed verdict the rules do not follow")
			continue
		}
		if !bv {
			continue
		}
		ntrue++
		st := f.SiteOf(rs)
		key := f.Name + " return true#" + authdItoa(ntrue)
		if st == nil {
			c.Undecided("accept-threshold", key, "return not in CFG")
			continue
		}
		// after the loop
		ls := f.SiteOf(loop.X)
		after := ls != nil && g.BlockDominates(ls.Block, st.Block) && !containsExpr(loop.Body, rs) && rs.Pos() > loop.End()
		c.Check("accept-after-loop", key, rs.Pos(), after, "acceptance must come after every marked position was verified")
		// decode error
		r := g.CheckedGuard(dec, st)
		c.Check("accept-decoded", key, rs.Pos(), r.OK && authdErrNotNil(r.Cond) && !r.OnTrue, "acceptance must be reached only when amino.Unmarshal returned nil (found: "+c44CondStr(r)+")")
		// facts (helper transparent: a predicate helper known true contributes its own)
		var sizeEq, thresh bool
		recvPath := fmt.Sprintf("%p", recv) + ".PubKeys"
		sigBA := fmt.Sprintf("%p", sigObj) + ".BitArray"
		for _, fc := range c44FactsAt(f, st, 2) {
			l, op, rr, isCmp := authdCmp(fc.authdFact)
			if !isCmp {
				continue
			}
			// len(pk.PubKeys) == size
			for _, pr := range [][2]ast.Expr{{l, rr}, {rr, l}} {
				if op == token.EQL && fc.lenPath(pr[0]) == recvPath && recvPath != "" && fc.obj(authdResolveLocal(fc.fn, pr[1])) == sizeObj {
					sizeEq = true
				}
				if op == token.EQL && fc.lenPath(pr[0]) == recvPath && recvPath != "" && fc.obj(pr[1]) == sizeObj {
					sizeEq = true
				}
			}
			// NumTrueBitsBefore(size) >= int(pk.K)
			lo, ro, o := authdResolveLocal(fc.fn, l), authdResolveLocal(fc.fn, rr), op
			const ntb = "tm2/pkg/crypto/multisig/bitarray.(*CompactBitArray).NumTrueBitsBefore"
			if _, is := authdCalleeIs(fc.info(), ro, ntb); is {
				lo, ro, o = ro, lo, engine.Flip(o)
			}
			if call, is := authdCalleeIs(fc.info(), lo, ntb); is && len(call.Args) == 1 && o == token.GEQ {
				se, _ := ast.Unparen(call.Fun).(*ast.SelectorExpr)
				if se != nil && fc.path(se.X) == sigBA && sigBA != "" && (fc.obj(call.Args[0]) == sizeObj || fc.obj(authdResolveLocal(fc.fn, call.Args[0])) == sizeObj) && c44IsKF(fc, ro, recv) {
					thresh = true
				}
			}
		}
		c.Check("accept-size", key, rs.Pos(), sizeEq, "acceptance requires len(PubKeys) == BitArray.Size()")
		c.Check("accept-threshold", key, rs.Pos(), thresh, "acceptance requires BitArray.NumTrueBitsBefore(size) >= K of the receiver key (exactly K, no offset)")
	}
	c.Floor("accept-threshold", ntrue, 1)

	// the marked position
	{
		ok, why := true, ""
		se, _ := ast.Unparen(inner.Call.Fun).(*ast.SelectorExpr)
		var counter types.Object
		if se == nil || len(inner.Call.Args) != 2 {
			ok, why = false, "unexpected shape of the inner VerifyBytes call"
		} else {
			ix, isIx := ast.Unparen(se.X).(*ast.IndexExpr)
			if !isIx || engine.ObjOf(info, ix.Index) != engine.ObjOf(info, loop.Key) || loop.Key == nil {
				ok, why = false, "the verifying key is not PubKeys[i] of the loop position"
			} else if s2, isSel := ast.Unparen(ix.X).(*ast.SelectorExpr); !isSel || s2.Sel.Name != "PubKeys" || engine.ObjOf(info, s2.X) != recv {
				ok, why = false, "the verifying key is not taken from the receiver's PubKeys"
			}
			if engine.ObjOf(info, inner.Call.Args[0]) != msg {
				ok, why = false, "the constituent signature is not verified over the message parameter"
			}
			if sx, isIx := ast.Unparen(inner.Call.Args[1]).(*ast.IndexExpr); !isIx || !engine.Mentions(info, sx.X, sigObj) {
				ok, why = false, "the constituent signature is not an element of the decoded signature list"
			} else {
				counter = engine.ObjOf(info, sx.Index)
			}
		}
		// its failure alone returns false
		if ok {
			found := false
			for _, b := range g.CFG.Blocks {
				if !b.Live || len(b.Succs) != 2 || len(b.Nodes) == 0 {
					continue
				}
				cond, isE := b.Nodes[len(b.Nodes)-1].(ast.Expr)
				if !isE || !containsExpr(cond, inner.Call) {
					continue
				}
				fc := authdStripNot(cond, false)
				if ast.Unparen(fc.E) != ast.Expr(inner.Call) {
					ok, why = false, "verification of a marked position is combined with another condition: `"+engine.ExprString(cond)+"`"
					continue
				}
				failSucc := b.Succs[1]
				if fc.Neg {
					failSucc = b.Succs[0]
				}
				for _, n := range failSucc.Nodes {
					if rs, isR := n.(*ast.ReturnStmt); isR && len(rs.Results) == 1 {
						if bv, isLit := authdIsBoolLit(info, rs.Results[0]); isLit && !bv {
							found = true
						}
					}
				}
			}
			if ok && !found {
				ok, why = false, "a failed constituent verification does not return false"
			}
		}
		// enclosing conditions: GetIndex(i) and bound tests on the counter only
		marked := false
		if ok {
			for _, fc := range c44LoopFacts(f, loop, inner) {
				if call, is := authdCalleeIs(info, fc.E, "tm2/pkg/crypto/multisig/bitarray.(*CompactBitArray).GetIndex"); is && !fc.Neg && len(call.Args) == 1 &&
					engine.ObjOf(info, call.Args[0]) == engine.ObjOf(info, loop.Key) && engine.Mentions(info, call.Fun, sigObj) {
					marked = true
					continue
				}
				if _, _, _, isCmp := authdCmp(fc); isCmp && counter != nil && engine.Mentions(info, fc.E, counter) && !engine.Mentions(info, fc.E, msg) {
					continue // bound test on the signature counter
				}
				if containsExpr(fc.E, inner.Call) {
					continue
				}
				ok, why = false, "verification of a marked position is additionally conditioned on `"+engine.ExprString(fc.E)+"`"
			}
			if ok && !marked {
				ok, why = false, "the verification is not under `BitArray.GetIndex(i)`"
			}
		}
		// the counter advances in the marked branch
		if ok {
			adv := false
			ast.Inspect(loop.Body, func(n ast.Node) bool {
				if ids, isID := n.(*ast.IncDecStmt); isID && ids.Tok == token.INC && engine.ObjOf(info, ids.X) == counter && counter != nil {
					for _, fc := range c44LoopFacts(f, loop, f.SiteOf(ids)) {
						if _, is := authdCalleeIs(info, fc.E, "tm2/pkg/crypto/multisig/bitarray.(*CompactBitArray).GetIndex"); is && !fc.Neg {
							adv = true
						}
					}
				}
				return true
			})
			if !adv {
				ok, why = false, "the signature counter does not advance with each marked position: all marked keys would be checked against the same signature"
			}
		}
		if ok {
			why = "PubKeys[i].VerifyBytes(msg, Sigs[counter]) under GetIndex(i); failure returns false; counter++"
		}
		c.Check("marked-verified", f.Name, inner.Pos(), ok, why)
	}
}

func c44CondStr(r engine.GuardResult) string {
	if !r.OK {
		return r.Why
	}
	return "`" + engine.ExprString(r.Cond) + "`"
}

// c44IsK: e is recv.K or a conversion of it.
func c44IsK(info *types.Info, e ast.Expr, recv types.Object) bool {
	e = ast.Unparen(e)
	if call, ok := e.(*ast.CallExpr); ok && len(call.Args) == 1 {
		if tv, ok := info.Types[call.Fun]; ok && tv.IsType() {
			return c44IsK(info, call.Args[0], recv)
		}
		return false
	}
	se, ok := e.(*ast.SelectorExpr)
	return ok && se.Sel.Name == "K" && engine.ObjOf(info, se.X) == recv
}

// c44F is a fact known to hold at a site, possibly imported from a boolean
// predicate helper (then fn/info are the helper's and sub maps the helper's
// parameters to the caller's objects).
type c44F struct {
	authdFact
	fn  *engine.Fn
	sub map[types.Object]types.Object
}

func (x c44F) info() *types.Info { return x.fn.Info() }

// obj resolves an identifier of the fact's function to the caller's object.
func (x c44F) obj(e ast.Expr) types.Object {
	o := engine.ObjOf(x.info(), e)
	if _, isID := ast.Unparen(e).(*ast.Ident); !isID {
		return nil
	}
	if m, ok := x.sub[o]; ok {
		return m
	}
	return o
}

// path renders a selector chain rooted at a variable as "<root>.f.g" in the
// caller's terms ("" when e is not such a chain). Single-definition locals of
// the fact's function are resolved first.
func (x c44F) path(e ast.Expr) string {
	return c44Path(x.fn, x.sub, e)
}

func c44Path(f *engine.Fn, sub map[types.Object]types.Object, e ast.Expr) string {
	e = ast.Unparen(e)
	switch v := e.(type) {
	case *ast.Ident:
		o := f.Info().ObjectOf(v)
		if o == nil {
			return ""
		}
		if m, ok := sub[o]; ok {
			o = m
		}
		return fmt.Sprintf("%p", o)
	case *ast.SelectorExpr:
		if r := c44Path(f, sub, v.X); r != "" {
			return r + "." + v.Sel.Name
		}
	}
	return ""
}

// c44FactsAt returns the facts holding at st: the gates of st in f, plus, for
// every gate that is a call of a package-local boolean predicate known to be
// true, the facts under which that predicate returns true (one level of
// helpers per depth).
func c44FactsAt(f *engine.Fn, st *engine.Site, depth int) []c44F {
	var out []c44F
	for _, gt := range f.Graph().Gates(st) {
		for _, fc := range authdFacts(gt) {
			out = append(out, c44Expand(c44F{fc, f, nil}, depth)...)
		}
	}
	return out
}

func c44Expand(x c44F, depth int) []c44F {
	out := []c44F{x}
	if x.Neg || depth <= 0 {
		return out
	}
	call, ok := ast.Unparen(x.E).(*ast.CallExpr)
	if !ok {
		return out
	}
	st := x.fn.SiteOf(call)
	if st == nil {
		return out
	}
	fn, _ := st.Callee.(*types.Func)
	h := x.fn.Prog.FnOf(fn)
	if h == nil || h == x.fn {
		return out
	}
	// map h's operands to the caller's objects
	hops := authdOperands(h)
	var args []ast.Expr
	if se, isSel := ast.Unparen(call.Fun).(*ast.SelectorExpr); isSel {
		if sel, ok := x.info().Selections[se]; ok && sel.Kind() == types.MethodVal {
			args = append(args, se.X)
		}
	}
	args = append(args, call.Args...)
	sub := map[types.Object]types.Object{}
	for i, a := range args {
		if i >= len(hops) || hops[i] == nil {
			continue
		}
		if len(authdAssignsTo(h, hops[i])) != 0 {
			return out // reassigned parameter: no mapping
		}
		if o := x.obj(a); o != nil {
			sub[hops[i]] = o
		}
	}
	// the single way h returns true
	var trueFacts []c44F
	nTrue := 0
	for _, rs := range authdReturns(h) {
		if len(rs.Results) != 1 {
			return out
		}
		if bv, isLit := authdIsBoolLit(h.Info(), rs.Results[0]); isLit && !bv {
			continue
		}
		nTrue++
		rst := h.SiteOf(rs)
		if rst == nil {
			return out
		}
		for _, gt := range h.Graph().Gates(rst) {
			for _, fc := range authdFacts(gt) {
				trueFacts = append(trueFacts, c44Expand(c44F{fc, h, sub}, depth-1)...)
			}
		}
		if _, isLit := authdIsBoolLit(h.Info(), rs.Results[0]); !isLit {
			for _, cj := range engine.Conjuncts(rs.Results[0], token.LAND) {
				trueFacts = append(trueFacts, c44Expand(c44F{authdStripNot(cj, false), h, sub}, depth-1)...)
			}
		}
	}
	if nTrue == 1 {
		out = append(out, trueFacts...)
	}
	return out
}

// c44LenOf: e (in x's function, locals resolved) is len(<path>); returns the path.
func (x c44F) lenPath(e ast.Expr) string {
	e = authdResolveLocal(x.fn, e)
	call, is := authdCalleeIs(x.info(), e, "builtin.len")
	if !is || len(call.Args) != 1 {
		return ""
	}
	return x.path(call.Args[0])
}

// c44IsKF: e (in the fact's function) is K of the receiver key, possibly
// converted and/or hoisted into a local.
func c44IsKF(x c44F, e ast.Expr, recv types.Object) bool {
	e = ast.Unparen(authdResolveLocal(x.fn, e))
	if call, ok := e.(*ast.CallExpr); ok && len(call.Args) == 1 {
		if tv, ok := x.info().Types[call.Fun]; ok && tv.IsType() {
			return c44IsKF(x, call.Args[0], recv)
		}
		return false
	}
	se, ok := e.(*ast.SelectorExpr)
	return ok && se.Sel.Name == "K" && x.obj(se.X) == recv
}

// c44LoopFacts: the facts holding at st that are decided inside the loop body
// (CFG gates, so guard clauses with `continue` count like enclosing ifs).
func c44LoopFacts(f *engine.Fn, loop *ast.RangeStmt, st *engine.Site) []authdFact {
	var out []authdFact
	if st == nil {
		return nil
	}
	for _, gt := range f.Graph().Gates(st) {
		if !containsExpr(loop.Body, gt.Cond) {
			continue
		}
		out = append(out, authdFacts(gt)...)
	}
	return out
}

func c44PopcountExact(f *engine.Fn) (bool, string) {
	info := f.Info()
	g := f.Graph()
	recv := authdOperands(f)[0]
	index := paramObj(f, 0)
	if recv == nil || index == nil {
		return false, "unexpected signature"
	}
	if len(authdAssignsTo(f, index)) != 0 {
		return false, "the index parameter is reassigned"
	}
	// no direct access to the representation
	direct := ""
	engine.InspectBody(f, func(n ast.Node) {
		if se, ok := n.(*ast.SelectorExpr); ok && engine.ObjOf(info, se.X) == recv {
			if v, isVar := info.ObjectOf(se.Sel).(*types.Var); isVar && v.IsField() {
				direct = "reads `" + engine.ExprString(se) + "` directly: bits must be read through GetIndex so that positions at or beyond the requested index (and padding bits) are never counted"
			}
		}
	})
	if direct != "" {
		return false, direct
	}
	// the returned counter
	var counter types.Object
	for _, rs := range authdReturns(f) {
		if len(rs.Results) != 1 {
			return false, "unexpected return"
		}
		if v, isC := authdConstInt(info, rs.Results[0]); isC {
			if v != 0 {
				return false, "returns a non-zero constant"
			}
			continue
		}
		o := engine.ObjOf(info, rs.Results[0])
		if _, isID := ast.Unparen(rs.Results[0]).(*ast.Ident); !isID || o == nil || (counter != nil && o != counter) {
			return false, "does not return a single counter variable"
		}
		counter = o
	}
	if counter == nil {
		return false, "no counter is returned"
	}
	incs := 0
	bad := ""
	engine.InspectBody(f, func(n ast.Node) {
		switch x := n.(type) {
		case *ast.AssignStmt:
			for i, l := range x.Lhs {
				if engine.ObjOf(info, l) != counter {
					continue
				}
				if _, isID := ast.Unparen(l).(*ast.Ident); !isID {
					continue
				}
				if (x.Tok == token.DEFINE || x.Tok == token.ASSIGN) && len(x.Rhs) == len(x.Lhs) {
					if v, isC := authdConstInt(info, x.Rhs[i]); isC && v == 0 {
						continue
					}
				}
				if x.Tok == token.ADD_ASSIGN && len(x.Rhs) == 1 {
					if v, isC := authdConstInt(info, x.Rhs[0]); isC && v == 1 {
						if w := c44CountStep(f, g, f.SiteOf(x), recv, index); w != "" {
							bad = w
						} else {
							incs++
						}
						continue
					}
				}
				bad = "the counter is updated by `" + x.Tok.String() + "`, not by +1 per marked position"
			}
		case *ast.IncDecStmt:
			if engine.ObjOf(info, x.X) != counter {
				return
			}
			if x.Tok != token.INC {
				bad = "the counter is decremented"
				return
			}
			if w := c44CountStep(f, g, f.SiteOf(x), recv, index); w != "" {
				bad = w
			} else {
				incs++
			}
		}
	})
	if bad != "" {
		return false, bad
	}
	if incs == 0 {
		return false, "the counter never advances"
	}
	return true, "counts +1 exactly under GetIndex(i), i < index"
}

// c44CountStep: the increment at st happens under recv.GetIndex(i) for a loop
// variable i bounded by index; "" when fine.
func c44CountStep(f *engine.Fn, g *engine.Graph, st *engine.Site, recv, index types.Object) string {
	info := f.Info()
	if st == nil {
		return "increment not located in the CFG"
	}
	var iv types.Object
	for _, gt := range g.Gates(st) {
		for _, fc := range authdFacts(gt) {
			if call, is := authdCalleeIs(info, fc.E, "tm2/pkg/crypto/multisig/bitarray.(*CompactBitArray).GetIndex"); is && !fc.Neg && len(call.Args) == 1 {
				if se, isSel := ast.Unparen(call.Fun).(*ast.SelectorExpr); isSel && engine.ObjOf(info, se.X) == recv {
					if _, isID := ast.Unparen(call.Args[0]).(*ast.Ident); isID {
						iv = engine.ObjOf(info, call.Args[0])
					}
				}
			}
		}
	}
	if iv == nil {
		return "the counter advances without a GetIndex(i) test of the position"
	}
	// i < index: range over index, or a dominating comparison
	bounded := false
	engine.InspectBody(f, func(n ast.Node) {
		if rs, ok := n.(*ast.RangeStmt); ok && rs.Key != nil && rs.Tok == token.DEFINE && engine.ObjOf(info, rs.Key) == iv && engine.ObjOf(info, rs.X) == index && containsExpr(rs.Body, st.Node) {
			bounded = true
		}
	})
	for _, gt := range g.Gates(st) {
		for _, fc := range authdFacts(gt) {
			l, op, r, isCmp := authdCmp(fc)
			if !isCmp {
				continue
			}
			if engine.ObjOf(info, r) == iv {
				l, r, op = r, l, engine.Flip(op)
			}
			if engine.ObjOf(info, l) == iv && engine.ObjOf(info, r) == index && op == token.LSS {
				bounded = true
			}
		}
	}
	if !bounded {
		return "the counted position is not bounded by the requested index"
	}
	return ""
}
