package checks

import "gnoverif/engine"

// Shared necessary condition: the properties that state "a failing operation
// changes nothing" or conservation across failing transactions (C08, C09, C14,
// C16) all rest on the transaction rollback machinery that C02 decides — the
// checkpointing cache store and runTx's commit protocol. A change that breaks
// that machinery breaks those properties too (an independently seeded C14
// change did exactly this), so the same rules run as part of their checks.
func init() {
	for _, id := range []string{"C08", "C09", "C14", "C16"} {
		extend(id, sharedAtomicity)
	}
}

func sharedAtomicity(c *engine.Ctx) {
	p := c.Load("tm2/pkg/sdk", "tm2/pkg/store/cache", "tm2/pkg/store/cachemulti")
	if p == nil {
		return
	}
	c02runTx(c, p)
	c02cache(c, p)
}

// C24 (hashes depend only on history) shares C23's parallel-array rules: the
// childHashes / valueHashes arrays are members of the slot-parallel groups, and
// a hash moved to the wrong slot (or not moved with its child) is persisted and
// feeds the root hash. An independently seeded C24 change (copy() of
// childHashes with the separator-key bounds) is caught by exactly these rules.
func init() {
	extend("C24", func(c *engine.Ctx) {
		p := progWith(c, "tm2/pkg/bptree")
		if p == nil {
			return
		}
		c23Parallel(c, p)
	})
}

// C32 (every applied block passes validation) includes "a last commit signed by
// more than two thirds of the previous validator set": ValidateBlock delegates
// that clause to ValidatorSet.VerifyCommit, whose tally/verdict rules are
// decided by C36's check. An independently seeded C32 change (counting validly
// signed precommits for any non-nil block toward the quorum) is caught by
// exactly those rules, so they run as part of C32 too.
func init() {
	extend("C32", func(c *engine.Ctx) {
		ex := c.Explain
		c36(c)
		c.Explain = ex + " Also runs C36's commit-verification rules (preconditions, guarded-tally, verdict) on ValidatorSet.VerifyCommit, to which ValidateBlock delegates the '+2/3 signed' clause."
	})
}

// shareRules runs another property's check in a scratch context and imports
// only the obligations of the named rules (and anything undecided) into c.
func shareRules(c *engine.Ctx, fn func(*engine.Ctx), rules ...string) {
	tmp := engine.NewCtx(c.Prop, c.Tier)
	tmp.Quiet = true
	fn(tmp)
	want := map[string]bool{}
	for _, r := range rules {
		want[r] = true
	}
	n := 0
	for _, o := range tmp.Obs {
		if want[o.Rule] || o.Undec {
			c.Obs = append(c.Obs, o)
			n++
		}
	}
	c.Packages = append(c.Packages, tmp.Packages...)
	c.Floor("shared "+rules[0], n, 1)
}

// C31 (no two conflicting commits) rests on the +2/3 tallies of VoteSet being
// sound: a block's tally counts each validator's power at most once, only for
// admitted (signature-verified, right height/round/type) votes, and "+2/3" is a
// strict comparison. Those clauses are decided by C35's vote-set rules. An
// independently seeded C31 change (duplicate detection removed from
// VoteSet.getVote + blockVotes.addVerifiedVote, so a re-delivered equivocating
// vote is counted again and one validator fakes a +2/3) is caught by exactly
// these rules, so they run as part of C31 too. C35's commit-only-majority rule
// (MakeCommit) is not imported: it concerns the commit's content, not the tally.
func init() {
	extend("C31", func(c *engine.Ctx) {
		shareRules(c, c35, "sum-distinct", "vote-admission", "quorum-form")
		c.Explain += " Also imports C35's VoteSet tally rules (sum-distinct, vote-admission, quorum-form): the consensus state machine's +2/3 tests are only as sound as those tallies."
	})
}

func init() {
	mutants("C32",
		Mutant{"commit-tally-any-non-nil-block", "tm2/pkg/bft/types/validator_set.go", "\t\tif blockID.Equals(precommit.BlockID) {\n\t\t\ttalliedVotingPower += val.VotingPower\n\t\t}", "\t\tif !precommit.BlockID.IsZero() {\n\t\t\ttalliedVotingPower += val.VotingPower\n\t\t}", "guarded-tally"},
	)
	mutants("C31",
		Mutant{"blockvotes-double-count", "tm2/pkg/bft/types/vote_set.go", "	if existing := vs.votes[valIndex]; existing == nil {\n\t\tvs.bitArray.SetIndex(valIndex, true)\n\t\tvs.votes[valIndex] = vote\n\t\tvs.sum += votingPower\n\t}", "	vs.bitArray.SetIndex(valIndex, true)\n\tvs.votes[valIndex] = vote\n\tvs.sum += votingPower", "sum-distinct"},
	)
}
