package checks

// Helpers shared by the codecE checks (C20, C21, C52, C53, C54). All names are
// prefixed "ce" to stay clear of other authors' helpers.

import (
	"go/ast"
	"go/constant"
	"go/token"
	"go/types"
	"os"
	"path/filepath"
	"sort"
	"strings"

	"gnoverif/engine"
)

// ceFileOf returns the base name of the file holding pos.
func ceFileOf(p *engine.Prog, pos token.Pos) string {
	return filepath.Base(p.Fset.Position(pos).Filename)
}

// ceRecvObj returns the receiver variable of a method declaration (nil if unnamed).
func ceRecvObj(f *engine.Fn) types.Object {
	if f.Decl == nil || f.Decl.Recv == nil || len(f.Decl.Recv.List) == 0 || len(f.Decl.Recv.List[0].Names) == 0 {
		return nil
	}
	return f.Info().ObjectOf(f.Decl.Recv.List[0].Names[0])
}

// ceRecvNamed returns the named receiver type of a method and whether the receiver is a pointer.
func ceRecvNamed(f *engine.Fn) (*types.Named, bool) {
	if f.Obj == nil {
		return nil, false
	}
	sig, _ := f.Obj.Type().(*types.Signature)
	if sig == nil || sig.Recv() == nil {
		return nil, false
	}
	t := sig.Recv().Type()
	ptr := false
	if pt, ok := t.(*types.Pointer); ok {
		t, ptr = pt.Elem(), true
	}
	n, _ := types.Unalias(t).(*types.Named)
	return n, ptr
}

// ceIntConst returns the integer constant value of e, if it has one.
func ceIntConst(info *types.Info, e ast.Expr) (int64, bool) {
	tv, ok := info.Types[e]
	if !ok || tv.Value == nil {
		return 0, false
	}
	v := constant.ToInt(tv.Value)
	if v.Kind() != constant.Int {
		return 0, false
	}
	return constant.Int64Val(v)
}

// ceDirectFields lists the direct fields of struct-typed variable `recv`
// mentioned under root (as recv.F, with any wrapping), by field name. A promoted
// selection (recv.G where G lives in an embedded struct) is reported with a
// leading "^" so callers can treat it as not decided.
func ceDirectFields(info *types.Info, root ast.Node, recv types.Object) map[string]bool {
	out := map[string]bool{}
	if root == nil || recv == nil {
		return out
	}
	ast.Inspect(root, func(n ast.Node) bool {
		se, ok := n.(*ast.SelectorExpr)
		if !ok {
			return true
		}
		x := ast.Unparen(se.X)
		if st, ok := x.(*ast.StarExpr); ok {
			x = ast.Unparen(st.X)
		}
		id, ok := x.(*ast.Ident)
		if !ok || info.ObjectOf(id) != recv {
			return true
		}
		sel := info.Selections[se]
		if sel == nil || sel.Kind() != types.FieldVal {
			return true
		}
		if len(sel.Index()) == 1 {
			out[sel.Obj().Name()] = true
		} else {
			out["^"+sel.Obj().Name()] = true
		}
		return true
	})
	return out
}

func ceKeys(m map[string]bool) []string {
	var out []string
	for k := range m {
		out = append(out, k)
	}
	sort.Strings(out)
	return out
}

// ceWalkFiles returns repo-relative paths of files named base under the given
// top-level directories of the repo (skipping VCS/vendor/testdata/node_modules).
func ceWalkFiles(base string, tops ...string) []string {
	var out []string
	repo := engine.RepoDir()
	for _, top := range tops {
		filepath.WalkDir(filepath.Join(repo, top), func(path string, d os.DirEntry, err error) error {
			if err != nil {
				return nil
			}
			if d.IsDir() {
				switch d.Name() {
				case ".git", "vendor", "testdata", "node_modules":
					return filepath.SkipDir
				}
				return nil
			}
			if d.Name() == base {
				if r, err := filepath.Rel(repo, path); err == nil {
					out = append(out, r)
				}
			}
			return nil
		})
	}
	sort.Strings(out)
	return out
}

// ceReadFile reads a repo file honouring the self-test overlay.
func ceReadFile(rel string) ([]byte, error) {
	path := filepath.Join(engine.RepoDir(), rel)
	if engine.GlobalOverlay != nil {
		if b, ok := engine.GlobalOverlay[path]; ok {
			return b, nil
		}
	}
	return os.ReadFile(path)
}

// ceReadAbs reads an absolute path honouring the self-test overlay.
func ceReadAbs(path string) ([]byte, error) {
	if engine.GlobalOverlay != nil {
		if b, ok := engine.GlobalOverlay[path]; ok {
			return b, nil
		}
	}
	return os.ReadFile(path)
}

// ceReturnsNonNilLast reports whether stmt list ends in a return whose last
// result is not the literal nil (i.e. an error is returned).
func ceReturnsNonNilLast(list []ast.Stmt) bool {
	if len(list) == 0 {
		return false
	}
	r, ok := list[len(list)-1].(*ast.ReturnStmt)
	if !ok || len(r.Results) == 0 {
		return false
	}
	return !isNil(r.Results[len(r.Results)-1])
}

// ceFlattenAdd flattens a + b + c into its addends (left to right).
func ceFlattenAdd(e ast.Expr) []ast.Expr {
	e = ast.Unparen(e)
	if b, ok := e.(*ast.BinaryExpr); ok && b.Op == token.ADD {
		return append(ceFlattenAdd(b.X), ceFlattenAdd(b.Y)...)
	}
	return []ast.Expr{e}
}

func ceHasPrefixAny(s string, ps ...string) bool {
	for _, p := range ps {
		if strings.HasPrefix(s, p) {
			return true
		}
	}
	return false
}

// ceCallName renders the resolved callee of a call ("" if dynamic).
func ceCallName(info *types.Info, call *ast.CallExpr) string {
	var id *ast.Ident
	switch f := ast.Unparen(call.Fun).(type) {
	case *ast.Ident:
		id = f
	case *ast.SelectorExpr:
		id = f.Sel
	case *ast.IndexExpr:
		switch g := ast.Unparen(f.X).(type) {
		case *ast.Ident:
			id = g
		case *ast.SelectorExpr:
			id = g.Sel
		}
	}
	if id == nil {
		return ""
	}
	switch o := info.Uses[id].(type) {
	case *types.Func:
		return engine.FuncName(o)
	case *types.Builtin:
		return "builtin." + o.Name()
	}
	return ""
}

// ceSingleDef returns the defining expression of a local variable that is assigned
// exactly once in f's root function (`v := e` / `var v = e`), else nil.
func ceSingleDef(f *engine.Fn, v types.Object) ast.Expr {
	if v == nil {
		return nil
	}
	root := f.Root()
	info := root.Info()
	var def ast.Expr
	n := 0
	ast.Inspect(root.Body, func(x ast.Node) bool {
		switch s := x.(type) {
		case *ast.AssignStmt:
			for i, l := range s.Lhs {
				if id, ok := ast.Unparen(l).(*ast.Ident); ok && info.ObjectOf(id) == v {
					n++
					if len(s.Lhs) == len(s.Rhs) {
						def = s.Rhs[i]
					} else {
						def = nil
						n += 10
					}
				}
			}
		case *ast.ValueSpec:
			for i, id := range s.Names {
				if info.ObjectOf(id) == v {
					n++
					if len(s.Values) == len(s.Names) {
						def = s.Values[i]
					} else if len(s.Values) != 0 {
						n += 10
					}
				}
			}
		case *ast.IncDecStmt:
			if id, ok := ast.Unparen(s.X).(*ast.Ident); ok && info.ObjectOf(id) == v {
				n += 10
			}
		case *ast.UnaryExpr:
			if id, ok := ast.Unparen(s.X).(*ast.Ident); ok && s.Op == token.AND && info.ObjectOf(id) == v {
				n += 10
			}
		case *ast.RangeStmt:
			for _, e := range []ast.Expr{s.Key, s.Value} {
				if e != nil {
					if id, ok := ast.Unparen(e).(*ast.Ident); ok && info.ObjectOf(id) == v {
						n += 10
					}
				}
			}
		}
		return true
	})
	if n != 1 {
		return nil
	}
	return def
}

func ceConstantInt64(k *types.Const) (int64, bool) {
	v := constant.ToInt(k.Val())
	if v.Kind() != constant.Int {
		return 0, false
	}
	return constant.Int64Val(v)
}

// ceTupleDef: v is defined exactly once, as the idx-th left-hand side of a
// multi-value assignment from a single call; returns that call and idx.
func ceTupleDef(f *engine.Fn, v types.Object) (*ast.CallExpr, int) {
	if v == nil {
		return nil, 0
	}
	root := f.Root()
	info := root.Info()
	var call *ast.CallExpr
	idx, n := 0, 0
	ast.Inspect(root.Body, func(x ast.Node) bool {
		switch s := x.(type) {
		case *ast.AssignStmt:
			for i, l := range s.Lhs {
				if id, ok := ast.Unparen(l).(*ast.Ident); ok && info.ObjectOf(id) == v {
					n++
					if len(s.Lhs) > 1 && len(s.Rhs) == 1 {
						if c, ok := ast.Unparen(s.Rhs[0]).(*ast.CallExpr); ok {
							call, idx = c, i
						}
					}
				}
			}
		case *ast.IncDecStmt:
			if id, ok := ast.Unparen(s.X).(*ast.Ident); ok && info.ObjectOf(id) == v {
				n += 10
			}
		case *ast.UnaryExpr:
			if id, ok := ast.Unparen(s.X).(*ast.Ident); ok && s.Op == token.AND && info.ObjectOf(id) == v {
				n += 10
			}
		}
		return true
	})
	if n != 1 {
		return nil, 0
	}
	return call, idx
}
