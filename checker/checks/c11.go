package checks

import (
	"go/ast"
	"go/token"
	"go/types"
	"strconv"
	"strings"

	"gnoverif/engine"
)

// C11 — the VM never crashes and stays within its resource limits: the recovery
// and limiting scaffolding is in place on every keeper entry that runs Gno code.
func init() {
	register("C11", c11)
	meta("C11", Meta{
		Text: "Decides that the crash-containment and resource-limiting scaffolding is in place: (1) in gno.land/pkg/sdk/vm every call that executes Gno code on a Machine (Run*/Eval*/Preprocess* methods) is dominated by the registration of `defer doRecover/doRecoverQuery(m, &err)` on the same machine with err a named result, (or a deferred closure that recovers), and by `defer m.Release()`; boot-time stdlib loading is the only frozen exemption; (2) every such call in a message/query handler is preceded by SetPreprocessAllocator(NewAllocator(positive const)) whose allocator got the gas meter, and the reset is deferred; the MachineOptions literal of those handlers sets Store, Alloc and GasMeter; (3) every VMKeeper.Query* entry installs a finite gas meter (NewGasMeter(positive const)) before touching the store, directly or through a helper that does; (4) Machine.runOnce's deferred handler converts only *Exception panics and re-panics everything else, and Machine.Run drives runOnce in a loop without recursion; (5) doRecoverInternal turns every non-nil panic value into *e (never swallows), re-panics out-of-gas only when asked, doRecover asks for it and doRecoverQuery does not; (6) the forked parser is entered from gnolang only through the callback variants with newParserCallback(m), the callback charges the gas meter per token with the nesting level, and the parser enforces a nesting bound; type-checking in AddPackage/Run is preceded by chargePreprocessGas. Level 'other'.",
		Note:      "Not covered: absence of Go runtime faults (nil/bounds/stack overflow) inside the 60 kLOC interpreter and preprocessor, memory bounds of the Go type checker, hangs inside native code; panics raised by keeper code before its doRecover is registered (MustParseExpr/argument conversion in Call) are left to baseapp.runTx's recover. Exemptions: VMKeeper.Initialize and loadStdlibPackage (boot time, no user input).",
		Technique: "go/cfg dominance of defer registrations, composite-literal key coverage, who-may-call tables for parser entry points, clause classification in recover handlers",
		Ref:       "DESIGN.md §2 C11",
	})
	const k = "gno.land/pkg/sdk/vm/keeper.go"
	mutants("C11",
		Mutant{"run-main-before-recover", k, "defer doRecover(m2, &err)\n\tm2.RunMainMaybeCrossing()", "m2.RunMainMaybeCrossing()\n\tdefer doRecover(m2, &err)", "run-under-recover gno.land/pkg/sdk/vm.(*VMKeeper).Run"},
		Mutant{"query-eval-recover-dropped", k, "defer m.Release()\n\tdefer doRecoverQuery(m, &err)\n\txx, err := m.ParseExpr(expr)", "defer m.Release()\n\txx, err := m.ParseExpr(expr)", "run-under-recover gno.land/pkg/sdk/vm.(*VMKeeper).withQueryEvalMachine"},
		Mutant{"recover-wrong-error-slot", k, "defer m2.Release()\n\tdefer doRecover(m2, &err)\n\t// Per-tx preprocess allocator", "defer m2.Release()\n\tvar err2 error\n\tdefer doRecover(m2, &err2)\n\t// Per-tx preprocess allocator", "run-under-recover gno.land/pkg/sdk/vm.(*VMKeeper).AddPackage"},
		Mutant{"prealloc-not-installed", k, "gnostore.SetPreprocessAllocator(preAlloc)\n\tdefer gnostore.SetPreprocessAllocator(nil)\n\tm2.RunMemPackage(memPkg, true)", "defer gnostore.SetPreprocessAllocator(nil)\n\tm2.RunMemPackage(memPkg, true)", "prealloc gno.land/pkg/sdk/vm.(*VMKeeper).AddPackage"},
		Mutant{"prealloc-no-gas-meter", k, "preAlloc := gno.NewAllocator(maxAllocTx)\n\tpreAlloc.SetGasMeter(ctx.GasMeter())\n\tgnostore.SetPreprocessAllocator(preAlloc)\n\tdefer gnostore.SetPreprocessAllocator(nil)\n\t// Construct machine and evaluate.", "preAlloc := gno.NewAllocator(maxAllocTx)\n\tgnostore.SetPreprocessAllocator(preAlloc)\n\tdefer gnostore.SetPreprocessAllocator(nil)\n\t// Construct machine and evaluate.", "prealloc gno.land/pkg/sdk/vm.(*VMKeeper).Call"},
		Mutant{"query-without-gas-limit", k, "func (vm *VMKeeper) QueryFuncs(ctx sdk.Context, pkgPath string) (fsigs FunctionSignatures, err error) {\n\tctx = ctx.WithGasMeter(store.NewGasMeter(maxGasQuery))", "func (vm *VMKeeper) QueryFuncs(ctx sdk.Context, pkgPath string) (fsigs FunctionSignatures, err error) {", "query-gas-limit gno.land/pkg/sdk/vm.(*VMKeeper).QueryFuncs"},
		Mutant{"runonce-swallows-foreign-panics", "gnovm/pkg/gnolang/machine.go", "caught = ex\n\t\t\t} else {\n\t\t\t\tpanic(r)\n\t\t\t}", "caught = ex\n\t\t\t} else {\n\t\t\t\tcaught = &Exception{}\n\t\t\t}", "runonce-recover"},
		Mutant{"query-oog-swallowed-silently", k, "if repanicOutOfGas {\n\t\t\t\tpanic(oog)\n\t\t\t}\n\t\t\t*e = oog\n\t\t\treturn", "if repanicOutOfGas {\n\t\t\t\tpanic(oog)\n\t\t\t}\n\t\t\treturn", "recover-classify"},
		Mutant{"deliver-oog-not-repanicked", k, "const repanicOutOfGas = true", "const repanicOutOfGas = false", "recover-classify"},
		Mutant{"parser-without-callback", "gnovm/pkg/gnolang/go2gno.go", "astf, err := parser.ParseFile2(fs, fname, body, parseOpts, newParserCallback(m))", "astf, err := parser.ParseFile2(fs, fname, body, parseOpts, nil)", "parser-entry"},
		Mutant{"typecheck-before-gas", k, "chargePreprocessGas(ctx, params, memPkg, \"RunPreprocess\")\n", "", "typecheck-gas gno.land/pkg/sdk/vm.(*VMKeeper).Run"},
	)
}

const gbV = "gno.land/pkg/sdk/vm."

func c11(c *engine.Ctx) {
	c.Explain = "Decides that crash containment and resource limits are installed on every VM entry of the keeper: defer doRecover*/Release registered before any Machine Run*/Eval*/Preprocess* call (same machine, &err of a named result); per-tx preprocess allocator with hard cap and gas meter installed before running, reset by defer; MachineOptions carries Store/Alloc/GasMeter; every Query* entry installs a finite gas meter first; runOnce recovers only *Exception and Run is iterative; doRecoverInternal never swallows a panic value and re-panics out-of-gas in deliver mode only; the forked parser is entered only via the gas/nesting callback variants; type-check is preceded by chargePreprocessGas. Not covered: absence of Go runtime faults inside the interpreter/preprocessor/type checker, memory of go/types, hangs in natives."
	p := c.Load("gno.land/pkg/sdk/vm", "gnovm/pkg/gnolang", "gnovm/pkg/parser")
	if p == nil {
		return
	}
	gbC11Keeper(c, p)
	gbC11QueryGas(c, p)
	gbC11RunOnce(c, p)
	gbC11Recover(c, p)
	gbC11Parser(c, p)
}

func gbIsRunOp(name string) bool {
	if !strings.HasPrefix(name, gbM) {
		return false
	}
	m := strings.TrimPrefix(name, gbM)
	return strings.HasPrefix(m, "Run") || strings.HasPrefix(m, "Eval") || strings.HasPrefix(m, "Preprocess")
}

// gbReg: the registration point of a deferred call as a dominating site.
func gbReg(s *engine.Site) *engine.Site {
	return &engine.Site{Fn: s.Fn, Node: s.Node, Call: s.Call, Callee: s.Callee, Block: s.Block, Idx: s.Idx, Ord: s.Ord, Top: s.Top}
}

// gbNamedResult: o is a named result of f or of one of its enclosing functions.
func gbNamedResult(f *engine.Fn, o types.Object) bool {
	for ; f != nil; f = f.Parent {
		if f.Type.Results == nil {
			continue
		}
		for _, fld := range f.Type.Results.List {
			for _, nm := range fld.Names {
				if f.Info().ObjectOf(nm) == o {
					return true
				}
			}
		}
	}
	return false
}

func gbC11Keeper(c *engine.Ctx, p *engine.Prog) {
	bootExempt := map[string]string{
		gbV + "(*VMKeeper).Initialize": "boot-time re-preprocessing of already-deployed packages (no user input in this call)",
		gbV + "loadStdlibPackage":      "boot/genesis stdlib loading from disk",
	}
	handlers := map[string]bool{ // message/query handlers that must install the preprocess allocator
		gbV + "(*VMKeeper).AddPackage": true, gbV + "(*VMKeeper).Call": true, gbV + "(*VMKeeper).Run": true,
		gbV + "(*VMKeeper).withQueryEvalMachine": true, gbV + "(*VMKeeper).callRealmBool": true,
	}
	for h := range handlers {
		c.MustFunc(h)
	}
	nRun, nPre, nOpt := 0, 0, 0
	ord := map[string]int{}
	for _, f := range p.FuncsIn("gno.land/pkg/sdk/vm") {
		g := f.Graph()
		info := f.Info()
		for _, s := range f.Calls() {
			name := s.CalleeName()
			if !gbIsRunOp(name) {
				continue
			}
			sel, ok := ast.Unparen(s.Call.Fun).(*ast.SelectorExpr)
			if !ok {
				continue
			}
			mobj := engine.ObjOf(info, sel.X)
			root := f.Root().Name
			k := root + " " + strings.TrimPrefix(name, gbM)
			ord[k]++
			key := k + " #" + strconv.Itoa(ord[k])
			if why, ex := bootExempt[root]; ex {
				c.Check("run-under-recover", key, s.Pos(), true, "frozen exemption: "+why)
				continue
			}
			nRun++
			// (1a) recover registered before, same machine, &err of a named result
			ok1, why1 := false, "no `defer doRecover*(m, &err)` (or recovering deferred closure) is registered on every path before this call"
			for _, d := range f.Calls() {
				if !d.Deferred {
					continue
				}
				dn := d.CalleeName()
				if dn == gbV+"doRecover" || dn == gbV+"doRecoverQuery" {
					if !g.Dominates(gbReg(d), s) {
						continue
					}
					if len(d.Call.Args) != 2 || engine.ObjOf(info, d.Call.Args[0]) != mobj || mobj == nil {
						why1 = "the deferred " + dn + " guards a different machine"
						continue
					}
					u, isU := ast.Unparen(d.Call.Args[1]).(*ast.UnaryExpr)
					if !isU || u.Op != token.AND || !gbNamedResult(f, engine.ObjOf(info, u.X)) {
						why1 = "the recovered error is not stored into a named result of the handler (it would be lost)"
						continue
					}
					ok1, why1 = true, dn+" registered before the call"
				} else if fl, isLit := ast.Unparen(d.Call.Fun).(*ast.FuncLit); isLit && g.Dominates(gbReg(d), s) {
					for _, l := range f.Lits {
						if l.Lit == fl && len(l.CallsTo("builtin.recover")) > 0 {
							ok1, why1 = true, "a recovering deferred closure is registered before the call"
						}
					}
				}
			}
			c.Check("run-under-recover", key, s.Pos(), ok1, why1)
			// (1b) release deferred
			ok2 := false
			for _, d := range f.Calls() {
				if d.Deferred && d.CalleeName() == gbM+"Release" && g.Dominates(gbReg(d), s) {
					if rs, isSel := ast.Unparen(d.Call.Fun).(*ast.SelectorExpr); isSel && engine.ObjOf(info, rs.X) == mobj {
						ok2 = true
					}
				}
			}
			if _, isParam := mobj.(*types.Var); isParam && gbIsParam(f, mobj) {
				ok2 = true // machine owned by the caller
			}
			c.Check("run-releases", key, s.Pos(), ok2, "`defer m.Release()` must be registered before running (machine pool hygiene on panic)")
			// (2) preprocess allocator
			if handlers[root] {
				nPre++
				ok3, why3 := gbPreAlloc(f, s)
				c.Check("prealloc", key, s.Pos(), ok3, why3)
			}
		}
		// (2b) MachineOptions literal of the handlers
		if handlers[f.Root().Name] {
			engine.InspectBody(f, func(n ast.Node) {
				cl, ok := n.(*ast.CompositeLit)
				if !ok {
					return
				}
				if t := info.TypeOf(cl); t == nil || engine.TypeName(t) != "gnovm/pkg/gnolang.MachineOptions" {
					return
				}
				nOpt++
				have := map[string]ast.Expr{}
				for _, el := range cl.Elts {
					if kv, ok := el.(*ast.KeyValueExpr); ok {
						if id, ok := kv.Key.(*ast.Ident); ok {
							have[id.Name] = kv.Value
						}
					}
				}
				var missing []string
				for _, need := range []string{"Store", "Alloc", "GasMeter"} {
					if v, ok := have[need]; !ok || isNil(v) {
						missing = append(missing, need)
					}
				}
				okG := true
				if v, ok := have["GasMeter"]; ok {
					if call, isC := ast.Unparen(v).(*ast.CallExpr); !isC || !strings.HasSuffix(gbCalleeName(info, call), ".GasMeter") {
						okG = false
					}
				}
				ord["opt "+f.Root().Name]++
				c.Check("machine-options", f.Root().Name+" #"+strconv.Itoa(ord["opt "+f.Root().Name]), cl.Pos(), len(missing) == 0 && okG, "MachineOptions of a handler must set Store, Alloc and GasMeter: ctx.GasMeter(); missing/nil: "+join(missing))
			})
		}
	}
	c.Floor("run-under-recover", nRun, 8)
	c.Floor("prealloc", nPre, 7)
	c.Floor("machine-options", nOpt, 6)

	// type-check is preceded by the size-based preprocess gas charge
	for _, nm := range []string{"AddPackage", "Run"} {
		f := c.MustFunc(gbV + "(*VMKeeper)." + nm)
		if f == nil {
			continue
		}
		g := f.Graph()
		tcs := f.CallsTo(gbG + "TypeCheckMemPackage")
		chs := f.CallsTo(gbV + "chargePreprocessGas")
		c.Floor("typecheck-gas "+nm, len(tcs), 1)
		for _, t := range tcs {
			ok := false
			for _, ch := range chs {
				if g.Dominates(ch, t) && len(ch.Call.Args) >= 3 && len(t.Call.Args) >= 1 && engine.ObjOf(f.Info(), ch.Call.Args[2]) == engine.ObjOf(f.Info(), t.Call.Args[0]) {
					ok = true
				}
			}
			c.Check("typecheck-gas", f.Name, t.Pos(), ok, "TypeCheckMemPackage(memPkg) must be preceded by chargePreprocessGas(ctx, params, memPkg, …) (the Go parser/type checker run un-metered)")
		}
	}
	if f := c.MustFunc(gbV + "chargePreprocessGas"); f != nil {
		n := len(f.CallsTo("tm2/pkg/store/types.(GasMeter).ConsumeGas"))
		c.Check("typecheck-gas", f.Name+" consumes gas", f.Pos(), n >= 1, "must charge the context's gas meter")
	}
}

// gbPreAlloc: run-op s is dominated by store.SetPreprocessAllocator(a) with
// a := NewAllocator(<const > 0>) and a.SetGasMeter(…) before; the reset is deferred.
func gbPreAlloc(f *engine.Fn, s *engine.Site) (bool, string) {
	// the installation lives in the root handler; literals inherit it if the literal is
	// created after the installation.
	root := f.Root()
	target := s
	if f != root {
		// locate the literal (as a node) in the root's CFG
		var lit *engine.Fn
		for lit = f; lit.Parent != nil && lit.Parent != root; lit = lit.Parent {
		}
		target = root.SiteOf(lit.Lit)
		if target == nil {
			return false, "cannot locate the enclosing closure in the handler's CFG"
		}
	}
	g := root.Graph()
	info := root.Info()
	d := gbCollectDefs(root)
	const setPA = ".SetPreprocessAllocator"
	why := "no SetPreprocessAllocator(<fresh capped allocator>) dominates the run"
	for _, ins := range root.Calls() {
		if !strings.HasSuffix(ins.CalleeName(), setPA) || ins.Deferred || len(ins.Call.Args) != 1 || isNil(ins.Call.Args[0]) {
			continue
		}
		if !g.Dominates(ins, target) {
			continue
		}
		a := engine.ObjOf(info, ins.Call.Args[0])
		if a == nil {
			why = "installed allocator is not a local variable"
			continue
		}
		capped, metered := false, false
		for _, r := range d.defs[a] {
			call, ok := ast.Unparen(r).(*ast.CallExpr)
			if !ok {
				continue
			}
			if gbCalleeName(info, call) == gbG+"NewAllocator" && len(call.Args) == 1 {
				if v, isC := gbConstInt(info, call.Args[0]); isC && v > 0 {
					capped = true
				}
				continue
			}
			// a private constructor helper: returns NewAllocator(<its parameter>) with the gas meter set,
			// and this call site passes a positive constant for that parameter
			if cs := root.SiteOf(call); cs != nil {
				if fo, isF := cs.Callee.(*types.Func); isF {
					if h := root.Prog.FnOf(fo); h != nil {
						hc, hm := gbAllocHelper(h, call, info)
						capped = capped || hc
						metered = metered || (hc && hm)
					}
				}
			}
		}
		if !capped {
			why = "the preprocess allocator is not NewAllocator(<positive constant>) (0 means unlimited/nil), directly or via a constructor helper"
			continue
		}
		for _, sg := range root.CallsTo(gbG + "(*Allocator).SetGasMeter") {
			if sel, ok := ast.Unparen(sg.Call.Fun).(*ast.SelectorExpr); ok && engine.ObjOf(info, sel.X) == a && g.Dominates(sg, ins) && len(sg.Call.Args) == 1 && !isNil(sg.Call.Args[0]) {
				metered = true
			}
		}
		if !metered {
			why = "the preprocess allocator has no gas meter (allocation during preprocessing would be free)"
			continue
		}
		reset := false
		for _, dr := range root.Calls() {
			if dr.Deferred && strings.HasSuffix(dr.CalleeName(), setPA) && len(dr.Call.Args) == 1 && isNil(dr.Call.Args[0]) {
				reset = true
			}
		}
		if !reset {
			why = "SetPreprocessAllocator(nil) is not deferred"
			continue
		}
		return true, "capped, metered preprocess allocator installed before running; reset deferred"
	}
	return false, why
}

// gbAllocHelper: h is a constructor helper: every return yields a variable (or call) defined as
// NewAllocator(p) with p a parameter of h for which `call` passes a positive constant (or a positive
// constant itself); metered reports that SetGasMeter(non-nil) is applied to it on every normal exit.
func gbAllocHelper(h *engine.Fn, call *ast.CallExpr, callerInfo *types.Info) (capped, metered bool) {
	info := h.Info()
	d := gbCollectDefs(h)
	paramIndex := func(o types.Object) int {
		for i := 0; ; i++ {
			po := paramObj(h, i)
			if po == nil {
				return -1
			}
			if po == o {
				return i
			}
		}
	}
	nRet := 0
	capped = true
	var allocVar types.Object
	engine.InspectBody(h, func(n ast.Node) {
		r, ok := n.(*ast.ReturnStmt)
		if !ok {
			return
		}
		nRet++
		if len(r.Results) != 1 {
			capped = false
			return
		}
		e := r.Results[0]
		if id, isId := ast.Unparen(e).(*ast.Ident); isId {
			allocVar = info.ObjectOf(id)
		}
		e = d.resolveLocal(e)
		nc, isC := ast.Unparen(e).(*ast.CallExpr)
		if !isC || gbCalleeName(info, nc) != gbG+"NewAllocator" || len(nc.Args) != 1 {
			capped = false
			return
		}
		if v, isK := gbConstInt(info, nc.Args[0]); isK {
			if v <= 0 {
				capped = false
			}
			return
		}
		i := paramIndex(engine.ObjOf(info, nc.Args[0]))
		if i < 0 || i >= len(call.Args) {
			capped = false
			return
		}
		if v, isK := gbConstInt(callerInfo, call.Args[i]); !isK || v <= 0 {
			capped = false
		}
	})
	if nRet == 0 {
		return false, false
	}
	if allocVar != nil {
		var sets []*engine.Site
		for _, sg := range h.CallsTo(gbG + "(*Allocator).SetGasMeter") {
			if sel, ok := ast.Unparen(sg.Call.Fun).(*ast.SelectorExpr); ok && engine.ObjOf(info, sel.X) == allocVar && len(sg.Call.Args) == 1 && !isNil(sg.Call.Args[0]) {
				sets = append(sets, sg)
			}
		}
		metered = len(sets) > 0 && gbExitWithout(h, sets, nil) == nil
	}
	return capped, metered
}

// ---- (3) query gas limits ----
func gbC11QueryGas(c *engine.Ctx, p *engine.Prog) {
	memo := map[string]int{} // 0 unknown, 1 ok, 2 bad, 3 in progress
	var limited func(f *engine.Fn) (bool, string)
	limited = func(f *engine.Fn) (bool, string) {
		switch memo[f.Name] {
		case 1:
			return true, "memo"
		case 2, 3:
			return false, "not limited"
		}
		memo[f.Name] = 3
		g := f.Graph()
		info := f.Info()
		ctxP := types.Object(nil)
		for i := 0; ; i++ {
			o := paramObj(f, i)
			if o == nil {
				break
			}
			if strings.HasSuffix(engine.TypeName(o.Type()), "tm2/pkg/sdk.Context") {
				ctxP = o
				break
			}
		}
		if ctxP == nil {
			memo[f.Name] = 2
			return false, "no sdk.Context parameter"
		}
		// the limiting assignment: ctx = ctx.WithGasMeter(NewGasMeter(K))
		var lim *engine.Site
		for _, s := range f.Calls() {
			if strings.HasSuffix(s.CalleeName(), "tm2/pkg/sdk.(Context).WithGasMeter") && len(s.Call.Args) == 1 {
				if call, ok := ast.Unparen(s.Call.Args[0]).(*ast.CallExpr); ok {
					cn := engine.ExprString(call.Fun)
					if (strings.HasSuffix(cn, "NewGasMeter")) && !strings.Contains(cn, "Infinite") && len(call.Args) == 1 {
						if v, isC := gbConstInt(info, call.Args[0]); isC && v > 0 {
							if vs := gbAssignedVars(f, s); len(vs) == 1 && vs[0] == ctxP {
								if lim == nil || g.Dominates(s, lim) {
									lim = s
								}
							}
						}
					}
				}
			}
		}
		okAll, why := true, "finite gas meter installed before the context is used"
		uses := 0
		check := func(fn *engine.Fn, gr *engine.Graph, atRoot bool) {
			for _, s := range fn.Calls() {
				if s == lim {
					continue
				}
				passes := false
				for _, a := range s.Call.Args {
					if engine.ObjOf(info, a) == ctxP {
						passes = true
					}
				}
				if !passes {
					continue
				}
				uses++
				if lim != nil && atRoot && gr.Dominates(lim, s) {
					continue
				}
				if lim != nil && !atRoot {
					// inside a closure created after the limit
					continue
				}
				// delegation: callee itself limited
				if fo, ok := s.Callee.(*types.Func); ok {
					if cf := p.FnOf(fo); cf != nil {
						if ok2, _ := limited(cf); ok2 {
							continue
						}
					}
				}
				okAll, why = false, "`"+s.CalleeName()+"` receives the context before a finite gas meter is installed"
			}
		}
		check(f, g, true)
		for _, l := range f.AllLits() {
			check(l, l.Graph(), false)
		}
		if uses == 0 {
			okAll, why = false, "context never used (idiom changed?)"
		}
		if okAll {
			memo[f.Name] = 1
		} else {
			memo[f.Name] = 2
		}
		return okAll, why
	}
	n := 0
	for _, f := range p.FuncsIn("gno.land/pkg/sdk/vm") {
		if f.Obj == nil || !strings.HasPrefix(f.Name, gbV+"(*VMKeeper).Query") {
			continue
		}
		n++
		ok, why := limited(f)
		c.Check("query-gas-limit", f.Name, f.Pos(), ok, why)
	}
	c.Floor("query-gas-limit", n, 12)
}

// ---- (4) runOnce / Run ----
func gbC11RunOnce(c *engine.Ctx, p *engine.Prog) {
	f := c.MustFunc(gbM + "runOnce")
	if f != nil {
		var h *engine.Fn
		for _, l := range f.Lits {
			if len(l.CallsTo("builtin.recover")) > 0 {
				h = l
			}
		}
		deferred := false
		engine.InspectBody(f, func(n ast.Node) {
			if ds, ok := n.(*ast.DeferStmt); ok && h != nil {
				if fl, ok := ast.Unparen(ds.Call.Fun).(*ast.FuncLit); ok && fl == h.Lit {
					deferred = true
				}
			}
		})
		if h == nil || !deferred {
			c.Check("runonce-recover", f.Name+" deferred recover handler", f.Pos(), false, "runOnce must defer a closure that recovers")
		} else {
			g := h.Graph()
			info := h.Info()
			// the comma-ok of r.(*Exception)
			var okObj types.Object
			engine.InspectBody(h, func(n ast.Node) {
				as, ok := n.(*ast.AssignStmt)
				if !ok || len(as.Lhs) != 2 || len(as.Rhs) != 1 {
					return
				}
				if ta, ok := ast.Unparen(as.Rhs[0]).(*ast.TypeAssertExpr); ok && strings.HasSuffix(engine.TypeName(info.TypeOf(ta.Type)), "gnolang.Exception") {
					okObj = engine.ObjOf(info, as.Lhs[1])
				}
			})
			// the recovered value
			var rObj types.Object
			for _, rs := range h.CallsTo("builtin.recover") {
				if vs := gbAssignedVars(h, rs); len(vs) == 1 {
					rObj = vs[0]
				}
			}
			okFact := func(fs []gbFact, want bool) bool {
				for _, ft := range fs {
					if id, isId := ast.Unparen(ft.E).(*ast.Ident); isId && okObj != nil && info.ObjectOf(id) == okObj && ft.Pos == want {
						return true
					}
				}
				return false
			}
			// (b) `caught` is assigned only where the recovered value is known to be *Exception
			onlyEx := true
			nAssign := 0
			var assigns []*engine.Site
			engine.InspectBody(h, func(n ast.Node) {
				as, ok := n.(*ast.AssignStmt)
				if !ok {
					return
				}
				for _, l := range as.Lhs {
					if o := engine.ObjOf(info, l); o != nil && gbNamedResult(f, o) {
						nAssign++
						st := h.SiteOf(as)
						if st == nil || !okFact(gbFactsOf(g.Gates(st)), true) {
							onlyEx = false
						} else {
							assigns = append(assigns, st)
						}
					}
				}
			})
			// (a) every other non-nil recovered value reaches a panic: no normal exit is reachable
			// without passing an assignment of `caught`, except along the "recovered value is nil" edge;
			// and the re-panic carries the recovered value where it is known not to be *Exception
			repanic := false
			for _, s := range h.CallsTo("builtin.panic") {
				if len(s.Call.Args) == 1 && rObj != nil && engine.ObjOf(info, s.Call.Args[0]) == rObj && okFact(gbFactsOf(g.Gates(s)), false) {
					repanic = true
				}
			}
			if rObj != nil && repanic {
				avoid := map[*cfgBlock]bool{}
				for _, st := range assigns {
					avoid[st.Block] = true
				}
				seen := map[*cfgBlock]bool{}
				var leak *cfgBlock
				exits := map[*cfgBlock]bool{}
				for _, ex := range gbNormalExits(h) {
					exits[ex] = true
				}
				var walk func(b *cfgBlock)
				walk = func(b *cfgBlock) {
					if seen[b] || avoid[b] || leak != nil {
						return
					}
					seen[b] = true
					if exits[b] {
						leak = b
						return
					}
					cut := -1
					if len(b.Succs) == 2 && len(b.Nodes) > 0 {
						if cond, isE := b.Nodes[len(b.Nodes)-1].(ast.Expr); isE {
							var fs []gbFact
							gbSplitFact(cond, true, &fs)
							if len(fs) == 1 {
								if x, isNilHolds, isCmp := gbIsNilCmp(fs[0]); isCmp && engine.ObjOf(info, x) == rObj {
									cut = 1 // cond true means r != nil: the nil side is the false edge
									if isNilHolds {
										cut = 0
									}
								}
							}
						}
					}
					for i, sc := range b.Succs {
						if i != cut {
							walk(sc)
						}
					}
				}
				if len(g.CFG.Blocks) > 0 {
					walk(g.CFG.Blocks[0])
				}
				if leak != nil {
					repanic = false
				}
			}
			c.Check("runonce-recover", f.Name+" re-panics non-Exception", h.Pos(), okObj != nil && repanic, "a recovered value that is not *Exception must be re-panicked (only Gno-level exceptions are converted)")
			c.Check("runonce-recover", f.Name+" converts only *Exception", h.Pos(), okObj != nil && onlyEx && nAssign >= 1, "the result `caught` may be set only from a recovered *Exception")
		}
	}
	if r := c.MustFunc(gbM + "Run"); r != nil {
		calls := r.CallsTo(gbM + "runOnce")
		inLoop := false
		for _, s := range calls {
			engine.InspectBody(r, func(n ast.Node) {
				if fs, ok := n.(*ast.ForStmt); ok && fs.Body.Pos() <= s.Pos() && s.Pos() < fs.Body.End() {
					inLoop = true
				}
			})
		}
		self := len(r.CallsToDeep(gbM+"Run")) > 0
		c.Check("runonce-recover", r.Name+" iterative", r.Pos(), inLoop && !self, "Run must drive runOnce from a loop and never call itself (a panic storm must not grow the Go stack)")
		// pushPanic consumes the caught exception
		okPush := false
		for _, s := range r.CallsTo(gbM + "pushPanic") {
			for _, ro := range calls {
				if r.Graph().ReachableAfter(ro, s) {
					okPush = true
				}
			}
		}
		c.Check("runonce-recover", r.Name+" re-injects exception", r.Pos(), okPush, "a caught exception must be fed back through pushPanic")
	}
}

// ---- (5) doRecover classification ----
func gbC11Recover(c *engine.Ctx, p *engine.Prog) {
	f := c.MustFunc(gbV + "doRecoverInternal")
	if f != nil {
		g := f.Graph()
		info := f.Info()
		eP := paramObj(f, 1)
		rP := paramObj(f, 2)
		flag := paramObj(f, 3)
		// stores to *e
		var stores []*engine.Site
		engine.InspectBody(f, func(n ast.Node) {
			as, ok := n.(*ast.AssignStmt)
			if !ok {
				return
			}
			for _, l := range as.Lhs {
				if st, ok := ast.Unparen(l).(*ast.StarExpr); ok && engine.ObjOf(info, st.X) == eP {
					if s := f.SiteOf(as); s != nil {
						stores = append(stores, s)
					}
				}
			}
		})
		// every normal exit either stored *e, or is under r == nil
		ex := gbExitWithout(f, stores, func(b *cfgBlock) bool {
			if len(b.Nodes) == 0 {
				return false
			}
			st := f.SiteOf(b.Nodes[len(b.Nodes)-1])
			if st == nil {
				return false
			}
			for _, gt := range g.Gates(st) {
				if bx, ok := ast.Unparen(gt.Cond).(*ast.BinaryExpr); ok && gt.OnTrue && bx.Op == token.EQL && isNil(bx.Y) && engine.ObjOf(info, bx.X) == rP {
					return true
				}
			}
			return false
		})
		c.Check("recover-classify", f.Name+" never swallows", f.Pos(), len(stores) >= 3 && ex == nil, "every non-nil recovered value must end in *e = … or a re-panic; silent exit near "+gbBlockPos(f, ex))
		// panic(oog) gated by the flag
		okFlag := false
		for _, s := range f.CallsTo("builtin.panic") {
			for _, gt := range g.Gates(s) {
				if id, ok := ast.Unparen(gt.Cond).(*ast.Ident); ok && info.ObjectOf(id) == flag && gt.OnTrue {
					if len(s.Call.Args) == 1 && strings.HasSuffix(engine.TypeName(info.TypeOf(s.Call.Args[0])), "OutOfGasError") {
						okFlag = true
					}
				}
			}
		}
		c.Check("recover-classify", f.Name+" out-of-gas re-panic", f.Pos(), okFlag, "out-of-gas must be re-panicked (for baseapp's accounting) exactly when repanicOutOfGas is set")
	}
	for nm, want := range map[string]bool{"doRecover": true, "doRecoverQuery": false} {
		h := c.MustFunc(gbV + nm)
		if h == nil {
			continue
		}
		info := h.Info()
		ok, why := false, "no doRecoverInternal call"
		for _, s := range h.CallsTo(gbV + "doRecoverInternal") {
			if len(s.Call.Args) != 4 {
				continue
			}
			tv, has := info.Types[s.Call.Args[3]]
			if !has || tv.Value == nil {
				why = "repanicOutOfGas argument is not a constant"
				continue
			}
			if (tv.Value.String() == "true") == want {
				ok, why = true, "passes repanicOutOfGas="+tv.Value.String()
			} else {
				why = "passes repanicOutOfGas=" + tv.Value.String() + ", expected " + strconv.FormatBool(want)
			}
			// r comes from recover() called directly in this deferred function
			if len(h.CallsTo("builtin.recover")) == 0 {
				ok, why = false, "recover() is not called directly by the deferred function (would always return nil)"
			}
		}
		c.Check("recover-classify", h.Name, h.Pos(), ok, why)
	}
	if h := c.MustFunc(gbV + "doRecoverQueryNoMachine"); h != nil {
		info := h.Info()
		eP := paramObj(h, 0)
		var stores []*engine.Site
		engine.InspectBody(h, func(n ast.Node) {
			if as, ok := n.(*ast.AssignStmt); ok {
				for _, l := range as.Lhs {
					if st, ok := ast.Unparen(l).(*ast.StarExpr); ok && engine.ObjOf(info, st.X) == eP {
						if s := h.SiteOf(as); s != nil {
							stores = append(stores, s)
						}
					}
				}
			}
		})
		g := h.Graph()
		ex := gbExitWithout(h, stores, func(b *cfgBlock) bool {
			if len(b.Nodes) == 0 {
				return false
			}
			st := h.SiteOf(b.Nodes[len(b.Nodes)-1])
			if st == nil {
				return false
			}
			for _, gt := range g.Gates(st) {
				if bx, ok := ast.Unparen(gt.Cond).(*ast.BinaryExpr); ok && gt.OnTrue && bx.Op == token.EQL && isNil(bx.Y) {
					if _, isId := ast.Unparen(bx.X).(*ast.Ident); isId {
						return true
					}
				}
			}
			return false
		})
		c.Check("recover-classify", h.Name+" never swallows", h.Pos(), len(stores) >= 2 && ex == nil && len(h.CallsTo("builtin.recover")) == 1, "every recovered value must be stored into *e")
	}
}

// ---- (6) parser entry points ----
func gbC11Parser(c *engine.Ctx, p *engine.Prog) {
	const P = "gnovm/pkg/parser."
	withCB := map[string]bool{P + "ParseFile2": true, P + "ParseExpr2": true, P + "ParseExprFrom2": true}
	// frozen table: who may use the callback-less entry points of the forked parser inside gnolang
	plainAllowed := map[string]string{
		gbG + "ParseFilePackageName": "parses the package clause only",
	}
	n := 0
	ord := map[string]int{}
	for _, f := range p.FuncsIn("gnovm/pkg/gnolang") {
		for _, s := range f.Calls() {
			name := s.CalleeName()
			if !strings.HasPrefix(name, P+"Parse") {
				continue
			}
			n++
			k := f.Root().Name + " -> " + strings.TrimPrefix(name, P)
			ord[k]++
			key := k + " #" + strconv.Itoa(ord[k])
			if withCB[name] {
				last := s.Call.Args[len(s.Call.Args)-1]
				call, ok := ast.Unparen(last).(*ast.CallExpr)
				good := ok && gbCalleeName(f.Info(), call) == gbG+"newParserCallback" && len(call.Args) == 1 && strings.HasSuffix(engine.TypeName(f.Info().TypeOf(call.Args[0])), "gnolang.Machine")
				c.Check("parser-entry", key, s.Pos(), good, "the gas/nesting callback newParserCallback(m) must be passed (nil disables per-token gas)")
				continue
			}
			why, ok := plainAllowed[f.Root().Name]
			c.Check("parser-entry", key, s.Pos(), ok, "callback-less entry of the forked parser used outside the frozen table; "+why)
		}
	}
	c.Floor("parser-entry", n, 4)
	if f := c.MustFunc(gbG + "newParserCallback"); f != nil {
		// returns nil only when there is no machine / meter; the callback consumes gas mentioning nestLev
		g := f.Graph()
		okNil := true
		engine.InspectBody(f, func(x ast.Node) {
			r, ok := x.(*ast.ReturnStmt)
			if !ok || len(r.Results) != 1 || !isNil(r.Results[0]) {
				return
			}
			st := f.SiteOf(r)
			good := false
			if st != nil {
				for _, gt := range g.Gates(st) {
					if !gt.OnTrue {
						continue
					}
					all := true
					for _, a := range engine.Conjuncts(gt.Cond, token.LOR) {
						bx, ok := ast.Unparen(a).(*ast.BinaryExpr)
						if !ok || bx.Op != token.EQL || !isNil(bx.Y) {
							all = false
						}
					}
					if all {
						good = true
					}
				}
			}
			if !good {
				okNil = false
			}
		})
		charges := false
		for _, l := range f.Lits {
			for _, s := range l.CallsTo("tm2/pkg/store/types.(GasMeter).ConsumeGas") {
				if len(l.Graph().Gates(s)) == 0 && len(s.Call.Args) == 2 {
					// amount depends on the nesting level parameter
					if lv := paramObj(l, 1); lv != nil && engine.Mentions(l.Info(), s.Call.Args[0], lv) {
						charges = true
					}
				}
			}
		}
		c.Check("parser-entry", f.Name, f.Pos(), okNil && charges, "callback may be nil only without machine/meter and must unconditionally charge gas growing with the nesting level")
	}
	// nesting bound inside the forked parser: incNestLev panics/errs beyond a constant
	found := false
	for _, f := range p.FuncsIn("gnovm/pkg/parser") {
		if f.Obj == nil || !strings.HasSuffix(f.Name, ".incNestLev") {
			continue
		}
		g := f.Graph()
		info := f.Info()
		for _, s := range f.Calls() {
			for _, gt := range g.Gates(s) {
				if bx, ok := ast.Unparen(gt.Cond).(*ast.BinaryExpr); ok && gt.OnTrue && bx.Op == token.GTR && engine.MentionsName(bx.X, "nestLev") {
					if v, isC := gbConstInt(info, bx.Y); isC && v > 0 && v <= 1_000_000 {
						found = true
					}
				}
			}
		}
		c.Check("parser-entry", f.Name+" nesting bound", f.Pos(), found, "parser recursion must be bounded by a constant nesting limit")
	}
	if !found {
		c.Floor("parser-entry nesting bound", 0, 1)
	}
}
