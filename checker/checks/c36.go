package checks

import (
	"go/ast"
	"go/token"
	"go/types"
	"strings"

	"gnoverif/engine"
)

// C36 — commit verification: guarded accumulation and strict verdict.
func init() {
	register("C36", c36)
	meta("C36", Meta{
		Text:      "Decides the structural clauses of ValidatorSet.VerifyCommit / VerifyFutureCommit: (1) the tally is reached only after commit.ValidateBasic succeeded, the precommit count equals the validator count, the commit height equals the requested height and the commit's block id equals the requested one (VerifyFutureCommit: only after newSet.VerifyCommit on the same arguments succeeded); (2) voting power is added to the tally at exactly one place, only for a non-nil precommit whose signature over commit.VoteSignBytes(chainID, idx) verified with the key of the validator the power is taken from (VerifyCommit: the validator at that index; VerifyFutureCommit: the old-set validator with the precommit's address, not yet seen, with height/round/type tests) and whose BlockID equals the requested block id; an invalid signature is an error exit; (3) success is returned only when tally > total*2/3 (strict), every other exit is an error; (4) Commit.ValidateBasic rejects nil-block / empty commits and precommits of the wrong type, height or round. Level 'other'.",
		Note:      "Not covered: the 'exactly' direction beyond these necessary conditions (e.g. that a commit with enough valid signatures plus one invalid stray signature is rejected — it is, by an error exit, which the property's 'exactly when' arguably does not demand), signature cryptography, arithmetic overflow of the tally (bounded by MaxTotalVotingPower elsewhere).",
		Technique: "go/cfg gate facts with resolved-symbol normalisation; single-writer accumulation; exit tables",
		Ref:       "DESIGN.md §2 C35 / C36",
	})
	const V = "tm2/pkg/bft/types/validator_set.go"
	mutants("C36",
		Mutant{"tally-before-sig-check", V, "\t\tif !val.PubKey.VerifyBytes(precommitSignBytes, precommit.Signature) {\n\t\t\treturn fmt.Errorf(\"invalid commit -- invalid signature: %v\", precommit)\n\t\t}", "\t\tif !val.PubKey.VerifyBytes(precommitSignBytes, precommit.Signature) {\n\t\t\tcontinue\n\t\t}", "verdict"},
		Mutant{"tally-any-block", V, "\t\tif blockID.Equals(precommit.BlockID) {\n\t\t\ttalliedVotingPower += val.VotingPower\n\t\t}", "\t\tif blockID.Equals(precommit.BlockID) || precommit.BlockID.IsZero() {\n\t\t\ttalliedVotingPower += val.VotingPower\n\t\t}", "guarded-tally"},
		Mutant{"tally-not-strict", V, "\tif talliedVotingPower > vals.TotalVotingPower()*2/3 {", "\tif talliedVotingPower >= vals.TotalVotingPower()*2/3 {", "verdict"},
		Mutant{"height-unchecked", V, "\tif height != commit.Height() {\n\t\treturn NewErrInvalidCommitHeight(height, commit.Height())\n\t}", "\tif height > commit.Height() {\n\t\treturn NewErrInvalidCommitHeight(height, commit.Height())\n\t}", "preconditions"},
		Mutant{"blockid-unchecked", V, "\tif !blockID.Equals(commit.BlockID) {\n\t\treturn fmt.Errorf(\"invalid commit -- wrong block id: want %v got %v\",\n\t\t\tblockID, commit.BlockID)\n\t}", "", "preconditions"},
		Mutant{"future-double-count", V, "\t\tif val == nil || seen[oldIdx] {\n\t\t\tcontinue // missing or double vote...\n\t\t}", "\t\tif val == nil {\n\t\t\tcontinue // missing or double vote...\n\t\t}", "guarded-tally"},
		Mutant{"future-old-power-not-strict", V, "\tif oldVotingPower <= oldVals.TotalVotingPower()*2/3 {", "\tif oldVotingPower < oldVals.TotalVotingPower()*2/3 {", "verdict"},
		Mutant{"future-skips-new-set", V, "\terr := newSet.VerifyCommit(chainID, blockID, height, commit)\n\tif err != nil {\n\t\treturn err\n\t}", "\terr := newSet.VerifyCommit(chainID, blockID, height, commit)\n\tif err != nil && !IsErrTooMuchChange(err) {\n\t\treturn err\n\t}", "preconditions"},
		Mutant{"sig-over-other-index", V, "\t\tprecommitSignBytes := commit.VoteSignBytes(chainID, idx)\n\t\tif !val.PubKey.VerifyBytes(precommitSignBytes, precommit.Signature) {\n\t\t\treturn fmt.Errorf(", "\t\tprecommitSignBytes := commit.VoteSignBytes(chainID, 0)\n\t\tif !val.PubKey.VerifyBytes(precommitSignBytes, precommit.Signature) {\n\t\t\treturn fmt.Errorf(", "guarded-tally"},
		Mutant{"basic-round-unchecked", "tm2/pkg/bft/types/block.go", "\t\tif precommit.Round != round {", "\t\tif precommit.Round < round {", "commit-basic"},
	)
}

func c36(c *engine.Ctx) {
	c.Explain = "Decides structural necessary conditions of commit verification: preconditions (ValidateBasic, size, height, block id; resp. newSet.VerifyCommit) gate the tally; power is accumulated at one site only for a non-nil precommit with a verified signature by the validator whose power is added and a matching block id (plus seen/height/round/type tests in VerifyFutureCommit); nil is returned only on tally > total*2/3; Commit.ValidateBasic rejects wrong type/height/round. Not covered: the full 'exactly when' equivalence, cryptography, overflow."
	p := c.Load("tm2/pkg/bft/types")
	if p == nil {
		return
	}
	hhUse(p)
	hhSetStops()
	const VSET = "tm2/pkg/bft/types.(*ValidatorSet)."
	type spec struct {
		fn       string
		pre      []string // facts required at the tally
		tally    []string
		lookup   string // how the validator is obtained
		verdict  string
		verdictT bool // verdict fact must be true (else false)
	}
	sig := "val.PubKey.VerifyBytes(commit.VoteSignBytes(chainID, idx), pc.Signature)"
	specs := []spec{
		{
			fn:      "VerifyCommit",
			pre:     []string{"commit.ValidateBasic() == nil", "vals.Size() == len(commit.Precommits)", "height == commit.Height()", "blockID.Equals(commit.BlockID)"},
			tally:   []string{"pc != nil", sig, "blockID.Equals(pc.BlockID)"},
			lookup:  "vals.GetByIndex(idx)",
			verdict: "tally > vals.TotalVotingPower() * 2 / 3",
		},
		{
			fn:      "VerifyFutureCommit",
			pre:     []string{"newSet.VerifyCommit(chainID, blockID, height, commit) == nil"},
			tally:   []string{"pc != nil", "pc.Height == height", "pc.Round == commit.Round()", "pc.Type == PrecommitType", "val != nil", "!seen[oldIdx]", sig, "blockID.Equals(pc.BlockID)"},
			lookup:  "vals.GetByAddress(pc.ValidatorAddress)",
			verdict: "tally > vals.TotalVotingPower() * 2 / 3",
		},
	}
	for _, sp := range specs {
		f := c.MustFunc(VSET + sp.fn)
		if f == nil {
			continue
		}
		info := f.Info()
		recv := hhRecv(f)
		names := map[types.Object]string{recv: "vals"}
		for i, o := range hhParamsOf(f) {
			_ = i
			names[o] = o.Name()
		}
		// canonical parameter names
		ps := hhParamsOf(f)
		canon := []string{"chainID", "blockID", "height", "commit"}
		if sp.fn == "VerifyFutureCommit" {
			canon = []string{"newSet", "chainID", "blockID", "height", "commit"}
		}
		if len(ps) != len(canon) {
			c.Check("preconditions", f.Name+" signature", f.Pos(), false, "unexpected parameter list")
			continue
		}
		for i, o := range ps {
			names[o] = canon[i]
		}
		commit := ps[len(ps)-1]
		// the tally site: the only `x += <validator>.VotingPower`
		var tallySite *engine.Site
		var tallyObj, valObj types.Object
		nAdd := 0
		engine.InspectBody(f, func(n ast.Node) {
			as, ok := n.(*ast.AssignStmt)
			if !ok || as.Tok != token.ADD_ASSIGN || len(as.Lhs) != 1 {
				return
			}
			r, fs, isC := hhChain(info, as.Rhs[0])
			if !isC || len(fs) != 1 || fs[0] != "VotingPower" {
				return
			}
			nAdd++
			tallySite = f.SiteOf(as)
			tallyObj = engine.ObjOf(info, as.Lhs[0])
			valObj = r
		})
		c.Check("guarded-tally", f.Name+" exactly one accumulation site", f.Pos(), nAdd == 1 && tallySite != nil && tallyObj != nil, "found "+hhItoa(nAdd))
		if nAdd != 1 || tallySite == nil || tallyObj == nil {
			continue
		}
		names[tallyObj] = "tally"
		names[valObj] = "val"
		// tally variable: defined as 0, otherwise only the accumulation
		as := hhAssignsTo(f, tallyObj)
		okInit := len(as) == 2
		for _, a := range as {
			if st, isSt := a.(*ast.AssignStmt); isSt && st.Tok == token.DEFINE {
				if tv, ok := info.Types[st.Rhs[0]]; !ok || tv.Value == nil || tv.Value.String() != "0" {
					okInit = false
				}
			}
		}
		c.Check("guarded-tally", f.Name+" tally starts at 0 and has no other writer", tallySite.Pos(), okInit, "assignments to the tally: "+hhItoa(len(as)))
		// the range
		rs := hhEnclosingRange(f, tallySite.Node)
		okRange := rs != nil && rs.Key != nil && rs.Value != nil && hhIsChain(info, rs.X, commit, "Precommits")
		c.Check("guarded-tally", f.Name+" tally loop ranges over commit.Precommits", tallySite.Pos(), okRange, "")
		if !okRange {
			continue
		}
		idx, pc := engine.ObjOf(info, rs.Key), engine.ObjOf(info, rs.Value)
		names[idx], names[pc] = "idx", "pc"
		okLoopVars := len(hhAssignsTo(f, idx)) == 1 && len(hhAssignsTo(f, pc)) == 1
		c.Check("guarded-tally", f.Name+" loop variables not re-assigned", rs.Pos(), okLoopVars, "")
		// the validator lookup that defines val
		lk := ""
		for _, s := range f.CallsTo(VSET+"GetByIndex", VSET+"GetByAddress") {
			rv := hhResultVars(f, s)
			if len(rv) == 2 && rv[1] == valObj {
				if rv[0] != nil {
					names[rv[0]] = "oldIdx"
				}
				lk = hhNorm(f, ast.Unparen(s.Call.Fun).(*ast.SelectorExpr).X, names, 2) + "." + s.CalleeName()[strings.LastIndex(s.CalleeName(), ".")+1:] + "(" + hhNorm(f, hhArg(s.Call, 0), names, 2) + ")"
				if len(hhAssignsTo(f, valObj)) != 1 {
					lk += " (re-assigned)"
				}
			}
		}
		c.Check("guarded-tally", f.Name+" power taken from "+sp.lookup, tallySite.Pos(), lk == sp.lookup, "validator obtained by `"+lk+"`")
		// `seen` map in the future-commit variant
		for _, o := range []string{"seen"} {
			engine.InspectBody(f, func(n ast.Node) {
				st, ok := n.(*ast.AssignStmt)
				if ok && st.Tok == token.DEFINE && len(st.Lhs) == 1 {
					if id := hhIdent(st.Lhs[0]); id != nil && id.Name == o {
						if _, isMap := info.TypeOf(st.Rhs[0]).Underlying().(*types.Map); isMap {
							names[info.ObjectOf(id)] = "seen"
						}
					}
				}
			})
		}
		ctx := map[string]bool{}
		// the range element and the indexed element are the same thing
		canonEl := func(t string) string { return strings.ReplaceAll(t, "commit.Precommits[idx]", "pc") }
		all := hhCtx(f, tallySite, names, 2)
		for i := range all {
			all[i] = canonEl(all[i])
		}
		for _, x := range all {
			ctx[x] = true
		}
		for _, want := range sp.pre {
			c.Check("preconditions", f.Name+" tally requires "+want, tallySite.Pos(), ctx[want], "conditions at the tally: "+strings.Join(all, "; "))
		}
		for _, want := range sp.tally {
			c.Check("guarded-tally", f.Name+" tally requires "+want, tallySite.Pos(), ctx[want], "conditions at the tally: "+strings.Join(all, "; "))
		}
		// what `err` is: the guard call
		switch sp.fn {
		case "VerifyCommit":
			ok := false
			for _, s := range f.CallsTo("tm2/pkg/bft/types.(*Commit).ValidateBasic") {
				if engine.ObjOf(info, ast.Unparen(s.Call.Fun).(*ast.SelectorExpr).X) == commit {
					ok, _ = hhErrGuard(f, s, tallySite)
				}
			}
			c.Check("preconditions", f.Name+" commit.ValidateBasic() succeeded", tallySite.Pos(), ok, "a malformed commit must be rejected before any tally")
		case "VerifyFutureCommit":
			ok, why := false, "no newSet.VerifyCommit call"
			for _, s := range f.CallsTo(VSET + "VerifyCommit") {
				args := hhNorm(f, ast.Unparen(s.Call.Fun).(*ast.SelectorExpr).X, names, 0)
				for _, a := range s.Call.Args {
					args += ", " + hhNorm(f, a, names, 0)
				}
				if args != "newSet, chainID, blockID, height, commit" {
					why = "VerifyCommit called with (" + args + ")"
					continue
				}
				ok, why = hhErrGuard(f, s, tallySite)
			}
			c.Check("preconditions", f.Name+" newSet.VerifyCommit(same arguments) succeeded", tallySite.Pos(), ok, why)
			// seen[oldIdx] = true before the tally
			okSeen := false
			engine.InspectBody(f, func(n ast.Node) {
				st, isSt := n.(*ast.AssignStmt)
				if !isSt || len(st.Lhs) != 1 {
					return
				}
				if hhNorm(f, st.Lhs[0], names, 0) == "seen[oldIdx]" && hhNorm(f, st.Rhs[0], names, 0) == "true" {
					if s := f.SiteOf(st); s != nil && (f.Graph().Dominates(s, tallySite) || s.Block == tallySite.Block) {
						okSeen = true
					}
				}
			})
			c.Check("guarded-tally", f.Name+" marks the old validator as seen", tallySite.Pos(), okSeen, "each old validator may be counted once")
		}
		// exits
		nNil, nErr := 0, 0
		for _, rb := range f.Graph().ReturnBlocks() {
			r := rb.Return()
			if len(r.Results) != 1 {
				continue
			}
			rsite := f.SiteOf(r)
			if isNil(r.Results[0]) {
				nNil++
				got := hhCtx(f, rsite, names, 2)
				has := false
				for _, x := range got {
					if x == sp.verdict {
						has = true
					}
				}
				c.Check("verdict", f.Name+" success only when "+sp.verdict, r.Pos(), has, "conditions at `return nil`: "+strings.Join(got, "; "))
				// and only after the loop completed: not inside the range body
				in := rs.Body.Pos() <= r.Pos() && r.Pos() < rs.Body.End()
				c.Check("verdict", f.Name+" success exit is after the tally loop", r.Pos(), !in && f.Graph().ReachableAfter(tallySite, rsite), "")
			} else {
				nErr++
			}
		}
		c.Check("verdict", f.Name+" exactly one success exit", f.Pos(), nNil == 1, "found "+hhItoa(nNil))
		c.Floor("verdict "+sp.fn+" error exits", nErr, 4)
		// an invalid signature is an error exit (never silently skipped, never counted)
		sigErr := false
		for _, rb := range f.Graph().ReturnBlocks() {
			r := rb.Return()
			if len(r.Results) != 1 || isNil(r.Results[0]) {
				continue
			}
			for _, ft := range hhSufficient(f, f.SiteOf(r)) {
				if !ft.True && canonEl(hhNorm(f, ft.E, names, 2)) == sig {
					sigErr = true
				}
			}
		}
		c.Check("verdict", f.Name+" invalid signature is an error", f.Pos(), sigErr, "a precommit whose signature does not verify must make verification fail")
	}

	// ---- Commit.ValidateBasic ----
	if f := c.MustFunc("tm2/pkg/bft/types.(*Commit).ValidateBasic"); f != nil {
		recv := hhRecv(f)
		names := map[types.Object]string{recv: "commit"}
		info := f.Info()
		engine.InspectBody(f, func(n ast.Node) {
			if rs, ok := n.(*ast.RangeStmt); ok && rs.Value != nil && hhIsChain(info, rs.X, recv, "Precommits") {
				names[engine.ObjOf(info, rs.Value)] = "pc"
			}
		})
		suff := map[string]bool{}
		for _, rb := range f.Graph().ReturnBlocks() {
			r := rb.Return()
			if len(r.Results) != 1 || isNil(r.Results[0]) {
				continue
			}
			for _, ft := range hhSufficient(f, f.SiteOf(r)) {
				if x, op, y, ok := hhCmp(ft); ok {
					suff[hhNorm(f, x, names, 2)+" "+op.String()+" "+hhNorm(f, y, names, 2)] = true
					continue
				}
				t := hhNorm(f, ft.E, names, 2)
				if !ft.True {
					t = "!" + t
				}
				suff[t] = true
			}
		}
		for _, want := range []string{
			"commit.BlockID.IsZero()",
			"len(commit.Precommits) == 0",
			"pc.Type != PrecommitType",
			"pc.Height != commit.Height()",
			"pc.Round != commit.Round()",
		} {
			c.Check("commit-basic", f.Name+" rejects "+want, f.Pos(), suff[want], "error conditions found: "+join(engine.SortedKeys(suff)))
		}
	}
}
