package checks

import (
	"go/ast"
	"go/token"
	"go/types"

	"gnoverif/engine"
)

// C40 — mempool: bounded reaping, lock discipline, removal of committed txs,
// cache/size gates before admission.
func init() {
	register("C40", c40)
	meta("C40", Meta{
		Text:      "Decides, over all paths of the anchored mempool functions, the structural clauses: reap appends are gated by a strict count bound resp. by both limit tests on in-loop accumulators; reap/CheckTx hold the mempool mutex around every call and Commit holds Lock around Update; Update's removal depends only on presence; the application is reached only after size/cache gates; addTx has one caller gated on a nil-error response. Level 'other': a necessary-condition check on code shape, not a model of interleavings.",
		Note:      "Not covered: schedules of CheckTx/Update/recheck, clist ordering, recheck cursor logic. Trusts go/types+go/cfg; && / || are treated as one condition.",
		Technique: "go/cfg gate analysis (dominating conditions, strictness of comparison), who-may-call table, lock-dominance",
		Ref:       "DESIGN.md §2 C40",
	})
	mutants("C40",
		Mutant{"reap-off-by-one", "tm2/pkg/bft/mempool/clist_mempool.go", "len(txs) < maxVal;", "len(txs) <= maxVal;", "reap-count-bound"},
		Mutant{"gas-limit-dropped", "tm2/pkg/bft/mempool/clist_mempool.go", "if maxGas > -1 && newTotalGas > maxGas {", "if maxGas > -1 && newTotalGas > maxGas && false {", "reap-limit"},
		Mutant{"update-skips-failed", "tm2/pkg/bft/mempool/clist_mempool.go", "if e, ok := mem.txsMap.Load(txKey(tx)); ok {\n\t\t\tmem.removeTx(tx, e.(*clist.CElement), false)", "if e, ok := mem.txsMap.Load(txKey(tx)); ok && deliverTxResponses[i].Error == nil {\n\t\t\tmem.removeTx(tx, e.(*clist.CElement), false)", "update-removes"},
		Mutant{"update-skips-uncached", "tm2/pkg/bft/mempool/clist_mempool.go", "			_ = mem.cache.Push(tx)\n", "			if mem.cache.Push(tx) {\n\t\t\t\tcontinue\n\t\t\t}\n", "every committed tx is looked up"},
		Mutant{"cache-check-dropped", "tm2/pkg/bft/mempool/clist_mempool.go", "if !mem.cache.Push(tx) {", "if !mem.cache.Push(tx) && txInfo.SenderID == 77 {", "admission-gate"},
		Mutant{"reap-unlocked", "tm2/pkg/bft/mempool/clist_mempool.go", "func (mem *CListMempool) ReapMaxTxs(maxVal int) types.Txs {\n\tmem.mtx.Lock()\n\tdefer mem.mtx.Unlock()", "func (mem *CListMempool) ReapMaxTxs(maxVal int) types.Txs {", "holds-lock"},
	)
}

func c40(c *engine.Ctx) {
	c.Explain = "Decides structural necessary conditions of the mempool property: (1) in ReapMaxTxs every append to the result is gated by a STRICT comparison len(result) < requested; (2) in ReapMaxBytesMaxGas every append is gated by the byte-limit and gas-limit tests on accumulators updated in the same loop; (3) the reap and CheckTx entry points take the mempool mutex before any other call and release it by defer, and BlockExecutor.Commit holds Lock around Update; (4) Update's removal of a committed tx is conditional only on the tx being present (never on the deliver result); (5) CheckTxWithInfo reaches the application only after the size, tx-size and cache tests, and a tx is added to the list only on a nil-error CheckTx response. Not covered: interleavings of CheckTx/Update/recheck, arrival order of the clist, recheck behaviour."
	p := c.Load("tm2/pkg/bft/mempool", "tm2/pkg/bft/state")
	if p == nil {
		return
	}
	const M = "tm2/pkg/bft/mempool.(*CListMempool)."

	// (1) ReapMaxTxs: strict count bound.
	if f := c.MustFunc(M + "ReapMaxTxs"); f != nil {
		info := f.Info()
		maxParam := paramObj(f, 0)
		n := 0
		for _, s := range f.CallsTo("builtin.append") {
			as, ok := s.Top.(*ast.AssignStmt)
			if !ok || len(as.Lhs) != 1 {
				continue
			}
			res := engine.ObjOf(info, as.Lhs[0])
			if res == nil || !returnsObj(f, res) {
				continue
			}
			n++
			ok, why := strictLenBound(f, s, res, maxParam)
			c.Check("reap-count-bound", f.Name+" append("+res.Name()+")", s.Pos(), ok, why)
		}
		c.Floor("reap-count-bound", n, 1)
	}

	// (2) ReapMaxBytesMaxGas: both limits gate the append.
	if f := c.MustFunc(M + "ReapMaxBytesMaxGas"); f != nil {
		info := f.Info()
		n := 0
		for _, s := range f.CallsTo("builtin.append") {
			as, ok := s.Top.(*ast.AssignStmt)
			if !ok || len(as.Lhs) != 1 {
				continue
			}
			res := engine.ObjOf(info, as.Lhs[0])
			if res == nil || !returnsObj(f, res) {
				continue
			}
			n++
			for i, nm := range []string{"maxDataBytes", "maxGas"} {
				lim := paramObj(f, i)
				ok, why := limitGate(f, s, lim)
				c.Check("reap-limit", f.Name+" append gated by "+nm, s.Pos(), ok, why)
			}
		}
		c.Floor("reap-limit", n, 1)
	}

	// (3) lock discipline.
	for _, name := range []string{"ReapMaxTxs", "ReapMaxBytesMaxGas", "CheckTxWithInfo"} {
		if f := c.MustFunc(M + name); f != nil {
			ok, why := locksFirst(f, "mtx")
			c.Check("holds-lock", f.Name, f.Pos(), ok, why)
		}
	}
	if f := c.MustFunc("tm2/pkg/bft/state.(*BlockExecutor).Commit"); f != nil {
		g := f.Graph()
		locks := f.CallsTo("tm2/pkg/bft/mempool.(Mempool).Lock")
		ups := f.CallsTo("tm2/pkg/bft/mempool.(Mempool).Update")
		c.Floor("update-under-lock", len(ups), 1)
		for _, u := range ups {
			ok := g.MustPass(u, locks)
			c.Check("update-under-lock", f.Name+" -> Mempool.Update", u.Pos(), ok, "every path to Mempool.Update must pass Mempool.Lock")
		}
		hasDeferUnlock := false
		for _, s := range f.CallsTo("tm2/pkg/bft/mempool.(Mempool).Unlock") {
			if s.Deferred {
				hasDeferUnlock = true
			}
		}
		c.Check("update-under-lock", f.Name+" defer Unlock", f.Pos(), hasDeferUnlock, "Unlock must be deferred so the lock is released on every exit")
	}

	// (4) Update removes every committed tx that is present. The removal and the
	// presence lookup are searched through in-package helpers (the per-tx body
	// may be extracted into one).
	if f := c.MustFunc(M + "Update"); f != nil {
		g := f.Graph()
		info := f.Info()
		var txLoops []*ast.RangeStmt
		engine.InspectBody(f, func(n ast.Node) {
			if rs, ok := n.(*ast.RangeStmt); ok {
				if o := engine.ObjOf(info, rs.X); o != nil && o == paramObj(f, 1) {
					txLoops = append(txLoops, rs)
				}
			}
		})
		var rm []engine.DeepSite
		for _, d := range f.DeepCallsTo(2, M+"removeTx") {
			for _, l := range txLoops {
				if containsExpr(l.Body, d.Outer.Node) {
					rm = append(rm, d) // removals belonging to the committed-tx loop (others: recheck path)
				}
			}
		}
		c.Floor("update-removes", len(rm), 1)
		isLoad := func(fn *engine.Fn, n ast.Node) bool {
			call, ok := n.(*ast.CallExpr)
			if !ok {
				return false
			}
			sel, ok := call.Fun.(*ast.SelectorExpr)
			return ok && sel.Sel.Name == "Load" && engine.MentionsName(sel.X, "txsMap")
		}
		loads := f.DeepFind(2, isLoad)
		for _, d := range rm {
			s := d.Outer
			ok, why := true, "removal gated only by presence in txsMap"
			var loop *ast.RangeStmt
			ast.Inspect(f.Body, func(n ast.Node) bool {
				if rs, ok := n.(*ast.RangeStmt); ok && rs.Body.Pos() <= s.Pos() && s.Pos() < rs.Body.End() {
					if o := engine.ObjOf(info, rs.X); o != nil && o == paramObj(f, 1) {
						loop = rs
					}
				}
				return true
			})
			if loop == nil {
				ok, why = false, "removeTx is not reached from inside the loop over the committed txs"
			}
			for _, gt := range d.DeepGates() {
				// allowed: the comma-ok of txsMap.Load (in whichever function the gate lives)
				allowed := false
				for _, fn := range append([]*engine.Fn{f}, d.Chain...) {
					if isLoadOK(fn, gt.Cond) && gt.OnTrue {
						allowed = true
					}
				}
				if !allowed {
					ok, why = false, "removal additionally depends on condition `"+engine.ExprString(gt.Cond)+"`"
				}
			}
			c.Check("update-removes", f.Name+" removeTx", s.Pos(), ok, why)
			if loop == nil {
				continue
			}
			// every iteration over the committed txs performs the presence lookup: no path
			// through the loop body (or through the helper that holds the lookup) skips it.
			var outerLoads []*engine.Site
			okIter := true
			for _, l := range loads {
				if !containsExpr(loop.Body, l.Outer.Node) {
					continue
				}
				outerLoads = append(outerLoads, l.Outer)
				if l.Inner != l.Outer {
					h := l.Inner.Fn
					hg := h.Graph()
					for _, rb := range hg.ReturnBlocks() {
						if rs := h.SiteOf(rb.Return()); rs != nil && !hg.MustPass(rs, []*engine.Site{l.Inner}) {
							okIter = false
						}
					}
				}
			}
			okIter = okIter && iterationMustPass(f, loop, outerLoads)
			c.Check("update-removes", f.Name+" every committed tx is looked up", loop.Pos(), okIter, "some path through the loop over committed txs skips the txsMap.Load/removeTx step (e.g. an early continue): a committed tx could stay in the mempool")
		}
		_ = g
	}

	// (5) admission gates.
	if f := c.MustFunc(M + "CheckTxWithInfo"); f != nil {
		g := f.Graph()
		tg := f.CallsTo("tm2/pkg/bft/abci/client.(Client).CheckTxAsync", "tm2/pkg/bft/appconn.(Mempool).CheckTxAsync")
		c.Floor("admission-gate", len(tg), 1)
		for _, t := range tg {
			// cache
			okc := false
			why := "no cache.Push test gates the application call"
			for _, gs := range f.CallsTo("tm2/pkg/bft/mempool.(txCache).Push") {
				if r := g.CheckedGuard(gs, t); r.OK {
					// cond is !Push(...) and target on false branch, or Push(...) and true
					neg := isNot(r.Cond)
					okc = neg != r.OnTrue
					if !okc {
						why = "application is reached when cache.Push reports a duplicate"
					}
					if len(engine.Atoms(r.Cond)) != 1 {
						okc, why = false, "cache test is combined with another condition: `"+engine.ExprString(r.Cond)+"`"
					}
				}
			}
			c.Check("admission-gate", f.Name+" cache.Push before CheckTxAsync", t.Pos(), okc, why)
			// size tests: a gate comparing against config.Size, MaxPendingTxsBytes, maxTxBytes on the false branch
			for _, fld := range []string{"Size", "MaxPendingTxsBytes", "maxTxBytes"} {
				found := false
				for _, gt := range f.GatesWithHelpers(t, 2) {
					if gt.OnTrue {
						continue
					}
					for _, a := range engine.Conjuncts(gt.Cond, token.LOR) {
						if b, ok := ast.Unparen(a).(*ast.BinaryExpr); ok && (b.Op == token.GTR || b.Op == token.GEQ) {
							if sel, ok := ast.Unparen(b.Y).(*ast.SelectorExpr); ok && sel.Sel.Name == fld {
								found = true
							}
						}
					}
				}
				c.Check("admission-gate", f.Name+" limit "+fld+" before CheckTxAsync", t.Pos(), found, "a `x >(=) ..."+fld+"` test with an error return must precede the application call")
			}
		}
	}
	if f := c.MustFunc(M + "resCbFirstTime"); f != nil {
		g := f.Graph()
		adds := f.CallsTo(M + "addTx")
		c.Floor("add-only-valid", len(adds), 1)
		for _, a := range adds {
			ok := false
			for _, gt := range g.Gates(a) {
				if b, isb := ast.Unparen(gt.Cond).(*ast.BinaryExpr); isb && b.Op == token.EQL && gt.OnTrue && engine.MentionsName(b.X, "Error") && isNil(b.Y) {
					ok = true
				}
			}
			c.Check("add-only-valid", f.Name+" addTx", a.Pos(), ok, "addTx must be reached only when the CheckTx response has Error == nil")
		}
	}
	// addTx is the only writer that grows the list, and it is called only from resCbFirstTime
	callers := engine.CallerSet(p.RefsToFunc(M + "addTx"))
	c.Check("who-may-call", M+"addTx", token.NoPos, len(engine.SetDiff(callers, []string{M + "resCbFirstTime"})) == 0, "callers: "+join(callers))
	pushers := engine.CallerSet(p.RefsTo(func(o types.Object) bool {
		f, ok := o.(*types.Func)
		return ok && engine.FuncName(f) == "tm2/pkg/clist.(*CList).PushBack"
	}))
	var memPush []string
	for _, x := range pushers {
		if len(x) > len(M) && x[:len(M)] == M {
			memPush = append(memPush, x)
		}
	}
	c.Check("who-may-call", "clist.PushBack in CListMempool", token.NoPos, len(engine.SetDiff(memPush, []string{M + "addTx"})) == 0, "pushers: "+join(memPush))
}

func isNot(e ast.Expr) bool {
	u, ok := ast.Unparen(e).(*ast.UnaryExpr)
	return ok && u.Op == token.NOT
}

func isNil(e ast.Expr) bool {
	id, ok := ast.Unparen(e).(*ast.Ident)
	return ok && id.Name == "nil"
}

func isLoadOK(f *engine.Fn, cond ast.Expr) bool {
	id, ok := ast.Unparen(cond).(*ast.Ident)
	if !ok {
		return false
	}
	obj := f.Info().ObjectOf(id)
	found := false
	engine.InspectBody(f, func(n ast.Node) {
		as, ok := n.(*ast.AssignStmt)
		if !ok || len(as.Lhs) != 2 || len(as.Rhs) != 1 {
			return
		}
		if engine.ObjOf(f.Info(), as.Lhs[1]) != obj {
			return
		}
		if call, ok := as.Rhs[0].(*ast.CallExpr); ok {
			if sel, ok := call.Fun.(*ast.SelectorExpr); ok && sel.Sel.Name == "Load" && engine.MentionsName(sel.X, "txsMap") {
				found = true
			}
		}
	})
	return found
}

// strictLenBound: the append at s is gated so that len(res) < bound holds when it executes.
func strictLenBound(f *engine.Fn, s *engine.Site, res, bound types.Object) (bool, string) {
	info := f.Info()
	g := f.Graph()
	seen := false
	for _, gt := range g.Gates(s) {
		var atoms []ast.Expr
		if gt.OnTrue {
			atoms = engine.Conjuncts(gt.Cond, token.LAND) // all hold
		} else {
			atoms = engine.Conjuncts(gt.Cond, token.LOR) // all fail
		}
		for _, a := range atoms {
			b, ok := ast.Unparen(a).(*ast.BinaryExpr)
			if !ok {
				continue
			}
			op := b.Op
			x, y := b.X, b.Y
			if engine.IsLenOf(info, y, res) {
				x, y = y, x
				op = engine.Flip(op)
			}
			if !engine.IsLenOf(info, x, res) || engine.ObjOf(info, y) != bound {
				continue
			}
			if !gt.OnTrue {
				op = engine.Negate(op)
			}
			seen = true
			if op == token.LSS {
				return true, "append executes only when len(" + res.Name() + ") < " + bound.Name()
			}
			return false, "append executes when len(" + res.Name() + ") " + op.String() + " " + bound.Name() + " (non-strict bound: one element too many)"
		}
	}
	if !seen {
		return false, "no comparison of len(" + res.Name() + ") with " + bound.Name() + " gates the append"
	}
	return false, "unrecognised"
}

// limitGate: some gate on the false branch contains `acc(+…) > lim` or `>= lim`
// and the accumulator variable is updated in the same loop before the append.
func limitGate(f *engine.Fn, s *engine.Site, lim types.Object) (bool, string) {
	info := f.Info()
	g := f.Graph()
	for _, gt := range g.Gates(s) {
		if gt.OnTrue {
			continue
		}
		for _, a := range engine.Atoms(gt.Cond) {
			b, ok := ast.Unparen(a).(*ast.BinaryExpr)
			if !ok || (b.Op != token.GTR && b.Op != token.GEQ) || engine.ObjOf(info, b.Y) != lim {
				continue
			}
			// the compared quantity must mention a local that is (re)assigned inside the loop and feeds from the element
			var accs []types.Object
			ast.Inspect(b.X, func(n ast.Node) bool {
				if id, ok := n.(*ast.Ident); ok {
					if v, ok := info.ObjectOf(id).(*types.Var); ok && !v.IsField() && v.Parent() != nil && v.Pkg() == f.Pkg.Types {
						accs = append(accs, v)
					}
				}
				return true
			})
			// whole disjunct form must be `lim > -1 && X > lim` : all other conjuncts mention only lim
			for _, cj := range engine.Conjuncts(gt.Cond, token.LAND) {
				if containsExpr(cj, b) {
					continue
				}
				if !engine.Mentions(info, cj, lim) {
					return false, "limit test is weakened by unrelated conjunct `" + engine.ExprString(cj) + "`"
				}
			}
			// accumulator update: some total variable is assigned in the loop, on every path to the append
			updated := false
			engine.InspectBody(f, func(n ast.Node) {
				as, ok := n.(*ast.AssignStmt)
				if !ok {
					return
				}
				for _, l := range as.Lhs {
					lo := engine.ObjOf(info, l)
					for _, acc := range accs {
						if lo == acc || (lo != nil && feeds(f, lo, acc)) {
							if st := f.SiteOf(as); st != nil && g.Dominates(st, s) && inLoopWith(f, as, s.Node) {
								updated = true
							}
						}
					}
				}
			})
			if !updated {
				return false, "the quantity compared with " + lim.Name() + " is never accumulated in the loop"
			}
			return true, "append on the false branch of `" + engine.ExprString(gt.Cond) + "`"
		}
	}
	// nested form: `if lim > -1 { if X > lim { return } }` — the inner test does not dominate the
	// append (a disabled limit bypasses it), which is exactly `lim > -1 && X > lim` being false.
	var res *bool
	var why string
	engine.InspectBody(f, func(n ast.Node) {
		outer, ok := n.(*ast.IfStmt)
		if !ok || outer.Else != nil || outer.Init != nil || len(outer.Body.List) != 1 || res != nil {
			return
		}
		inner, ok := outer.Body.List[0].(*ast.IfStmt)
		if !ok || inner.Else != nil || len(inner.Body.List) == 0 {
			return
		}
		// the enabling test mentions only the limit
		for _, cj := range engine.Conjuncts(outer.Cond, token.LAND) {
			if !engine.Mentions(info, cj, lim) || len(engine.Atoms(cj)) != 1 {
				return
			}
		}
		b, ok := ast.Unparen(inner.Cond).(*ast.BinaryExpr)
		if !ok || (b.Op != token.GTR && b.Op != token.GEQ) || engine.ObjOf(info, b.Y) != lim {
			return
		}
		// the inner body leaves the iteration (return / break), and the outer if precedes the append on every path
		switch last := inner.Body.List[len(inner.Body.List)-1].(type) {
		case *ast.ReturnStmt:
		case *ast.BranchStmt:
			if last.Tok != token.BREAK {
				return
			}
		default:
			return
		}
		os := f.SiteOf(outer.Cond)
		if os == nil || !g.Dominates(os, s) || !inLoopWith(f, outer, s.Node) {
			return
		}
		var accs []types.Object
		ast.Inspect(b.X, func(n ast.Node) bool {
			if id, ok := n.(*ast.Ident); ok {
				if v, ok := info.ObjectOf(id).(*types.Var); ok && !v.IsField() && v.Parent() != nil && v.Pkg() == f.Pkg.Types {
					accs = append(accs, v)
				}
			}
			return true
		})
		updated := false
		engine.InspectBody(f, func(n ast.Node) {
			as, ok := n.(*ast.AssignStmt)
			if !ok {
				return
			}
			for _, l := range as.Lhs {
				lo := engine.ObjOf(info, l)
				for _, acc := range accs {
					if lo == acc || (lo != nil && feeds(f, lo, acc)) {
						if st := f.SiteOf(as); st != nil && g.Dominates(st, s) && inLoopWith(f, as, s.Node) {
							updated = true
						}
					}
				}
			}
		})
		v := updated
		res = &v
		why = "append after nested `if " + engine.ExprString(outer.Cond) + " { if " + engine.ExprString(inner.Cond) + " { leave } }`"
		if !updated {
			why = "the quantity compared with " + lim.Name() + " is never accumulated in the loop"
		}
	})
	if res != nil {
		return *res, why
	}
	return false, "no `total > " + lim.Name() + "` test with early return gates the append"
}

func containsExpr(root ast.Node, e ast.Node) bool {
	return root.Pos() <= e.Pos() && e.End() <= root.End()
}

// feeds: variable `to` is assigned from an expression mentioning `from`
// somewhere in f (one step), or vice versa — used to connect newTotalGas/totalGas.
func feeds(f *engine.Fn, a, b types.Object) bool {
	info := f.Info()
	found := false
	engine.InspectBody(f, func(n ast.Node) {
		as, ok := n.(*ast.AssignStmt)
		if !ok || len(as.Lhs) != len(as.Rhs) {
			return
		}
		for i, l := range as.Lhs {
			lo := engine.ObjOf(info, l)
			if (lo == a && engine.Mentions(info, as.Rhs[i], b)) || (lo == b && engine.Mentions(info, as.Rhs[i], a)) {
				found = true
			}
		}
	})
	return found
}

func inLoopWith(f *engine.Fn, a, b ast.Node) bool {
	ok := false
	engine.InspectBody(f, func(n ast.Node) {
		var body *ast.BlockStmt
		switch l := n.(type) {
		case *ast.ForStmt:
			body = l.Body
		case *ast.RangeStmt:
			body = l.Body
		}
		if body != nil && containsExpr(body, a) && containsExpr(body, b) {
			ok = true
		}
	})
	return ok
}

func paramObj(f *engine.Fn, i int) types.Object {
	k := 0
	for _, fld := range f.Type.Params.List {
		for _, nm := range fld.Names {
			if k == i {
				return f.Info().ObjectOf(nm)
			}
			k++
		}
	}
	return nil
}

func returnsObj(f *engine.Fn, o types.Object) bool {
	found := false
	engine.InspectBody(f, func(n ast.Node) {
		if r, ok := n.(*ast.ReturnStmt); ok {
			for _, e := range r.Results {
				if engine.ObjOf(f.Info(), e) == o {
					found = true
				}
			}
		}
	})
	return found
}

// locksFirst: the first call in the body is <recv>.<mu>.Lock() and an Unlock
// of the same mutex is deferred right after, before any other call.
func locksFirst(f *engine.Fn, mu string) (bool, string) {
	calls := f.Calls()
	var lock *engine.Site
	for _, s := range calls {
		if s.Deferred {
			continue
		}
		if lock == nil || s.Pos() < lock.Pos() {
			// first by evaluation within entry block: use dominance instead
		}
	}
	for _, s := range calls {
		n := s.CalleeName()
		if (n == "sync.(*Mutex).Lock" || n == "sync.(*RWMutex).Lock" || n == "sync.(*RWMutex).RLock") && selMentions(s.Call, mu) && !s.Deferred {
			lock = s
			break
		}
	}
	if lock == nil {
		return false, "no " + mu + ".Lock() call"
	}
	g := f.Graph()
	for _, s := range calls {
		if s == lock || s.Deferred && isUnlock(s, mu) {
			continue
		}
		if !g.Dominates(lock, s) {
			return false, "call `" + s.CalleeName() + "` is not dominated by " + mu + ".Lock()"
		}
	}
	for _, s := range calls {
		if s.Deferred && isUnlock(s, mu) {
			return true, mu + ".Lock() dominates every call; Unlock deferred"
		}
	}
	return false, "no deferred " + mu + ".Unlock()"
}

func isUnlock(s *engine.Site, mu string) bool {
	n := s.CalleeName()
	return (n == "sync.(*Mutex).Unlock" || n == "sync.(*RWMutex).Unlock" || n == "sync.(*RWMutex).RUnlock") && selMentions(s.Call, mu)
}

func selMentions(call *ast.CallExpr, name string) bool {
	sel, ok := call.Fun.(*ast.SelectorExpr)
	return ok && engine.MentionsName(sel.X, name)
}

func join(xs []string) string {
	out := ""
	for i, x := range xs {
		if i > 0 {
			out += ", "
		}
		out += x
	}
	if out == "" {
		return "(none)"
	}
	return out
}
