package checks

import (
	"go/ast"
	"go/types"

	"gnoverif/engine"
)

// C47 extra — the AEAD owns its key. xchacha20poly1305.New receives the key as a
// caller-owned []byte; the cipher must keep its own copy, otherwise the caller
// wiping or reusing that buffer silently re-keys an AEAD that is already in use
// (a message it sealed no longer opens; two AEADs built from one reused buffer
// collapse onto the last key). Decided by type and by value origin: the key
// field's type holds no reference (an array value — copying is then forced by
// the language), or, if it is a slice/pointer, every value stored in it is a
// fresh clone (bytes.Clone / slices.Clone / append onto nil / a local defined
// by make or new), never an alias or conversion of a parameter.
// (Added after an independently seeded second-round change turned the field
// into `*[KeySize]byte` set by `(*[KeySize]byte)(key)`.)
func init() {
	extend("C47", c47KeyOwned)
	const xf = "tm2/pkg/crypto/xchacha20poly1305/xchachapoly.go"
	mutants("C47",
		Mutant{"aead-key-aliased", xf, "type xchacha20poly1305 struct {\n\tkey [KeySize]byte\n}", "type xchacha20poly1305 struct {\n\tkey *[KeySize]byte\n}", "key-owned"},
	)
}

func init() {
	MutantMore["C47/aead-key-aliased"] = [][2]string{
		{"\tret := new(xchacha20poly1305)\n\tcopy(ret.key[:], key)\n\treturn ret, nil", "\treturn &xchacha20poly1305{key: (*[KeySize]byte)(key)}, nil"},
		{"&c.key)", "c.key)"},
	}
}

func c47KeyOwned(c *engine.Ctx) {
	p := progWith(c, "tm2/pkg/crypto/xchacha20poly1305")
	if p == nil {
		return
	}
	fld := p.Field("tm2/pkg/crypto/xchacha20poly1305.xchacha20poly1305.key")
	if fld == nil {
		c.Undecided("key-owned", "xchacha20poly1305.key", "key field not found (renamed?)")
		return
	}
	if !holdsReference(fld.Type()) {
		c.Check("key-owned", "xchacha20poly1305.key is a value ("+fld.Type().String()+")", fld.Pos(), true, "an array value cannot alias the caller's buffer")
		return
	}
	n := 0
	for _, w := range p.FieldWrites(fld) {
		n++
		if !w.Direct {
			continue // element writes (copy into the owned buffer) do not change what the field refers to
		}
		var val ast.Expr
		switch x := w.Node.(type) {
		case *ast.AssignStmt:
			if len(x.Lhs) == len(x.Rhs) {
				for i, l := range x.Lhs {
					if sel, ok := ast.Unparen(l).(*ast.SelectorExpr); ok && w.Fn.Info().ObjectOf(sel.Sel) == types.Object(fld) {
						val = x.Rhs[i]
					}
				}
			}
		case *ast.KeyValueExpr:
			val = x.Value
		}
		ok, why := freshClone(w.Fn, val), "the stored key is not a fresh clone: the AEAD would share the caller's buffer"
		c.Check("key-owned", w.Fn.Name+" stores xchacha20poly1305.key", w.Node.Pos(), ok, why)
	}
	if n == 0 {
		c.Check("key-owned", "xchacha20poly1305.key is a reference ("+fld.Type().String()+")", fld.Pos(), false,
			"the key field is a reference type and no checked store of a fresh clone was found (composite-literal or converted alias?)")
	}
}

func holdsReference(t types.Type) bool {
	switch u := t.Underlying().(type) {
	case *types.Basic:
		return u.Kind() == types.UnsafePointer
	case *types.Array:
		return holdsReference(u.Elem())
	case *types.Struct:
		for i := 0; i < u.NumFields(); i++ {
			if holdsReference(u.Field(i).Type()) {
				return true
			}
		}
		return false
	}
	return true
}

func freshClone(f *engine.Fn, e ast.Expr) bool {
	if e == nil || f == nil {
		return false
	}
	info := f.Info()
	e = ast.Unparen(e)
	if id, ok := e.(*ast.Ident); ok {
		if d := niSingleDef(f, info.ObjectOf(id)); d != nil {
			if call, ok := ast.Unparen(d).(*ast.CallExpr); ok && (engine.IsBuiltinCall(info, call, "make") || engine.IsBuiltinCall(info, call, "new")) {
				return true
			}
			return freshClone(f, d)
		}
		return false
	}
	call, ok := e.(*ast.CallExpr)
	if !ok {
		return false
	}
	if engine.IsBuiltinCall(info, call, "append") && len(call.Args) >= 1 {
		a0 := niStripConv(info, call.Args[0])
		if id, ok := a0.(*ast.Ident); ok && id.Name == "nil" {
			return true
		}
		if _, ok := a0.(*ast.CompositeLit); ok {
			return true
		}
		return false
	}
	if fn, _ := engine.ObjOf(info, call.Fun).(*types.Func); fn != nil && fn.Name() == "Clone" && fn.Pkg() != nil && (fn.Pkg().Path() == "bytes" || fn.Pkg().Path() == "slices") {
		return true
	}
	return false
}
