package checks

import (
	"go/ast"
	"go/token"
	"go/types"
	"sort"
	"strconv"
	"strings"

	"gnoverif/engine"
)

// authdEff is a small may-write-through-operand analysis for slice-typed
// parameters (R-EFF of DESIGN.md §1), AST based, flow-insensitive inside a
// function, bottom-up over package-local callees with memoised summaries.
//
// An "alias" of operand p is any local bound to p, p[a:b], T(p), &p[i], the
// result of append(alias, ...) or of a local function that may return (part
// of) its argument. A flow is a place where an alias is stored through or is
// handed to a callee; each flow is judged:
//   store through alias                     -> write
//   append/copy/clear with alias as target  -> write
//   local callee that (transitively) writes -> write
//   external callee in the writer table     -> write
//   external callee in the pure table       -> no write
//   any other external or dynamic callee    -> unknown (reported as a failure)
type authdEff struct {
	p    *engine.Prog
	memo map[*engine.Fn]*authdSum
}

type authdSum struct {
	writes   map[int]string // operand index -> reason ("" = none)
	retAlias map[int]bool
	done     bool
}

type authdFlow struct {
	Sink   string // "store", or callee name + "#" + position
	Pos    token.Pos
	Write  bool
	Reason string
	Callee *engine.Fn // package-local callee receiving the alias (nil otherwise)
	Arg    int        // operand index at the callee
}

var authdExtWriters = []string{
	"slices.Delete", "slices.DeleteFunc", "slices.Insert", "slices.Replace", "slices.Sort", "slices.SortFunc",
	"slices.SortStableFunc", "slices.Reverse", "slices.Compact", "slices.CompactFunc", "slices.Clip", "slices.Grow",
	"sort.Sort", "sort.Stable", "sort.Slice", "sort.SliceStable",
}

var authdExtPurePrefixes = []string{"fmt.", "strings.", "errors.", "strconv.", "slices.Contains", "slices.Index", "slices.Equal", "slices.Clone", "slices.BinarySearch", "slices.IsSorted", "slices.Max", "slices.Min",
	"sort.IsSorted", "sort.Search", "sort.SliceIsSorted", "tm2/pkg/errors."}

func newAuthdEff(p *engine.Prog) *authdEff {
	return &authdEff{p: p, memo: map[*engine.Fn]*authdSum{}}
}

// authdOperands lists receiver (if any) followed by parameters.
func authdOperands(f *engine.Fn) []types.Object {
	var out []types.Object
	info := f.Info()
	if f.Decl != nil && f.Decl.Recv != nil {
		for _, fld := range f.Decl.Recv.List {
			if len(fld.Names) == 0 {
				out = append(out, nil)
			}
			for _, nm := range fld.Names {
				out = append(out, info.ObjectOf(nm))
			}
		}
	}
	for _, fld := range f.Type.Params.List {
		if len(fld.Names) == 0 {
			out = append(out, nil)
		}
		for _, nm := range fld.Names {
			out = append(out, info.ObjectOf(nm))
		}
	}
	return out
}

func authdRefLike(t types.Type) bool {
	if t == nil {
		return false
	}
	switch u := t.Underlying().(type) {
	case *types.Slice, *types.Pointer, *types.Map:
		return true
	case *types.Struct:
		for i := 0; i < u.NumFields(); i++ {
			if authdRefLike(u.Field(i).Type()) {
				return true
			}
		}
	case *types.Array:
		return authdRefLike(u.Elem())
	case *types.Interface:
		return true
	}
	return false
}

// aliasSet computes the locals of f that may alias operand seed.
func (e *authdEff) aliasSet(f *engine.Fn, seed types.Object) map[types.Object]bool {
	info := f.Info()
	set := map[types.Object]bool{seed: true}
	for changed := true; changed; {
		changed = false
		add := func(l ast.Expr, r ast.Expr) {
			id, ok := ast.Unparen(l).(*ast.Ident)
			if !ok || r == nil {
				return
			}
			o := info.ObjectOf(id)
			if o == nil || set[o] {
				return
			}
			if e.isAlias(f, set, r) {
				set[o] = true
				changed = true
			}
		}
		ast.Inspect(f.Body, func(n ast.Node) bool {
			switch st := n.(type) {
			case *ast.AssignStmt:
				if len(st.Lhs) == len(st.Rhs) {
					for i := range st.Lhs {
						add(st.Lhs[i], st.Rhs[i])
					}
				} else if len(st.Rhs) == 1 {
					for i := range st.Lhs {
						add(st.Lhs[i], st.Rhs[0])
					}
				}
			case *ast.ValueSpec:
				for i, nm := range st.Names {
					if len(st.Values) == len(st.Names) {
						add(nm, st.Values[i])
					} else if len(st.Values) == 1 {
						add(nm, st.Values[0])
					}
				}
			case *ast.RangeStmt:
				// element copies alias only when the element type carries references
				if st.Value != nil && e.isAlias(f, set, st.X) {
					if authdRefLike(info.TypeOf(st.Value)) {
						if id, ok := st.Value.(*ast.Ident); ok {
							if o := info.ObjectOf(id); o != nil && !set[o] {
								set[o] = true
								changed = true
							}
						}
					}
				}
			}
			return true
		})
	}
	return set
}

// isAlias: may the value of expr share memory with the operand?
func (e *authdEff) isAlias(f *engine.Fn, set map[types.Object]bool, expr ast.Expr) bool {
	info := f.Info()
	switch x := ast.Unparen(expr).(type) {
	case *ast.Ident:
		return set[info.ObjectOf(x)]
	case *ast.SliceExpr:
		return e.isAlias(f, set, x.X)
	case *ast.StarExpr:
		return e.isAlias(f, set, x.X)
	case *ast.UnaryExpr:
		if x.Op == token.AND {
			return e.elemOfAlias(f, set, x.X)
		}
	case *ast.IndexExpr:
		if e.isAlias(f, set, x.X) && authdRefLike(info.TypeOf(x)) {
			return true
		}
	case *ast.SelectorExpr:
		if e.elemOfAlias(f, set, x) && authdRefLike(info.TypeOf(x)) {
			return true
		}
	case *ast.TypeAssertExpr:
		return e.isAlias(f, set, x.X)
	case *ast.CallExpr:
		if tv, ok := info.Types[x.Fun]; ok && tv.IsType() {
			return len(x.Args) == 1 && e.isAlias(f, set, x.Args[0])
		}
		name := authdCalleeName(info, x)
		if name == "builtin.append" {
			return len(x.Args) > 0 && e.isAlias(f, set, x.Args[0])
		}
		callee, args := e.calleeAndArgs(f, x)
		if callee != nil {
			s := e.summary(callee)
			for j, a := range args {
				if a != nil && s.retAlias[j] && e.isAlias(f, set, a) {
					return true
				}
			}
			return false
		}
		// external: result aliases an argument only for the known slice-returning helpers
		for _, w := range []string{"slices.Delete", "slices.DeleteFunc", "slices.Insert", "slices.Replace", "slices.Compact", "slices.CompactFunc", "slices.Clip", "slices.Grow"} {
			if name == w {
				return len(x.Args) > 0 && e.isAlias(f, set, x.Args[0])
			}
		}
	}
	return false
}

// elemOfAlias: expr denotes (a field of) an element of an aliasing slice.
func (e *authdEff) elemOfAlias(f *engine.Fn, set map[types.Object]bool, expr ast.Expr) bool {
	info := f.Info()
	switch x := ast.Unparen(expr).(type) {
	case *ast.IndexExpr:
		if _, isMap := info.TypeOf(x.X).Underlying().(*types.Map); isMap {
			return false
		}
		return e.isAlias(f, set, x.X) || e.elemOfAlias(f, set, x.X)
	case *ast.SelectorExpr:
		if _, isPtr := info.TypeOf(x.X).Underlying().(*types.Pointer); isPtr {
			return e.isAlias(f, set, x.X)
		}
		return e.elemOfAlias(f, set, x.X)
	case *ast.StarExpr:
		return e.isAlias(f, set, x.X)
	}
	return false
}

// calleeAndArgs resolves a call to a function body of the loaded packages and
// lines its arguments up with authdOperands(callee) (receiver first).
func (e *authdEff) calleeAndArgs(f *engine.Fn, call *ast.CallExpr) (*engine.Fn, []ast.Expr) {
	info := f.Info()
	var id *ast.Ident
	var recv ast.Expr
	switch fn := ast.Unparen(call.Fun).(type) {
	case *ast.Ident:
		id = fn
	case *ast.SelectorExpr:
		id = fn.Sel
		if sel, ok := info.Selections[fn]; ok && sel.Kind() == types.MethodVal {
			recv = fn.X
		}
	}
	if id == nil {
		return nil, nil
	}
	obj, ok := info.ObjectOf(id).(*types.Func)
	if !ok {
		return nil, nil
	}
	callee := e.p.FnOf(obj)
	if callee == nil {
		return nil, nil
	}
	var args []ast.Expr
	if recv != nil {
		args = append(args, recv)
	}
	args = append(args, call.Args...)
	return callee, args
}

// flows enumerates where aliases of operand k of f are written or escape into calls.
// delegated callees are reported as non-writing (they carry their own obligation).
func (e *authdEff) flows(f *engine.Fn, k int, delegated map[*engine.Fn]bool) []authdFlow {
	ops := authdOperands(f)
	if k >= len(ops) || ops[k] == nil {
		return nil
	}
	info := f.Info()
	set := e.aliasSet(f, ops[k])
	var out []authdFlow
	ast.Inspect(f.Body, func(n ast.Node) bool {
		switch st := n.(type) {
		case *ast.AssignStmt:
			for _, l := range st.Lhs {
				if _, isID := ast.Unparen(l).(*ast.Ident); isID {
					continue
				}
				if e.elemOfAlias(f, set, l) {
					out = append(out, authdFlow{Sink: "store", Pos: st.Pos(), Write: true, Reason: "assignment through `" + engine.ExprString(l) + "`"})
				}
			}
		case *ast.IncDecStmt:
			if e.elemOfAlias(f, set, st.X) {
				out = append(out, authdFlow{Sink: "store", Pos: st.Pos(), Write: true, Reason: "inc/dec of `" + engine.ExprString(st.X) + "`"})
			}
		case *ast.RangeStmt:
			for _, l := range []ast.Expr{st.Key, st.Value} {
				if l != nil && e.elemOfAlias(f, set, l) {
					out = append(out, authdFlow{Sink: "store", Pos: st.Pos(), Write: true, Reason: "range assigns through operand"})
				}
			}
		case *ast.CallExpr:
			if tv, ok := info.Types[st.Fun]; ok && tv.IsType() {
				return true
			}
			name := authdCalleeName(info, st)
			callee, args := e.calleeAndArgs(f, st)
			if callee == nil {
				args = nil
				// method value receiver of an external / interface method
				if se, ok := ast.Unparen(st.Fun).(*ast.SelectorExpr); ok {
					if sel, ok := info.Selections[se]; ok && sel.Kind() == types.MethodVal {
						args = append(args, se.X)
					}
				}
				off := len(args)
				args = append(args, st.Args...)
				_ = off
			}
			for j, a := range args {
				if a == nil {
					continue
				}
				al := e.isAlias(f, set, a)
				if !al && callee != nil && j == 0 {
					// implicit &x for pointer-receiver methods on an element
					if se, ok := ast.Unparen(st.Fun).(*ast.SelectorExpr); ok {
						if sel, ok := info.Selections[se]; ok && sel.Kind() == types.MethodVal {
							if _, ptrRecv := sel.Obj().(*types.Func).Type().(*types.Signature).Recv().Type().(*types.Pointer); ptrRecv && e.elemOfAlias(f, set, a) {
								al = true
							}
						}
					}
				}
				if !al {
					continue
				}
				fl := authdFlow{Pos: st.Pos()}
				switch {
				case name == "builtin.len" || name == "builtin.cap" || name == "builtin.panic" || name == "builtin.print" || name == "builtin.println" || name == "builtin.min" || name == "builtin.max":
					continue
				case name == "builtin.append":
					fl.Sink = "builtin.append#" + authdItoa(j)
					if j == 0 {
						fl.Write, fl.Reason = true, "append onto (a slice of) the operand may overwrite its backing array"
					}
				case name == "builtin.copy" || name == "builtin.clear":
					fl.Sink = name + "#" + authdItoa(j)
					if j == 0 {
						fl.Write, fl.Reason = true, name+" writes into the operand"
					}
				case callee != nil:
					fl.Sink = callee.Name + "#" + authdItoa(j)
					fl.Callee, fl.Arg = callee, j
					if delegated[callee] {
						fl.Reason = "delegated: " + callee.Name + " carries its own obligation"
					} else if r := e.summary(callee).writes[j]; r != "" {
						fl.Write, fl.Reason = true, callee.Name+" writes through its operand "+authdItoa(j)+": "+r
					}
				case name != "":
					fl.Sink = engine.Rel(name) + "#" + authdItoa(j)
					switch {
					case engine.MatchName(name, authdExtWriters...):
						fl.Write, fl.Reason = true, name+" modifies its argument in place"
					case authdHasPrefix(name, authdExtPurePrefixes):
						fl.Reason = "read-only library function"
					default:
						fl.Write, fl.Reason = true, "operand escapes into "+name+" whose effect is not known to the checker"
					}
				default:
					fl.Sink = "dynamic-call#" + authdItoa(j)
					fl.Write, fl.Reason = true, "operand escapes into a dynamic call"
				}
				out = append(out, fl)
			}
		}
		return true
	})
	sort.SliceStable(out, func(i, j int) bool { return out[i].Pos < out[j].Pos })
	return out
}

func authdHasPrefix(s string, ps []string) bool {
	for _, p := range ps {
		if strings.HasPrefix(s, p) {
			return true
		}
	}
	return false
}

func authdItoa(i int) string { return strconv.Itoa(i) }

// summary computes writes / returns-alias for every reference-like operand of f.
func (e *authdEff) summary(f *engine.Fn) *authdSum {
	if s, ok := e.memo[f]; ok {
		return s // includes in-progress (recursion): optimistic, direct writes are still seen by the outer frame
	}
	s := &authdSum{writes: map[int]string{}, retAlias: map[int]bool{}}
	e.memo[f] = s
	for k, o := range authdOperands(f) {
		if o == nil || !authdRefLike(o.Type()) {
			continue
		}
		for _, fl := range e.flows(f, k, nil) {
			if fl.Write && s.writes[k] == "" {
				s.writes[k] = fl.Reason
			}
		}
		set := e.aliasSet(f, o)
		ast.Inspect(f.Body, func(n ast.Node) bool {
			if _, isLit := n.(*ast.FuncLit); isLit {
				return false
			}
			if r, ok := n.(*ast.ReturnStmt); ok {
				for _, x := range r.Results {
					if e.isAlias(f, set, x) {
						s.retAlias[k] = true
					}
				}
			}
			return true
		})
	}
	s.done = true
	return s
}

// authdClosure returns roots plus every package-local function reachable
// through resolved static calls (function literals included with their parent).
func authdClosure(p *engine.Prog, roots ...*engine.Fn) []*engine.Fn {
	seen := map[*engine.Fn]bool{}
	var out []*engine.Fn
	var visit func(f *engine.Fn)
	visit = func(f *engine.Fn) {
		if f == nil || seen[f] {
			return
		}
		seen[f] = true
		out = append(out, f)
		all := append([]*engine.Fn{f}, f.AllLits()...)
		for _, b := range all {
			for _, s := range b.Calls() {
				if fn, ok := s.Callee.(*types.Func); ok {
					visit(p.FnOf(fn))
				}
			}
		}
	}
	for _, r := range roots {
		visit(r)
	}
	sort.Slice(out, func(i, j int) bool { return out[i].Name < out[j].Name })
	return out
}
