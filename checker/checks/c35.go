package checks

import (
	"go/ast"
	"go/token"
	"go/types"
	"strings"

	"gnoverif/engine"
)

// C35 — VoteSet quorum tracking.
func init() {
	register("C35", c35)
	meta("C35", Meta{
		Text:      "Decides the structural clauses of quorum tracking in types.VoteSet / cstypes.HeightVoteSet: (1) a vote reaches addVerifiedVote only through addVote, under the nil / index / address / height-round-type / known-validator / address-match / not-already-known tests and a successful vote.Verify against the looked-up validator's key, and is weighed with that validator's power; (2) maj23 has one guarded writer: assigned only when this vote made the block's sum cross quorum = total*2/3+1 (sum before < quorum <= sum after, 'before' read before the add) and maj23 == nil, to this vote's BlockID; (3) every comparison against total*2/3 in tm2/pkg/bft/types is strict (quorum-form agreement); (4) VoteSet.sum and blockVotes.sum grow only for the first vote of a validator (in that set / for that block); (5) TwoThirdsMajority/HasTwoThirdsMajority/IsCommit report exactly maj23 != nil, HasTwoThirdsAny reports sum > total*2/3; (6) every method that touches mutable VoteSet / HeightVoteSet fields holds the mutex (exported) or is called only from such methods (unexported); HeightVoteSet wires Prevotes/Precommits to vote sets of the matching type and round; (7) MakeCommit requires maj23 and builds the commit for *maj23 from votes of that block only. Level 'other'.",
		Note:      "Not covered: arithmetic overflow of sums (bounded by MaxTotalVotingPower elsewhere), peer-claimed majorities' memory bound, the sequence semantics as a whole (first majority, conflicting-vote reporting order) beyond the single-writer structure.",
		Technique: "go/cfg gate facts with resolved-symbol normalisation, single-writer tables, quorum-form sibling table, lock-dominance",
		Ref:       "DESIGN.md §2 C35 / C36",
	})
	const V = "tm2/pkg/bft/types/vote_set.go"
	mutants("C35",
		Mutant{"unverified-vote-counted", V, "\tif err := vote.Verify(voteSet.chainID, val.PubKey); err != nil {\n\t\treturn false, errors.Wrapf(err,", "\tif err := vote.Verify(voteSet.chainID, val.PubKey); err != nil && valIndex > 0 {\n\t\treturn false, errors.Wrapf(err,", "vote-admission"},
		Mutant{"wrong-round-accepted", V, "\t\t(vote.Round != voteSet.round) ||\n", "", "vote-admission"},
		Mutant{"address-not-matched", V, "\tif valAddr != lookupAddr {", "\tif valAddr != lookupAddr && valIndex == 0 {", "vote-admission"},
		Mutant{"quorum-not-strict", V, "\tquorum := voteSet.valSet.TotalVotingPower()*2/3 + 1\n", "\tquorum := voteSet.valSet.TotalVotingPower() * 2 / 3\n", "quorum-form"},
		Mutant{"two-thirds-any-not-strict", V, "\treturn voteSet.sum > voteSet.valSet.TotalVotingPower()*2/3\n", "\treturn voteSet.sum >= voteSet.valSet.TotalVotingPower()*2/3\n", "quorum-form"},
		Mutant{"maj23-overwritten", V, "\t\tif voteSet.maj23 == nil {\n\t\t\tmaj23BlockID := vote.BlockID", "\t\tif voteSet.maj23 == nil || conflicting != nil {\n\t\t\tmaj23BlockID := vote.BlockID", "maj23-writer"},
		Mutant{"maj23-set-by-peer-claim", V, "\t\tvotesByBlock.peerMaj23 = true\n", "\t\tvotesByBlock.peerMaj23 = true\n\t\tvoteSet.maj23 = &blockID\n", "maj23-writer"},
		Mutant{"conflicting-vote-counted-twice", V, "\t\t// Otherwise don't add it to voteSet.votes\n\t} else {", "\t\tvoteSet.sum += votingPower\n\t\t// Otherwise don't add it to voteSet.votes\n\t} else {", "sum-distinct"},
		Mutant{"blockvotes-double-count", V, "\tif existing := vs.votes[valIndex]; existing == nil {\n\t\tvs.bitArray.SetIndex(valIndex, true)", "\tif existing := vs.votes[valIndex]; existing == nil || vs.peerMaj23 {\n\t\tvs.bitArray.SetIndex(valIndex, true)", "sum-distinct"},
		Mutant{"unlocked-read", V, "func (voteSet *VoteSet) HasAll() bool {\n\tvoteSet.mtx.Lock()\n\tdefer voteSet.mtx.Unlock()\n", "func (voteSet *VoteSet) HasAll() bool {\n", "holds-lock"},
		Mutant{"hvs-swapped-sets", "tm2/pkg/bft/consensus/types/height_vote_set.go", "\tcase types.PrevoteType:\n\t\treturn rvs.Prevotes\n", "\tcase types.PrevoteType:\n\t\treturn rvs.Precommits\n", "hvs-wiring"},
		Mutant{"commit-without-majority", V, "\tif voteSet.maj23 == nil {\n\t\tpanic(\"Cannot MakeCommit() unless a blockhash has +2/3\")\n\t}", "\tif voteSet.maj23 == nil {\n\t\tvoteSet.maj23 = &BlockID{}\n\t}", "maj23-writer"},
	)
}

func c35(c *engine.Ctx) {
	c.Explain = "Decides structural necessary conditions of exact quorum tracking: admission tests and signature verification gate addVerifiedVote (sole caller addVote); maj23 has a single writer guarded by 'this vote crossed total*2/3+1 for its block' and maj23==nil; every total*2/3 comparison in bft/types is strict; sums grow only on a validator's first vote; the query methods report maj23 != nil resp. sum > total*2/3; mutable fields are touched only under the mutex; HeightVoteSet hands out vote sets of the right type/round; MakeCommit requires maj23 and takes only votes for that block. Not covered: overflow, memory bounds, sequence-level semantics beyond these structures."
	p := c.Load("tm2/pkg/bft/types", "tm2/pkg/bft/consensus/types")
	if p == nil {
		return
	}
	hhUse(p)
	hhSetStops()
	const VS = "tm2/pkg/bft/types.(*VoteSet)."
	const BV = "tm2/pkg/bft/types.(*blockVotes)."

	// ---- (1) admission ----
	if f := c.MustFunc(VS + "addVote"); f != nil {
		info := f.Info()
		recv := hhRecv(f)
		vote := paramObj(f, 0)
		names := map[types.Object]string{recv: "vs", vote: "vote"}
		// role variables, also when the lookup lives in a helper that hands the value back
		role := func(d engine.DeepSite, roles ...string) {
			rv := hhResultVars(d.Inner.Fn, d.Inner)
			if len(rv) != len(roles) {
				return
			}
			for i, r := range roles {
				if rv[i] != nil && r != "" {
					names[rv[i]] = r
				}
			}
			if d.Inner != d.Outer && len(d.Chain) == 1 {
				h := d.Chain[0]
				outRv := hhResultVars(f, d.Outer)
				for _, rb := range h.Graph().ReturnBlocks() {
					ret := rb.Return()
					if ret == nil || len(ret.Results) != len(outRv) {
						continue
					}
					for i, e := range ret.Results {
						if o := engine.ObjOf(h.Info(), e); o != nil && outRv[i] != nil {
							if nm, ok := names[o]; ok {
								names[outRv[i]] = nm
							}
						}
					}
				}
			}
		}
		for _, d := range hhDeepCalls(f, "tm2/pkg/bft/types.(*ValidatorSet).GetByIndex") {
			role(d, "lookupAddr", "val")
		}
		for _, d := range hhDeepCalls(f, VS+"getVote") {
			role(d, "", "known")
		}
		adds := hhDeepCalls(f, VS+"addVerifiedVote")
		c.Floor("vote-admission", len(adds), 1)
		for _, ad := range adds {
			ad := ad
			s := ad.Outer
			ctx := map[string]bool{}
			for _, ft := range hhDeepFacts(f, ad) {
				var x string
				if a, op, b, isCmp := hhCmp(ft); isCmp {
					x = hhNorm(f, a, names, 2) + " " + op.String() + " " + hhNorm(f, b, names, 2)
					ctx[hhNorm(f, b, names, 2)+" "+engine.Flip(op).String()+" "+hhNorm(f, a, names, 2)] = true
				} else {
					x = hhNorm(f, ft.E, names, 2)
					if !ft.True {
						x = "!" + x
					}
				}
				ctx[x] = true
			}
			for _, want := range []string{
				"vote != nil",
				"vote.ValidatorIndex >= 0",
				"len(vote.ValidatorAddress) != 0",
				"vote.Height == vs.height",
				"vote.Round == vs.round",
				"vote.Type == vs.type_",
				"val != nil",
				"vote.ValidatorAddress == lookupAddr",
				"!known",
			} {
				c.Check("vote-admission", f.Name+" addVerifiedVote requires "+want, s.Pos(), ctx[want], "the vote is counted on a path that did not establish this (as a stand-alone rejection)")
			}
			// verification
			ok, why := false, "no vote.Verify call"
			for _, v := range hhDeepCalls(f, "tm2/pkg/bft/types.(*Vote).Verify") {
				if engine.ObjOf(info, hhDeepRecv(v)) != vote {
					continue
				}
				a0, a1 := hhNorm(f, hhDeepArg(v, 0), names, 1), hhNorm(f, hhDeepArg(v, 1), names, 1)
				if a0 != "vs.chainID" || a1 != "val.PubKey" {
					why = "Verify(" + a0 + ", " + a1 + ") — expected (vs.chainID, val.PubKey)"
					continue
				}
				if ok, why = hhDeepErrGuard(f, v, s); ok {
					break
				}
			}
			c.Check("vote-admission", f.Name+" addVerifiedVote requires a verified signature", s.Pos(), ok, why)
			// lookup is by the vote's own index in this set's validators; weight is that validator's
			lk := false
			for _, g := range hhDeepCalls(f, "tm2/pkg/bft/types.(*ValidatorSet).GetByIndex") {
				if hhNorm(f, hhDeepRecv(g), names, 0) == "vs.valSet" && hhNorm(f, hhDeepArg(g, 0), names, 2) == "vote.ValidatorIndex" {
					lk = true
				}
			}
			c.Check("vote-admission", f.Name+" validator looked up by vote.ValidatorIndex in vs.valSet", s.Pos(), lk, "")
			args := hhNorm(f, hhDeepArg(ad, 0), names, 2) + ", " + hhNorm(f, hhDeepArg(ad, 1), names, 2) + ", " + hhNorm(f, hhDeepArg(ad, 2), names, 2)
			c.Check("vote-admission", f.Name+" addVerifiedVote(vote, vote.BlockID.Key(), val.VotingPower)", s.Pos(), args == "vote, vote.BlockID.Key(), val.VotingPower", "got ("+args+")")
			// role variables are single-assignment
			single := true
			for o, r := range names {
				if r == "val" || r == "lookupAddr" {
					if len(hhAssignsTo(f, o)) > 1 {
						single = false
					}
				}
			}
			c.Check("vote-admission", f.Name+" looked-up validator not re-assigned", s.Pos(), single, "")
		}
	}
	for _, w := range []struct {
		fn      string
		allowed []string
	}{
		{VS + "addVerifiedVote", []string{VS + "addVote"}},
		{VS + "addVote", []string{VS + "AddVote"}},
		{BV + "addVerifiedVote", []string{VS + "addVerifiedVote"}},
	} {
		cs := hhLiftCallers(p, engine.CallerSet(p.RefsToFunc(w.fn)), w.allowed)
		c.Check("vote-admission", "callers of "+w.fn, token.NoPos, len(hhExtra(cs, w.allowed)) == 0 && len(cs) == 1, "callers: "+join(cs))
	}

	// ---- (2) maj23 single guarded writer ----
	majField := p.Field("tm2/pkg/bft/types.VoteSet.maj23")
	if majField == nil {
		c.Undecided("maj23-writer", "VoteSet.maj23", "field not found")
	} else {
		ws := p.FieldWrites(majField)
		allowedMW := []string{VS + "addVerifiedVote", "tm2/pkg/bft/types.NewVoteSet"}
		got := hhLiftCallers(p, engine.WriterSet(ws, nil), allowedMW)
		extra := hhExtra(got, allowedMW)
		c.Check("maj23-writer", "writers of VoteSet.maj23", token.NoPos, len(extra) == 0 && len(got) >= 1, "writers: "+join(got))
		n := 0
		for _, w := range ws {
			if w.Kind == "lit" {
				kv := w.Node.(*ast.KeyValueExpr)
				c.Check("maj23-writer", w.Fn.Root().Name+" initial maj23", kv.Pos(), isNil(kv.Value), "a new vote set has no majority")
			} else if _, isAs := w.Node.(*ast.AssignStmt); !isAs || !w.Direct {
				c.Check("maj23-writer", w.Fn.Root().Name+" write form "+w.Kind, w.Node.Pos(), false, "maj23 must only be assigned directly")
			}
		}
		var deepW []hhDeepAssign
		f := c.MustFunc(VS + "addVerifiedVote")
		if f != nil {
			for _, a := range hhDeepFieldAssigns(f, hhRecv(f)) {
				if len(a.Fields) == 1 && a.Fields[0] == "maj23" {
					deepW = append(deepW, a)
				}
			}
		}
		for _, da := range deepW {
			info := f.Info()
			recv := hhRecv(f)
			vote := paramObj(f, 0)
			as := da.Stmt
			n++
			s := da.D.Outer
			names := map[types.Object]string{recv: "vs", vote: "vote", paramObj(f, 1): "blockKey"}
			// votesByBlock variable: the local indexed from vs.votesByBlock[blockKey]
			var vbb types.Object
			engine.InspectBody(f, func(n ast.Node) {
				a, ok := n.(*ast.AssignStmt)
				if !ok || len(a.Rhs) != 1 {
					return
				}
				if ix, isIx := ast.Unparen(a.Rhs[0]).(*ast.IndexExpr); isIx && hhIsChain(info, ix.X, recv, "votesByBlock") && engine.ObjOf(info, ix.Index) == paramObj(f, 1) {
					vbb = engine.ObjOf(info, a.Lhs[0])
				}
			})
			if vbb != nil {
				names[vbb] = "bv"
			}
			ctx := map[string]bool{}
			var all []string
			if s != nil {
				all = hhRenderFacts(f, hhDeepFacts(f, da.D), names, 2)
			}
			for _, x := range all {
				ctx[x] = true
			}
			q := "vs.valSet.TotalVotingPower() * 2 / 3 + 1"
			for _, want := range []string{
				"bv.sum < " + q,   // origSum := bv.sum (before the add) < quorum
				q + " <= bv.sum",  // quorum <= sum after the add
				"vs.maj23 == nil", // first majority only
			} {
				c.Check("maj23-writer", f.Name+" maj23 assigned only when "+want, as.Pos(), ctx[want], "conditions at the write: "+strings.Join(all, "; "))
			}
			// extra disjuncts would show as unsplittable compound facts mentioning maj23
			for _, x := range all {
				if strings.Contains(x, "||") && strings.Contains(x, "maj23") {
					c.Check("maj23-writer", f.Name+" maj23 guard not weakened", as.Pos(), false, "guard `"+x+"`")
				}
			}
			// value: &local where local := vote.BlockID
			valOK := false
			if u, isU := ast.Unparen(da.Rhs).(*ast.UnaryExpr); isU && u.Op == token.AND {
				if lo := engine.ObjOf(info, u.X); lo != nil {
					defs := 0
					toF := hhDeepMap(da.D)
					for _, a := range hhAssignsTo(f, lo) {
						if st, isSt := a.(*ast.AssignStmt); isSt && len(st.Lhs) == 1 && len(st.Rhs) == 1 && hhIsChain(info, toF(st.Rhs[0]), vote, "BlockID") {
							defs++
						} else if _, isAddr := a.(*ast.UnaryExpr); !isAddr {
							defs = -100
						}
					}
					valOK = defs == 1
				}
			}
			c.Check("maj23-writer", f.Name+" maj23 value is this vote's BlockID", as.Pos(), valOK, "maj23 must point to a copy of vote.BlockID; got `"+hhRender(da.Rhs)+"`")
			// 'before' sum read before the add; 'after' sum read after
			var addSite *engine.Site
			for _, a := range f.CallsTo(BV + "addVerifiedVote") {
				if engine.ObjOf(info, ast.Unparen(a.Call.Fun).(*ast.SelectorExpr).X) == vbb && engine.ObjOf(info, hhArg(a.Call, 0)) == vote {
					addSite = a
				}
			}
			okOrder := false
			if addSite != nil && s != nil {
				// find the single-def local initialised from bv.sum
				engine.InspectBody(f, func(n ast.Node) {
					a, ok := n.(*ast.AssignStmt)
					if !ok || len(a.Lhs) != 1 || len(a.Rhs) != 1 || a.Tok != token.DEFINE {
						return
					}
					if hhIsChain(info, a.Rhs[0], vbb, "sum") {
						if st := f.SiteOf(a); st != nil && f.Graph().Dominates(st, addSite) && f.Graph().Dominates(addSite, s) {
							okOrder = true
						}
					}
				})
			}
			c.Check("maj23-writer", f.Name+" sum-before read, then block add, then threshold test", as.Pos(), okOrder, "the crossing test must compare the block's sum before and after adding this vote")
			// the block entry is the one for this vote's block key
			okKey := vbb != nil
			if vbb != nil {
				for _, a := range hhAssignsTo(f, vbb) {
					st, isSt := a.(*ast.AssignStmt)
					if !isSt || len(st.Rhs) != 1 {
						okKey = false
						continue
					}
					if ix, isIx := ast.Unparen(st.Rhs[0]).(*ast.IndexExpr); isIx {
						if !(hhIsChain(info, ix.X, recv, "votesByBlock") && engine.ObjOf(info, ix.Index) == paramObj(f, 1)) {
							okKey = false
						}
						continue
					}
					// freshly created: must be stored under blockKey
					if fn, isFn := engine.ObjOf(info, ast.Unparen(st.Rhs[0]).(*ast.CallExpr).Fun).(*types.Func); !isFn || fn.Name() != "newBlockVotes" {
						okKey = false
					}
				}
			}
			c.Check("maj23-writer", f.Name+" block tally is votesByBlock[blockKey]", as.Pos(), okKey, "")
		}
		c.Floor("maj23-writer guarded writes", n, 1)
	}
	// MakeCommit needs maj23 and uses it
	if f := c.MustFunc(VS + "MakeCommit"); f != nil {
		info := f.Info()
		recv := hhRecv(f)
		nc := f.CallsTo("tm2/pkg/bft/types.NewCommit")
		c.Floor("maj23-writer MakeCommit", len(nc), 1)
		for _, s := range nc {
			k, nn := hhKnowsNil(info, hhFacts(f, s), recv, "maj23")
			c.Check("maj23-writer", f.Name+" requires maj23 != nil", s.Pos(), k && nn, "no commit without a +2/3 majority")
			names := map[types.Object]string{recv: "vs"}
			c.Check("maj23-writer", f.Name+" commit is for *maj23", s.Pos(), hhNorm(f, hhArg(s.Call, 0), names, 1) == "*vs.maj23", "got `"+hhNorm(f, hhArg(s.Call, 0), names, 1)+"`")
			pc := false
			for _, ft := range hhFacts(f, s) {
				if x, op, y, ok := hhCmp(ft); ok && op == token.EQL && hhIsChain(info, x, recv, "type_") && hhConstName(info, y) == "PrecommitType" {
					pc = true
				}
			}
			c.Check("maj23-writer", f.Name+" only for precommit sets", s.Pos(), pc, "")
			// elements: only votes for the majority block. The slice handed to
			// NewCommit is a local of MakeCommit or the result of an extracted helper.
			ef := f
			toF := func(e ast.Expr) ast.Expr { return e }
			arg1 := hhArg(s.Call, 1)
			sl := engine.ObjOf(info, arg1)
			if call, isCall := ast.Unparen(hhResolve(f, arg1)).(*ast.CallExpr); isCall {
				if h := hhCalleeFn(f, call); h != nil && h.Obj != nil && !h.Obj.Exported() {
					for _, rb := range h.Graph().ReturnBlocks() {
						if r := rb.Return(); r != nil && len(r.Results) == 1 {
							if o := engine.ObjOf(h.Info(), r.Results[0]); o != nil {
								bind := hhBind(h, call)
								ef, sl = h, o
								toF = func(e ast.Expr) ast.Expr { return hhIntoCaller(h, bind, e) }
							}
						}
					}
				}
			}
			n := 0
			engine.InspectBody(ef, func(x ast.Node) {
				as, ok := x.(*ast.AssignStmt)
				if !ok || len(as.Lhs) != 1 || len(as.Rhs) != 1 {
					return
				}
				ix, isIx := ast.Unparen(as.Lhs[0]).(*ast.IndexExpr)
				if !isIx || engine.ObjOf(info, ix.X) != sl || sl == nil || isNil(as.Rhs[0]) {
					return
				}
				n++
				st := ef.SiteOf(as)
				okEq := false
				if st != nil {
					for _, ft := range hhFacts(ef, st) {
						if !ft.True {
							continue
						}
						t := hhNorm(f, toF(ft.E), names, 2)
						if strings.Contains(t, "vs.maj23") && (strings.Contains(t, ".Equals(") || strings.Contains(t, "==")) && strings.Contains(t, "BlockID") {
							okEq = true
						}
					}
				}
				// stable label of the construct: "the commit element taken from a vote's CommitSig()"
				label := hhRender(as.Lhs[0]) + " = " + hhRender(as.Rhs[0])
				if _, _, isCS := hhMethodCall(info, as.Rhs[0], "CommitSig"); isCS {
					label = "commitSigs[i] = v.CommitSig()"
				}
				c.Check("commit-only-majority", f.Name+" "+label, as.Pos(), okEq, "every entry of voteSet.votes is copied into the commit; entries for nil or for another block are not filtered by a BlockID == *maj23 test, so the commit can contain votes that are not for the majority block")
			})
			c.Floor("commit-only-majority", n, 1)
		}
	}

	// ---- (3) quorum-form agreement ----
	{
		n := 0
		for _, f := range p.FuncsIn("tm2/pkg/bft/types") {
			info := f.Info()
			var stack []ast.Node
			ast.Inspect(f.Body, func(x ast.Node) bool {
				if x == nil {
					stack = stack[:len(stack)-1]
					return false
				}
				if _, isLit := x.(*ast.FuncLit); isLit && x != ast.Node(f.Lit) {
					stack = append(stack, x)
					return true
				}
				stack = append(stack, x)
				be, ok := x.(*ast.BinaryExpr)
				if !ok || be.Op != token.QUO || !hhIsIntLit(info, be.Y, 3) {
					return true
				}
				mul, ok := ast.Unparen(be.X).(*ast.BinaryExpr)
				if !ok || mul.Op != token.MUL || !(hhIsIntLit(info, mul.Y, 2) || hhIsIntLit(info, mul.X, 2)) {
					return true
				}
				if hhIsIntLit(info, mul.X, 2) {
					mul = &ast.BinaryExpr{X: mul.Y, Op: token.MUL, Y: mul.X}
				}
				// two-thirds expression found: classify its use
				key := f.Root().Name + " " + hhRender(mul.X) + "*2/3"
				// climb parens
				i := len(stack) - 2
				for i >= 0 {
					if _, isP := stack[i].(*ast.ParenExpr); isP {
						i--
						continue
					}
					break
				}
				if i < 0 {
					return true
				}
				var self ast.Expr = be
				plusOne := false
				if pb, isB := stack[i].(*ast.BinaryExpr); isB && pb.Op == token.ADD && hhIsIntLit(info, pb.Y, 1) {
					plusOne = true
					self = pb
					i--
				}
				if i < 0 {
					return true
				}
				switch par := stack[i].(type) {
				case *ast.BinaryExpr:
					op := par.Op
					if ast.Unparen(par.Y) != self && ast.Unparen(par.X) == self {
						op = engine.Flip(op) // threshold on the left: T op P  ==  P flip(op) T
					}
					// now reads  P op T
					var ok bool
					var form string
					if plusOne {
						ok = op == token.GEQ || op == token.LSS
						form = "P " + op.String() + " T+1"
					} else {
						ok = op == token.GTR || op == token.LEQ
						form = "P " + op.String() + " T"
					}
					switch op {
					case token.GTR, token.GEQ, token.LSS, token.LEQ:
						n++
						c.Check("quorum-form", key+" comparison", par.Pos(), ok, "form `"+form+"`: +2/3 means strictly more than total*2/3")
					}
				case *ast.AssignStmt:
					// quorum := T+1 ; every comparison of that variable must be  q <= P / P >= q / P < q / q > P
					if len(par.Lhs) == 1 {
						qv := engine.ObjOf(info, par.Lhs[0])
						n++
						vname := "t"
						if plusOne {
							vname = "q"
						}
						c.Check("quorum-form", key+" threshold variable ("+vname+")", par.Pos(), qv != nil, "threshold bound to a variable")
						engine.InspectBody(f.Root(), func(y ast.Node) {
							cmp, isC := y.(*ast.BinaryExpr)
							if !isC {
								return
							}
							op := cmp.Op
							switch op {
							case token.GTR, token.GEQ, token.LSS, token.LEQ:
							default:
								return
							}
							if engine.ObjOf(info, cmp.X) == qv {
								op = engine.Flip(op)
							} else if engine.ObjOf(info, cmp.Y) != qv {
								return
							}
							n++
							okUse := op == token.GEQ || op == token.LSS
							if !plusOne {
								okUse = op == token.GTR || op == token.LEQ
							}
							c.Check("quorum-form", key+" use of threshold variable: "+hhNormCmp(cmp, qv, info), cmp.Pos(), okUse, "with q = total*2/3+1 the tests must be `sum >= q` / `sum < q`; with t = total*2/3 they must be `sum > t` / `sum <= t`")
						})
					}
				}
				return true
			})
		}
		c.Floor("quorum-form", n, 6)
	}

	// ---- (4) sums count a validator once ----
	for _, t := range []struct{ fn, field, own string }{
		{VS + "addVerifiedVote", "tm2/pkg/bft/types.VoteSet.sum", "votes"},
		{BV + "addVerifiedVote", "tm2/pkg/bft/types.blockVotes.sum", "votes"},
	} {
		fld := p.Field(t.field)
		f := c.MustFunc(t.fn)
		if fld == nil || f == nil {
			if fld == nil {
				c.Undecided("sum-distinct", t.field, "field not found")
			}
			continue
		}
		ws := p.FieldWrites(fld)
		ctor := "tm2/pkg/bft/types.NewVoteSet"
		if strings.Contains(t.field, "blockVotes") {
			ctor = "tm2/pkg/bft/types.newBlockVotes"
		}
		got := engine.WriterSet(ws, nil)
		c.Check("sum-distinct", "writers of "+t.field, token.NoPos, len(hhExtra(got, []string{t.fn, ctor})) == 0, "writers: "+join(got))
		info := f.Info()
		recv := hhRecv(f)
		vote := paramObj(f, 0)
		n := 0
		for _, w := range ws {
			if w.Fn != f {
				continue
			}
			n++
			as, isAs := w.Node.(*ast.AssignStmt)
			ok, why := false, "sum must be updated by `sum += votingPower` only"
			if isAs && as.Tok == token.ADD_ASSIGN && len(as.Rhs) == 1 {
				pw := engine.ObjOf(info, as.Rhs[0])
				last := paramObj(f, len(hhParamsOf(f))-1)
				if pw != nil && pw == last {
					// under `existing == nil` with existing := recv.votes[vote.ValidatorIndex]
					s := f.SiteOf(as)
					names := map[types.Object]string{recv: "r", vote: "vote"}
					for _, ft := range hhFacts(f, s) {
						x, notNil, isN := hhNilCmp(ft.E)
						if !isN || notNil == ft.True {
							continue
						}
						if hhNorm(f, x, names, 2) == "r."+t.own+"[vote.ValidatorIndex]" {
							ok, why = true, "only for the validator's first vote here"
						}
					}
					if !ok {
						why = "`sum += votingPower` is not under `" + t.own + "[vote.ValidatorIndex] == nil`: a validator's power could be counted twice"
					}
					// and the slot is filled in the same branch
					if ok {
						filled := false
						engine.InspectBody(f, func(y ast.Node) {
							a2, isA := y.(*ast.AssignStmt)
							if !isA || len(a2.Lhs) != 1 {
								return
							}
							if ix, isIx := ast.Unparen(a2.Lhs[0]).(*ast.IndexExpr); isIx && hhIsChain(info, ix.X, recv, t.own) && hhNorm(f, ix.Index, names, 2) == "vote.ValidatorIndex" && engine.ObjOf(info, a2.Rhs[0]) == vote {
								if s2 := f.SiteOf(a2); s2 != nil && s2.Block == s.Block {
									filled = true
								}
							}
						})
						if !filled {
							ok, why = false, "the validator's slot is not filled together with the sum update"
						}
					}
				}
			}
			c.Check("sum-distinct", f.Name+" "+hhRender(as.Lhs[0])+" update", w.Node.Pos(), ok, why)
		}
		c.Floor("sum-distinct "+t.fn, n, 1)
	}

	// ---- (5) query methods ----
	for _, q := range []struct{ fn, want string }{
		{"HasTwoThirdsMajority", "vs.maj23 != nil"},
		{"IsCommit", "vs.maj23 != nil"},
		{"HasTwoThirdsAny", "vs.sum > vs.valSet.TotalVotingPower() * 2 / 3"},
		{"HasAll", "vs.sum == vs.valSet.TotalVotingPower()"},
	} {
		f := c.MustFunc(VS + q.fn)
		if f == nil {
			continue
		}
		recv := hhRecv(f)
		names := map[types.Object]string{recv: "vs"}
		var nonConst []string
		for _, rb := range f.Graph().ReturnBlocks() {
			r := rb.Return()
			if len(r.Results) != 1 {
				continue
			}
			t := hhNorm(f, r.Results[0], names, 1)
			if t == "false" {
				continue
			}
			nonConst = append(nonConst, t)
		}
		c.Check("query-exact", f.Name+" reports "+q.want, f.Pos(), len(nonConst) == 1 && nonConst[0] == q.want, "non-false results: "+join(nonConst))
	}
	if f := c.MustFunc(VS + "TwoThirdsMajority"); f != nil {
		info := f.Info()
		recv := hhRecv(f)
		names := map[types.Object]string{recv: "vs"}
		okT, okF := false, true
		for _, rb := range f.Graph().ReturnBlocks() {
			r := rb.Return()
			if len(r.Results) != 2 {
				okF = false
				continue
			}
			v := hhNorm(f, r.Results[1], names, 0)
			rs := f.SiteOf(r)
			k, nn := hhKnowsNil(info, hhFacts(f, rs), recv, "maj23")
			if v == "true" {
				okT = k && nn && hhNorm(f, r.Results[0], names, 0) == "*vs.maj23"
			} else if v != "false" {
				okF = false
			} else if k && nn {
				okF = false // reports false although maj23 is set
			}
		}
		c.Check("query-exact", f.Name+" (*maj23,true) iff maj23 != nil", f.Pos(), okT && okF, "")
	}

	// ---- (6) locking ----
	hhLockRule(c, p, "tm2/pkg/bft/types", "VoteSet", []string{"votesBitArray", "votes", "sum", "maj23", "votesByBlock", "peerMaj23s"}, 15)
	hhLockRule(c, p, "tm2/pkg/bft/consensus/types", "HeightVoteSet", []string{"round", "roundVoteSets", "peerCatchupRounds", "height", "valSet"}, 9)

	// HeightVoteSet wiring
	if f := c.MustFunc("tm2/pkg/bft/consensus/types.(*HeightVoteSet).getVoteSet"); f != nil {
		info := f.Info()
		good := 0
		var rvs types.Object
		for _, si := range f.Switches() {
			if engine.ObjOf(info, si.Tag) != paramObj(f, 1) {
				continue
			}
			for k, fld := range map[string]string{"PrevoteType": "Prevotes", "PrecommitType": "Precommits"} {
				cc := si.Consts[k]
				ok := false
				if cc != nil && len(cc.Body) == 1 {
					if r, isR := cc.Body[0].(*ast.ReturnStmt); isR && len(r.Results) == 1 {
						if rt, fs, isC := hhChain(info, r.Results[0]); isC && len(fs) == 1 && fs[0] == fld {
							ok = true
							rvs = rt
						}
					}
				}
				c.Check("hvs-wiring", f.Name+" case "+k+" returns ."+fld, f.Pos(), ok, "")
				if ok {
					good++
				}
			}
			c.Check("hvs-wiring", f.Name+" unknown type panics", si.Stmt.Pos(), si.HasDefault && f.ClausePanics(si.Default), "")
		}
		// rvs := hvs.roundVoteSets[round]
		okIdx := false
		if rvs != nil {
			for _, a := range hhAssignsTo(f, rvs) {
				if as, isAs := a.(*ast.AssignStmt); isAs && len(as.Rhs) == 1 {
					if ix, isIx := ast.Unparen(as.Rhs[0]).(*ast.IndexExpr); isIx && hhIsChain(info, ix.X, hhRecv(f), "roundVoteSets") && engine.ObjOf(info, ix.Index) == paramObj(f, 0) {
						okIdx = true
					}
				}
			}
		}
		c.Check("hvs-wiring", f.Name+" looks up roundVoteSets[round]", f.Pos(), okIdx, "")
		c.Floor("hvs-wiring getVoteSet", good, 2)
	}
	if f := c.MustFunc("tm2/pkg/bft/consensus/types.(*HeightVoteSet).addRound"); f != nil {
		recv := hhRecv(f)
		round := paramObj(f, 0)
		names := map[types.Object]string{recv: "hvs", round: "round"}
		n := 0
		engine.InspectBody(f, func(x ast.Node) {
			kv, ok := x.(*ast.KeyValueExpr)
			if !ok {
				return
			}
			k := hhIdent(kv.Key)
			if k == nil || (k.Name != "Prevotes" && k.Name != "Precommits") {
				return
			}
			n++
			typ := "PrevoteType"
			if k.Name == "Precommits" {
				typ = "PrecommitType"
			}
			want := "tm2/pkg/bft/types.NewVoteSet(hvs.chainID, hvs.height, round, " + typ + ", hvs.valSet)"
			got := hhNorm(f, kv.Value, names, 2)
			c.Check("hvs-wiring", f.Name+" "+k.Name, kv.Pos(), got == want, "got `"+got+"`, want `"+want+"`")
		})
		c.Floor("hvs-wiring addRound", n, 2)
	}
}

func hhParamsOf(f *engine.Fn) []types.Object {
	var out []types.Object
	for i := 0; ; i++ {
		o := paramObj(f, i)
		if o == nil {
			return out
		}
		out = append(out, o)
	}
}

// hhLockRule: every method of pkg.T whose body (not nested literals) touches
// one of the mutable fields either acquires T.mtx before every such access and
// releases it by defer (exported methods), or is unexported and called only
// from methods of T (which are themselves checked).
func hhLockRule(c *engine.Ctx, p *engine.Prog, pkg, typ string, fields []string, floor int) {
	mut := map[string]bool{}
	for _, f := range fields {
		mut[f] = true
	}
	prefix := pkg + ".(*" + typ + ")."
	n := 0
	for _, f := range p.FuncsIn(pkg) {
		if f.Decl == nil || !strings.HasPrefix(f.Name, prefix) {
			continue
		}
		info := f.Info()
		recv := hhRecv(f)
		var acc []*ast.SelectorExpr
		all := append([]*engine.Fn{f}, f.AllLits()...)
		for _, x := range all {
			engine.InspectBody(x, func(nd ast.Node) {
				sel, ok := nd.(*ast.SelectorExpr)
				if !ok {
					return
				}
				if id := hhIdent(sel.X); id != nil && info.ObjectOf(id) == recv && mut[sel.Sel.Name] {
					acc = append(acc, sel)
				}
			})
		}
		if len(acc) == 0 {
			continue
		}
		n++
		if !f.Obj.Exported() {
			cs := engine.CallerSet(p.RefsToFunc(f.Name))
			var bad []string
			for _, cl := range cs {
				if !strings.HasPrefix(cl, prefix) {
					bad = append(bad, cl)
				}
			}
			c.Check("holds-lock", f.Name+" (unexported) called only from "+typ+" methods", f.Pos(), len(bad) == 0, "outside callers: "+join(bad))
			continue
		}
		var lock *engine.Site
		deferred := false
		for _, s := range f.Calls() {
			nme := s.CalleeName()
			if (nme == "sync.(*Mutex).Lock" || nme == "sync.(*RWMutex).Lock" || nme == "sync.(*RWMutex).RLock") && selMentions(s.Call, "mtx") && !s.Deferred && lock == nil {
				lock = s
			}
			if s.Deferred && isUnlock(s, "mtx") {
				deferred = true
			}
		}
		ok, why := lock != nil && deferred, "no mtx.Lock() with deferred Unlock"
		if ok {
			why = "every access to mutable fields follows mtx.Lock()"
			for _, a := range acc {
				s := f.SiteOf(a)
				if s == nil {
					continue // in a nested literal or dead code: literal bodies run under the caller's lock only if invoked synchronously; flagged below
				}
				if !f.Graph().Dominates(lock, s) {
					ok, why = false, "`"+hhRender(a)+"` is read/written before mtx.Lock()"
				}
			}
		}
		c.Check("holds-lock", f.Name, f.Pos(), ok, why)
	}
	c.Floor("holds-lock "+typ, n, floor)
}

// hhNormCmp renders a comparison with the threshold variable as "P op T".
func hhNormCmp(cmp *ast.BinaryExpr, qv types.Object, info *types.Info) string {
	op := cmp.Op
	if engine.ObjOf(info, cmp.X) == qv {
		op = engine.Flip(op)
	}
	return "P " + op.String() + " threshold"
}
