package checks

import (
	"go/ast"
	"go/token"
	"go/types"
	"strings"

	"gnoverif/engine"
)

// C01 extra — process-lifetime state cannot be fed by transaction execution.
// A value that survives from one transaction to the next outside the store
// (a package-level variable, or a long-lived cache field of the VM keeper) makes
// later gas/results depend on what this process has executed since it started,
// i.e. on its restart history. Rules: (a) every write to a package-level
// variable of the consensus-path packages is in an init function or in the
// frozen table; (b) the keeper's committed type-check cache is referenced only
// by the boot/genesis functions and, in transaction code, only as the source of
// a clone. (Added after an independently seeded change merged each
// transaction's type-check cache back into the keeper's.)
func init() {
	extend("C01", c01State)
	mutants("C01",
		Mutant{"tx-feeds-typecheck-cache", "gno.land/pkg/sdk/vm/keeper.go", "func (vm *VMKeeper) CommitGnoTransactionStore(ctx sdk.Context) {\n", "func (vm *VMKeeper) CommitGnoTransactionStore(ctx sdk.Context) {\n\tmaps.Copy(vm.typeCheckCache, vm.getTypeCheckCache(ctx))\n", "lifetime-cache-ref"},
		Mutant{"tx-store-shares-typecheck-cache", "gno.land/pkg/sdk/vm/keeper.go", "WithValue(vmkContextKeyTypeCheckCache, maps.Clone(vm.typeCheckCache)).", "WithValue(vmkContextKeyTypeCheckCache, vm.typeCheckCache).", "lifetime-cache-ref"},
		Mutant{"global-memo-in-keeper", "gno.land/pkg/sdk/vm/keeper.go", "func (vm *VMKeeper) getTypeCheckCache(ctx sdk.Context) gno.TypeCheckCache {\n", "func (vm *VMKeeper) getTypeCheckCache(ctx sdk.Context) gno.TypeCheckCache {\n\tcachedInitTypeCheckCache = nil\n", "global-state-writer"},
	)
}

// package-level variables that are written outside init functions, confirmed by reading.
var c01GlobalWriters = map[string]string{
	"gnovm/pkg/gnolang.Uverse -> gnovm/pkg/gnolang.uverseInit":                              "one-time lazy construction of the immutable uverse (state flag)",
	"gnovm/pkg/gnolang.UverseNode -> gnovm/pkg/gnolang.uverseInit":                          "same",
	"gnovm/pkg/gnolang.makeUverseNode -> gnovm/pkg/gnolang.uverseValue":                     "one-time construction of the uverse package value; identical in every process",
	"gnovm/pkg/gnolang.makeUverseNode -> gnovm/pkg/gnolang.uverseNode":                      "same",
	"gnovm/pkg/gnolang.RegisterNativeGas -> gnovm/pkg/gnolang.nativeGasIndex":               "registration table filled from package init of the stdlibs",
	"gnovm/pkg/gnolang.ClearDebugErrors -> gnovm/pkg/gnolang.derrors":                       "debug-build error list, never read by execution",
	"gnovm/pkg/gnolang.(debugging).Errorf -> gnovm/pkg/gnolang.derrors":                     "same",
	"gno.land/pkg/sdk/vm.(*VMKeeper).LoadStdlibCached -> gno.land/pkg/sdk/vm.cachedStdlib":  "sync.Once-guarded stdlib image used by tests/gnodev genesis; derived from the stdlib directory only",
	"gno.land/pkg/sdk/vm.(*VMKeeper).LoadStdlibCached -> gno.land/pkg/sdk/vm.cachedInitTypeCheckCache": "same sync.Once block",
}

// functions allowed to mention VMKeeper.typeCheckCache, and how.
var c01TypeCheckCacheRefs = map[string]string{
	"gno.land/pkg/sdk/vm.NewVMKeeper":                         "construction",
	"gno.land/pkg/sdk/vm.(*VMKeeper).Initialize":              "boot: re-type-checks the stdlibs in InitOrder, identical on every restart",
	"gno.land/pkg/sdk/vm.(*VMKeeper).LoadStdlib":              "genesis stdlib load",
	"gno.land/pkg/sdk/vm.(*VMKeeper).LoadStdlibCached":        "genesis stdlib load (cached image)",
	"gno.land/pkg/sdk/vm.(*VMKeeper).MakeGnoTransactionStore": "transaction code: only as the argument of maps.Clone",
}

func c01State(c *engine.Ctx) {
	p := progWith(c, c01Packages...)
	if p == nil {
		return
	}
	// (a) writes to package-level variables
	n := 0
	for _, f := range p.Funcs() {
		info := f.Info()
		root := f.Root().Name
		pkgVar := func(e ast.Expr) *types.Var {
			for {
				switch x := ast.Unparen(e).(type) {
				case *ast.IndexExpr:
					e = x.X
					continue
				case *ast.StarExpr:
					e = x.X
					continue
				case *ast.SelectorExpr:
					if v, ok := info.Uses[x.Sel].(*types.Var); ok && !v.IsField() && v.Pkg() != nil && v.Parent() == v.Pkg().Scope() {
						return v
					}
					e = x.X
					continue
				case *ast.Ident:
					if v, ok := info.ObjectOf(x).(*types.Var); ok && !v.IsField() && v.Pkg() != nil && v.Parent() == v.Pkg().Scope() {
						return v
					}
				}
				return nil
			}
		}
		report := func(pos token.Pos, v *types.Var) {
			n++
			if strings.HasSuffix(root, ".init") || strings.Contains(root, ".init$") {
				return
			}
			if !strings.HasPrefix(v.Pkg().Path(), engine.ModPrefix) {
				return
			}
			key := root + " -> " + engine.Rel(v.Pkg().Path()) + "." + v.Name()
			why, ok := c01GlobalWriters[key]
			c.Check("global-state-writer", key, pos, ok, "package-level variable written outside init and not in the reviewed table (process-lifetime state fed at run time makes results depend on restart history) "+why)
		}
		engine.InspectBody(f, func(x ast.Node) {
			switch s := x.(type) {
			case *ast.AssignStmt:
				if s.Tok == token.DEFINE {
					return
				}
				for _, l := range s.Lhs {
					if v := pkgVar(l); v != nil {
						report(s.Pos(), v)
					}
				}
			case *ast.IncDecStmt:
				if v := pkgVar(s.X); v != nil {
					report(s.Pos(), v)
				}
			case *ast.CallExpr:
				// maps.Copy(dst, …), maps.Insert(dst, …), clear(x), delete(x, k), copy(dst, …), append is an assignment
				name := ""
				if fn, _ := engine.ObjOf(info, s.Fun).(*types.Func); fn != nil {
					name = engine.FuncName(fn)
				}
				if b, ok := engine.ObjOf(info, s.Fun).(*types.Builtin); ok {
					name = "builtin." + b.Name()
				}
				switch name {
				case "maps.Copy", "maps.Insert", "builtin.clear", "builtin.delete", "builtin.copy":
					if len(s.Args) > 0 {
						if v := pkgVar(s.Args[0]); v != nil {
							report(s.Pos(), v)
						}
					}
				}
			}
		})
	}
	c.Floor("global-state-writer", n, 10)

	// (b) references to VMKeeper.typeCheckCache
	fv := p.Field("gno.land/pkg/sdk/vm.VMKeeper.typeCheckCache")
	if fv == nil {
		c.Undecided("lifetime-cache-ref", "VMKeeper.typeCheckCache", "field not found")
		return
	}
	refs := 0
	for _, r := range p.RefsTo(func(o types.Object) bool { return o == types.Object(fv) }) {
		if r.Fn == nil {
			continue
		}
		refs++
		root := r.Fn.Root().Name
		_, ok := c01TypeCheckCacheRefs[root]
		why := "the keeper's committed type-check cache may be touched only by boot/genesis code; transaction code works on a clone"
		if ok && root == "gno.land/pkg/sdk/vm.(*VMKeeper).MakeGnoTransactionStore" {
			// must be exactly the argument of maps.Clone
			ok = false
			engine.InspectBody(r.Fn, func(x ast.Node) {
				call, isCall := x.(*ast.CallExpr)
				if !isCall || len(call.Args) != 1 {
					return
				}
				if fn, _ := engine.ObjOf(r.Fn.Info(), call.Fun).(*types.Func); fn != nil && engine.FuncName(fn) == "maps.Clone" {
					if se, isSel := ast.Unparen(call.Args[0]).(*ast.SelectorExpr); isSel && se.Sel == r.Ident {
						ok = true
					}
				}
			})
			why = "in transaction code the cache may only be cloned (maps.Clone(vm.typeCheckCache)), never shared"
		}
		c.Check("lifetime-cache-ref", "VMKeeper.typeCheckCache in "+root, r.Ident.Pos(), ok, why)
	}
	c.Floor("lifetime-cache-ref", refs, 4)
}
