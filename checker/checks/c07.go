package checks

import (
	"go/ast"
	"go/token"
	"go/types"
	"strconv"
	"strings"

	"gnoverif/engine"
)

// C07 — a realm's persisted state changes only under that realm's authority:
// every VM mutation hook sits behind the readonly gate.
func init() {
	register("C07", c07)
	meta("C07", Meta{
		Text: "Decides, over all paths of every function of gnovm/pkg/gnolang that reaches the ownership hook (*Realm).DidUpdate, that the mutated object (the hook's `po` argument, or the receiver pointer of the forwarding helpers PointerValue.Assign2 / TypedValue.GetPointerAtIndex) is derived from a value that passed the cross-realm write guard first: PopAsPointer, or resolvePointer/PopAsPointer2 with the `ro` verdict tested and panicking, or m.IsReadonly(x) on the same operand with a panicking true-branch. Also: raw writes into append's/copy's destination backing array are behind the same guard; resolvePointer computes `ro` from IsReadonly/isExternalRealm on the lhs operand in every lvalue case; PopAsPointer returns only when ro is false; the stdlib-only own-package exemptions of IsReadonly/isExternalRealm are gated on IsStdlibPkg and every `return false` (writable) of isReadonly/isExternalRealm falls under a frozen table of 2 resp. 5 reasoned conditions; the five composite-literal handlers and new/make run checkConstructionTime before allocating/pushing and checkConstructionTime panics on a foreign /r/ type; realm values are refused before any object is saved; DidUpdate's external-realm and /p/-immutability panics are in place. Level 'other': necessary structural conditions, not a model of the interrealm semantics.",
		Note:      "Not covered: that PushFrameCall's borrow rules select the right realm; IsReadonlyBy's per-value-kind object-id selection; attacker-program search; writes that bypass both the guard and DidUpdate outside append/copy. Exemptions frozen by reading: definitions into m.LastBlock() (doOpDefine/doOpValueDecl/doOpTypeDecl), list-only range read in doOpExec, RunFiles (own package realm, test convenience).",
		Technique: "go/cfg dominance + verdict-gating (CheckedGuard), flow-insensitive access-path derivation, who-may-call, switch-clause exhaustiveness",
		Ref:       "DESIGN.md §2 C07",
	})
	const dir = "gnovm/pkg/gnolang/"
	mutants("C07",
		Mutant{"copy-guards-wrong-operand", dir + "uverse.go", "if m.IsReadonly(dst.TV) {\n\t\t\t\t\tm.Panic(typedString(\"cannot copy to readonly tainted slice\"))\n\t\t\t\t}\n\t\t\t\tdstBase := dstv.GetBase(m.Store)\n\t\t\t\t// Same as above", "if m.IsReadonly(src.TV) {\n\t\t\t\t\tm.Panic(typedString(\"cannot copy to readonly tainted slice\"))\n\t\t\t\t}\n\t\t\t\tdstBase := dstv.GetBase(m.Store)\n\t\t\t\t// Same as above", "write-guard uverse-native(copy)"},
		Mutant{"delete-guard-weakened", dir + "uverse.go", "if m.IsReadonly(arg0.TV) {\n\t\t\t\t\tm.Panic(typedString(\"cannot delete from readonly tainted map\"))", "if m.IsReadonly(arg0.TV) && mv.GetLength() > 0 {\n\t\t\t\t\tm.Panic(typedString(\"cannot delete from readonly tainted map\"))", "write-guard uverse-native(delete)"},
		Mutant{"inc-uses-unguarded-pop", dir + "op_inc_dec.go", "func (m *Machine) doOpInc() {\n\ts := m.PopStmt().(*IncDecStmt)\n\n\t// Get reference to lhs.\n\tpv := m.PopAsPointer(s.X)", "func (m *Machine) doOpInc() {\n\ts := m.PopStmt().(*IncDecStmt)\n\n\t// Get reference to lhs.\n\tpv, _ := m.PopAsPointer2(s.X)", "write-guard gnovm/pkg/gnolang.(*Machine).doOpInc"},
		Mutant{"multi-assign-ro-dropped", dir + "op_assign.go", "lv, ro := m.resolvePointer(lx, lhsOperands[offset:offset+sz])\n\t\tif ro {", "lv, ro := m.resolvePointer(lx, lhsOperands[offset:offset+sz])\n\t\tif ro && i == 0 {", "helper-caller gnovm/pkg/gnolang.(*Machine).doOpAssign"},
		Mutant{"selector-ro-skipped", dir + "machine.go", "pv = xv.getPointerToFromTV(m.Alloc, m.Store, lx.Path, m.Package.PkgPath)\n\t\tro = m.IsReadonly(xv)", "pv = xv.getPointerToFromTV(m.Alloc, m.Store, lx.Path, m.Package.PkgPath)\n\t\tro = false", "resolve-ro *SelectorExpr"},
		Mutant{"map-index-check-after-insert", dir + "machine.go", "ro = m.IsReadonly(xv)\n\t\t\tif ro {\n\t\t\t\t// Ensure we always panic, without expecting the caller to do it.\n\t\t\t\tm.Panic(typedString(readonlyAccessPanic(lx)))\n\t\t\t}\n\t\t\tpv = xv.GetPointerAtIndex(m, m.Realm, m.Alloc, m.Store, iv)", "pv = xv.GetPointerAtIndex(m, m.Realm, m.Alloc, m.Store, iv)\n\t\t\tro = m.IsReadonly(xv)\n\t\t\tif ro {\n\t\t\t\tm.Panic(typedString(readonlyAccessPanic(lx)))\n\t\t\t}", "helper-caller gnovm/pkg/gnolang.(*Machine).resolvePointer"},
		Mutant{"popaspointer-no-panic", dir + "machine.go", "pv, ro := m.PopAsPointer2(lx)\n\tif ro {\n\t\tm.Panic(typedString(readonlyAccessPanic(lx)))\n\t}\n\treturn pv", "pv, ro := m.PopAsPointer2(lx)\n\tif ro && m.Stage == StagePre {\n\t\tm.Panic(typedString(readonlyAccessPanic(lx)))\n\t}\n\treturn pv", "pop-guard"},
		Mutant{"own-write-exemption-widened", dir + "machine.go", "if m.Package != nil && m.Package.PkgID.IsStdlibPkg() {\n\t\townPkgID = m.Package.PkgID", "if m.Package != nil && m.Package.PkgID.IsImmutablePkg() {\n\t\townPkgID = m.Package.PkgID", "own-exemption"},
		Mutant{"readonly-off-during-add-stage", dir + "machine.go", "//  m.Realm is nil → single user mode, nothing is readonly\n\tif m.Realm == nil {", "//  m.Realm is nil → single user mode, nothing is readonly\n\tif m.Realm == nil || m.Stage == StageAdd {", "readonly-exemptions"},
		Mutant{"external-check-skips-blocks", dir + "machine.go", "if _, ok := base.(*HeapItemValue); ok {\n\t\treturn false\n\t}", "if _, ok := base.(*HeapItemValue); ok {\n\t\treturn false\n\t}\n\tif _, ok := base.(*Block); ok {\n\t\treturn false\n\t}", "readonly-exemptions"},
		Mutant{"structlit-check-dropped", dir + "op_expressions.go", "xt := m.PeekValue(1 + el).V.(TypeValue).Type\n\tm.Alloc.checkConstructionTime(xt)", "xt := m.PeekValue(1 + el).V.(TypeValue).Type", "construct-check gnovm/pkg/gnolang.(*Machine).doOpStructLit"},
		Mutant{"construct-check-weakened", dir + "alloc.go", "if pid != alloc.currentRealmID {\n\t\tpanic(fmt.Sprintf(\n\t\t\t\"cannot allocate %s in realm %s\",", "if pid != alloc.currentRealmID && !alloc.currentRealmID.IsZero() {\n\t\tpanic(fmt.Sprintf(\n\t\t\t\"cannot allocate %s in realm %s\",", "construct-panic"},
		Mutant{"persist-realm-refusal-late", dir + "realm.go", "if hiv, ok := oo.(*HeapItemValue); ok {\n\t\trefusePersistRealmHIV(hiv)\n\t}\n\n\t// assert object have no private dependencies.", "// assert object have no private dependencies.", "persist-refusal"},
		Mutant{"external-backstop-removed", dir + "realm.go", "if poPkgID.IsStdlibPkg() {\n\t\t\treturn\n\t\t}\n\t\tpanic(\"invariant violation", "if poPkgID.IsStdlibPkg() || poPkgID.IsImmutablePkg() {\n\t\t\treturn\n\t\t}\n\t\tpanic(\"invariant violation", "didupdate-backstop"},
		Mutant{"append-raw-write-before-guard", dir + "uverse.go", "if 0 < arg1Length { // implies 0 < xvc\n\t\t\t\t\t\t\t// DEFENSIVE", "if 0 < arg1Length { // implies 0 < xvc\n\t\t\t\t\t\t\tif arg0Base.Data != nil {\n\t\t\t\t\t\t\t\targ0Base.Data[arg0Offset+arg0Length] = 0\n\t\t\t\t\t\t\t}\n\t\t\t\t\t\t\t// DEFENSIVE", "raw-write uverse-native(append)"},
	)
}

const (
	gbG = "gnovm/pkg/gnolang."
	gbM = gbG + "(*Machine)."
)

func c07(c *engine.Ctx) {
	c.Explain = "Decides structural necessary conditions of cross-realm write protection in gnovm/pkg/gnolang: (1) every call of the ownership hook (*Realm).DidUpdate outside the two forwarding helpers is dominated by a write guard (PopAsPointer; resolvePointer/PopAsPointer2 with a panicking `if ro`; `if m.IsReadonly(x) {panic}`) applied to the very value the mutated object is derived from; (2) every caller of the forwarding helpers Assign2/GetPointerAtIndex that passes a live realm is guarded the same way, or writes a definition into m.LastBlock(), or is on a non-map path; (3) raw element writes into the destination array of append/copy are behind the same guard; (4) resolvePointer sets ro from IsReadonly(lhsOperands[0])/isExternalRealm(pv.Base) on every path of every lvalue case (CompositeLit exempt: fresh value) and PopAsPointer returns only if !ro, PopAsPointer2 forwards resolvePointer; (5) own-package write exemptions are gated by IsStdlibPkg only, and every writable verdict of isReadonly/isExternalRealm is one of the frozen exemptions (no realm, own package ref, non-object, transient, heap-item slot, stdlib own data); (6) composite literal handlers and new/make call checkConstructionTime before allocating or pushing, and checkConstructionTime panics when the declaring realm differs; (7) saveObject is reachable only via saveUnsavedObjects/saveUnsavedObjectRecursively and the latter refuses realm values before saving or recursing; (8) DidUpdate keeps its external-realm panic (stdlib-only exemption) and both /p/-immutability panics. Not covered: borrow-rule semantics of PushFrameCall, IsReadonlyBy's object-id selection, attacker-program search."
	p := c.Load("gnovm/pkg/gnolang")
	if p == nil {
		return
	}
	natives, nativeBy := gbNatives(p, "append", "copy", "delete", "new", "make")
	for _, n := range []string{"append", "copy", "delete", "new", "make"} {
		if nativeBy[n] == nil {
			c.Undecided("anchor", "uverse native "+n, "defNative(\""+n+"\", …) literal not found in makeUverseNode")
		}
	}
	const DU = gbG + "(*Realm).DidUpdate"
	const assign2 = gbG + "(PointerValue).Assign2"
	const gpai = gbG + "(*TypedValue).GetPointerAtIndex"
	helpers := map[string]int{assign2: 3, gpai: 1} // helper -> index of its rlm argument
	for h := range helpers {
		c.MustFunc(h)
	}
	c.MustFunc(DU)

	// ---- (1) direct DidUpdate sites ----
	nDirect, nFwd := 0, 0
	ord := map[string]int{}
	for _, f := range p.FuncsIn("gnovm/pkg/gnolang") {
		sites := f.CallsTo(DU)
		if len(sites) == 0 {
			continue
		}
		fk := gbFnKey(p, f, natives)
		for _, s := range sites {
			if len(s.Call.Args) != 4 {
				continue
			}
			sel, _ := ast.Unparen(s.Call.Fun).(*ast.SelectorExpr)
			if sel == nil {
				c.Check("write-guard", fk+" DidUpdate(method value)", s.Pos(), false, "DidUpdate used other than as a direct method call")
				continue
			}
			po := s.Call.Args[1]
			k := fk + " po=" + engine.ExprString(po)
			ord[k]++
			key := k + " #" + strconv.Itoa(ord[k])
			if gbIsNilRealm(f.Info(), sel.X) {
				continue
			}
			if _, isHelper := helpers[f.Name]; isHelper {
				// forwarded: receiver must be the helper's own *Realm parameter
				nFwd++
				o := engine.ObjOf(f.Info(), sel.X)
				c.Check("write-guard-forwarded", key, s.Pos(), o != nil && gbIsParam(f, o), "inside a forwarding helper the hook must be invoked on the caller-supplied realm parameter (the callers carry the guard obligation)")
				continue
			}
			if f.Name == gbM+"RunFiles" {
				ok, why := gbOwnRealm(f, sel.X, po)
				c.Check("write-guard-ownrealm", key, s.Pos(), ok, why)
				continue
			}
			nDirect++
			ok, why := gbWriteGuard(f, s, po)
			c.Check("write-guard", key, s.Pos(), ok, why)
		}
	}
	c.Floor("write-guard", nDirect, 20)
	c.Floor("write-guard-forwarded", nFwd, 3)

	// ---- (2) callers of the forwarding helpers ----
	nCallers := 0
	defineOK := map[string]bool{gbM + "doOpDefine": true, gbM + "doOpValueDecl": true, gbM + "doOpTypeDecl": true}
	listOnlyBudget := map[string]int{gbM + "doOpExec": 1}
	ord = map[string]int{}
	for _, f := range p.FuncsIn("gnovm/pkg/gnolang") {
		for h, ri := range helpers {
			for _, s := range f.CallsTo(h) {
				fk := gbFnKey(p, f, natives)
				short := h[strings.LastIndex(h, ".")+1:]
				sel, _ := ast.Unparen(s.Call.Fun).(*ast.SelectorExpr)
				if sel == nil || len(s.Call.Args) <= ri {
					c.Check("helper-caller", fk+" "+short, s.Pos(), false, "unrecognised call shape")
					continue
				}
				rl := s.Call.Args[ri]
				if gbIsNilRealm(f.Info(), rl) {
					continue // hook disabled on this path
				}
				k := fk + " " + short + "(" + engine.ExprString(sel.X) + ")"
				ord[k]++
				key := k + " #" + strconv.Itoa(ord[k])
				nCallers++
				if _, isHelper := helpers[f.Name]; isHelper {
					if o := engine.ObjOf(f.Info(), rl); o != nil && gbIsParam(f, o) {
						c.Check("helper-caller", key, s.Pos(), true, "forwards its own realm parameter")
						continue
					}
				}
				ok, why := gbWriteGuard(f, s, sel.X)
				if !ok && h == assign2 && defineOK[f.Name] {
					if dok, dwhy := gbDefinesIntoLastBlock(f, sel.X); dok {
						ok, why = true, dwhy
					}
				}
				if !ok && h == gpai {
					if nok, nwhy := gbNonMapPath(f, s, sel.X); nok {
						ok, why = true, nwhy
					} else if listOnlyBudget[f.Name] > 0 {
						listOnlyBudget[f.Name]--
						ok, why = true, "frozen exemption: range iteration over array/slice/array-pointer reads an element; the hook is only reachable on GetPointerAtIndex's map branch"
					}
				}
				c.Check("helper-caller", key, s.Pos(), ok, why)
			}
		}
	}
	c.Floor("helper-caller", nCallers, 16)
	// the helpers are not passed around as values
	for h := range helpers {
		for _, r := range p.RefsToFunc(h) {
			if !r.IsCall {
				c.Check("helper-caller", h+" used as a value", r.Ident.Pos(), false, "method value escapes the caller table")
			}
		}
	}

	// ---- (3) raw writes into the destination of append / copy ----
	nRaw := 0
	for _, nm := range []string{"append", "copy"} {
		f := nativeBy[nm]
		if f == nil {
			continue
		}
		d := gbCollectDefs(f)
		// destination operand: first parameter binding (arg0)
		var dst types.Object
		for _, s := range f.CallsTo(gbG+"(*Block).GetParams2", gbG+"(*Block).GetParams1") {
			if vs := gbAssignedVars(f, s); len(vs) > 0 {
				dst = vs[0]
			}
		}
		if dst == nil {
			c.Undecided("raw-write", "uverse-native("+nm+")", "cannot identify the destination parameter binding (GetParams2)")
			continue
		}
		ord := map[string]int{}
		check := func(n ast.Node, target ast.Expr, what string) {
			if !d.roots(target).objs[dst] {
				return
			}
			// a local slice/array variable header being re-bound is not a write into the array
			if _, isId := ast.Unparen(target).(*ast.Ident); isId {
				return
			}
			st := f.SiteOf(n)
			k := "uverse-native(" + nm + ") " + what + " " + engine.ExprString(target)
			ord[k]++
			key := k + " #" + strconv.Itoa(ord[k])
			if st == nil {
				c.Check("raw-write", key, n.Pos(), false, "cannot locate in CFG")
				return
			}
			nRaw++
			ok, why := gbWriteGuard(f, st, target)
			c.Check("raw-write", key, n.Pos(), ok, why)
		}
		engine.InspectBody(f, func(n ast.Node) {
			switch x := n.(type) {
			case *ast.AssignStmt:
				for _, l := range x.Lhs {
					switch ast.Unparen(l).(type) {
					case *ast.IndexExpr, *ast.StarExpr, *ast.SelectorExpr:
						check(x, l, "store")
					}
				}
			case *ast.IncDecStmt:
				check(x, x.X, "store")
			case *ast.CallExpr:
				switch gbCalleeName(f.Info(), x) {
				case "builtin.copy", gbG + "copyDataToList", gbG + "copyListToData":
					if len(x.Args) > 0 {
						check(x, x.Args[0], "bulk-copy")
					}
				}
			}
		})
	}
	c.Floor("raw-write", nRaw, 5)

	// ---- (4) resolvePointer / PopAsPointer / PopAsPointer2 ----
	if f := c.MustFunc(gbM + "resolvePointer"); f != nil {
		gbResolveRO(c, f)
	}
	if f := c.MustFunc(gbM + "PopAsPointer"); f != nil {
		ok, why := gbGuardedResolver(f, map[*engine.Fn]int{})
		c.Check("pop-guard", f.Name+" return", f.Pos(), ok, why)
		c.Floor("pop-guard", 1, 1)
	}
	if f := c.MustFunc(gbM + "PopAsPointer2"); f != nil {
		ok := false
		n := 0
		engine.InspectBody(f, func(x ast.Node) {
			if r, isR := x.(*ast.ReturnStmt); isR {
				n++
				if len(r.Results) == 1 {
					if call, isC := ast.Unparen(r.Results[0]).(*ast.CallExpr); isC && gbCalleeName(f.Info(), call) == gbM+"resolvePointer" {
						ok = true
					}
				}
			}
		})
		c.Check("pop-guard", f.Name+" forwards resolvePointer", f.Pos(), ok && n == 1, "PopAsPointer2 must return resolvePointer's (pv, ro) unchanged")
	}

	// ---- (5) own-package exemptions keyed on stdlib only ----
	gbOwnExemption(c, p)

	// ---- (6) construction-time check ----
	nCons := 0
	consFns := map[string]*engine.Fn{}
	for _, nm := range []string{"doOpArrayLit", "doOpSliceLit", "doOpSliceLit2", "doOpMapLit", "doOpStructLit"} {
		if f := c.MustFunc(gbM + nm); f != nil {
			consFns[f.Name] = f
		}
	}
	for _, nm := range []string{"new", "make"} {
		if f := nativeBy[nm]; f != nil {
			consFns["uverse-native("+nm+")"] = f
		}
	}
	for _, key := range engine.SortedKeys(consFns) {
		f := consFns[key]
		g := f.Graph()
		cks := f.CallsTo(gbG + "(*Allocator).checkConstructionTime")
		var targets []*engine.Site
		for _, s := range f.Calls() {
			n := s.CalleeName()
			if strings.HasPrefix(n, gbG+"(*Allocator).New") || n == gbM+"PushValue" || n == gbG+"defaultArrayValue" || n == gbG+"defaultTypedValue" {
				targets = append(targets, s)
			}
		}
		ok, why := len(cks) > 0 && len(targets) > 0, "checkConstructionTime dominates every allocation and the result push"
		if len(cks) == 0 {
			why = "no checkConstructionTime call"
		} else if len(targets) == 0 {
			why = "no allocation / PushValue found (idiom changed?)"
		}
		for _, t := range targets {
			if !g.MustPass(t, cks) {
				ok, why = false, "`"+t.CalleeName()+"` at "+p.Pos(t.Pos())+" is reachable without checkConstructionTime"
			}
		}
		// the checked type must be the declared (named) type, not its base type
		d := gbCollectDefs(f)
		for _, ck := range cks {
			if len(ck.Call.Args) != 1 {
				continue
			}
			for _, call := range d.roots(ck.Call.Args[0]).calls {
				if gbCalleeName(f.Info(), call) == gbG+"baseOf" {
					ok, why = false, "checkConstructionTime is applied to baseOf(t): the declaring package of the named type is lost"
				}
			}
			if isNil(ck.Call.Args[0]) {
				ok, why = false, "checkConstructionTime(nil) skips the check"
			}
		}
		nCons++
		c.Check("construct-check", key, f.Pos(), ok, why)
	}
	c.Floor("construct-check", nCons, 7)
	{
		refs := engine.CallerSet(p.RefsToFunc(gbG + "(*Allocator).checkConstructionTime"))
		c.Check("construct-check", "callers of checkConstructionTime", token.NoPos, len(refs) >= 6, "callers: "+join(refs))
	}
	if f := c.MustFunc(gbG + "(*Allocator).checkConstructionTime"); f != nil {
		gbConstructPanic(c, f)
	}

	// ---- (7) realm values are refused before saving ----
	if f := c.MustFunc(gbG + "(*Realm).saveUnsavedObjectRecursively"); f != nil {
		g := f.Graph()
		ref := f.CallsTo(gbG + "refusePersistRealmHIV")
		tg := f.CallsTo(gbG+"(*Realm).saveObject", gbG+"(*Realm).saveUnsavedObjectRecursively", gbG+"getUnsavedChildObjects")
		c.Floor("persist-refusal", len(tg), 3)
		// the refusal sits under `if hiv, ok := oo.(*HeapItemValue); ok` : every path to a target
		// either passes the refusal or took the !ok branch of that comma-ok on the saved object.
		for i, t := range tg {
			ok, why := false, "save/recursion reachable without refusePersistRealmHIV on the object being saved"
			for _, r := range ref {
				if g.Dominates(r, t) {
					ok, why = true, "refusal dominates"
					continue
				}
				gates := g.Gates(r)
				if len(gates) == 1 && gates[0].OnTrue && gbIsCommaOkOfParamAssert(f, gates[0].Cond, 1, "HeapItemValue") && g.BlockDominates(gates[0].Block, t.Block) && g.ReachableAfter(r, t) {
					// argument must be the asserted value
					ok, why = true, "refusePersistRealmHIV(oo.(*HeapItemValue)) is applied whenever the saved object is a heap item, before saving or recursing"
				}
			}
			c.Check("persist-refusal", f.Name+" -> "+t.CalleeName()+" #"+strconv.Itoa(i+1), t.Pos(), ok, why)
		}
	}
	{
		allow := []string{gbG + "(*Realm).saveUnsavedObjectRecursively", gbG + "(*Realm).saveUnsavedObjects"}
		refs := p.RefsToFunc(gbG + "(*Realm).saveObject")
		callers := engine.CallerSet(refs)
		c.Check("persist-refusal", "who-may-call saveObject", token.NoPos, len(callers) > 0 && len(p.UnexpectedCallers(refs, allow)) == 0, "callers: "+join(callers))
		refs = p.RefsToFunc(gbG + "(*Realm).saveUnsavedObjectRecursively")
		callers = engine.CallerSet(refs)
		c.Check("persist-refusal", "who-may-call saveUnsavedObjectRecursively", token.NoPos, len(callers) > 0 && len(p.UnexpectedCallers(refs, allow)) == 0, "callers: "+join(callers))
	}
	if f := c.MustFunc(gbG + "refusePersistRealmHIV"); f != nil {
		// the panic fires for both realm types, under nothing but hiv != nil && !isOriginRealmHIV(hiv)
		n := 0
		g := f.Graph()
		info := f.Info()
		for _, s := range f.CallsTo("builtin.panic") {
			n++
			covered := map[string]bool{}
			extra := ""
			typeName := func(e ast.Expr) string {
				if id, ok := ast.Unparen(e).(*ast.Ident); ok && (id.Name == "gConcreteRealmType" || id.Name == "gConcreteRealmPtrType") {
					if v, isV := info.ObjectOf(id).(*types.Var); isV && v.Parent() == v.Pkg().Scope() {
						return id.Name
					}
				}
				return ""
			}
			// disjunction of equalities against the two realm types; returns false if e is not one
			var eqDisj func(e ast.Expr, into map[string]bool) bool
			eqDisj = func(e ast.Expr, into map[string]bool) bool {
				bx, ok := ast.Unparen(e).(*ast.BinaryExpr)
				if !ok {
					return false
				}
				if bx.Op == token.LOR {
					return eqDisj(bx.X, into) && eqDisj(bx.Y, into)
				}
				if bx.Op == token.EQL {
					if nm := typeName(bx.X) + typeName(bx.Y); nm != "" {
						into[nm] = true
						return true
					}
				}
				return false
			}
			for _, ft := range gbFactsOf(g.Gates(s)) {
				if x, isNilHolds, ok := gbIsNilCmp(ft); ok && !isNilHolds && gbIsParam(f, engine.ObjOf(info, x)) {
					continue
				}
				if call, ok := gbFactCall(ft); ok && !ft.Pos && gbCalleeName(info, call) == gbG+"isOriginRealmHIV" {
					continue
				}
				if ft.Pos && eqDisj(ft.E, covered) {
					continue
				}
				if extra == "" {
					extra = engine.ExprString(ft.E)
				}
			}
			// enclosing case clause of a tagged switch: tag ∈ {values}
			for _, v := range gbEnclosingCaseValues(f, s.Pos()) {
				if nm := typeName(v); nm != "" {
					covered[nm] = true
				} else if extra == "" {
					extra = "case " + engine.ExprString(v)
				}
			}
			ok := covered["gConcreteRealmType"] && covered["gConcreteRealmPtrType"] && extra == ""
			why := "panic must fire for both the concrete realm type and its pointer type, not conjoined with other conditions"
			if extra != "" {
				why += "; additionally depends on `" + extra + "`"
			}
			c.Check("persist-refusal", f.Name+" panic", s.Pos(), ok, why)
		}
		c.Floor("persist-refusal-panic", n, 1)
	}

	// ---- (8) DidUpdate backstop and /p/ gates (shared with C12) ----
	if f := c.MustFunc(DU); f != nil {
		gbDidUpdateGates(c, f, "didupdate-backstop", "p-immutable")
	}
}

func gbIsNilRealm(info *types.Info, e ast.Expr) bool {
	if isNil(e) {
		return true
	}
	o := engine.ObjOf(info, e)
	v, ok := o.(*types.Var)
	return ok && v.Name() == "nilRealm" && v.Parent() == v.Pkg().Scope()
}

func gbIsParam(f *engine.Fn, o types.Object) bool {
	for _, fld := range f.Type.Params.List {
		for _, nm := range fld.Names {
			if f.Info().ObjectOf(nm) == o {
				return true
			}
		}
	}
	return false
}

// gbWriteGuard decides whether the value `e` (evaluated at target) is derived
// from a value that passed the cross-realm write guard on every path to target.
func gbWriteGuard(f *engine.Fn, target *engine.Site, e ast.Expr) (bool, string) {
	g := f.Graph()
	info := f.Info()
	d := gbCollectDefs(f)
	ch := d.roots(e)
	why := "no write guard (PopAsPointer / resolvePointer+ro / IsReadonly with panicking branch) on the value `" + engine.ExprString(e) + "` dominates this site"
	// kind 1: a guarded pointer resolver (PopAsPointer, or any helper computed to return the
	// resolved pointer only after the ro verdict was tested with a panicking branch)
	memo := map[*engine.Fn]int{}
	for _, gs := range f.Calls() {
		fo, isF := gs.Callee.(*types.Func)
		if !isF || gs.Deferred {
			continue
		}
		h := f.Prog.FnOf(fo)
		if h == nil || !strings.HasPrefix(h.Name, gbM) {
			continue
		}
		if okR, _ := gbGuardedResolver(h, memo); !okR {
			continue
		}
		inExpr := e.Pos() <= gs.Node.Pos() && gs.Node.End() <= e.End()
		if !inExpr && !g.Dominates(gs, target) {
			continue
		}
		if inExpr {
			return true, "pointer obtained from " + h.Name + " (panics on readonly)"
		}
		for _, v := range gbAssignedVars(f, gs) {
			if v != nil && ch.objs[v] {
				return true, "derived from " + h.Name + " result `" + v.Name() + "` (panics on readonly)"
			}
		}
	}
	// kind 2: resolvePointer / PopAsPointer2 with tested ro
	for _, gs := range f.CallsTo(gbM+"resolvePointer", gbM+"PopAsPointer2") {
		vs := gbAssignedVars(f, gs)
		if len(vs) != 2 || vs[0] == nil || !ch.objs[vs[0]] {
			continue
		}
		if vs[1] == nil {
			why = "the ro verdict of " + gs.CalleeName() + " is discarded"
			continue
		}
		r := g.CheckedGuard(gs, target)
		if !r.OK {
			why = "ro verdict of " + gs.CalleeName() + " does not gate the write: " + r.Why
			continue
		}
		id, isId := ast.Unparen(r.Cond).(*ast.Ident)
		if !isId || info.ObjectOf(id) != vs[1] {
			why = "ro verdict is combined with another condition: `" + engine.ExprString(r.Cond) + "`"
			continue
		}
		if r.OnTrue {
			why = "write happens on the ro == true branch"
			continue
		}
		return true, "derived from " + gs.CalleeName() + " result, `if ro` panics before the write"
	}
	// kind 3: m.IsReadonly(x) on the same operand
	for _, gs := range f.CallsTo(gbM + "IsReadonly") {
		if len(gs.Call.Args) != 1 {
			continue
		}
		head := gbHeadIdent(info, gs.Call.Args[0])
		if head == nil || !ch.objs[head] {
			continue
		}
		r := g.CheckedGuard(gs, target)
		if !r.OK {
			why = "IsReadonly(" + engine.ExprString(gs.Call.Args[0]) + ") does not gate the write: " + r.Why
			continue
		}
		if _, sole := gbSoleCond(r.Cond, gs.Node); !sole {
			why = "IsReadonly verdict is combined with another condition: `" + engine.ExprString(r.Cond) + "`"
			continue
		}
		if r.OnTrue {
			why = "write happens on the readonly branch"
			continue
		}
		return true, "IsReadonly(" + engine.ExprString(gs.Call.Args[0]) + ") panics before the write"
	}
	return false, why
}

// gbDefinesIntoLastBlock: receiver pointer comes from
// m.LastBlock().GetPointerToMaybeHeapDefine / GetPointerTo — a definition into
// the block the executing code owns.
func gbDefinesIntoLastBlock(f *engine.Fn, recv ast.Expr) (bool, string) {
	d := gbCollectDefs(f)
	ch := d.roots(recv)
	getp, last := false, false
	for _, call := range ch.calls {
		switch gbCalleeName(f.Info(), call) {
		case gbG + "(*Block).GetPointerToMaybeHeapDefine", gbG + "(*Block).GetPointerTo":
			getp = true
		case gbM + "LastBlock":
			last = true
		}
	}
	if getp && last {
		return true, "defines a name in m.LastBlock() (the executing code's own block; DidUpdate's external-realm panic is the backstop)"
	}
	return false, ""
}

// gbNonMapPath: the GetPointerAtIndex call is on the false branch of
// `<recv>.T.Kind() == MapKind` (the hook is only reachable for maps).
func gbNonMapPath(f *engine.Fn, s *engine.Site, recv ast.Expr) (bool, string) {
	g := f.Graph()
	head := gbHeadIdent(f.Info(), recv)
	for _, gt := range g.Gates(s) {
		b, ok := ast.Unparen(gt.Cond).(*ast.BinaryExpr)
		if !ok || b.Op != token.EQL || gt.OnTrue {
			continue
		}
		if id, ok := ast.Unparen(b.Y).(*ast.Ident); !ok || id.Name != "MapKind" {
			continue
		}
		if call, ok := ast.Unparen(b.X).(*ast.CallExpr); ok {
			if sel, ok := call.Fun.(*ast.SelectorExpr); ok && sel.Sel.Name == "Kind" && head != nil && gbHeadIdent(f.Info(), sel.X) == head {
				return true, "on the Kind() != MapKind branch: GetPointerAtIndex reaches the hook only for maps"
			}
		}
	}
	return false, ""
}

// gbOwnRealm: RunFiles attaches declarations to the package's own block under
// the package's own realm.
func gbOwnRealm(f *engine.Fn, recv, po ast.Expr) (bool, string) {
	d := gbCollectDefs(f)
	info := f.Info()
	rch, pch := d.roots(recv), d.roots(po)
	okR, okP := false, false
	for _, call := range rch.calls {
		n := gbCalleeName(info, call)
		if n == gbG+"(*PackageValue).GetRealm" {
			okR = true
		}
	}
	for _, call := range pch.calls {
		if gbCalleeName(info, call) == gbG+"(*PackageValue).GetBlock" {
			okP = true
		}
	}
	var common types.Object
	for o := range rch.objs {
		if pch.objs[o] {
			common = o
		}
	}
	if okR && okP && common != nil {
		return true, "hook invoked on " + common.Name() + ".GetRealm() for " + common.Name() + ".GetBlock(): the package's own realm and block"
	}
	return false, "RunFiles exemption requires receiver = pv.GetRealm() and po = pv.GetBlock() of the same package value"
}

// gbResolveRO: in resolvePointer every lvalue case sets the named result ro on
// every path to the return from IsReadonly(&lhsOperands[0]) or
// isExternalRealm(pv.Base); CompositeLitExpr is the only clause allowed to set
// it to a constant.
func gbResolveRO(c *engine.Ctx, f *engine.Fn) {
	info := f.Info()
	g := f.Graph()
	var roObj, pvObj types.Object
	if f.Type.Results != nil {
		for _, fld := range f.Type.Results.List {
			for _, nm := range fld.Names {
				switch nm.Name {
				case "ro":
					roObj = info.ObjectOf(nm)
				case "pv":
					pvObj = info.ObjectOf(nm)
				}
			}
		}
	}
	opsObj := paramObj(f, 1)
	if roObj == nil || pvObj == nil || opsObj == nil {
		c.Undecided("resolve-ro", f.Name, "named results (pv, ro) / operand parameter not found")
		return
	}
	var ts *engine.SwitchInfo
	for _, sw := range f.Switches() {
		if sw.Types != nil && ts == nil {
			ts = sw
		}
	}
	if ts == nil {
		c.Undecided("resolve-ro", f.Name, "no type switch over the lvalue expression")
		return
	}
	rets := g.ReturnBlocks()
	d := gbCollectDefs(f)
	n := 0
	for _, tn := range engine.SortedKeys(ts.Types) {
		cc := ts.Types[tn]
		short := tn[strings.LastIndex(tn, ".")+1:]
		if !strings.HasPrefix(short, "*") {
			short = "*" + short
		}
		key := short
		n++
		if len(cc.Body) == 0 {
			c.Check("resolve-ro", key, cc.Pos(), false, "empty case falls out with ro == false")
			continue
		}
		// assignments to ro in this clause
		type asg struct {
			st  *ast.AssignStmt
			rhs ast.Expr
		}
		var asgs []asg
		for _, st := range cc.Body {
			ast.Inspect(st, func(x ast.Node) bool {
				if a, ok := x.(*ast.AssignStmt); ok && len(a.Lhs) == len(a.Rhs) {
					for i, l := range a.Lhs {
						if engine.ObjOf(info, l) == roObj {
							asgs = append(asgs, asg{a, a.Rhs[i]})
						}
					}
				}
				return true
			})
		}
		ok, why := true, "ro is set from the readonly predicate on every path of the case"
		isLit := strings.HasSuffix(short, "CompositeLitExpr")
		avoid := map[*cfgBlock]bool{}
		for _, a := range asgs {
			call, isCall := ast.Unparen(a.rhs).(*ast.CallExpr)
			good := false
			if isCall {
				switch gbCalleeName(info, call) {
				case gbM + "IsReadonly":
					// operand must be &lhsOperands[0]
					if len(call.Args) == 1 && gbIsOperand0(d, info, call.Args[0], opsObj) {
						good = true
					} else {
						ok, why = false, "IsReadonly is applied to `"+engine.ExprString(call.Args[0])+"`, not to the lvalue's base operand lhsOperands[0]"
					}
				case gbM + "isExternalRealm":
					if len(call.Args) == 1 {
						if sel, isSel := ast.Unparen(call.Args[0]).(*ast.SelectorExpr); isSel && sel.Sel.Name == "Base" && engine.ObjOf(info, sel.X) == pvObj {
							good = true
						}
					}
					if !good {
						ok, why = false, "isExternalRealm is not applied to pv.Base"
					}
				}
			}
			if !good && !isCall {
				if isLit {
					good = true // fresh composite literal: constant false allowed
				} else {
					ok, why = false, "ro is assigned `"+engine.ExprString(a.rhs)+"` instead of a readonly predicate"
				}
			}
			if good {
				if b := gbBlockOf(f, a.st); b != nil {
					avoid[b] = true
				}
			}
		}
		if len(asgs) == 0 {
			ok, why = false, "case never sets ro"
		}
		if ok {
			// every path from the clause entry to a return passes an ro assignment
			entry := gbEntryBlock(f, cc.Body[0])
			if entry == nil {
				ok, why = false, "cannot locate the case body in the CFG"
			} else if !avoid[entry] {
				for _, rb := range rets {
					if g.Reach(entry, rb, avoid) {
						ok, why = false, "a path through the case reaches the return without setting ro"
					}
				}
			}
		}
		c.Check("resolve-ro", key, cc.Pos(), ok, why)
	}
	c.Floor("resolve-ro", n, 5)
	// default must not return normally
	c.Check("resolve-ro", "default", ts.Stmt.Pos(), ts.HasDefault && f.ClausePanics(ts.Default), "unknown lvalue kinds must panic")
}

// gbIsOperand0: e is `&ops[0]` / `ops[0]` or a variable defined from it.
func gbIsOperand0(d *gbDefs, info *types.Info, e ast.Expr, ops types.Object) bool {
	seen := map[types.Object]bool{}
	var is func(e ast.Expr) bool
	is = func(e ast.Expr) bool {
		switch x := ast.Unparen(e).(type) {
		case *ast.UnaryExpr:
			if x.Op == token.AND {
				return is(x.X)
			}
		case *ast.IndexExpr:
			if engine.ObjOf(info, x.X) == ops {
				v, ok := gbConstInt(info, x.Index)
				return ok && v == 0
			}
		case *ast.Ident:
			o := info.ObjectOf(x)
			if o == nil || seen[o] {
				return false
			}
			seen[o] = true
			defs := d.defs[o]
			if len(defs) == 0 {
				return false
			}
			for _, r := range defs {
				if !is(r) {
					return false
				}
			}
			return true
		}
		return false
	}
	return is(e)
}

// gbOwnExemption: IsReadonly passes a non-zero ownPkgID, and isExternalRealm
// returns false for an own-package object, only under IsStdlibPkg().
func gbOwnExemption(c *engine.Ctx, p *engine.Prog) {
	n := 0
	if f := c.MustFunc(gbM + "IsReadonly"); f != nil {
		g := f.Graph()
		info := f.Info()
		// the variable passed as isReadonly's 2nd argument
		var own types.Object
		for _, s := range f.CallsTo(gbM + "isReadonly") {
			if len(s.Call.Args) == 2 {
				own = engine.ObjOf(info, s.Call.Args[1])
			}
		}
		if own == nil {
			c.Undecided("own-exemption", f.Name, "isReadonly(tv, ownPkgID) call not found")
		} else {
			engine.InspectBody(f, func(x ast.Node) {
				a, ok := x.(*ast.AssignStmt)
				if !ok {
					return
				}
				for _, l := range a.Lhs {
					if engine.ObjOf(info, l) != own {
						continue
					}
					n++
					st := f.SiteOf(a)
					ok := false
					if st != nil {
						ok = gbGatedByStdlib(f, g, st)
					}
					c.Check("own-exemption", f.Name+" ownPkgID assignment", a.Pos(), ok, "the own-package write exemption may be granted only when the executing package IsStdlibPkg()")
				}
			})
		}
		// the verdict is the un-negated result of isReadonly
		okRet := false
		engine.InspectBody(f, func(x ast.Node) {
			if r, ok := x.(*ast.ReturnStmt); ok && len(r.Results) == 1 {
				if call, ok := ast.Unparen(r.Results[0]).(*ast.CallExpr); ok && gbCalleeName(info, call) == gbM+"isReadonly" {
					okRet = true
				}
			}
		})
		c.Check("own-exemption", f.Name+" returns isReadonly", f.Pos(), okRet, "IsReadonly must return isReadonly(tv, ownPkgID) unchanged")
	}
	if f := c.MustFunc(gbM + "isReadonly"); f != nil {
		info := f.Info()
		// final verdict comes from tv.IsReadonlyBy(m.Realm.ID, ownPkgID)
		ok := false
		for _, s := range f.CallsTo(gbG + "(*TypedValue).IsReadonlyBy") {
			if len(s.Call.Args) == 2 && engine.MentionsName(s.Call.Args[0], "Realm") && engine.ObjOf(info, s.Call.Args[1]) == paramObj(f, 1) {
				if r, isR := s.Top.(*ast.ReturnStmt); isR && len(r.Results) == 1 && ast.Unparen(r.Results[0]) == ast.Expr(s.Call) {
					ok = true
				}
			}
		}
		c.Check("own-exemption", f.Name+" returns IsReadonlyBy(m.Realm.ID, ownPkgID)", f.Pos(), ok, "the object-level verdict must be IsReadonlyBy against the active realm's id")
		n++
	}
	if f := c.MustFunc(gbM + "isExternalRealm"); f != nil {
		g := f.Graph()
		// every `return false` that is gated by a condition mentioning m.Package must be gated by IsStdlibPkg
		engine.InspectBody(f, func(x ast.Node) {
			r, ok := x.(*ast.ReturnStmt)
			if !ok || len(r.Results) != 1 {
				return
			}
			st := f.SiteOf(r)
			if st == nil {
				return
			}
			for _, gt := range g.Gates(st) {
				if gt.OnTrue && engine.MentionsName(gt.Cond, "Package") {
					n++
					c.Check("own-exemption", f.Name+" own-package return", r.Pos(), gbGatedByStdlib(f, g, st), "the own-package exemption may be granted only under m.Package.PkgID.IsStdlibPkg()")
				}
			}
		})
		// the final verdict compares the object's PkgID with m.Realm.ID
		okFinal := false
		engine.InspectBody(f, func(x ast.Node) {
			if r, ok := x.(*ast.ReturnStmt); ok && len(r.Results) == 1 {
				if b, ok := ast.Unparen(r.Results[0]).(*ast.BinaryExpr); ok && b.Op == token.NEQ && engine.MentionsName(b, "PkgID") && engine.MentionsName(b, "Realm") {
					okFinal = true
				}
			}
		})
		c.Check("own-exemption", f.Name+" final verdict", f.Pos(), okFinal, "must end in `oid.PkgID != m.Realm.ID`")
	}
	c.Floor("own-exemption", n, 3)
	gbReadonlyFalseTable(c, p)
}

// gbGatedByStdlib: some gate (true branch) has `….IsStdlibPkg()` as a top-level conjunct.
func gbGatedByStdlib(f *engine.Fn, g *engine.Graph, st *engine.Site) bool {
	for _, gt := range g.Gates(st) {
		if !gt.OnTrue {
			continue
		}
		for _, cj := range engine.Conjuncts(gt.Cond, token.LAND) {
			if call, ok := ast.Unparen(cj).(*ast.CallExpr); ok && gbCalleeName(f.Info(), call) == gbG+"(PkgID).IsStdlibPkg" {
				return true
			}
		}
	}
	return false
}

// gbConstructPanic: checkConstructionTime panics under `pid != alloc.currentRealmID`
// alone, and returns early only for nil type/allocator or non-realm types.
func gbConstructPanic(c *engine.Ctx, f *engine.Fn) {
	g := f.Graph()
	info := f.Info()
	n := 0
	for _, s := range f.CallsTo("builtin.panic") {
		n++
		neq, extra := false, ""
		for _, ft := range gbFactsOf(g.Gates(s)) {
			if x, isNilHolds, ok := gbIsNilCmp(ft); ok {
				if o := engine.ObjOf(info, x); !isNilHolds && o != nil && (gbIsParam(f, o) || gbIsRecv(f, o)) {
					continue
				}
			}
			if call, ok := gbFactCall(ft); ok && ft.Pos && gbCalleeName(info, call) == gbG+"(PkgID).IsRealmPkg" {
				continue
			}
			if a, b, eq, ok := gbEq(ft); ok && !eq && (engine.MentionsName(a, "currentRealmID") != engine.MentionsName(b, "currentRealmID")) {
				neq = true
				continue
			}
			if extra == "" {
				extra = engine.ExprString(ft.E)
			}
		}
		why := "panics whenever a realm-declared type's declaring realm differs from the allocator's current realm"
		if !neq {
			why = "panic is not reached under `declaredPkgID != alloc.currentRealmID`"
		} else if extra != "" {
			why = "the construction-time panic additionally depends on `" + extra + "` (may skip only for nil type/allocator or a type not declared in a realm)"
		}
		c.Check("construct-panic", f.Name+" panic", s.Pos(), neq && extra == "", why)
	}
	c.Floor("construct-panic", n, 1)
}

func gbIsRecv(f *engine.Fn, o types.Object) bool {
	if f.Decl == nil || f.Decl.Recv == nil {
		return false
	}
	for _, fld := range f.Decl.Recv.List {
		for _, nm := range fld.Names {
			if f.Info().ObjectOf(nm) == o {
				return true
			}
		}
	}
	return false
}

// gbAtomShape renders a condition atom by shape (operator / callee), for keys.
func gbAtomShape(e ast.Expr) string {
	switch y := ast.Unparen(e).(type) {
	case *ast.BinaryExpr:
		if isNil(y.Y) {
			return "x " + y.Op.String() + " nil"
		}
		return "x " + y.Op.String() + " y"
	case *ast.UnaryExpr:
		if call, ok := ast.Unparen(y.X).(*ast.CallExpr); ok {
			if sel, ok := call.Fun.(*ast.SelectorExpr); ok {
				return y.Op.String() + sel.Sel.Name + "()"
			}
		}
		return y.Op.String() + "x"
	case *ast.CallExpr:
		if sel, ok := y.Fun.(*ast.SelectorExpr); ok {
			return sel.Sel.Name + "()"
		}
	}
	return "expr"
}

// gbIsCommaOkOfParamAssert: cond is the ok of `v, ok := <param i>.(*T)`.
func gbIsCommaOkOfParamAssert(f *engine.Fn, cond ast.Expr, param int, typeSuffix string) bool {
	id, ok := ast.Unparen(cond).(*ast.Ident)
	if !ok {
		return false
	}
	info := f.Info()
	obj := info.ObjectOf(id)
	found := false
	engine.InspectBody(f, func(n ast.Node) {
		as, ok := n.(*ast.AssignStmt)
		if !ok || len(as.Lhs) != 2 || len(as.Rhs) != 1 || engine.ObjOf(info, as.Lhs[1]) != obj {
			return
		}
		if ta, ok := ast.Unparen(as.Rhs[0]).(*ast.TypeAssertExpr); ok && engine.ObjOf(info, ta.X) == paramObj(f, param) {
			if strings.HasSuffix(engine.TypeName(info.TypeOf(ta.Type)), typeSuffix) {
				found = true
			}
		}
	})
	return found
}

// gbIsRealmVar: o is a variable (receiver/parameter/local) of type *Realm.
func gbIsRealmVar(o types.Object) bool {
	v, ok := o.(*types.Var)
	return ok && engine.TypeName(v.Type()) == "*gnovm/pkg/gnolang.Realm"
}

// gbDidUpdateGates: presence of DidUpdate's three panics — found in DidUpdate
// itself or in private helpers it calls — decided on the facts that hold at
// each panic (polarity-aware, helper-transparent).
func gbDidUpdateGates(c *engine.Ctx, f *engine.Fn, ruleBackstop, ruleP string) {
	g := f.Graph()
	info := f.Info()
	realmID := func(e ast.Expr) bool { // <realm var>.ID
		sel, ok := ast.Unparen(e).(*ast.SelectorExpr)
		return ok && sel.Sel.Name == "ID" && gbIsRealmVar(engine.ObjOf(info, sel.X))
	}
	type cls struct {
		underNil, debug, imm, stdNeg, stage, neq bool
		extra                                    string
	}
	classify := func(fs []gbFact, strictExtra bool) cls {
		var k cls
		for _, ft := range fs {
			if x, isNilHolds, ok := gbIsNilCmp(ft); ok {
				if gbIsRealmVar(engine.ObjOf(info, x)) && isNilHolds {
					k.underNil = true
				}
				continue // nil tests of m / po / rlm never restrict the invariant's domain beyond the documented skip
			}
			if id, ok := ast.Unparen(ft.E).(*ast.Ident); ok && id.Name == "debugAssert" {
				if ft.Pos {
					k.debug = true
				}
				continue
			}
			if call, ok := gbFactCall(ft); ok {
				switch gbCalleeName(info, call) {
				case gbG + "(PkgID).IsImmutablePkg":
					if ft.Pos {
						k.imm = true
						continue
					}
				case gbG + "(PkgID).IsStdlibPkg":
					if !ft.Pos {
						k.stdNeg = true
						continue
					}
				}
				if sel, ok := call.Fun.(*ast.SelectorExpr); ok && sel.Sel.Name == "GetIsReal" && ft.Pos {
					continue
				}
			}
			if a, b, eq, ok := gbEq(ft); ok {
				if id, isId := ast.Unparen(b).(*ast.Ident); isId && id.Name == "StageRun" && eq {
					k.stage = true
					continue
				}
				if id, isId := ast.Unparen(a).(*ast.Ident); isId && id.Name == "StageRun" && eq {
					k.stage = true
					continue
				}
				if (realmID(a) || realmID(b)) && !eq {
					k.neq = true
					continue
				}
				if (realmID(a) || realmID(b)) && eq {
					continue // own-object branch
				}
			}
			if k.extra == "" {
				pol := ""
				if !ft.Pos {
					pol = "not "
				}
				k.extra = pol + engine.ExprString(ft.E)
			}
		}
		return k
	}
	isPanic := func(fn *engine.Fn, n ast.Node) bool {
		call, ok := n.(*ast.CallExpr)
		return ok && engine.IsBuiltinCall(fn.Info(), call, "panic")
	}
	markDirty := f.DeepCallsTo(2, gbG+"(*Realm).MarkDirty")
	var nilBranch, ownBranch, external int
	var ext *engine.DeepSite
	for _, ds := range f.DeepFind(3, isPanic) {
		ds := ds
		k := classify(gbFactsOf(ds.DeepGates()), false)
		if k.debug {
			continue
		}
		switch {
		case k.underNil && k.imm && k.stage:
			nilBranch++
			c.Check(ruleP, f.Name+" nil-realm branch panic", ds.Inner.Pos(), k.stdNeg, "under rlm == nil in StageRun a real object of an immutable non-stdlib package must panic")
		case !k.underNil && k.neq && !k.imm:
			external++
			ext = &ds
			why := "po.PkgID != rlm.ID must panic unless po is stdlib-stamped"
			if k.extra != "" {
				why = "external-realm panic additionally depends on `" + k.extra + "`"
			}
			c.Check(ruleBackstop, f.Name+" external-realm panic", ds.Inner.Pos(), k.stdNeg && k.extra == "", why)
		case !k.underNil && k.imm && k.stage:
			ownBranch++
			ok := k.stdNeg
			for _, md := range markDirty {
				if g.ReachableAfter(md.Outer, ds.Outer) && !g.ReachableAfter(ds.Outer, md.Outer) {
					ok = false
				}
			}
			c.Check(ruleP, f.Name+" own-realm branch panic", ds.Inner.Pos(), ok, "an immutable non-stdlib realm writing its own data in StageRun must panic before MarkDirty")
		}
	}
	c.Floor(ruleBackstop, external, 1)
	c.Floor(ruleP+" nil-realm", nilBranch, 1)
	c.Floor(ruleP+" own-realm", ownBranch, 1)

	// MarkDirty(po) is reachable only when po belongs to the realm.
	for _, md := range f.CallsTo(gbG + "(*Realm).MarkDirty") {
		if len(md.Call.Args) != 1 || engine.ObjOf(info, md.Call.Args[0]) != paramObj(f, 1) {
			continue
		}
		ok, why := false, "MarkDirty(po) must be reachable only when po.PkgID == rlm.ID"
		for _, ft := range gbFactsOf(g.Gates(md)) {
			if a, b, eq, isEq := gbEq(ft); isEq && eq && (realmID(a) || realmID(b)) {
				ok, why = true, "po.PkgID == rlm.ID holds at MarkDirty(po)"
			}
		}
		if !ok && ext != nil && ext.Inner != ext.Outer && len(ext.Chain) >= 1 {
			// ownership test lives in a helper: (1) the helper call dominates MarkDirty, (2) MarkDirty is
			// on the helper-returned-true side, (3) inside the helper the foreign-object side only
			// panics or returns false.
			h := ext.Chain[len(ext.Chain)-1]
			hg := h.Graph()
			dom := g.Dominates(ext.Outer, md) || ext.Outer.Block == md.Block
			trueSide := false
			for _, ft := range gbFactsOf(g.Gates(md)) {
				if ast.Unparen(ft.E) == ast.Expr(ext.Outer.Call) && ft.Pos {
					trueSide = true
				}
			}
			foreignFalse := false
			for _, gt := range hg.Gates(ext.Inner) {
				var fs []gbFact
				gbSplitFact(gt.Cond, gt.OnTrue, &fs)
				isNeq := false
				for _, ft := range fs {
					if a, b, eq, isEq := gbEq(ft); isEq && !eq && (realmID(a) || realmID(b)) {
						isNeq = true
					}
				}
				if !isNeq || len(gt.Block.Succs) != 2 {
					continue
				}
				side := gt.Block.Succs[1]
				if gt.OnTrue {
					side = gt.Block.Succs[0]
				}
				foreignFalse = true
				for _, ex := range gbNormalExits(h) {
					if !hg.Reach(side, ex, map[*cfgBlock]bool{gt.Block: true}) {
						continue
					}
					r := ex.Return()
					if r == nil || len(r.Results) != 1 {
						foreignFalse = false
						continue
					}
					if id, isId := ast.Unparen(r.Results[0]).(*ast.Ident); !isId || id.Name != "false" {
						foreignFalse = false
					}
				}
			}
			if dom && trueSide && foreignFalse {
				ok, why = true, "ownership helper "+h.Name+" dominates MarkDirty(po); it returns false or panics for foreign objects and MarkDirty is on its true side"
			}
		}
		c.Check(ruleBackstop, f.Name+" MarkDirty(po) only for own objects", md.Pos(), ok, why)
	}
}

// gbReadonlyFalseTable: every verdict of the two readonly predicates that can
// be "writable" (a `return false`, or a returned comparison) is justified by a
// frozen, reasoned exemption — decided on the facts holding at the return.
func gbReadonlyFalseTable(c *engine.Ctx, p *engine.Prog) {
	commaOkType := func(f *engine.Fn, o types.Object) string {
		out := ""
		if o == nil {
			return out
		}
		engine.InspectBody(f, func(n ast.Node) {
			as, ok := n.(*ast.AssignStmt)
			if !ok || len(as.Lhs) != 2 || len(as.Rhs) != 1 || engine.ObjOf(f.Info(), as.Lhs[1]) != o {
				return
			}
			if ta, ok := ast.Unparen(as.Rhs[0]).(*ast.TypeAssertExpr); ok && ta.Type != nil {
				out = engine.TypeName(f.Info().TypeOf(ta.Type))
			}
		})
		return out
	}
	isSel := func(e ast.Expr, name string) bool {
		sel, ok := ast.Unparen(e).(*ast.SelectorExpr)
		return ok && sel.Sel.Name == name
	}
	realmNil := func(f *engine.Fn, ft gbFact) bool {
		x, isNilHolds, ok := gbIsNilCmp(ft)
		return ok && isNilHolds && isSel(x, "Realm")
	}
	ownPkgRef := func(f *engine.Fn, ft gbFact) bool {
		a, b, eq, ok := gbEq(ft)
		return ok && eq && isSel(a, "PkgPath") && isSel(b, "PkgPath") && (engine.MentionsName(a, "Package") != engine.MentionsName(b, "Package"))
	}
	type shape struct {
		name string
		ok   func(f *engine.Fn, fs []gbFact) bool
	}
	anyFact := func(pred func(f *engine.Fn, ft gbFact) bool) func(f *engine.Fn, fs []gbFact) bool {
		return func(f *engine.Fn, fs []gbFact) bool {
			for _, ft := range fs {
				if pred(f, ft) {
					return true
				}
			}
			return false
		}
	}
	tables := map[string][]shape{
		gbM + "isReadonly": {
			{"no active realm (single-user mode)", anyFact(realmNil)},
			{"package reference to the executing package", anyFact(ownPkgRef)},
		},
		gbM + "isExternalRealm": {
			{"no active realm (single-user mode)", anyFact(realmNil)},
			{"base is not an Object", anyFact(func(f *engine.Fn, ft gbFact) bool {
				id, ok := ast.Unparen(ft.E).(*ast.Ident)
				return ok && !ft.Pos && strings.HasSuffix(commaOkType(f, f.Info().ObjectOf(id)), "gnolang.Object")
			})},
			{"transient object (zero object id)", anyFact(func(f *engine.Fn, ft gbFact) bool {
				call, ok := gbFactCall(ft)
				return ok && ft.Pos && gbCalleeName(f.Info(), call) == gbG+"(ObjectID).IsZero"
			})},
			{"heap item slot (borrowed by PushFrameCall / unreal wrapper)", anyFact(func(f *engine.Fn, ft gbFact) bool {
				id, ok := ast.Unparen(ft.E).(*ast.Ident)
				return ok && ft.Pos && strings.HasSuffix(commaOkType(f, f.Info().ObjectOf(id)), "gnolang.HeapItemValue")
			})},
			{"stdlib package writing its own stamped data", func(f *engine.Fn, fs []gbFact) bool {
				std, own := false, false
				for _, ft := range fs {
					if call, ok := gbFactCall(ft); ok && ft.Pos && gbCalleeName(f.Info(), call) == gbG+"(PkgID).IsStdlibPkg" {
						std = true
					}
					if a, b, eq, ok := gbEq(ft); ok && eq && engine.MentionsName(a, "PkgID") && engine.MentionsName(b, "PkgID") && (engine.MentionsName(a, "Package") || engine.MentionsName(b, "Package")) {
						own = true
					}
				}
				return std && own
			}},
		},
	}
	// accepted non-constant verdict expressions (value decides, no exemption needed)
	finalVerdict := func(f *engine.Fn, e ast.Expr, fs []gbFact) (string, bool) {
		info := f.Info()
		switch x := ast.Unparen(e).(type) {
		case *ast.CallExpr:
			if gbCalleeName(info, x) == gbG+"(*TypedValue).IsReadonlyBy" {
				return "IsReadonlyBy(realm id, own pkg id)", true
			}
		case *ast.BinaryExpr:
			if x.Op == token.NEQ {
				// oid.PkgID != m.Realm.ID   (isExternalRealm's final verdict)
				if engine.MentionsName(x.X, "PkgID") && isSel(x.Y, "ID") && engine.MentionsName(x.Y, "Realm") {
					return "object's PkgID != active realm id", true
				}
				if engine.MentionsName(x.Y, "PkgID") && isSel(x.X, "ID") && engine.MentionsName(x.X, "Realm") {
					return "object's PkgID != active realm id", true
				}
				// rv.PkgPath != m.Package.PkgPath (package reference: writable iff own package)
				if isSel(x.X, "PkgPath") && isSel(x.Y, "PkgPath") && (engine.MentionsName(x.X, "Package") != engine.MentionsName(x.Y, "Package")) {
					return "package reference differs from the executing package", true
				}
			}
		}
		return "", false
	}
	floors := map[string]int{gbM + "isReadonly": 3, gbM + "isExternalRealm": 6}
	for _, name := range []string{gbM + "isReadonly", gbM + "isExternalRealm"} {
		f := c.MustFunc(name)
		if f == nil {
			continue
		}
		g := f.Graph()
		n := 0
		engine.InspectBody(f, func(x ast.Node) {
			r, ok := x.(*ast.ReturnStmt)
			if !ok || len(r.Results) != 1 {
				return
			}
			st := f.SiteOf(r)
			if st == nil {
				return
			}
			fs := gbFactsOf(g.Gates(st))
			if id, isId := ast.Unparen(r.Results[0]).(*ast.Ident); isId && (id.Name == "true" || id.Name == "false") {
				if id.Name == "true" {
					return // readonly verdict never widens write authority
				}
				n++
				reason := ""
				for _, sh := range tables[name] {
					if sh.ok(f, fs) {
						reason = sh.name
					}
				}
				if reason == "" {
					desc := "unconditionally"
					if len(fs) > 0 {
						last := fs[len(fs)-1]
						desc = "under `" + engine.ExprString(last.E) + "`"
					}
					c.Check("readonly-exemptions", f.Name+" writable verdict outside the frozen table", r.Pos(), false, "a `return false` (writable) is reached "+desc+", which matches none of the frozen exemptions")
					return
				}
				c.Check("readonly-exemptions", f.Name+" writable verdict: "+reason, r.Pos(), true, "justified by a frozen exemption")
				return
			}
			n++
			what, ok2 := finalVerdict(f, r.Results[0], fs)
			c.Check("readonly-exemptions", f.Name+" computed verdict: "+gbAtomShape(r.Results[0]), r.Pos(), ok2, "a computed verdict must be one of the accepted ownership comparisons; got `"+engine.ExprString(r.Results[0])+"` "+what)
		})
		c.Floor("readonly-exemptions "+name, n, floors[name])
	}
	// IsReadonly itself adds no exemption: every return is isReadonly(tv, ownPkgID)
	if f := c.MustFunc(gbM + "IsReadonly"); f != nil {
		all, n := true, 0
		engine.InspectBody(f, func(x ast.Node) {
			if r, ok := x.(*ast.ReturnStmt); ok {
				n++
				if len(r.Results) != 1 {
					all = false
					return
				}
				call, ok := ast.Unparen(r.Results[0]).(*ast.CallExpr)
				if !ok || gbCalleeName(f.Info(), call) != gbM+"isReadonly" || len(call.Args) != 2 || engine.ObjOf(f.Info(), call.Args[0]) != paramObj(f, 0) {
					all = false
				}
			}
		})
		c.Check("readonly-exemptions", f.Name+" only forwards", f.Pos(), all && n >= 1, "IsReadonly may only return isReadonly(tv, ownPkgID)")
	}
}

// gbGuardedResolver: h returns a PointerValue only after the ro verdict of
// resolvePointer/PopAsPointer2 was tested (sole `ro` condition, panicking side),
// or forwards the result of another guarded resolver. memo: 1 yes, 2 no, 3 busy.
func gbGuardedResolver(h *engine.Fn, memo map[*engine.Fn]int) (bool, string) {
	switch memo[h] {
	case 1:
		return true, "guarded resolver"
	case 2, 3:
		return false, "not a guarded resolver"
	}
	memo[h] = 3
	res := func(ok bool, why string) (bool, string) {
		if ok {
			memo[h] = 1
		} else {
			memo[h] = 2
		}
		return ok, why
	}
	if h.Type.Results == nil || len(h.Type.Results.List) != 1 || len(h.Type.Results.List[0].Names) > 1 {
		return res(false, "does not return a single pointer value")
	}
	if t := h.Info().TypeOf(h.Type.Results.List[0].Type); t == nil || engine.TypeName(t) != "gnovm/pkg/gnolang.PointerValue" {
		return res(false, "does not return a PointerValue")
	}
	g := h.Graph()
	info := h.Info()
	d := gbCollectDefs(h)
	var rets []*ast.ReturnStmt
	engine.InspectBody(h, func(x ast.Node) {
		if r, ok := x.(*ast.ReturnStmt); ok {
			rets = append(rets, r)
		}
	})
	if len(rets) == 0 {
		return res(false, "no return")
	}
	calleeFn := func(call *ast.CallExpr) *engine.Fn {
		if s := h.SiteOf(call); s != nil {
			if fo, ok := s.Callee.(*types.Func); ok {
				return h.Prog.FnOf(fo)
			}
		}
		return nil
	}
	for _, r := range rets {
		if len(r.Results) != 1 {
			return res(false, "bare return")
		}
		rs := h.SiteOf(r)
		e := ast.Unparen(r.Results[0])
		// (b) forwards another guarded resolver (directly or through a single-definition local)
		fwd := e
		if id, ok := e.(*ast.Ident); ok {
			if o := info.ObjectOf(id); o != nil && len(d.defs[o]) == 1 {
				fwd = ast.Unparen(d.defs[o][0])
			}
		}
		if call, ok := fwd.(*ast.CallExpr); ok {
			if cf := calleeFn(call); cf != nil && cf != h && strings.HasPrefix(cf.Name, gbM) {
				if okF, _ := gbGuardedResolver(cf, memo); okF {
					continue
				}
			}
		}
		// (a) v, ro := resolvePointer/PopAsPointer2(...); if ro { panic }; return v
		okA, why := false, "return is not gated by the ro verdict of PopAsPointer2/resolvePointer"
		if rs != nil {
			for _, gs := range h.CallsTo(gbM+"PopAsPointer2", gbM+"resolvePointer") {
				vs := gbAssignedVars(h, gs)
				if len(vs) != 2 || vs[1] == nil || vs[0] == nil {
					continue
				}
				if engine.ObjOf(info, e) != vs[0] {
					why = "returned value is not the pointer resolved together with ro"
					continue
				}
				cg := g.CheckedGuard(gs, rs)
				if !cg.OK {
					why = cg.Why
					continue
				}
				var fs []gbFact
				gbSplitFact(cg.Cond, cg.OnTrue, &fs)
				if len(fs) == 1 {
					if id, isId := ast.Unparen(fs[0].E).(*ast.Ident); isId && info.ObjectOf(id) == vs[1] && !fs[0].Pos {
						okA = true
						continue
					}
				}
				why = "ro verdict combined with another condition: `" + engine.ExprString(cg.Cond) + "`"
			}
		}
		if !okA {
			return res(false, why)
		}
	}
	return res(true, "returns the resolved pointer only on the !ro side; the ro side panics")
}

// gbEnclosingCaseValues: the case values of the innermost tagged-switch clause containing pos.
func gbEnclosingCaseValues(f *engine.Fn, pos token.Pos) []ast.Expr {
	var out []ast.Expr
	ast.Inspect(f.Body, func(n ast.Node) bool {
		sw, ok := n.(*ast.SwitchStmt)
		if !ok || sw.Tag == nil {
			return true
		}
		for _, cl := range sw.Body.List {
			cc := cl.(*ast.CaseClause)
			if cc.Pos() <= pos && pos < cc.End() && cc.List != nil {
				out = cc.List
			}
		}
		return true
	})
	return out
}
