package checks

import (
	"go/ast"
	"go/types"
	"strings"

	"gnoverif/engine"
)

// C49 extra — a list mutation reads the links it relinks through while it holds
// the list lock. CList.Remove/PushBack snapshot an element's neighbours
// (e.Prev(), e.Next(), l.tail …) and then splice; if the snapshot is taken before
// l.mtx is held, another mutation can complete in between and the splice goes
// through stale neighbours (a removed element stays reachable, head/tail point at
// a removed element). Rule: in every *CList method that writes list structure
// (calls SetNext/SetPrev/SetRemoved on an element or assigns l.head/l.tail/l.len),
// every call of a *CElement link accessor (Prev, Next, and their setters) is
// dominated by the list's mtx.Lock().
// (Added after an independently seeded second-round change moved Remove's
// `prev := e.Prev(); next := e.Next()` above `l.mtx.Lock()`.)
func init() {
	extend("C49", c49UnderLock)
	mutants("C49",
		Mutant{"remove-snapshots-before-lock", "tm2/pkg/clist/clist.go", "func (l *CList) Remove(e *CElement) any {\n\tl.mtx.Lock()\n\n\tprev := e.Prev()\n\tnext := e.Next()\n", "func (l *CList) Remove(e *CElement) any {\n\tprev := e.Prev()\n\tnext := e.Next()\n\n\tl.mtx.Lock()\n", "links-read-under-lock"},
	)
	metaExtra("C49", "links-read-under-lock: in every CList method that relinks, each element link accessor call is dominated by the list's mtx.Lock()")
}

func c49UnderLock(c *engine.Ctx) {
	p := progWith(c, "tm2/pkg/clist")
	if p == nil {
		return
	}
	const E = "tm2/pkg/clist.(*CElement)."
	n := 0
	for _, f := range p.FuncsIn("tm2/pkg/clist") {
		if !strings.HasPrefix(f.Name, "tm2/pkg/clist.(*CList).") || f.Body == nil {
			continue
		}
		g := f.Graph()
		var locks, links []*engine.Site
		writes := false
		for _, s := range f.Calls() {
			name := s.CalleeName()
			switch {
			case strings.HasSuffix(name, ".Lock") && strings.Contains(engine.ExprString(s.Call.Fun), "mtx"):
				if !s.Deferred {
					locks = append(locks, s)
				}
			case name == E+"SetNext" || name == E+"SetPrev" || name == E+"SetRemoved":
				writes = true
				links = append(links, s)
			case name == E+"Prev" || name == E+"Next":
				links = append(links, s)
			}
		}
		if !writes {
			continue
		}
		_ = types.Universe
		_ = ast.NewIdent
		for _, s := range links {
			n++
			ok := false
			for _, l := range locks {
				if g.Dominates(l, s) {
					ok = true
				}
			}
			c.Check("links-read-under-lock", f.Name+" "+engine.ExprString(s.Call), s.Pos(), ok,
				"an element's links are read/written outside the list lock in a method that relinks: a concurrent mutation between this point and Lock() makes the splice use stale neighbours")
		}
	}
	c.Floor("links-read-under-lock", n, 4)
}
