package checks

// One sentence per extra rule set, for MANIFEST.json's level_claimed.text.
func init() {
	metaExtra("C01", "global-state-writer / lifetime-cache-ref: every write to a package-level variable of the consensus-path packages is in an init function or a frozen table, and the keeper's committed type-check cache is referenced by transaction code only as the source of a clone")
	metaExtra("C03", "load-barrier: no fillValueTV call is gated by a dynamic-type test on the element it fills, and the functions that read container elements through the barrier still do")
	metaExtra("C04", "range-delete-safe: MapList.Remove (or any function of the package) never assigns the Prev/Next links of the item it removes, so a range standing on a deleted entry still advances")
	metaExtra("C06", "mark-cleared: every object leaving the new-deleted set has its mark cleared on every path of the iteration")
	metaExtra("C08", "run-path-bound: VMKeeper.Run unconditionally overwrites the package path with <chainDomain>/e/<caller>/run before executing")
	metaExtra("C09", "params-write-accounted: the int returned by each typed ParamsKeeperI.Set* call made by the vm package is passed, with the same key, to recordParamsDelta on every path")
	metaExtra("C10", "output-sink / output-charge: the metered writer's parent is reached only from Flush, which charges streamOutputGas(n) before writing n bytes")
	metaExtra("C11", "slice-bound-checked: every use of an upper slice index parameter in GetSlice/GetSlice2 is dominated by a comparison of that parameter with a length/capacity whose failing side panics")
	metaExtra("C15", "sequence-carried: a function that copies an existing account's number into another account object also carries its sequence")
	metaExtra("C17", "stay-put-exact: every return of the unmodified last price in calcBlockGasPrice is gated by exactly one of the three stated conditions")
	metaExtra("C18", "result-not-operand: coin arithmetic helpers never return one of their operands un-copied/un-validated on a shortcut path")
	metaExtra("C20", "tail-key-guarded: a decode loop never reads the next field key from a buffer it has just exhausted")
	metaExtra("C25", "no-append-alias: proof-op byte slices built in a loop do not share a backing array")
	metaExtra("C31", "C35's VoteSet tally rules (sum-distinct, vote-admission, quorum-form) are imported: the state machine's +2/3 tests are only as sound as the tallies")
	metaExtra("C32", "C36's commit-verification rules run as part of C32: ValidateBlock delegates the '+2/3 signed' clause to ValidatorSet.VerifyCommit")
	metaExtra("C24", "C23's slot-parallel array rules run as part of C24 (childHashes/valueHashes move with their children)")
	for _, id := range []string{"C08", "C09", "C14", "C16"} {
		metaExtra(id, "C02's rollback rules (checkpointing cache store immutability, runTx commit protocol) run as part of this check")
	}
	metaExtra("C38", "search-window-keeps-file: the height search never moves its lower bound above the file it has just read")
	metaExtra("C47", "key-owned: the xchacha20poly1305 AEAD keeps its own copy of the key (array value, or a fresh clone)")
	metaExtra("C48", "tail-mask-nonempty: a last-word mask is built from (Bits+63)%64+1 or from a remainder tested non-zero")
	metaExtra("C50", "rotation-selection: balance() rotates a child only when that child leans the other way strictly")
	metaExtra("C53", "decode-target-fresh: a per-element decode target in the streaming loops is declared (or reset) inside the loop")
}
