package checks

import (
	"go/ast"

	"golang.org/x/tools/go/cfg"

	"gnoverif/engine"
)

// iterationMustPass reports whether every path through one iteration of the
// range loop rs (from the body entry to the loop head, i.e. fall-through or
// continue) executes at least one of the given sites.
func iterationMustPass(f *engine.Fn, rs *ast.RangeStmt, sites []*engine.Site) bool {
	g := f.Graph()
	var head, entry *cfg.Block
	for _, b := range g.CFG.Blocks {
		if b.Stmt == ast.Stmt(rs) && b.Kind == cfg.KindRangeLoop {
			head = b
		}
		if b.Stmt == ast.Stmt(rs) && b.Kind == cfg.KindRangeBody {
			entry = b
		}
	}
	if head == nil || entry == nil || len(sites) == 0 {
		return false
	}
	avoid := map[*cfg.Block]bool{}
	for _, s := range sites {
		avoid[s.Block] = true
	}
	return avoid[entry] || !g.Reach(entry, head, avoid)
}

// C06 extra — a consumed new-deleted mark is always cleared. MarkNewDeleted
// queues an object only if it is not already marked; finalization consumes the
// queue. If an object leaves processNewDeletedMarks still carrying the mark (the
// "became undeleted" path), a later real deletion in the same transaction is
// never queued and the object stays in the store with a stale owner and
// refcount. Rule: every iteration over rlm.newDeleted passes
// oo.SetIsNewDeleted(false) or decRefDeletedDescendants(store, oo), and the
// latter clears the mark right after its recursion guard. (Added after an
// independently seeded change dropped the clear on the undeleted path.)
func init() {
	extend("C06", c06Marks)
	mutants("C06",
		Mutant{"undeleted-keeps-mark", "gnovm/pkg/gnolang/realm.go", "			oo.SetIsNewDeleted(false)\n\t\t\t// skip if became undeleted.\n", "			// skip if became undeleted.\n", "mark-cleared"},
		Mutant{"deleted-keeps-mark", "gnovm/pkg/gnolang/realm.go", "	oo.SetIsNewDeleted(false)\n\too.SetIsNewReal(false)\n", "	oo.SetIsNewReal(false)\n", "mark-cleared"},
	)
}

func c06Marks(c *engine.Ctx) {
	p := progWith(c, "gnovm/pkg/gnolang")
	if p == nil {
		return
	}
	const R = "gnovm/pkg/gnolang.(*Realm)."
	if f := c.MustFunc(R + "processNewDeletedMarks"); f != nil {
		n := 0
		engine.InspectBody(f, func(x ast.Node) {
			rs, ok := x.(*ast.RangeStmt)
			if !ok {
				return
			}
			se, ok := rs.X.(*ast.SelectorExpr)
			if !ok || se.Sel.Name != "newDeleted" {
				return
			}
			n++
			loopVar := engine.ObjOf(f.Info(), rs.Value)
			var sites []*engine.Site
			for _, s := range f.Calls() {
				if !containsExpr(rs.Body, s.Node) {
					continue
				}
				switch s.CalleeName() {
				case "gnovm/pkg/gnolang.(Object).SetIsNewDeleted", "gnovm/pkg/gnolang.(*ObjectInfo).SetIsNewDeleted":
					if sel, ok := s.Call.Fun.(*ast.SelectorExpr); ok && engine.ObjOf(f.Info(), sel.X) == loopVar && len(s.Call.Args) == 1 {
						if id, ok := s.Call.Args[0].(*ast.Ident); ok && id.Name == "false" {
							sites = append(sites, s)
						}
					}
				case R + "decRefDeletedDescendants":
					if len(s.Call.Args) == 2 && engine.ObjOf(f.Info(), s.Call.Args[1]) == loopVar {
						sites = append(sites, s)
					}
				}
			}
			c.Check("mark-cleared", f.Name+" every consumed new-deleted mark is cleared", rs.Pos(), iterationMustPass(f, rs, sites),
				"some path through the loop over rlm.newDeleted leaves the object marked new-deleted: a later deletion of the same object in this transaction would not be queued (MarkNewDeleted returns early) and the object would stay persisted with a stale owner/refcount")
		})
		c.Floor("mark-cleared", n, 1)
	}
	if f := c.MustFunc(R + "decRefDeletedDescendants"); f != nil {
		g := f.Graph()
		recv := paramObj(f, 1)
		ok := false
		for _, s := range f.CallsTo("gnovm/pkg/gnolang.(Object).SetIsNewDeleted") {
			sel, isSel := s.Call.Fun.(*ast.SelectorExpr)
			if !isSel || engine.ObjOf(f.Info(), sel.X) != recv {
				continue
			}
			// gated only by the recursion guard (GetIsDeleted) / debug assertions whose other branch leaves
			fine := true
			for _, gt := range g.Gates(s) {
				other := gt.Block.Succs[0]
				if gt.OnTrue {
					other = gt.Block.Succs[1]
				}
				if len(other.Succs) != 0 {
					fine = false
				}
			}
			// and it precedes the recursion into children
			for _, r := range f.CallsTo(R + "decRefDeletedDescendants") {
				if !g.Dominates(s, r) {
					fine = false
				}
			}
			if fine {
				ok = true
			}
		}
		c.Check("mark-cleared", f.Name+" clears the new-deleted mark of the object it deletes", f.Pos(), ok, "decRefDeletedDescendants must unset IsNewDeleted on oo (after the already-deleted guard, before recursing)")
	}
	// MarkNewDeleted is the only setter of the mark, and it returns early when already marked
	if f := c.MustFunc(R + "MarkNewDeleted"); f != nil {
		refs := engine.CallerSet(p.RefsToFunc("gnovm/pkg/gnolang.(Object).SetIsNewDeleted", "gnovm/pkg/gnolang.(*ObjectInfo).SetIsNewDeleted"))
		allowed := []string{R + "MarkNewDeleted", R + "processNewDeletedMarks", R + "decRefDeletedDescendants"}
		c.Check("who-may-call", "Object.SetIsNewDeleted", f.Pos(), len(engine.SetDiff(refs, allowed)) == 0, "callers: "+join(refs))
	}
}
