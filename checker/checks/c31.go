package checks

import (
	"go/ast"
	"go/token"
	"go/types"
	"strings"

	"gnoverif/engine"
)

// C31 — consensus safety: structural necessary conditions of the locking rules.
func init() {
	register("C31", c31)
	meta("C31", Meta{
		Text:      "Decides, over all paths of the consensus state machine functions, the structural clauses the Tendermint safety argument rests on: (1) defaultDoPrevote casts every prevote under a test of the lock and votes the locked block when locked; (2) every non-nil precommit in enterPrecommit carries the hash of this round's polka, under polka-found, non-nil, and 'locked/proposal block hashes to it' tests, after the (re)lock assignment (and block validation for a new lock); (3) the lock fields are written only by enterPrecommit / addVote / updateToState, each write under its polka (resp. new-height) condition; (4) finalizeCommit saves/applies a block only after the +2/3 precommit test, the hash match and ValidateBlock, and is reached only through tryFinalizeCommit / enterCommit / addVote under the +2/3 non-nil test; (5) all own votes/proposals are signed through signVote/defaultDecideProposal, signVote is gated by the 'no existing self vote' test. Level 'other': necessary conditions on code shape, not a proof of agreement.",
		Note:      "Not covered: agreement across schedules, liveness, the reactor's gossip, timeouts, correctness of VoteSet (see C35) and of the private validator (C34). Quick tier closes who-may-call tables over tm2/pkg/bft/consensus{,/types}; thorough over tm2/... and gno.land/....",
		Technique: "go/cfg gate facts (dominating conditions split into atoms), dominance of lock assignments, who-may-call / who-may-write tables",
		Ref:       "DESIGN.md §2 C31",
	})
	const F = "tm2/pkg/bft/consensus/state.go"
	mutants("C31",
		Mutant{"prevote-ignores-lock", F, "if cs.LockedBlock != nil {\n\t\tlogger.Info(\"enterPrevote: Block was locked\")", "if cs.LockedBlock != nil && cs.ProposalBlock == nil {\n\t\tlogger.Info(\"enterPrevote: Block was locked\")", "prevote-locked"},
		Mutant{"prevote-proposal-when-locked", F, "cs.signAddVote(types.PrevoteType, cs.LockedBlock.Hash(), cs.LockedBlockParts.Header())", "cs.signAddVote(types.PrevoteType, cs.ProposalBlock.Hash(), cs.LockedBlockParts.Header())", "prevote-locked"},
		Mutant{"prevote-invalid-proposal", F, "\tif err != nil {\n\t\t// ProposalBlock is invalid, prevote nil.", "\tif err != nil && cs.Round == 0 {\n\t\t// ProposalBlock is invalid, prevote nil.", "prevote-locked"},
		Mutant{"precommit-without-polka-nil-check", F, "\tif len(blockID.Hash) == 0 {\n\t\tif cs.LockedBlock == nil {", "\tif len(blockID.Hash) == 0 && cs.LockedRound < 0 {\n\t\tif cs.LockedBlock == nil {", "precommit-polka"},
		Mutant{"precommit-proposal-not-polka", F, "cs.evsw.FireEvent(cstypes.EventLock{HRS: cs.RoundState.GetHRS()})\n\t\tcs.signAddVote(types.PrecommitType, blockID.Hash, blockID.PartsHeader)", "cs.evsw.FireEvent(cstypes.EventLock{HRS: cs.RoundState.GetHRS()})\n\t\tcs.signAddVote(types.PrecommitType, cs.ProposalBlock.Hash(), blockID.PartsHeader)", "precommit-polka"},
		Mutant{"polka-of-other-round", F, "blockID, ok := cs.Votes.Prevotes(round).TwoThirdsMajority()\n\n\t// If we don't have a polka, we must precommit nil.", "blockID, ok := cs.Votes.Prevotes(round - 1).TwoThirdsMajority()\n\n\t// If we don't have a polka, we must precommit nil.", "precommit-polka"},
		Mutant{"lock-without-validate", F, "if err := cs.state.ValidateBlock(cs.ProposalBlock); err != nil {\n\t\t\tpanic(fmt.Sprintf(\"enterPrecommit: +2/3 prevoted for an invalid block: %v\", err))\n\t\t}", "if err := cs.state.ValidateBlock(cs.ProposalBlock); err != nil {\n\t\t\tlogger.Error(fmt.Sprintf(\"enterPrecommit: +2/3 prevoted for an invalid block: %v\", err))\n\t\t}", "precommit-polka"},
		Mutant{"unlock-on-old-polka", F, "(cs.LockedRound < vote.Round) &&", "(cs.LockedRound <= vote.Round) &&", "lock-write"},
		Mutant{"unlock-on-timeout", F, "\tcase cstypes.RoundStepPrecommitWait:\n", "\tcase cstypes.RoundStepPrecommitWait:\n\t\tcs.LockedBlock = nil\n", "lock-writers"},
		Mutant{"finalize-without-hash-match", F, "if !block.HashesTo(blockID.Hash) {\n\t\tpanic(\"Cannot finalizeCommit, ProposalBlock does not hash to commit hash\")\n\t}", "if !block.HashesTo(blockID.Hash) {\n\t\tcs.Logger.Error(\"Cannot finalizeCommit, ProposalBlock does not hash to commit hash\")\n\t}", "commit-gate"},
		Mutant{"commit-on-nil-majority", F, "\t\t\tif len(blockID.Hash) != 0 {\n\t\t\t\tcs.enterCommit(height, vote.Round)", "\t\t\tif len(blockID.Hash) != 0 || precommits.HasAll() {\n\t\t\t\tcs.enterCommit(height, vote.Round)", "commit-gate"},
		Mutant{"resign-conflicting", F, "if existing := cs.existingSignedVote(type_, address); existing != nil {\n\t\tif existing.BlockID.Equals(blockID) {", "if existing := cs.existingSignedVote(type_, address); existing != nil && !cs.replayMode {\n\t\tif existing.BlockID.Equals(blockID) {", "sign-path"},
		Mutant{"second-signer", F, "\t// Wait for some more precommits; enterNewRound\n", "\t// Wait for some more precommits; enterNewRound\n\tcs.privValidator.SignVote(cs.state.ChainID, &types.Vote{Height: height, Round: round, Type: types.PrecommitType})\n", "sign-path"},
		Mutant{"relock-without-polka-match", F, "\tif cs.LockedBlock.HashesTo(blockID.Hash) {\n\t\tlogger.Info(\"enterPrecommit: +2/3 prevoted locked block. Relocking\")", "\tif cs.LockedBlock != nil {\n\t\tlogger.Info(\"enterPrecommit: +2/3 prevoted locked block. Relocking\")", "precommit-polka"},
		Mutant{"lock-reset-same-height", F, "if !cs.state.IsEmpty() && (state.LastBlockHeight <= cs.state.LastBlockHeight) {", "if !cs.state.IsEmpty() && (state.LastBlockHeight < cs.state.LastBlockHeight) {", "lock-write"},
		Mutant{"prevote-hook-rebound", "tm2/pkg/bft/consensus/reactor.go", "\tconR.conS.updateToState(state)\n", "\tconR.conS.updateToState(state)\n\tconR.conS.doPrevote = func(height int64, round int) {}\n", "hook-binding"},
	)
}

func c31(c *engine.Ctx) {
	c.Explain = "Decides structural necessary conditions of Tendermint safety in tm2/pkg/bft/consensus: prevote respects the lock on every path; non-nil precommits carry this round's polka hash under the polka/non-nil/HashesTo tests after the (re)lock assignment and (for a new lock) ValidateBlock; Locked{Round,Block,BlockParts} have exactly the writers enterPrecommit/addVote/updateToState, each write under its polka or new-height condition; finalizeCommit saves and applies only after the +2/3 precommit test, hash match and ValidateBlock, and enterCommit is reached only under a +2/3 non-nil precommit test; own votes/proposals are signed only via signVote (gated by the no-existing-self-vote test) and defaultDecideProposal. Not covered: agreement across schedules, liveness, gossip, timeouts."
	pats := []string{"tm2/pkg/bft/consensus", "tm2/pkg/bft/consensus/types"}
	if c.Tier == "thorough" {
		pats = []string{"tm2/...", "gno.land/..."}
	}
	p := c.Load(pats...)
	if p == nil {
		return
	}
	hhUse(p)
	const CS = "tm2/pkg/bft/consensus.(*ConsensusState)."
	const VS = "tm2/pkg/bft/types.(*VoteSet)."
	// the state-machine functions are rule anchors: helpers are followed, these are not
	var stops []string
	for _, n := range []string{"enterNewRound", "enterPropose", "enterPrevote", "enterPrevoteWait", "enterPrecommit", "enterPrecommitWait", "enterCommit",
		"tryFinalizeCommit", "finalizeCommit", "updateToState", "addVote", "tryAddVote", "handleMsg", "handleTimeout", "handleTxsAvailable",
		"defaultDoPrevote", "defaultDecideProposal", "defaultSetProposal", "addProposalBlockPart", "signAddVote", "signVote", "receiveRoutine"} {
		stops = append(stops, CS+n)
	}
	hhSetStops(stops...)

	// ---- (1) prevote respects the lock ----
	if f := c.MustFunc(CS + "defaultDoPrevote"); f != nil {
		info := f.Info()
		recv := hhRecv(f)
		locked, unlocked := 0, 0
		for _, d := range hhDeepCalls(f, CS+"signAddVote") {
			d := d
			s := d.Outer
			arg := func(i int) ast.Expr { return hhDeepArg(d, i) }
			facts := hhDeepFacts(f, d)
			key := f.Name + " signAddVote(" + hhRender(arg(1)) + ")"
			if hhConstName(info, arg(0)) != "PrevoteType" {
				c.Check("prevote-locked", key, s.Pos(), false, "defaultDoPrevote must cast prevotes only")
				continue
			}
			known, nonNil := hhKnowsNil(info, facts, recv, "LockedBlock")
			switch {
			case !known:
				c.Check("prevote-locked", key, s.Pos(), false, "prevote is cast on a path that did not test cs.LockedBlock (or the test is combined with another condition)")
			case nonNil:
				locked++
				r1, _, ok1 := hhMethodCall(info, hhResolve(f, arg(1)), "Hash")
				r2, _, ok2 := hhMethodCall(info, hhResolve(f, arg(2)), "Header")
				ok := ok1 && ok2 && hhIsChain(info, r1, recv, "LockedBlock") && hhIsChain(info, r2, recv, "LockedBlockParts")
				c.Check("prevote-locked", key, s.Pos(), ok, "while locked the prevote must be for cs.LockedBlock.Hash()/cs.LockedBlockParts.Header()")
			default:
				unlocked++
				ok, why := true, "cast only when cs.LockedBlock == nil"
				if !isNil(arg(1)) {
					// a prevote for a block: the proposal block, validated
					r1, _, ok1 := hhMethodCall(info, hhResolve(f, arg(1)), "Hash")
					if !ok1 || !hhIsChain(info, r1, recv, "ProposalBlock") {
						ok, why = false, "an unlocked prevote for a block must be for cs.ProposalBlock.Hash()"
					} else {
						ok, why = false, "no ValidateBlock(cs.ProposalBlock) guard"
						for _, vd := range hhDeepCalls(f, "tm2/pkg/bft/state.(State).ValidateBlock") {
							if !hhIsChain(info, hhDeepArg(vd, 0), recv, "ProposalBlock") {
								continue
							}
							if ok, why = hhDeepMustSucceed(f, vd, s); ok {
								why = "proposal block validated before it is prevoted"
								break
							}
						}
						if k, nn := hhKnowsNil(info, facts, recv, "ProposalBlock"); !(k && nn) {
							ok, why = false, "prevote for the proposal block without a cs.ProposalBlock != nil test"
						}
					}
				}
				c.Check("prevote-locked", key, s.Pos(), ok, why)
			}
		}
		c.Floor("prevote-locked (locked branch)", locked, 1)
		c.Floor("prevote-locked (unlocked branch)", unlocked, 2)
	}
	// the prevote hook is bound to defaultDoPrevote only
	for _, hk := range [][2]string{{"doPrevote", "defaultDoPrevote"}, {"decideProposal", "defaultDecideProposal"}} {
		fld := p.Field("tm2/pkg/bft/consensus.ConsensusState." + hk[0])
		if fld == nil {
			c.Undecided("hook-binding", hk[0], "field not found")
			continue
		}
		n := 0
		for _, w := range p.FieldWrites(fld) {
			n++
			ok, why := false, "hook written by something other than `cs."+hk[0]+" = cs."+hk[1]+"`"
			if as, isAs := w.Node.(*ast.AssignStmt); isAs && len(as.Rhs) == 1 && w.Fn.Root().Name == "tm2/pkg/bft/consensus.NewConsensusState" {
				if fn, isFn := engine.ObjOf(w.Fn.Info(), as.Rhs[0]).(*types.Func); isFn && engine.FuncName(fn) == CS+hk[1] {
					ok, why = true, "bound in NewConsensusState"
				}
			}
			c.Check("hook-binding", hk[0]+" in "+w.Fn.Root().Name, w.Node.Pos(), ok, why)
		}
		c.Floor("hook-binding "+hk[0], n, 1)
	}

	// ---- (2) who casts which vote type ----
	{
		refs := p.RefsToFunc(CS + "signAddVote")
		callers := hhLiftCallers(p, engine.CallerSet(refs), []string{CS + "defaultDoPrevote", CS + "enterPrecommit"})
		extra := hhExtra(callers, []string{CS + "defaultDoPrevote", CS + "enterPrecommit"})
		c.Check("vote-callers", CS+"signAddVote", token.NoPos, len(extra) == 0, "callers: "+join(callers))
		c.Floor("vote-callers", len(callers), 2)
		for _, r := range refs {
			if !r.IsCall {
				c.Check("vote-callers", "signAddVote used as a value in "+r.Fn.Root().Name, r.Ident.Pos(), false, "signAddVote must only be called directly")
			}
		}
	}

	// ---- (3) precommit carries the polka; lock assignments ----
	var polkaID, polkaOK types.Object // enterPrecommit's polka result variables
	if f := c.MustFunc(CS + "enterPrecommit"); f != nil {
		info := f.Info()
		recv := hhRecv(f)
		round := paramObj(f, 1)
		g := f.Graph()
		// the polka query: cs.Votes.Prevotes(round).TwoThirdsMajority()
		var polka *engine.Site
		for _, s := range f.CallsTo(VS + "TwoThirdsMajority") {
			if rx, rc, ok := hhMethodCall(info, hhResolve(f, ast.Unparen(s.Call.Fun).(*ast.SelectorExpr).X), "Prevotes"); ok {
				if hhIsChain(info, rx, recv, "Votes") && hhIdent(hhArg(rc, 0)) != nil && info.ObjectOf(hhIdent(hhArg(rc, 0))) == round {
					polka = s
				}
			}
		}
		if polka == nil {
			c.Check("precommit-polka", f.Name+" polka query", f.Pos(), false, "no `cs.Votes.Prevotes(round).TwoThirdsMajority()` with the function's own round parameter")
		} else if rv := hhResultVars(f, polka); len(rv) == 2 && rv[0] != nil && rv[1] != nil {
			polkaID, polkaOK = rv[0], rv[1]
			st1, _ := hhSingleDef(f, polkaID)
			st2, _ := hhSingleDef(f, polkaOK)
			c.Check("precommit-polka", f.Name+" polka query", polka.Pos(), st1 != nil && st2 != nil, "polka result variables must be assigned exactly once")
		} else {
			c.Check("precommit-polka", f.Name+" polka query", polka.Pos(), false, "polka result is not bound to two variables")
		}
		isRound := func(e ast.Expr) bool { id := hhIdent(e); return id != nil && info.ObjectOf(id) == round }
		isPolkaHash := func(e ast.Expr) bool { return hhIsChain(info, e, polkaID, "Hash") }
		// HashesTo facts
		hashesTo := func(facts []hhFact, field string, truth bool) bool {
			for _, ft := range facts {
				rx, call, ok := hhMethodCall(info, ft.E, "HashesTo")
				if ok && ft.True == truth && hhIsChain(info, rx, recv, field) && isPolkaHash(hhArg(call, 0)) {
					return true
				}
			}
			return false
		}
		polkaNil := func(facts []hhFact) (known, empty bool) {
			for _, ft := range facts {
				if x, e, ok := hhLenZero(info, ft.E); ok && isPolkaHash(x) {
					return true, e == ft.True
				}
			}
			return false, false
		}
		nonNil := 0
		for _, d := range hhDeepCalls(f, CS+"signAddVote") {
			d := d
			s := d.Outer
			arg := func(i int) ast.Expr { return hhDeepArg(d, i) }
			key := f.Name + " signAddVote(" + hhRender(arg(1)) + ")"
			if hhConstName(info, arg(0)) != "PrecommitType" {
				c.Check("precommit-polka", key, s.Pos(), false, "enterPrecommit must cast precommits only")
				continue
			}
			if isNil(arg(1)) {
				c.Check("precommit-polka", key, s.Pos(), true, "nil precommit is always safe")
				continue
			}
			nonNil++
			if polkaID == nil {
				c.Check("precommit-polka", key, s.Pos(), false, "no polka query to relate the vote to")
				continue
			}
			facts := hhDeepFacts(f, d)
			why := ""
			ok := true
			fail := func(m string) {
				if ok {
					ok, why = false, m
				}
			}
			if !g.Dominates(polka, s) {
				fail("polka query does not dominate the precommit")
			}
			if !hhIdentFact(info, facts, polkaOK, true) {
				fail("precommit for a block is not under the `polka found` test")
			}
			if k, e := polkaNil(facts); !k || e {
				fail("precommit for a block is not under `len(blockID.Hash) != 0` (as a stand-alone test)")
			}
			if !isPolkaHash(arg(1)) || !hhIsChain(info, arg(2), polkaID, "PartsHeader") {
				fail("precommit must carry the polka's blockID.Hash / blockID.PartsHeader")
			}
			relock := hashesTo(facts, "LockedBlock", true)
			newlock := hashesTo(facts, "ProposalBlock", true)
			if !relock && !newlock {
				fail("precommit is not under `cs.LockedBlock.HashesTo(blockID.Hash)` or `cs.ProposalBlock.HashesTo(blockID.Hash)`")
			}
			if !hhDeepDominatingAssign(f, s, recv, "LockedRound", isRound) {
				fail("`cs.LockedRound = round` does not dominate the precommit")
			}
			if !relock && newlock {
				if !hhDeepDominatingAssign(f, s, recv, "LockedBlock", func(e ast.Expr) bool { return hhIsChain(info, e, recv, "ProposalBlock") }) ||
					!hhDeepDominatingAssign(f, s, recv, "LockedBlockParts", func(e ast.Expr) bool { return hhIsChain(info, e, recv, "ProposalBlockParts") }) {
					fail("new lock: `cs.LockedBlock = cs.ProposalBlock` / `cs.LockedBlockParts = cs.ProposalBlockParts` must dominate the precommit")
				}
				vok := false
				vwhy := "no ValidateBlock(cs.ProposalBlock) guard"
				for _, vd := range hhDeepCalls(f, "tm2/pkg/bft/state.(State).ValidateBlock") {
					if !hhIsChain(info, hhDeepArg(vd, 0), recv, "ProposalBlock") {
						continue
					}
					if vok, vwhy = hhDeepMustSucceed(f, vd, s); vok {
						break
					}
				}
				if !vok {
					fail("new lock without effective block validation: " + vwhy)
				}
			}
			if ok {
				why = "polka-gated, carries polka hash, lock assigned first"
			}
			c.Check("precommit-polka", key, s.Pos(), ok, why)
		}
		c.Floor("precommit-polka (non-nil precommits)", nonNil, 2)

		// lock writes inside enterPrecommit
		nw := 0
		for _, a := range hhDeepFieldAssigns(f, recv) {
			if len(a.Fields) != 1 || (a.Fields[0] != "LockedRound" && a.Fields[0] != "LockedBlock" && a.Fields[0] != "LockedBlockParts") {
				continue
			}
			nw++
			key := f.Name + " " + a.Fields[0] + " = " + hhRender(a.Rhs)
			facts := hhDeepFacts(f, a.D)
			ok, why := true, "under its polka condition"
			if !hhIdentFact(info, facts, polkaOK, true) || polka == nil || !g.Dominates(polka, a.D.Outer) {
				ok, why = false, "lock field written without a polka in this round"
			} else if isNil(a.Rhs) || hhIsMinusOne(info, a.Rhs) {
				// unlock: polka for nil, or for a block that is not the locked one
				k, e := polkaNil(facts)
				if !(k && e) && !hashesTo(facts, "LockedBlock", false) {
					ok, why = false, "unlock must be under `len(blockID.Hash) == 0` or `!cs.LockedBlock.HashesTo(blockID.Hash)`"
				}
			} else {
				switch a.Fields[0] {
				case "LockedRound":
					if !isRound(a.Rhs) || !(hashesTo(facts, "LockedBlock", true) || hashesTo(facts, "ProposalBlock", true)) {
						ok, why = false, "LockedRound may only become `round`, under a HashesTo(polka) test"
					}
				case "LockedBlock":
					if !hhIsChain(info, a.Rhs, recv, "ProposalBlock") || !hashesTo(facts, "ProposalBlock", true) {
						ok, why = false, "LockedBlock may only become cs.ProposalBlock under `cs.ProposalBlock.HashesTo(blockID.Hash)`"
					}
				case "LockedBlockParts":
					if !hhIsChain(info, a.Rhs, recv, "ProposalBlockParts") || !hashesTo(facts, "ProposalBlock", true) {
						ok, why = false, "LockedBlockParts may only become cs.ProposalBlockParts under `cs.ProposalBlock.HashesTo(blockID.Hash)`"
					}
				}
			}
			c.Check("lock-write", key, a.Stmt.Pos(), ok, why)
		}
		c.Floor("lock-write enterPrecommit", nw, 9)
	}

	// ---- (3b) unlock on a later polka in addVote ----
	if f := c.MustFunc(CS + "addVote"); f != nil {
		info := f.Info()
		recv := hhRecv(f)
		vote := paramObj(f, 0)
		nw := 0
		for _, a := range hhDeepFieldAssigns(f, recv) {
			if len(a.Fields) != 1 || (a.Fields[0] != "LockedRound" && a.Fields[0] != "LockedBlock" && a.Fields[0] != "LockedBlockParts") {
				continue
			}
			nw++
			key := f.Name + " " + a.Fields[0] + " = " + hhRender(a.Rhs)
			ok, why := true, "unlock under later-polka condition"
			fail := func(m string) {
				if ok {
					ok, why = false, m
				}
			}
			if !(isNil(a.Rhs) || hhIsMinusOne(info, a.Rhs)) {
				fail("addVote may only unlock")
			}
			facts := hhDeepFacts(f, a.D)
			// polka variables: an `ok`-fact whose variable is defined by <vs>.TwoThirdsMajority() with vs = cs.Votes.Prevotes(vote.Round)
			var pid types.Object
			for _, ft := range facts {
				id := hhIdent(ft.E)
				if id == nil || !ft.True {
					continue
				}
				st, idx := hhSingleDef(f, info.ObjectOf(id))
				if st == nil || idx != 1 || len(st.Rhs) != 1 {
					continue
				}
				rx, _, isM := hhMethodCall(info, st.Rhs[0], "TwoThirdsMajority")
				if !isM {
					continue
				}
				if !hhIsPrevotesOf(f, rx, recv, vote) {
					continue
				}
				if bid := hhIdent(st.Lhs[0]); bid != nil {
					pid = info.ObjectOf(bid)
				}
			}
			if pid == nil {
				fail("unlock is not under `blockID, ok := cs.Votes.Prevotes(vote.Round).TwoThirdsMajority(); ok`")
			}
			isLockedRound := func(e ast.Expr) bool { return hhIsChain(info, e, recv, "LockedRound") }
			isVoteRound := func(e ast.Expr) bool { return hhIsChain(info, e, vote, "Round") }
			isCsRound := func(e ast.Expr) bool { return hhIsChain(info, e, recv, "Round") }
			if !hhHasCmp(facts, token.LSS, isLockedRound, isVoteRound) {
				fail("unlock must require cs.LockedRound < vote.Round (a strictly later polka)")
			}
			if !hhHasCmp(facts, token.LEQ, isVoteRound, isCsRound) {
				fail("unlock must require vote.Round <= cs.Round")
			}
			differs := false
			for _, ft := range facts {
				rx, call, isM := hhMethodCall(info, ft.E, "HashesTo")
				if isM && !ft.True && hhIsChain(info, rx, recv, "LockedBlock") && hhIsChain(info, hhArg(call, 0), pid, "Hash") {
					differs = true
				}
			}
			if !differs {
				fail("unlock must require !cs.LockedBlock.HashesTo(blockID.Hash)")
			}
			pv := false
			for _, k := range hhCaseGates(f, a.D.Outer) {
				if k == "PrevoteType" {
					pv = true
				}
			}
			if !pv {
				fail("unlock must be in the PrevoteType case")
			}
			c.Check("lock-write", key, a.Stmt.Pos(), ok, why)
		}
		c.Floor("lock-write addVote", nw, 3)
	}

	// ---- (3c) reset on new height in updateToState ----
	if f := c.MustFunc(CS + "updateToState"); f != nil {
		info := f.Info()
		recv := hhRecv(f)
		state := paramObj(f, 0)
		g := f.Graph()
		ups := f.CallsTo(CS + "updateHeight")
		nw := 0
		for _, a := range hhDeepFieldAssigns(f, recv) {
			if len(a.Fields) != 1 || (a.Fields[0] != "LockedRound" && a.Fields[0] != "LockedBlock" && a.Fields[0] != "LockedBlockParts") {
				continue
			}
			nw++
			key := f.Name + " " + a.Fields[0] + " = " + hhRender(a.Rhs)
			ok, why := true, "reset together with the height change"
			if !(isNil(a.Rhs) || hhIsMinusOne(info, a.Rhs)) {
				ok, why = false, "updateToState may only reset the lock"
			}
			if ok && !g.MustPass(a.D.Outer, ups) {
				ok, why = false, "lock reset not preceded by cs.updateHeight(...) on every path"
			}
			if ok {
				// not reachable when the new state is not further out: a gate, taken on
				// its false branch, with conjunct state.LastBlockHeight <= cs.state.LastBlockHeight
				found := false
				for _, gt := range g.Gates(a.D.Outer) {
					if gt.OnTrue {
						continue
					}
					for _, cj := range engine.Conjuncts(gt.Cond, token.LAND) {
						var fs []hhFact
						hhSplit(cj, true, &fs)
						if hhHasCmp(fs, token.LEQ,
							func(e ast.Expr) bool { return hhIsChain(info, e, state, "LastBlockHeight") },
							func(e ast.Expr) bool { return hhIsChain(info, e, recv, "state", "LastBlockHeight") }) {
							found = true
						}
					}
				}
				if !found {
					ok, why = false, "lock reset is reachable when state.LastBlockHeight <= cs.state.LastBlockHeight (same height)"
				}
			}
			c.Check("lock-write", key, a.Stmt.Pos(), ok, why)
		}
		c.Floor("lock-write updateToState", nw, 3)
	}

	// ---- (3d) who may write the lock fields ----
	allowedW := []string{CS + "enterPrecommit", CS + "addVote", CS + "updateToState", "tm2/pkg/bft/consensus/types.(*RoundState).UnmarshalBinary2"}
	for _, fld := range []string{"LockedRound", "LockedBlock", "LockedBlockParts"} {
		v := p.Field("tm2/pkg/bft/consensus/types.RoundState." + fld)
		if v == nil {
			c.Undecided("lock-writers", fld, "field RoundState."+fld+" not found")
			continue
		}
		ws := p.FieldWrites(v)
		got := hhLiftCallers(p, engine.WriterSet(ws, nil), allowedW)
		extra := hhExtra(got, allowedW)
		pos := token.NoPos
		for _, w := range ws {
			for _, e := range extra {
				if w.Fn.Root().Name == e {
					pos = w.Node.Pos()
				}
			}
		}
		c.Check("lock-writers", "RoundState."+fld, pos, len(extra) == 0, "writers: "+join(got)+"; not allowed: "+join(extra))
		c.Floor("lock-writers "+fld, len(got), 3)
	}
	// whole-struct overwrite of a RoundState that is not a plain local copy
	if rsT := p.Named("tm2/pkg/bft/consensus/types.RoundState"); rsT != nil {
		got := hhWholeWrites(p, rsT)
		extra := hhExtra(got, []string{"tm2/pkg/bft/consensus/types.(*RoundState).UnmarshalBinary2"})
		c.Check("lock-writers", "RoundState (whole struct)", token.NoPos, len(extra) == 0, "writers: "+join(got))
	} else {
		c.Undecided("lock-writers", "RoundState", "type not found")
	}

	// ---- (4) commit gates ----
	if f := c.MustFunc(CS + "finalizeCommit"); f != nil {
		info := f.Info()
		recv := hhRecv(f)
		var maj *engine.Site
		for _, s := range f.CallsTo(VS + "TwoThirdsMajority") {
			if rx, rc, ok := hhMethodCall(info, hhResolve(f, ast.Unparen(s.Call.Fun).(*ast.SelectorExpr).X), "Precommits"); ok &&
				hhIsChain(info, rx, recv, "Votes") && hhIsChain(info, hhArg(rc, 0), recv, "CommitRound") {
				maj = s
			}
		}
		var bid, bok types.Object
		if maj != nil {
			if rv := hhResultVars(f, maj); len(rv) == 2 {
				bid, bok = rv[0], rv[1]
			}
		}
		c.Check("commit-gate", f.Name+" +2/3 precommit query", f.Pos(), maj != nil && bid != nil && bok != nil, "`blockID, ok := cs.Votes.Precommits(cs.CommitRound).TwoThirdsMajority()` required")
		type tgt struct {
			pat  string
			barg int
		}
		n := 0
		for _, t := range []tgt{{"tm2/pkg/bft/state.(BlockStore).SaveBlock", 0}, {"tm2/pkg/bft/state.(*BlockExecutor).ApplyBlock", 2}} {
			for _, d := range hhDeepCalls(f, t.pat) {
				d := d
				s := d.Outer
				n++
				key := f.Name + " -> " + d.Inner.CalleeName()
				ok, why := true, "after +2/3 test, hash match and ValidateBlock on the same block"
				fail := func(m string) {
					if ok {
						ok, why = false, m
					}
				}
				blk := engine.ObjOf(info, hhDeepArg(d, t.barg))
				if _, isVar := blk.(*types.Var); !isVar || hhIdent(hhDeepArg(d, t.barg)) == nil {
					fail("block argument is not a local variable")
				} else if st, _ := hhSingleDef(f, blk); st == nil {
					fail("block variable is assigned more than once")
				}
				if maj == nil || bok == nil {
					fail("no +2/3 query")
				} else {
					if g, w := hhBoolGuard(f, maj, s, true); !g {
						fail("+2/3 precommit test does not gate: " + w)
					}
					if st1, _ := hhSingleDef(f, bid); st1 == nil {
						fail("blockID reassigned")
					}
				}
				// block.HashesTo(blockID.Hash) holds
				hm := false
				for _, ft := range hhDeepFacts(f, d) {
					rx, call, isM := hhMethodCall(info, ft.E, "HashesTo")
					if isM && ft.True && blk != nil && engine.ObjOf(info, rx) == blk && hhIsChain(info, hhArg(call, 0), bid, "Hash") {
						hm = true
					}
				}
				if !hm {
					fail("no effective `block.HashesTo(blockID.Hash)` test on the block being committed")
				}
				vok, vwhy := false, "no ValidateBlock(block) call"
				for _, vd := range hhDeepCalls(f, "tm2/pkg/bft/state.(State).ValidateBlock") {
					if engine.ObjOf(info, hhDeepArg(vd, 0)) != blk {
						continue
					}
					if vok, vwhy = hhDeepMustSucceed(f, vd, s); vok {
						break
					}
				}
				if !vok {
					fail("block validation does not gate: " + vwhy)
				}
				c.Check("commit-gate", key, s.Pos(), ok, why)
			}
		}
		c.Floor("commit-gate finalizeCommit", n, 2)
		// the seen commit is made from the tested vote set
		for _, md := range hhDeepCalls(f, VS+"MakeCommit") {
			s := md.Outer
			rx := ast.Unparen(md.Inner.Call.Fun).(*ast.SelectorExpr).X
			if id := hhIdent(rx); id != nil {
				if d := hhDefExpr(md.Inner.Fn, info.ObjectOf(id)); d != nil {
					rx = d
				}
			}
			rx = hhDeepMap(md)(rx)
			r2, rc, ok := hhMethodCall(info, rx, "Precommits")
			ok = ok && hhIsChain(info, r2, recv, "Votes") && hhIsChain(info, hhArg(rc, 0), recv, "CommitRound")
			c.Check("commit-gate", f.Name+" MakeCommit source", s.Pos(), ok, "seen commit must be made from cs.Votes.Precommits(cs.CommitRound)")
		}
	}
	{
		type wc struct {
			fn      string
			allowed []string
		}
		for _, w := range []wc{
			{CS + "finalizeCommit", []string{CS + "tryFinalizeCommit"}},
			{CS + "enterCommit", []string{CS + "addVote"}},
			{CS + "updateHeight", []string{CS + "updateToState"}},
			{CS + "updateToState", []string{CS + "finalizeCommit", "tm2/pkg/bft/consensus.NewConsensusState", "tm2/pkg/bft/consensus.(*ConsensusReactor).SwitchToConsensus"}},
		} {
			callers := hhLiftCallers(p, engine.CallerSet(p.RefsToFunc(w.fn)), w.allowed)
			extra := hhExtra(callers, w.allowed)
			c.Check("commit-gate", "callers of "+w.fn, token.NoPos, len(extra) == 0 && len(callers) > 0, "callers: "+join(callers))
		}
	}
	if f := c.MustFunc(CS + "tryFinalizeCommit"); f != nil {
		info := f.Info()
		recv := hhRecv(f)
		n := 0
		for _, s := range f.CallsTo(CS + "finalizeCommit") {
			n++
			ok, why := true, "under +2/3 non-nil and have-the-block tests"
			var maj *engine.Site
			for _, m := range f.CallsTo(VS + "TwoThirdsMajority") {
				if rx, rc, isM := hhMethodCall(info, hhResolve(f, ast.Unparen(m.Call.Fun).(*ast.SelectorExpr).X), "Precommits"); isM &&
					hhIsChain(info, rx, recv, "Votes") && hhIsChain(info, hhArg(rc, 0), recv, "CommitRound") {
					maj = m
				}
			}
			if maj == nil {
				ok, why = false, "no +2/3 precommit query on cs.CommitRound"
			} else if g, w := hhBoolGuard(f, maj, s, true); !g {
				ok, why = false, "+2/3 test does not gate finalizeCommit: "+w
			} else {
				rv := hhResultVars(f, maj)
				facts := hhFacts(f, s)
				nonEmpty, match := false, false
				for _, ft := range facts {
					if x, e, isL := hhLenZero(info, ft.E); isL && len(rv) == 2 && hhIsChain(info, x, rv[0], "Hash") && e != ft.True {
						nonEmpty = true
					}
					if rx, call, isM := hhMethodCall(info, ft.E, "HashesTo"); isM && ft.True && len(rv) == 2 && hhIsChain(info, rx, recv, "ProposalBlock") && hhIsChain(info, hhArg(call, 0), rv[0], "Hash") {
						match = true
					}
				}
				if !nonEmpty || !match {
					ok, why = false, "finalizeCommit must be under `len(blockID.Hash) != 0` and `cs.ProposalBlock.HashesTo(blockID.Hash)`"
				}
			}
			c.Check("commit-gate", f.Name+" -> finalizeCommit", s.Pos(), ok, why)
		}
		c.Floor("commit-gate tryFinalizeCommit", n, 1)
	}
	if f := c.MustFunc(CS + "addVote"); f != nil {
		info := f.Info()
		recv := hhRecv(f)
		vote := paramObj(f, 0)
		n := 0
		for _, s := range f.CallsTo(CS + "enterCommit") {
			n++
			ok, why := true, "under +2/3 non-nil precommit test of vote.Round"
			fail := func(m string) {
				if ok {
					ok, why = false, m
				}
			}
			if !hhIsChain(info, hhArg(s.Call, 1), vote, "Round") {
				fail("commit round must be vote.Round")
			}
			facts := hhFacts(f, s)
			var pid types.Object
			for _, ft := range facts {
				id := hhIdent(ft.E)
				if id == nil || !ft.True {
					continue
				}
				st, idx := hhSingleDef(f, info.ObjectOf(id))
				if st == nil || idx != 1 || len(st.Rhs) != 1 {
					continue
				}
				rx, _, isM := hhMethodCall(info, st.Rhs[0], "TwoThirdsMajority")
				if !isM || !hhIsVotesOf(f, rx, recv, vote, "Precommits") {
					continue
				}
				if bid := hhIdent(st.Lhs[0]); bid != nil {
					pid = info.ObjectOf(bid)
				}
			}
			if pid == nil {
				fail("enterCommit is not under `blockID, ok := cs.Votes.Precommits(vote.Round).TwoThirdsMajority(); ok`")
			}
			ne := false
			for _, ft := range facts {
				if x, e, isL := hhLenZero(info, ft.E); isL && hhIsChain(info, x, pid, "Hash") && e != ft.True {
					ne = true
				}
			}
			if !ne {
				fail("enterCommit must be under a stand-alone `len(blockID.Hash) != 0` test")
			}
			c.Check("commit-gate", f.Name+" -> enterCommit", s.Pos(), ok, why)
		}
		c.Floor("commit-gate addVote", n, 1)
	}

	// ---- (5) signing path ----
	{
		inCons := func(xs []string) []string { return hhWithPrefix(xs, "tm2/pkg/bft/consensus.") }
		sv := hhLiftCallers(p, inCons(engine.CallerSet(p.RefsToFunc("tm2/pkg/bft/types.(PrivValidator).SignVote"))), []string{CS + "signVote"})
		c.Check("sign-path", "callers of PrivValidator.SignVote in consensus", token.NoPos, len(hhExtra(sv, []string{CS + "signVote"})) == 0 && len(sv) == 1, "callers: "+join(sv))
		sp := hhLiftCallers(p, inCons(engine.CallerSet(p.RefsToFunc("tm2/pkg/bft/types.(PrivValidator).SignProposal"))), []string{CS + "defaultDecideProposal"})
		c.Check("sign-path", "callers of PrivValidator.SignProposal in consensus", token.NoPos, len(hhExtra(sp, []string{CS + "defaultDecideProposal"})) == 0 && len(sp) == 1, "callers: "+join(sp))
		sc := hhLiftCallers(p, engine.CallerSet(p.RefsToFunc(CS+"signVote")), []string{CS + "signAddVote"})
		c.Check("sign-path", "callers of signVote", token.NoPos, len(hhExtra(sc, []string{CS + "signAddVote"})) == 0 && len(sc) == 1, "callers: "+join(sc))
		// any other access to the signing key from the consensus package
		var keyUsers []string
		for _, r := range p.RefsTo(func(o types.Object) bool {
			fn, ok := o.(*types.Func)
			if !ok {
				return false
			}
			n := engine.FuncName(fn)
			return n == "tm2/pkg/bft/types.(Signer).Sign" || n == "tm2/pkg/crypto.(PrivKey).Sign"
		}) {
			if r.Fn != nil && r.Fn.Pkg.PkgPath == engine.ModPrefix+"tm2/pkg/bft/consensus" {
				keyUsers = append(keyUsers, r.Fn.Root().Name)
			}
		}
		c.Check("sign-path", "raw Sign calls in consensus", token.NoPos, len(keyUsers) == 0, "users: "+join(keyUsers))
		if c.Tier == "thorough" {
			all := engine.CallerSet(p.RefsToFunc("tm2/pkg/bft/types.(PrivValidator).SignVote"))
			allowed := []string{CS + "signVote", "tm2/pkg/bft/privval/upstream.(*retrySignerClient).SignVote",
				"tm2/pkg/bft/types.signAddVote", "tm2/pkg/bft/types.MakeVote"}
			ex := hhExtra(all, allowed)
			c.Check("sign-path", "callers of PrivValidator.SignVote in the module", token.NoPos, len(ex) == 0, "callers: "+join(all))
		}
	}
	if f := c.MustFunc(CS + "signAddVote"); f != nil {
		// signVote is reached only when the vote set of (height, round, type) holds no vote
		// of this validator: the lookup <voteSet>.GetByAddress/GetByIndex(own) — inline or
		// in a helper that returns it — yields nil.
		info := f.Info()
		recv := hhRecv(f)
		typeParam := paramObj(f, 0)
		names := map[types.Object]string{recv: "cs"}
		lookups := hhDeepCalls(f, VS+"GetByAddress", VS+"GetByIndex")
		n := 0
		for _, s := range f.CallsTo(CS + "signVote") {
			n++
			ok, why := false, "no lookup of an existing self vote gates signVote"
			for _, ld := range lookups {
				ld := ld
				r := f.Graph().CheckedGuard(ld.Outer, s)
				if !r.OK {
					why = r.Why
					continue
				}
				var facts []hhFact
				hhSplit(r.Cond, r.OnTrue, &facts)
				if len(facts) != 1 {
					why = "signVote is reachable although a self vote exists (test is `" + engine.ExprString(r.Cond) + "`)"
					continue
				}
				if _, notNil, isN := hhNilCmp(facts[0].E); !isN || notNil == facts[0].True {
					why = "signVote is reachable although a self vote exists (test is `" + engine.ExprString(r.Cond) + "`)"
					continue
				}
				// a helper must hand the lookup's result back unchanged
				if ld.Inner != ld.Outer {
					h := ld.Inner.Fn
					rv := hhResultVars(h, ld.Inner)
					back := len(ld.Chain) == 1
					for _, rb := range h.Graph().ReturnBlocks() {
						ret := rb.Return()
						if ret == nil || len(ret.Results) != 1 {
							back = false
							continue
						}
						if ast.Unparen(ret.Results[0]) == ast.Expr(ld.Inner.Call) {
							continue
						}
						if len(rv) == 1 && rv[0] != nil && engine.ObjOf(h.Info(), ret.Results[0]) == rv[0] {
							continue
						}
						back = false
					}
					if !back {
						why = "the helper does not return the vote-set lookup unchanged"
						continue
					}
				}
				// looked up by our own address
				own := hhNorm(f, hhDeepArg(ld, 0), names, 3)
				if strings.HasSuffix(ld.Inner.CalleeName(), "GetByIndex") {
					// index obtained from cs.Validators.GetByAddress(own address)
					own = ""
					if id := hhIdent(hhDeepArg(ld, 0)); id != nil {
						for _, a := range hhAssignsTo(f, info.ObjectOf(id)) {
							if as, isAs := a.(*ast.AssignStmt); isAs && len(as.Rhs) == 1 {
								if rx, call, isM := hhMethodCall(info, as.Rhs[0], "GetByAddress"); isM && hhIsChain(info, rx, recv, "Validators") {
									own = hhNorm(f, hhArg(call, 0), names, 3)
								}
							}
						}
					}
				}
				if own != "cs.privValidator.PubKey().Address()" {
					why = "the lookup is not by this validator's own address (got `" + own + "`)"
					continue
				}
				ok, why = true, "signed only when no self vote exists for this round/type"
				// the vote set looked into: per vote type, cs.Votes.Prevotes/Precommits(cs.Round)
				lf := ld.Inner.Fn
				toF := hhDeepMap(ld)
				rcv := ast.Unparen(ld.Inner.Call.Fun).(*ast.SelectorExpr).X
				setVar := engine.ObjOf(lf.Info(), rcv)
				found := false
				for _, si := range lf.Switches() {
					if si.Tag == nil || engine.ObjOf(info, toF(si.Tag)) != typeParam {
						continue
					}
					found = true
					for k, m := range map[string]string{"PrevoteType": "Prevotes", "PrecommitType": "Precommits"} {
						cc := si.Consts[k]
						okc := false
						if cc != nil && setVar != nil {
							ast.Inspect(cc, func(x ast.Node) bool {
								as, isAs := x.(*ast.AssignStmt)
								if !isAs || len(as.Lhs) != 1 || len(as.Rhs) != 1 || engine.ObjOf(lf.Info(), as.Lhs[0]) != setVar {
									return true
								}
								if rx, rc, isM := hhMethodCall(info, toF(as.Rhs[0]), m); isM && hhIsChain(info, rx, recv, "Votes") && hhIsChain(info, hhArg(rc, 0), recv, "Round") {
									okc = true
								}
								return true
							})
						}
						pos := s.Pos()
						if cc != nil {
							pos = cc.Pos()
						}
						c.Check("sign-path", f.Name+" self-vote lookup, case "+k, pos, okc, "for "+k+" the lookup must be in cs.Votes."+m+"(cs.Round)")
					}
					c.Check("sign-path", f.Name+" self-vote lookup, unknown type panics", si.Stmt.Pos(), si.HasDefault && lf.ClausePanics(si.Default), "unknown vote type must not fall through")
				}
				c.Check("sign-path", f.Name+" self-vote lookup selects the vote set by type", s.Pos(), found, "no switch on the vote type selecting Prevotes/Precommits of cs.Round")
				break
			}
			c.Check("sign-path", f.Name+" signVote gated by the absence of an own vote in the round's vote set", s.Pos(), ok, why)
		}
		c.Floor("sign-path signAddVote", n, 1)
	}
	if f := c.MustFunc(CS + "signVote"); f != nil {
		info := f.Info()
		recv := hhRecv(f)
		n := 0
		for _, s := range f.CallsTo("tm2/pkg/bft/types.(PrivValidator).SignVote") {
			n++
			// the vote signed is a literal with Height: cs.Height, Round: cs.Round, Type: type_
			var lit *ast.CompositeLit
			arg := hhArg(s.Call, 1)
			if id := hhIdent(arg); id != nil {
				if d := hhDefExpr(f, info.ObjectOf(id)); d != nil {
					arg = d
				}
			}
			if u, isU := ast.Unparen(arg).(*ast.UnaryExpr); isU && u.Op == token.AND {
				lit, _ = ast.Unparen(u.X).(*ast.CompositeLit)
			}
			ok, why := lit != nil, "signed vote is not a single-assignment &types.Vote{…} literal"
			if lit != nil {
				want := map[string]func(ast.Expr) bool{
					"Height": func(e ast.Expr) bool { return hhIsChain(info, e, recv, "Height") },
					"Round":  func(e ast.Expr) bool { return hhIsChain(info, e, recv, "Round") },
					"Type":   func(e ast.Expr) bool { return engine.ObjOf(info, e) == paramObj(f, 0) && paramObj(f, 0) != nil },
				}
				seen := 0
				for _, el := range lit.Elts {
					kv, isKV := el.(*ast.KeyValueExpr)
					if !isKV {
						continue
					}
					if k := hhIdent(kv.Key); k != nil {
						if pr, w := want[k.Name]; w {
							if pr(kv.Value) {
								seen++
							} else {
								ok, why = false, "vote."+k.Name+" is not taken from the current consensus state"
							}
						}
					}
				}
				if ok && seen != 3 {
					ok, why = false, "vote literal must set Height, Round and Type"
				}
				if ok {
					why = "vote for cs.Height/cs.Round of the requested type"
				}
			}
			c.Check("sign-path", f.Name+" vote literal", s.Pos(), ok, why)
		}
		c.Floor("sign-path signVote", n, 1)
	}
}

// hhIsVotesOf: e is (possibly via a singly-defined local) cs.Votes.<method>(vote.Round).
func hhIsVotesOf(f *engine.Fn, e ast.Expr, recv, vote types.Object, method string) bool {
	info := f.Info()
	if id := hhIdent(e); id != nil {
		d := hhDefExpr(f, info.ObjectOf(id))
		if d == nil {
			return false
		}
		e = d
	}
	rx, rc, ok := hhMethodCall(info, e, method)
	return ok && hhIsChain(info, rx, recv, "Votes") && hhIsChain(info, hhArg(rc, 0), vote, "Round")
}

func hhIsPrevotesOf(f *engine.Fn, e ast.Expr, recv, vote types.Object) bool {
	return hhIsVotesOf(f, e, recv, vote, "Prevotes")
}
