package checks

import (
	"go/ast"
	"go/token"
	"go/types"

	"gnoverif/engine"
)

// C39 — block part sets (tm2/pkg/bft/types/part_set.go).
func init() {
	register("C39", c39)
	meta("C39", Meta{
		Text:      "Decides structural necessary conditions of the part-set property: in PartSet.AddPart the slot store, the bit-array update and the count increment are each reached only after the strict upper index bound, the empty-slot test, Proof.Index == Index, Proof.Total == total and a nil result of Proof.Verify(set hash, part bytes); the slot written is the part's own index and the value is the part; AddPart is the only writer of parts/count and nothing rewrites total/hash; negative indices are rejected either in AddPart or on the path from the network (Part.ValidateBasic, BlockPartMessage.ValidateBasic, the reactor's checked ValidateBasic before every peer-queue send, frozen table of peer-queue senders); NewPartSetFromData cuts consecutive partSize chunks, proves them under the same index and stores the Merkle root of exactly those chunks as the set hash; the reader walks parts by index +1 from 0 and is only handed out for a complete set. Level 'other': code-shape clauses.",
		Note:      "Not covered: Merkle proof soundness (hash reasoning, C25), the byte-level equality of reassembled data as a behaviour, PartSetReader's recursion on short reads. Trusts go/types+go/cfg.",
		Technique: "CFG gate facts before each write, who-may-write tables, checked-guard dominance in the reactor, AST form check of the chunk slice",
		Ref:       "DESIGN.md §2 C39",
	})
	const F = "tm2/pkg/bft/types/part_set.go"
	mutants("C39",
		Mutant{"upper-bound-off-by-one", F, "if part.Index >= ps.total {", "if part.Index > ps.total {", "add-gated"},
		Mutant{"proof-index-unchecked", F, "if part.Proof.Index != part.Index {", "if part.Proof.Index < 0 {", "add-gated"},
		Mutant{"proof-total-unchecked", F, "if part.Proof.Total != ps.total {", "if part.Proof.Total > ps.total {", "add-gated"},
		Mutant{"verify-against-own-root", F, "part.Proof.Verify(ps.Hash(), part.Bytes) != nil", "part.Proof.Verify(part.Proof.ComputeRootHash(), part.Bytes) != nil", "add-gated"},
		Mutant{"duplicate-recounted", F, "\tif ps.parts[part.Index] != nil {\n\t\treturn false, nil\n\t}\n", "", "add-gated"},
		Mutant{"second-writer", F, "\tdefer ps.mtx.Unlock()\n\treturn ps.parts[index]", "\tdefer ps.mtx.Unlock()\n\tps.parts[index] = nil\n\treturn nil", "who-may-write"},
		Mutant{"reader-skips-part", F, "\tpsr.i++\n", "\tpsr.i += 2\n", "reader-order"},
		Mutant{"chunk-short", F, "Bytes: data[i*partSize : min(len(data), (i+1)*partSize)],", "Bytes: data[i*partSize : min(len(data)-1, (i+1)*partSize)],", "split-form"},
		Mutant{"negative-index-accepted", F, "if part.Index < 0 {", "if part.Index < -1 {", "lower-bound"},
		Mutant{"reactor-skips-validate", "tm2/pkg/bft/consensus/reactor.go", "\tif err = msg.ValidateBasic(); err != nil {\n\t\tconR.Logger.Error(\"Peer sent us invalid msg\"", "\tif err = msg.ValidateBasic(); err != nil && chID == StateChannel {\n\t\tconR.Logger.Error(\"Peer sent us invalid msg\"", "lower-bound"},
		Mutant{"reader-on-incomplete", F, "\tif !ps.IsComplete() {\n\t\tpanic(\"Cannot GetReader() on incomplete PartSet\")\n\t}\n", "", "reader-order"},
	)
}

func c39(c *engine.Ctx) {
	c.Explain = "Decides structural necessary conditions of the part-set property: (1) add-gated: in AddPart each of {parts[part.Index] = part, partsBitArray.SetIndex(part.Index, true), count++} is reached only when part.Index < total, parts[part.Index] == nil, Proof.Index == Index, Proof.Total == total and Proof.Verify(ps.Hash(), part.Bytes) == nil held, under the set's mutex; (2) who-may-write: parts and count are written only by AddPart, total/hash/partsBitArray never after construction; (3) lower-bound: Index >= 0 holds in AddPart or is enforced by Part.ValidateBasic <- BlockPartMessage.ValidateBasic <- checked msg.ValidateBasic() before every peer-queue send in the consensus reactor, with the set of peer-queue senders frozen; (4) split-form: NewPartSetFromData chunk i is data[i*partSize : min(len(data),(i+1)*partSize)], proved and stored under index i, hash = Merkle root of those chunks, count = total; (5) reader-order: the reader starts at part 0, advances by exactly one, ends at len(parts), and is built only for a complete set. Not covered: Merkle soundness, byte equality as behaviour."
	p := c.Load("tm2/pkg/bft/types", "tm2/pkg/bft/consensus")
	if p == nil {
		return
	}
	const T = "tm2/pkg/bft/types."
	const PS = T + "(*PartSet)."
	fld := func(q string) *types.Var {
		v := p.Field(q)
		if v == nil {
			c.Undecided("anchor", q, "field not found")
		}
		return v
	}
	fParts, fCount, fTotal, fHash, fBits := fld(T+"PartSet.parts"), fld(T+"PartSet.count"), fld(T+"PartSet.total"), fld(T+"PartSet.hash"), fld(T+"PartSet.partsBitArray")
	fIdx, fBytes, fProof := fld(T+"Part.Index"), fld(T+"Part.Bytes"), fld(T+"Part.Proof")
	fPIdx, fPTot := fld("tm2/pkg/crypto/merkle.SimpleProof.Index"), fld("tm2/pkg/crypto/merkle.SimpleProof.Total")
	for _, v := range []*types.Var{fParts, fCount, fTotal, fHash, fBits, fIdx, fBytes, fProof, fPIdx, fPTot} {
		if v == nil {
			return
		}
	}

	lowerInAdd := false
	if entry := c.MustFunc(PS + "AddPart"); entry != nil {
		// the body may have been moved into a private "...Locked" method that AddPart
		// calls (and whose results it returns) while holding the mutex
		f := entry
		name := entry.Name
		hasWrite := func(fn *engine.Fn) bool {
			for _, w := range p.FieldWrites(fParts) {
				if w.Fn == fn && w.Kind != "lit" {
					return true
				}
			}
			return false
		}
		if !hasWrite(entry) {
			for _, cs := range entry.Calls() {
				fo, _ := cs.Callee.(*types.Func)
				h := p.FnOf(fo)
				if h == nil || !hasWrite(h) || !niPrivateCalledOnlyFrom(p, h, []string{entry.Name}, 1) {
					continue
				}
				// same receiver, the part passed on, results returned as they are
				pm := niParamMap(entry, cs.Call, h)
				returned := false
				for _, r := range niReturns(entry) {
					rs := r.Node.(*ast.ReturnStmt)
					if len(rs.Results) == 1 && ast.Unparen(rs.Results[0]) == ast.Expr(cs.Call) {
						returned = true
					}
				}
				if pm[niRecv(entry)] == niRecv(h) && pm[paramObj(entry, 0)] == paramObj(h, 0) && paramObj(h, 0) != nil && returned {
					f = h
				}
			}
		}
		info := f.Info()
		g := f.Graph()
		recv := niRecv(f)
		part := paramObj(f, 0)
		isPartIdx := func(e ast.Expr) bool { return niSelField(info, e, fIdx) && niMentionsObj(info, e, part) }
		type tgt struct {
			name string
			s    *engine.Site
		}
		var tg []tgt
		for _, w := range p.FieldWrites(fParts) {
			if w.Fn != f || w.Kind == "lit" {
				continue
			}
			as, ok := w.Node.(*ast.AssignStmt)
			s := f.SiteOf(w.Node)
			okForm := false
			if ok && len(as.Lhs) == 1 && len(as.Rhs) == 1 {
				if ix, isIx := ast.Unparen(as.Lhs[0]).(*ast.IndexExpr); isIx && niSelField(info, ix.X, fParts) && niMentionsObj(info, ix.X, recv) && isPartIdx(ix.Index) && engine.ObjOf(info, as.Rhs[0]) == part {
					okForm = true
				}
			}
			c.Check("add-gated", name+" store is parts[part.Index] = part", w.Node.Pos(), okForm && s != nil, "the slot written must be the part's own index and the value the part itself")
			if s != nil {
				tg = append(tg, tgt{"slot store", s})
			}
		}
		for _, w := range p.FieldWrites(fCount) {
			if w.Fn != f || w.Kind == "lit" {
				continue
			}
			inc, ok := w.Node.(*ast.IncDecStmt)
			c.Check("add-gated", name+" count changes by ++ only", w.Node.Pos(), ok && inc.Tok == token.INC, "count must be incremented by exactly one per stored part")
			if s := f.SiteOf(w.Node); s != nil {
				tg = append(tg, tgt{"count++", s})
			}
		}
		for _, s := range f.CallsTo("tm2/pkg/bitarray.(*BitArray).SetIndex") {
			if niSelField(info, niRecvExpr(s.Call), fBits) {
				okArgs := len(s.Call.Args) == 2 && isPartIdx(s.Call.Args[0])
				if okArgs {
					tv := info.Types[s.Call.Args[1]]
					okArgs = tv.Value != nil && tv.Value.ExactString() == "true"
				}
				c.Check("add-gated", name+" bit set is SetIndex(part.Index, true)", s.Pos(), okArgs, "")
				tg = append(tg, tgt{"bit set", s})
			}
		}
		c.Floor("add-gated", len(tg), 3)
		for _, t := range tg {
			var upper, empty, pidx, ptot, verify, lower bool
			verifyWhy := "no `part.Proof.Verify(ps.Hash(), part.Bytes) == nil` fact holds at the write"
			for _, cf := range niFactsDeep(f, t.s, 2) {
				cmp, ok := niAsCmp(cf.niFact)
				if !ok {
					continue
				}
				// the fact may live in a private helper (e.g. a verify* method whose
				// nil result gates the write): match on that function's own objects
				finfo := cf.Info()
				lpart, lrecv := cf.Loc(part), cf.Loc(recv)
				isIdx := func(e ast.Expr) bool { return niSelField(finfo, e, fIdx) && niMentionsObj(finfo, e, lpart) }
				for _, cm := range []niCmp{cmp, cmp.niFlip()} {
					if isIdx(cm.X) && cm.Op == token.LSS && niSelField(finfo, cm.Y, fTotal) && niMentionsObj(finfo, cm.Y, lrecv) {
						upper = true
					}
					if isIdx(cm.X) && cm.Op == token.GEQ && niIsZero(finfo, cm.Y) {
						lower = true
					}
					if ix, isIx := ast.Unparen(cm.X).(*ast.IndexExpr); isIx && cm.Op == token.EQL && isNil(cm.Y) && niSelField(finfo, ix.X, fParts) && niMentionsObj(finfo, ix.X, lrecv) && isIdx(ix.Index) {
						empty = true
					}
					inProof := func(e ast.Expr) bool {
						se, ok := ast.Unparen(e).(*ast.SelectorExpr)
						return ok && niSelField(finfo, se.X, fProof) && niMentionsObj(finfo, se.X, lpart)
					}
					if cm.Op == token.EQL && niSelField(finfo, cm.X, fPIdx) && inProof(cm.X) && isIdx(cm.Y) {
						pidx = true
					}
					if cm.Op == token.EQL && niSelField(finfo, cm.X, fPTot) && inProof(cm.X) && niSelField(finfo, cm.Y, fTotal) && niMentionsObj(finfo, cm.Y, lrecv) {
						ptot = true
					}
					if cm.Op == token.EQL && isNil(cm.Y) {
						x := ast.Unparen(cm.X)
						if id, isID := x.(*ast.Ident); isID {
							if d := niSingleDef(cf.Fn, finfo.ObjectOf(id)); d != nil {
								x = ast.Unparen(d)
							}
						}
						call, isCall := x.(*ast.CallExpr)
						if !isCall || niCallee(finfo, call) != "tm2/pkg/crypto/merkle.(*SimpleProof).Verify" {
							continue
						}
						rx := niRecvExpr(call)
						switch {
						case !(niSelField(finfo, rx, fProof) && niMentionsObj(finfo, rx, lpart)):
							verifyWhy = "Verify is not called on part.Proof"
						case len(call.Args) != 2 || !c39IsSetHash(finfo, call.Args[0], lrecv, fHash):
							verifyWhy = "the root verified against is `" + engine.ExprString(call.Args[0]) + "`, not the set's hash"
						case !(niSelField(finfo, call.Args[1], fBytes) && niMentionsObj(finfo, call.Args[1], lpart)):
							verifyWhy = "the leaf verified is not part.Bytes"
						default:
							verify, verifyWhy = true, "write reached only when part.Proof.Verify(ps.Hash(), part.Bytes) == nil"
						}
					}
				}
			}
			key := name + " " + t.name
			c.Check("add-gated", key+" after strict upper bound", t.s.Pos(), upper, "must hold: part.Index < ps.total")
			c.Check("add-gated", key+" after empty-slot test", t.s.Pos(), empty, "must hold: ps.parts[part.Index] == nil (a duplicate must not be recounted)")
			c.Check("add-gated", key+" after Proof.Index == Index", t.s.Pos(), pidx, "must hold: part.Proof.Index == part.Index")
			c.Check("add-gated", key+" after Proof.Total == total", t.s.Pos(), ptot, "must hold: part.Proof.Total == ps.total")
			c.Check("add-gated", key+" after proof verification", t.s.Pos(), verify, verifyWhy)
			if t.name == "slot store" {
				lowerInAdd = lower
			}
		}
		ok, why := niLocksFirst(entry, "mtx")
		c.Check("add-gated", name+" under the set mutex", f.Pos(), ok, why)
		// success is reported only after the writes
		nret := 0
		for _, r := range niReturns(f) {
			rs := r.Node.(*ast.ReturnStmt)
			if len(rs.Results) != 2 {
				continue
			}
			tv := info.Types[rs.Results[0]]
			if tv.Value != nil && tv.Value.ExactString() == "false" {
				continue
			}
			nret++
			all := true
			for _, t := range tg {
				if !g.Dominates(t.s, r) {
					all = false
				}
			}
			c.Check("add-gated", name+" added=true only after all three writes", r.Pos(), all && isNil(rs.Results[1]), "")
		}
		c.Floor("add-gated (success return)", nret, 1)
	}

	// (2) who may write
	for _, x := range []struct {
		f     *types.Var
		name  string
		allow []string
	}{
		{fParts, "parts", []string{PS + "AddPart"}},
		{fCount, "count", []string{PS + "AddPart"}},
		{fTotal, "total", nil},
		{fHash, "hash", nil},
		{fBits, "partsBitArray", nil},
	} {
		ws := engine.WriterSet(p.FieldWrites(x.f), func(w engine.Write) bool { return w.Kind != "lit" })
		var extra []string
		for _, wn := range engine.SetDiff(ws, x.allow) {
			// a private helper called only from an allowed writer does not widen the table
			if wf := p.Func(wn); wf != nil && len(x.allow) > 0 && niPrivateCalledOnlyFrom(p, wf, x.allow, 2) {
				continue
			}
			extra = append(extra, wn)
		}
		c.Check("who-may-write", T+"PartSet."+x.name, token.NoPos, len(extra) == 0, "writers outside the table: "+join(extra))
	}
	// bit array mutators on the field only in AddPart
	var bitMut []string
	for _, f := range p.FuncsIn("tm2/pkg/bft/types") {
		for _, s := range f.CallsTo("tm2/pkg/bitarray.(*BitArray).SetIndex", "tm2/pkg/bitarray.(*BitArray).Update") {
			if niSelField(f.Info(), niRecvExpr(s.Call), fBits) && !niPrivateCalledOnlyFrom(p, f, []string{PS + "AddPart"}, 2) {
				bitMut = append(bitMut, f.Root().Name)
			}
		}
	}
	c.Check("who-may-write", T+"PartSet.partsBitArray bits", token.NoPos, len(bitMut) == 0, "bit mutators outside AddPart: "+join(bitMut))
	if f := c.MustFunc(PS + "BitArray"); f != nil {
		ok := false
		for _, r := range niReturns(f) {
			rs := r.Node.(*ast.ReturnStmt)
			if len(rs.Results) == 1 {
				if call, isCall := ast.Unparen(rs.Results[0]).(*ast.CallExpr); isCall && niCallee(f.Info(), call) == "tm2/pkg/bitarray.(*BitArray).Copy" {
					ok = true
				} else {
					ok = false
					break
				}
			}
		}
		c.Check("who-may-write", f.Name+" hands out a copy", f.Pos(), ok, "the internal bit array must not escape")
	}

	// (3) lower bound
	c39LowerBound(c, p, lowerInAdd, fIdx)

	// (4) split
	if f := c.MustFunc(T + "NewPartSetFromData"); f != nil {
		c39Split(c, p, f, fIdx, fBytes, fProof, fTotal, fHash, fParts, fCount)
	}

	// (5) reader
	c39Reader(c, p)
}

func c39IsSetHash(info *types.Info, e ast.Expr, recv types.Object, fHash *types.Var) bool {
	e = ast.Unparen(e)
	if niSelField(info, e, fHash) && niMentionsObj(info, e, recv) {
		return true
	}
	if call, ok := e.(*ast.CallExpr); ok && len(call.Args) == 0 && niCallee(info, call) == "tm2/pkg/bft/types.(*PartSet).Hash" {
		return engine.ObjOf(info, niRecvExpr(call)) == recv
	}
	return false
}

// niLocksFirst: <recv>.<mu>.Lock() dominates every other call of
// the body and the Unlock is deferred (a leading nil-receiver return is fine
// because it calls nothing).
func niLocksFirst(f *engine.Fn, mu string) (bool, string) { return locksFirst(f, mu) }

func c39LowerBound(c *engine.Ctx, p *engine.Prog, lowerInAdd bool, fIdx *types.Var) {
	const T = "tm2/pkg/bft/types."
	const C = "tm2/pkg/bft/consensus."
	const rule = "lower-bound"
	if lowerInAdd {
		c.Check(rule, T+"(*PartSet).AddPart rejects negative indices itself", token.NoPos, true, "part.Index >= 0 holds at the slot store")
		c.Floor(rule, 1, 1)
		return
	}
	n := 0
	// (a) Part.ValidateBasic
	if f := c.MustFunc(T + "(*Part).ValidateBasic"); f != nil {
		info := f.Info()
		g := f.Graph()
		recv := niRecv(f)
		for _, r := range niReturns(f) {
			if niLastResultNonNil(r.Node.(*ast.ReturnStmt)) {
				continue
			}
			n++
			ok := false
			for _, ft := range niFacts(g, r) {
				if cmp, isCmp := niAsCmp(ft); isCmp {
					for _, cm := range []niCmp{cmp, cmp.niFlip()} {
						if niSelField(info, cm.X, fIdx) && niMentionsObj(info, cm.X, recv) && cm.Op == token.GEQ && niIsZero(info, cm.Y) {
							ok = true
						}
					}
				}
			}
			c.Check(rule, f.Name+" accepts only Index >= 0", r.Pos(), ok, "every nil return must be on the false side of `part.Index < 0`")
		}
	}
	// (b) BlockPartMessage.ValidateBasic checks the part
	if f := c.MustFunc(C + "(*BlockPartMessage).ValidateBasic"); f != nil {
		g := f.Graph()
		vs := f.CallsTo(T + "(*Part).ValidateBasic")
		okAll := len(vs) == 1
		for _, r := range niReturns(f) {
			if niLastResultNonNil(r.Node.(*ast.ReturnStmt)) || len(vs) != 1 {
				continue
			}
			n++
			gr := g.CheckedGuard(vs[0], r)
			if !gr.OK || !c39NilTestPasses(gr) {
				okAll = false
			}
		}
		c.Check(rule, f.Name+" propagates Part.ValidateBasic", f.Pos(), okAll, "nil must be returned only when m.Part.ValidateBasic() returned nil")
	}
	// (c) reactor: checked ValidateBasic before every peer-queue send
	fQ := p.Field(C + "ConsensusState.peerMsgQueue")
	if fQ == nil {
		c.Undecided(rule, C+"ConsensusState.peerMsgQueue", "field not found")
		return
	}
	if f := c.MustFunc(C + "(*ConsensusReactor).Receive"); f != nil {
		info := f.Info()
		g := f.Graph()
		vs := f.CallsTo(C + "(ConsensusMessage).ValidateBasic")
		sends := 0
		engine.InspectBody(f, func(x ast.Node) {
			ss, ok := x.(*ast.SendStmt)
			if !ok || !niSelField(info, ss.Chan, fQ) {
				return
			}
			sends++
			n++
			s := f.SiteOf(ss)
			ok2 := false
			why := "no checked msg.ValidateBasic() dominates the send"
			if s != nil {
				for _, v := range vs {
					if gr := g.CheckedGuard(v, s); gr.OK {
						if c39NilTestPasses(gr) {
							ok2, why = true, "send reached only when ValidateBasic() returned nil"
						} else {
							why = "ValidateBasic result is tested by `" + engine.ExprString(gr.Cond) + "`, which lets invalid messages through"
						}
					}
				}
			}
			c.Check(rule, f.Name+" peer-queue send after checked ValidateBasic", ss.Pos(), ok2, why)
		})
		c.Floor(rule+" (reactor sends)", sends, 3)
	}
	// (d) who else feeds the peer queue / builds BlockPartMessage
	var senders []string
	seen := map[string]bool{}
	for _, f := range p.FuncsIn("tm2/pkg/bft/consensus") {
		engine.InspectBody(f, func(x ast.Node) {
			if ss, ok := x.(*ast.SendStmt); ok && niSelField(f.Info(), ss.Chan, fQ) && !seen[f.Root().Name] {
				seen[f.Root().Name] = true
				senders = append(senders, f.Root().Name)
			}
		})
	}
	allowed := []string{
		C + "(*ConsensusReactor).Receive",            // validated above
		C + "(*ConsensusState).AddVote",              // local API (tests, tooling): caller-supplied
		C + "(*ConsensusState).SetProposal",          // local API
		C + "(*ConsensusState).AddProposalBlockPart", // local API: parts come from NewPartSetFromData
	}
	extra := engine.SetDiff(senders, allowed)
	c.Check(rule, C+"ConsensusState.peerMsgQueue senders", token.NoPos, len(extra) == 0, "senders outside the frozen table: "+join(extra))
	c.Floor(rule, n, 5)
}

// c39NilTestPasses: the guard's condition is `err != nil` with the target on
// the false side, or `err == nil` with the target on the true side — nothing else.
func c39NilTestPasses(gr engine.GuardResult) bool {
	be, ok := ast.Unparen(gr.Cond).(*ast.BinaryExpr)
	if !ok || !isNil(be.Y) {
		return false
	}
	return (be.Op == token.NEQ && !gr.OnTrue) || (be.Op == token.EQL && gr.OnTrue)
}

func c39Split(c *engine.Ctx, p *engine.Prog, f *engine.Fn, fIdx, fBytes, fProof, fTotal, fHash, fParts, fCount *types.Var) {
	const rule = "split-form"
	info := f.Info()
	g := f.Graph()
	data, partSize := paramObj(f, 0), paramObj(f, 1)
	// total := (len(data) + partSize - 1) / partSize
	var total types.Object
	var partsObj, bytesObj types.Object
	// the Part literal
	var lit *ast.CompositeLit
	engine.InspectBody(f, func(x ast.Node) {
		if cl, ok := x.(*ast.CompositeLit); ok {
			if t := info.TypeOf(cl); t != nil && engine.TypeName(t) == "tm2/pkg/bft/types.Part" {
				lit = cl
			}
		}
	})
	// the literal may have been moved into a private constructor called from the split loop
	lfn := f
	var anchor ast.Node = lit
	var pm map[types.Object]types.Object
	if lit == nil {
		for _, cs := range f.Calls() {
			fo, _ := cs.Callee.(*types.Func)
			B := p.FnOf(fo)
			if B == nil || !niPrivateCalledOnlyFrom(p, B, []string{f.Name}, 1) {
				continue
			}
			var bl *ast.CompositeLit
			engine.InspectBody(B, func(x ast.Node) {
				if cl, ok := x.(*ast.CompositeLit); ok {
					if t := B.Info().TypeOf(cl); t != nil && engine.TypeName(t) == "tm2/pkg/bft/types.Part" {
						bl = cl
					}
				}
			})
			if bl == nil {
				continue
			}
			// B returns the address of that literal
			okRet := false
			for _, r := range niReturns(B) {
				rs := r.Node.(*ast.ReturnStmt)
				if len(rs.Results) != 1 {
					continue
				}
				e := ast.Unparen(rs.Results[0])
				if id, ok := e.(*ast.Ident); ok {
					if d := niSingleDef(B, B.Info().ObjectOf(id)); d != nil {
						e = ast.Unparen(d)
					}
				}
				if u, ok := e.(*ast.UnaryExpr); ok && u.Op == token.AND && ast.Unparen(u.X) == ast.Expr(bl) {
					okRet = true
				}
			}
			if okRet {
				lit, lfn, anchor, pm = bl, B, cs.Call, niParamMap(f, cs.Call, B)
			}
		}
	}
	if lit == nil {
		c.Undecided(rule, f.Name, "Part literal not found (in the function or in a private constructor it calls)")
		return
	}
	loops := niEnclosingLoops(f, anchor)
	var iv types.Object
	var bound ast.Expr
	if len(loops) > 0 {
		switch l := loops[len(loops)-1].(type) {
		case *ast.RangeStmt:
			iv, bound = engine.ObjOf(info, l.Key), l.X
		}
	}
	if iv == nil {
		c.Undecided(rule, f.Name, "chunk loop `for i := range total` not recognised")
		return
	}
	total = engine.ObjOf(info, bound)
	okTotal := false
	if d := niSingleDef(f, total); d != nil {
		// (len(data) + partSize - 1) / partSize
		if q, ok := ast.Unparen(d).(*ast.BinaryExpr); ok && q.Op == token.QUO && engine.ObjOf(info, q.Y) == partSize {
			if sub, ok := ast.Unparen(q.X).(*ast.BinaryExpr); ok && sub.Op == token.SUB {
				if v, isC := niIntVal(f, sub.Y, 0); isC && v == 1 {
					if add, ok := ast.Unparen(sub.X).(*ast.BinaryExpr); ok && add.Op == token.ADD {
						a, b := add.X, add.Y
						if engine.ObjOf(info, a) == partSize {
							a, b = b, a
						}
						okTotal = niIsLenOfObj(info, a, data) && engine.ObjOf(info, b) == partSize
					}
				}
			}
		}
	}
	c.Check(rule, f.Name+" total = ceil(len(data)/partSize)", f.Pos(), okTotal, "total must be (len(data)+partSize-1)/partSize")
	var okIdx, okChunk bool
	// objects as seen by the function that holds the literal
	outerInfo, outerIv, outerData, outerPS := info, iv, data, partSize
	if lfn != f {
		info = lfn.Info()
		iv, data, partSize = pm[outerIv], pm[outerData], pm[outerPS]
		if iv == nil || data == nil || partSize == nil {
			c.Undecided(rule, f.Name, "the part constructor does not receive data, index and part size as plain arguments")
			return
		}
	}
	for _, el := range lit.Elts {
		kv, ok := el.(*ast.KeyValueExpr)
		if !ok {
			continue
		}
		k := engine.ObjOf(info, kv.Key)
		if k == types.Object(fIdx) && engine.ObjOf(info, kv.Value) == iv {
			okIdx = true
		}
		if k == types.Object(fBytes) {
			se, ok := ast.Unparen(kv.Value).(*ast.SliceExpr)
			if !ok || engine.ObjOf(info, se.X) != data || se.Max != nil || se.Low == nil || se.High == nil {
				continue
			}
			isMul := func(e ast.Expr, plus1 bool) bool {
				m, ok := ast.Unparen(e).(*ast.BinaryExpr)
				if !ok || m.Op != token.MUL {
					return false
				}
				a, b := ast.Unparen(m.X), ast.Unparen(m.Y)
				if engine.ObjOf(info, a) == partSize {
					a, b = b, a
				}
				if engine.ObjOf(info, b) != partSize {
					return false
				}
				if !plus1 {
					return engine.ObjOf(info, a) == iv
				}
				s, ok := a.(*ast.BinaryExpr)
				if !ok || s.Op != token.ADD {
					return false
				}
				x, y := s.X, s.Y
				if engine.ObjOf(info, y) == iv {
					x, y = y, x
				}
				v, isC := niIntVal(lfn, y, 0)
				return engine.ObjOf(info, x) == iv && isC && v == 1
			}
			lowOK := isMul(se.Low, false)
			highOK := false
			if call, ok := ast.Unparen(se.High).(*ast.CallExpr); ok && engine.IsBuiltinCall(info, call, "min") && len(call.Args) == 2 {
				a, b := call.Args[0], call.Args[1]
				if isMul(a, true) {
					a, b = b, a
				}
				highOK = niIsLenOfObj(info, a, data) && isMul(b, true)
			}
			okChunk = lowOK && highOK
		}
	}
	c.Check(rule, f.Name+" part i has Index i", lit.Pos(), okIdx, "")
	c.Check(rule, f.Name+" chunk i = data[i*partSize : min(len(data),(i+1)*partSize)]", lit.Pos(), okChunk, "consecutive, non-overlapping, complete chunks")
	// parts[i] = part ; leaves[i] = part.Bytes ; root, proofs := SimpleProofsFromByteSlices(leaves) ; parts[i].Proof = *proofs[i]
	info, iv, data, partSize = outerInfo, outerIv, outerData, outerPS
	var partVar types.Object
	if as, ok := f.SiteOf(anchor).Top.(*ast.AssignStmt); ok && len(as.Lhs) == 1 {
		partVar = engine.ObjOf(info, as.Lhs[0])
	}
	engine.InspectBody(f, func(x ast.Node) {
		as, ok := x.(*ast.AssignStmt)
		if !ok || len(as.Lhs) != 1 || len(as.Rhs) != 1 {
			return
		}
		ix, ok := ast.Unparen(as.Lhs[0]).(*ast.IndexExpr)
		if !ok || engine.ObjOf(info, ix.Index) != iv {
			return
		}
		if engine.ObjOf(info, as.Rhs[0]) == partVar && partVar != nil {
			partsObj = engine.ObjOf(info, ix.X)
		}
		if niSelField(info, as.Rhs[0], fBytes) && niMentionsObj(info, as.Rhs[0], partVar) {
			bytesObj = engine.ObjOf(info, ix.X)
		}
	})
	ps, objs := niBoundCall(f, "tm2/pkg/crypto/merkle.SimpleProofsFromByteSlices")
	okRoot := ps != nil && len(objs) == 2 && bytesObj != nil && len(ps.Call.Args) == 1 && engine.ObjOf(info, ps.Call.Args[0]) == bytesObj
	c.Check(rule, f.Name+" proofs computed over the chunks", f.Pos(), okRoot && partsObj != nil, "SimpleProofsFromByteSlices must receive exactly the slice holding part.Bytes at index i")
	okProof := false
	if okRoot {
		for _, w := range p.FieldWrites(fProof) {
			if w.Fn != f || w.Kind == "lit" {
				continue
			}
			as, ok := w.Node.(*ast.AssignStmt)
			if !ok || len(as.Lhs) != 1 || len(as.Rhs) != 1 {
				continue
			}
			ls, ok := ast.Unparen(as.Lhs[0]).(*ast.SelectorExpr)
			if !ok {
				continue
			}
			li, ok := ast.Unparen(ls.X).(*ast.IndexExpr)
			if !ok || engine.ObjOf(info, li.X) != partsObj {
				continue
			}
			rv := ast.Unparen(as.Rhs[0])
			if st, ok := rv.(*ast.StarExpr); ok {
				rv = ast.Unparen(st.X)
			}
			ri, ok := rv.(*ast.IndexExpr)
			if !ok || engine.ObjOf(info, ri.X) != objs[1] {
				continue
			}
			a, b := engine.ObjOf(info, li.Index), engine.ObjOf(info, ri.Index)
			if a != nil && a == b {
				if s := f.SiteOf(as); s != nil && g.Dominates(ps, s) {
					okProof = true
				}
			}
		}
	}
	c.Check(rule, f.Name+" part i carries proof i", f.Pos(), okProof, "parts[i].Proof = *proofs[i] with the same index")
	// returned literal
	okLit := false
	engine.InspectBody(f, func(x ast.Node) {
		cl, ok := x.(*ast.CompositeLit)
		if !ok {
			return
		}
		if t := info.TypeOf(cl); t == nil || engine.TypeName(t) != "tm2/pkg/bft/types.PartSet" {
			return
		}
		got := map[*types.Var]types.Object{}
		for _, el := range cl.Elts {
			if kv, ok := el.(*ast.KeyValueExpr); ok {
				if k, ok := engine.ObjOf(info, kv.Key).(*types.Var); ok {
					got[k] = engine.ObjOf(info, kv.Value)
				}
			}
		}
		okLit = okRoot && got[fTotal] == total && got[fCount] == total && got[fHash] == objs[0] && got[fParts] == partsObj && total != nil
	})
	c.Check(rule, f.Name+" set = {total, hash: merkle root, parts, count: total}", f.Pos(), okLit, "")
	c.Floor(rule, 6, 6)
}

func c39Reader(c *engine.Ctx, p *engine.Prog) {
	const T = "tm2/pkg/bft/types."
	const rule = "reader-order"
	fI := p.Field(T + "PartSetReader.i")
	fP := p.Field(T + "PartSetReader.parts")
	fB := p.Field(T + "Part.Bytes")
	fParts := p.Field(T + "PartSet.parts")
	if fI == nil || fP == nil {
		c.Undecided(rule, T+"PartSetReader", "fields not found")
		return
	}
	// writers of i
	n := 0
	for _, w := range p.FieldWrites(fI) {
		n++
		root := w.Fn.Root().Name
		switch w.Kind {
		case "lit":
			kv := w.Node.(*ast.KeyValueExpr)
			c.Check(rule, root+" starts at part 0", w.Node.Pos(), niIsZero(w.Fn.Info(), kv.Value), "")
		case "incdec":
			inc := w.Node.(*ast.IncDecStmt)
			c.Check(rule, root+" advances by one", w.Node.Pos(), inc.Tok == token.INC && root == T+"(*PartSetReader).Read", "")
		default:
			c.Check(rule, root+" advances by one", w.Node.Pos(), false, "cursor modified by "+w.Kind+" (must be ++ only)")
		}
	}
	c.Floor(rule, n, 2)
	// every bytes.NewReader in the reader is over parts[cursor].Bytes
	for _, name := range []string{T + "NewPartSetReader", T + "(*PartSetReader).Read"} {
		f := c.MustFunc(name)
		if f == nil {
			continue
		}
		info := f.Info()
		rs := f.CallsTo("bytes.NewReader")
		c.Floor(rule+" "+name, len(rs), 1)
		for _, s := range rs {
			ok := false
			if len(s.Call.Args) == 1 && niSelField(info, s.Call.Args[0], fB) {
				if ix, isIx := ast.Unparen(ast.Unparen(s.Call.Args[0]).(*ast.SelectorExpr).X).(*ast.IndexExpr); isIx {
					if name == T+"NewPartSetReader" {
						ok = engine.ObjOf(info, ix.X) == paramObj(f, 0) && niIsZero(info, ix.Index)
					} else {
						ok = niSelField(info, ix.X, fP) && niSelField(info, ix.Index, fI)
					}
				}
			}
			c.Check(rule, name+" reads parts[cursor].Bytes", s.Pos(), ok, "")
			if name == T+"(*PartSetReader).Read" {
				// the switch to the next part is gated by cursor < len(parts)
				okB := false
				for _, ft := range niFacts(f.Graph(), s) {
					if cmp, isCmp := niAsCmp(ft); isCmp {
						for _, cm := range []niCmp{cmp, cmp.niFlip()} {
							if niSelField(info, cm.X, fI) && cm.Op == token.LSS && niIsLenOfField(info, cm.Y, fP) {
								okB = true
							}
						}
					}
				}
				c.Check(rule, name+" next part only while cursor < len(parts)", s.Pos(), okB, "")
			}
		}
	}
	// GetReader only for a complete set, over the set's parts
	if f := c.MustFunc(T + "(*PartSet).GetReader"); f != nil {
		info := f.Info()
		g := f.Graph()
		ns := f.CallsTo(T + "NewPartSetReader")
		c.Floor(rule+" GetReader", len(ns), 1)
		for _, s := range ns {
			ok := false
			for _, ft := range niFacts(g, s) {
				if call, isCall := ast.Unparen(ft.Expr).(*ast.CallExpr); isCall && ft.Holds && niCallee(info, call) == T+"(*PartSet).IsComplete" {
					ok = true
				}
			}
			c.Check(rule, f.Name+" only for a complete set", s.Pos(), ok, "NewPartSetReader must be reached only when ps.IsComplete()")
			c.Check(rule, f.Name+" over the set's parts", s.Pos(), len(s.Call.Args) == 1 && niSelField(info, s.Call.Args[0], fParts), "")
		}
	}
	if f := c.MustFunc(T + "(*PartSet).IsComplete"); f != nil {
		info := f.Info()
		ok := false
		fc, ft := p.Field(T+"PartSet.count"), p.Field(T+"PartSet.total")
		for _, r := range niReturns(f) {
			rs := r.Node.(*ast.ReturnStmt)
			if len(rs.Results) == 1 {
				if be, isB := ast.Unparen(rs.Results[0]).(*ast.BinaryExpr); isB && be.Op == token.EQL && ((niSelField(info, be.X, fc) && niSelField(info, be.Y, ft)) || (niSelField(info, be.X, ft) && niSelField(info, be.Y, fc))) {
					ok = true
				}
			}
		}
		c.Check(rule, f.Name+" is count == total", f.Pos(), ok, "")
	}
}
