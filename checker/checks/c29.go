package checks

import (
	"go/ast"
	"go/token"
	"go/types"
	"strings"

	"gnoverif/engine"
)

// C29 — all database backends implement the same key-value semantics.
func init() {
	register("C29", c29)
	meta("C29", Meta{
		Text:      "Decides the contract-level normalisations that every tm2/pkg/db backend (memdb, goleveldb, pebbledb, boltdb) and wrapper (PrefixDB, ImmutableDB, SnapshotDB, CollectingDB) must apply uniformly: (a) keys/values are passed through NonNilBytes (bolt: nonEmptyKey) before they reach the engine, in every point operation and batch Set, directly or by delegation to a sibling method that does; values staged by CollectingDB are copied with a nil-preserving-as-non-nil copy; (b) SetSync/DeleteSync/WriteSync pass the engine's sync option; (c) values and keys returned by Get and by iterators are copies (or come from an engine call documented to return a copy), never the engine's/internal buffer; (d) iterator Valid() tests end exclusively (forward) and start inclusively (reverse), Next() moves in the iterator's direction, Iterator/ReverseIterator differ only in the direction flag; (e) the engine's batch-commit call is reachable only from Write/WriteSync; (f) PrefixDB prefixes every key and range it forwards with the same operation, read-only wrappers cannot write. Level 'other'.",
		Note:      "Not covered: the engines themselves (ordering, snapshot isolation, atomicity), bolt's empty-key substitution quirk, cgo backends (lmdb/mdbx not analysed: build-tagged), batch Delete key normalisation in goleveldb/pebble (nil and empty keys encode identically there).",
		Technique: "sibling-agreement over interface implementers, parameter-use/def-use provenance, comparison-operator tables, who-may-call on engine functions",
		Ref:       "DESIGN.md §2 C29",
	})
	const md = "tm2/pkg/db/memdb/mem_db.go"
	const ld = "tm2/pkg/db/goleveldb/go_level_db.go"
	const pd = "tm2/pkg/db/pebbledb/pebbledb.go"
	const bd = "tm2/pkg/db/boltdb/boltdb.go"
	mutants("C29",
		Mutant{"memdb-get-returns-stored-slice", md, "return cloneValue(db.db[string(key)]), nil", "return db.db[string(key)], nil", "no-alias"},
		Mutant{"memsnapshot-get-returns-stored-slice", md, "return cloneValue(s.db[string(key)]), nil", "return s.db[string(key)], nil", "no-alias"},
		Mutant{"collecting-set-nil-collapsing-copy", "tm2/pkg/db/collecting.go", "k, v := cp(key), cp(value)\n\tc.mu.Lock()", "k, v := cp(key), append([]byte(nil), value...)\n\tc.mu.Lock()", "nonnil-value"},
		Mutant{"memdb-nil-value-stored", md, "\tvalue = internal.NonNilBytes(value)\n", "", "nonnil"},
		Mutant{"leveldb-setsync-not-synced", ld, "return db.db.Put(key, value, &opt.WriteOptions{Sync: true})", "return db.db.Put(key, value, nil)", "sync-opt"},
		Mutant{"pebble-deletesync-not-synced", pd, "return pdb.db.Delete(key, pebble.Sync)", "return pdb.db.Delete(key, pebble.NoSync)", "sync-opt"},
		Mutant{"pebble-get-returns-engine-buffer", pd, "copy(out, res)\n\treturn out, nil\n}\n\n// Implements DB.\nfunc (pdb *PebbleDB) Has", "copy(out, res)\n\treturn res, nil\n}\n\n// Implements DB.\nfunc (pdb *PebbleDB) Has", "no-alias"},
		Mutant{"bolt-iter-value-tx-buffer", bd, "value = slices.Clone(itr.currentValue)", "value = itr.currentValue", "no-alias"},
		Mutant{"leveldb-end-inclusive", ld, "if end != nil && bytes.Compare(end, key) <= 0 {", "if end != nil && bytes.Compare(end, key) < 0 {", "iter-bounds"},
		Mutant{"pebble-start-exclusive", pd, "if start != nil && bytes.Compare(key, start) < 0 {", "if start != nil && bytes.Compare(key, start) <= 0 {", "iter-bounds"},
		Mutant{"bolt-reverse-walks-forward", bd, "itr.currentKey, itr.currentValue = itr.itr.Prev()\n\t} else {\n\t\titr.currentKey, itr.currentValue = itr.itr.Next()", "itr.currentKey, itr.currentValue = itr.itr.Next()\n\t} else {\n\t\titr.currentKey, itr.currentValue = itr.itr.Prev()", "iter-bounds"},
		Mutant{"pebble-close-commits", pd, "func (mBatch *pebbleDBBatch) Close() error {\n\treturn mBatch.batch.Close()", "func (mBatch *pebbleDBBatch) Close() error {\n\t_ = mBatch.batch.Commit(pebble.NoSync)\n\treturn mBatch.batch.Close()", "batch-commit"},
		Mutant{"prefixdb-delete-unprefixed", "tm2/pkg/db/prefix_db.go", "return pdb.db.Delete(pdb.prefixed(key))", "return pdb.db.Delete(key)", "wrapper"},
		Mutant{"immutable-set-passthrough", "tm2/pkg/db/immutable.go", "panic(\"Cannot mutate *ImmutableDB by calling .Set()\")", "return idb.db.Set(key, value)", "wrapper"},
	)
}

const c29DB = "tm2/pkg/db"

func c29(c *engine.Ctx) {
	c.Explain = "Uniform contract-level normalisations across DB backends and wrappers (see manifest text): NonNilBytes on keys/values, sync options, copies on return, iterator bound/direction tables, engine commit only from Write/WriteSync, prefix layering and read-only wrappers. Not covered: engines themselves, bolt empty-key quirk, cgo backends, snapshot isolation."
	p := c.Load(c29DB, c29DB+"/internal", c29DB+"/memdb", c29DB+"/goleveldb", c29DB+"/pebbledb", c29DB+"/boltdb")
	if p == nil {
		return
	}
	c29NonNil(c, p)
	c29Sync(c, p)
	c29NoAlias(c, p)
	c29IterBounds(c, p)
	c29BatchCommit(c, p)
	c29Wrappers(c, p)
}

type c29Backend struct{ pkg, db, batch, iter, snap string }

var c29Backends = []c29Backend{
	{c29DB + "/memdb", "MemDB", "", "", "memSnapshot"},
	{c29DB + "/goleveldb", "GoLevelDB", "goLevelDBBatch", "goLevelDBIterator", ""},
	{c29DB + "/pebbledb", "PebbleDB", "pebbleDBBatch", "pebbleDBIterator", "pebbleSnapshot"},
	{c29DB + "/boltdb", "BoltDB", "boltDBBatch", "boltDBIterator", ""},
}

const c29NonNilFn = c29DB + "/internal.NonNilBytes"

// c29ParamNormalised: every use of the []byte parameter `obj` in f is inside
// a NonNilBytes(...) call, after a dominating `obj = …NonNilBytes(obj)…`, an
// argument of len(), or an argument handed to a sibling method of the same
// receiver type (returned in delegates for recursive checking).
func c29ParamNormalised(f *engine.Fn, obj types.Object) (ok bool, why string, delegates []*types.Func) {
	info := f.Info()
	par := sfParents(f.Body)
	var norm *engine.Site
	engine.InspectBody(f, func(x ast.Node) {
		as, isAs := x.(*ast.AssignStmt)
		if !isAs || len(as.Lhs) != 1 || len(as.Rhs) != 1 || engine.ObjOf(info, as.Lhs[0]) != obj {
			return
		}
		has := false
		ast.Inspect(as.Rhs[0], func(y ast.Node) bool {
			if cl, isC := y.(*ast.CallExpr); isC && sfCallee(info, cl) == c29NonNilFn && len(cl.Args) == 1 && engine.ObjOf(info, cl.Args[0]) == obj {
				has = true
			}
			return true
		})
		if has && norm == nil {
			norm = f.SiteOf(as)
		}
	})
	recvT := types.Type(nil)
	if r := sfRecvObj(f); r != nil {
		recvT = r.Type()
	}
	uses := 0
	for _, body := range append([]*engine.Fn{f}, f.AllLits()...) {
		ast.Inspect(body.Body, func(x ast.Node) bool {
			id, isId := x.(*ast.Ident)
			if !isId || info.Uses[id] != obj {
				return true
			}
			uses++
			if as, isAs := par[id].(*ast.AssignStmt); isAs && len(as.Lhs) == 1 && as.Lhs[0] == ast.Expr(id) {
				return true // assignment target
			}
			// inside NonNilBytes(...)?
			for up := par[id]; up != nil; up = par[up] {
				if cl, isC := up.(*ast.CallExpr); isC {
					cn := sfCallee(info, cl)
					if cn == c29NonNilFn || cn == "builtin.len" {
						return true
					}
					// delegation: direct argument of a method on the same receiver type
					if fn, isFn := engine.ObjOf(info, cl.Fun).(*types.Func); isFn && recvT != nil {
						if sig := fn.Type().(*types.Signature); sig.Recv() != nil && types.Identical(sig.Recv().Type(), recvT) {
							for _, a := range cl.Args {
								if ast.Unparen(a) == ast.Expr(id) {
									delegates = append(delegates, fn)
									return true
								}
							}
						}
					}
					break
				}
				if _, isStmt := up.(ast.Stmt); isStmt {
					break
				}
			}
			if norm != nil && body == f {
				if st := f.SiteOf(id); st != nil && f.Graph().Dominates(norm, st) && st.Top != norm.Top {
					return true
				}
			}
			if norm != nil && body != f {
				// use inside a closure created after the normalisation
				if st := f.SiteOf(body.Lit); st != nil && f.Graph().Dominates(norm, st) {
					return true
				}
			}
			ok = false
			why = "parameter " + obj.Name() + " reaches `" + engine.ExprString(c29EnclosingExpr(par, id)) + "` without NonNilBytes"
			return true
		})
	}
	if why != "" {
		return false, why, delegates
	}
	return true, "", delegates
}

func c29EnclosingExpr(par map[ast.Node]ast.Node, n ast.Node) ast.Expr {
	var best ast.Expr
	for up := n; up != nil; up = par[up] {
		if e, ok := up.(ast.Expr); ok {
			best = e
		}
		if _, ok := up.(ast.Stmt); ok {
			break
		}
	}
	return best
}

func c29NonNil(c *engine.Ctx, p *engine.Prog) {
	n := 0
	seen := map[string]bool{}
	var check func(f *engine.Fn)
	check = func(f *engine.Fn) {
		if f == nil || seen[f.Name] {
			return
		}
		seen[f.Name] = true
		for i := 0; ; i++ {
			obj := paramObj(f, i)
			if obj == nil {
				break
			}
			if engine.TypeName(obj.Type()) != "[]byte" || obj.Name() == "_" {
				continue
			}
			if len(sfUsesOf(f, obj)) == 0 && len(f.AllLits()) == 0 {
				continue
			}
			ok, why, dels := c29ParamNormalised(f, obj)
			n++
			c.Check("nonnil", f.Name+" "+obj.Name(), f.Pos(), ok, why)
			for _, d := range dels {
				check(p.FnOf(d))
			}
		}
	}
	for _, b := range c29Backends {
		for _, m := range []string{"Get", "Has", "Set", "SetSync", "Delete", "DeleteSync"} {
			check(sfMethod(c, b.pkg, b.db, m))
		}
		if b.snap != "" {
			check(sfMethod(c, b.pkg, b.snap, "Get"))
		}
	}
	// batch Set: inline normalisation (goleveldb, pebble) …
	for _, b := range c29Backends[1:3] {
		check(sfMethod(c, b.pkg, b.batch, "Set"))
	}
	c.Floor("nonnil", n, 34)
	// … or at flush time for batches that stage raw operations (bolt; MemBatch forwards to the DB's SetNoLock which is checked above)
	k := 0
	if f := sfMethod(c, c29DB+"/boltdb", "boltDBBatch", "Write"); f != nil {
		for _, lit := range f.AllLits() {
			info := lit.Info()
			for _, s := range lit.CallsTo("go.etcd.io/bbolt.(*Bucket).Put") {
				keyOK := sfDerives(lit, s.Call.Args[0], func(e ast.Expr) bool {
					cl, ok := sfIsCallTo(info, e, c29DB+"/boltdb.nonEmptyKey")
					if !ok {
						return false
					}
					_, in := sfIsCallTo(info, cl.Args[0], c29NonNilFn)
					return in
				}, 2)
				_, valOK := sfIsCallTo(info, s.Call.Args[1], c29NonNilFn)
				k++
				c.Check("nonnil", f.Name+" Put(key,value) normalised at flush", s.Pos(), keyOK && valOK, "staged operations must be normalised (nonEmptyKey(NonNilBytes(key)), NonNilBytes(value)) when written")
			}
		}
	}
	if f := sfMethod(c, c29DB+"/internal", "MemBatch", "write"); f != nil {
		sets := f.CallsTo(c29DB+"/internal.(AtomicSetDeleter).SetNoLock", c29DB+"/internal.(AtomicSetDeleter).SetNoLockSync")
		k++
		c.Check("nonnil", f.Name+" forwards staged sets to the DB's normalising setter", f.Pos(), len(sets) == 2, "")
	}
	c.Floor("nonnil-flush", k, 2)
	// CollectingDB: values that Get can hand back must be staged non-nil
	v := 0
	okAll := true
	for _, f := range p.FuncsIn(c29DB) {
		info := f.Info()
		engine.InspectBody(f, func(x ast.Node) {
			cl, isCL := x.(*ast.CompositeLit)
			if !isCL {
				return
			}
			t := info.TypeOf(cl)
			if t == nil || engine.TypeName(t) != c29DB+".collectOp" {
				return
			}
			for _, el := range cl.Elts {
				kv, isKV := el.(*ast.KeyValueExpr)
				if !isKV {
					continue
				}
				if id, isId := kv.Key.(*ast.Ident); !isId || id.Name != "val" {
					continue
				}
				good := sfDerives(f, kv.Value, func(e ast.Expr) bool {
					_, a := sfIsCallTo(info, e, c29DB+".cp")
					_, b := sfIsCallTo(info, e, c29NonNilFn)
					return a || b
				}, 2)
				v++
				if !good {
					okAll = false
				}
				c.Check("nonnil-value", f.Root().Name+" value", kv.Pos(), good, "a staged value must be copied with cp()/NonNilBytes (never nil for a Set): CollectingDB.Get returns it and nil means absent")
			}
		})
	}
	_ = okAll
	c.Floor("nonnil-value", v, 2)
}

func c29Sync(c *engine.Ctx, p *engine.Prog) {
	n := 0
	// goleveldb: last argument is &opt.WriteOptions{Sync: true}
	for _, tc := range []struct{ typ, m, engine string }{
		{"GoLevelDB", "SetSync", "github.com/syndtr/goleveldb/leveldb.(*DB).Put"},
		{"GoLevelDB", "DeleteSync", "github.com/syndtr/goleveldb/leveldb.(*DB).Delete"},
		{"goLevelDBBatch", "WriteSync", "github.com/syndtr/goleveldb/leveldb.(*DB).Write"},
	} {
		f := sfMethod(c, c29DB+"/goleveldb", tc.typ, tc.m)
		if f == nil {
			continue
		}
		ss := f.CallsTo(tc.engine)
		if len(ss) == 0 {
			for _, d := range sfDeepCallsTo(f, 2, tc.engine) {
				ss = append(ss, d.site) // engine call moved into a private helper
			}
		}
		ok := len(ss) == 1
		if ok {
			ok = false
			f := ss[0].Fn
			a := ss[0].Call.Args[len(ss[0].Call.Args)-1]
			if id, isId := ast.Unparen(a).(*ast.Ident); isId {
				if d := sfSingleDef(f, f.Info().ObjectOf(id)); d != nil {
					a = d // hoisted `wo := &opt.WriteOptions{Sync: true}`
				}
			}
			if u, isU := ast.Unparen(a).(*ast.UnaryExpr); isU && u.Op == token.AND {
				if cl, isCL := u.X.(*ast.CompositeLit); isCL {
					for _, el := range cl.Elts {
						if kv, isKV := el.(*ast.KeyValueExpr); isKV {
							if id, isId := kv.Key.(*ast.Ident); isId && id.Name == "Sync" {
								if v, isC := sfConstBool(f.Info(), kv.Value); isC && v {
									ok = true
								}
							}
						}
					}
				}
			}
		}
		n++
		c.Check("sync-opt", f.Name, f.Pos(), ok, "the engine call must receive &opt.WriteOptions{Sync: true}")
	}
	for _, tc := range []struct{ typ, m, engine string }{
		{"PebbleDB", "SetSync", "github.com/cockroachdb/pebble.(*DB).Set"},
		{"PebbleDB", "DeleteSync", "github.com/cockroachdb/pebble.(*DB).Delete"},
		{"pebbleDBBatch", "WriteSync", "github.com/cockroachdb/pebble.(*Batch).Commit"},
	} {
		f := sfMethod(c, c29DB+"/pebbledb", tc.typ, tc.m)
		if f == nil {
			continue
		}
		ss := f.CallsTo(tc.engine)
		ok := len(ss) == 1
		if ok {
			la := ss[0].Call.Args[len(ss[0].Call.Args)-1]
			if id, isId := ast.Unparen(la).(*ast.Ident); isId {
				if d := sfSingleDef(f, f.Info().ObjectOf(id)); d != nil {
					la = d
				}
			}
			o := engine.ObjOf(f.Info(), la)
			ok = o != nil && o.Pkg() != nil && o.Pkg().Path() == "github.com/cockroachdb/pebble" && o.Name() == "Sync"
		}
		n++
		c.Check("sync-opt", f.Name, f.Pos(), ok, "the engine call must receive pebble.Sync")
	}
	// bolt: every write is a synchronous Update/Batch transaction; the sync variants delegate to the plain ones
	for _, tc := range []struct{ typ, m, to string }{{"BoltDB", "SetSync", "Set"}, {"BoltDB", "DeleteSync", "Delete"}, {"boltDBBatch", "WriteSync", "Write"}} {
		f := sfMethod(c, c29DB+"/boltdb", tc.typ, tc.m)
		if f == nil {
			continue
		}
		ss := f.Calls()
		n++
		c.Check("sync-opt", f.Name, f.Pos(), len(ss) == 1 && strings.HasSuffix(ss[0].CalleeName(), "."+tc.to), "must delegate to "+tc.to+" (a bbolt Update/Batch transaction, always synced)")
	}
	c.Floor("sync-opt", n, 9)
}

// c29IsCopy: e is nil, a fresh copy, or the result of a call known to return a copy.
func c29IsCopy(p *engine.Prog, f *engine.Fn, e ast.Expr, depth int) bool {
	info := f.Info()
	pred := func(x ast.Expr) bool {
		x = ast.Unparen(x)
		if isNil(x) {
			return true
		}
		cl, ok := x.(*ast.CallExpr)
		if !ok {
			return false
		}
		// conversion []byte(string)
		if tv, isT := info.Types[cl.Fun]; isT && tv.IsType() && len(cl.Args) == 1 {
			if b, isB := info.TypeOf(cl.Args[0]).Underlying().(*types.Basic); isB && b.Info()&types.IsString != 0 {
				return true
			}
			return false
		}
		cn := sfCallee(info, cl)
		switch cn {
		case "builtin.make", "slices.Clone", "bytes.Clone", c29DB + ".cp",
			"github.com/syndtr/goleveldb/leveldb.(*DB).Get",                                                        // documented: "The returned slice is its own copy"
			c29DB + ".(DB).Get", c29DB + ".(Snapshot).Get", c29DB + ".(Iterator).Key", c29DB + ".(Iterator).Value": // delegation to a checked sibling
			return true
		case "builtin.append":
			// append([]byte{}, x...) / append([]byte(nil), x...)
			if _, isLit := ast.Unparen(cl.Args[0]).(*ast.CompositeLit); isLit {
				return true
			}
			return false
		}
		// in-module helper whose every return is a copy (e.g. cloneValue, stripPrefix of a copy)
		if depth > 0 {
			if fn, isFn := engine.ObjOf(info, cl.Fun).(*types.Func); isFn {
				if hf := p.FnOf(fn); hf != nil && hf != f {
					good := len(sfReturns(hf)) > 0
					for _, r := range sfReturns(hf) {
						if len(r.Results) < 1 || !c29IsCopyOrSub(p, hf, r.Results[0], depth-1, cl) {
							good = false
						}
					}
					return good
				}
			}
		}
		return false
	}
	return sfDerives(f, e, pred, 2)
}

// c29IsCopyOrSub additionally accepts, inside a helper, a sub-slice of a
// parameter when the corresponding argument at the call site is itself a copy
// (stripPrefix(source.Key(), prefix)).
func c29IsCopyOrSub(p *engine.Prog, hf *engine.Fn, e ast.Expr, depth int, site *ast.CallExpr) bool {
	if c29IsCopy(p, hf, e, depth) {
		return true
	}
	if sl, ok := ast.Unparen(e).(*ast.SliceExpr); ok {
		for i := range site.Args {
			if sfIsParam(hf, sl.X, i) {
				return true // caller-side provenance is checked by the caller rule on the argument
			}
		}
	}
	return false
}

func c29NoAlias(c *engine.Ctx, p *engine.Prog) {
	n := 0
	checkRet := func(f *engine.Fn, label string) {
		if f == nil {
			return
		}
		ok, why := true, ""
		res := sfNamedResult(f, 0)
		nret := 0
		for _, r := range sfReturns(f) {
			nret++
			if len(r.Results) == 0 {
				continue // bare return: named result checked below
			}
			e := r.Results[0]
			// helper call whose sub-slice argument must itself be a copy
			if cl, isC := ast.Unparen(e).(*ast.CallExpr); isC {
				if fn, isFn := engine.ObjOf(f.Info(), cl.Fun).(*types.Func); isFn && p.FnOf(fn) != nil && len(cl.Args) > 0 {
					if !c29IsCopy(p, f, cl.Args[0], 1) && !c29IsCopy(p, f, e, 1) {
						ok, why = false, "`"+engine.ExprString(e)+"` is not a copy"
					} else if !c29IsCopy(p, f, e, 1) {
						ok, why = false, "`"+engine.ExprString(e)+"` is not a copy"
					}
					continue
				}
			}
			if !c29IsCopy(p, f, e, 1) {
				ok, why = false, "returns `"+engine.ExprString(e)+"`, which is not provably a copy (engine/internal buffer?)"
			}
		}
		if res != nil {
			// every assignment to the named result, in f and its closures
			for _, body := range append([]*engine.Fn{f}, f.AllLits()...) {
				ast.Inspect(body.Body, func(x ast.Node) bool {
					as, isAs := x.(*ast.AssignStmt)
					if !isAs {
						return true
					}
					for i, l := range as.Lhs {
						if engine.ObjOf(f.Info(), l) == res && len(as.Rhs) == len(as.Lhs) {
							if !c29IsCopy(p, body, as.Rhs[i], 1) {
								ok, why = false, "result assigned `"+engine.ExprString(as.Rhs[i])+"`, not a copy"
							}
						}
					}
					return true
				})
			}
		}
		n++
		c.Check("no-alias", label, f.Pos(), ok && nret > 0, why)
	}
	for _, b := range c29Backends {
		f := sfMethod(c, b.pkg, b.db, "Get")
		if f != nil {
			checkRet(f, f.Name)
		}
		if b.snap != "" {
			if g := sfMethod(c, b.pkg, b.snap, "Get"); g != nil {
				checkRet(g, g.Name)
			}
		}
		if b.iter != "" {
			for _, m := range []string{"Key", "Value"} {
				if g := sfMethod(c, b.pkg, b.iter, m); g != nil {
					checkRet(g, g.Name)
				}
			}
		}
	}
	for _, m := range []string{"Key", "Value"} {
		if g := sfMethod(c, c29DB+"/internal", "MemIterator", m); g != nil {
			checkRet(g, g.Name)
		}
		if g := sfMethod(c, c29DB, "prefixIterator", m); g != nil {
			checkRet(g, g.Name)
		}
	}
	c.Floor("no-alias", n, 16)
}

func c29IterBounds(c *engine.Ctx, p *engine.Prog) {
	n := 0
	for _, b := range c29Backends[1:] {
		f := sfMethod(c, b.pkg, b.iter, "Valid")
		if f == nil {
			continue
		}
		// Every comparison of the current key with a bound, in Valid or in helpers it calls,
		// judged by the facts (direction) that hold where it is evaluated. Strictness is what
		// matters: forward  key >= end  (invalid) / key < end  (valid);
		//          reverse  key <  start (invalid) / key >= start (valid).
		isRevF := func(cx *sfCtx, e ast.Expr) bool {
			fld := sfSelField(cx.fn.Info(), e)
			return fld != nil && fld.Name() == "isReverse"
		}
		isFld := func(cx *sfCtx, e ast.Expr, name string) bool {
			return sfOperandIs(cx, e, func(c2 *sfCtx, x ast.Expr) bool {
				fld := sfSelField(c2.fn.Info(), x)
				return fld != nil && fld.Name() == name
			})
		}
		isKey := func(cx *sfCtx, e ast.Expr) bool {
			return sfOperandIs(cx, e, func(c2 *sfCtx, x ast.Expr) bool {
				if fld := sfSelField(c2.fn.Info(), x); fld != nil && fld.Name() == "currentKey" {
					return true
				}
				cl, ok := ast.Unparen(x).(*ast.CallExpr)
				return ok && strings.HasSuffix(sfCallee(c2.fn.Info(), cl), ".Key")
			})
		}
		fwd, rev := 0, 0
		stopSelf := func(nm string) bool {
			return strings.HasSuffix(nm, ".assertNoError") || strings.HasSuffix(nm, ".assertIsValid")
		}
		for _, cx := range sfCtxs(sfRoot(f), 2, stopSelf) {
			info := cx.fn.Info()
			cx := cx
			engine.InspectBody(cx.fn, func(x ast.Node) {
				be, isB := x.(*ast.BinaryExpr)
				if !isB {
					return
				}
				a, bb, op, isC := sfCmp(be)
				if !isC {
					return
				}
				if k, isK := sfConstInt(info, bb); !isK || k != 0 {
					return
				}
				if id, isId := ast.Unparen(a).(*ast.Ident); isId {
					if d := sfSingleDef(cx.fn, info.ObjectOf(id)); d != nil {
						a = d // hoisted comparison result
					}
				}
				cl, isCall := sfIsCallTo(info, a, "bytes.Compare")
				if !isCall {
					return
				}
				st := cx.fn.SiteOf(be)
				if st == nil {
					return
				}
				x0, x1 := cl.Args[0], cl.Args[1]
				var bound string
				switch {
				case isKey(cx, x0) && isFld(cx, x1, "start"):
					bound = "start"
				case isKey(cx, x0) && isFld(cx, x1, "end"):
					bound = "end"
				case isFld(cx, x0, "start") && isKey(cx, x1):
					bound, op = "start", engine.Flip(op)
				case isFld(cx, x0, "end") && isKey(cx, x1):
					bound, op = "end", engine.Flip(op)
				default:
					return
				}
				facts := sfFactsAt(cx, st)
				reverse, forward := sfKnown(facts, true, isRevF), sfKnown(facts, false, isRevF)
				n++
				switch {
				case reverse == forward:
					c.Check("iter-bounds", f.Name+" bound test with unknown direction", be.Pos(), false, "a key/bound comparison must be specific to one direction (isReverse known)")
				case reverse:
					rev++
					c.Check("iter-bounds", f.Name+" reverse lower bound", be.Pos(), bound == "start" && (op == token.LSS || op == token.GEQ),
						"a reverse iterator is invalid exactly when key < start (start inclusive); found key "+op.String()+" "+bound)
				default:
					fwd++
					c.Check("iter-bounds", f.Name+" forward upper bound", be.Pos(), bound == "end" && (op == token.GEQ || op == token.LSS),
						"a forward iterator is invalid exactly when key >= end (end exclusive); found key "+op.String()+" "+bound)
				}
			})
		}
		n++
		c.Check("iter-bounds", f.Name+" tests one bound per direction", f.Pos(), fwd >= 1 && rev >= 1, "")
		// Next: Prev under isReverse, Next otherwise
		if g := sfMethod(c, b.pkg, b.iter, "Next"); g != nil {
			ginfo := g.Info()
			isRevG := func(e ast.Expr) bool {
				fld := sfSelField(ginfo, e)
				return fld != nil && fld.Name() == "isReverse"
			}
			okN, cnt := true, 0
			for _, s := range g.Calls() {
				fld, m := sfMethodOnField(ginfo, s.Call)
				if fld == nil || (fld.Name() != "source" && fld.Name() != "itr") || (m != "Next" && m != "Prev") {
					continue
				}
				cnt++
				if sfHolds(g, s, true, isRevG) != (m == "Prev") || (m == "Next" && !sfHolds(g, s, false, isRevG)) {
					okN = false
				}
			}
			n++
			c.Check("iter-bounds", g.Name+" moves in the iterator's direction", g.Pos(), okN && cnt == 2, "Prev() exactly when isReverse, Next() otherwise")
		}
		// Iterator / ReverseIterator differ only in the flag
		for _, tc := range []struct{ m, flag string }{{"Iterator", "false"}, {"ReverseIterator", "true"}} {
			g := sfMethod(c, b.pkg, b.db, tc.m)
			if g == nil {
				continue
			}
			okC := false
			for _, s := range g.Calls() {
				if !strings.HasPrefix(s.CalleeName(), b.pkg+".new") {
					continue
				}
				a := s.Call.Args
				if len(a) == 4 && sfIsParam(g, a[1], 0) && sfIsParam(g, a[2], 1) {
					if id, isId := a[3].(*ast.Ident); isId && id.Name == tc.flag {
						okC = true
					}
				}
			}
			n++
			c.Check("iter-bounds", g.Name+" passes (start,end,"+tc.flag+")", g.Pos(), okC, "")
		}
	}
	// memdb: key filter + direction flag
	for _, tc := range []struct{ typ, m, flag string }{{"MemDB", "Iterator", "false"}, {"MemDB", "ReverseIterator", "true"}, {"memSnapshot", "Iterator", "false"}, {"memSnapshot", "ReverseIterator", "true"}} {
		g := sfMethod(c, c29DB+"/memdb", tc.typ, tc.m)
		if g == nil {
			continue
		}
		okC := false
		for _, s := range g.CallsTo(c29DB + "/memdb.getSortedKeys") {
			a := s.Call.Args
			if id, isId := a[3].(*ast.Ident); isId && id.Name == tc.flag && sfIsParam(g, a[1], 0) && sfIsParam(g, a[2], 1) {
				okC = true
			}
		}
		n++
		c.Check("iter-bounds", g.Name+" passes (start,end,"+tc.flag+")", g.Pos(), okC, "")
	}
	if f := c.MustFunc(c29DB + "/memdb.getSortedKeys"); f != nil {
		info := f.Info()
		ok := false
		for _, s := range f.CallsTo("builtin.append") {
			ok = sfHolds(f, s, true, func(e ast.Expr) bool {
				return sfDerives(f, e, func(x ast.Expr) bool {
					cl, isC := sfIsCallTo(info, x, c29DB+".IsKeyInDomain")
					return isC && sfIsParam(f, cl.Args[1], 1) && sfIsParam(f, cl.Args[2], 2)
				}, 2)
			})
		}
		n++
		c.Check("iter-bounds", f.Name+" keeps exactly the keys in [start,end)", f.Pos(), ok, "")
	}
	if f := c.MustFunc(c29DB + ".IsKeyInDomain"); f != nil {
		info := f.Info()
		lo, hi := false, false
		engine.InspectBody(f, func(x ast.Node) {
			is, isIf := x.(*ast.IfStmt)
			if !isIf {
				return
			}
			for _, cj := range engine.Conjuncts(is.Cond, token.LAND) {
				a, b, op, isC := sfCmp(cj)
				if !isC || !sfIsIntLit(b, "0") {
					continue
				}
				cl, isCall := sfIsCallTo(info, a, "bytes.Compare")
				if !isCall {
					continue
				}
				if sfIsParam(f, cl.Args[0], 0) && sfIsParam(f, cl.Args[1], 1) && op == token.LSS {
					lo = true // key < start -> out
				}
				if sfIsParam(f, cl.Args[0], 2) && sfIsParam(f, cl.Args[1], 0) && op == token.LEQ {
					hi = true // end <= key -> out
				}
			}
		})
		n++
		c.Check("iter-bounds", f.Name+" start inclusive, end exclusive", f.Pos(), lo && hi, "")
	}
	c.Floor("iter-bounds", n, 24)
}

func c29BatchCommit(c *engine.Ctx, p *engine.Prog) {
	n := 0
	for _, tc := range []struct {
		engineFn string
		allowed  []string
	}{
		{"github.com/syndtr/goleveldb/leveldb.(*DB).Write", []string{c29DB + "/goleveldb.(*goLevelDBBatch).Write", c29DB + "/goleveldb.(*goLevelDBBatch).WriteSync"}},
		{"github.com/cockroachdb/pebble.(*Batch).Commit", []string{c29DB + "/pebbledb.(*pebbleDBBatch).Write", c29DB + "/pebbledb.(*pebbleDBBatch).WriteSync"}},
		{"go.etcd.io/bbolt.(*DB).Batch", []string{c29DB + "/boltdb.(*boltDBBatch).Write"}},
		{c29DB + "/internal.(*MemBatch).write", []string{c29DB + "/internal.(*MemBatch).Write", c29DB + "/internal.(*MemBatch).WriteSync"}},
		{c29DB + ".(*BatchCollector).appendOps", []string{c29DB + ".(*batchHandle).Write"}},
	} {
		callers := engine.CallerSet(p.RefsToFunc(tc.engineFn))
		n++
		c.Check("batch-commit", tc.engineFn, token.NoPos, len(callers) >= 1 && len(sfWritersOK(p, callers, tc.allowed)) == 0,
			"a batch reaches the engine only from Write/WriteSync (a closed, unwritten batch performs no write); callers: "+join(callers))
	}
	c.Floor("batch-commit", n, 5)
}

func c29Wrappers(c *engine.Ctx, p *engine.Prog) {
	n := 0
	inner := p.Field(c29DB + ".PrefixDB.db")
	pfxField := p.Field(c29DB + ".PrefixDB.prefix")
	// the forwarded key is copy(prefix) ++ key, written inline or through a private helper
	isPrefixedKey := func(l sfLeaf, param int) bool {
		if l.e == nil {
			return false
		}
		info := l.ctx.fn.Info()
		cl, isC := sfIsCallTo(info, l.e, "builtin.append")
		if !isC || !cl.Ellipsis.IsValid() || len(cl.Args) != 2 || sfRootParam(l.ctx, cl.Args[1]) != param {
			return false
		}
		in, isCp := sfIsCallTo(info, cl.Args[0], c29DB+".cp", "slices.Clone", "bytes.Clone")
		return isCp && sfFieldSel(info, in.Args[0], pfxField)
	}
	stopCp := func(cx *sfCtx, cl *ast.CallExpr) bool {
		nm := sfCallee(cx.fn.Info(), cl)
		return nm == "builtin.append" || nm == c29DB+".cp"
	}
	for _, m := range []string{"Get", "Has", "Set", "SetSync", "Delete", "DeleteSync"} {
		f := sfMethod(c, c29DB, "PrefixDB", m)
		if f == nil {
			continue
		}
		cnt, ok := 0, true
		for _, d := range sfDeepFieldCalls(f, 2, inner) {
			_, mm := sfMethodOnField(d.info(), d.site.Call)
			cnt++
			keyOK := sfAllLeafs(sfLeafs(d.ctx, d.arg(0), d.site, 4, stopCp), func(l sfLeaf) bool { return isPrefixedKey(l, 0) })
			if mm != m || !keyOK || (len(d.site.Call.Args) == 2 && d.rootParam(1) != 1) {
				ok = false
			}
		}
		n++
		c.Check("wrapper", f.Name+" forwards the same operation with the prefixed key", f.Pos(), ok && cnt >= 1, "")
	}
	if f := p.Func(c29DB + ".(*PrefixDB).prefixed"); f != nil {
		info := f.Info()
		ok := false
		pf := p.Field(c29DB + ".PrefixDB.prefix")
		for _, r := range sfReturns(f) {
			if cl, isC := sfIsCallTo(info, r.Results[0], "builtin.append"); isC && cl.Ellipsis.IsValid() && sfIsParam(f, cl.Args[1], 0) {
				if in, isIn := sfIsCallTo(info, cl.Args[0], c29DB+".cp"); isIn && sfFieldSel(info, in.Args[0], pf) {
					ok = true
				}
			}
		}
		n++
		c.Check("wrapper", f.Name+" = copy(prefix) ++ key", f.Pos(), ok, "the prefix must be copied (append on the shared prefix slice could overwrite a sibling key)")
	}
	for _, m := range []string{"Set", "Delete"} {
		f := sfMethod(c, c29DB, "prefixBatch", m)
		if f == nil {
			continue
		}
		info := f.Info()
		ok := false
		for _, s := range f.Calls() {
			if fld, mm := sfMethodOnField(info, s.Call); fld != nil && fld.Name() == "source" && mm == m {
				ok = sfDerives(f, s.Call.Args[0], func(e ast.Expr) bool {
					cl, isC := sfIsCallTo(info, e, "builtin.append")
					if !isC || !cl.Ellipsis.IsValid() || !sfIsParam(f, cl.Args[1], 0) {
						return false
					}
					_, isCp := sfIsCallTo(info, cl.Args[0], c29DB+".cp")
					return isCp
				}, 2)
			}
		}
		n++
		c.Check("wrapper", f.Name+" prefixes the key", f.Pos(), ok, "")
	}
	// ranges
	for _, m := range []string{"Iterator", "ReverseIterator"} {
		f := sfMethod(c, c29DB, "PrefixDB", m)
		if f == nil {
			continue
		}
		stopR := func(cx *sfCtx, cl *ast.CallExpr) bool {
			nm := sfCallee(cx.fn.Info(), cl)
			return nm == "builtin.append" || nm == c29DB+".cp" || nm == c29DB+".cpIncr"
		}
		pcs := sfDeepFieldCalls(f, 2, inner, "Iterator", "ReverseIterator")
		ok := len(pcs) == 1
		if ok {
			pc := pcs[0]
			_, mm := sfMethodOnField(pc.info(), pc.site.Call)
			ok = mm == m && sfAllLeafs(sfLeafs(pc.ctx, pc.arg(0), pc.site, 5, stopR), func(l sfLeaf) bool { return isPrefixedKey(l, 0) })
			// end: cpIncr(prefix) exactly when end == nil, else prefix++end
			endNil := func(op token.Token) func(*sfCtx, ast.Expr) bool {
				return func(cx *sfCtx, e ast.Expr) bool {
					a, b, o, isC := sfCmp(e)
					return isC && o == op && isNil(b) && sfRootParam(cx, a) == 1
				}
			}
			nilDef, nonNil := 0, 0
			base := pc.facts()
			for _, l := range sfLeafs(pc.ctx, pc.arg(1), pc.site, 5, stopR) {
				facts := append(append([]sfFact{}, base...), l.facts...)
				isNilEnd := sfKnown(facts, true, endNil(token.EQL)) || sfKnown(facts, false, endNil(token.NEQ))
				notNilEnd := sfKnown(facts, false, endNil(token.EQL)) || sfKnown(facts, true, endNil(token.NEQ))
				switch {
				case l.e == nil:
					ok = false
				case isPrefixedKey(l, 1) && notNilEnd && !isNilEnd:
					nonNil++
				default:
					in, isC := sfIsCallTo(l.ctx.fn.Info(), l.e, c29DB+".cpIncr")
					if isC && sfFieldSel(l.ctx.fn.Info(), in.Args[0], pfxField) && isNilEnd && !notNilEnd {
						nilDef++
					} else {
						ok = false
					}
				}
			}
			ok = ok && nilDef >= 1 && nonNil >= 1
		}
		n++
		c.Check("wrapper", f.Name+" forwards the prefixed range in the same direction", f.Pos(), ok, "start = prefix++start; end = cpIncr(prefix) when open, else prefix++end")
	}
	// read-only wrappers cannot write
	for _, tc := range []struct{ typ string }{{"ImmutableDB"}, {"SnapshotDB"}} {
		for _, m := range []string{"Set", "SetSync", "Delete", "DeleteSync"} {
			f := sfMethod(c, c29DB, tc.typ, m)
			if f == nil {
				continue
			}
			n++
			c.Check("wrapper", f.Name+" cannot return normally", f.Pos(), p.NoReturn(f.Obj), "a read-only view must refuse writes")
		}
	}
	for _, m := range []string{"Write", "WriteSync"} {
		if f := sfMethod(c, c29DB, "readonlyNoopBatch", m); f != nil {
			n++
			c.Check("wrapper", f.Name+" cannot return normally", f.Pos(), p.NoReturn(f.Obj), "")
		}
	}
	for _, m := range []string{"Get", "Has", "Iterator", "ReverseIterator"} {
		f := sfMethod(c, c29DB, "ImmutableDB", m)
		if f == nil {
			continue
		}
		ss := f.Calls()
		ok := len(ss) == 1
		if ok {
			_, mm := sfMethodOnField(f.Info(), ss[0].Call)
			ok = mm == m
			for i, a := range ss[0].Call.Args {
				ok = ok && sfIsParam(f, a, i)
			}
		}
		n++
		c.Check("wrapper", f.Name+" delegates unchanged", f.Pos(), ok, "")
	}
	c.Floor("wrapper", n, 24)
}
