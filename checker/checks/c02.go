package checks

import (
	"go/ast"
	"go/token"
	"go/types"
	"strings"

	"gnoverif/engine"
)

// C02 — transaction atomicity: the commit protocol of BaseApp.runTx, the
// checkpointing cache store, and the gno transaction store.
func init() {
	register("C02", c02)
	meta("C02", Meta{
		Text:      "Decides the commit protocol of BaseApp.runTx on all paths of its CFG: message writes are committed (MultiWrite) only under result.IsOK() and only after every operation that can still fail the tx — in particular the block-gas charge — has run non-deferred; the failure branch and a deferred closure registered between Checkpoint and runMsgs flush only the checkpoint; ante → Checkpoint → runMsgs order; an ante abort reaches no commit; the recover closure turns every panic into an error result. Also: cValue immutability and restore-both-maps in cache.cacheStore, cachemulti fan-out, fresh per-tx caches in defaultStore.BeginTransaction, and the gno tx-store commit gated by IsOK. Level 'other': necessary structural conditions; equality of resulting state is not decided.",
		Note:      "Not covered: handler-internal partial effects outside the cache layers; state equality; the VM-side rollback of in-memory realm objects (C03/C06). Closures bound to local variables are resolved only when the variable has a single function-literal definition.",
		Technique: "go/cfg dominance + gate analysis on runTx and its deferred closures (commit-last rule), who-may-write on cValue fields, composite-literal field classification, who-may-call",
		Ref:       "DESIGN.md §2 C02",
	})
	mutants("C02",
		Mutant{"block-gas-only-deferred", "tm2/pkg/sdk/baseapp.go", "	// writes and the tx is reported as out of gas.\n\tchargeBlockGas()\n", "	// writes and the tx is reported as out of gas.\n", "commit-last"},
		Mutant{"charge-after-hook", "tm2/pkg/sdk/baseapp.go", "	chargeBlockGas()\n\n\tif app.endTxHook != nil {\n\t\tapp.endTxHook(runMsgCtx, result)\n\t}\n", "	if app.endTxHook != nil {\n\t\tapp.endTxHook(runMsgCtx, result)\n\t}\n\tchargeBlockGas()\n", "commit-last"},
		Mutant{"charge-only-if-failed", "tm2/pkg/sdk/baseapp.go", "	// writes and the tx is reported as out of gas.\n\tchargeBlockGas()\n", "	// writes and the tx is reported as out of gas.\n\tif !result.IsOK() {\n\t\tchargeBlockGas()\n\t}\n", "commit-last"},
		Mutant{"double-charge", "tm2/pkg/sdk/baseapp.go", "			blockGasCharged = true\n", "", "charged once"},
		Mutant{"commit-unconditional", "tm2/pkg/sdk/baseapp.go", "	if result.IsOK() {\n\t\tmsCache.MultiWrite()\n\t} else {\n\t\tcp.WriteCheckpoint()\n\t}", "	msCache.MultiWrite()", "commit-gate"},
		Mutant{"defer-flush-dropped", "tm2/pkg/sdk/baseapp.go", "if mode == RunTxModeDeliver && cp.HasCheckpoint() {\n\t\t\tcp.WriteCheckpoint()\n\t\t}", "if mode == RunTxModeDeliver && cp.HasCheckpoint() {\n\t\t\t_ = cp\n\t\t}", "panic-flush"},
		Mutant{"checkpoint-before-ante", "tm2/pkg/store/cache/store.go", "	store.cache = store.checkpointCache\n\tstore.chargedGas = store.checkpointChargedGas\n", "	store.chargedGas = store.checkpointChargedGas\n", "restore-both"},
		Mutant{"cvalue-mutated", "tm2/pkg/store/cache/store.go", "	store.cache = store.checkpointCache\n", "	store.cache = store.checkpointCache\n\tfor _, v := range store.cache {\n\t\tv.dirty = true\n\t}\n", "cvalue-immutable"},
		Mutant{"tx-cache-shared", "gnovm/pkg/gnolang/store.go", "		cacheObjects: make(map[ObjectID]Object),\n\t\tcacheTypes:   make(map[TypeID]Type),\n\t\tcacheNodes:   txlog.Wrap(ds.cacheNodes),", "		cacheObjects: ds.cacheObjects,\n\t\tcacheTypes:   make(map[TypeID]Type),\n\t\tcacheNodes:   txlog.Wrap(ds.cacheNodes),", "tx-store-fresh"},
		Mutant{"gno-commit-always", "gno.land/pkg/gnoland/app.go", "		if result.IsOK() {\n\t\t\tvmk.CommitGnoTransactionStore(ctx)\n\t\t}", "		vmk.CommitGnoTransactionStore(ctx)", "gno-commit-gate"},
		Mutant{"abort-falls-through", "tm2/pkg/sdk/baseapp.go", "		if abort {\n\t\t\treturn result\n\t\t}", "		if abort && mode == RunTxModeCheck {\n\t\t\treturn result\n\t\t}", "abort-clean"},
	)
}

func c02(c *engine.Ctx) {
	c.Explain = "Commit protocol of BaseApp.runTx (commit-last: no failing operation after MultiWrite; IsOK gate; checkpoint flush on failure and on panic; ante→Checkpoint→runMsgs order; abort reaches no commit; recover closure assigns an error on every panic), cache.cacheStore checkpoint structure (cValue never mutated after construction, WriteCheckpoint restores cache and chargedGas before writing, clear() resets every per-layer field), cachemulti fan-out over all sub-stores, fresh per-tx caches in gnolang defaultStore.BeginTransaction, gno transaction store committed only under result.IsOK(). Not covered: equality of resulting state, handler-internal effects outside the cache layers."
	p := c.Load("tm2/pkg/sdk", "tm2/pkg/store/cache", "tm2/pkg/store/cachemulti", "gno.land/pkg/gnoland", "gno.land/pkg/sdk/vm", "gnovm/pkg/gnolang")
	if p == nil {
		return
	}
	c02runTx(c, p)
	c02cache(c, p)
	c02gno(c, p)
}

// litBoundTo returns the function literal Fn that local variable obj is bound
// to by its single definition `obj := func(){...}`, or nil.
func litBoundTo(f *engine.Fn, obj types.Object) *engine.Fn {
	var lit *ast.FuncLit
	n := 0
	engine.InspectBody(f, func(x ast.Node) {
		as, ok := x.(*ast.AssignStmt)
		if !ok {
			return
		}
		for i, l := range as.Lhs {
			if engine.ObjOf(f.Info(), l) == obj && i < len(as.Rhs) {
				n++
				if fl, ok := as.Rhs[i].(*ast.FuncLit); ok {
					lit = fl
				}
			}
		}
	})
	if n != 1 || lit == nil {
		return nil
	}
	for _, l := range f.Lits {
		if l.Lit == lit {
			return l
		}
	}
	return nil
}

// invocations of a literal inside its parent: deferred or direct call sites.
func litInvocations(f *engine.Fn, lit *engine.Fn) (direct, deferred []*engine.Site) {
	for _, s := range f.Calls() {
		var target *engine.Fn
		switch fun := ast.Unparen(s.Call.Fun).(type) {
		case *ast.FuncLit:
			if fun == lit.Lit {
				target = lit
			}
		case *ast.Ident:
			if o := f.Info().ObjectOf(fun); o != nil {
				if _, isVar := o.(*types.Var); isVar {
					if litBoundTo(f, o) == lit {
						target = lit
					}
				}
			}
		}
		if target == nil {
			continue
		}
		if s.Deferred {
			deferred = append(deferred, s)
		} else if !s.InGo {
			direct = append(direct, s)
		}
	}
	return
}

func isBlockGasConsume(s *engine.Site) bool {
	if !strings.HasSuffix(s.CalleeName(), ".ConsumeGas") {
		return false
	}
	sel, ok := s.Call.Fun.(*ast.SelectorExpr)
	if !ok {
		return false
	}
	return engine.MentionsName(sel.X, "BlockGasMeter")
}

func condCallsMethod(cond ast.Expr, name string) bool {
	found := false
	ast.Inspect(cond, func(n ast.Node) bool {
		if call, ok := n.(*ast.CallExpr); ok {
			if sel, ok := call.Fun.(*ast.SelectorExpr); ok && sel.Sel.Name == name {
				found = true
			}
		}
		return !found
	})
	return found
}

func c02runTx(c *engine.Ctx, p *engine.Prog) {
	const RT = "tm2/pkg/sdk.(*BaseApp).runTx"
	f := c.MustFunc(RT)
	if f == nil {
		return
	}
	g := f.Graph()
	// Commit points are searched through in-package helpers (depth 2), so that
	// extracting the commit/rollback tail into a helper does not hide it.
	multiWrite := f.DeepCallsTo(2, "tm2/pkg/store/types.(MultiStore).MultiWrite", ".MultiWrite")
	writeCps := f.DeepCallsTo(2, "tm2/pkg/store/types.(Checkpointable).WriteCheckpoint")
	var deliverCommits, checkCommits []*engine.Site
	var deliverDeep []engine.DeepSite
	for _, d := range multiWrite {
		isCheck := false
		for _, gt := range d.DeepGates() {
			if gt.OnTrue && engine.MentionsName(gt.Cond, "RunTxModeCheck") {
				if b, ok := ast.Unparen(gt.Cond).(*ast.BinaryExpr); ok && b.Op == token.EQL {
					isCheck = true
				}
			}
		}
		if isCheck {
			checkCommits = append(checkCommits, d.Outer)
		} else {
			deliverCommits = append(deliverCommits, d.Outer)
			deliverDeep = append(deliverDeep, d)
		}
	}
	c.Floor("commit-gate", len(deliverCommits), 1)
	runMsgs := f.CallsTo("tm2/pkg/sdk.(*BaseApp).runMsgs")
	c.Floor("order runMsgs", len(runMsgs), 1)
	checkpoints := f.CallsTo("tm2/pkg/store/types.(Checkpointable).Checkpoint")
	c.Floor("order Checkpoint", len(checkpoints), 1)
	ante := f.CallsTo("field.anteHandler")
	c.Floor("order anteHandler", len(ante), 1)
	endHook := f.CallsTo("field.endTxHook")
	beginHook := f.CallsTo("field.beginTxHook")

	// commit-gate: deliver-mode MultiWrite only when <result>.IsOK() holds (either
	// `if r.IsOK() { commit }` or `if !r.IsOK() { rollback; return }; commit`), and
	// the other side of that same test flushes only the checkpoint.
	for _, d := range deliverDeep {
		s := d.Outer
		ok, why := false, "MultiWrite is not gated by result.IsOK()"
		for _, gt := range d.DeepGates() {
			if !deepCondCallsMethod(d, gt.Cond, "IsOK") || len(engine.Atoms(gt.Cond)) != 1 {
				continue
			}
			if positive := gt.OnTrue != isNot(gt.Cond); !positive {
				why = "MultiWrite is reached when the result is NOT ok (`" + engine.ExprString(gt.Cond) + "`)"
				continue
			}
			ok, why = true, "gated by `"+engine.ExprString(gt.Cond)+"`"
			// failure side of the same test flushes only the checkpoint
			elseOK := false
			for _, w := range writeCps {
				if w.Outer.Deferred {
					continue
				}
				for _, g2 := range w.DeepGates() {
					if g2.Block == gt.Block && g2.OnTrue != gt.OnTrue {
						elseOK = true
					}
				}
			}
			c.Check("commit-gate", RT+" failure branch WriteCheckpoint", s.Pos(), elseOK, "the !IsOK() side of the commit test must flush only the checkpoint (ante writes)")
		}
		c.Check("commit-gate", RT+" MultiWrite under IsOK", s.Pos(), ok, why)
		for _, r := range runMsgs {
			c.Check("order", RT+" runMsgs before MultiWrite", s.Pos(), g.Dominates(r, s), "runMsgs must dominate the deliver commit")
		}
		// inside a helper nothing may run after the commit either
		if d.Inner != d.Outer {
			h := d.Inner.Fn
			for _, x := range h.Calls() {
				if x != d.Inner && !x.Deferred && h.Graph().ReachableAfter(d.Inner, x) {
					c.Check("commit-last", RT+" no call after MultiWrite (in "+h.Name+"): "+x.CalleeName(), x.Pos(), false, "a call executes after the deliver commit; a panic there would fail a committed tx")
				}
			}
		}
	}

	// commit-last: every block-gas charge closure has a direct (non-deferred)
	// invocation that dominates the deliver commit and the endTxHook.
	type charge struct {
		lit  *engine.Fn
		site *engine.Site
	}
	var charges []charge
	for _, l := range f.Lits {
		for _, s := range l.Calls() {
			if isBlockGasConsume(s) {
				charges = append(charges, charge{l, s})
			}
		}
	}
	var directCharges []*engine.Site
	for _, s := range f.Calls() {
		if isBlockGasConsume(s) && !s.Deferred {
			directCharges = append(directCharges, s)
		}
	}
	c.Floor("commit-last block-gas charge sites", len(charges)+len(directCharges), 1)
	for _, cm := range deliverCommits {
		guards := append([]*engine.Site{}, directCharges...)
		for _, ch := range charges {
			d, _ := litInvocations(f, ch.lit)
			guards = append(guards, d...)
		}
		ok := len(guards) > 0 && g.MustPass(cm, guards)
		c.Check("commit-last", RT+" block-gas charge before MultiWrite", cm.Pos(), ok,
			"the block-gas ConsumeGas (which can panic and turn the result into OutOfGas) must execute, non-deferred, on every path to the deliver-mode MultiWrite; otherwise a tx crossing the block gas limit is reported failed with its writes committed")
		for _, h := range endHook {
			okh := len(guards) > 0 && g.MustPass(h, guards)
			c.Check("commit-last", RT+" block-gas charge before endTxHook", h.Pos(), okh,
				"endTxHook commits the gno transaction store on an OK result; the block-gas charge must precede it")
		}
		// every charge is also still performed on the failure/panic paths: some deferred invocation exists
		hasDeferred := false
		for _, ch := range charges {
			_, d := litInvocations(f, ch.lit)
			if len(d) > 0 {
				hasDeferred = true
			}
		}
		c.Check("commit-last", RT+" block-gas charge deferred for failure paths", cm.Pos(), hasDeferred, "failed/panicking txs must still be charged to the block meter (deferred invocation)")
		// nothing that may fail runs after the commit: no call to runMsgs/handlers/hooks reachable after MultiWrite
		for _, s := range f.Calls() {
			if s.Deferred || s == cm {
				continue
			}
			if g.ReachableAfter(cm, s) {
				c.Check("commit-last", RT+" no call after MultiWrite: "+s.CalleeName(), s.Pos(), false, "a call executes after the deliver commit; a panic there would fail a committed tx")
			}
		}
	}
	// a guard against double charging: the closure, when invoked directly and deferred, must be idempotent
	for _, ch := range charges {
		d, df := litInvocations(f, ch.lit)
		if len(d) > 0 && len(df) > 0 {
			lg := ch.lit.Graph()
			idem := false
			for _, gt := range lg.Gates(ch.site) {
				for _, a := range engine.Atoms(gt.Cond) {
					if id, ok := ast.Unparen(a).(*ast.Ident); ok {
						// a captured boolean that the closure sets before charging
						obj := ch.lit.Info().ObjectOf(id)
						set := false
						engine.InspectBody(ch.lit, func(n ast.Node) {
							if as, ok := n.(*ast.AssignStmt); ok {
								for i, l := range as.Lhs {
									if engine.ObjOf(ch.lit.Info(), l) == obj && i < len(as.Rhs) {
										if v, ok := as.Rhs[i].(*ast.Ident); ok && v.Name == "true" {
											if st := ch.lit.SiteOf(as); st != nil && lg.Dominates(st, ch.site) {
												set = true
											}
										}
									}
								}
							}
						})
						if set && !gt.OnTrue == false {
							_ = set
						}
						if set {
							idem = true
						}
					}
				}
			}
			c.Check("commit-last", RT+" block-gas charge is charged once", ch.site.Pos(), idem, "closure invoked both directly and by defer must guard against charging twice (flag set before ConsumeGas)")
		}
	}

	// order: ante before Checkpoint before runMsgs; hooks.
	for _, cp := range checkpoints {
		for _, a := range ante {
			c.Check("order", RT+" anteHandler not after Checkpoint", a.Pos(), !g.ReachableAfter(cp, a), "ante writes must all precede the checkpoint")
		}
		for _, r := range runMsgs {
			c.Check("order", RT+" Checkpoint dominates runMsgs", r.Pos(), g.Dominates(cp, r), "messages run only after the ante state was checkpointed")
		}
		for _, b := range beginHook {
			c.Check("order", RT+" Checkpoint dominates beginTxHook", b.Pos(), g.Dominates(cp, b), "")
		}
	}
	for _, h := range endHook {
		for _, r := range runMsgs {
			c.Check("order", RT+" runMsgs dominates endTxHook", h.Pos(), g.Dominates(r, h), "")
		}
	}

	// panic-flush: a deferred closure registered after Checkpoint and before runMsgs writes the checkpoint under HasCheckpoint.
	found := false
	for _, l := range f.Lits {
		_, df := litInvocations(f, l)
		if len(df) == 0 {
			continue
		}
		for _, w := range l.CallsTo("tm2/pkg/store/types.(Checkpointable).WriteCheckpoint") {
			gated, deliver := false, false
			for _, gt := range l.Graph().Gates(w) {
				if gt.OnTrue && condCallsMethod(gt.Cond, "HasCheckpoint") {
					gated = true
				}
				if gt.OnTrue && engine.MentionsName(gt.Cond, "RunTxModeDeliver") {
					deliver = true
				}
			}
			reg := f.SiteOf(df[0].Top)
			okOrder := false
			if reg != nil {
				okOrder = true
				for _, cp := range checkpoints {
					if !g.Dominates(cp, reg) {
						okOrder = false
					}
				}
				for _, r := range runMsgs {
					if !g.Dominates(reg, r) {
						okOrder = false
					}
				}
			}
			if gated && deliver && okOrder {
				found = true
			}
		}
	}
	c.Check("panic-flush", RT+" deferred WriteCheckpoint between Checkpoint and runMsgs", f.Pos(), found,
		"a panic in runMsgs (out of gas) must flush only the ante checkpoint: deferred closure calling WriteCheckpoint under HasCheckpoint() in deliver mode, registered after Checkpoint() and before runMsgs")

	// abort-clean: from the `abort` true branch nothing that commits or runs messages is reachable.
	nAbort := 0
	for _, b := range g.CFG.Blocks {
		if !b.Live || len(b.Succs) != 2 || len(b.Nodes) == 0 {
			continue
		}
		cond, ok := b.Nodes[len(b.Nodes)-1].(ast.Expr)
		if !ok {
			continue
		}
		id, ok := ast.Unparen(cond).(*ast.Ident)
		if !ok || id.Name != "abort" {
			continue
		}
		nAbort++
		bad := ""
		for _, s := range f.Calls() {
			n := s.CalleeName()
			if engine.MatchName(n, ".MultiWrite", ".WriteCheckpoint", ".Checkpoint", "tm2/pkg/sdk.(*BaseApp).runMsgs", "field.beginTxHook", "field.endTxHook") {
				if b.Succs[0] == s.Block || g.Reach(b.Succs[0], s.Block, nil) {
					bad = n
				}
			}
		}
		c.Check("abort-clean", RT+" abort returns before any commit", cond.Pos(), bad == "", "reachable from the abort branch: "+bad)
	}
	// the abort test must be the bare identifier (not weakened by a conjunction)
	weak := false
	for _, b := range g.CFG.Blocks {
		if !b.Live || len(b.Succs) != 2 || len(b.Nodes) == 0 {
			continue
		}
		if cond, ok := b.Nodes[len(b.Nodes)-1].(ast.Expr); ok && engine.MentionsName(cond, "abort") {
			if _, isId := ast.Unparen(cond).(*ast.Ident); !isId {
				// `abort && result.Error == nil` panics (sanity) — allowed when true branch does not return normally
				if len(b.Succs[0].Succs) != 0 {
					weak = true
				}
			}
		}
	}
	c.Check("abort-clean", RT+" abort test not weakened", f.Pos(), nAbort >= 1 && !weak, "an `if abort { return }` with the bare flag must exist; compound conditions on abort may only panic")

	// recover closure: first-registered defer recovers and sets result.Error in every clause.
	rec := false
	for _, l := range f.Lits {
		_, df := litInvocations(f, l)
		if len(df) == 0 || len(l.CallsTo("builtin.recover")) == 0 {
			continue
		}
		reg := f.SiteOf(df[0].Top)
		dominatesAll := reg != nil
		for _, r := range runMsgs {
			if reg == nil || !g.Dominates(reg, r) {
				dominatesAll = false
			}
		}
		for _, a := range ante {
			if reg == nil || !g.Dominates(reg, a) {
				dominatesAll = false
			}
		}
		// registered before the block-gas defer so that it recovers the charge's panic
		for _, ch := range charges {
			_, d2 := litInvocations(f, ch.lit)
			for _, x := range d2 {
				if rs := f.SiteOf(x.Top); rs == nil || reg == nil || !g.Dominates(reg, rs) {
					dominatesAll = false
				}
			}
		}
		allAssign := false
		for _, sw := range l.Switches() {
			if sw.Types == nil {
				continue
			}
			allAssign = sw.HasDefault
			ts := sw.Stmt.(*ast.TypeSwitchStmt)
			for _, cl := range ts.Body.List {
				assigns := false
				ast.Inspect(cl, func(n ast.Node) bool {
					if as, ok := n.(*ast.AssignStmt); ok {
						for _, lh := range as.Lhs {
							if se, ok := lh.(*ast.SelectorExpr); ok && se.Sel.Name == "Error" {
								assigns = true
							}
						}
					}
					return true
				})
				if !assigns {
					allAssign = false
				}
			}
		}
		if dominatesAll && allAssign {
			rec = true
		}
	}
	c.Check("recover", RT+" recover closure converts every panic to an error result", f.Pos(), rec,
		"the first-registered deferred closure must call recover(), be registered before the ante handler, runMsgs and the block-gas defer, and assign result.Error in every clause of its type switch (with a default)")
	_ = checkCommits
}

func c02cache(c *engine.Ctx, p *engine.Prog) {
	// cValue immutable after construction.
	n := 0
	for _, fld := range []string{"value", "deleted", "dirty"} {
		fv := p.Field("tm2/pkg/store/cache.cValue." + fld)
		if fv == nil {
			c.Undecided("cvalue-immutable", "cValue."+fld, "field not found")
			continue
		}
		n++
		var bad []string
		for _, w := range p.FieldWrites(fv) {
			if w.Kind != "lit" {
				bad = append(bad, w.Fn.Root().Name+"@"+p.Pos(w.Node.Pos()))
			}
		}
		c.Check("cvalue-immutable", "tm2/pkg/store/cache.cValue."+fld, fv.Pos(), len(bad) == 0,
			"Checkpoint() shallow-clones the map of *cValue; a field store after construction would leak message-phase writes into the checkpoint: "+join(bad))
	}
	c.Floor("cvalue-immutable", n, 3)

	const CS = "tm2/pkg/store/cache.(*cacheStore)."
	if f := c.MustFunc(CS + "WriteCheckpoint"); f != nil {
		g := f.Graph()
		wl := engine.Outers(f.DeepCallsTo(2, CS+"writeLocked"))
		c.Floor("restore-both", len(wl), 1)
		for _, pair := range [][2]string{{"cache", "checkpointCache"}, {"chargedGas", "checkpointChargedGas"}} {
			// the restoring assignment, possibly inside an in-package helper called from here
			assigns := f.DeepFind(2, func(fn *engine.Fn, x ast.Node) bool {
				as, isAs := x.(*ast.AssignStmt)
				if !isAs || len(as.Lhs) != 1 || len(as.Rhs) != 1 {
					return false
				}
				l, lok := as.Lhs[0].(*ast.SelectorExpr)
				r, rok := as.Rhs[0].(*ast.SelectorExpr)
				return lok && rok && l.Sel.Name == pair[0] && r.Sel.Name == pair[1]
			})
			ok := len(assigns) > 0
			for _, w := range wl {
				dom := false
				for _, a := range assigns {
					if a.Outer != w && g.Dominates(a.Outer, w) {
						dom = true
					}
				}
				if !dom {
					ok = false
				}
			}
			c.Check("restore-both", CS+"WriteCheckpoint restores "+pair[0], f.Pos(), ok, "store."+pair[0]+" = store."+pair[1]+" must dominate writeLocked()")
		}
	}
	if f := c.MustFunc(CS + "Checkpoint"); f != nil {
		for _, pair := range [][2]string{{"checkpointCache", "cache"}, {"checkpointChargedGas", "chargedGas"}} {
			ok := false
			engine.InspectBody(f, func(x ast.Node) {
				as, isAs := x.(*ast.AssignStmt)
				if !isAs || len(as.Lhs) != 1 || len(as.Rhs) != 1 {
					return
				}
				l, lok := as.Lhs[0].(*ast.SelectorExpr)
				call, cok := as.Rhs[0].(*ast.CallExpr)
				if lok && cok && l.Sel.Name == pair[0] && len(call.Args) == 1 {
					if r, rok := call.Args[0].(*ast.SelectorExpr); rok && r.Sel.Name == pair[1] {
						if fn, _ := engine.ObjOf(f.Info(), call.Fun).(*types.Func); fn != nil && engine.FuncName(fn) == "maps.Clone" {
							ok = true
						}
					}
				}
			})
			c.Check("restore-both", CS+"Checkpoint clones "+pair[1], f.Pos(), ok, "the snapshot must be a copy (maps.Clone), not an alias, of store."+pair[1])
		}
	}
	// clear() resets every per-layer field.
	if f := c.MustFunc(CS + "clear"); f != nil {
		st := p.Named("tm2/pkg/store/cache.cacheStore")
		exempt := map[string]string{"mtx": "lock", "parent": "identity of the layer", "hasEstimator": "construction-time constant", "getReadDepth100": "construction-time constant", "setReadDepth100": "construction-time constant", "writeDepth100": "construction-time constant"}
		if st != nil {
			s := st.Underlying().(*types.Struct)
			n := 0
			for i := 0; i < s.NumFields(); i++ {
				name := s.Field(i).Name()
				if _, ok := exempt[name]; ok {
					continue
				}
				n++
				assigned := false
				engine.InspectBody(f, func(x ast.Node) {
					if as, ok := x.(*ast.AssignStmt); ok {
						for _, l := range as.Lhs {
							if se, ok := l.(*ast.SelectorExpr); ok && se.Sel.Name == name {
								assigned = true
							}
						}
					}
				})
				c.Check("clear-all", CS+"clear resets "+name, f.Pos(), assigned, "after Write the layer must hold nothing of the finished tx")
			}
			c.Floor("clear-all", n, 6)
		}
	}
	// cachemulti fan-out: each Checkpointable method ranges over cms.stores and calls the same method.
	for _, m := range []string{"Checkpoint", "WriteCheckpoint", "HasCheckpoint"} {
		if f := c.MustFunc("tm2/pkg/store/cachemulti.(Store)." + m); f != nil {
			ok := false
			engine.InspectBody(f, func(x ast.Node) {
				rs, isR := x.(*ast.RangeStmt)
				if !isR {
					return
				}
				if se, isSel := rs.X.(*ast.SelectorExpr); !isSel || se.Sel.Name != "stores" {
					return
				}
				for _, s := range f.CallsTo("tm2/pkg/store/types.(Checkpointable)." + m) {
					if containsExpr(rs.Body, s.Node) {
						gated := false
						for _, gt := range f.Graph().Gates(s) {
							_ = gt
							gated = true
						}
						if !gated {
							ok = true
						}
					}
				}
			})
			c.Check("fan-out", f.Name, f.Pos(), ok, "must call "+m+" unconditionally on every sub-store")
		}
	}
}

func c02gno(c *engine.Ctx, p *engine.Prog) {
	// BeginTransaction: per-tx caches are fresh.
	if f := c.MustFunc("gnovm/pkg/gnolang.(*defaultStore).BeginTransaction"); f != nil {
		shared := map[string]string{
			"preprocessAlloc": "per-tx allocator installed by the keeper, inherited by nested forks",
			"stdlibKeyBytes":  "immutable after node start (single writer checked by C01)",
			"pkgGetter":       "configuration", "nativeResolver": "configuration", "gasConfig": "configuration",
			"aminoCache": "content-addressed decode cache; gas charged independently of hits",
		}
		mustFresh := map[string]bool{"cacheObjects": true, "cacheTypes": true, "cacheRealms": true, "realmStorageDiffs": true}
		var lit *ast.CompositeLit
		engine.InspectBody(f, func(x ast.Node) {
			if cl, ok := x.(*ast.CompositeLit); ok {
				if t := f.Info().TypeOf(cl); t != nil && engine.TypeName(t) == "gnovm/pkg/gnolang.defaultStore" {
					lit = cl
				}
			}
		})
		if lit == nil {
			c.Undecided("tx-store-fresh", f.Name, "no defaultStore composite literal")
		} else {
			recv := f.Info().ObjectOf(f.Decl.Recv.List[0].Names[0])
			n := 0
			seen := map[string]bool{}
			for _, el := range lit.Elts {
				kv, ok := el.(*ast.KeyValueExpr)
				if !ok {
					continue
				}
				name := kv.Key.(*ast.Ident).Name
				seen[name] = true
				usesRecv := engine.Mentions(f.Info(), kv.Value, recv)
				n++
				switch {
				case mustFresh[name]:
					call, isCall := kv.Value.(*ast.CallExpr)
					fresh := isCall && engine.IsBuiltinCall(f.Info(), call, "make") && !usesRecv
					c.Check("tx-store-fresh", f.Name+" field "+name, kv.Pos(), fresh, "per-transaction cache must be a fresh make(...), got `"+engine.ExprString(kv.Value)+"`")
				case name == "cacheNodes":
					call, isCall := kv.Value.(*ast.CallExpr)
					okw := false
					if isCall {
						if fn, _ := engine.ObjOf(f.Info(), call.Fun).(*types.Func); fn != nil && engine.FuncName(fn) == "gnovm/pkg/gnolang/internal/txlog.Wrap" {
							okw = true
						}
					}
					c.Check("tx-store-fresh", f.Name+" field cacheNodes", kv.Pos(), okw, "block-node cache must be a txlog.Wrap overlay committed only on success")
				case name == "alloc":
					okA := false
					ast.Inspect(kv.Value, func(n ast.Node) bool {
						if call, ok := n.(*ast.CallExpr); ok {
							if se, ok := call.Fun.(*ast.SelectorExpr); ok && se.Sel.Name == "Fork" {
								okA = true
							}
						}
						return true
					})
					c.Check("tx-store-fresh", f.Name+" field alloc", kv.Pos(), okA, "allocator must be forked, not shared")
				case usesRecv:
					_, okS := shared[name]
					c.Check("tx-store-fresh", f.Name+" field "+name, kv.Pos(), okS, "field is shared with the parent store (`"+engine.ExprString(kv.Value)+"`) but is not in the shared-immutable table")
				}
			}
			for name := range mustFresh {
				if !seen[name] {
					c.Check("tx-store-fresh", f.Name+" field "+name, lit.Pos(), false, "per-transaction cache not initialised in BeginTransaction")
				}
			}
			c.Floor("tx-store-fresh", n, 10)
		}
	}
	// transactionStore.Write commits only the node log
	// gno tx store commit gated by IsOK in the EndTxHook.
	const CG = "gno.land/pkg/sdk/vm.(*VMKeeper).CommitGnoTransactionStore"
	refs := p.RefsToFunc(CG, "gno.land/pkg/sdk/vm.(VMKeeperI).CommitGnoTransactionStore")
	hookOK := 0
	for _, r := range refs {
		if r.Fn == nil || r.Fn.Lit == nil {
			continue
		}
		// is this literal passed to SetEndTxHook?
		isHook := false
		par := r.Fn.Parent
		if par != nil {
			for _, s := range par.CallsTo("tm2/pkg/sdk.(*BaseApp).SetEndTxHook") {
				for _, a := range s.Call.Args {
					if a == ast.Expr(r.Fn.Lit) {
						isHook = true
					}
				}
			}
		}
		if !isHook {
			continue
		}
		site := r.Fn.SiteOf(r.Ident)
		ok := false
		if site != nil {
			for _, gt := range r.Fn.Graph().Gates(site) {
				// `if result.IsOK() { commit }` or `if !result.IsOK() { return }; commit`
				if condCallsMethod(gt.Cond, "IsOK") && len(engine.Atoms(gt.Cond)) == 1 && gt.OnTrue == !isNot(gt.Cond) {
					ok = true
				}
			}
		}
		hookOK++
		c.Check("gno-commit-gate", "EndTxHook CommitGnoTransactionStore under result.IsOK()", r.Ident.Pos(), ok, "the gno transaction store (block-node log) must be committed only for successful txs")
	}
	c.Floor("gno-commit-gate", hookOK, 1)
	callers := engine.CallerSet(refs)
	// NewAppWithOptions: the EndTxHook literal (gated above); loadStdlibs and
	// assertGenesisValopersConsistent: genesis-time, committed after the call succeeded.
	allowed := []string{"gno.land/pkg/gnoland.NewAppWithOptions", "gno.land/pkg/gnoland.(InitChainerConfig).loadStdlibs", "gno.land/pkg/gnoland.assertGenesisValopersConsistent"}
	var extra []string
	for _, x := range callers {
		okc := false
		for _, a := range allowed {
			if x == a {
				okc = true
			}
		}
		if !okc {
			extra = append(extra, x)
		}
	}
	c.Check("who-may-call", CG, token.NoPos, len(extra) == 0, "callers outside the frozen table (tx end hook, genesis/stdlib loading): "+join(extra)+"; all callers: "+join(callers))
	// doRecover re-panics out-of-gas in tx mode
	if f := c.MustFunc("gno.land/pkg/sdk/vm.doRecoverInternal"); f != nil {
		g := f.Graph()
		ok := false
		for _, s := range f.CallsTo("builtin.panic") {
			for _, gt := range g.Gates(s) {
				if gt.OnTrue && engine.MentionsName(gt.Cond, "repanicOutOfGas") {
					ok = true
				}
			}
		}
		c.Check("oog-repanic", f.Name, f.Pos(), ok, "out-of-gas must be re-panicked (to runTx's recover) when repanicOutOfGas is set")
	}
	if f := c.MustFunc("gno.land/pkg/sdk/vm.doRecover"); f != nil {
		ok := false
		for _, s := range f.CallsTo("gno.land/pkg/sdk/vm.doRecoverInternal") {
			if len(s.Call.Args) == 4 {
				if tv, has := f.Info().Types[s.Call.Args[3]]; has && tv.Value != nil && tv.Value.String() == "true" {
					ok = true
				}
			}
		}
		c.Check("oog-repanic", f.Name, f.Pos(), ok, "tx-mode recover must pass repanicOutOfGas = true")
	}
}

// deepCondCallsMethod reports whether cond calls the named method, directly or
// through an identifier that stands for such a call: a local with a single
// definition `ok := r.IsOK()`, or a parameter of the helper on d's chain whose
// argument at the call site is such a call (`commit(ms, cp, r.IsOK())`).
func deepCondCallsMethod(d engine.DeepSite, cond ast.Expr, name string) bool {
	if condCallsMethod(cond, name) {
		return true
	}
	found := false
	check := func(fn *engine.Fn, call *ast.CallExpr) {
		ast.Inspect(cond, func(n ast.Node) bool {
			id, ok := n.(*ast.Ident)
			if !ok || found {
				return !found
			}
			obj := fn.Info().ObjectOf(id)
			if obj == nil {
				return true
			}
			// single-definition local
			var def ast.Expr
			ndef := 0
			engine.InspectBody(fn, func(x ast.Node) {
				if as, ok := x.(*ast.AssignStmt); ok && len(as.Lhs) == len(as.Rhs) {
					for i, l := range as.Lhs {
						if engine.ObjOf(fn.Info(), l) == obj {
							ndef++
							def = as.Rhs[i]
						}
					}
				}
			})
			if ndef == 1 && def != nil && condCallsMethod(def, name) {
				found = true
			}
			// parameter of the helper → argument at the call
			if call != nil && fn.Type.Params != nil {
				k := 0
				for _, fld := range fn.Type.Params.List {
					for _, nm := range fld.Names {
						if fn.Info().ObjectOf(nm) == obj && k < len(call.Args) && condCallsMethod(call.Args[k], name) {
							found = true
						}
						k++
					}
				}
			}
			return !found
		})
	}
	check(d.Outer.Fn, nil)
	if d.Inner != d.Outer && len(d.Chain) == 1 {
		check(d.Chain[0], d.Outer.Call)
	}
	return found
}
