package checks

import (
	"go/ast"
	"go/constant"
	"go/token"
	"go/types"
	"sort"
	"strings"

	"golang.org/x/tools/go/ssa"

	"gnoverif/engine"
)

// C48 — BitArray / CompactBitArray behave like boolean vectors (structural clauses).
func init() {
	register("C48", c48)
	meta("C48", Meta{
		Text:      "Decides three families of necessary conditions over tm2/pkg/bitarray and tm2/pkg/crypto/multisig/bitarray. (1) nil-guard: in every exported pointer-receiver method, each dereference of the receiver (field access, lock, whole-value copy) is reached only on paths where the receiver was tested non-nil (forward must-nilness over go/ssa blocks with infeasible-edge pruning; `Size() > 0` counts because Size returns 0 for nil) — the property quantifies over nil arrays. (2) padding-clean: every word/byte store into Elems is, in an abstract domain {clean, dirty}, clean: loads of Elems, &, &^ with a clean left side, | of clean words, and a single bit guarded by the size test preserve zero padding; a complement (^word) does not unless the function masks the last word afterwards — IsEmpty, Bytes, Or/Sub on mixed sizes all read the padding. (3) maybe-nil-result / json-alphabet: results of New*BitArray (nil for 0 bits) are dereferenced only after a nil test, and the JSON writer/reader use the same two symbols. Level 'other'.",
		Note:      "Not covered: word arithmetic of IsFull/getTrueIndices/Bytes, copyBits truncation reasoning, Update with mismatched sizes, self-aliasing (a.Or(a) locks the same mutex twice), negative indices, CompactUnmarshal of malformed input. UnmarshalJSON receivers are exempt from nil-guard (encoding/json never passes nil).",
		Technique: "go/ssa forward nilness with edge facts, abstract evaluation of stored word expressions, constant-alphabet agreement",
		Ref:       "DESIGN.md §2 C48",
	})
	const bf = "tm2/pkg/bitarray/bit_array.go"
	const cf = "tm2/pkg/crypto/multisig/bitarray/compact_bit_array.go"
	mutants("C48",
		Mutant{"isempty-nil-guard-dropped", bf, "if bA == nil {\n\t\treturn true // should this be opposite?\n\t}\n", "", "nil-guard tm2/pkg/bitarray.(*BitArray).IsEmpty"},
		Mutant{"and-guard-weakened", bf, "if bA == nil || o == nil {\n\t\treturn nil\n\t}\n\tbA.mtx.Lock()\n\to.mtx.Lock()\n\tdefer func() {", "if bA == nil && o == nil {\n\t\treturn nil\n\t}\n\tbA.mtx.Lock()\n\to.mtx.Lock()\n\tdefer func() {", "nil-guard tm2/pkg/bitarray.(*BitArray).And"},
		Mutant{"compact-copy-guard-dropped", cf, "func (bA *CompactBitArray) Copy() *CompactBitArray {\n\tif bA == nil {\n\t\treturn nil\n\t}", "func (bA *CompactBitArray) Copy() *CompactBitArray {", "nil-guard tm2/pkg/crypto/multisig/bitarray.(*CompactBitArray).Copy"},
		Mutant{"sub-complements-word", bf, "c.Elems[i] &^= o.Elems[i]", "c.Elems[i] = ^(^c.Elems[i] | o.Elems[i]) | ^o.Elems[i]&0", "padding-clean tm2/pkg/bitarray.(*BitArray).Sub"},
		Mutant{"or-with-complement", bf, "c.Elems[i] |= o.Elems[i]", "c.Elems[i] |= ^o.Elems[i]", "padding-clean tm2/pkg/bitarray.(*BitArray).Or"},
		Mutant{"setindex-bound-dropped", bf, "func (bA *BitArray) setIndex(i int, v bool) bool {\n\tif i >= bA.Bits || i/64 >= len(bA.Elems) {", "func (bA *BitArray) setIndex(i int, v bool) bool {\n\tif i/64 >= len(bA.Elems) {", "padding-clean tm2/pkg/bitarray.(*BitArray).setIndex"},
		Mutant{"bitarray-unmarshal-nil-result", bf, "if bA2 == nil {\n\t\t// Treat it as if we encountered the case: b == \"null\"", "if bA2 == nil && numBits < 0 {\n\t\t// Treat it as if we encountered the case: b == \"null\"", "maybe-nil-result tm2/pkg/bitarray.(*BitArray).UnmarshalJSON"},
		Mutant{"refix-bytes-nil-guard-dropped", bf, "func (bA *BitArray) Bytes() []byte {\n\tif bA == nil {\n\t\treturn nil\n\t}\n", "func (bA *BitArray) Bytes() []byte {\n", "nil-guard tm2/pkg/bitarray.(*BitArray).Bytes"},
		Mutant{"refix-not-mask-dropped", bf, "c.Elems[len(c.Elems)-1] &= (uint64(1) << uint(rem)) - 1", "_ = rem", "padding-clean tm2/pkg/bitarray.(*BitArray).not"},
		Mutant{"refix-compact-empty-json", cf, "\tif bA2 == nil {\n\t\t// Zero bits", "\tif bA2 == nil && numBits < 0 {\n\t\t// Zero bits", "maybe-nil-result tm2/pkg/crypto/multisig/bitarray.(*CompactBitArray).UnmarshalJSON"},
		Mutant{"json-symbol-drift", bf, "bits.WriteString(`x`)", "bits.WriteString(`X`)", "json-alphabet"},
		Mutant{"compact-json-symbol-drift", cf, "if bits[i] == 'x' {", "if bits[i] == '_' {", "json-alphabet"},
	)
}

var c48NilExempt = map[string]string{
	"UnmarshalJSON":    "decoder target: encoding/json and amino never call it on a nil receiver",
	"UnmarshalBinary2": "generated amino decoder target: never called on a nil receiver",
}

func c48(c *engine.Ctx) {
	c.Explain = "nil-guard: receiver dereferences in every exported pointer method of BitArray/CompactBitArray happen only where the receiver is known non-nil (must-nilness dataflow; Size()>0 idiom). padding-clean: every store into Elems keeps the bits beyond the size zero in the {clean,dirty} abstraction (complement is dirty unless the last word is masked afterwards; single-bit stores need the index<size guard). maybe-nil-result: results of NewBitArray/NewCompactBitArray are dereferenced only after a nil test. json-alphabet: Marshal/Unmarshal agree on the symbols x and _. Not covered: IsFull/getTrueIndices/Bytes word arithmetic, copyBits truncation, Update, aliasing deadlock, malformed binary input."
	p := c.Load("tm2/pkg/bitarray", "tm2/pkg/crypto/multisig/bitarray")
	if p == nil {
		return
	}
	types_ := []struct{ pkg, name string }{{"tm2/pkg/bitarray", "BitArray"}, {"tm2/pkg/crypto/multisig/bitarray", "CompactBitArray"}}

	// ---- nil-guard
	ng := 0
	for _, t := range types_ {
		named := p.Named(t.pkg + "." + t.name)
		if named == nil {
			c.Undecided("anchor", t.pkg+"."+t.name, "type not found")
			continue
		}
		// Size returns 0 for nil?
		sizeNilZero := false
		if sz := p.Func(t.pkg + ".(*" + t.name + ").Size"); sz != nil {
			if sf := p.SSAFunc(sz); sf != nil && len(sf.Params) > 0 {
				st := cjNilness(sf, nil)
				for _, b := range sf.Blocks {
					if r, ok := b.Instrs[len(b.Instrs)-1].(*ssa.Return); ok && !st[b].Dead && st[b].Facts[sf.Params[0]] == 1 {
						if k, ok := cjConstInt(r.Results[0]); ok && k == 0 {
							sizeNilZero = true
						}
					}
				}
			}
		}
		var fns []*engine.Fn
		for _, f := range p.FuncsIn(t.pkg) {
			if f.Obj == nil || f.Decl == nil || f.Decl.Recv == nil || !f.Obj.Exported() {
				continue
			}
			sig := f.Obj.Type().(*types.Signature)
			pt, ok := sig.Recv().Type().(*types.Pointer)
			if !ok || !types.Identical(pt.Elem(), named) {
				continue
			}
			fns = append(fns, f)
		}
		for _, f := range fns {
			if why, ex := c48NilExempt[f.Obj.Name()]; ex {
				c.Check("nil-guard", f.Name+" (exempt)", f.Pos(), true, why)
				continue
			}
			sf := cjSSA(c, p, f)
			if sf == nil {
				continue
			}
			ng++
			recv := sf.Params[0]
			sizeOf := func(v ssa.Value) ssa.Value {
				if !sizeNilZero {
					return nil
				}
				if call, ok := v.(*ssa.Call); ok && cjCalleeName(call) == t.pkg+".(*"+t.name+").Size" && cjCanon(sf)(call.Call.Args[0]) == ssa.Value(recv) {
					return recv
				}
				return nil
			}
			st := cjNilness(sf, sizeOf)
			var bad []string
			for _, in := range cjDerefs(sf, recv) {
				s := st[in.Block()]
				if s.Dead || s.Facts[recv] == 2 {
					continue
				}
				bad = append(bad, p.Pos(in.Pos())+" "+strings.SplitN(in.String(), "\n", 2)[0])
			}
			// closures capturing the receiver (deferred unlocks) are entered only after the outer guard: their
			// creation site must be guarded too
			for _, b := range sf.Blocks {
				for _, in := range b.Instrs {
					if mc, ok := in.(*ssa.MakeClosure); ok {
						for _, bind := range mc.Bindings {
							isRecv := bind == ssa.Value(recv)
							if al, ok := bind.(*ssa.Alloc); ok {
								for _, r := range *al.Referrers() {
									if s2, ok := r.(*ssa.Store); ok && s2.Addr == bind && s2.Val == ssa.Value(recv) {
										isRecv = true
									}
								}
							}
							if isRecv && !(st[b].Dead || st[b].Facts[recv] == 2) {
								bad = append(bad, p.Pos(mc.Pos())+" closure over the unchecked receiver")
							}
						}
					}
				}
			}
			sort.Strings(bad)
			c.Check("nil-guard", f.Name, f.Pos(), len(bad) == 0, "the receiver is dereferenced where it may be nil: "+join(bad))
		}
	}
	c.Floor("nil-guard", ng, 26)

	// ---- maybe-nil-result
	nr := 0
	for _, t := range types_ {
		for _, f := range p.FuncsIn(t.pkg) {
			if f.Obj == nil {
				continue
			}
			sf := p.SSAFunc(f)
			if sf == nil {
				continue
			}
			calls := cjSSACalls(sf, t.pkg+".NewBitArray", t.pkg+".NewCompactBitArray")
			if len(calls) == 0 {
				continue
			}
			st := cjNilness(sf, nil)
			for _, call := range calls {
				// a constant positive argument cannot yield nil
				if k, ok := cjConstInt(call.Call.Args[0]); ok && k > 0 {
					continue
				}
				ds := cjDerefs(sf, call)
				if len(ds) == 0 {
					continue
				}
				nr++
				var bad []string
				for _, in := range ds {
					s := st[in.Block()]
					if s.Dead || s.Facts[call] == 2 {
						continue
					}
					bad = append(bad, p.Pos(in.Pos()))
				}
				c.Check("maybe-nil-result", f.Name+" uses "+cjCalleeName(call), call.Pos(), len(bad) == 0,
					"the constructor returns nil for a size of 0 (e.g. the JSON string \"\"); its result is dereferenced without a nil test at "+join(bad))
			}
		}
	}
	c.Floor("maybe-nil-result", nr, 2)

	// ---- padding-clean
	np := 0
	for _, t := range types_ {
		named := p.Named(t.pkg + "." + t.name)
		if named == nil {
			continue
		}
		for _, f := range p.FuncsIn(t.pkg) {
			for _, st := range c48ElemStores(f, named) {
				np++
				ok, why := c48CleanStore(f, st, named)
				c.Check("padding-clean", f.Name+" store "+engine.ExprString(st.Lhs[0])+" "+st.Tok.String(), st.Pos(), ok, why)
			}
		}
	}
	c.Floor("padding-clean", np, 8)

	// ---- json-alphabet
	nj := 0
	for _, t := range types_ {
		m := c.MustFunc(t.pkg + ".(*" + t.name + ").MarshalJSON")
		u := c.MustFunc(t.pkg + ".(*" + t.name + ").UnmarshalJSON")
		if m == nil || u == nil {
			continue
		}
		nj++
		written := map[string]bool{}
		for _, s := range m.CallsTo("strings.(*Builder).WriteString", "strings.(*Builder).WriteByte", "strings.(*Builder).WriteRune") {
			if tv, ok := m.Info().Types[s.Call.Args[0]]; ok && tv.Value != nil {
				v := tv.Value
				str := ""
				if v.Kind() == constant.String {
					str = constant.StringVal(v)
				} else if k, ok := constant.Int64Val(v); ok {
					str = string(rune(k))
				}
				if str != `"` {
					written[str] = true
				}
			}
		}
		// reader: the rune compared with bits[i] means "set"
		setSym := ""
		engine.InspectBody(u, func(n ast.Node) {
			is, ok := n.(*ast.IfStmt)
			if !ok {
				return
			}
			b, ok := ast.Unparen(is.Cond).(*ast.BinaryExpr)
			if !ok || b.Op != token.EQL {
				return
			}
			if _, isIdx := ast.Unparen(b.X).(*ast.IndexExpr); !isIdx {
				return
			}
			callsSet := false
			ast.Inspect(is.Body, func(x ast.Node) bool {
				if call, ok := x.(*ast.CallExpr); ok {
					if se, ok := call.Fun.(*ast.SelectorExpr); ok && se.Sel.Name == "SetIndex" && len(call.Args) == 2 {
						if v, ok := cjConstBool(u.Info(), call.Args[1]); ok && v {
							callsSet = true
						}
					}
				}
				return true
			})
			if tv, ok := u.Info().Types[b.Y]; ok && tv.Value != nil && callsSet {
				if k, ok := constant.Int64Val(tv.Value); ok {
					setSym = string(rune(k))
				}
			}
		})
		// the symbol written for a set bit: the WriteString in the branch taken when getIndex/GetIndex is true
		setWritten := ""
		engine.InspectBody(m, func(n ast.Node) {
			is, ok := n.(*ast.IfStmt)
			if !ok {
				return
			}
			call, ok := ast.Unparen(is.Cond).(*ast.CallExpr)
			if !ok {
				return
			}
			if se, ok := call.Fun.(*ast.SelectorExpr); !ok || !strings.EqualFold(se.Sel.Name, "getindex") {
				return
			}
			ast.Inspect(is.Body, func(x ast.Node) bool {
				if cl, ok := x.(*ast.CallExpr); ok && len(cl.Args) == 1 {
					if tv, ok := m.Info().Types[cl.Args[0]]; ok && tv.Value != nil && tv.Value.Kind() == constant.String {
						setWritten = constant.StringVal(tv.Value)
					}
				}
				return true
			})
		})
		// regexp class
		re := ""
		if v, ok := p.Object(t.pkg + ".bitArrayJSONRegexp").(*types.Var); ok && v != nil {
			for _, file := range p.Pkg(t.pkg).Syntax {
				ast.Inspect(file, func(n ast.Node) bool {
					vs, ok := n.(*ast.ValueSpec)
					if !ok || len(vs.Names) != 1 || vs.Names[0].Name != "bitArrayJSONRegexp" || len(vs.Values) != 1 {
						return true
					}
					if call, ok := vs.Values[0].(*ast.CallExpr); ok && len(call.Args) == 1 {
						if tv, ok := p.Pkg(t.pkg).TypesInfo.Types[call.Args[0]]; ok && tv.Value != nil {
							re = constant.StringVal(tv.Value)
						}
					}
					return true
				})
			}
		}
		okRe := strings.Contains(re, "[_x]*") || strings.Contains(re, "[x_]*")
		ok := len(written) == 2 && written["x"] && written["_"] && setSym == "x" && setWritten == "x" && okRe
		c.Check("json-alphabet", t.pkg+"."+t.name+" Marshal/Unmarshal symbols", m.Pos(), ok,
			"writer symbols "+join(cjKeys(written))+" (set bit written as "+cjQuote(setWritten)+"), reader sets a bit on "+cjQuote(setSym)+", accepted pattern "+cjQuote(re))
	}
	c.Floor("json-alphabet", nj, 2)
}

// c48ElemStores lists assignments (in f's body and nested literals excluded) whose
// target is an element of the Elems field of the named type.
func c48ElemStores(f *engine.Fn, named *types.Named) []*ast.AssignStmt {
	info := f.Info()
	var out []*ast.AssignStmt
	engine.InspectBody(f, func(n ast.Node) {
		as, ok := n.(*ast.AssignStmt)
		if !ok || len(as.Lhs) != 1 {
			return
		}
		if c48IsElem(info, as.Lhs[0], named) {
			out = append(out, as)
		}
	})
	return out
}

func c48IsElem(info *types.Info, e ast.Expr, named *types.Named) bool {
	ix, ok := ast.Unparen(e).(*ast.IndexExpr)
	if !ok {
		return false
	}
	se, ok := ast.Unparen(ix.X).(*ast.SelectorExpr)
	if !ok || se.Sel.Name != "Elems" {
		return false
	}
	t := info.TypeOf(se.X)
	if t == nil {
		return false
	}
	if pt, ok := t.Underlying().(*types.Pointer); ok {
		t = pt.Elem()
	}
	return types.Identical(t, named)
}

// c48CleanStore evaluates the stored word in the padding abstraction.
func c48CleanStore(f *engine.Fn, as *ast.AssignStmt, named *types.Named) (bool, string) {
	info := f.Info()
	g := f.Graph()
	site := f.SiteOf(as)
	// single bit 1<<k is inside the array only when the index was tested against the size
	sizeGuarded := func() bool {
		if site == nil {
			return false
		}
		// some fact at the store says `index < X.Bits` / `index < X.Size()`; the test may be
		// written inline, negated with an early return, or live in a one-line bool helper
		for _, ft := range cjFactsAt(f, site) {
			x, op, y, ok := cjCmpFact(ft)
			if !ok {
				continue
			}
			if op == token.GTR {
				x, y, op = y, x, token.LSS
			}
			if op != token.LSS {
				continue
			}
			if _, isVar := engine.ObjOf(ft.Fn.Info(), x).(*types.Var); !isVar {
				continue
			}
			switch yy := ast.Unparen(y).(type) {
			case *ast.SelectorExpr:
				if yy.Sel.Name == "Bits" {
					return true
				}
			case *ast.CallExpr:
				if se, ok := yy.Fun.(*ast.SelectorExpr); ok && se.Sel.Name == "Size" {
					return true
				}
			}
		}
		return false
	}
	var eval func(e ast.Expr, depth int) (bool, string)
	eval = func(e ast.Expr, depth int) (bool, string) {
		e = ast.Unparen(e)
		if depth > 6 {
			return false, "expression too deep"
		}
		if k, ok := cjConstOf(info, e); ok && k == 0 {
			return true, ""
		}
		switch x := e.(type) {
		case *ast.IndexExpr:
			if c48IsElem(info, x, named) {
				return true, ""
			}
		case *ast.CallExpr:
			// conversion
			if tv, ok := info.Types[x.Fun]; ok && tv.IsType() && len(x.Args) == 1 {
				return eval(x.Args[0], depth+1)
			}
			// a pure one-line helper computing a single-bit mask: `return T(1) << k`
			if st := f.SiteOf(x); st != nil {
				if o, _ := st.Callee.(*types.Func); o != nil {
					if h := f.Prog.FnOf(o); h != nil && len(h.Body.List) == 1 {
						if r, ok := h.Body.List[0].(*ast.ReturnStmt); ok && len(r.Results) == 1 {
							if b, ok := ast.Unparen(r.Results[0]).(*ast.BinaryExpr); ok && b.Op == token.SHL {
								if k, ok := cjConstOf(h.Info(), ast.Unparen(c48StripConv(h.Info(), b.X))); ok && k == 1 {
									if sizeGuarded() {
										return true, ""
									}
									return false, "single-bit store is not gated by `index < size` → may set a padding bit"
								}
							}
						}
					}
				}
			}
		case *ast.UnaryExpr:
			if x.Op == token.XOR {
				return false, "complement `" + engine.ExprString(x) + "` sets the bits beyond the size"
			}
		case *ast.BinaryExpr:
			switch x.Op {
			case token.AND:
				if l, _ := eval(x.X, depth+1); l {
					return true, ""
				}
				if r, _ := eval(x.Y, depth+1); r {
					return true, ""
				}
				return false, "neither side of `&` is known padding-clean"
			case token.AND_NOT:
				return eval(x.X, depth+1)
			case token.OR, token.XOR:
				l, wl := eval(x.X, depth+1)
				if !l {
					return false, wl
				}
				return eval(x.Y, depth+1)
			case token.SHL:
				if k, ok := cjConstOf(info, ast.Unparen(c48StripConv(info, x.X))); ok && k == 1 {
					if sizeGuarded() {
						return true, ""
					}
					return false, "single-bit store is not gated by `index >= size` → may set a padding bit"
				}
			}
		case *ast.Ident:
			// local defined once
			obj := info.ObjectOf(x)
			var def ast.Expr
			n := 0
			engine.InspectBody(f, func(nd ast.Node) {
				if a, ok := nd.(*ast.AssignStmt); ok && len(a.Lhs) == len(a.Rhs) {
					for i, l := range a.Lhs {
						if engine.ObjOf(info, l) == obj {
							n++
							def = a.Rhs[i]
						}
					}
				}
			})
			if n == 1 {
				return eval(def, depth+1)
			}
		}
		return false, "cannot show `" + engine.ExprString(e) + "` keeps the padding zero"
	}
	var ok bool
	var why string
	switch as.Tok {
	case token.AND_ASSIGN, token.AND_NOT_ASSIGN:
		ok = true // the target word is clean by invariant; & and &^ only clear bits
	case token.OR_ASSIGN, token.XOR_ASSIGN:
		ok, why = eval(as.Rhs[0], 0)
	case token.ASSIGN:
		ok, why = eval(as.Rhs[0], 0)
	default:
		ok, why = false, "unrecognised store operator "+as.Tok.String()
	}
	if ok {
		return true, "stored word keeps padding bits zero"
	}
	// discharged by a later mask of the last word in the same function?
	masked := false
	engine.InspectBody(f, func(n ast.Node) {
		m, isAs := n.(*ast.AssignStmt)
		if !isAs || len(m.Lhs) != 1 || m == as || !c48IsElem(info, m.Lhs[0], named) {
			return
		}
		ix := ast.Unparen(m.Lhs[0]).(*ast.IndexExpr)
		last := false
		if b, ok := ast.Unparen(ix.Index).(*ast.BinaryExpr); ok && b.Op == token.SUB {
			if k, ok := cjConstOf(info, b.Y); ok && k == 1 {
				if call, ok := ast.Unparen(b.X).(*ast.CallExpr); ok && engine.IsBuiltinCall(info, call, "len") {
					last = true
				}
			}
		}
		isMask := m.Tok == token.AND_ASSIGN
		if m.Tok == token.ASSIGN {
			if b, ok := ast.Unparen(m.Rhs[0]).(*ast.BinaryExpr); ok && b.Op == token.AND {
				isMask = true
			}
		}
		if ms := f.SiteOf(m); last && isMask && ms != nil && site != nil && g.ReachableAfter(site, ms) {
			masked = true
		}
	})
	if masked {
		return true, "dirty store followed by a mask of the last word"
	}
	return false, why + "; no later `Elems[len(Elems)-1] &= mask` restores the invariant that IsEmpty/Bytes/Or/Sub rely on"
}

func c48StripConv(info *types.Info, e ast.Expr) ast.Expr {
	for {
		e = ast.Unparen(e)
		call, ok := e.(*ast.CallExpr)
		if !ok || len(call.Args) != 1 {
			return e
		}
		if tv, ok := info.Types[call.Fun]; ok && tv.IsType() {
			e = call.Args[0]
			continue
		}
		return e
	}
}
