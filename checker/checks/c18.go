package checks

import (
	"go/ast"
	"go/token"
	"go/types"
	"sort"

	"gnoverif/engine"

	"golang.org/x/tools/go/cfg"
)

// C18 — coin-set arithmetic: operands untouched, checked amount arithmetic,
// validated results, zero-free merge, parse validates.
func init() {
	register("C18", c18)
	meta("C18", Meta{
		Text:      "Decides structural necessary conditions of the coin-set property on tm2/pkg/std: (1) no alias of either operand of Coins.Add/AddUnsafe/Sub/SubUnsafe is stored through, appended onto, or handed to a callee that (transitively, by a bottom-up effect summary) writes through it; (2) inside everything these operations call, no native + - * / << or unary minus touches Coin.Amount — amounts are combined only by overflow.Add/Sub whose ok result gates a panic; (3) Coin.Add/Sub and Coins.Add/Sub return exactly the result of the matching *Unsafe call on (receiver, argument) and only on the branch where validate() of that result returned nil, the other branch panics; (4) every element appended to the merged result is guarded by !IsZero() or comes from removeZeroCoins; (5) ParseCoins returns a set only after Sort and a nil validate(). Level 'other'.",
		Note:      "Not covered: that the merge computes the per-denomination sum (multiset equality), the comparison helpers (IsAllGT…, IsEqual), the String/ParseCoins round trip, operand aliasing through unsafe or reflection. The effect summary is flow-insensitive and treats unknown external callees as writers.",
		Technique: "AST/go-types effect summary (R-EFF) with alias closure, typed operator filter (R-ARITH), go/cfg checked-guard dominance (R-DOM)",
		Ref:       "DESIGN.md §2 C18",
	})
	const F = "tm2/pkg/std/coin.go"
	mutants("C18",
		Mutant{"add-sorts-operand", F, "res := coins.AddUnsafe(coinsB)\n\tif err := res.validate(); err != nil {", "res := coins.Sort().AddUnsafe(coinsB)\n\tif err := res.validate(); err != nil {", "no-operand-write tm2/pkg/std.(Coins).Sort coins -> sort.Sort#0"},
		Mutant{"sub-negates-in-place", F, "res := coins.AddUnsafe(coinsB.negative())", "for i := range coinsB {\n\t\tcoinsB[i].Amount = 0 - coinsB[i].Amount\n\t}\n\tres := coins.AddUnsafe(coinsB)", "no-operand-write tm2/pkg/std.(Coins).SubUnsafe coinsB -> store"},
		Mutant{"sum-reuses-operand", F, "sum := ([]Coin)(nil)", "sum := ([]Coin)(coins[:0])", "coins -> builtin.append#0"},
		Mutant{"coin-add-native", F, "sum, ok := overflow.Add(coin.Amount, coinB.Amount)", "sum, ok := coin.Amount+coinB.Amount, true", "amount-arith tm2/pkg/std.(Coin).AddUnsafe"},
		Mutant{"coin-sub-ok-ignored", F, "dff, ok := overflow.Sub(coin.Amount, coinB.Amount)\n\tif !ok {", "dff, ok := overflow.Sub(coin.Amount, coinB.Amount)\n\tif !ok && dff == 0 {", "checked-amount-op tm2/pkg/std.(Coin).SubUnsafe"},
		Mutant{"coins-sub-validate-dropped", F, "res := coins.SubUnsafe(coinsB)\n\tif err := res.validate(); err != nil {", "res := coins.SubUnsafe(coinsB)\n\tif err := res.validate(); err != nil && len(res) > 8 {", "validated-result tm2/pkg/std.(Coins).Sub"},
		Mutant{"coins-add-calls-sub", F, "res := coins.AddUnsafe(coinsB)\n\tif err := res.validate(); err != nil {", "res := coins.SubUnsafe(coinsB)\n\tif err := res.validate(); err != nil {", "validated-result tm2/pkg/std.(Coins).Add"},
		Mutant{"merge-keeps-zero", F, "if !res.IsZero() {\n\t\t\t\tsum = append(sum, res)\n\t\t\t}", "if true {\n\t\t\t\tsum = append(sum, res)\n\t\t\t}", "append(res)"},
		Mutant{"remove-zero-in-place", F, "\tres := make(Coins, first, len(coins)-1)\n\tcopy(res, coins[:first])", "\tres := coins[:first]", "no-operand-write tm2/pkg/std.removeZeroCoins coins -> builtin.append#0"},
		Mutant{"parse-skips-validate", F, "if err := coins.validate(); err != nil {\n\t\treturn nil, fmt.Errorf(\"parseCoins", "if err := coins.validate(); err != nil && len(coins) > 64 {\n\t\treturn nil, fmt.Errorf(\"parseCoins", "parse-validates"},
	)
}

func c18(c *engine.Ctx) {
	c.Explain = "Decides on tm2/pkg/std: (1) R-EFF — every flow of an alias of an operand of Coins.{Add,AddUnsafe,Sub,SubUnsafe} into a store or a callee is non-writing (bottom-up effect summary; sort.Sort, slices.Delete… are writers; unknown external callees count as writers); (2) R-ARITH — in the call closure of Coin/Coins Add/Sub no native arithmetic touches Coin.Amount, Coin.AddUnsafe/SubUnsafe combine (receiver.Amount, arg.Amount) by overflow.Add/Sub and panic on !ok, after a denom-equality panic gate; (3) Add/Sub return the matching *Unsafe result only when validate() of it is nil, else panic; (4) appends to the merged result are zero-guarded; (5) ParseCoins sorts and validates before returning. Not covered: multiset equality of the merge, comparison helpers, print/parse round trip."
	p := c.Load("tm2/pkg/std")
	if p == nil {
		return
	}
	const S = "tm2/pkg/std."
	coinsAdd, coinsSub := c.MustFunc(S+"(Coins).Add"), c.MustFunc(S+"(Coins).Sub")
	coinsAddU, coinsSubU := c.MustFunc(S+"(Coins).AddUnsafe"), c.MustFunc(S+"(Coins).SubUnsafe")
	coinAdd, coinSub := c.MustFunc(S+"(Coin).Add"), c.MustFunc(S+"(Coin).Sub")
	coinAddU, coinSubU := c.MustFunc(S+"(Coin).AddUnsafe"), c.MustFunc(S+"(Coin).SubUnsafe")
	amount := p.Field(S + "Coin.Amount")
	if amount == nil {
		c.Undecided("anchor", S+"Coin.Amount", "field not found")
		return
	}
	for _, f := range []*engine.Fn{coinsAdd, coinsSub, coinsAddU, coinsSubU, coinAdd, coinSub, coinAddU, coinSubU} {
		if f == nil {
			return
		}
	}

	// ---- (1) R-EFF: operands are not written through ----
	eff := newAuthdEff(p)
	// Worklist over (function, operand): the four operations with both operands,
	// then every package-local callee that is handed an alias of an operand. Each
	// pair's direct flows are the obligations, so a write is reported once, where
	// it happens.
	type fk struct {
		f *engine.Fn
		k int
	}
	var work []fk
	seenFK := map[fk]bool{}
	deleg := map[*engine.Fn]bool{}
	push := func(f *engine.Fn, k int) {
		if !seenFK[fk{f, k}] {
			seenFK[fk{f, k}] = true
			work = append(work, fk{f, k})
		}
	}
	for _, f := range p.FuncsIn("tm2/pkg/std") {
		if f.Obj != nil {
			deleg[f] = true // every declared function of the package can carry its own obligation
		}
	}
	for _, f := range []*engine.Fn{coinsAdd, coinsAddU, coinsSub, coinsSubU} {
		for k, o := range authdOperands(f) {
			if o != nil && authdRefLike(o.Type()) {
				push(f, k)
			}
		}
	}
	nflows := 0
	for len(work) > 0 {
		w := work[0]
		work = work[1:]
		f, k := w.f, w.k
		o := authdOperands(f)[k]
		type agg struct {
			pos    token.Pos
			ok     bool
			reason string
		}
		bySink := map[string]*agg{}
		for _, fl := range eff.flows(f, k, deleg) {
			a := bySink[fl.Sink]
			if a == nil {
				a = &agg{pos: fl.Pos, ok: true, reason: fl.Reason}
				bySink[fl.Sink] = a
			}
			if fl.Write && a.ok {
				a.ok, a.pos, a.reason = false, fl.Pos, fl.Reason
			}
			if fl.Callee != nil && deleg[fl.Callee] {
				push(fl.Callee, fl.Arg)
			}
		}
		sinks := make([]string, 0, len(bySink))
		for s := range bySink {
			sinks = append(sinks, s)
		}
		sort.Strings(sinks)
		for _, s := range sinks {
			a := bySink[s]
			nflows++
			c.Check("no-operand-write", f.Name+" "+o.Name()+" -> "+s, a.pos, a.ok, a.reason)
		}
	}
	c.Floor("no-operand-write", nflows, 12)

	// ---- (2) R-ARITH over the call closure ----
	clos := authdClosure(p, coinsAdd, coinsSub, coinsAddU, coinsSubU, coinAdd, coinSub)
	na := 0
	for _, f := range clos {
		if f.Pkg.PkgPath != engine.ModPrefix+"tm2/pkg/std" {
			continue
		}
		na++
		info := f.Info()
		bad := ""
		var badPos token.Pos
		ast.Inspect(f.Body, func(n ast.Node) bool {
			if bad != "" {
				return false
			}
			switch x := n.(type) {
			case *ast.BinaryExpr:
				switch x.Op {
				case token.ADD, token.SUB, token.MUL, token.QUO, token.REM, token.SHL, token.SHR:
					if authdAmountOperand(info, x.X, amount) || authdAmountOperand(info, x.Y, amount) {
						bad, badPos = "native `"+engine.ExprString(x)+"` on a coin amount (unchecked for overflow)", x.Pos()
					}
				}
			case *ast.UnaryExpr:
				if x.Op == token.SUB && authdAmountOperand(info, x.X, amount) {
					bad, badPos = "native negation `"+engine.ExprString(x)+"` of a coin amount", x.Pos()
				}
			case *ast.AssignStmt:
				switch x.Tok {
				case token.ADD_ASSIGN, token.SUB_ASSIGN, token.MUL_ASSIGN, token.QUO_ASSIGN, token.SHL_ASSIGN, token.SHR_ASSIGN, token.REM_ASSIGN:
					if authdAmountOperand(info, x.Lhs[0], amount) || authdAmountOperand(info, x.Rhs[0], amount) {
						bad, badPos = "native compound assignment on a coin amount", x.Pos()
					}
				}
			case *ast.IncDecStmt:
				if authdAmountOperand(info, x.X, amount) {
					bad, badPos = "native ++/-- on a coin amount", x.Pos()
				}
			}
			return true
		})
		pos := f.Pos()
		if bad != "" {
			pos = badPos
		}
		c.Check("amount-arith", f.Name, pos, bad == "", bad)
	}
	c.Floor("amount-arith", na, 12)

	// checked amount op in Coin.AddUnsafe / SubUnsafe
	for _, pr := range []struct {
		f      *engine.Fn
		helper string
	}{{coinAddU, "tm2/pkg/overflow.Add"}, {coinSubU, "tm2/pkg/overflow.Sub"}} {
		ok, why := authdCheckedAmountOp(pr.f, pr.helper, amount, p.Field(S+"Coin.Denom"))
		c.Check("checked-amount-op", pr.f.Name, pr.f.Pos(), ok, why)
	}
	c.Floor("checked-amount-op", 2, 2)

	// ---- (3) validated results ----
	for _, pr := range []struct{ f, unsafe *engine.Fn }{{coinAdd, coinAddU}, {coinSub, coinSubU}, {coinsAdd, coinsAddU}, {coinsSub, coinsSubU}} {
		ok, why := authdValidatedResult(pr.f, pr.unsafe)
		c.Check("validated-result", pr.f.Name, pr.f.Pos(), ok, why)
	}
	c.Floor("validated-result", 4, 4)
	// SubUnsafe must subtract: it either is the subtraction merge itself or adds the negated argument
	{
		ok, why := false, "SubUnsafe neither calls a negating helper on its argument nor a subtracting coin operation"
		info := coinsSubU.Info()
		bObj := paramObj(coinsSubU, 0)
		for _, f := range authdClosure(p, coinsSubU) {
			if len(f.CallsToDeep(S+"(Coin).SubUnsafe", S+"(Coin).Sub", "tm2/pkg/overflow.Sub")) > 0 {
				ok, why = true, "reaches a subtracting coin operation ("+f.Name+")"
			}
		}
		for _, s := range coinsSubU.CallsTo(S + "(Coins).negative") {
			if se, isSel := ast.Unparen(s.Call.Fun).(*ast.SelectorExpr); isSel && engine.ObjOf(info, se.X) == bObj {
				ok, why = true, "adds the negated argument"
			}
		}
		c.Check("sub-subtracts", coinsSubU.Name, coinsSubU.Pos(), ok, why)
	}

	// ---- (4) zero-free appends in the merge ----
	nz := 0
	var merges []*engine.Fn
	for _, f := range authdClosure(p, coinsAddU, coinsSubU) {
		if f == coinAddU || f == coinSubU || f.Pkg.PkgPath != engine.ModPrefix+"tm2/pkg/std" {
			continue
		}
		if len(f.CallsToDeep(S+"(Coin).AddUnsafe", S+"(Coin).SubUnsafe")) > 0 {
			merges = append(merges, f)
		}
	}
	c.Check("zero-free-append", "merge function present", token.NoPos, len(merges) > 0, "no function in the closure of Coins.AddUnsafe/SubUnsafe combines coins")
	if rz := p.Func(S + "removeZeroCoins"); rz != nil {
		merges = append(merges, rz)
	}
	seenApp := map[ast.Node]bool{}
	for _, mf := range merges {
		for _, ds := range mf.DeepFind(2, func(fn *engine.Fn, n ast.Node) bool {
			call, ok := n.(*ast.CallExpr)
			return ok && authdCalleeName(fn.Info(), call) == "builtin.append"
		}) {
			s := ds.Inner
			f := s.Fn
			if seenApp[s.Node] || f.Pkg.PkgPath != engine.ModPrefix+"tm2/pkg/std" {
				continue
			}
			seenApp[s.Node] = true
			info := f.Info()
			g := f.Graph()
			if len(s.Call.Args) < 2 {
				continue
			}
			// the append must build the result: its value is assigned to a returned local, or returned
			dst := engine.ObjOf(info, s.Call.Args[0])
			_, inReturn := s.Top.(*ast.ReturnStmt)
			if !(inReturn || (dst != nil && returnsObj(f, dst)) || authdReturnedViaAppend(f, dst)) {
				continue
			}
			if t, ok := info.TypeOf(s.Call).Underlying().(*types.Slice); !ok || !authdIsNamed(t.Elem(), S+"Coin") {
				continue
			}
			for _, a := range s.Call.Args[1:] {
				nz++
				key := f.Name + " append(" + engine.ExprString(a) + ")"
				if s.Call.Ellipsis.IsValid() {
					_, isRZ := authdCalleeIs(info, a, S+"removeZeroCoins")
					c.Check("zero-free-append", key, s.Pos(), isRZ, "a spread tail appended to the result must come from removeZeroCoins")
					continue
				}
				ok := false
				for _, gt := range g.Gates(s) {
					for _, fc := range authdFacts(gt) {
						if !fc.Neg {
							continue
						}
						if call, is := authdCalleeIs(info, fc.E, S+"(Coin).IsZero"); is {
							if se, isSel := ast.Unparen(call.Fun).(*ast.SelectorExpr); isSel && authdSameExpr(se.X, a) {
								ok = true
							}
						}
						// amount == 0 written out
						if x, op, y, isCmp := authdCmp(authdFact{E: fc.E}); isCmp && op == token.EQL {
							if v, isC := authdConstInt(info, y); isC && v == 0 && authdIsField(info, x, amount) {
								if se, isSel := ast.Unparen(x).(*ast.SelectorExpr); isSel && authdSameExpr(se.X, a) {
									ok = true
								}
							}
						}
					}
				}
				c.Check("zero-free-append", key, s.Pos(), ok, "an element appended to the result must be guarded by !"+engine.ExprString(a)+".IsZero()")
			}
		}
	}
	c.Floor("zero-free-append", nz, 3)

	// ---- (5) ParseCoins sorts and validates ----
	if f := c.MustFunc(S + "ParseCoins"); f != nil {
		info := f.Info()
		g := f.Graph()
		n := 0
		for _, rs := range authdReturns(f) {
			if len(rs.Results) != 2 || !isNil(rs.Results[1]) || isNil(rs.Results[0]) {
				continue
			}
			n++
			ro := engine.ObjOf(info, rs.Results[0])
			st := f.SiteOf(rs)
			ok, why := false, "no validate() of the returned set gates the successful return"
			for _, v := range f.CallsTo(S + "(Coins).validate") {
				se, isSel := ast.Unparen(v.Call.Fun).(*ast.SelectorExpr)
				if !isSel || engine.ObjOf(info, se.X) != ro || ro == nil {
					continue
				}
				r := g.CheckedGuard(v, st)
				if r.OK && authdErrNotNil(r.Cond) && !r.OnTrue {
					ok, why = true, "returned only when validate() == nil"
				} else if r.OK {
					why = "validate() result is tested as `" + engine.ExprString(r.Cond) + "`, which does not reject every invalid set"
				}
			}
			sorted := false
			for _, s := range f.CallsTo(S + "(Coins).Sort") {
				if se, isSel := ast.Unparen(s.Call.Fun).(*ast.SelectorExpr); isSel && engine.ObjOf(info, se.X) == ro && g.Dominates(s, st) {
					sorted = true
				}
			}
			if ok && !sorted {
				ok, why = false, "the returned set is not sorted on every path"
			}
			c.Check("parse-validates", f.Name, rs.Pos(), ok, why)
		}
		c.Floor("parse-validates", n, 1)
	}
}

// authdAmountOperand: e is (a conversion of) a selector of Coin.Amount, or a
// call of Coins.AmountOf.
func authdAmountOperand(info *types.Info, e ast.Expr, amount *types.Var) bool {
	e = ast.Unparen(e)
	if authdIsField(info, e, amount) {
		return true
	}
	if call, ok := e.(*ast.CallExpr); ok {
		if tv, ok := info.Types[call.Fun]; ok && tv.IsType() && len(call.Args) == 1 {
			return authdAmountOperand(info, call.Args[0], amount)
		}
		if authdCalleeName(info, call) == "tm2/pkg/std.(Coins).AmountOf" {
			return true
		}
	}
	if b, ok := e.(*ast.BinaryExpr); ok {
		return authdAmountOperand(info, b.X, amount) || authdAmountOperand(info, b.Y, amount)
	}
	if u, ok := e.(*ast.UnaryExpr); ok {
		return authdAmountOperand(info, u.X, amount)
	}
	return false
}

func authdIsNamed(t types.Type, q string) bool {
	n, ok := types.Unalias(t).(*types.Named)
	if !ok || n.Obj().Pkg() == nil {
		return false
	}
	return engine.Rel(n.Obj().Pkg().Path())+"."+n.Obj().Name() == q
}

func authdErrNotNil(cond ast.Expr) bool {
	b, ok := ast.Unparen(cond).(*ast.BinaryExpr)
	if !ok || b.Op != token.NEQ {
		return false
	}
	_, isID := ast.Unparen(b.X).(*ast.Ident)
	return isID && isNil(b.Y)
}

// authdReturnedViaAppend: some return statement is `return append(dst, ...)`.
func authdReturnedViaAppend(f *engine.Fn, dst types.Object) bool {
	if dst == nil {
		return false
	}
	info := f.Info()
	found := false
	for _, rs := range authdReturns(f) {
		for _, r := range rs.Results {
			if call, ok := authdCalleeIs(info, r, "builtin.append"); ok && len(call.Args) > 0 && engine.ObjOf(info, call.Args[0]) == dst {
				found = true
			}
		}
	}
	return found
}

// authdCheckedAmountOp: f combines (recv.Amount, arg.Amount) by the given
// overflow helper, panics on !ok and on a denom mismatch, and returns a Coin
// whose amount is the helper's result.
func authdCheckedAmountOp(f *engine.Fn, helper string, amount, denom *types.Var) (bool, string) {
	info := f.Info()
	g := f.Graph()
	ops := authdOperands(f)
	if len(ops) != 2 || ops[0] == nil || ops[1] == nil {
		return false, "unexpected signature"
	}
	calls := f.CallsTo(helper)
	if len(calls) != 1 {
		return false, "expected exactly one call to " + helper
	}
	h := calls[0]
	isAmt := func(e ast.Expr, of types.Object) bool {
		se, ok := ast.Unparen(e).(*ast.SelectorExpr)
		return ok && authdIsField(info, se, amount) && engine.ObjOf(info, se.X) == of
	}
	if len(h.Call.Args) != 2 || !isAmt(h.Call.Args[0], ops[0]) || !isAmt(h.Call.Args[1], ops[1]) {
		return false, helper + " is not applied to (receiver.Amount, argument.Amount) in order"
	}
	lhs := authdLhsObjs(f, h)
	if len(lhs) != 2 || lhs[0] == nil || lhs[1] == nil {
		return false, "helper results are not bound"
	}
	if len(authdAssignsTo(f, lhs[0])) != 1 || len(authdAssignsTo(f, lhs[1])) != 1 {
		return false, "helper results are reassigned"
	}
	rets := authdReturns(f)
	if len(rets) == 0 {
		return false, "no return"
	}
	for _, rs := range rets {
		st := f.SiteOf(rs)
		if st == nil || len(rs.Results) != 1 {
			return false, "unexpected return"
		}
		r := g.CheckedGuard(h, st)
		if !r.OK || authdOkPolarity(info, r.Cond, lhs[1]) == 0 || (authdOkPolarity(info, r.Cond, lhs[1]) == +1) != r.OnTrue {
			return false, "the return is not restricted to the branch where the overflow helper reported ok (the other branch must panic)"
		}
		// returned composite carries the helper's result as amount
		cl, ok := ast.Unparen(rs.Results[0]).(*ast.CompositeLit)
		if !ok {
			return false, "does not return a Coin literal"
		}
		var amt, dn ast.Expr
		for i, el := range cl.Elts {
			if kv, isKV := el.(*ast.KeyValueExpr); isKV {
				switch engine.ExprString(kv.Key) {
				case "Amount":
					amt = kv.Value
				case "Denom":
					dn = kv.Value
				}
			} else if i == 0 {
				dn = el
			} else if i == 1 {
				amt = el
			}
		}
		if amt == nil || engine.ObjOf(info, amt) != lhs[0] {
			return false, "the returned coin's amount is not the checked result"
		}
		if dn == nil || !authdIsField(info, dn, denom) {
			return false, "the returned coin's denom is not an operand's denom"
		}
		// denom equality gate: a dominating comparison, or a guard helper that
		// returns normally only when the two denominations are equal
		if !authdDenomGuarded(f, st, ops[0], ops[1], denom) {
			return false, "the return is not gated by equality of the two denominations"
		}
	}
	return true, "overflow-checked, denom-gated"
}

// authdValidatedResult: f computes res := recv.<unsafe>(arg), validates res and
// returns res only when validation returned nil; the failing branch cannot return.
func authdValidatedResult(f, unsafe *engine.Fn) (bool, string) {
	info := f.Info()
	g := f.Graph()
	ops := authdOperands(f)
	if len(ops) != 2 || ops[0] == nil || ops[1] == nil {
		return false, "unexpected signature"
	}
	calls := f.CallsTo(unsafe.Name)
	if len(calls) != 1 {
		return false, "expected exactly one call to " + unsafe.Name
	}
	u := calls[0]
	se, ok := ast.Unparen(u.Call.Fun).(*ast.SelectorExpr)
	if !ok || engine.ObjOf(info, se.X) != ops[0] || len(u.Call.Args) != 1 || engine.ObjOf(info, u.Call.Args[0]) != ops[1] {
		return false, unsafe.Name + " is not applied as receiver." + authdShort(unsafe.Name) + "(argument)"
	}
	lhs := authdLhsObjs(f, u)
	if len(lhs) != 1 || lhs[0] == nil || len(authdAssignsTo(f, lhs[0])) != 1 {
		return false, "the unsafe result is not bound to a single-assignment variable"
	}
	res := lhs[0]
	// the validate call on res
	var val *engine.Site
	for _, s := range f.CallsTo("tm2/pkg/std.(Coins).validate", "tm2/pkg/std.validate") {
		if engine.Mentions(info, s.Call, res) {
			val = s
		}
	}
	if val == nil {
		return false, "the result is not validated"
	}
	if s, isSel := ast.Unparen(val.Call.Fun).(*ast.SelectorExpr); isSel {
		if engine.ObjOf(info, s.X) != res {
			return false, "validate() is not called on the result"
		}
	} else {
		// validate(res.Denom, res.Amount)
		if len(val.Call.Args) != 2 || !engine.Mentions(info, val.Call.Args[0], res) || !engine.Mentions(info, val.Call.Args[1], res) {
			return false, "validate is not applied to the result's denom and amount"
		}
	}
	rets := authdReturns(f)
	if len(rets) == 0 {
		return false, "no return"
	}
	for _, rs := range rets {
		if len(rs.Results) != 1 || engine.ObjOf(info, rs.Results[0]) != res {
			return false, "a return does not yield the validated result"
		}
		st := f.SiteOf(rs)
		if st == nil {
			return false, "return not in CFG"
		}
		r := g.CheckedGuard(val, st)
		if !r.OK {
			return false, "the return is not gated by the validation result: " + r.Why
		}
		if !authdErrNotNil(r.Cond) || r.OnTrue {
			return false, "validation is tested as `" + engine.ExprString(r.Cond) + "`; an invalid result can be returned"
		}
	}
	return true, "returns " + authdShort(unsafe.Name) + " result only when validate() == nil"
}

// authdDenomGuarded: at site st of f the fact a.Denom == b.Denom holds, either
// by a gate of f or because a dominating call of a package-local guard helper
// (whose mismatch branch cannot return) was passed a and b.
func authdDenomGuarded(f *engine.Fn, st *engine.Site, a, b types.Object, denom *types.Var) bool {
	info := f.Info()
	g := f.Graph()
	denomOf := func(in *types.Info, e ast.Expr) types.Object {
		se, ok := ast.Unparen(e).(*ast.SelectorExpr)
		if !ok || !authdIsField(in, se, denom) {
			return nil
		}
		return engine.ObjOf(in, se.X)
	}
	for _, gt := range g.Gates(st) {
		for _, fc := range authdFacts(gt) {
			x, op, y, isCmp := authdCmp(fc)
			if !isCmp || op != token.EQL {
				continue
			}
			p, q := denomOf(info, x), denomOf(info, y)
			if (p == a && q == b) || (p == b && q == a) {
				return true
			}
		}
	}
	for _, cs := range f.Calls() {
		fn, _ := cs.Callee.(*types.Func)
		h := f.Prog.FnOf(fn)
		if h == nil || h == f || cs.Deferred || !g.Dominates(cs, st) {
			continue
		}
		// which parameters of h receive a and b
		hops := authdOperands(h)
		var args []ast.Expr
		if se, ok := ast.Unparen(cs.Call.Fun).(*ast.SelectorExpr); ok {
			if sel, ok := info.Selections[se]; ok && sel.Kind() == types.MethodVal {
				args = append(args, se.X)
			}
		}
		args = append(args, cs.Call.Args...)
		var pa, pb types.Object
		for i, e := range args {
			if i >= len(hops) {
				break
			}
			switch engine.ObjOf(info, e) {
			case a:
				pa = hops[i]
			case b:
				pb = hops[i]
			}
		}
		if pa == nil || pb == nil || len(authdAssignsTo(h, pa)) != 0 || len(authdAssignsTo(h, pb)) != 0 {
			continue
		}
		hi := h.Info()
		hg := h.Graph()
		// every normal exit of h carries the fact pa.Denom == pb.Denom
		exits := hg.ReturnBlocks()
		// falling off the end of a function without results also is a return block in go/cfg
		if len(exits) == 0 {
			continue
		}
		all := true
		for _, eb := range exits {
			var site *engine.Site
			if len(eb.Nodes) > 0 {
				site = h.SiteOf(eb.Nodes[len(eb.Nodes)-1])
			}
			proved := false
			for _, c := range hg.CFG.Blocks {
				cond := hg.CondOf(c)
				if cond == nil || !(c == eb || hg.BlockDominates(c, eb)) {
					continue
				}
				x, op, y, isCmp := authdCmp(authdFact{E: cond})
				if !isCmp {
					continue
				}
				p, q := denomOf(hi, x), denomOf(hi, y)
				if !((p == pa && q == pb) || (p == pb && q == pa)) {
					continue
				}
				mis := c.Succs[0]
				if op == token.EQL {
					mis = c.Succs[1]
				} else if op != token.NEQ {
					continue
				}
				// the mismatch branch must not reach this exit
				if mis != eb && !hg.Reach(mis, eb, map[*cfg.Block]bool{c: true}) {
					proved = true
				}
			}
			_ = site
			if !proved {
				all = false
			}
		}
		if all {
			return true
		}
	}
	return false
}
